import CogentModel.Proofs.AlnRefine1
import CogentModel.Proofs.AlnMono
namespace CogentModel.Aln
open CogentModel.IndelMap CogentModel.Gapped List CogentModel

theorem cntF_take_le (xs : List Bool) (i j : Nat) (h : i ≤ j) : cntF (xs.take i) ≤ cntF (xs.take j) := by
  have e2 : xs.take j = xs.take i ++ (xs.drop i).take (j - i) := by
    rw [← take_append_drop i (xs.take j), take_take, drop_take]
    congr 2; omega
  rw [e2, cntF_append]; omega

theorem cntF_take_le_all (xs : List Bool) (i : Nat) : cntF (xs.take i) ≤ cntF xs := by
  conv => rhs; rw [← take_append_drop i xs]
  rw [cntF_append]; omega

/-- **one kept block**: the data between the two sequence indices, shown through the renumbered
slice pattern, is the slice of the displayed row -/
theorem keepSeg_spec (r : Row) (h : RowWF r) (a b ss se : Int)
    (hsI : getSeqIndex r.map a = .ok ss) (heI : getSeqIndex r.map b = .ok se) :
    (PySlice.slice r.data (some ss) (some se) 1).length =
        cntF (pattern (PySlice.slice (IndelMap.abs r.map) (some a) (some b) 1)) ∧
    (ofPatternFrom 0 (pattern (PySlice.slice (IndelMap.abs r.map) (some a) (some b) 1))).filterMap
        (showCol (PySlice.slice r.data (some ss) (some se) 1)) = PySlice.slice (gapped r) (some a) (some b) 1 := by
  obtain ⟨hw, hp⟩ := h
  have hlenabs : ((IndelMap.abs r.map).length : Int) = len r.map := len_eq' r.map hw
  have hn0 : 0 ≤ len r.map := by omega
  obtain ⟨hA0, hsv⟩ := getSeqIndex_ok _ _ _ hsI
  obtain ⟨hB0, hev⟩ := getSeqIndex_ok _ _ _ heI
  generalize hA : conv (len r.map) a = A at *
  generalize hB : conv (len r.map) b = B at *
  have hcntall : cntF (pattern (IndelMap.abs r.map)) = r.data.length := by
    rw [← seqLen_eq_cntF, seqLen_abs _ hw]; omega
  have hL0 : (0 : Int) ≤ r.data.length := by omega
  -- the slice of the abstract string and of the displayed string
  have hsl : PySlice.slice (IndelMap.abs r.map) (some a) (some b) 1 =
      ((IndelMap.abs r.map).drop (min A (len r.map)).toNat).take (min B (len r.map) - min A (len r.map)).toNat := by
    have := slice_conv (IndelMap.abs r.map) (some a) (some b)
      (by simp only [Option.getD_some]; rw [hlenabs, hA]; exact hA0)
      (by simp only [Option.getD_some]; rw [hlenabs, hB]; exact hB0)
    simp only [Option.getD_some] at this
    rw [hlenabs, hA, hB] at this
    exact this
  have hRHS : PySlice.slice (gapped r) (some a) (some b) 1 =
      (((IndelMap.abs r.map).drop (min A (len r.map)).toNat).take
        (min B (len r.map) - min A (len r.map)).toNat).map (dispCol r.data) := by
    rw [gapped_total r ⟨hw, hp⟩, View.slice_map _ _ _ _ _ (by omega), hsl]
  have hs0 : 0 ≤ ss := by
    have := seqIndexNN_mono r.map hw 0 A (by omega) hA0
    have h00 : seqIndexNN r.map 0 = 0 := by
      have := seq_index_spec' r.map hw 0 (by omega) hn0
      simpa [seqIndex, seqLen] using this
    omega
  have he0 : 0 ≤ se := by
    have := seqIndexNN_mono r.map hw 0 B (by omega) hB0
    have h00 : seqIndexNN r.map 0 = 0 := by
      have := seq_index_spec' r.map hw 0 (by omega) hn0
      simpa [seqIndex, seqLen] using this
    omega
  rw [hRHS, hsl]
  simp only [pattern, map_take, map_drop]
  rw [slice_nonneg r.data ss se hs0 he0]
  by_cases hcase : min A (len r.map) ≥ min B (len r.map)
  · -- empty block
    have e0 : (min B (len r.map) - min A (len r.map)).toNat = 0 := by omega
    have hD : (min se r.data.length - min ss r.data.length).toNat = 0 := by
      by_cases hAn : A ≥ len r.map
      · have := seqIndexNN_beyond r.map hw A hAn
        omega
      · have hBA : B ≤ A := by omega
        have := seqIndexNN_mono r.map hw B A hB0 hBA
        omega
    rw [e0, hD]
    simp [cntF, ofPatternFrom]
  · have hAlt : A < min B (len r.map) := by omega
    have e1 : min A (len r.map) = A := by omega
    rw [e1]
    generalize hpat' : ((map Option.isNone (IndelMap.abs r.map)).drop A.toNat).take (min B (len r.map) - A).toNat = pat' at *
    have hsN : ss = (cntF ((pattern (IndelMap.abs r.map)).take A.toNat) : Int) := by
      rw [hsv, seq_index_spec' r.map hw A hA0 (by omega), seqIndex_eq_cntF]
    have hstopN : seqIndexNN r.map (min B (len r.map)) =
        (cntF ((pattern (IndelMap.abs r.map)).take (min B (len r.map)).toNat) : Int) := by
      rw [seq_index_spec' r.map hw _ (by omega) (by omega), seqIndex_eq_cntF]
    have hcnt2 : cntF pat' = cntF ((pattern (IndelMap.abs r.map)).take (min B (len r.map)).toNat)
        - cntF ((pattern (IndelMap.abs r.map)).take A.toNat) := by
      rw [← hpat']
      have := cntF_take_drop (pattern (IndelMap.abs r.map)) A.toNat (min B (len r.map)).toNat (by omega)
      rw [← this]; simp only [pattern]; congr 2; omega
    have hmono := cntF_take_le (pattern (IndelMap.abs r.map)) A.toNat (min B (len r.map)).toNat (by omega)
    have htot : cntF ((pattern (IndelMap.abs r.map)).take (min B (len r.map)).toNat) ≤ r.data.length := by
      have := cntF_take_le_all (pattern (IndelMap.abs r.map)) (min B (len r.map)).toNat
      omega
    have heval : min se r.data.length = (cntF ((pattern (IndelMap.abs r.map)).take (min B (len r.map)).toNat) : Int) := by
      by_cases hsl' : B ≤ len r.map
      · have e3 : min B (len r.map) = B := by omega
        rw [e3] at hstopN htot ⊢
        rw [hev, hstopN]; omega
      · have e3 : min B (len r.map) = len r.map := by omega
        rw [e3] at hstopN htot ⊢
        have hb := seqIndexNN_beyond r.map hw B (by omega)
        have hb2 := seqIndexNN_beyond r.map hw (len r.map) (by omega)
        rw [hev, hb, ← hstopN, hb2]; omega
    have a1 : (min ss r.data.length).toNat = cntF ((pattern (IndelMap.abs r.map)).take A.toNat) := by omega
    have a2 : (min se r.data.length - min ss r.data.length).toNat = cntF pat' := by omega
    rw [a1, a2]
    refine ⟨by rw [length_take, length_drop]; omega, ?_⟩
    have hd := display_shift r.data (cntF ((pattern (IndelMap.abs r.map)).take A.toNat)) (cntF pat') (by omega) pat' 0 (by omega)
    simp only [Nat.add_zero] at hd
    rw [hd]
    conv => rhs; rw [abs_eq_ofPattern r.map hw, ofPattern]
    rw [← map_drop, ← map_take, drop_ofPatternFrom, take_ofPatternFrom]
    simp only [pattern, Nat.zero_add]
    rw [hpat']

end CogentModel.Aln
