import CogentModel.Proofs.AlnKeep2
namespace CogentModel.Aln
open CogentModel.IndelMap CogentModel.Gapped List CogentModel

theorem slice_raw {α} [Inhabited α] (s : List α) (a b : Int) (ha : 0 ≤ a) (hab : a ≤ b) :
    PySlice.slice s (some a) (some b) 1 = (s.drop a.toNat).take (b - a).toNat := by
  rw [slice_nonneg s a b ha (by omega)]
  by_cases h : (s.length : Int) ≤ a
  · have e1 : (min a s.length).toNat = s.length := by omega
    rw [e1, drop_length, drop_eq_nil_of_le (by omega)]; simp
  · have e1 : (min a s.length).toNat = a.toNat := by omega
    rw [e1]
    by_cases hb : (s.length : Int) ≤ b
    · rw [take_of_length_le (by rw [length_drop]; omega), take_of_length_le (by rw [length_drop]; omega)]
    · have e2 : (min b s.length - min a s.length).toNat = (b - a).toNat := by omega
      rw [e2]

theorem maskRuns_keys (mask : List Bool) : ∀ (pos : Int) (start : Option Int),
    (∀ st, start = some st → st ≤ pos) →
    ((maskRuns pos start mask).map (·.1)).Pairwise (· < ·) ∧
    ∀ x ∈ maskRuns pos start mask, start.getD pos ≤ x.1 := by
  induction mask with
  | nil =>
    intro pos start _
    cases start with
    | none => simp [maskRuns]
    | some st => simp [maskRuns]
  | cons b r ih =>
    intro pos start hst
    cases b with
    | true =>
      obtain ⟨i1, i2⟩ := ih (pos + 1) (some (start.getD pos)) (by
        intro st h; cases h
        cases start with
        | none => simp
        | some s0 => have := hst s0 rfl; simp only [Option.getD_some]; omega)
      exact ⟨i1, fun x hx => by have := i2 x hx; simpa using this⟩
    | false =>
      obtain ⟨i1, i2⟩ := ih (pos + 1) none (by intro st h; cases h)
      simp only [Option.getD_none] at i2
      cases start with
      | none => exact ⟨by simpa [maskRuns] using i1, fun x hx => by
          have := i2 x (by simpa [maskRuns] using hx); simp only [Option.getD_none]; omega⟩
      | some st =>
        have hs := hst st rfl
        simp only [maskRuns, singleton_append, map_cons, pairwise_cons, Option.getD_some]
        refine ⟨⟨?_, i1⟩, ?_⟩
        · intro q hq
          obtain ⟨x, hx, rfl⟩ := mem_map.mp hq
          have := i2 x hx; omega
        · intro x hx
          rcases mem_cons.mp hx with rfl | hx'
          · simp
          · have := i2 x hx'; omega

theorem maskRuns_nil (mask : List Bool) : ∀ (pos : Int) (start : Option Int),
    maskRuns pos start mask = [] → start = none ∧ mask.all (! ·) = true := by
  induction mask with
  | nil => intro pos start h; cases start <;> simp [maskRuns] at h ⊢
  | cons b r ih =>
    intro pos start h
    cases b with
    | true => have := ih _ _ h; simp at this
    | false =>
      cases start with
      | none =>
        simp only [maskRuns, nil_append] at h
        exact ⟨rfl, by simpa using (ih _ _ h).2⟩
      | some st => simp [maskRuns] at h

theorem denseFilter_cons_true (c : Char) (t : List Char) (r : List Bool) :
    denseFilter (c :: t) (true :: r) = c :: denseFilter t r := by simp [denseFilter]
theorem denseFilter_cons_false (c : Char) (t : List Char) (r : List Bool) :
    denseFilter (c :: t) (false :: r) = denseFilter t r := by simp [denseFilter]
theorem denseFilter_nil (m : List Bool) : denseFilter [] m = [] := by simp [denseFilter]

/-- joining the run-length blocks of the kept columns = taking the kept columns -/
theorem keep_runs_eq_filter (s : List Char) (mask : List Bool) : ∀ (pos : Nat) (start : Option Int),
    (∀ st, start = some st → 0 ≤ st ∧ st ≤ pos) →
    denseKeep s (maskRuns pos start mask) =
      (match start with | some st => (s.drop st.toNat).take (pos - st.toNat) | none => []) ++
        denseFilter (s.drop pos) mask := by
  induction mask with
  | nil =>
    intro pos start hst
    cases start with
    | none => simp [maskRuns, denseKeep, denseFilter]
    | some st =>
      obtain ⟨h0, h1⟩ := hst st rfl
      simp only [maskRuns, denseKeep, flatMap_cons, flatMap_nil, append_nil]
      rw [slice_raw s st pos h0 h1]
      have : ((pos : Int) - st).toNat = pos - st.toNat := by omega
      rw [this]; simp [denseFilter]
  | cons b r ih =>
    intro pos start hst
    have hcast : ((pos : Int) + 1) = ((pos + 1 : Nat) : Int) := by push_cast; rfl
    cases b with
    | true =>
      simp only [maskRuns]
      rw [hcast, ih (pos + 1) (some (start.getD pos)) (by
        intro st h; cases h
        cases start with
        | none => simp
        | some s0 => obtain ⟨a, b⟩ := hst s0 rfl; simp only [Option.getD_some]; omega)]
      simp only []
      cases hd : s.drop pos with
      | nil =>
        have hlen : s.length ≤ pos := by
          by_contra hc
          have := congrArg length hd; simp only [length_drop, length_nil] at this; omega
        rw [drop_eq_nil_of_le (by omega : s.length ≤ pos + 1), denseFilter_nil, denseFilter_nil]
        cases start with
        | none => simp [drop_eq_nil_of_le hlen]
        | some st =>
          simp only [Option.getD_some]
          rw [take_of_length_le (by rw [length_drop]; omega), take_of_length_le (by rw [length_drop]; omega)]
      | cons c t =>
        have hlt : pos < s.length := by
          by_contra hc
          rw [drop_eq_nil_of_le (by omega)] at hd; cases hd
        have ht : s.drop (pos + 1) = t := by
          have := drop_drop (l := s) (i := 1) (j := pos)
          rw [hd] at this; simpa using this.symm
        rw [ht, denseFilter_cons_true]
        have hc : s[pos] = c := by
          have h1 : (s.drop pos)[0]? = some c := by rw [hd]; rfl
          rw [getElem?_drop, Nat.add_zero, getElem?_eq_getElem hlt] at h1
          exact Option.some.inj h1
        cases start with
        | none =>
          simp only [Option.getD_none, Int.toNat_natCast, nil_append]
          rw [show pos + 1 - pos = 1 by omega, hd]; simp
        | some st =>
          obtain ⟨a0, b0⟩ := hst st rfl
          simp only [Option.getD_some]
          have e1 : pos + 1 - st.toNat = (pos - st.toNat) + 1 := by omega
          rw [e1, take_add_one, append_assoc]
          congr 1
          rw [getElem?_drop, show st.toNat + (pos - st.toNat) = pos by omega, getElem?_eq_getElem hlt, hc]
          rfl
    | false =>
      simp only [maskRuns]
      have ihh := ih (pos + 1) none (by intro st h; cases h)
      rw [hcast]
      simp only [denseKeep, flatMap_append] at ihh ⊢
      rw [ihh]
      simp only [nil_append]
      have hdf : denseFilter (s.drop pos) (false :: r) = denseFilter (s.drop (pos + 1)) r := by
        cases hd : s.drop pos with
        | nil =>
          have hlen : s.length ≤ pos := by
            by_contra hc
            have := congrArg length hd; simp only [length_drop, length_nil] at this; omega
          rw [drop_eq_nil_of_le (by omega : s.length ≤ pos + 1), denseFilter_nil, denseFilter_nil]
        | cons c t =>
          have ht : s.drop (pos + 1) = t := by
            have := drop_drop (l := s) (i := 1) (j := pos)
            rw [hd] at this; simpa using this.symm
          rw [ht, denseFilter_cons_false]
      rw [hdf]
      cases start with
      | none => simp
      | some st =>
        obtain ⟨a0, b0⟩ := hst st rfl
        simp only [flatMap_cons, flatMap_nil, append_nil]
        rw [slice_raw s st pos a0 b0]
        have : ((pos : Int) - st).toNat = pos - st.toNat := by omega
        rw [this]

theorem denseKeep_maskRuns (s : List Char) (mask : List Bool) :
    denseKeep s (maskRuns 0 none mask) = denseFilter s mask := by
  have := keep_runs_eq_filter s mask 0 none (by intro st h; cases h)
  simpa using this

end CogentModel.Aln
