import CogentModel.Gen.C09Newick
import CogentModel.Proofs.PhyloNames
/-! C09 wave 3: the GENERATED `TreeBuilder._unique_name` (Gen/C09Newick.lean, translator/c09_names2lean.py) against the hand model
`Model/PhyloNames.lean`: the recursion lemmas used by `gen_unique_name_eq` in Props/C09.lean. -/
namespace CogentModel.C09
open CogentModel.Phylo
namespace GenNames
open CogentModel.Gen.C09Newick (pyOr dHas dGet uniqueNameRec usedNamesInit)

theorem usedGet_usedSet_same (u : Used) (k : String) (v : Int) : usedGet (usedSet u k v) k = some v := by
  induction u with
  | nil => simp [usedSet, usedGet]
  | cons p u ih =>
    obtain ⟨k', v'⟩ := p
    by_cases h : k' = k
    · simp [usedSet, usedGet, h]
    · simp [usedSet, usedGet, h, ih]

theorem suffixed_ne_empty (s t : String) : s ++ ("." ++ t) ≠ "" := by
  intro h
  have := congrArg String.length h
  simp [String.length_append] at this

theorem pyOr_some (s : String) (h : s ≠ "") (d : String) : pyOr (some s) d = s := by
  simp [pyOr, h]

end GenNames

/-- the names one builder hands out, computed with the GENERATED definitions only -/
def genAssignFrom : Used → List (Option String) → List String
  | _, [] => []
  | u, l :: ls => let r := CogentModel.Gen.C09Newick.uniqueName u l; r.2 :: genAssignFrom r.1 ls

end CogentModel.C09
