import CogentModel.Proofs.AlnSliceSpec
namespace CogentModel.Aln
open CogentModel.IndelMap CogentModel.Gapped List CogentModel

theorem seqIndexNN_mono (m : IMap) (h : WF m) (x y : Int) (hx : 0 ≤ x) (hxy : x ≤ y) :
    seqIndexNN m x ≤ seqIndexNN m y := by
  have hTs : TSorted 0 (trips 0 m.gapPos m.cumLens) := by
    have := trips_sorted m.gapPos m.cumLens (-1) 0 h.inc; simpa using this
  have hTr : TRel 0 0 (trips 0 m.gapPos m.cumLens) := by
    have := trips_rel m.gapPos m.cumLens 0 0; simpa using this
  rw [seqIndexNN_eq_T m h, seqIndexNN_eq_T m h]
  rw [← seqIdxT_comp _ 0 0 x y hTs hx hxy]
  exact seqIdxT_ge_next _ _ _ _ (dropT_sorted _ 0 x hTs hx) (dropT_rel _ 0 0 x hTs hTr hx) hxy

end CogentModel.Aln
