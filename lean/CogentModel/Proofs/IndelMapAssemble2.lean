import CogentModel.Proofs.IndelMapAssemble1
namespace CogentModel.IndelMap
open CogentModel.Gapped List

theorem getitemGaps_general (m : IMap) (h : WF m) (hne : m.gapPos ≠ []) (start stop : Int) (h0 : 0 ≤ start)
    (hlt : start < stop)
    (hc1 : ¬ (stop < m.gapPos.headD 0 ∨ start ≥ lastD m.gapPos + lastD m.cumLens))
    (hc2 : ¬ (getN (gapStarts m.gapPos m.cumLens) (ssLeft (gapEnds m.gapPos m.cumLens) start) ≤ start ∧
              start < getN (gapEnds m.gapPos m.cumLens) (ssLeft (gapEnds m.gapPos m.cumLens) start) ∧
              stop ≤ getN (gapEnds m.gapPos m.cumLens) (ssLeft (gapEnds m.gapPos m.cumLens) start))) :
    getitemGaps m start stop =
      mkLengths ((takeT stop (dropT start (trips 0 m.gapPos m.cumLens))).map (·.1 - seqIndexNN m start))
        ((takeT stop (dropT start (trips 0 m.gapPos m.cumLens))).map tlen)
        (seqIndexNN m stop - seqIndexNN m start) := by
  have hl := h.len_eq
  have hTs : TSorted 0 (trips 0 m.gapPos m.cumLens) := by
    have := trips_sorted m.gapPos m.cumLens (-1) 0 h.inc; simpa using this
  have eS : gapStarts m.gapPos m.cumLens = (trips 0 m.gapPos m.cumLens).map (·.2.1) :=
    (trips_map_start m.gapPos m.cumLens 0).symm
  have eE : gapEnds m.gapPos m.cumLens = (trips 0 m.gapPos m.cumLens).map (·.2.2) :=
    (trips_map_end m.gapPos m.cumLens 0).symm
  have eP : m.gapPos = (trips 0 m.gapPos m.cumLens).map (·.1) := (trips_map_pos m.gapPos m.cumLens 0 hl).symm
  have eL : gapLengths m.cumLens = (trips 0 m.gapPos m.cumLens).map tlen :=
    (trips_map_len m.gapPos m.cumLens 0 hl).symm
  have hhead : m.gapPos.headD 0 = getN (gapStarts m.gapPos m.cumLens) 0 := by
    cases hg : m.gapPos with
    | nil => exact absurd hg hne
    | cons p ps =>
      cases hc : m.cumLens with
      | nil => rw [hg, hc] at hl; simp at hl
      | cons c cs => simp [gapStarts, startsFrom, getN_cons_zero]
  have hnum : numGaps m = (gapEnds m.gapPos m.cumLens).length := by
    rw [gapEnds_length _ _ hl]; rfl
  have hshift := sliceBegin_shift m h hne start h0 (fun hh => hc1 (Or.inr hh)) (gapLengths m.cumLens)
  obtain ⟨hb1, hb2⟩ := sliceBegin_eq m start (ssLeft (gapEnds m.gapPos m.cumLens) start)
    (gapStarts m.gapPos m.cumLens) (gapEnds m.gapPos m.cumLens) (gapLengths m.cumLens) hhead
  unfold getitemGaps
  simp only [hc1, hc2, if_false]
  rw [sliceEnd_eq m stop _ _ _ _ hnum, hb1, hb2, hshift]
  simp only []
  obtain ⟨k1, k2⟩ := core_spec start stop hlt (trips 0 m.gapPos m.cumLens) 0 hTs
  rw [← eS, ← eE, ← eP] at k1
  rw [← eS, ← eE, ← eL] at k2
  rw [k1, k2]
  simp [Function.comp_def]

theorem mk_ok (gp cum : List Int) (pl : Int) (r : IMap) (hr : mk gp cum pl = .ok r) :
    r = ⟨gp, cum, pl⟩ ∧ (gp ≠ [] → lastD gp ≤ pl) := by
  unfold mk at hr
  split at hr
  · cases hr
  · split at hr
    · cases hr
    · rename_i h2
      simp only [Except.ok.injEq] at hr
      refine ⟨hr.symm, ?_⟩
      intro hne
      by_cases hgt : lastD gp > pl
      · exact absurd ⟨hne, hgt⟩ h2
      · omega

end CogentModel.IndelMap
