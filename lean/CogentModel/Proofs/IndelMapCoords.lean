import CogentModel.Proofs.IndelMapJoin3
namespace CogentModel.IndelMap
open CogentModel.Gapped List CogentModel

theorem insertPair_erase : ∀ (G : List (Int × Int)) (v : Int × Int), (G.map (·.1)).Pairwise (· < ·) → v ∈ G →
    insertPair v (G.erase v) = G := by
  intro G
  induction G with
  | nil => intro v _ hv; simp at hv
  | cons x r ih =>
    intro v hs hv
    simp only [map_cons, pairwise_cons] at hs
    by_cases hvx : x = v
    · subst hvx
      rw [erase_cons_head]
      cases r with
      | nil => rfl
      | cons y r' =>
        have := hs.1 y.1 (by simp)
        simp only [insertPair]
        rw [if_pos (Or.inl this)]
    · have hvr : v ∈ r := by
        rcases mem_cons.mp hv with h | h
        · exact absurd h.symm hvx
        · exact h
      rw [erase_cons_tail (by simpa using hvx)]
      have hlt := hs.1 v.1 (mem_map_of_mem hvr)
      simp only [insertPair]
      rw [if_neg (by omega), ih v hs.2 hvr]

theorem sortPairs_of_perm : ∀ (items G : List (Int × Int)), items.Perm G → (G.map (·.1)).Pairwise (· < ·) →
    sortPairs items = G := by
  intro items
  induction items with
  | nil => intro G hp _; have : G = [] := (Perm.nil_eq hp).symm; subst this; rfl
  | cons v rest ih =>
    intro G hp hs
    have hv : v ∈ G := hp.subset (by simp)
    have hrest : rest.Perm (G.erase v) := by
      have h1 := perm_cons_erase hv
      exact Perm.cons_inv (hp.trans h1)
    have hs' : ((G.erase v).map (·.1)).Pairwise (· < ·) :=
      hs.sublist ((erase_sublist).map _)
    show insertPair v (sortPairs rest) = G
    rw [ih _ hrest hs', insertPair_erase G v hs hv]

theorem cumsumFrom_diffsFrom (cum : List Int) : ∀ pc, cumsumFrom pc (diffsFrom pc cum) = cum := by
  induction cum with
  | nil => intro _; rfl
  | cons c cs ih => intro pc; simp only [diffsFrom, cumsumFrom]; rw [show pc + (c - pc) = c by omega, ih]

/-- **`gap_coords_to_map`**: from the `{gap position: gap length}` dictionary of a well-formed map, in
any insertion order, the map itself is rebuilt -/
theorem gap_coords_to_map_spec' (m : IMap) (h : WF m) (items : List (Int × Int))
    (hp : items.Perm (getGapCoordinates m)) : gapCoordsToMap items m.parentLength = .ok m := by
  unfold gapCoordsToMap getGapCoordinates at *
  have hl : m.gapPos.length = (gapLengths m.cumLens).length := by
    simp [gapLengths, diffsFrom_length, h.len_eq]
  have hkeys : ((zip m.gapPos (gapLengths m.cumLens)).map (·.1)).Pairwise (· < ·) := by
    rw [map_fst_zip (by omega)]; exact h.pos_sorted
  simp only []
  rw [sortPairs_of_perm _ _ hp hkeys, map_fst_zip (by omega), map_snd_zip (by omega)]
  unfold mkLengths cumsum gapLengths
  rw [cumsumFrom_diffsFrom]
  exact wf_mk_ok m h

end CogentModel.IndelMap
