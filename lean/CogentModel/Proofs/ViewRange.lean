import CogentModel.Proofs.ViewLen
/-! Python `range`/`slice.indices` facts, `realise_eq'`, the constructor re-normalisation
(`remk`) in normal form, and product/ordering kits used by the four direction lemmas. -/
namespace CogentModel.View
open CogentModel

theorem rangeList_eq_of (a b c : Int) (L : Nat) (f s : Int) (hL : PySlice.rangeLen a b c = L)
    (h : 0 < L → a = f ∧ c = s) :
    PySlice.rangeList a b c = (List.range L).map fun (i : Nat) => f + (i : Int) * s := by
  unfold PySlice.rangeList
  rw [hL]
  rcases Nat.eq_zero_or_pos L with h0 | hp
  · subst h0; rfl
  · obtain ⟨x, y⟩ := h hp
    rw [x, y]

theorem indices_pos (n : Int) (a b : Option Int) (c : Int) (hc : 0 < c) :
    PySlice.indices n a b c =
      ((match a with | none => 0 | some s => if s < 0 then max (s + n) 0 else min s n),
       (match b with | none => n | some e => if e < 0 then max (e + n) 0 else min e n), c) := by
  unfold PySlice.indices
  simp only [gt_iff_lt, hc, if_true]
  cases a <;> cases b <;> rfl

theorem indices_neg (n : Int) (a b : Option Int) (c : Int) (hc : c < 0) :
    PySlice.indices n a b c =
      ((match a with | none => n - 1 | some s => if s < 0 then max (s + n) (-1) else min s (n - 1)),
       (match b with | none => -1 | some e => if e < 0 then max (e + n) (-1) else min e (n - 1)), c) := by
  unfold PySlice.indices
  have : ¬ (c > 0) := by omega
  simp only [this, if_false]
  cases a <;> cases b <;> rfl

theorem realise_eq' (v : View) (h : Inv v) :
    PySlice.sliceIdx v.seqLen.toNat (some v.start) (some v.stop) v.step = elems v := by
  unfold PySlice.sliceIdx elems
  have hN : ((v.seqLen.toNat : Nat) : Int) = v.seqLen := Int.toNat_of_nonneg h.1
  rw [hN]
  rcases h with ⟨hn, h | h⟩
  · obtain ⟨hk, h0, h1, h2⟩ := h
    rw [indices_pos _ _ _ _ hk]
    simp only []
    have e1 : (if v.start < 0 then max (v.start + v.seqLen) 0 else min v.start v.seqLen) = v.start := by
      split <;> omega
    have e2 : (if v.stop < 0 then max (v.stop + v.seqLen) 0 else min v.stop v.seqLen) = v.stop := by
      split <;> omega
    rw [e1, e2]
    apply rangeList_eq_of
    · rcases Int.lt_or_le v.start v.stop with hlt | hge
      · obtain ⟨L, hL0, hL, a, b⟩ := rangeLen_pos v.start v.stop v.step hk hlt
        rw [hL, len_eq_of_bounds_fwd v L hk h1 a b]
      · rw [rangeLen_pos_empty _ _ _ hk hge, len_eq_zero_of_eq v (by omega)]; rfl
    · intro _; simp [first, hk]
  · obtain ⟨hk, h0, h1, h2⟩ := h
    rw [indices_neg _ _ _ _ hk]
    simp only []
    have e1 : (if v.start < 0 then max (v.start + v.seqLen) (-1) else min v.start (v.seqLen - 1)) = v.start + v.seqLen := by
      split <;> omega
    have e2 : (if v.stop < 0 then max (v.stop + v.seqLen) (-1) else min v.stop (v.seqLen - 1)) = v.stop + v.seqLen := by
      split <;> omega
    rw [e1, e2]
    apply rangeList_eq_of
    · rcases Int.lt_or_le v.stop v.start with hlt | hge
      · obtain ⟨L, hL0, hL, a, b⟩ := rangeLen_neg (v.start + v.seqLen) (v.stop + v.seqLen) v.step hk (by omega)
        rw [hL, len_eq_of_bounds_rev v L hk h1 (by omega) (by omega)]
      · rw [rangeLen_neg_empty _ _ _ hk (by omega), len_eq_zero_of_eq v (by omega)]; rfl
    · intro _
      have : ¬ (v.step > 0) := by omega
      simp [first, this]


def clampP (x n : Int) : Int := if x < 0 then max (x + n) 0 else min x n
def clampN (x n : Int) : Int := if x < 0 then max (x + n) (-1) else min x (n - 1)

theorem mul_cmp (x y k xk yk : Int) (hk : 0 < k) (hx : xk = x * k) (hy : yk = y * k) :
    (x ≤ y → xk ≤ yk) ∧ (x < y → xk + k ≤ yk) := by
  subst hx hy
  constructor
  · intro h; exact Int.mul_le_mul_of_nonneg_right h (le_of_lt hk)
  · intro h
    have : (x + 1) * k ≤ y * k := Int.mul_le_mul_of_nonneg_right (by omega) (le_of_lt hk)
    have e : (x + 1) * k = x * k + k := by ring
    omega

theorem clampP_cases (x n k : Int) (hk : 0 < k) (hn : 0 ≤ n) :
    (x < -n ∧ clampP x n = 0 ∧ clampP x n * k = 0 ∧ x * k + n * k ≤ -k ∧ x * k ≤ -k) ∨
    (-n ≤ x ∧ x < 0 ∧ clampP x n = x + n ∧ clampP x n * k = x * k + n * k ∧ 0 ≤ x * k + n * k ∧ x * k ≤ -k ∧ x * k + n * k + k ≤ n * k) ∨
    (0 ≤ x ∧ x ≤ n ∧ clampP x n = x ∧ clampP x n * k = x * k ∧ 0 ≤ x * k ∧ x * k ≤ n * k ∧ (x < n → x * k + k ≤ n * k)) ∨
    (n < x ∧ clampP x n = n ∧ clampP x n * k = n * k ∧ n * k + k ≤ x * k ∧ 0 ≤ x * k) := by
  have f1 := mul_cmp x 0 k (x * k) 0 hk rfl (by ring)
  have f2 := mul_cmp 0 x k 0 (x * k) hk (by ring) rfl
  have f3 := mul_cmp x n k (x * k) (n * k) hk rfl rfl
  have f4 := mul_cmp n x k (n * k) (x * k) hk rfl rfl
  have f5 := mul_cmp (x + n) 0 k (x * k + n * k) 0 hk (by ring) (by ring)
  have f6 := mul_cmp 0 (x + n) k 0 (x * k + n * k) hk (by ring) (by ring)
  unfold clampP
  by_cases h1 : x < -n
  · left
    have e : (if x < 0 then max (x + n) 0 else min x n) = 0 := by omega
    rw [e]; refine ⟨h1, rfl, by ring, ?_, ?_⟩ <;> omega
  by_cases h2 : x < 0
  · right; left
    have e : (if x < 0 then max (x + n) 0 else min x n) = x + n := by omega
    rw [e]; refine ⟨by omega, h2, rfl, by ring, ?_, ?_, ?_⟩ <;> omega
  by_cases h3 : x ≤ n
  · right; right; left
    have e : (if x < 0 then max (x + n) 0 else min x n) = x := by omega
    rw [e]; refine ⟨by omega, h3, rfl, rfl, ?_, ?_, ?_⟩ <;> omega
  · right; right; right
    have e : (if x < 0 then max (x + n) 0 else min x n) = n := by omega
    rw [e]; refine ⟨by omega, rfl, rfl, ?_, ?_⟩ <;> omega



theorem remk_pos_eq (v : View) (S E K : Int) (hN : 0 ≤ v.seqLen) (hK : 0 < K) (hS : 0 ≤ S) (hE : 0 ≤ E) :
    remk v S E K = .ok (if S < min v.seqLen E
      then { start := S, stop := min v.seqLen E, step := K, offset := v.offset, seqLen := v.seqLen }
      else { start := 0, stop := 0, step := 1, offset := v.offset, seqLen := v.seqLen }) := by
  unfold remk mk
  have h1 : ¬ (some K = some (0:Int)) := by simp; omega
  have hK' : K > 0 := hK
  simp only [h1, if_false, Option.getD_some, hK', if_true]
  unfold inputValsPos pyabs
  simp only []
  congr 1
  (repeat' split) <;> simp only [View.mk.injEq, and_true, true_and] <;> omega

theorem remk_neg_eq (v : View) (S E K : Int) (hN : 0 ≤ v.seqLen) (hK : K < 0) (hS : S ≤ -1)
    (hE1 : -v.seqLen - 1 ≤ E) (hE2 : E ≤ -1) :
    remk v S E K = .ok (if S < -v.seqLen ∨ S < E
      then { start := 0, stop := 0, step := 1, offset := v.offset, seqLen := v.seqLen }
      else { start := S, stop := E, step := K, offset := v.offset, seqLen := v.seqLen }) := by
  unfold remk mk
  have h1 : ¬ (some K = some (0:Int)) := by simp; omega
  have hK' : ¬ K > 0 := by omega
  simp only [h1, if_false, Option.getD_some, hK']
  unfold inputValsNeg inputValsNegTail
  simp only []
  congr 1
  (repeat' split) <;> simp only [View.mk.injEq, and_true, true_and] <;> omega


/-- forward result whose extent lies in the last `kk`-block below `m*kk`, stride `kk*cc` -/
theorem len_of_block_fwd (w : View) (m kk cc L : Int) (hkk : 0 < kk) (hcc : 0 < cc)
    (hstep : w.step = kk * cc) (hm : 0 < m)
    (hlo : (m - 1) * kk < w.stop - w.start) (hhi : w.stop - w.start ≤ m * kk)
    (h1 : m ≤ L * cc) (h2 : L * cc < m + cc) : len w = L := by
  have hs : 0 < w.step := by rw [hstep]; exact Int.mul_pos hkk hcc
  have h0 : 0 ≤ (m - 1) * kk := Int.mul_nonneg (by omega) (le_of_lt hkk)
  obtain ⟨a, b⟩ := ceil_scale m kk cc (w.stop - w.start) L hkk hlo hhi h1 h2
  apply len_eq_of_bounds_fwd w L hs (by omega)
  · rw [hstep]; exact a
  · rw [hstep]; exact b

/-- reversed result, stride `-(kk*cc)` -/
theorem len_of_block_rev (w : View) (m kk cc L : Int) (hkk : 0 < kk) (hcc : 0 < cc)
    (hstep : w.step = -(kk * cc)) (hm : 0 < m)
    (hlo : (m - 1) * kk < w.start - w.stop) (hhi : w.start - w.stop ≤ m * kk)
    (h1 : m ≤ L * cc) (h2 : L * cc < m + cc) : len w = L := by
  have hp : 0 < kk * cc := Int.mul_pos hkk hcc
  have hs : w.step < 0 := by rw [hstep]; omega
  have h0 : 0 ≤ (m - 1) * kk := Int.mul_nonneg (by omega) (le_of_lt hkk)
  obtain ⟨a, b⟩ := ceil_scale m kk cc (w.start - w.stop) L hkk hlo hhi h1 h2
  have e : -w.step = kk * cc := by rw [hstep]; omega
  apply len_eq_of_bounds_rev w L hs (by omega)
  · rw [e]; exact a
  · rw [e]; exact b

theorem indices_pos' (n : Int) (hn : 0 ≤ n) (a b : Option Int) (c : Int) (hc : 0 < c) :
    PySlice.indices n a b c = (clampP (a.getD 0) n, clampP (b.getD n) n, c) := by
  rw [indices_pos n a b c hc]
  unfold clampP
  cases a <;> cases b <;> simp only [Option.getD_none, Option.getD_some, Prod.mk.injEq, and_true, true_and] <;>
    omega

theorem indices_neg' (n : Int) (hn : 0 ≤ n) (a b : Option Int) (c : Int) (hc : c < 0) :
    PySlice.indices n a b c = (clampN (a.getD (-1)) n, clampN (b.getD (-n - 1)) n, c) := by
  rw [indices_neg n a b c hc]
  unfold clampN
  cases a <;> cases b <;> simp only [Option.getD_none, Option.getD_some, Prod.mk.injEq, and_true, true_and] <;>
    omega

theorem len_mk_zero (o N : Int) :
    len { start := 0, stop := 0, step := 1, offset := o, seqLen := N } = 0 := rfl

theorem clampN_cases (x n k : Int) (hk : 0 < k) (hn : 0 ≤ n) :
    (x < -n ∧ clampN x n = -1 ∧ clampN x n * k = -k ∧ x * k + n * k ≤ -k ∧ x * k ≤ -k) ∨
    (-n ≤ x ∧ x < 0 ∧ clampN x n = x + n ∧ clampN x n * k = x * k + n * k ∧ 0 ≤ x * k + n * k ∧ x * k ≤ -k) ∨
    (0 ≤ x ∧ x < n ∧ clampN x n = x ∧ clampN x n * k = x * k ∧ 0 ≤ x * k ∧ x * k + k ≤ n * k) ∨
    (n ≤ x ∧ clampN x n = n - 1 ∧ clampN x n * k = n * k - k ∧ n * k ≤ x * k ∧ 0 ≤ x * k) := by
  have f1 := mul_cmp x 0 k (x * k) 0 hk rfl (by ring)
  have f2 := mul_cmp 0 x k 0 (x * k) hk (by ring) rfl
  have f3 := mul_cmp x n k (x * k) (n * k) hk rfl rfl
  have f4 := mul_cmp n x k (n * k) (x * k) hk rfl rfl
  have f5 := mul_cmp (x + n) 0 k (x * k + n * k) 0 hk (by ring) (by ring)
  have f6 := mul_cmp 0 (x + n) k 0 (x * k + n * k) hk (by ring) (by ring)
  unfold clampN
  by_cases h1 : x < -n
  · left
    have e : (if x < 0 then max (x + n) (-1) else min x (n - 1)) = -1 := by omega
    rw [e]; refine ⟨h1, rfl, by ring, ?_, ?_⟩ <;> omega
  by_cases h2 : x < 0
  · right; left
    have e : (if x < 0 then max (x + n) (-1) else min x (n - 1)) = x + n := by omega
    rw [e]; refine ⟨by omega, h2, rfl, by ring, ?_, ?_⟩ <;> omega
  by_cases h3 : x < n
  · right; right; left
    have e : (if x < 0 then max (x + n) (-1) else min x (n - 1)) = x := by omega
    rw [e]; refine ⟨by omega, h3, rfl, rfl, ?_, ?_⟩ <;> omega
  · right; right; right
    have e : (if x < 0 then max (x + n) (-1) else min x (n - 1)) = n - 1 := by omega
    rw [e]; refine ⟨by omega, rfl, by ring, ?_, ?_⟩ <;> omega

end CogentModel.View
