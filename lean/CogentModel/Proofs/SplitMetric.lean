import CogentModel.Proofs.NJLemmas
import Mathlib.Data.Finset.Card
import Mathlib.Data.Finset.Range
import Mathlib.Tactic.Ring
import Mathlib.Tactic.Linarith
import Mathlib.Tactic.FieldSimp
import Mathlib.Algebra.Order.Field.Rat
/-! Tree metrics as weighted compatible split systems; the Studier–Keppler lemma. -/
namespace CogentModel.NJ

/-- a split of the leaves `0..L-1`, given by the side (`true`/`false`) of every leaf -/
abbrev Side := Nat → Bool

/-- weighted splits: (branch length, split) -/
abbrev WSplits := List (Rat × Side)

/-- 1 if the split separates `x` and `y`, else 0 -/
def sep (s : Side) (x y : Nat) : Rat := if s x = s y then 0 else 1

/-- `Σ_S w_S · g(S)` -/
def wsum : WSplits → (Side → Rat) → Rat
  | [], _ => 0
  | S :: r, g => S.1 * g S.2 + wsum r g

/-- the path metric of the tree: sum of the lengths of the branches (splits) separating `x` and `y` -/
def splitDist (Sg : WSplits) (x y : Nat) : Rat := wsum Sg (fun s => sep s x y)

/-- two splits of `0..L-1` are compatible: one of the four intersections of their sides is empty -/
def Compat (L : Nat) (s t : Side) : Prop := ∃ a b : Bool, ∀ x, x < L → ¬ (s x = a ∧ t x = b)

/-- a tree on the leaves `0..L-1` as a split system: non-negative branch lengths, pairwise compatible splits -/
structure SplitSystem (L : Nat) (Sg : WSplits) : Prop where
  nonneg : ∀ S ∈ Sg, 0 ≤ S.1
  compat : ∀ S ∈ Sg, ∀ T ∈ Sg, Compat L S.2 T.2

theorem wsum_add (Sg : WSplits) (g h : Side → Rat) : wsum Sg (fun s => g s + h s) = wsum Sg g + wsum Sg h := by
  induction Sg with
  | nil => simp [wsum]
  | cons S r ih => simp only [wsum]; rw [ih]; ring

theorem wsum_sub (Sg : WSplits) (g h : Side → Rat) : wsum Sg (fun s => g s - h s) = wsum Sg g - wsum Sg h := by
  induction Sg with
  | nil => simp [wsum]
  | cons S r ih => simp only [wsum]; rw [ih]; ring

theorem wsum_smul (Sg : WSplits) (c : Rat) (g : Side → Rat) : wsum Sg (fun s => c * g s) = c * wsum Sg g := by
  induction Sg with
  | nil => simp [wsum]
  | cons S r ih => simp only [wsum]; rw [ih]; ring

/-- terms may be changed on zero-weight splits -/
theorem wsum_congr_pos (Sg : WSplits) (g h : Side → Rat) (hn : ∀ S ∈ Sg, 0 ≤ S.1)
    (hgh : ∀ S ∈ Sg, 0 < S.1 → g S.2 = h S.2) : wsum Sg g = wsum Sg h := by
  induction Sg with
  | nil => rfl
  | cons S r ih =>
    simp only [wsum]
    rw [ih (fun T hT => hn T (List.mem_cons_of_mem _ hT)) (fun T hT => hgh T (List.mem_cons_of_mem _ hT))]
    rcases lt_or_eq_of_le (hn S (List.mem_cons_self)) with h | h
    · rw [hgh S (List.mem_cons_self) h]
    · rw [← h]; ring

theorem wsum_nonneg (Sg : WSplits) (g : Side → Rat) (hn : ∀ S ∈ Sg, 0 ≤ S.1)
    (hg : ∀ S ∈ Sg, 0 < S.1 → 0 ≤ g S.2) : 0 ≤ wsum Sg g := by
  induction Sg with
  | nil => exact le_refl _
  | cons S r ih =>
    simp only [wsum]
    have h1 := ih (fun T hT => hn T (List.mem_cons_of_mem _ hT)) (fun T hT => hg T (List.mem_cons_of_mem _ hT))
    rcases lt_or_eq_of_le (hn S (List.mem_cons_self)) with h | h
    · have := mul_nonneg (le_of_lt h) (hg S (List.mem_cons_self) h); linarith
    · rw [← h]; linarith

theorem wsum_pos (Sg : WSplits) (g : Side → Rat) (hn : ∀ S ∈ Sg, 0 ≤ S.1)
    (hg : ∀ S ∈ Sg, 0 < S.1 → 0 ≤ g S.2) (S0 : Rat × Side) (h0 : S0 ∈ Sg) (hw : 0 < S0.1) (hg0 : 0 < g S0.2) :
    0 < wsum Sg g := by
  induction Sg with
  | nil => cases h0
  | cons S r ih =>
    simp only [wsum]
    have hr := wsum_nonneg r g (fun T hT => hn T (List.mem_cons_of_mem _ hT)) (fun T hT => hg T (List.mem_cons_of_mem _ hT))
    rw [List.mem_cons] at h0
    rcases h0 with rfl | h0
    · have := mul_pos hw hg0; linarith
    · have := ih (fun T hT => hn T (List.mem_cons_of_mem _ hT)) (fun T hT => hg T (List.mem_cons_of_mem _ hT)) h0
      rcases lt_or_eq_of_le (hn S (List.mem_cons_self)) with h | h
      · have := mul_nonneg (le_of_lt h) (hg S (List.mem_cons_self) h); linarith
      · rw [← h]; linarith

theorem sep_symm (s : Side) (x y : Nat) : sep s x y = sep s y x := by
  unfold sep; by_cases h : s x = s y
  · rw [if_pos h, if_pos h.symm]
  · rw [if_neg h, if_neg (fun e => h e.symm)]

theorem sep_self (s : Side) (x : Nat) : sep s x x = 0 := by unfold sep; rw [if_pos rfl]

theorem splitDist_symm (Sg : WSplits) (x y : Nat) : splitDist Sg x y = splitDist Sg y x := by
  unfold splitDist; congr 1; funext s; exact sep_symm s x y

theorem splitDist_self (Sg : WSplits) (x : Nat) : splitDist Sg x x = 0 := by
  unfold splitDist
  have : (fun s => sep s x x) = fun _ => (0 : Rat) := by funext s; exact sep_self s x
  rw [this]
  induction Sg with
  | nil => rfl
  | cons S r ih => simp only [wsum]; rw [ih]; ring

theorem sep_triangle (s : Side) (x y z : Nat) : sep s x z ≤ sep s x y + sep s y z := by
  unfold sep
  cases hx : s x <;> cases hy : s y <;> cases hz : s z <;> simp

theorem splitDist_triangle (Sg : WSplits) (hn : ∀ S ∈ Sg, 0 ≤ S.1) (x y z : Nat) :
    splitDist Sg x z ≤ splitDist Sg x y + splitDist Sg y z := by
  unfold splitDist
  rw [← wsum_add]
  have := wsum_nonneg Sg (fun s => (sep s x y + sep s y z) - sep s x z) hn
    (fun S _ _ => by have := sep_triangle S.2 x y z; linarith)
  rw [wsum_sub] at this
  linarith

/-! ### sizes, row sums, the Q-criterion as a weighted sum over splits -/

/-- the leaves `< L` on side `b` of the split -/
def sideSet (L : Nat) (s : Side) (b : Bool) : Finset Nat := (Finset.range L).filter (fun x => s x = b)

/-- number of leaves on the side NOT containing `x` -/
def other (L : Nat) (s : Side) (x : Nat) : Nat := (sideSet L s (!s x)).card

/-- contribution of one split to `-(L-2)/2 · Q(x,y)`: the size of the far side if `x,y` are together, else 1 -/
def fS (L : Nat) (s : Side) (x y : Nat) : Rat := if s x = s y then (other L s x : Rat) else 1

def FS (L : Nat) (Sg : WSplits) (x y : Nat) : Rat := wsum Sg (fun s => fS L s x y)

theorem mem_sideSet (L : Nat) (s : Side) (b : Bool) (x : Nat) : x ∈ sideSet L s b ↔ x < L ∧ s x = b := by
  simp [sideSet]

theorem card_sides (L : Nat) (s : Side) : (sideSet L s true).card + (sideSet L s false).card = L := by
  have hd : Disjoint (sideSet L s true) (sideSet L s false) := by
    rw [Finset.disjoint_left]; intro x h1 h2
    rw [mem_sideSet] at h1 h2; rw [h1.2] at h2; cases h2.2
  have hu : sideSet L s true ∪ sideSet L s false = Finset.range L := by
    ext x; simp only [Finset.mem_union, mem_sideSet, Finset.mem_range]
    constructor
    · rintro (h | h) <;> exact h.1
    · intro h; cases hx : s x
      · exact Or.inr ⟨h, rfl⟩
      · exact Or.inl ⟨h, rfl⟩
  rw [← Finset.card_union_of_disjoint hd, hu, Finset.card_range]

theorem card_side_not (L : Nat) (s : Side) (b : Bool) : (sideSet L s b).card + (sideSet L s (!b)).card = L := by
  cases b
  · rw [add_comm]; exact card_sides L s
  · exact card_sides L s

theorem sumTo_ind (L : Nat) (p : Nat → Prop) [DecidablePred p] :
    sumTo L (fun k => if p k then (1 : Rat) else 0) = (((Finset.range L).filter p).card : Rat) := by
  induction L with
  | zero => simp [sumTo]
  | succ L ih =>
    simp only [sumTo]
    rw [ih, Finset.range_add_one, Finset.filter_insert]
    by_cases h : p L
    · rw [if_pos h, if_pos h, Finset.card_insert_of_notMem (by simp)]; push_cast; ring
    · rw [if_neg h, if_neg h]; ring

theorem sumTo_sep (L : Nat) (s : Side) (x : Nat) : sumTo L (fun k => sep s k x) = (other L s x : Rat) := by
  have : (fun k => sep s k x) = fun k => if s k = !s x then (1 : Rat) else 0 := by
    funext k; unfold sep
    cases hk : s k <;> cases hx : s x <;> simp
  rw [this, sumTo_ind]; rfl

theorem sumTo_smul (L : Nat) (c : Rat) (g : Nat → Rat) : sumTo L (fun k => c * g k) = c * sumTo L g := by
  induction L with
  | zero => simp [sumTo]
  | succ L ih => simp only [sumTo]; rw [ih]; ring

theorem sumTo_wsum (L : Nat) (Sg : WSplits) (g : Side → Nat → Rat) :
    sumTo L (fun k => wsum Sg (fun s => g s k)) = wsum Sg (fun s => sumTo L (fun k => g s k)) := by
  induction Sg with
  | nil =>
    simp only [wsum]
    have := sumTo_const L 0; simpa using this
  | cons S r ih =>
    simp only [wsum]
    rw [sumTo_add, ih]
    rw [sumTo_smul]

/-- column sum of a split metric -/
theorem colSum_split (L : Nat) (Sg : WSplits) (d : Mat) (hd : ∀ a b, a < L → b < L → get d a b = splitDist Sg a b)
    (i : Nat) (hi : i < L) : colSum d L i = wsum Sg (fun s => (other L s i : Rat)) := by
  unfold colSum
  rw [sumTo_congr L _ (fun k => wsum Sg (fun s => sep s k i)) (fun k hk => hd k i hk hi), sumTo_wsum]
  congr 1; funext s; exact sumTo_sep L s i

theorem other_eq_of_same (L : Nat) (s : Side) (x y : Nat) (h : s x = s y) : other L s x = other L s y := by
  unfold other; rw [h]

theorem other_add_of_sep (L : Nat) (s : Side) (x y : Nat) (h : s x ≠ s y) : other L s x + other L s y = L := by
  unfold other
  have : s y = !s x := by cases hx : s x <;> cases hy : s y <;> simp_all
  rw [this, Bool.not_not, add_comm]; exact card_side_not L s (s x)

/-- `(L-2)·d(i,j) − r_i − r_j = −2·F(i,j)` -/
theorem qn_eq (L : Nat) (Sg : WSplits) (d : Mat) (hd : ∀ a b, a < L → b < L → get d a b = splitDist Sg a b)
    (i j : Nat) (hi : i < L) (hj : j < L) :
    ((L : Rat) - 2) * get d i j - colSum d L i - colSum d L j = -2 * FS L Sg i j := by
  rw [hd i j hi hj, colSum_split L Sg d hd i hi, colSum_split L Sg d hd j hj]
  unfold splitDist FS
  rw [← wsum_smul, ← wsum_smul, ← wsum_sub, ← wsum_sub]
  congr 1; funext s
  unfold sep fS
  by_cases h : s i = s j
  · rw [if_pos h, if_pos h, other_eq_of_same L s i j h]; ring
  · rw [if_neg h, if_neg h]
    have := other_add_of_sep L s i j h
    have hc : ((other L s i : Rat) + (other L s j : Rat)) = (L : Rat) := by exact_mod_cast this
    linarith

/-! ### the combinatorial core of the Studier–Keppler lemma -/

theorem exists_min_measure {α : Type} (P : α → Prop) (μ : α → Nat) (h : ∃ a, P a) :
    ∃ a, P a ∧ ∀ b, P b → μ a ≤ μ b := by
  obtain ⟨a0, h0⟩ := h
  induction hn : μ a0 using Nat.strong_induction_on generalizing a0 with
  | _ k ih =>
    by_cases hmin : ∀ b, P b → μ a0 ≤ μ b
    · exact ⟨a0, h0, hmin⟩
    · have hex : ∃ b, P b ∧ μ b < μ a0 := by
        by_contra hc
        apply hmin
        intro b hb
        by_contra hlt
        exact hc ⟨b, hb, by omega⟩
      obtain ⟨b, hb, hlt⟩ := hex
      exact ih (μ b) (by omega) b hb rfl

theorem compat_pick (a b ti ui : Bool) (h1 : ¬(ti = a ∧ ui = b)) (h2 : ¬((!ti) = a ∧ (!ui) = b))
    (h3 : ¬(ti = a ∧ (!ui) = b)) : a = !ti ∧ b = ui := by
  cases a <;> cases b <;> cases ti <;> cases ui <;> simp_all

theorem bool_ne_iff (a b : Bool) : a ≠ b ↔ a = !b := by cases a <;> cases b <;> simp

theorem other_pos (L : Nat) (t : Side) (m x : Nat) (hx : x < L) (h : t x ≠ t m) : 1 ≤ other L t m := by
  unfold other
  apply Finset.card_pos.2
  exact ⟨x, (mem_sideSet _ _ _ _).2 ⟨hx, (bool_ne_iff _ _).1 h⟩⟩

/-- one split's contribution does not decrease when `(i,j)` is replaced by `(m,n)` -/
theorem fS_le (L i j m n : Nat) (s0 t : Side) (hi : i < L) (hj : j < L) (hm : m < L) (hn : n < L) (hmn : m ≠ n)
    (hsep : s0 i ≠ s0 j) (hmA : s0 m = s0 i) (hnA : s0 n = s0 i)
    (hhalf : 2 * (sideSet L s0 (s0 i)).card ≤ L) (hc : Compat L t s0)
    (hstar : t i = t j → (∀ x, x < L → t x = !t i → s0 x = s0 i) → 2 ≤ other L t i → t m = t n) :
    fS L t i j ≤ fS L t m n := by
  unfold fS
  by_cases htij : t i = t j
  · rw [if_pos htij]
    obtain ⟨a, b, hab⟩ := hc
    have hai := hab i hi
    have haj := hab j hj
    rw [← htij] at haj
    have ha : a = !t i := by
      have : s0 j = !s0 i := (bool_ne_iff _ _).1 (fun e => hsep e.symm)
      rw [this] at haj
      revert hai haj; cases a <;> cases b <;> cases t i <;> cases s0 i <;> simp
    subst ha
    by_cases hb : b = s0 i
    · -- the far side of t avoids A: m, n are on i's side of t
      subst hb
      have hmt : t m = t i := by
        have := hab m hm; rw [hmA] at this
        revert this; cases t m <;> cases t i <;> simp
      have hnt : t n = t i := by
        have := hab n hn; rw [hnA] at this
        revert this; cases t n <;> cases t i <;> simp
      rw [if_pos (hmt.trans hnt.symm), other_eq_of_same L t m i hmt]
    · -- the far side U of t lies inside A
      have hUA : ∀ x, x < L → t x = !t i → s0 x = s0 i := by
        intro x hx hxt
        have := hab x hx
        revert this hb; rw [hxt]; cases b <;> cases s0 x <;> cases s0 i <;> simp
      have hUle : other L t i ≤ (sideSet L s0 (s0 i)).card := by
        unfold other
        apply Finset.card_le_card
        intro x hx
        rw [mem_sideSet] at hx ⊢
        exact ⟨hx.1, hUA x hx.1 hx.2⟩
      by_cases hbig : 2 ≤ other L t i
      · have hmn' := hstar htij hUA hbig
        rw [if_pos hmn']
        by_cases hmt : t m = t i
        · rw [other_eq_of_same L t m i hmt]
        · have hsum := other_add_of_sep L t m i hmt
          have : other L t i ≤ other L t m := by omega
          exact_mod_cast this
      · by_cases hmn' : t m = t n
        · rw [if_pos hmn']
          by_cases hmt : t m = t i
          · rw [other_eq_of_same L t m i hmt]
          · exfalso
            -- m and n are two distinct members of the far side of i
            have hm' : m ∈ sideSet L t (!t i) := (mem_sideSet _ _ _ _).2 ⟨hm, (bool_ne_iff _ _).1 hmt⟩
            have hn' : n ∈ sideSet L t (!t i) :=
              (mem_sideSet _ _ _ _).2 ⟨hn, (bool_ne_iff _ _).1 (fun e => hmt (hmn'.trans e))⟩
            have : 1 < (sideSet L t (!t i)).card := Finset.one_lt_card.2 ⟨m, hm', n, hn', hmn⟩
            exact hbig this
        · rw [if_neg hmn']
          have : other L t i ≤ 1 := by omega
          exact_mod_cast this
  · rw [if_neg htij]
    by_cases hmn' : t m = t n
    · rw [if_pos hmn']
      have : 1 ≤ other L t m := by
        by_cases hmi : t i = t m
        · exact other_pos L t m j hj (fun e => htij (hmi.trans e.symm))
        · exact other_pos L t m i hi hmi
      exact_mod_cast this
    · rw [if_neg hmn']

theorem fS_symm (L : Nat) (s : Side) (x y : Nat) : fS L s x y = fS L s y x := by
  unfold fS
  by_cases h : s x = s y
  · rw [if_pos h, if_pos h.symm, other_eq_of_same L s x y h]
  · rw [if_neg h, if_neg (fun e => h e.symm)]

theorem FS_symm (L : Nat) (Sg : WSplits) (x y : Nat) : FS L Sg x y = FS L Sg y x := by
  unfold FS; congr 1; funext s; exact fS_symm L s x y

/-- core: a positive split separating `i, j` whose `i`-side is the smaller one, both sides with ≥ 2 leaves:
some other pair has a strictly larger `F` (i.e. a strictly smaller `Q`) -/
theorem better_pair_core (L : Nat) (Sg : WSplits) (hS : SplitSystem L Sg) (i j : Nat) (hi : i < L) (hj : j < L)
    (S0 : Rat × Side) (h0 : S0 ∈ Sg) (hw : 0 < S0.1) (hsep : S0.2 i ≠ S0.2 j)
    (hA2 : 2 ≤ (sideSet L S0.2 (S0.2 i)).card) (hB2 : 2 ≤ (sideSet L S0.2 (S0.2 j)).card)
    (hhalf : 2 * (sideSet L S0.2 (S0.2 i)).card ≤ L) :
    ∃ m n, m < L ∧ n < L ∧ m ≠ n ∧ FS L Sg i j < FS L Sg m n := by
  -- the positive splits with i, j together whose far side is a set of >= 2 leaves inside A
  let Bad : Rat × Side → Prop := fun T => T ∈ Sg ∧ 0 < T.1 ∧ T.2 i = T.2 j ∧
    (∀ x, x < L → T.2 x = !T.2 i → S0.2 x = S0.2 i) ∧ 2 ≤ other L T.2 i
  -- it suffices to find m ≠ n in A not separated by any Bad split
  have hsuff : ∀ m n, m < L → n < L → m ≠ n → S0.2 m = S0.2 i → S0.2 n = S0.2 i →
      (∀ T, Bad T → T.2 m = T.2 n) → FS L Sg i j < FS L Sg m n := by
    intro m n hm hn hmn hmA hnA hstar
    have hpos := wsum_pos Sg (fun s => fS L s m n - fS L s i j) hS.nonneg
      (fun T hT hTw => by
        have := fS_le L i j m n S0.2 T.2 hi hj hm hn hmn hsep hmA hnA hhalf (hS.compat T hT S0 h0)
          (fun h1 h2 h3 => hstar T ⟨hT, hTw, h1, h2, h3⟩)
        show 0 ≤ fS L T.2 m n - fS L T.2 i j
        linarith)
      S0 h0 hw
      (by
        show 0 < fS L S0.2 m n - fS L S0.2 i j
        unfold fS
        rw [if_pos (hmA.trans hnA.symm), if_neg hsep]
        have h1 : other L S0.2 m = (sideSet L S0.2 (S0.2 j)).card := by
          unfold other
          rw [hmA, ← (bool_ne_iff _ _).1 (fun e => hsep e.symm)]
        have : (2 : Rat) ≤ (other L S0.2 m : Rat) := by rw [h1]; exact_mod_cast hB2
        linarith)
    rw [wsum_sub] at hpos
    unfold FS; linarith
  have hiA : i ∈ sideSet L S0.2 (S0.2 i) := (mem_sideSet _ _ _ _).2 ⟨hi, rfl⟩
  by_cases hbad : ∃ T, Bad T
  · obtain ⟨T, hT, hTmin⟩ := exists_min_measure Bad (fun T => other L T.2 i) hbad
    obtain ⟨hTS, hTw, hTij, hTA, hT2⟩ := hT
    obtain ⟨m, hm, n, hn, hmn⟩ := Finset.one_lt_card.1 (show 1 < (sideSet L T.2 (!T.2 i)).card from hT2)
    rw [mem_sideSet] at hm hn
    refine ⟨m, n, hm.1, hn.1, hmn, hsuff m n hm.1 hn.1 hmn (hTA m hm.1 hm.2) (hTA n hn.1 hn.2) ?_⟩
    intro T' hT'
    by_contra hne
    -- T' separates m and n, both in the far side of T: then far(T') is a proper subset of far(T)
    obtain ⟨a, b, hab⟩ := hS.compat T' hT'.1 T hTS
    have key : ∀ p q, p < L → q < L → T.2 p = !T.2 i → T.2 q = !T.2 i → T'.2 p = !T'.2 i → T'.2 q = T'.2 i →
        False := by
      intro p q hp hq hpT hqT hpT' hqT'
      have e1 := hab i hi
      have e2 := hab p hp
      have e3 := hab q hq
      rw [hpT, hpT'] at e2
      rw [hqT, hqT'] at e3
      obtain ⟨ha, hb⟩ := compat_pick a b (T'.2 i) (T.2 i) e1 e2 e3
      subst ha; subst hb
      have hsub : sideSet L T'.2 (!T'.2 i) ⊂ sideSet L T.2 (!T.2 i) := by
        rw [Finset.ssubset_iff_of_subset]
        · refine ⟨q, (mem_sideSet _ _ _ _).2 ⟨hq, hqT⟩, ?_⟩
          rw [mem_sideSet]; intro h; rw [hqT'] at h
          revert h; cases T'.2 i <;> simp
        · intro x hx
          rw [mem_sideSet] at hx ⊢
          refine ⟨hx.1, ?_⟩
          have := hab x hx.1
          rw [hx.2] at this
          revert this; cases T.2 x <;> cases T.2 i <;> simp
      have hlt := Finset.card_lt_card hsub
      have hmin := hTmin T' hT'
      unfold other at hmin
      omega
    have hcases : T'.2 m = !T'.2 i ∧ T'.2 n = T'.2 i ∨ T'.2 n = !T'.2 i ∧ T'.2 m = T'.2 i := by
      revert hne; cases T'.2 m <;> cases T'.2 n <;> cases T'.2 i <;> simp
    rcases hcases with ⟨h1, h2⟩ | ⟨h1, h2⟩
    · exact key m n hm.1 hn.1 hm.2 hn.2 h1 h2
    · exact key n m hn.1 hm.1 hn.2 hm.2 h1 h2
  · obtain ⟨x, hx, hxi⟩ := Finset.exists_mem_ne (show 1 < (sideSet L S0.2 (S0.2 i)).card from hA2) i
    rw [mem_sideSet] at hx
    exact ⟨i, x, hi, hx.1, fun e => hxi e.symm, hsuff i x hi hx.1 (fun e => hxi e.symm) rfl hx.2
      (fun T hT => absurd ⟨T, hT⟩ hbad)⟩
end CogentModel.NJ
