/-
  C18 helper lemmas for Hirschberg, part 4: the backward value is attained, the scan of the middle row, and the
  crossing lemma (every global path passes through the split row).
-/
import CogentModel.Proofs.HirschReverse
namespace CogentModel.PairHMM
set_option linter.unusedSectionVars false
set_option linter.unusedVariables false

variable {S : Type} [Add S] [LT S] [DecidableLT S] [ScoreLawsAC S]

theorem reverse_head_last (r : List Nat) (hne : r ≠ []) : ∃ q, r.reverse = lastState r :: q := by
  induction r with
  | nil => exact absurd rfl hne
  | cons x r ih =>
    cases r with
    | nil => exact ⟨[], rfl⟩
    | cons y r' =>
      obtain ⟨q, hq⟩ := ih (by simp)
      refine ⟨q ++ [x], ?_⟩
      rw [List.reverse_cons, hq, lastState_cons_cons]; rfl

theorem noSilent_rev (h : HMM S) (n m : Nat) (hns : NoSilent h) : NoSilent (revHMM h n m) := hns

/-- the backward value is the tail score of a real continuation -/
theorem bwd_attained (h : HMM S) (hns : NoSilent h) (n m i0 j0 a : Nat) (hi : i0 ≤ n) (hj : j0 ≤ m) (ha : 1 ≤ a)
    (w : S) (hw : bwdVal h n m i0 j0 a = some w) :
    ∃ q, statesOK h q ∧ consumedFrom h i0 j0 q = (n, m) ∧ tailScore h a i0 j0 q = some w := by
  unfold bwdVal bwdAt at hw
  rcases bestPrev_cases (revHMM h n m).T a (V (revHMM h n m) false m (n - i0) (m - j0)) 1
      (if (n - i0 == 0 && m - j0 == 0) = true then ((revHMM h n m).T 0 a, 0) else (none, (revHMM h n m).errId))
    with hr | ⟨q', hq', hr⟩
  · rw [hr] at hw
    by_cases h0 : (n - i0 == 0 && m - j0 == 0) = true
    · simp only [if_pos h0] at hw
      have hn : n - i0 = 0 := by simp at h0; exact h0.1
      have hm : m - j0 = 0 := by simp at h0; exact h0.2
      have e1 : i0 = n := by omega
      have e2 : j0 = m := by omega
      subst e1; subst e2
      refine ⟨[], by intro x hx; simp at hx, rfl, ?_⟩
      simp only [tailScore]
      simpa [revHMM] using hw
    · simp only [if_neg h0] at hw; simp at hw
  · rw [hr] at hw
    simp only at hw
    obtain ⟨w', hw'⟩ := eadd_some_left hw
    have hjm : m - j0 ≤ m := by omega
    have hlen := V_length (revHMM h n m) false m (n - i0) (m - j0) hjm
    have hq1 : 1 ≤ 1 + q' := by omega
    have hqk : 1 + q' ≤ (revHMM h n m).k := by omega
    have hvq : val (revHMM h n m) false m (n - i0) (m - j0) (1 + q') = some w' := by
      rw [← val_getElem (revHMM h n m) false m _ _ (1 + q') hjm hq1 hqk (by simpa using hq')]
      simpa using hw'
    obtain ⟨r, ri, rj, _, sp⟩ := trace_ok (revHMM h n m) false m (noSilent_rev h n m hns) ((n - i0) + (m - j0))
      (n - i0) (m - j0) (1 + q') w' [] ((n - i0) + (m - j0) + 1) rfl hjm hq1 hqk hvq (Nat.le_refl _)
    have hstart := sp.start
    simp [canStart] at hstart
    obtain ⟨rfl, rfl⟩ := hstart
    obtain ⟨q, hq⟩ := reverse_head_last r sp.nonempty
    rw [sp.last] at hq
    have hstq : statesOK h r.reverse := fun x hx => sp.states x (List.mem_reverse.mp hx)
    have hcq : consumedFrom h i0 j0 r.reverse = (n, m) := by
      rw [consumedFrom_reverse, consumedFrom_from]
      have hc := sp.consumed
      rw [consumedFrom_congr (revHMM h n m) h (fun _ => rfl)] at hc
      rw [hc]
      exact Prod.ext (by simp only; omega) (by simp only; omega)
    refine ⟨r.reverse, hstq, hcq, ?_⟩
    rw [hq] at hstq hcq ⊢
    have hrs := reverse_score h n m q (1 + q') i0 j0 (fun x hx => (hstq x hx).1) hcq
    rw [← hq, List.reverse_reverse, sp.score] at hrs
    simp only [tailScore]
    rw [← hrs]
    have hT : (revHMM h n m).T (1 + q') a = h.T a (1 + q') := by
      have : ¬ (1 + q' = 0) := by omega
      simp [revHMM, this]
    have : (V (revHMM h n m) false m (n - i0) (m - j0))[q'].1 = some w' := by simpa using hw'
    rw [this, hT, eadd_comm] at hw
    exact hw

/-! ### scan of the middle row -/

abbrev Mid (S : Type) := Option S × Nat × Nat

theorem midCell_ge_init (rv : HMM S) (bc : Cell S) (i' j' j : Nat) (fc : Cell S) :
    ∀ (s : Nat) (cur : Mid S), ele cur.1 (midCell rv bc i' j' j fc s cur).1 := by
  induction fc with
  | nil => intro s cur; exact ele_refl _
  | cons c fc ih =>
    intro s cur
    obtain ⟨v, w⟩ := c
    simp only [midCell]
    split
    · rename_i hc
      exact ele_trans (ele_of_egt hc) (ih (s + 1) (eadd v (bwdAt rv bc i' j' s), j, s))
    · exact ih (s + 1) cur

theorem midCell_ge_elem (rv : HMM S) (bc : Cell S) (i' j' j : Nat) (fc : Cell S) :
    ∀ (s : Nat) (cur : Mid S) (q : Nat) (hq : q < fc.length),
      ele (eadd (fc[q]).1 (bwdAt rv bc i' j' (s + q))) (midCell rv bc i' j' j fc s cur).1 := by
  induction fc with
  | nil => intro s cur q hq; simp at hq
  | cons c fc ih =>
    intro s cur q hq
    obtain ⟨v, w⟩ := c
    simp only [midCell]
    cases q with
    | zero =>
      simp only [List.getElem_cons_zero, Nat.add_zero]
      split
      · exact midCell_ge_init rv bc i' j' j fc (s + 1) (eadd v (bwdAt rv bc i' j' s), j, s)
      · rename_i hc
        exact ele_trans (ele_of_not_egt (by simpa using hc)) (midCell_ge_init rv bc i' j' j fc (s + 1) cur)
    | succ q =>
      have := ih (s + 1) (if egt (eadd v (bwdAt rv bc i' j' s)) cur.1 = true then (eadd v (bwdAt rv bc i' j' s), j, s) else cur)
        q (by simpa using hq)
      simpa [Nat.add_assoc, Nat.add_comm 1 q] using this

theorem midCell_cases (rv : HMM S) (bc : Cell S) (i' j' j : Nat) (fc : Cell S) :
    ∀ (s : Nat) (cur : Mid S),
      midCell rv bc i' j' j fc s cur = cur ∨
      ∃ q, ∃ hq : q < fc.length, midCell rv bc i' j' j fc s cur = (eadd (fc[q]).1 (bwdAt rv bc i' j' (s + q)), j, s + q) := by
  induction fc with
  | nil => intro s cur; exact Or.inl rfl
  | cons c fc ih =>
    intro s cur
    obtain ⟨v, w⟩ := c
    simp only [midCell]
    split
    · rcases ih (s + 1) (eadd v (bwdAt rv bc i' j' s), j, s) with h | ⟨q, hq, h⟩
      · exact Or.inr ⟨0, by simp, by simpa using h⟩
      · exact Or.inr ⟨q + 1, by simpa using hq, by simpa [Nat.add_assoc, Nat.add_comm 1 q] using h⟩
    · rcases ih (s + 1) cur with h | ⟨q, hq, h⟩
      · exact Or.inl h
      · exact Or.inr ⟨q + 1, by simpa using hq, by simpa [Nat.add_assoc, Nat.add_comm 1 q] using h⟩

theorem midRow_ge_init (rv : HMM S) (i' m : Nat) (brow : List (Cell S)) (frow : List (Cell S)) :
    ∀ (j : Nat) (cur : Mid S), ele cur.1 (midRow rv i' m brow frow j cur).1 := by
  induction frow with
  | nil => intro j cur; exact ele_refl _
  | cons fc frow ih =>
    intro j cur
    simp only [midRow]
    exact ele_trans (midCell_ge_init rv _ i' (m - j) j fc 1 cur) (ih (j + 1) _)

theorem midRow_ge_elem (rv : HMM S) (i' m : Nat) (brow : List (Cell S)) (frow : List (Cell S)) :
    ∀ (j : Nat) (cur : Mid S) (b : Nat) (hb : b < frow.length) (q : Nat) (hq : q < (frow[b]).length),
      ele (eadd ((frow[b])[q]).1 (bwdAt rv (brow.getD (m - (j + b)) []) i' (m - (j + b)) (1 + q)))
        (midRow rv i' m brow frow j cur).1 := by
  induction frow with
  | nil => intro j cur b hb; simp at hb
  | cons fc frow ih =>
    intro j cur b hb q hq
    simp only [midRow]
    cases b with
    | zero =>
      simp only [List.getElem_cons_zero, Nat.add_zero] at hq ⊢
      exact ele_trans (midCell_ge_elem rv _ i' (m - j) j fc 1 cur q hq) (midRow_ge_init rv i' m brow frow (j + 1) _)
    | succ b =>
      simp only [List.getElem_cons_succ] at hq ⊢
      have := ih (j + 1) (midCell rv (brow.getD (m - j) []) i' (m - j) j fc 1 cur) b (by simpa using hb) q hq
      simpa [Nat.add_assoc, Nat.add_comm 1 b] using this

theorem midRow_cases (rv : HMM S) (i' m : Nat) (brow : List (Cell S)) (frow : List (Cell S)) :
    ∀ (j : Nat) (cur : Mid S),
      midRow rv i' m brow frow j cur = cur ∨
      ∃ b, ∃ hb : b < frow.length, ∃ q, ∃ hq : q < (frow[b]).length,
        midRow rv i' m brow frow j cur =
          (eadd ((frow[b])[q]).1 (bwdAt rv (brow.getD (m - (j + b)) []) i' (m - (j + b)) (1 + q)), j + b, 1 + q) := by
  induction frow with
  | nil => intro j cur; exact Or.inl rfl
  | cons fc frow ih =>
    intro j cur
    simp only [midRow]
    rcases ih (j + 1) (midCell rv (brow.getD (m - j) []) i' (m - j) j fc 1 cur) with h | ⟨b, hb, q, hq, h⟩
    · rcases midCell_cases rv (brow.getD (m - j) []) i' (m - j) j fc 1 cur with h' | ⟨q, hq, h'⟩
      · exact Or.inl (by rw [h, h'])
      · exact Or.inr ⟨0, by simp, q, by simpa using hq, by rw [h, h']; simp⟩
    · exact Or.inr ⟨b + 1, by simpa using hb, q, by simpa using hq,
        by rw [h]; simp [Nat.add_assoc, Nat.add_comm 1 b]⟩

/-! ### crossing -/

/-- a path from row `i < r` that ends in row `≥ r` has a non-empty prefix ending exactly in row `r` -/
theorem crossing (h : HMM S) (r : Nat) (p : List Nat) : ∀ (i j : Nat), i < r → r ≤ (consumedFrom h i j p).1 →
    ∃ p1 p2, p = p1 ++ p2 ∧ p1 ≠ [] ∧ (consumedFrom h i j p1).1 = r := by
  induction p with
  | nil => intro i j hi hr; simp only [consumedFrom] at hr; omega
  | cons s p ih =>
    intro i j hi hr
    simp only [consumedFrom] at hr
    by_cases he : i + (h.dir s).1.toNat = r
    · exact ⟨[s], p, rfl, by simp, by simp [consumedFrom, he]⟩
    · have hlt : i + (h.dir s).1.toNat < r := by
        have : (h.dir s).1.toNat ≤ 1 := by cases (h.dir s).1 <;> simp [Bool.toNat]
        omega
      obtain ⟨p1, p2, hp, hne, hc⟩ := ih _ _ hlt hr
      exact ⟨s :: p1, p2, by rw [hp]; rfl, by simp, by simpa [consumedFrom] using hc⟩

end CogentModel.PairHMM
