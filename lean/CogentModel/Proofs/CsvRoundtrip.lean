/-  C20 — helper lemmas: the csv reader state machine inverts the csv writer, for cells that may contain
    the delimiter, quotes and the characters of the lineterminator (CR / LF inside quoted fields), for the
    lineterminators "\n" (what `Table.write` passes) and "\r\n" (the excel default).
    Proof by induction over the characters of a field, the fields of a record, the records of the text. -/
import CogentModel.Model.Csv
namespace CogentModel.Csv

/-- hypotheses on the dialect -/
structure GoodDialect (d : Dialect) : Prop where
  lt : d.lt = ['\n'] ∨ d.lt = ['\r', '\n']
  dq : d.delim ≠ quoteCh
  dnl : isNL d.delim = false

/-- every CR / LF inside the field is a character of the lineterminator, so that QUOTE_MINIMAL quotes the
field (CPython 3.12 only quotes on characters of the lineterminator: with "\n" a bare "\r" is written
unquoted and splits the record on reading, see `csv_cr_counter`) -/
def Quotable (d : Dialect) (f : Str) : Prop := ∀ c ∈ f, isNL c = true → c ∈ d.lt

def NoNL (f : Str) : Prop := ∀ c ∈ f, isNL c = false

theorem quotable_of_noNL (d : Dialect) (f : Str) (h : NoNL f) : Quotable d f := by
  intro c hc hn; rw [h c hc] at hn; cases hn

def emit (r : Row) : Except String (List Row) → Except String (List Row)
  | .ok rs => .ok (r :: rs)
  | .error e => .error e

/-- a character that is data everywhere outside quotes -/
def Plain (delim : Char) (c : Char) : Prop := c ≠ delim ∧ c ≠ quoteCh ∧ isNL c = false

theorem lineEnds_of_not_nl (c : Char) (rest : Str) (h : isNL c = false) : lineEnds c rest = false := by
  simp [isNL] at h
  simp [lineEnds, h.1, h.2]

theorem readChars_step_plain (delim : Char) (s : RS) (mid : Bool) (c : Char) (cs : Str) (h : isNL c = false) :
    readChars delim s mid (c :: cs) = readChars delim (procChar delim s c) true cs := by
  rw [readChars]
  simp [lineEnds_of_not_nl c cs h]

theorem readChars_inField (d : Char) (f : Str) (hf : ∀ c ∈ f, Plain d c) (fld : Str) (fs : Row) (rest : Str) :
    readChars d ⟨.inField, fld, fs⟩ true (f ++ rest) = readChars d ⟨.inField, fld ++ f, fs⟩ true rest := by
  induction f generalizing fld with
  | nil => simp
  | cons c cs ih =>
    obtain ⟨h1, h2, h3⟩ := hf c (by simp)
    rw [List.cons_append, readChars_step_plain _ _ _ _ _ h3]
    simp only [procChar, h1, h3, addChar, Bool.false_eq_true, if_false]
    rw [ih (fun c hc => hf c (by simp [hc]))]
    simp

/-- the body of a quoted field up to and including the closing quote — CR / LF inside are data, the line ends
they cause are ignored by the reader (`IN_QUOTED_FIELD: if c == EOL: pass`) -/
theorem readChars_inQuoted (d : Char) (f : Str) (fld : Str) (fs : Row) (mid : Bool) (rest : Str) :
    readChars d ⟨.inQuoted, fld, fs⟩ mid (escapeBody f ++ quoteCh :: rest)
      = readChars d ⟨.quoteInQuoted, fld ++ f, fs⟩ true rest := by
  induction f generalizing fld mid with
  | nil =>
    simp only [escapeBody, List.nil_append, List.append_nil]
    rw [readChars_step_plain _ _ _ _ _ (by decide)]
    simp [procChar]
  | cons c cs ih =>
    by_cases hc : c = quoteCh
    · subst hc
      simp only [escapeBody, if_true, List.cons_append]
      rw [readChars_step_plain _ _ _ _ _ (by decide), readChars_step_plain _ _ _ _ _ (by decide)]
      simp only [procChar, addChar, if_true]
      rw [ih]
      simp
    · simp only [escapeBody, hc, if_false, List.cons_append]
      rw [readChars]
      simp only [procChar, hc, if_false, addChar]
      by_cases hl : lineEnds c (escapeBody cs ++ quoteCh :: rest) = true
      · simp only [hl, if_true, procEOL]
        simp only [reduceCtorEq, if_false]
        rw [ih]; simp
      · simp only [hl, Bool.false_eq_true, if_false]
        rw [ih]; simp

theorem plain_of_not_needsQuote {d : Dialect} (f : Str) (hq : needsQuote d f = false) (hn : Quotable d f) :
    ∀ c ∈ f, Plain d.delim c := by
  intro c hc
  have h := hq
  simp only [needsQuote, List.any_eq_false] at h
  have hs := h c hc
  simp [special] at hs
  refine ⟨hs.1.1, hs.1.2, ?_⟩
  cases hnl : isNL c with
  | false => rfl
  | true => exact absurd (hn c hc hnl) hs.2

/-- the states the reader can be in when the terminator of a field arrives -/
def AtFieldEnd (s : RS) : Prop := s.st = .inField ∨ s.st = .startField ∨ s.st = .quoteInQuoted

theorem atFieldEnd_delim {d : Dialect} (g : GoodDialect d) (s : RS) (h : AtFieldEnd s) (mid : Bool) (rest : Str) :
    readChars d.delim s mid (d.delim :: rest) = readChars d.delim ⟨.startField, [], s.fields ++ [s.field]⟩ true rest := by
  rw [readChars_step_plain _ _ _ _ _ g.dnl]
  obtain ⟨st, fld, fs⟩ := s
  have h1 := g.dq
  have h2 := g.dnl
  rcases h with h | h | h <;> simp only at h <;> subst h <;>
    simp [procChar, procStartField, saveField, h1, h2]

/-- the record terminator: the field is saved, the line ends, the record is produced -/
theorem atFieldEnd_lt {d : Dialect} (g : GoodDialect d) (s : RS) (h : AtFieldEnd s) (mid : Bool) (rest : Str) :
    readChars d.delim s mid (d.lt ++ rest) = emit (s.fields ++ [s.field]) (readChars d.delim reset false rest) := by
  obtain ⟨st, fld, fs⟩ := s
  have hne : ¬ '\n' = d.delim := by
    intro e; have := g.dnl; rw [← e] at this; simp [isNL] at this
  have hne' : ¬ '\r' = d.delim := by
    intro e; have := g.dnl; rw [← e] at this; simp [isNL] at this
  rcases g.lt with hl | hl <;> rw [hl]
  · -- "\n"
    simp only [List.cons_append, List.nil_append]
    rw [readChars]
    have he : lineEnds '\n' rest = true := by simp [lineEnds]
    rcases h with h | h | h <;> simp only at h <;> subst h <;>
      simp [he, procChar, procStartField, saveField, isNL, quoteCh, hne, procEOL, emit] <;>
      cases readChars d.delim reset false rest <;> rfl
  · -- "\r\n"
    simp only [List.cons_append, List.nil_append]
    rw [readChars]
    have he1 : lineEnds '\r' ('\n' :: rest) = false := by simp [lineEnds]
    have he2 : lineEnds '\n' rest = true := by simp [lineEnds]
    rcases h with h | h | h <;> simp only at h <;> subst h <;>
      (simp only [he1, Bool.false_eq_true, if_false]
       rw [readChars]
       simp [he2, procChar, procStartField, saveField, isNL, quoteCh, hne', procEOL, emit]
       cases readChars d.delim reset false rest <;> rfl)

/-- after the encoded text of field `f` the reader is at a field end holding `f` -/
theorem readChars_encField {d : Dialect} (_g : GoodDialect d) (f : Str) (hn : Quotable d f) (fs : Row) (mid : Bool)
    (rest : Str) :
    ∃ s mid', AtFieldEnd s ∧ s.field = f ∧ s.fields = fs ∧ (mid' = true ∨ (encField d f = [] ∧ mid' = mid)) ∧
      readChars d.delim ⟨.startField, [], fs⟩ mid (encField d f ++ rest) = readChars d.delim s mid' rest := by
  unfold encField
  by_cases hq : needsQuote d f = true
  · simp only [hq, if_true]
    refine ⟨⟨.quoteInQuoted, f, fs⟩, true, Or.inr (Or.inr rfl), rfl, rfl, Or.inl rfl, ?_⟩
    rw [List.cons_append, readChars_step_plain _ _ _ _ _ (by decide)]
    simp only [procChar, procStartField]
    simp only [show isNL quoteCh = false by decide, Bool.false_eq_true, if_false, if_true]
    rw [List.append_assoc]
    have := readChars_inQuoted d.delim f [] fs true rest
    simpa using this
  · have hq' : needsQuote d f = false := by simpa using hq
    simp only [hq', Bool.false_eq_true, if_false]
    have hp := plain_of_not_needsQuote f hq' hn
    cases f with
    | nil => exact ⟨⟨.startField, [], fs⟩, mid, Or.inr (Or.inl rfl), rfl, rfl, Or.inr ⟨rfl, rfl⟩, by simp⟩
    | cons c cs =>
      obtain ⟨h1, h2, h3⟩ := hp c (by simp)
      refine ⟨⟨.inField, c :: cs, fs⟩, true, Or.inl rfl, rfl, rfl, Or.inl rfl, ?_⟩
      rw [List.cons_append, readChars_step_plain _ _ _ _ _ h3]
      simp only [procChar, procStartField, h1, h2, h3, addChar, Bool.false_eq_true, if_false]
      rw [readChars_inField d.delim cs (fun c hc => hp c (by simp [hc]))]
      simp

theorem readChars_join {d : Dialect} (g : GoodDialect d) (r : Row) (hr : r ≠ []) (hn : ∀ f ∈ r, Quotable d f)
    (fs0 : Row) (mid : Bool) (rest : Str) :
    readChars d.delim ⟨.startField, [], fs0⟩ mid (joinFields d r ++ d.lt ++ rest)
      = emit (fs0 ++ r) (readChars d.delim reset false rest) := by
  induction r generalizing fs0 mid with
  | nil => exact absurd rfl hr
  | cons f more ih =>
    cases more with
    | nil =>
      simp only [joinFields]
      obtain ⟨s, mid', hs, hf, hfs, _, e⟩ := readChars_encField g f (hn f (by simp)) fs0 mid (d.lt ++ rest)
      rw [List.append_assoc, e, atFieldEnd_lt g s hs, hf, hfs]
    | cons f2 more2 =>
      have e1 : joinFields d (f :: f2 :: more2) ++ d.lt ++ rest
          = encField d f ++ (d.delim :: (joinFields d (f2 :: more2) ++ d.lt ++ rest)) := by
        simp [joinFields]
      obtain ⟨s, mid', hs, hf, hfs, _, e⟩ := readChars_encField g f (hn f (by simp)) fs0 mid
        (d.delim :: (joinFields d (f2 :: more2) ++ d.lt ++ rest))
      rw [e1, e, atFieldEnd_delim g s hs, hf, hfs, ih (by simp) (fun f hf => hn f (by simp [hf]))]
      simp

theorem readChars_startRecord (delim : Char) (fld : Str) (fs : Row) (mid : Bool) (c : Char) (t : Str)
    (hc : isNL c = false) :
    readChars delim ⟨.startRecord, fld, fs⟩ mid (c :: t) = readChars delim ⟨.startField, fld, fs⟩ mid (c :: t) := by
  rw [readChars_step_plain _ _ _ _ _ hc, readChars_step_plain _ _ _ _ _ hc]
  simp [procChar, hc, procStartField, saveField, addChar]

theorem enc_head {d : Dialect} (f : Str) (hn : Quotable d f) :
    (encField d f = [] ∧ f = []) ∨ ∃ c t, encField d f = c :: t ∧ isNL c = false := by
  unfold encField
  by_cases hq : needsQuote d f = true
  · right; exact ⟨quoteCh, escapeBody f ++ [quoteCh], by simp [hq], by decide⟩
  · have hq' : needsQuote d f = false := by simpa using hq
    cases f with
    | nil => left; simp [hq']
    | cons c cs =>
      right
      exact ⟨c, cs, by simp [hq'], (plain_of_not_needsQuote (c :: cs) hq' hn c (by simp)).2.2⟩

theorem rowText_head {d : Dialect} (g : GoodDialect d) (r : Row) (hr : r ≠ []) (hn : ∀ f ∈ r, Quotable d f)
    (rest : Str) :
    ∃ c t, rowText d r ++ d.lt ++ rest = c :: t ∧ isNL c = false := by
  unfold rowText
  by_cases h1 : r = [[]]
  · exact ⟨quoteCh, quoteCh :: (d.lt ++ rest), by simp [h1], by decide⟩
  · simp only [h1, if_false]
    match r, hr, hn, h1 with
    | [f], _, hn, h1 =>
      rcases enc_head (d := d) f (hn f (by simp)) with ⟨_, h⟩ | ⟨c, t, h, hc⟩
      · subst h; exact absurd rfl h1
      · exact ⟨c, t ++ d.lt ++ rest, by simp [joinFields, h], hc⟩
    | f :: f2 :: more, _, hn, _ =>
      rcases enc_head (d := d) f (hn f (by simp)) with ⟨h, _⟩ | ⟨c, t, h, hc⟩
      · exact ⟨d.delim, _, by simp [joinFields, h]; rfl, g.dnl⟩
      · exact ⟨c, _, by simp [joinFields, h]; rfl, hc⟩

/-- one written record, read from a fresh reader state, followed by whatever comes next -/
theorem readChars_row {d : Dialect} (g : GoodDialect d) (r : Row) (hn : ∀ f ∈ r, Quotable d f) (rest : Str) :
    readChars d.delim reset false (writeRow d r ++ rest) = emit r (readChars d.delim reset false rest) := by
  unfold writeRow
  by_cases hr : r = []
  · subst hr
    have : rowText d [] = [] := by simp [rowText, joinFields]
    rw [this, List.nil_append]
    -- the empty record: only the line terminator
    rcases g.lt with hl | hl <;> rw [hl]
    · simp only [List.cons_append, List.nil_append]
      rw [readChars]
      have he : lineEnds '\n' rest = true := by simp [lineEnds]
      simp [he, reset, procChar, isNL, procEOL, emit]
      cases readChars d.delim ⟨.startRecord, [], []⟩ false rest <;> rfl
    · simp only [List.cons_append, List.nil_append]
      rw [readChars]
      have he1 : lineEnds '\r' ('\n' :: rest) = false := by simp [lineEnds]
      have he2 : lineEnds '\n' rest = true := by simp [lineEnds]
      simp only [he1, Bool.false_eq_true, if_false]
      rw [readChars]
      simp [he2, reset, procChar, isNL, procEOL, emit]
      cases readChars d.delim ⟨.startRecord, [], []⟩ false rest <;> rfl
  · obtain ⟨c, t, e, hc⟩ := rowText_head g r hr hn rest
    rw [e, reset, readChars_startRecord _ _ _ _ _ _ hc, ← e]
    by_cases h1 : r = [[]]
    · subst h1
      -- the lone empty field is written as `""`
      have hq := readChars_inQuoted d.delim [] [] [] true (d.lt ++ rest)
      simp only [escapeBody, List.nil_append, List.append_nil] at hq
      have e2 : rowText d [[]] ++ d.lt ++ rest = quoteCh :: quoteCh :: (d.lt ++ rest) := by simp [rowText]
      rw [e2, readChars_step_plain _ _ _ _ _ (by decide)]
      simp only [procChar, procStartField, show isNL quoteCh = false by decide, Bool.false_eq_true, if_false,
        if_true]
      rw [hq, atFieldEnd_lt g _ (Or.inr (Or.inr rfl))]
      simp [reset]
    · have e2 : rowText d r = joinFields d r := by simp [rowText, h1]
      rw [e2]
      have := readChars_join g r hr hn [] false rest
      simpa [reset] using this

theorem csv_roundtrip_general {d : Dialect} (g : GoodDialect d) (rows : List Row)
    (hn : ∀ r ∈ rows, ∀ f ∈ r, Quotable d f) :
    csvRead d.delim (csvWrite d rows) = .ok rows := by
  unfold csvRead
  induction rows with
  | nil => simp [csvWrite, readChars, reset]
  | cons r rs ih =>
    simp only [csvWrite]
    rw [readChars_row g r (hn r (by simp)), ih (fun r hr => hn r (by simp [hr]))]
    rfl

/-! ### text without the final line terminator (`to_csv` / `to_tsv`) -/

theorem atFieldEnd_eof (delim : Char) (s : RS) (h : AtFieldEnd s) :
    readChars delim s true [] = .ok [s.fields ++ [s.field]] := by
  obtain ⟨st, fld, fs⟩ := s
  rcases h with h | h | h <;> simp only at h <;> subst h <;> simp [readChars, procEOL, saveField]

theorem readChars_join_eof {d : Dialect} (g : GoodDialect d) (r : Row) (hr : r ≠ []) (hn : ∀ f ∈ r, Quotable d f)
    (fs0 : Row) (mid : Bool) (hm : mid = true ∨ joinFields d r ≠ []) :
    readChars d.delim ⟨.startField, [], fs0⟩ mid (joinFields d r) = .ok [fs0 ++ r] := by
  induction r generalizing fs0 mid with
  | nil => exact absurd rfl hr
  | cons f more ih =>
    cases more with
    | nil =>
      simp only [joinFields] at hm ⊢
      obtain ⟨s, mid', hs, hf, hfs, hmid, e⟩ := readChars_encField g f (hn f (by simp)) fs0 mid []
      rw [List.append_nil] at e
      have hm' : mid' = true := by
        rcases hmid with h | ⟨h1, h2⟩
        · exact h
        · rcases hm with h | h
          · rw [h2, h]
          · exact absurd h1 h
      rw [e, hm', atFieldEnd_eof _ s hs, hf, hfs]
    | cons f2 more2 =>
      obtain ⟨s, mid', hs, hf, hfs, _, e⟩ := readChars_encField g f (hn f (by simp)) fs0 mid
        (d.delim :: joinFields d (f2 :: more2))
      have e1 : joinFields d (f :: f2 :: more2) = encField d f ++ (d.delim :: joinFields d (f2 :: more2)) := by
        simp [joinFields]
      rw [e1, e, atFieldEnd_delim g s hs, hf, hfs, ih (by simp) (fun f hf => hn f (by simp [hf])) _ true (Or.inl rfl)]
      simp

theorem joinFields_head {d : Dialect} (g : GoodDialect d) (r : Row) (hr : r ≠ []) (h1 : r ≠ [[]])
    (hn : ∀ f ∈ r, Quotable d f) : ∃ c t, joinFields d r = c :: t ∧ isNL c = false := by
  match r, hr, hn, h1 with
  | [f], _, hn, h1 =>
    rcases enc_head (d := d) f (hn f (by simp)) with ⟨_, h⟩ | ⟨c, t, h, hc⟩
    · subst h; exact absurd rfl h1
    · exact ⟨c, t, by simp [joinFields, h], hc⟩
  | f :: f2 :: more, _, hn, _ =>
    rcases enc_head (d := d) f (hn f (by simp)) with ⟨h, _⟩ | ⟨c, t, h, hc⟩
    · exact ⟨d.delim, _, by simp [joinFields, h]; rfl, g.dnl⟩
    · exact ⟨c, _, by simp [joinFields, h]; rfl, hc⟩

/-- the last record without its line terminator -/
theorem readChars_row_eof {d : Dialect} (g : GoodDialect d) (r : Row) (hr : r ≠ []) (hn : ∀ f ∈ r, Quotable d f) :
    readChars d.delim reset false (rowText d r) = .ok [r] := by
  by_cases h1 : r = [[]]
  · subst h1
    have hq := readChars_inQuoted d.delim [] [] [] true []
    simp only [escapeBody, List.nil_append] at hq
    have e2 : rowText d [[]] = quoteCh :: [quoteCh] := by simp [rowText]
    rw [e2, reset, readChars_startRecord _ _ _ _ _ _ (by decide), readChars_step_plain _ _ _ _ _ (by decide)]
    simp only [procChar, procStartField, show isNL quoteCh = false by decide, Bool.false_eq_true, if_false, if_true]
    rw [hq, atFieldEnd_eof _ _ (Or.inr (Or.inr rfl))]
    simp
  · have e2 : rowText d r = joinFields d r := by simp [rowText, h1]
    obtain ⟨c, t, e, hc⟩ := joinFields_head g r hr h1 hn
    rw [e2, e, reset, readChars_startRecord _ _ _ _ _ _ hc, ← e]
    have := readChars_join_eof g r hr hn [] false (Or.inr (by rw [e]; simp))
    simpa using this

theorem readChars_rows_then {d : Dialect} (g : GoodDialect d) (rows : List Row)
    (hn : ∀ r ∈ rows, ∀ f ∈ r, Quotable d f) (rest : Str) :
    readChars d.delim reset false (csvWrite d rows ++ rest)
      = (match readChars d.delim reset false rest with
         | .ok rs => .ok (rows ++ rs)
         | .error e => .error e) := by
  induction rows with
  | nil => simp [csvWrite]; cases readChars d.delim reset false rest <;> rfl
  | cons r rs ih =>
    simp only [csvWrite, List.append_assoc]
    rw [readChars_row g r (hn r (by simp)), ih (fun r hr => hn r (by simp [hr]))]
    cases readChars d.delim reset false rest <;> simp [emit]

theorem csvWrite_append (d : Dialect) (a b : List Row) : csvWrite d (a ++ b) = csvWrite d a ++ csvWrite d b := by
  induction a with
  | nil => rfl
  | cons r rs ih => simp [csvWrite, ih]

/-- the text of `to_csv()` / `to_tsv()` (records through the writer, final "\n" dropped) reads back -/
theorem toCsv_reads_back {d : Dialect} (g : GoodDialect d) (hlt : d.lt = ['\n']) (rs : List Row) (last : Row)
    (hl : last ≠ []) (hn : ∀ r ∈ rs ++ [last], ∀ f ∈ r, Quotable d f) :
    csvRead d.delim ((csvWrite d (rs ++ [last])).dropLast) = .ok (rs ++ [last]) := by
  have e : (csvWrite d (rs ++ [last])).dropLast = csvWrite d rs ++ rowText d last := by
    rw [csvWrite_append]
    simp only [csvWrite, writeRow, hlt, List.append_nil]
    rw [← List.append_assoc, List.dropLast_concat]
  unfold csvRead
  rw [e, readChars_rows_then g rs (fun r hr => hn r (by simp [hr])),
    readChars_row_eof g last hl (hn last (by simp))]

theorem dropLast_append_singleton {α} (l : List α) (x : α) : dropLast (l ++ [x]) = l := by
  induction l with
  | nil => rfl
  | cons a l ih =>
    cases l with
    | nil => rfl
    | cons b l => simp only [List.cons_append, dropLast] at ih ⊢; rw [ih]

/-- `Table.write` (delimited branch) followed by `load_delimited` returns header, rows, title and
legend unchanged (title / legend rows are present iff non-empty, the caller says so by
`with_title` / `with_legend`). -/
theorem table_text_roundtrip' {d : Dialect} (g : GoodDialect d) (title legend : Str) (header : Row)
    (rows : List Row) (ht : Quotable d title) (hl : Quotable d legend) (hh : ∀ f ∈ header, Quotable d f)
    (hn : ∀ r ∈ rows, ∀ f ∈ r, Quotable d f) :
    loadDelimited d.delim (title ≠ []) (legend ≠ []) (tableWrite d title header rows legend)
      = .ok (header, rows, title, legend) := by
  unfold loadDelimited tableWrite
  rw [csv_roundtrip_general g]
  · by_cases h1 : title = [] <;> by_cases h2 : legend = [] <;>
      simp [h1, h2, dropLast_append_singleton]
  · intro r hr f hf
    simp only [List.mem_append, List.mem_cons] at hr
    rcases hr with (hr | rfl | hr) | hr
    · split at hr
      · simp at hr
      · simp at hr; subst hr; simp at hf; subst hf; exact ht
    · exact hh f hf
    · exact hn r hr f hf
    · split at hr
      · simp at hr
      · simp at hr; subst hr; simp at hf; subst hf; exact hl

end CogentModel.Csv
