/-  C20 — helper lemmas: the csv reader state machine inverts the csv writer (proof by induction over
    the characters of a field, the fields of a record, the records of the text). -/
import CogentModel.Model.Csv
namespace CogentModel.Csv

def run (delim : Char) (s : RS) (l : Str) : RS := l.foldl (procChar delim) s

@[simp] theorem run_nil (d s) : run d s [] = s := rfl
@[simp] theorem run_cons (d s c l) : run d s (c :: l) = run d (procChar d s c) l := rfl
theorem run_append (d s l1 l2) : run d s (l1 ++ l2) = run d (run d s l1) l2 := by
  simp [run, List.foldl_append]

/-- a character that is data everywhere outside quotes -/
def Plain (delim : Char) (c : Char) : Prop := c ≠ delim ∧ c ≠ quoteCh ∧ isNL c = false

theorem run_inField (d : Char) (f : Str) (hf : ∀ c ∈ f, Plain d c) (fld : Str) (fs : Row) :
    run d ⟨.inField, fld, fs⟩ f = ⟨.inField, fld ++ f, fs⟩ := by
  induction f generalizing fld with
  | nil => simp
  | cons c cs ih =>
    have hc := hf c (by simp)
    obtain ⟨h1, h2, h3⟩ := hc
    simp [procChar, h1, h3, addChar]
    rw [ih (fun c hc => hf c (by simp [hc]))]
    simp

theorem run_inQuoted (d : Char) (f : Str) (fld : Str) (fs : Row) :
    run d ⟨.inQuoted, fld, fs⟩ (escapeBody f) = ⟨.inQuoted, fld ++ f, fs⟩ := by
  induction f generalizing fld with
  | nil => simp [escapeBody]
  | cons c cs ih =>
    by_cases hc : c = quoteCh
    · subst hc
      simp [escapeBody, procChar, addChar, ih]
    · simp [escapeBody, hc, procChar, addChar, ih]


/-- hypotheses on the dialect used by the table writer -/
structure GoodDialect (d : Dialect) : Prop where
  lt : d.lt = ['\n']
  dq : d.delim ≠ quoteCh
  dnl : isNL d.delim = false

def NoNL (f : Str) : Prop := ∀ c ∈ f, isNL c = false

theorem plain_of_not_needsQuote {d : Dialect} (f : Str) (hq : needsQuote d f = false) (hn : NoNL f) :
    ∀ c ∈ f, Plain d.delim c := by
  intro c hc
  have h := hq
  simp only [needsQuote, List.any_eq_false] at h
  have := h c hc
  simp [special] at this
  exact ⟨this.1.1, this.1.2, hn c hc⟩

/-- the three states the reader can be in after the encoded text of field `f` -/
def Ready (s : RS) (f : Str) (fs : Row) : Prop :=
  (s = ⟨.inField, f, fs⟩ ∧ f ≠ []) ∨ (s = ⟨.startField, [], fs⟩ ∧ f = []) ∨ s = ⟨.quoteInQuoted, f, fs⟩

theorem enc_ready {d : Dialect} (_g : GoodDialect d) (f : Str) (hn : NoNL f) (fs : Row) :
    Ready (run d.delim ⟨.startField, [], fs⟩ (encField d f)) f fs := by
  unfold encField
  by_cases hq : needsQuote d f = true
  · simp only [hq, if_true]
    right; right
    simp [procChar, procStartField, isNL, quoteCh, run_append, run_inQuoted]
  · have hq' : needsQuote d f = false := by simpa using hq
    simp only [hq', Bool.false_eq_true, if_false]
    have hp := plain_of_not_needsQuote f hq' hn
    cases f with
    | nil => right; left; simp
    | cons c cs =>
      left
      obtain ⟨h1, h2, h3⟩ := hp c (by simp)
      refine ⟨?_, by simp⟩
      simp [procChar, procStartField, h1, h2, h3, addChar]
      rw [run_inField d.delim cs (fun c hc => hp c (by simp [hc]))]
      simp

theorem ready_delim {d : Dialect} (g : GoodDialect d) {s f fs} (h : Ready s f fs) :
    procChar d.delim s d.delim = ⟨.startField, [], fs ++ [f]⟩ := by
  have h1 := g.dq
  have h2 := g.dnl
  rcases h with ⟨rfl, _⟩ | ⟨rfl, rfl⟩ | rfl <;>
    simp [procChar, procStartField, saveField, h1, h2]

theorem ready_nl {d : Dialect} (g : GoodDialect d) {s f fs} (h : Ready s f fs) :
    procChar d.delim s '\n' = ⟨.eatCRNL, [], fs ++ [f]⟩ := by
  have hne : ¬ '\n' = d.delim := by
    intro h; have := g.dnl; rw [← h] at this; simp [isNL] at this
  rcases h with ⟨rfl, _⟩ | ⟨rfl, rfl⟩ | rfl <;>
    simp [procChar, procStartField, saveField, isNL, quoteCh, hne]


theorem run_join {d : Dialect} (g : GoodDialect d) (r : Row) (hr : r ≠ []) (hn : ∀ f ∈ r, NoNL f)
    (fs0 : Row) :
    run d.delim ⟨.startField, [], fs0⟩ (joinFields d r ++ ['\n']) = ⟨.eatCRNL, [], fs0 ++ r⟩ := by
  induction r generalizing fs0 with
  | nil => exact absurd rfl hr
  | cons f rest ih =>
    cases rest with
    | nil =>
      simp only [joinFields, run_append, run_cons, run_nil]
      exact ready_nl g (enc_ready g f (hn f (by simp)) fs0)
    | cons f2 rest2 =>
      have e : joinFields d (f :: f2 :: rest2) ++ ['\n'] =
          encField d f ++ ([d.delim] ++ (joinFields d (f2 :: rest2) ++ ['\n'])) := by
        simp [joinFields]
      rw [e, run_append, run_append]
      simp only [run_cons, run_nil]
      rw [ready_delim g (enc_ready g f (hn f (by simp)) fs0)]
      rw [ih (by simp) (fun f hf => hn f (by simp [hf]))]
      simp

theorem run_startRecord (delim : Char) (fld : Str) (fs : Row) (c : Char) (t : Str) (hc : isNL c = false) :
    run delim ⟨.startRecord, fld, fs⟩ (c :: t) = run delim ⟨.startField, fld, fs⟩ (c :: t) := by
  simp [procChar, hc, procStartField, saveField, addChar]

theorem enc_head {d : Dialect} (f : Str) (hn : NoNL f) :
    (encField d f = [] ∧ f = []) ∨ ∃ c t, encField d f = c :: t ∧ isNL c = false := by
  unfold encField
  by_cases hq : needsQuote d f = true
  · right; exact ⟨quoteCh, escapeBody f ++ [quoteCh], by simp [hq], by decide⟩
  · have hq' : needsQuote d f = false := by simpa using hq
    cases f with
    | nil => left; simp [hq']
    | cons c cs => right; exact ⟨c, cs, by simp [hq'], hn c (by simp)⟩

theorem rowText_head {d : Dialect} (g : GoodDialect d) (r : Row) (hr : r ≠ []) (hn : ∀ f ∈ r, NoNL f) :
    ∃ c t, rowText d r ++ ['\n'] = c :: t ∧ isNL c = false := by
  unfold rowText
  by_cases h1 : r = [[]]
  · exact ⟨quoteCh, [quoteCh, '\n'], by simp [h1], by decide⟩
  · simp only [h1, if_false]
    match r, hr, hn, h1 with
    | [f], _, hn, h1 =>
      rcases enc_head (d := d) f (hn f (by simp)) with ⟨_, h⟩ | ⟨c, t, h, hc⟩
      · subst h; exact absurd rfl h1
      · exact ⟨c, t ++ ['\n'], by simp [joinFields, h], hc⟩
    | f :: f2 :: rest, _, hn, _ =>
      rcases enc_head (d := d) f (hn f (by simp)) with ⟨h, _⟩ | ⟨c, t, h, hc⟩
      · exact ⟨d.delim, _, by simp [joinFields, h]; rfl, g.dnl⟩
      · exact ⟨c, _, by simp [joinFields, h]; rfl, hc⟩

/-- one written record, read back from a fresh reader state -/
theorem runLine_row {d : Dialect} (g : GoodDialect d) (r : Row) (hn : ∀ f ∈ r, NoNL f) :
    runLine d.delim reset (rowText d r ++ ['\n']) = ⟨.startRecord, [], r⟩ := by
  unfold runLine
  change procEOL (run d.delim reset (rowText d r ++ ['\n'])) = _
  by_cases hr : r = []
  · subst hr
    simp [rowText, joinFields, reset, procChar, isNL, procEOL]
  · by_cases h1 : r = [[]]
    · subst h1
      have hne : ¬ '\n' = d.delim := by
        intro h; have := g.dnl; rw [← h] at this; simp [isNL] at this
      simp [rowText, reset, procChar, procStartField, isNL, quoteCh, procEOL, saveField, hne]
    · obtain ⟨c, t, e, hc⟩ := rowText_head g r hr hn
      rw [e, reset, run_startRecord _ _ _ _ _ hc, ← e]
      simp only [rowText, h1, if_false]
      rw [run_join g r hr hn]
      simp [procEOL]


theorem readLines_rows {d : Dialect} (g : GoodDialect d) (rows : List Row)
    (hn : ∀ r ∈ rows, ∀ f ∈ r, NoNL f) :
    readLines d.delim reset (rows.map fun r => rowText d r ++ ['\n']) = .ok rows := by
  induction rows with
  | nil => simp [readLines, reset]
  | cons r rs ih =>
    simp only [List.map_cons, readLines]
    rw [runLine_row g r (hn r (by simp))]
    simp [ih (fun r hr => hn r (by simp [hr]))]

theorem mem_escapeBody (f : Str) (x : Char) (hx : x ∈ escapeBody f) : x ∈ f := by
  induction f with
  | nil => simp [escapeBody] at hx
  | cons c cs ih =>
    unfold escapeBody at hx
    by_cases hc : c = quoteCh
    · simp only [hc, if_true, List.mem_cons] at hx
      rcases hx with h | h | h
      · simp [h, hc]
      · simp [h, hc]
      · simp [ih h]
    · simp only [hc, if_false, List.mem_cons] at hx
      rcases hx with h | h
      · simp [h]
      · simp [ih h]

theorem noNL_escapeBody (f : Str) (hn : NoNL f) : NoNL (escapeBody f) :=
  fun x hx => hn x (mem_escapeBody f x hx)

theorem noNL_encField (d : Dialect) (f : Str) (hn : NoNL f) : NoNL (encField d f) := by
  unfold encField
  split
  · intro x hx
    simp at hx
    rcases hx with rfl | hx | rfl
    · decide
    · exact noNL_escapeBody f hn x hx
    · decide
  · exact hn

theorem noNL_joinFields {d : Dialect} (g : GoodDialect d) (r : Row) (hn : ∀ f ∈ r, NoNL f) :
    NoNL (joinFields d r) := by
  induction r with
  | nil => simp [joinFields, NoNL]
  | cons f rest ih =>
    cases rest with
    | nil => simpa [joinFields] using noNL_encField d f (hn f (by simp))
    | cons f2 rest2 =>
      intro x hx
      simp only [joinFields, List.mem_append, List.mem_cons] at hx
      rcases hx with hx | rfl | hx
      · exact noNL_encField d f (hn f (by simp)) x hx
      · exact g.dnl
      · exact ih (fun f hf => hn f (by simp [hf])) x hx

theorem noNL_rowText {d : Dialect} (g : GoodDialect d) (r : Row) (hn : ∀ f ∈ r, NoNL f) :
    NoNL (rowText d r) := by
  unfold rowText
  split
  · intro x hx; simp at hx; subst hx; decide
  · exact noNL_joinFields g r hn

theorem split_nl (acc rest : Str) :
    splitLinesAux acc ('\n' :: rest) = (acc ++ ['\n']) :: splitLinesAux [] rest := by
  cases rest <;> simp [splitLinesAux]

theorem split_plain (acc rest : Str) (c : Char) (h1 : c ≠ '\n') (h2 : c ≠ '\r') :
    splitLinesAux acc (c :: rest) = splitLinesAux (acc ++ [c]) rest := by
  cases rest <;> simp [splitLinesAux, h1, h2]

theorem splitLinesAux_line (body rest acc : Str) (hn : NoNL body) :
    splitLinesAux acc (body ++ '\n' :: rest) = (acc ++ body ++ ['\n']) :: splitLinesAux [] rest := by
  induction body generalizing acc with
  | nil => simp [split_nl]
  | cons c cs ih =>
    have hc := hn c (by simp)
    simp [isNL] at hc
    rw [List.cons_append, split_plain _ _ _ hc.1 hc.2, ih _ (fun c hc => hn c (by simp [hc]))]
    simp

theorem splitLines_csvWrite {d : Dialect} (g : GoodDialect d) (rows : List Row)
    (hn : ∀ r ∈ rows, ∀ f ∈ r, NoNL f) :
    splitLines (csvWrite d rows) = rows.map fun r => rowText d r ++ ['\n'] := by
  unfold splitLines
  induction rows with
  | nil => simp [csvWrite, splitLinesAux]
  | cons r rs ih =>
    simp only [csvWrite, writeRow, g.lt, List.map_cons]
    have : (rowText d r ++ ['\n']) ++ csvWrite d rs = rowText d r ++ '\n' :: csvWrite d rs := by simp
    rw [this, splitLinesAux_line _ _ _ (noNL_rowText g r (hn r (by simp)))]
    rw [ih (fun r hr => hn r (by simp [hr]))]
    simp

theorem csv_roundtrip' {d : Dialect} (g : GoodDialect d) (rows : List Row)
    (hn : ∀ r ∈ rows, ∀ f ∈ r, NoNL f) :
    csvRead d.delim (csvWrite d rows) = .ok rows := by
  unfold csvRead
  rw [splitLines_csvWrite g rows hn, readLines_rows g rows hn]


theorem dropLast_append_singleton {α} (l : List α) (x : α) : dropLast (l ++ [x]) = l := by
  induction l with
  | nil => rfl
  | cons a l ih =>
    cases l with
    | nil => rfl
    | cons b l => simp only [List.cons_append, dropLast] at ih ⊢; rw [ih]

/-- `Table.write` (delimited branch) followed by `load_delimited` returns header, rows, title and
legend unchanged (title / legend rows are present iff non-empty, the caller says so by
`with_title` / `with_legend`). -/
theorem table_text_roundtrip' {d : Dialect} (g : GoodDialect d) (title legend : Str) (header : Row)
    (rows : List Row) (ht : NoNL title) (hl : NoNL legend) (hh : ∀ f ∈ header, NoNL f)
    (hn : ∀ r ∈ rows, ∀ f ∈ r, NoNL f) :
    loadDelimited d.delim (title ≠ []) (legend ≠ []) (tableWrite d title header rows legend)
      = .ok (header, rows, title, legend) := by
  unfold loadDelimited tableWrite
  rw [csv_roundtrip' g]
  · by_cases h1 : title = [] <;> by_cases h2 : legend = [] <;>
      simp [h1, h2, dropLast_append_singleton]
  · intro r hr f hf
    simp only [List.mem_append, List.mem_cons] at hr
    rcases hr with (hr | rfl | hr) | hr
    · split at hr
      · simp at hr
      · simp at hr; subst hr; simp at hf; subst hf; exact ht
    · exact hh f hf
    · exact hn r hr f hf
    · split at hr
      · simp at hr
      · simp at hr; subst hr; simp at hf; subst hf; exact hl

end CogentModel.Csv
