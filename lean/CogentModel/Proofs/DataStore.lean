import CogentModel.Proofs.KVLemmas
import CogentModel.Spec.DataStoreDict
namespace CogentModel.DataStore
open CogentModel.KV CogentModel.DataStoreDict

variable {D : Type}

/-! ### hygiene facts in `Prop` form -/

structure HygId (sfx i : Str) : Prop where
  cres : resolve sfx sfx i = ⟨cN sfx i, cN sfx i, cN sfx i, mdOf sfx (cN sfx i)⟩
  ncres : resolve sfx sJson i = ⟨cN sfx i, ncN i, ncN i, mdOf sfx (ncN i)⟩
  dkey : dropKey sfx i = ncN i
  dmd5 : dropMd5 (ncN i) = mdOf sfx (ncN i)
  cglob : endsWith (cN sfx i) ('.' :: sfx) = true
  ncglob : endsWith (ncN i) ('.' :: sJson) = true
  cpre : startsWith (cN sfx i) ncPrefix = false
  ncpre : startsWith (ncN i) ncPrefix = false
  notlog : (sfx != sLog) = true
  cslash : (cN sfx i).contains '/' = false
  ncslash : (ncN i).contains '/' = false
  mdSame : mdOf sfx (cN sfx i) = mdOf sfx (ncN i)

structure HygPair (sfx i j : Str) : Prop where
  mdC : mdOf sfx (cN sfx i) = mdOf sfx (cN sfx j) → cN sfx i = cN sfx j
  mdN : mdOf sfx (ncN i) = mdOf sfx (ncN j) → ncN i = ncN j
  mdX : mdOf sfx (cN sfx i) = mdOf sfx (ncN j) → ncN i = ncN j

theorem hygId_of {sfx i : Str} (h : hygId sfx i = true) : HygId sfx i := by
  simp only [hygId, Bool.and_eq_true, decide_eq_true_eq, Bool.not_eq_true'] at h
  obtain ⟨⟨⟨⟨⟨⟨⟨⟨⟨⟨⟨h1, h2⟩, h3⟩, h4⟩, h5⟩, h6⟩, h7⟩, h8⟩, h9⟩, h10⟩, h11⟩, h12⟩ := h
  exact ⟨h1, h2, h3, h4, h5, h6, h7, h8, h9, h10, h11, h12⟩

theorem hygPair_of {sfx i j : Str} (h : hygPair sfx i j = true) : HygPair sfx i j := by
  simp only [hygPair, Bool.and_eq_true, Bool.or_eq_true, decide_eq_true_eq, Bool.not_eq_true',
    decide_eq_false_iff_not] at h
  obtain ⟨⟨h2, h3⟩, h4⟩ := h
  refine ⟨?_, ?_, ?_⟩
  · intro hm; rcases h2 with h2 | h2
    · exact absurd hm h2
    · exact h2
  · intro hm; rcases h3 with h3 | h3
    · exact absurd hm h3
    · exact h3
  · intro hm; rcases h4 with h4 | h4
    · exact absurd hm h4
    · exact h4

theorem hyg_id {sfx : Str} {ids : List Str} (h : hyg sfx ids = true) {i : Str} (hi : i ∈ ids) :
    HygId sfx i := by
  simp only [hyg, Bool.and_eq_true, List.all_eq_true] at h
  exact hygId_of (h.1 i hi)

theorem hyg_pair {sfx : Str} {ids : List Str} (h : hyg sfx ids = true) {i j : Str}
    (hi : i ∈ ids) (hj : j ∈ ids) : HygPair sfx i j := by
  simp only [hyg, Bool.and_eq_true, List.all_eq_true] at h
  exact hygPair_of (h.2 i hi j hj)

/-- same identity: the completed names agree iff the not-completed names agree -/
theorem cN_eq_iff (sfx i j : Str) : cN sfx i = cN sfx j ↔ ncN i = ncN j := by
  simp only [cN, ncN, cName, ncName, List.append_left_inj]

theorem ncN_ne_nil (i : Str) : ncN i ≠ [] := by
  simp [ncN, ncName]

/-! ### the simulation relation -/

/-- `lost` is the ghost list of completed records whose md5 side file is missing (`lostStep`) -/
structure Sim (H : D → D) (sfx : Str) (ids : List Str) (lost : List Str) (s : Dir D) (d : Dict D) : Prop where
  hmode : s.mode = d.mode
  hsfx : s.sfx = sfx
  root : s.root = d.completed
  nc : s.nc = d.notCompleted
  logs : s.logs = d.logs
  logsDir : s.logsDir = true
  ndC : (keys d.completed).Nodup
  ndN : (keys d.notCompleted).Nodup
  fromC : ∀ n ∈ keys d.completed, ∃ i ∈ ids, n = cN sfx i
  fromN : ∀ n ∈ keys d.notCompleted, ∃ i ∈ ids, n = ncN i
  cacheC : s.cCache = [] ∨ (s.cCache.Nodup ∧ ∀ n, n ∈ s.cCache ↔ n ∈ keys d.completed)
  cacheN : s.ncCache = [] ∨ (s.ncCache.Nodup ∧ ∀ n, n ∈ s.ncCache ↔ n ∈ keys d.notCompleted)
  md5N : ∀ n v, get d.notCompleted n = some v → get s.md5 (mdOf sfx n) = some (H v)
  /-- exact: a completed member's md5 is that of its content unless the record is in `lost` -/
  md5C : ∀ n v, get d.completed n = some v →
    get s.md5 (mdOf sfx n) = if n ∈ lost then none else some (H v)
  /-- no live not-completed record shares its md5 side file with a live completed record -/
  md5X : ∀ n ∈ keys d.notCompleted, ∀ c ∈ keys d.completed, mdOf sfx c ≠ mdOf sfx n
  lostSub : ∀ n ∈ lost, n ∈ keys d.completed
  ncDir : s.ncDir = false → d.notCompleted = []

/-- caches are filled and list exactly the dictionary's keys -/
structure Full (s : Dir D) (d : Dict D) : Prop where
  cnd : s.cCache.Nodup
  cmem : ∀ n, n ∈ s.cCache ↔ n ∈ keys d.completed
  nnd : s.ncCache.Nodup
  nmem : ∀ n, n ∈ s.ncCache ↔ n ∈ keys d.notCompleted

section
variable {cfg : Cfg} {H : D → D} {sfx : Str} {ids : List Str} {lost : List Str} {s : Dir D} {d : Dict D}

theorem globC_eq (hy : hyg sfx ids = true) (h : Sim H sfx ids lost s d) : globC s = keys d.completed := by
  unfold globC
  rw [h.root, h.hsfx]
  apply List.filter_eq_self.mpr
  intro n hn
  obtain ⟨i, hi, rfl⟩ := h.fromC n hn
  exact (hyg_id hy hi).cglob

theorem globNc_eq (hy : hyg sfx ids = true) (h : Sim H sfx ids lost s d) : globNc s = keys d.notCompleted := by
  unfold globNc
  by_cases hd : s.ncDir = true
  · rw [if_pos hd, h.nc]
    apply List.filter_eq_self.mpr
    intro n hn
    obtain ⟨i, hi, rfl⟩ := h.fromN n hn
    exact (hyg_id hy hi).ncglob
  · have : s.ncDir = false := by simpa using hd
    rw [if_neg hd, h.ncDir this]; rfl

/-- the relation only looks at the files, the two directory flags and the member lists -/
theorem sim_congr {s' : Dir D} (h : Sim H sfx ids lost s d)
    (e1 : s'.mode = s.mode) (e2 : s'.sfx = s.sfx) (e3 : s'.root = s.root) (e4 : s'.nc = s.nc)
    (e5 : s'.logs = s.logs) (e6 : s'.logsDir = true) (e7 : s'.md5 = s.md5) (e8 : s'.ncDir = false → s.ncDir = false)
    (cC : s'.cCache = [] ∨ (s'.cCache.Nodup ∧ ∀ n, n ∈ s'.cCache ↔ n ∈ keys d.completed))
    (cN : s'.ncCache = [] ∨ (s'.ncCache.Nodup ∧ ∀ n, n ∈ s'.ncCache ↔ n ∈ keys d.notCompleted)) :
    Sim H sfx ids lost s' d :=
  ⟨e1 ▸ h.hmode, e2 ▸ h.hsfx, e3 ▸ h.root, e4 ▸ h.nc, e5 ▸ h.logs, e6, h.ndC, h.ndN, h.fromC, h.fromN, cC, cN,
   e7 ▸ h.md5N, e7 ▸ h.md5C, h.md5X, h.lostSub, fun hd => h.ncDir (e8 hd)⟩

theorem sim_populate (hy : hyg sfx ids = true) (h : Sim H sfx ids lost s d) :
    Sim H sfx ids lost (populate s) d ∧ Full (populate s) d := by
  have hc := globC_eq hy h
  have hn := globNc_eq hy h
  -- completed cache
  have h1 : Sim H sfx ids lost (populateC s) d ∧ (populateC s).cCache.Nodup ∧
      (∀ n, n ∈ (populateC s).cCache ↔ n ∈ keys d.completed) := by
    unfold populateC
    by_cases he : s.cCache.isEmpty = true
    · rw [if_pos he]
      refine ⟨sim_congr h rfl rfl rfl rfl rfl h.logsDir rfl id ?_ h.cacheN, ?_, ?_⟩
      · right; simp only [hc]; exact ⟨h.ndC, fun _ => trivial⟩
      · simp only [hc]; exact h.ndC
      · simp only [hc]; exact fun _ => trivial
    · rw [if_neg he]
      have hne : s.cCache ≠ [] := by simpa using he
      rcases h.cacheC with h0 | h0
      · exact absurd h0 hne
      · exact ⟨h, h0.1, h0.2⟩
  obtain ⟨hs1, hnd1, hm1⟩ := h1
  have hn1 : globNc (populateC s) = keys d.notCompleted := globNc_eq hy hs1
  unfold populate populateNc
  by_cases he : (populateC s).ncCache.isEmpty = true
  · rw [if_pos he]
    refine ⟨sim_congr hs1 rfl rfl rfl rfl rfl hs1.logsDir rfl id hs1.cacheC ?_, ⟨hnd1, hm1, ?_, ?_⟩⟩
    · right; simp only [hn1]; exact ⟨h.ndN, fun _ => trivial⟩
    · simp only [hn1]; exact h.ndN
    · simp only [hn1]; exact fun _ => trivial
  · rw [if_neg he]
    have hne : (populateC s).ncCache ≠ [] := by simpa using he
    rcases hs1.cacheN with h0 | h0
    · exact absurd h0 hne
    · exact ⟨hs1, hnd1, hm1, h0.1, h0.2⟩


/-! ### `__contains__` -/

theorem ncprefix_ne (n item : Str) (h : startsWith item ncPrefix = false) : (ncPrefix ++ n == item) = false := by
  apply beq_eq_false_iff_ne.mpr
  intro e
  subst e
  have : ncPrefix.isPrefixOf (ncPrefix ++ n) = true := List.isPrefixOf_iff_prefix.mpr (List.prefix_append _ _)
  simp [startsWith, this] at h

theorem contains_iff (hf : Full s d) (item : Str) (hp : startsWith item ncPrefix = false) :
    contains s item = true ↔ item ∈ keys d.completed := by
  unfold contains
  have h2 : (s.ncCache.any fun n => ncPrefix ++ n == item) = false := by
    apply List.any_eq_false.mpr
    intro n _
    simp [ncprefix_ne n item hp]
  rw [h2, Bool.or_false, List.contains_iff_mem, hf.cmem]

/-! ### `_write` -/

theorem writeCore_root (hy : hyg sfx ids = true) (h : Sim H sfx ids lost s d) {i : Str} (hi : i ∈ ids) (data : D) :
    writeCore cfg H s .root i s.sfx data =
      if s.mode = .r then (s, .err .ioError)
      else if cN sfx i ∈ keys d.completed then
        (if s.mode = .a then (populate s, .err .ioError) else (populate s, .done none))
      else ({ populate s with root := put (populate s).root (cN sfx i) data,
                              md5 := put (populate s).md5 (mdOf sfx (cN sfx i)) (H data) },
            .done (some (cN sfx i))) := by
  obtain ⟨hs', hf⟩ := sim_populate hy h
  have hid := hyg_id hy hi
  unfold writeCore
  by_cases hr : s.mode = .r
  · simp [hr]
  · rw [if_neg hr, if_neg hr]
    have hsx : (populate s).sfx = sfx := hs'.hsfx
    have hm : (populate s).mode = s.mode := by rw [hs'.hmode, h.hmode]
    simp only [hsx, h.hsfx, hid.cres, hm]
    have hc := contains_iff hf (cN sfx i) hid.cpre
    by_cases hin : cN sfx i ∈ keys d.completed
    · have hct : contains (populate s) (cN sfx i) = true := hc.mpr hin
      rw [if_pos hin, hct]
      by_cases ha : s.mode = .a
      · simp [ha]
      · simp [ha, hid.notlog]
    · have hcf : contains (populate s) (cN sfx i) = false := by
        cases hb : contains (populate s) (cN sfx i) with
        | false => rfl
        | true => exact absurd (hc.mp hb) hin
      rw [if_neg hin, hcf]
      have hsl := hid.cslash
      simp only [List.contains_eq_mem, decide_eq_false_iff_not] at hsl
      simp [writeBody, writeFile, hm, hsx, hsl]

theorem sJson_ne_sLog : (sJson != sLog) = true := by decide

theorem writeCore_nc (hy : hyg sfx ids = true) (h : Sim H sfx ids lost s d) {i : Str} (hi : i ∈ ids) (data : D)
    (hj : ncN i ∉ keys d.completed) :
    writeCore cfg H s .nc i sJson data =
      if s.mode = .r then (s, .err .ioError)
      else if cN sfx i ∈ keys d.completed ∧ s.mode = .a then (populate s, .err .ioError)
      else ({ populate s with nc := put (populate s).nc (ncN i) data,
                              md5 := put (populate s).md5 (mdOf sfx (ncN i)) (H data) },
            .done (some (ncN i))) := by
  obtain ⟨hs', hf⟩ := sim_populate hy h
  have hid := hyg_id hy hi
  unfold writeCore
  by_cases hr : s.mode = .r
  · simp [hr]
  · rw [if_neg hr, if_neg hr]
    have hsx : (populate s).sfx = sfx := hs'.hsfx
    have hm : (populate s).mode = s.mode := by rw [hs'.hmode, h.hmode]
    simp only [hsx, hid.ncres, hm]
    have hc := contains_iff hf (cN sfx i) hid.cpre
    have hc2 := contains_iff hf (ncN i) hid.ncpre
    have hcf2 : contains (populate s) (ncN i) = false := by
      cases hb : contains (populate s) (ncN i) with
      | false => rfl
      | true => exact absurd (hc2.mp hb) hj
    by_cases hin : cN sfx i ∈ keys d.completed ∧ s.mode = .a
    · have hct : contains (populate s) (cN sfx i) = true := hc.mpr hin.1
      rw [if_pos hin, hct]
      simp [hin.2]
    · rw [if_neg hin]
      have : (contains (populate s) (cN sfx i) && decide (s.mode = .a)) = false := by
        cases hb : contains (populate s) (cN sfx i) with
        | false => rfl
        | true =>
          have := hc.mp hb
          have hna : ¬ s.mode = .a := fun e => hin ⟨this, e⟩
          simp [hna]
      rw [this, hcf2]
      have hsl := hid.ncslash
      simp only [List.contains_eq_mem, decide_eq_false_iff_not] at hsl
      simp [writeBody, writeFile, hm, hsx, hsl]


/-! ### the loop of `drop_not_completed` -/

theorem dropMatch_self (k : Str) : dropMatch k k = true := by simp [dropMatch]

theorem eq_of_dropMatch {k m : Str} (h : dropMatch k m = true) : m = k := by
  simpa [dropMatch] using h

theorem dropLoop_key (k : Str) (hk : k ≠ []) :
    ∀ (ms : List Str) (s : Dir D), ms.Nodup → (∀ m ∈ ms, m ≠ k → dropMatch k m = false) →
      (k ∈ ms → has s.nc k = true ∧ has s.md5 (dropMd5 k) = true) →
      dropLoop k s ms =
        (if k ∈ ms then { s with nc := del s.nc k, md5 := del s.md5 (dropMd5 k), ncCache := s.ncCache.erase k } else s,
         .done none) := by
  intro ms
  induction ms with
  | nil => intro s _ _ _; simp [dropLoop]
  | cons m ms ih =>
    intro s hnd hno hhas
    have hke : k.isEmpty = false := by cases k with
      | nil => exact absurd rfl hk
      | cons _ _ => rfl
    obtain ⟨hm_notin, hnd'⟩ := List.nodup_cons.mp hnd
    by_cases hmk : m = k
    · subst hmk
      obtain ⟨h1, h2⟩ := hhas (by simp)
      have hrec := ih { s with nc := del s.nc m, md5 := del s.md5 (dropMd5 m), ncCache := s.ncCache.erase m } hnd'
        (fun m' hm' hne => hno m' (List.mem_cons_of_mem _ hm') hne) (fun hin => absurd hin hm_notin)
      unfold dropLoop
      simp only [dropMatch_self, hke, h1, h2, Bool.not_true, Bool.and_false, Bool.false_eq_true, if_false]
      rw [hrec]
      simp [hm_notin]
    · have hno' := hno m (by simp) hmk
      have hrec := ih s hnd' (fun m' hm' hne => hno m' (List.mem_cons_of_mem _ hm') hne)
        (fun hin => hhas (List.mem_cons_of_mem _ hin))
      unfold dropLoop
      simp only [hno', hke, Bool.not_false, Bool.and_true, if_true]
      rw [hrec]
      have : (k ∈ m :: ms) ↔ k ∈ ms := by
        simp only [List.mem_cons]; constructor
        · rintro (h | h)
          · exact absurd h.symm hmk
          · exact h
        · exact Or.inr
      by_cases hin : k ∈ ms
      · simp [hin]
      · have hn2 : ¬ k ∈ m :: ms := fun h => hin (this.mp h)
        simp [hin, hn2]

theorem dropLoop_all :
    ∀ (ms : List Str) (s : Dir D), ms.Nodup → (ms.map dropMd5).Nodup →
      (∀ m ∈ ms, has s.nc m = true ∧ has s.md5 (dropMd5 m) = true) →
      ∃ s', dropLoop [] s ms = (s', .done none) ∧ s'.mode = s.mode ∧ s'.sfx = s.sfx ∧ s'.root = s.root ∧
        s'.ncDir = s.ncDir ∧ s'.cCache = s.cCache ∧ s'.logs = s.logs ∧ s'.logsDir = s.logsDir ∧
        (∀ x, get s'.nc x = if x ∈ ms then none else get s.nc x) ∧
        (∀ y, get s'.md5 y = if y ∈ ms.map dropMd5 then none else get s.md5 y) := by
  intro ms
  induction ms with
  | nil => intro s _ _ _; exact ⟨s, by simp [dropLoop]⟩
  | cons m ms ih =>
    intro s hnd hnd2 hhas
    obtain ⟨hm_notin, hnd'⟩ := List.nodup_cons.mp hnd
    simp only [List.map_cons] at hnd2
    obtain ⟨hmd_notin, hnd2'⟩ := List.nodup_cons.mp hnd2
    obtain ⟨h1, h2⟩ := hhas m (by simp)
    have hpre : ∀ m' ∈ ms, has ({ s with nc := del s.nc m, md5 := del s.md5 (dropMd5 m), ncCache := s.ncCache.erase m } : Dir D).nc m' = true ∧
        has ({ s with nc := del s.nc m, md5 := del s.md5 (dropMd5 m), ncCache := s.ncCache.erase m } : Dir D).md5 (dropMd5 m') = true := by
      intro m' hm'
      obtain ⟨a, b⟩ := hhas m' (List.mem_cons_of_mem _ hm')
      have hne : m' ≠ m := fun e => hm_notin (e ▸ hm')
      have hne2 : dropMd5 m' ≠ dropMd5 m := fun e => hmd_notin (e ▸ List.mem_map_of_mem hm')
      simp only [has, get_del, hne, hne2, if_false]
      exact ⟨a, b⟩
    obtain ⟨s', e, q1, q2, q3, q4, q5, q5a, q5b, q6, q7⟩ :=
      ih { s with nc := del s.nc m, md5 := del s.md5 (dropMd5 m), ncCache := s.ncCache.erase m } hnd' hnd2' hpre
    refine ⟨s', ?_, q1, q2, q3, q4, q5, q5a, q5b, ?_, ?_⟩
    · unfold dropLoop
      simp only [List.isEmpty_nil, Bool.not_true, Bool.false_and, Bool.false_eq_true, if_false, h1, h2]
      exact e
    · intro x
      rw [q6 x]
      simp only [get_del, List.mem_cons]
      by_cases hx : x = m
      · simp [hx]
      · simp [hx]
    · intro y
      rw [q7 y]
      simp only [get_del, List.map_cons, List.mem_cons]
      by_cases hy : y = dropMd5 m
      · simp [hy]
      · simp [hy]

theorem has_false_of_not_mem {m : KV D} {k : Str} (h : k ∉ keys m) : has m k = false := by
  unfold has
  cases hg : (get m k).isSome with
  | false => rfl
  | true => exact absurd ((mem_keys_iff m k).mpr hg) h

theorem has_true_of_mem {m : KV D} {k : Str} (h : k ∈ keys m) : has m k = true :=
  (mem_keys_iff m k).mp h

theorem mem_of_get_some {m : KV D} {k : Str} {v : D} (h : get m k = some v) : k ∈ keys m :=
  (mem_keys_iff m k).mpr (by simp [h])

/-! ### `drop_not_completed(unique_id)` from any state whose not-completed side is consistent -/

structure DropPre (sfx : Str) (ids : List Str) (s : Dir D) : Prop where
  hsfx : s.sfx = sfx
  nd : (keys s.nc).Nodup
  from_ : ∀ n ∈ keys s.nc, ∃ j ∈ ids, n = ncN j
  cache : s.ncCache = [] ∨ (s.ncCache.Nodup ∧ ∀ n, n ∈ s.ncCache ↔ n ∈ keys s.nc)
  dir : s.ncDir = false → s.nc = []
  md : ∀ n ∈ keys s.nc, has s.md5 (dropMd5 n) = true

theorem populateNc_eq (s : Dir D) : populateNc s = { s with ncCache := (populateNc s).ncCache } := by
  unfold populateNc; split <;> rfl

@[simp] theorem populateNc_nc (s : Dir D) : (populateNc s).nc = s.nc := by unfold populateNc; split <;> rfl
@[simp] theorem populateNc_mode (s : Dir D) : (populateNc s).mode = s.mode := by unfold populateNc; split <;> rfl
@[simp] theorem populateNc_sfx (s : Dir D) : (populateNc s).sfx = s.sfx := by unfold populateNc; split <;> rfl
@[simp] theorem populateNc_root (s : Dir D) : (populateNc s).root = s.root := by unfold populateNc; split <;> rfl
@[simp] theorem populateNc_ncDir (s : Dir D) : (populateNc s).ncDir = s.ncDir := by unfold populateNc; split <;> rfl
@[simp] theorem populateNc_logsDir (s : Dir D) : (populateNc s).logsDir = s.logsDir := by unfold populateNc; split <;> rfl
@[simp] theorem populateNc_logs (s : Dir D) : (populateNc s).logs = s.logs := by unfold populateNc; split <;> rfl
@[simp] theorem populateNc_md5 (s : Dir D) : (populateNc s).md5 = s.md5 := by unfold populateNc; split <;> rfl
@[simp] theorem populateNc_cCache (s : Dir D) : (populateNc s).cCache = s.cCache := by unfold populateNc; split <;> rfl

theorem populateNc_pre (hy : hyg sfx ids = true) (p : DropPre sfx ids s) :
    (populateNc s).ncCache.Nodup ∧ (∀ n, n ∈ (populateNc s).ncCache ↔ n ∈ keys s.nc) := by
  have hg : globNc s = keys s.nc := by
    unfold globNc
    by_cases hd : s.ncDir = true
    · rw [if_pos hd]
      apply List.filter_eq_self.mpr
      intro n hn
      obtain ⟨j, hj, rfl⟩ := p.from_ n hn
      exact (hyg_id hy hj).ncglob
    · have : s.ncDir = false := by simpa using hd
      rw [if_neg hd, p.dir this]; rfl
  unfold populateNc
  by_cases he : s.ncCache.isEmpty = true
  · rw [if_pos he]; simp only [hg]; exact ⟨p.nd, fun _ => trivial⟩
  · rw [if_neg he]
    have hne : s.ncCache ≠ [] := by simpa using he
    rcases p.cache with h0 | h0
    · exact absurd h0 hne
    · exact h0

theorem dropKey_nil (sfx : Str) : dropKey sfx [] = [] := by
  simp [dropKey, replaceAll, replaceGo]

theorem ne_nil_of_hyg (hy : hyg sfx ids = true) {i : Str} (hi : i ∈ ids) : i ≠ [] := by
  intro e
  subst e
  have := (hyg_id hy hi).dkey
  rw [dropKey_nil] at this
  exact ncN_ne_nil [] this.symm

theorem dropNc_key (hy : hyg sfx ids = true) (p : DropPre sfx ids s) {i : Str} (hi : i ∈ ids)
    (hro : s.mode ≠ .r) :
    dropNc s i =
      (if ncN i ∈ keys s.nc then
          { s with nc := del s.nc (ncN i), md5 := del s.md5 (dropMd5 (ncN i)),
                   ncCache := (populateNc s).ncCache.erase (ncN i) }
        else { s with ncCache := (populateNc s).ncCache }, .done none) := by
  obtain ⟨hnd, hmem⟩ := populateNc_pre hy p
  have hid := hyg_id hy hi
  have hk : ncN i ≠ [] := ncN_ne_nil i
  have hke : (ncN i).isEmpty = false := by
    cases h : ncN i with
    | nil => exact absurd h hk
    | cons _ _ => rfl
  have hloop := dropLoop_key (ncN i) hk (populateNc s).ncCache (populateNc s) hnd
    (by
      intro m hm hne
      obtain ⟨j, hj, rfl⟩ := p.from_ m ((hmem m).mp hm)
      cases hb : dropMatch (ncN i) (ncN j) with
      | false => rfl
      | true => exact absurd (eq_of_dropMatch hb) hne)
    (by
      intro hin
      have hin' := (hmem _).mp hin
      rw [populateNc_eq s]
      exact ⟨has_true_of_mem hin', p.md _ hin'⟩)
  unfold dropNc
  rw [if_neg hro]
  have hdk : dropKey s.sfx i = ncN i := by rw [p.hsfx]; exact hid.dkey
  simp only [hdk]
  rw [hloop]
  simp only [dropFinish, hke, Bool.not_false, if_true]
  by_cases hin : ncN i ∈ keys s.nc
  · have hin2 : ncN i ∈ (populateNc s).ncCache := (hmem _).mpr hin
    rw [if_pos hin2, if_pos hin]
    simp
  · have hin2 : ¬ ncN i ∈ (populateNc s).ncCache := fun h => hin ((hmem _).mp h)
    rw [if_neg hin2, if_neg hin]
    congr 1
    exact populateNc_eq s

end
end CogentModel.DataStore
