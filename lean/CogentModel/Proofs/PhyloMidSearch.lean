import CogentModel.Proofs.PhyloMidpoint
import CogentModel.Proofs.PhyloSubtree
set_option linter.unusedSimpArgs false
set_option linter.unusedVariables false
/-! C09: the search half of midpoint rooting (`midPlan`): the plan it produces puts the new root
at distance d(p,q)/2 from both tips of the farthest pair. -/
namespace CogentModel.Phylo
open PTree

/-! ### the farthest pair -/
theorem foldl_max_mem (c : Rat × String × String) (rest : List (Rat × String × String)) :
    rest.foldl (fun best x => if best.1 < x.1 then x else best) c ∈ c :: rest := by
  induction rest generalizing c with
  | nil => simp
  | cons y ys ih =>
    simp only [List.foldl_cons]
    by_cases hlt : c.1 < y.1
    · simp only [hlt, if_true]
      have := ih y
      simp only [List.mem_cons] at this ⊢
      rcases this with h | h
      · exact Or.inr (Or.inl h)
      · exact Or.inr (Or.inr h)
    · simp only [hlt, if_false]
      have := ih c
      simp only [List.mem_cons] at this ⊢
      rcases this with h | h
      · exact Or.inl h
      · exact Or.inr (Or.inr h)

theorem argmaxPair_spec (t : RT) (hnd : (tips t).Nodup) (m : Rat) (a b : String)
    (h : argmaxPair (tips t) (getDistances 1 t) = (m, a, b)) (hm : m ≠ 0) :
    a ∈ tips t ∧ b ∈ tips t ∧ a ≠ b ∧ m = distSpec 1 a b t := by
  unfold argmaxPair at h
  simp only at h
  generalize hc : ((tips t).flatMap fun a => (tips t).map fun b =>
    ((if a = b then (0 : Rat) else (lookupLast (a, b) (getDistances 1 t)).getD 0), a, b)) = cells at h
  have hmem : (m, a, b) ∈ cells := by
    cases cells with
    | nil => simp at h; exact absurd h.1.symm hm
    | cons c rest => simp only at h; rw [← h]; exact foldl_max_mem c rest
  rw [← hc] at hmem
  simp only [List.mem_flatMap, List.mem_map] at hmem
  obtain ⟨a', ha', b', hb', heq⟩ := hmem
  simp only [Prod.mk.injEq] at heq
  obtain ⟨h1, rfl, rfl⟩ := heq
  by_cases hab : a' = b'
  · simp [hab] at h1; exact absurd h1.symm hm
  · simp only [hab, if_false] at h1
    rw [getDistances_lookup 1 t hnd a' b' ha' hb' hab] at h1
    exact ⟨ha', hb', hab, h1.symm⟩

/-! ### `findPath` finds a node with that name -/
mutual
theorem findPath_sound (nm : String) : ∀ (t : RT) (p : List Nat), findPath nm t = some p →
    ∃ u, nodeAt t p = some u ∧ u.name = nm
  | .node n l cs, p, h => by
    simp only [findPath] at h
    split at h
    · rename_i hn
      injection h with h; subst h
      exact ⟨_, rfl, hn⟩
    · obtain ⟨j, p', pre, x, post, rfl, hpk, u, hu, hname⟩ := findPathL_sound nm cs 0 p h
      refine ⟨u, ?_, hname⟩
      simp only [nodeAt]
      simp only [Nat.sub_zero] at hpk
      simp [hpk, hu]
theorem findPathL_sound (nm : String) : ∀ (cs : List RT) (i : Nat) (p : List Nat), findPathL nm cs i = some p →
    ∃ j p' pre x post, p = j :: p' ∧ pick cs (j - i) = some (pre, x, post) ∧
      ∃ u, nodeAt x p' = some u ∧ u.name = nm
  | [], i, p, h => by simp [findPathL] at h
  | c :: cs, i, p, h => by
    simp only [findPathL] at h
    cases hc : findPath nm c with
    | some q =>
      simp only [hc, Option.some.injEq] at h; subst h
      obtain ⟨u, hu, hn⟩ := findPath_sound nm c q hc
      exact ⟨i, q, [], c, cs, rfl, by simp [pick], u, hu, hn⟩
    | none =>
      simp only [hc] at h
      obtain ⟨j, p', pre, x, post, rfl, hpk, hrest⟩ := findPathL_sound nm cs (i + 1) p h
      -- j ≥ i + 1 because the recursive call started at i + 1
      have hj : i + 1 ≤ j := findPathL_ge nm cs (i + 1) j p' h
      refine ⟨j, p', c :: pre, x, post, rfl, ?_, hrest⟩
      have : j - i = (j - (i + 1)) + 1 := by omega
      rw [this]
      simp [pick, hpk]
theorem findPathL_ge (nm : String) : ∀ (cs : List RT) (i j : Nat) (p' : List Nat),
    findPathL nm cs i = some (j :: p') → i ≤ j
  | [], i, j, p', h => by simp [findPathL] at h
  | c :: cs, i, j, p', h => by
    simp only [findPathL] at h
    cases hc : findPath nm c with
    | some q => simp only [hc, Option.some.injEq, List.cons.injEq] at h; omega
    | none =>
      simp only [hc] at h
      have := findPathL_ge nm cs (i + 1) j p' h
      omega
end

/-! ### names of internal nodes -/
mutual
def internalNames {K : Type} : PTree K → List String
  | .node _ _ [] => []
  | .node n _ (c :: cs) => n :: internalNamesL (c :: cs)
def internalNamesL {K : Type} : List (PTree K) → List String
  | [] => []
  | c :: cs => internalNames c ++ internalNamesL cs
end

theorem internalNamesL_mem {K : Type} (pre post : List (PTree K)) (x : PTree K) (z : String)
    (h : z ∈ internalNames x) : z ∈ internalNamesL (pre ++ x :: post) := by
  induction pre with
  | nil => simp [internalNamesL, h]
  | cons c cs ih => simp [internalNamesL, ih]

theorem internal_name_mem {K : Type} : ∀ (p : List Nat) (t u : PTree K), nodeAt t p = some u →
    u.children ≠ [] → u.name ∈ internalNames t
  | [], t, u, h, hc => by
    simp [nodeAt] at h; subst h
    cases t with
    | node n l cs =>
      cases cs with
      | nil => simp at hc
      | cons c cs => simp [internalNames]
  | i :: p, .node n l cs, u, h, hc => by
    simp only [nodeAt] at h
    cases hp : pick cs i with
    | none => simp [hp] at h
    | some v =>
      obtain ⟨pre, x, post⟩ := v
      simp only [hp] at h
      have hcs := pick_eq cs i pre x post hp
      have := internal_name_mem p x u h hc
      subst hcs
      cases pre with
      | nil => simp [internalNames, internalNamesL, this]
      | cons c pre' =>
        simp only [List.cons_append, internalNames, List.mem_cons]
        right
        exact internalNamesL_mem (c :: pre') post x _ this

/-- two different positions of a list of subtrees with distinct tips have disjoint tips -/
theorem pick_disjoint {K : Type} : ∀ (cs : List (PTree K)) (i j : Nat) (pre post pre' post' : List (PTree K))
    (x x' : PTree K), pick cs i = some (pre, x, post) → pick cs j = some (pre', x', post') → i ≠ j →
    (tipsL cs).Nodup → ∀ z, z ∈ tips x → z ∉ tips x'
  | [], i, j, _, _, _, _, _, _, h, _, _, _, _, _ => by simp [pick] at h
  | c :: cs, 0, 0, _, _, _, _, _, _, _, _, hij, _, _, _ => absurd rfl hij
  | c :: cs, 0, j + 1, pre, post, pre', post', x, x', h1, h2, _, hnd, z, hz => by
    simp [pick] at h1
    obtain ⟨_, rfl, _⟩ := h1
    simp only [pick] at h2
    cases hq : pick cs j with
    | none => simp [hq] at h2
    | some v =>
      obtain ⟨a, y, b⟩ := v
      simp [hq] at h2
      obtain ⟨_, rfl, _⟩ := h2
      have hcs := pick_eq cs j a y b hq
      simp only [tipsL] at hnd
      have hd := (List.nodup_append.1 hnd).2.2
      intro hz'
      exact hd z hz z (by rw [hcs]; simp [tipsL_append, tipsL, hz']) rfl
  | c :: cs, i + 1, 0, pre, post, pre', post', x, x', h1, h2, _, hnd, z, hz => by
    simp [pick] at h2
    obtain ⟨_, rfl, _⟩ := h2
    simp only [pick] at h1
    cases hq : pick cs i with
    | none => simp [hq] at h1
    | some v =>
      obtain ⟨a, y, b⟩ := v
      simp [hq] at h1
      obtain ⟨_, rfl, _⟩ := h1
      have hcs := pick_eq cs i a y b hq
      simp only [tipsL] at hnd
      have hd := (List.nodup_append.1 hnd).2.2
      intro hz'
      exact hd z hz' z (by rw [hcs]; simp [tipsL_append, tipsL, hz]) rfl
  | c :: cs, i + 1, j + 1, pre, post, pre', post', x, x', h1, h2, hij, hnd, z, hz => by
    simp only [pick] at h1 h2
    cases hq1 : pick cs i with
    | none => simp [hq1] at h1
    | some v1 =>
      cases hq2 : pick cs j with
      | none => simp [hq2] at h2
      | some v2 =>
        obtain ⟨a1, y1, b1⟩ := v1
        obtain ⟨a2, y2, b2⟩ := v2
        simp [hq1] at h1
        simp [hq2] at h2
        obtain ⟨_, rfl, _⟩ := h1
        obtain ⟨_, rfl, _⟩ := h2
        simp only [tipsL] at hnd
        exact pick_disjoint cs i j a1 b1 a2 b2 _ _ hq1 hq2 (by omega) (List.nodup_append.1 hnd).2.1 z hz

/-! ### frames along the path to a tip -/
/-- `p` leads from `u` to the tip named `a` -/
def TipPath (u : RT) (p : List Nat) (a : String) : Prop :=
  ∃ tp, nodeAt u p = some tp ∧ tp.children = [] ∧ tp.name = a

theorem TipPath.mem {u : RT} {p : List Nat} {a : String} (h : TipPath u p a) : a ∈ tips u := by
  obtain ⟨tp, h1, h2, h3⟩ := h
  apply tips_nodeAt_subset p u tp h1
  cases tp with
  | node n l cs => simp only [children_node] at h2; subst h2; simp [tips, ← h3]

theorem TipPath.step {n : String} {l : Option Rat} {cs : List RT} {i : Nat} {p : List Nat} {a : String}
    (h : TipPath (PTree.node n l cs) (i :: p) a) :
    ∃ pre x post, pick cs i = some (pre, x, post) ∧ TipPath x p a := by
  obtain ⟨tp, h1, h2, h3⟩ := h
  simp only [nodeAt] at h1
  cases hp : pick cs i with
  | none => simp [hp] at h1
  | some v =>
    obtain ⟨pre, x, post⟩ := v
    simp only [hp] at h1
    exact ⟨pre, x, post, rfl, tp, h1, h2, h3⟩

def lenSum (fs : List PFrame) : Rat := sumBy (fun f => lenOr (1 : Rat) f.v.len) fs

theorem nodup_child (pre post : List RT) (x : RT) (h : (tipsL (pre ++ x :: post)).Nodup) : (tips x).Nodup := by
  simp only [tipsL_append, tipsL] at h
  exact (List.nodup_append.1 (List.nodup_append.1 h).2.1).1

theorem frames_spec : ∀ (p : List Nat) (u : RT) (acc : List Nat) (t0 : RT), nodeAt t0 acc = some u →
    ∀ f ∈ framesOn u p acc, nodeAt t0 f.pp = some f.par ∧ pick f.par.children f.idx = some (f.pre, f.v, f.post)
  | [], u, acc, t0, _, f, hf => by simp [framesOn] at hf
  | i :: p, .node n l cs, acc, t0, hacc, f, hf => by
    simp only [framesOn] at hf
    cases hp : pick cs i with
    | none => simp [hp] at hf
    | some v =>
      obtain ⟨pre, x, post⟩ := v
      simp only [hp, List.mem_cons] at hf
      rcases hf with rfl | hf
      · exact ⟨hacc, by simpa using hp⟩
      · apply frames_spec p x (acc ++ [i]) t0 _ f hf
        rw [nodeAt_append acc [i] t0 _ hacc]
        simp [nodeAt, hp]

theorem frames_tips_sub : ∀ (p : List Nat) (u : RT) (acc : List Nat), ∀ f ∈ framesOn u p acc,
    ∀ z ∈ tips f.v, z ∈ tips u
  | [], u, acc, f, hf => by simp [framesOn] at hf
  | i :: p, .node n l cs, acc, f, hf => by
    simp only [framesOn] at hf
    cases hp : pick cs i with
    | none => simp [hp] at hf
    | some v =>
      obtain ⟨pre, x, post⟩ := v
      simp only [hp, List.mem_cons] at hf
      have hcs := pick_eq cs i pre x post hp
      have hx : ∀ z ∈ tips x, z ∈ tips (PTree.node n l cs) := by
        intro z hz
        rw [tips_node_ne_nil _ _ _ (by rw [hcs]; simp), hcs]
        simp [tipsL_append, tipsL, hz]
      intro z hz
      rcases hf with rfl | hf
      · exact hx z hz
      · exact hx z (frames_tips_sub p x _ f hf z hz)

theorem frames_tip_mem (a : String) : ∀ (p : List Nat) (u : RT) (acc : List Nat), TipPath u p a →
    ∀ f ∈ framesOn u p acc, a ∈ tips f.v
  | [], u, acc, _, f, hf => by simp [framesOn] at hf
  | i :: p, .node n l cs, acc, h, f, hf => by
    obtain ⟨pre, x, post, hp, hx⟩ := h.step
    simp only [framesOn, hp, List.mem_cons] at hf
    rcases hf with rfl | hf
    · exact hx.mem
    · exact frames_tip_mem a p x _ hx f hf

/-- depth of a tip below child `c` of a node -/
theorem depth_at_node (pre post : List RT) (c : RT) (hnd : (tipsL (pre ++ c :: post)).Nodup)
    (a : String) (ha : a ∈ tips c) :
    sumBy (memF (1 : Rat) a) (splitsL (pre ++ c :: post)) = lenOr 1 c.len + sumBy (memF 1 a) (splits c) := by
  have hperm : (pre ++ c :: post).Perm (c :: (pre ++ post)) := List.perm_middle
  have hnd' : (tipsL (c :: (pre ++ post))).Nodup := ((tipsL_perm hperm).nodup_iff).1 hnd
  simp only [tipsL] at hnd'
  obtain ⟨_, _, hdisj⟩ := List.nodup_append.1 hnd'
  have hpr : a ∉ tipsL (pre ++ post) := fun h => hdisj a ha a h rfl
  have zr : ∀ s ∈ splitsL (pre ++ post), a ∉ s.side := fun s hs h => hpr (sidesL_subset _ s hs a h)
  rw [sumBy_perm _ (splitsL_perm hperm)]
  have hsplit : splitsL (c :: (pre ++ post)) = (edgeSplit c :: splits c) ++ splitsL (pre ++ post) := by
    simp [splitsL]
  rw [hsplit, sumBy_append, memF_sum_zero 1 a _ zr]
  simp [sumBy, memF, edgeSplit, ha]

/-- two tips below the same child: the distance is the distance inside the child -/
theorem dist_same_child (pre post : List RT) (c : RT) (hnd : (tipsL (pre ++ c :: post)).Nodup)
    (a b : String) (ha : a ∈ tips c) (hb : b ∈ tips c) :
    sumBy (splitW (1 : Rat) a b) (splitsL (pre ++ c :: post)) = sumBy (splitW 1 a b) (splits c) := by
  have hperm : (pre ++ c :: post).Perm (c :: (pre ++ post)) := List.perm_middle
  have hnd' : (tipsL (c :: (pre ++ post))).Nodup := ((tipsL_perm hperm).nodup_iff).1 hnd
  simp only [tipsL] at hnd'
  obtain ⟨_, _, hdisj⟩ := List.nodup_append.1 hnd'
  have za : ∀ s ∈ splitsL (pre ++ post), a ∉ s.side :=
    fun s hs h => hdisj a ha a (sidesL_subset _ s hs a h) rfl
  have zb : ∀ s ∈ splitsL (pre ++ post), b ∉ s.side :=
    fun s hs h => hdisj b hb b (sidesL_subset _ s hs b h) rfl
  rw [sumBy_perm _ (splitsL_perm hperm)]
  have hsplit : splitsL (c :: (pre ++ post)) = (edgeSplit c :: splits c) ++ splitsL (pre ++ post) := by
    simp [splitsL]
  rw [hsplit, sumBy_append, splitW_sum_zero 1 a b _ za zb]
  simp [sumBy, splitW, edgeSplit, sep, ha, hb]

theorem depth_frames (a : String) : ∀ (p : List Nat) (u : RT) (acc : List Nat), TipPath u p a →
    (tips u).Nodup → depthR a u = lenSum (framesOn u p acc)
  | [], u, acc, h, _ => by
    obtain ⟨tp, h1, h2, _⟩ := h
    simp [nodeAt] at h1; subst h1
    cases u with
    | node n l cs =>
      simp only [children_node] at h2; subst h2
      simp [depthR, depthSpec, splits, splitsL, sumBy, framesOn, lenSum]
  | i :: p, .node n l cs, acc, h, hnd => by
    obtain ⟨pre, x, post, hp, hx⟩ := h.step
    have hcs := pick_eq cs i pre x post hp
    subst hcs
    rw [tips_node_ne_nil _ _ _ (by simp)] at hnd
    have ih := depth_frames a p x (acc ++ [i]) hx (nodup_child pre post x hnd)
    simp only [framesOn, hp, lenSum, sumBy]
    simp only [depthR, depthSpec, splits] at ih ⊢
    rw [depth_at_node pre post x hnd a hx.mem, ih]
    rfl

/-- below every frame: the depth of the tip is the total length of the deeper frames -/
theorem depth_suffix (a : String) : ∀ (p : List Nat) (u : RT) (acc : List Nat), TipPath u p a →
    (tips u).Nodup → ∀ (A : List PFrame) (f : PFrame) (B : List PFrame),
      framesOn u p acc = A ++ f :: B → depthR a f.v = lenSum B
  | [], u, acc, _, _, A, f, B, h => by simp [framesOn] at h
  | i :: p, .node n l cs, acc, h, hnd, A, f, B, hfs => by
    obtain ⟨pre, x, post, hp, hx⟩ := h.step
    have hcs := pick_eq cs i pre x post hp
    subst hcs
    rw [tips_node_ne_nil _ _ _ (by simp)] at hnd
    have hndx := nodup_child pre post x hnd
    simp only [framesOn, hp] at hfs
    cases A with
    | nil =>
      simp only [List.nil_append, List.cons.injEq] at hfs
      obtain ⟨rfl, rfl⟩ := hfs
      exact depth_frames a p x _ hx hndx
    | cons g A' =>
      simp only [List.cons_append, List.cons.injEq] at hfs
      exact depth_suffix a p x _ hx hndx A' f B hfs.2

theorem frames_good : ∀ (p : List Nat) (u : RT) (acc : List Nat),
    GoodLensL (fun x : Rat => 0 < x) u.children →
    ∀ f ∈ framesOn u p acc, ∃ x, f.v.len = some x ∧ 0 < x
  | [], u, acc, _, f, hf => by simp [framesOn] at hf
  | i :: p, .node n l cs, acc, hg, f, hf => by
    simp only [framesOn] at hf
    cases hp : pick cs i with
    | none => simp [hp] at hf
    | some v =>
      obtain ⟨pre, x, post⟩ := v
      simp only [hp, List.mem_cons] at hf
      have hcs := pick_eq cs i pre x post hp
      simp only [children_node] at hg
      have hgx : GoodLens (fun x : Rat => 0 < x) x := goodLensL_mem _ cs hg x (by rw [hcs]; simp)
      rcases hf with rfl | hf
      · exact goodLens_len _ x hgx
      · exact frames_good p x _ (goodLens_children _ x hgx) f hf

/-! ### the last common ancestor: where the two paths part -/
theorem lca_split (a b : String) (hab : a ≠ b) : ∀ (p1 p2 : List Nat) (u : RT) (acc1 acc2 : List Nat),
    TipPath u p1 a → TipPath u p2 b → (tips u).Nodup →
    distSpec 1 a b u = lenSum ((framesOn u p1 acc1).drop (commonPrefixLen p1 p2)) +
        lenSum ((framesOn u p2 acc2).drop (commonPrefixLen p1 p2)) ∧
      (∀ f ∈ (framesOn u p1 acc1).drop (commonPrefixLen p1 p2), b ∉ tips f.v) ∧
      (∀ f ∈ (framesOn u p2 acc2).drop (commonPrefixLen p1 p2), a ∉ tips f.v)
  | [], p2, u, _, _, h1, h2, _ => by
    -- u itself is the tip a, so b = a
    exfalso
    obtain ⟨tp, hn, hc, hname⟩ := h1
    simp [nodeAt] at hn; subst hn
    have := h2.mem
    cases u with
    | node n l cs =>
      simp only [children_node] at hc; subst hc
      simp only [name_node] at hname
      simp [tips] at this
      exact hab (hname ▸ this.symm)
  | i :: p1, [], u, _, _, h1, h2, _ => by
    exfalso
    obtain ⟨tp, hn, hc, hname⟩ := h2
    simp [nodeAt] at hn; subst hn
    have := h1.mem
    cases u with
    | node n l cs =>
      simp only [children_node] at hc; subst hc
      simp only [name_node] at hname
      simp [tips] at this
      exact hab (hname ▸ this)
  | i :: p1, j :: p2, .node n l cs, acc1, acc2, h1, h2, hnd => by
    obtain ⟨pre, x, post, hp, hx⟩ := h1.step
    obtain ⟨pre', x', post', hp', hx'⟩ := h2.step
    have hcs := pick_eq cs i pre x post hp
    rw [tips_node_ne_nil _ _ _ (by rw [hcs]; simp)] at hnd
    by_cases hij : i = j
    · subst hij
      rw [hp] at hp'
      simp only [Option.some.injEq, Prod.mk.injEq] at hp'
      obtain ⟨rfl, rfl, rfl⟩ := hp'
      have hndc : (tipsL (pre ++ x :: post)).Nodup := hcs ▸ hnd
      have ih := lca_split a b hab p1 p2 x (acc1 ++ [i]) (acc2 ++ [i]) hx hx' (nodup_child pre post x hndc)
      simp only [commonPrefixLen, if_true, framesOn, hp, List.drop_succ_cons]
      refine ⟨?_, ih.2.1, ih.2.2⟩
      rw [← ih.1]
      simp only [distSpec, splits]
      rw [hcs]
      exact dist_same_child pre post x hndc a b hx.mem hx'.mem
    · have hbx : b ∉ tips x := fun hb => pick_disjoint cs j i _ _ _ _ _ _ hp' hp (Ne.symm hij) hnd b hx'.mem hb
      have hax' : a ∉ tips x' := fun ha => pick_disjoint cs i j _ _ _ _ _ _ hp hp' hij hnd a hx.mem ha
      have hndc : (tipsL (pre ++ x :: post)).Nodup := hcs ▸ hnd
      have hcs' := pick_eq cs j pre' x' post' hp'
      have hndc' : (tipsL (pre' ++ x' :: post')).Nodup := hcs' ▸ hnd
      simp only [commonPrefixLen, hij, if_false, List.drop_zero]
      refine ⟨?_, ?_, ?_⟩
      · have hb_in : b ∈ tipsL (pre ++ x :: post) := by
          rw [← hcs, hcs']; simp [tipsL_append, tipsL, hx'.mem]
        obtain ⟨_, e2⟩ := depth_dist_at_node (1 : Rat) pre post x hndc a b hx.mem hb_in hbx
        have da := depth_frames a (i :: p1) (PTree.node n l cs) acc1 h1
          (by rw [tips_node_ne_nil _ _ _ (by rw [hcs]; simp)]; exact hnd)
        have db := depth_frames b (j :: p2) (PTree.node n l cs) acc2 h2
          (by rw [tips_node_ne_nil _ _ _ (by rw [hcs]; simp)]; exact hnd)
        simp only [depthR, depthSpec, splits] at da db
        simp only [distSpec, splits]
        rw [← da, ← db, hcs]
        exact e2
      · intro f hf hb
        simp only [framesOn, hp, List.mem_cons] at hf
        rcases hf with rfl | hf
        · exact hbx hb
        · exact hbx (frames_tips_sub p1 x _ f hf b hb)
      · intro f hf ha
        simp only [framesOn, hp', List.mem_cons] at hf
        rcases hf with rfl | hf
        · exact hax' ha
        · exact hax' (frames_tips_sub p2 x' _ f hf a ha)

/-! ### the climb -/
theorem climbF_spec (half : Rat) : ∀ (L : List PFrame) (c0 : Rat) (f : PFrame) (c x : Rat),
    climbF half L c0 = .ok (f, c, x) →
    ∃ L1 L2, L = L1 ++ f :: L2 ∧ c = c0 + lenSum L1 ∧ f.v.len = some x ∧ ¬ (c + x < half) ∧ (c0 < half → c < half)
  | [], c0, f, c, x, h => by simp [climbF] at h
  | g :: rest, c0, f, c, x, h => by
    simp only [climbF] at h
    cases hl : g.v.len with
    | none => simp [hl] at h
    | some y =>
      simp only [hl] at h
      by_cases hlt : c0 + y < half
      · simp only [hlt, if_true] at h
        obtain ⟨L1, L2, hL, hc, hx, hstop, hinv⟩ := climbF_spec half rest (c0 + y) f c x h
        refine ⟨g :: L1, L2, by simp [hL], ?_, hx, hstop, fun _ => hinv hlt⟩
        simp only [lenSum, sumBy, hl, lenOr] at hc ⊢
        rw [hc]; ring
      · simp only [hlt, if_false, Except.ok.injEq, Prod.mk.injEq] at h
        obtain ⟨rfl, rfl, rfl⟩ := h
        exact ⟨[], rest, rfl, by simp [lenSum, sumBy], hl, hlt, fun h => h⟩

theorem lenSum_append (A B : List PFrame) : lenSum (A ++ B) = lenSum A + lenSum B := by
  simp [lenSum, sumBy_append]

theorem lenSum_reverse (A : List PFrame) : lenSum A.reverse = lenSum A :=
  sumBy_perm _ (List.reverse_perm A)

theorem lenSum_nonneg (A : List PFrame) (h : ∀ f ∈ A, ∃ x, f.v.len = some x ∧ 0 < x) : 0 ≤ lenSum A := by
  induction A with
  | nil => simp [lenSum, sumBy]
  | cons g A ih =>
    obtain ⟨x, hx, hpos⟩ := h g (by simp)
    have := ih fun f hf => h f (by simp [hf])
    simp only [lenSum, sumBy, hx, lenOr] at this ⊢
    linarith

/-- the climb stops strictly below the point where the paths part, if the distance from the tip up
to that point is at least `half` -/
theorem climb_below (half : Rat) (hh : 0 < half) (fs : List PFrame) (k : Nat)
    (hpos : ∀ f ∈ fs, ∃ x, f.v.len = some x ∧ 0 < x) (hk : half ≤ lenSum (fs.drop k))
    (f : PFrame) (c x : Rat) (h : climbF half fs.reverse 0 = .ok (f, c, x)) :
    ∃ A B, fs = A ++ f :: B ∧ c = lenSum B ∧ f.v.len = some x ∧ ¬ (c + x < half) ∧ c < half ∧ f ∈ fs.drop k := by
  obtain ⟨L1, L2, hL, hc, hx, hstop, hinv⟩ := climbF_spec half fs.reverse 0 f c x h
  have hfs : fs = L2.reverse ++ f :: L1.reverse := by
    have := congrArg List.reverse hL
    simpa using this
  have hc' : c = lenSum L1.reverse := by rw [lenSum_reverse, hc]; ring
  refine ⟨L2.reverse, L1.reverse, hfs, hc', hx, hstop, hinv hh, ?_⟩
  -- if f were above position k, everything below position k would be below f
  by_contra hnot
  have hlt : L2.reverse.length < k := by
    by_contra hge
    apply hnot
    rw [hfs, List.drop_append_of_le_length (by omega)]
    have : k ≤ L2.reverse.length := by omega
    exact List.mem_append_right _ (by simp)
  obtain ⟨m, hm⟩ : ∃ m, k - L2.reverse.length = m + 1 := ⟨k - L2.reverse.length - 1, by omega⟩
  have hdrop : fs.drop k = L1.reverse.drop m := by
    rw [hfs, List.drop_append]
    have h1 : List.drop k L2.reverse = [] := List.drop_eq_nil_of_le (by omega)
    rw [h1, List.nil_append, hm, List.drop_succ_cons]
  have hsuf : lenSum (fs.drop k) ≤ lenSum L1.reverse := by
    rw [hdrop]
    have hsplit := List.take_append_drop m L1.reverse
    have : lenSum L1.reverse = lenSum (L1.reverse.take m) + lenSum (L1.reverse.drop m) := by
      rw [← lenSum_append, hsplit]
    have hnn := lenSum_nonneg (L1.reverse.take m) (by
      intro g hg
      apply hpos g
      rw [hfs]
      exact List.mem_append_right _ (List.mem_cons_of_mem _ (List.mem_of_mem_take hg)))
    linarith
  have := hinv hh
  linarith

/-! ### assembling -/
theorem lensOnPath_frames : ∀ (p : List Nat) (u : RT) (acc : List Nat),
    lensOnPath u p = (framesOn u p acc).map fun f => f.v.len
  | [], u, acc => by simp [lensOnPath, framesOn]
  | i :: p, .node n l cs, acc => by
    simp only [lensOnPath, framesOn]
    cases hp : pick cs i with
    | none => simp
    | some v =>
      obtain ⟨pre, x, post⟩ := v
      simp [lensOnPath_frames p x (acc ++ [i])]

theorem foldl_truthy (L : List PFrame) (hpos : ∀ f ∈ L, ∃ x, f.v.len = some x ∧ 0 < x) (c : Rat) :
    (L.map fun f => f.v.len).foldl (fun s l => s + truthyLen l) c = c + lenSum L := by
  induction L generalizing c with
  | nil => simp [lenSum, sumBy]
  | cons g L ih =>
    obtain ⟨x, hx, _⟩ := hpos g (by simp)
    simp only [List.map_cons, List.foldl_cons]
    rw [ih (fun f hf => hpos f (by simp [hf]))]
    simp only [lenSum, sumBy, hx, truthyLen, lenOr]
    ring

theorem distSpec_comm (a b : String) (t : RT) : distSpec 1 a b t = distSpec 1 b a t :=
  splitW_swap 1 a b (splits t)

theorem tipPath_of_findPath (t : RT) (a : String) (p : List Nat) (ha : a ∈ tips t)
    (hint : ∀ n ∈ tips t, n ∉ internalNames t) (h : findPath a t = some p) : TipPath t p a := by
  obtain ⟨u, hu, hn⟩ := findPath_sound a t p h
  refine ⟨u, hu, ?_, hn⟩
  by_contra hc
  have := internal_name_mem p t u hu hc
  rw [hn] at this
  exact hint a ha this

/-- the core: the plan found for the pair (p, q), climbing from `p` -/
theorem plan_equidistant (t r : RT) (hdeg : 2 ≤ t.children.length) (hnd : (tips t).Nodup)
    (hg : GoodLensL (fun x : Rat => 0 < x) t.children)
    (p q : String) (pth : List Nat) (k : Nat) (half : Rat) (hh : 0 < half)
    (hp : TipPath t pth p) (hq : q ∈ tips t)
    (hdist : distSpec 1 p q t = 2 * half)
    (hk : half ≤ lenSum ((framesOn t pth []).drop k))
    (hother : ∀ f ∈ (framesOn t pth []).drop k, q ∉ tips f.v)
    (f : PFrame) (c x : Rat) (hcl : climbF half (framesOn t pth []).reverse 0 = .ok (f, c, x))
    (hex : execPlan t (if c + x = half then MidPlan.at f.pp else MidPlan.split f.pp f.idx (half - c)) = .ok r) :
    depthR p r = half ∧ depthR q r = half := by
  have hpos := frames_good pth t [] hg
  obtain ⟨A, B, hfs, hc, hx, hstop, hlt, hmem⟩ := climb_below half hh _ k hpos hk f c x hcl
  have hfm : f ∈ framesOn t pth [] := by rw [hfs]; simp
  obtain ⟨hpar, hpick⟩ := frames_spec pth t [] t rfl f hfm
  have hpv : p ∈ tips f.v := frames_tip_mem p pth t [] hp f hfm
  have hqv : q ∉ tips f.v := hother f hmem
  have hdep : depthR p f.v = c := by rw [hc]; exact depth_suffix p pth t [] hp hnd A f B hfs
  have hhalf : distSpec 1 p q t / 2 = half := by rw [hdist]; ring
  by_cases heq : c + x = half
  · simp only [heq, if_true] at hex
    have := equidistant_at t r f.par f.pp f.idx f.pre f.post f.v hdeg hnd hex hpar hpick p q hpv hq hqv
      (by rw [hx, hdep, hhalf]; simp only [lenOr]; linarith)
    rw [hhalf] at this; exact this
  · simp only [heq, if_false] at hex
    have := equidistant_split t r f.par f.pp f.idx (half - c) f.pre f.post f.v hdeg hnd hex hpar hpick p q hpv hq hqv
      (by rw [hdep, hhalf]; ring)
    rw [hhalf] at this; exact this

/-- `root_at_midpoint`: the two tips of the farthest pair end up at the same distance — half their
path length — from the new root. -/
theorem rootAtMidpoint_equidistant (t r : RT) (h : rootAtMidpoint t = .ok r)
    (hdeg : 2 ≤ t.children.length) (hnd : (tips t).Nodup)
    (hint : ∀ n ∈ tips t, n ∉ internalNames t)
    (hg : GoodLensL (fun x : Rat => 0 < x) t.children)
    (m : Rat) (a b : String) (harg : argmaxPair (tips t) (getDistances 1 t) = (m, a, b)) (hm : m ≠ 0) :
    m = distSpec 1 a b t ∧ depthR a r = m / 2 ∧ depthR b r = m / 2 := by
  obtain ⟨ha, hb, hab, hmd⟩ := argmaxPair_spec t hnd m a b harg hm
  unfold rootAtMidpoint at h
  cases hpl : midPlan t with
  | error e => simp [hpl] at h
  | ok plan =>
    simp only [hpl] at h
    unfold midPlan at hpl
    simp only [harg, hm, if_false] at hpl
    cases h1 : findPath a t with
    | none => simp [h1] at hpl
    | some p1 =>
      cases h2 : findPath b t with
      | none => simp [h1, h2] at hpl
      | some p2 =>
        simp only [h1, h2] at hpl
        have tp1 := tipPath_of_findPath t a p1 ha hint h1
        have tp2 := tipPath_of_findPath t b p2 hb hint h2
        obtain ⟨hsplit, hnb, hna⟩ := lca_split a b hab p1 p2 t [] [] tp1 tp2 hnd
        have hpos1 := frames_good p1 t [] hg
        have hpos2 := frames_good p2 t [] hg
        set k := commonPrefixLen p1 p2 with hkdef
        have hS1 : 0 ≤ lenSum ((framesOn t p1 []).drop k) :=
          lenSum_nonneg _ fun f hf => hpos1 f (List.mem_of_mem_drop hf)
        have hS2 : 0 ≤ lenSum ((framesOn t p2 []).drop k) :=
          lenSum_nonneg _ fun f hf => hpos2 f (List.mem_of_mem_drop hf)
        have hmpos : 0 < m := by
          rcases lt_or_gt_of_ne hm with hneg | hpos
          · rw [hmd, hsplit] at hneg; linarith
          · exact hpos
        have hd1 : ((lensOnPath t p1).drop k).foldl (fun s l => s + truthyLen l) 0 =
            lenSum ((framesOn t p1 []).drop k) := by
          rw [lensOnPath_frames p1 t [], ← List.map_drop,
            foldl_truthy _ (fun f hf => hpos1 f (List.mem_of_mem_drop hf))]
          ring
        rw [hd1] at hpl
        by_cases hlt : m / 2 < lenSum ((framesOn t p1 []).drop k)
        · -- climb from a
          simp only [hlt, if_true] at hpl
          cases hcl : climbF (m / 2) (framesOn t p1 []).reverse 0 with
          | error e => simp [hcl] at hpl
          | ok res =>
            obtain ⟨f, c, x⟩ := res
            simp only [hcl] at hpl
            have hplan : plan = (if c + x = m / 2 then MidPlan.at f.pp else MidPlan.split f.pp f.idx (m / 2 - c)) := by
              split at hpl <;> rename_i hq <;> simp [hq] <;> injection hpl with hpl <;> exact hpl.symm
            rw [hplan] at h
            have := plan_equidistant t r hdeg hnd hg a b p1 k (m / 2) (by linarith) tp1 hb
              (by rw [← hmd]; ring) (le_of_lt hlt) hnb f c x hcl h
            exact ⟨hmd, this.1, this.2⟩
        · -- climb from b
          simp only [hlt, if_false] at hpl
          cases hcl : climbF (m / 2) (framesOn t p2 []).reverse 0 with
          | error e => simp [hcl] at hpl
          | ok res =>
            obtain ⟨f, c, x⟩ := res
            simp only [hcl] at hpl
            have hplan : plan = (if c + x = m / 2 then MidPlan.at f.pp else MidPlan.split f.pp f.idx (m / 2 - c)) := by
              split at hpl <;> rename_i hq <;> simp [hq] <;> injection hpl with hpl <;> exact hpl.symm
            rw [hplan] at h
            have hk2 : m / 2 ≤ lenSum ((framesOn t p2 []).drop k) := by
              rw [hmd, hsplit] at *
              linarith
            have := plan_equidistant t r hdeg hnd hg b a p2 k (m / 2) (by linarith) tp2 ha
              (by rw [← distSpec_comm, ← hmd]; ring) hk2 hna f c x hcl h
            exact ⟨hmd, this.2, this.1⟩

end CogentModel.Phylo
