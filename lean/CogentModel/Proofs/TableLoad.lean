import CogentModel.Gen.C20Load
/-
  C20 — `parse/table.py::load_delimited`: the definition generated from the source text (`Gen/C20Load.lean`) equals the
  hand model `TableLoad.loadRowsH` for ALL record lists and ALL arguments; consequences used by `Props/C20.lean`.
-/
namespace CogentModel.TableLoad
open CogentModel.Csv CogentModel.Gen.C20Load

/-- the reading loop: a fold whose step appends, counts, and raises the `break` flag -/
theorem loop_broke {f : List Row × Int × Bool → Row → List Row × Int × Bool}
    (hb : ∀ rows n row, f (rows, n, true) row = (rows, n, true)) (recs : List Row) (acc : List Row) (n : Int) :
    List.foldl f (acc, n, true) recs = (acc, n, true) := by
  induction recs with
  | nil => rfl
  | cons r rest ih => simp [List.foldl, hb, ih]

theorem loop_rows (limit : Option Int) {f : List Row × Int × Bool → Row → List Row × Int × Bool}
    (hb : ∀ rows n row, f (rows, n, true) row = (rows, n, true))
    (hf : ∀ rows n row, f (rows, n, false) row = (rows ++ [row], n + 1, limit.isSome && geOpt (n + 1) limit))
    (recs : List Row) (acc : List Row) (n : Int) :
    (List.foldl f (acc, n, false) recs).1
      = acc ++ takeOpt recs (limit.map fun l => (max 1 (l - n)).toNat) := by
  induction recs generalizing acc n with
  | nil => cases limit <;> simp [takeOpt]
  | cons r rest ih =>
    rw [List.foldl, hf]
    cases limit with
    | none => simpa [takeOpt, geOpt] using ih (acc ++ [r]) (n + 1)
    | some l =>
      by_cases h : n + 1 ≥ l
      · simp only [Option.isSome_some, geOpt, h, decide_true, Bool.and_self, loop_broke hb, takeOpt, Option.map_some]
        have : (max 1 (l - n)).toNat = 1 := by omega
        simp [this]
      · have e := ih (acc ++ [r]) (n + 1)
        simp only [Option.isSome_some, geOpt, h, decide_false, Bool.and_false] at e ⊢
        rw [e]
        simp only [takeOpt, Option.map_some]
        have : (max 1 (l - n)).toNat = (max 1 (l - (n + 1))).toNat + 1 := by omega
        rw [this]; simp


theorem popLast_eq (l : List Row) :
    popLast l = if l.isEmpty then .error "IndexError" else .ok (l.getLastD [], l.dropLast) := by
  cases l with
  | nil => rfl
  | cons a t => simp [popLast, List.getLastD_eq_getLast?, List.getLast?_eq_some_getLast]

theorem loop1 (limit : Option Int) (recs : List Row) :
    ∃ n b, List.foldl (loadDelimitedStep1 limit) ([], 0, false) recs
      = (takeOpt recs (limit.map fun l => (max 1 l).toNat), n, b) := by
  have h := loop_rows limit (f := loadDelimitedStep1 limit)
    (by intros; simp [loadDelimitedStep1])
    (by intro rows n row; cases limit <;> simp [loadDelimitedStep1, geOpt]; split <;> simp [*]) recs [] 0
  refine ⟨_, _, Prod.ext ?_ (Prod.ext rfl rfl)⟩
  simpa using h

theorem loop_fst (limit : Option Int) (recs : List Row) :
    (List.foldl (loadDelimitedStep1 limit) ([], 0, false) recs).fst
      = takeOpt recs (limit.map fun l => (max 1 l).toNat) := by
  obtain ⟨n, b, h⟩ := loop1 limit recs
  rw [h]

theorem gen_loadDelimitedRows_eq (recs : List Row) (header withTitle withLegend : Bool) (limit : Option Int) :
    loadDelimitedRows recs header withTitle withLegend limit = loadRowsH recs header withTitle withLegend limit := by
  unfold loadDelimitedRows loadRowsH
  cases withTitle <;> cases header <;> cases limit <;>
    simp only [optAdd, pyNext, keepCount, bind, Except.bind, pure, Except.pure, loop_fst, Option.map, Option.isSome,
      Bool.and_true, Bool.and_false, Bool.false_and, Bool.true_and, if_true, if_false, Bool.false_eq_true, popLast_eq]
  all_goals (try (cases recs <;> simp only [List.isEmpty_nil, List.isEmpty_cons, if_true, if_false, Bool.false_eq_true, List.tail_cons, List.headD_cons]))
  all_goals try rfl
  all_goals cases withLegend <;> simp only [if_true, if_false, Bool.false_eq_true, Bool.true_and, Bool.false_and]
  all_goals (cases hK : takeOpt _ _ <;> simp [popFirst, joinEmpty])
  all_goals (rename_i tl; cases tl <;> simp)

theorem csv_dropLast_eq {α} : ∀ l : List α, Csv.dropLast l = l.dropLast
  | [] => rfl
  | [_] => rfl
  | a :: b :: l => by simp [Csv.dropLast, csv_dropLast_eq (b :: l)]

/-- the older hand model `Csv.loadDelimited` (header=True, no limit) is the csv reader followed by `loadRowsH` -/
theorem loadDelimited_eq_loadRowsH (delim : Char) (wt wl : Bool) (text : Str) :
    (loadDelimited delim wt wl text).map (fun r => ((some r.1 : Option Row), r.2))
      = (csvRead delim text).bind fun recs => loadRowsH recs true wt wl none := by
  unfold loadDelimited
  cases csvRead delim text with
  | error e => rfl
  | ok recs =>
    cases wt <;> cases wl <;> rcases recs with _ | ⟨a, _ | ⟨b, rest⟩⟩ <;>
      simp [loadRowsH, keepCount, takeOpt, Except.map, Except.bind]
    · rw [List.getLast?_eq_some_getLast (by simp)]; simp [csv_dropLast_eq]
    · cases rest with
      | nil => simp
      | cons c r => rw [List.getLast?_eq_some_getLast (by simp)]; simp [csv_dropLast_eq]

end CogentModel.TableLoad
