/-
  C18 helper lemmas for Hirschberg, part 2: scores and paths of the derived HMMs (`pinEnd`, `startFrom`), and the
  reversal lemma for `revHMM` (a tail score is a prefix score of the reversed path in the reversed problem).
-/
import CogentModel.Proofs.HirschScore
namespace CogentModel.PairHMM
set_option linter.unusedSectionVars false
set_option linter.unusedVariables false

variable {S : Type} [Add S] [LT S] [DecidableLT S]

/-! ### paths only depend on the directions -/

theorem consumedFrom_congr (h1 h2 : HMM S) (hd : ∀ s, h1.dir s = h2.dir s) (q : List Nat) :
    ∀ i j, consumedFrom h1 i j q = consumedFrom h2 i j q := by
  induction q with
  | nil => intros; rfl
  | cons s q ih => intro i j; simp only [consumedFrom, hd, ih]

theorem consumedFrom_shift (h : HMM S) (a b : Nat) (q : List Nat) :
    ∀ i j, consumedFrom h (i + a) (j + b) q = ((consumedFrom h i j q).1 + a, (consumedFrom h i j q).2 + b) := by
  induction q with
  | nil => intros; rfl
  | cons s q ih =>
    intro i j
    simp only [consumedFrom]
    rw [show i + a + (h.dir s).1.toNat = i + (h.dir s).1.toNat + a by omega,
      show j + b + (h.dir s).2.toNat = j + (h.dir s).2.toNat + b by omega]
    exact ih _ _

theorem consumedFrom_from (h : HMM S) (i j : Nat) (q : List Nat) :
    consumedFrom h i j q = (i + (consumedFrom h 0 0 q).1, j + (consumedFrom h 0 0 q).2) := by
  have := consumedFrom_shift h i j q 0 0
  simp only [Nat.zero_add] at this
  rw [this, Nat.add_comm, Nat.add_comm (consumedFrom h 0 0 q).2]

theorem consumedFrom_append_list (h : HMM S) (p q : List Nat) : ∀ i j,
    consumedFrom h i j (p ++ q) = consumedFrom h (consumedFrom h i j p).1 (consumedFrom h i j p).2 q := by
  induction p with
  | nil => intros; rfl
  | cons s p ih => intro i j; simp only [List.cons_append, consumedFrom, ih]

theorem consumedFrom_reverse (h : HMM S) (q : List Nat) : ∀ i j,
    consumedFrom h i j q.reverse = consumedFrom h i j q := by
  induction q with
  | nil => intros; rfl
  | cons s q ih =>
    intro i j
    rw [List.reverse_cons, consumedFrom_append, ih]
    simp only [consumedFrom]
    rw [consumedFrom_shift]

theorem annotate_append_list (h : HMM S) (p q : List Nat) : ∀ i j,
    annotate h i j (p ++ q) = annotate h i j p ++ annotate h (consumedFrom h i j p).1 (consumedFrom h i j p).2 q := by
  induction p with
  | nil => intros; rfl
  | cons s p ih => intro i j; simp only [List.cons_append, annotate, consumedFrom, ih]

theorem annotate_congr (h1 h2 : HMM S) (hd : ∀ s, h1.dir s = h2.dir s) (q : List Nat) :
    ∀ i j, annotate h1 i j q = annotate h2 i j q := by
  induction q with
  | nil => intros; rfl
  | cons s q ih => intro i j; simp only [annotate, hd, ih]

theorem annotate_shift (h : HMM S) (i0 j0 : Nat) (q : List Nat) : ∀ i j,
    shiftSteps i0 j0 (annotate h i j q) = annotate h (i0 + i) (j0 + j) q := by
  induction q with
  | nil => intros; rfl
  | cons s q ih =>
    intro i j
    simp only [annotate, shiftSteps, List.map_cons]
    have := ih (i + (h.dir s).1.toNat) (j + (h.dir s).2.toNat)
    simp only [shiftSteps] at this
    rw [this]
    simp [Nat.add_assoc]

theorem statesOK_append_list (h : HMM S) (p q : List Nat) (h1 : statesOK h p) (h2 : statesOK h q) :
    statesOK h (p ++ q) := by
  intro x hx
  rcases List.mem_append.mp hx with hx | hx
  · exact h1 x hx
  · exact h2 x hx

/-! ### `pinEnd` -/

theorem scoreFrom_pinEnd (h : HMM S) (z : S) (a : Nat) (q : List Nat) : ∀ (prev i j : Nat) (acc : Option S),
    (∀ s ∈ q, s ≤ h.k) → scoreFrom (pinEnd h z a) prev i j acc q = scoreFrom h prev i j acc q := by
  induction q with
  | nil => intros; rfl
  | cons s q ih =>
    intro prev i j acc hs
    have hsk : s ≤ h.k := hs s List.mem_cons_self
    have hne : ¬ s = h.endId := by simp only [HMM.endId, HMM.k] at *; omega
    simp only [scoreFrom]
    rw [show (pinEnd h z a).T prev s = h.T prev s by simp [pinEnd, hne]]
    exact ih _ _ _ _ (fun x hx => hs x (List.mem_cons_of_mem _ hx))

theorem prefixScore_pinEnd (h : HMM S) (z : S) (a : Nat) (i j : Nat) (p : List Nat) (hst : statesOK h p) :
    prefixScore (pinEnd h z a) i j p = prefixScore h i j p := by
  cases p with
  | nil => rfl
  | cons s p =>
    have hsk : s ≤ h.k := (hst s List.mem_cons_self).2.1
    have hne : ¬ s = h.endId := by simp only [HMM.endId, HMM.k] at *; omega
    simp only [prefixScore]
    rw [show (pinEnd h z a).T 0 s = h.T 0 s by simp [pinEnd, hne]]
    exact scoreFrom_pinEnd h z a p _ _ _ _ (fun x hx => (hst x (List.mem_cons_of_mem _ hx)).2.1)

/-- score of a non-empty global path in the first-half problem: only paths ending in the anchor state count -/
theorem globalScore_pinEnd (h : HMM S) (z : S) (a : Nat) (s : Nat) (p : List Nat) (hst : statesOK h (s :: p)) :
    globalScore (pinEnd h z a) (s :: p) =
      if lastState (s :: p) = a then eadd (prefixScore h 0 0 (s :: p)) (some z) else none := by
  simp only [globalScore]
  rw [prefixScore_pinEnd h z a 0 0 _ hst]
  have : (pinEnd h z a).T (lastState (s :: p)) (pinEnd h z a).endId =
      if lastState (s :: p) = a then some z else none := by simp [pinEnd, HMM.endId]
  rw [this]
  split
  · rfl
  · cases prefixScore h 0 0 (s :: p) <;> rfl

theorem isGlobalPath_pinEnd (h : HMM S) (z : S) (a n m : Nat) (p : List Nat) :
    IsGlobalPath (pinEnd h z a) n m p ↔ IsGlobalPath h n m p := by
  unfold IsGlobalPath
  rw [consumedFrom_congr (pinEnd h z a) h (fun _ => rfl)]
  exact Iff.rfl

/-! ### `startFrom` -/

theorem scoreFrom_startFrom (h : HMM S) (a i0 j0 : Nat) (q : List Nat) : ∀ (prev i j : Nat) (acc : Option S),
    prev ≠ 0 → (∀ s ∈ q, s ≠ 0) →
    scoreFrom (startFrom h a i0 j0) prev i j acc q = scoreFrom h prev (i0 + i) (j0 + j) acc q := by
  induction q with
  | nil => intros; rfl
  | cons s q ih =>
    intro prev i j acc hp hs
    simp only [scoreFrom]
    rw [show (startFrom h a i0 j0).T prev s = h.T prev s by simp [startFrom, hp]]
    rw [ih _ _ _ _ (hs s List.mem_cons_self) (fun x hx => hs x (List.mem_cons_of_mem _ hx))]
    simp [startFrom, HMM.dir, Nat.add_assoc]

variable [ScoreLawsAC S]

/-- score of a global path of the second-half problem = tail score after the anchor state in the whole problem -/
theorem globalScore_startFrom (h : HMM S) (a i0 j0 : Nat) (q : List Nat) (hst : statesOK h q) :
    globalScore (startFrom h a i0 j0) q = tailScore h a i0 j0 q := by
  cases q with
  | nil => simp [globalScore, tailScore, startFrom, HMM.endId]
  | cons s q =>
    have hs0 : s ≠ 0 := by have := (hst s List.mem_cons_self).1; omega
    have hq0 : ∀ x ∈ q, x ≠ 0 := fun x hx => by
      have := (hst x (List.mem_cons_of_mem _ hx)).1; omega
    have hl0 : lastState (s :: q) ≠ 0 := by
      have := (hst _ (lastState_mem s q)).1; omega
    simp only [globalScore, prefixScore, tailScore]
    rw [scoreFrom_startFrom h a i0 j0 q _ _ _ _ hs0 hq0]
    rw [show (startFrom h a i0 j0).T (lastState (s :: q)) (startFrom h a i0 j0).endId =
      h.T (lastState (s :: q)) h.endId by simp [startFrom, hl0, HMM.endId]]
    have hdir : (startFrom h a i0 j0).dir s = h.dir s := rfl
    simp only [hdir, Nat.zero_add]
    rw [scoreFrom_tail]
    rw [show (startFrom h a i0 j0).T 0 s = h.T a s by simp [startFrom]]
    rw [show (startFrom h a i0 j0).em s (h.dir s).1.toNat (h.dir s).2.toNat =
      h.em s (i0 + (h.dir s).1.toNat) (j0 + (h.dir s).2.toNat) from rfl]
    rw [eadd_assoc]

theorem isGlobalPath_startFrom (h : HMM S) (a i0 j0 n' m' : Nat) (q : List Nat) :
    IsGlobalPath (startFrom h a i0 j0) n' m' q ↔ statesOK h q ∧ consumedFrom h i0 j0 q = (i0 + n', j0 + m') := by
  unfold IsGlobalPath
  rw [consumedFrom_congr (startFrom h a i0 j0) h (fun _ => rfl), consumedFrom_from h i0 j0 q]
  constructor
  · rintro ⟨h1, h2⟩; exact ⟨h1, by rw [h2]⟩
  · rintro ⟨h1, h2⟩
    refine ⟨h1, ?_⟩
    have e1 : i0 + (consumedFrom h 0 0 q).1 = i0 + n' := congrArg Prod.fst h2
    have e2 : j0 + (consumedFrom h 0 0 q).2 = j0 + m' := congrArg Prod.snd h2
    exact Prod.ext (by simp only; omega) (by simp only; omega)

end CogentModel.PairHMM
