import CogentModel.Proofs.IndelMapSegs3
namespace CogentModel.IndelMap
open CogentModel.Gapped List CogentModel

/-- gap length a map inserts before sequence position `p` (0 if none) -/
def glen (m : IMap) (p : Int) : Int := lenAt p m.gapPos (gapLengths m.cumLens)

theorem insertUniq_spec (v : Int) : ∀ (L : List Int), L.Pairwise (· < ·) →
    (insertUniq v L).Pairwise (· < ·) ∧ ∀ x, x ∈ insertUniq v L ↔ x = v ∨ x ∈ L := by
  intro L
  induction L with
  | nil => intro _; simp [insertUniq]
  | cons y r ih =>
    intro h
    have h' := pairwise_cons.mp h
    obtain ⟨i1, i2⟩ := ih h'.2
    simp only [insertUniq]
    by_cases c1 : v < y
    · rw [if_pos c1]
      refine ⟨pairwise_cons.mpr ⟨?_, h⟩, by intro x; simp⟩
      intro x hx
      rcases mem_cons.mp hx with rfl | hx'
      · exact c1
      · have := h'.1 x hx'; omega
    · rw [if_neg c1]
      by_cases c2 : v = y
      · rw [if_pos c2]; subst c2; exact ⟨h, by intro x; simp⟩
      · rw [if_neg c2]
        refine ⟨pairwise_cons.mpr ⟨?_, i1⟩, ?_⟩
        · intro x hx
          rcases (i2 x).mp hx with rfl | hx'
          · omega
          · exact h'.1 x hx'
        · intro x
          simp only [mem_cons, i2 x]
          constructor
          · rintro (h1 | h1 | h1)
            · right; left; exact h1
            · left; exact h1
            · right; right; exact h1
          · rintro (h1 | h1 | h1)
            · right; left; exact h1
            · left; exact h1
            · right; right; exact h1

theorem sortUniq_spec (xs : List Int) :
    (sortUniq xs).Pairwise (· < ·) ∧ ∀ x, x ∈ sortUniq xs ↔ x ∈ xs := by
  induction xs with
  | nil => simp [sortUniq]
  | cons v r ih =>
    obtain ⟨i1, i2⟩ := ih
    obtain ⟨j1, j2⟩ := insertUniq_spec v (sortUniq r) i1
    refine ⟨j1, ?_⟩
    intro x
    show x ∈ insertUniq v (sortUniq r) ↔ x ∈ v :: r
    rw [j2 x, i2 x]; simp

theorem lenAt_not_mem (p : Int) : ∀ (gp L : List Int), p ∉ gp → lenAt p gp L = 0 := by
  intro gp
  induction gp with
  | nil => intro L _; cases L <;> rfl
  | cons q qs ih =>
    intro L h
    cases L with
    | nil => rfl
    | cons l ls =>
      simp only [mem_cons, not_or] at h
      simp only [lenAt]
      rw [if_neg (fun e => h.1 e.symm), ih ls h.2]; omega

theorem lenAt_pos (p : Int) : ∀ (gp L : List Int), gp.length = L.length → (∀ l ∈ L, 0 < l) →
    (p ∈ gp → 0 < lenAt p gp L) ∧ 0 ≤ lenAt p gp L := by
  intro gp
  induction gp with
  | nil => intro L _ _; cases L <;> simp [lenAt]
  | cons q qs ih =>
    intro L hl hL
    cases L with
    | nil => simp at hl
    | cons l ls =>
      obtain ⟨i1, i2⟩ := ih ls (by simpa using hl) (fun x hx => hL x (by simp [hx]))
      have hl0 := hL l (by simp)
      simp only [lenAt]
      refine ⟨?_, by split <;> omega⟩
      intro hp
      by_cases hq : q = p
      · rw [if_pos hq]; omega
      · rw [if_neg hq]
        have : p ∈ qs := by
          rcases mem_cons.mp hp with h | h
          · exact absurd h.symm hq
          · exact h
        have := i1 this; omega

theorem lenAt_map (f : Int → Int) (p : Int) : ∀ (up : List Int), up.Pairwise (· < ·) →
    lenAt p up (up.map f) = if p ∈ up then f p else 0 := by
  intro up
  induction up with
  | nil => intro _; rfl
  | cons q qs ih =>
    intro h
    have h' := pairwise_cons.mp h
    simp only [map_cons, lenAt, ih h'.2, mem_cons]
    by_cases hq : q = p
    · subst hq
      have : q ∉ qs := fun hm => by have := h'.1 q hm; omega
      simp [this]
    · have hq' : ¬ p = q := fun e => hq e.symm
      simp [hq, hq']

/-- **`merge_maps`**: for two well-formed maps over the same sequence, the merged map inserts before
each sequence position the gaps of both (`glen r p = glen a p + glen b p`), never raises, and is
well formed -/
theorem merge_spec' (a b : IMap) (ha : WF a) (hb : WF b) (hpl : a.parentLength = b.parentLength) :
    ∃ r, mergeMaps a b none = .ok r ∧ WF r ∧ r.parentLength = a.parentLength ∧
      ∀ p, glen r p = glen a p + glen b p := by
  obtain ⟨s1, s2⟩ := sortUniq_spec (a.gapPos ++ b.gapPos)
  have hla : a.gapPos.length = (gapLengths a.cumLens).length := by simp [gapLengths, diffsFrom_length, ha.len_eq]
  have hlb : b.gapPos.length = (gapLengths b.cumLens).length := by simp [gapLengths, diffsFrom_length, hb.len_eq]
  have hpa := diffsFrom_pos a.cumLens 0 ha.cum_sorted
  have hpb := diffsFrom_pos b.cumLens 0 hb.cum_sorted
  generalize hf : (fun p => lenAt p a.gapPos (gapLengths a.cumLens) + lenAt p b.gapPos (gapLengths b.cumLens)) = f
  have hfpos : ∀ p ∈ sortUniq (a.gapPos ++ b.gapPos), 0 < f p := by
    intro p hp
    rw [← hf]
    show 0 < lenAt p a.gapPos (gapLengths a.cumLens) + lenAt p b.gapPos (gapLengths b.cumLens)
    have A := lenAt_pos p a.gapPos _ hla hpa
    have B := lenAt_pos p b.gapPos _ hlb hpb
    rcases mem_append.mp ((s2 p).mp hp) with h | h
    · have := A.1 h; omega
    · have := B.1 h; omega
  have hwf : WF ⟨sortUniq (a.gapPos ++ b.gapPos), cumsum ((sortUniq (a.gapPos ++ b.gapPos)).map f), a.parentLength⟩ := by
    refine ⟨ha.pl_nonneg, by simp [cumsum, cumsumFrom_length], s1, ?_, ?_⟩
    · exact (cumsumFrom_pairwise _ 0 (by
        intro x hx; obtain ⟨p, hp, rfl⟩ := mem_map.mp hx; exact hfpos p hp)).1
    · intro p hp
      rcases mem_append.mp ((s2 p).mp hp) with h | h
      · exact ha.pos_range p h
      · have := hb.pos_range p h
        show 0 ≤ p ∧ p ≤ a.parentLength
        omega
  refine ⟨_, ?_, hwf, rfl, ?_⟩
  · unfold mergeMaps mkLengths
    simp only [hf]
    exact wf_mk_ok _ hwf
  · intro p
    unfold glen
    simp only [gapLengths, cumsum, diffsFrom_cumsumFrom]
    rw [lenAt_map f p _ s1]
    by_cases hp : p ∈ sortUniq (a.gapPos ++ b.gapPos)
    · rw [if_pos hp, ← hf]; rfl
    · rw [if_neg hp]
      have hn : p ∉ a.gapPos ∧ p ∉ b.gapPos := by
        constructor <;> intro h <;> exact hp ((s2 p).mpr (by simp [h]))
      rw [lenAt_not_mem p _ _ hn.1, lenAt_not_mem p _ _ hn.2]; rfl

end CogentModel.IndelMap
