/-  C20 — helper lemmas for the column-store model of Table (rows of fancy-indexed stores, hash join,
    cross join, filter, sort, count, distinct, transpose, append) and the order on sort-key records. -/
import CogentModel.Model.TableOps
import CogentModel.Spec.TableRows
namespace CogentModel.TableOps
variable {α : Type}

/-! ### rows of a column store -/

theorem rowAt_append (dflt : α) (a b : List (List α)) (i : Nat) :
    rowAt dflt (a ++ b) i = rowAt dflt a i ++ rowAt dflt b i := by simp [rowAt]

theorem nrows_takeRows (dflt : α) (idx : List Nat) (cols : List (List α)) (h : cols ≠ []) :
    nrows (takeRows dflt idx cols) = idx.length := by
  cases cols with
  | nil => exact absurd rfl h
  | cons c cs => simp [takeRows, nrows]

theorem rowAt_takeRows (dflt : α) (idx : List Nat) (cols : List (List α)) (k : Nat) (hk : k < idx.length) :
    rowAt dflt (takeRows dflt idx cols) k = rowAt dflt cols idx[k] := by
  simp [rowAt, takeRows, List.getD_eq_getElem?_getD, hk]

/-- fancy indexing of every column = picking the rows -/
theorem rowsOf_takeRows (dflt : α) (idx : List Nat) (cols : List (List α)) (h : cols ≠ []) :
    rowsOf dflt (takeRows dflt idx cols) = idx.map (rowAt dflt cols) := by
  unfold rowsOf
  rw [nrows_takeRows dflt idx cols h]
  apply List.ext_getElem
  · simp
  · intro i h1 h2
    simp at h1
    simp [rowAt_takeRows dflt idx cols i h1]

theorem rowAt_selectCols (dflt : α) (sel : List Nat) (cols : List (List α)) (i : Nat) :
    rowAt dflt (selectCols sel cols) i = TableRows.proj dflt sel (rowAt dflt cols i) := by
  simp only [rowAt, selectCols, TableRows.proj, List.map_map]
  apply List.map_congr_left
  intro j _
  simp only [Function.comp, List.getD_eq_getElem?_getD, List.getElem?_map]
  cases cols[j]? <;> simp


/-! ### hash join -/
section HashJoin
variable {κ : Type} [DecidableEq κ]

def lookupD (k : κ) (idx : List (κ × List Nat)) : List Nat := (lookup k idx).getD []

/-- row numbers (counted from `start`) of the rows whose key equals `k` -/
def positionsFrom (start : Nat) (k : κ) : List κ → List Nat
  | [] => []
  | x :: xs => (if x = k then [start] else []) ++ positionsFrom (start + 1) k xs

theorem lookupD_indexInsert (k x : κ) (j : Nat) (idx : List (κ × List Nat)) :
    lookupD k (indexInsert x j idx) = lookupD k idx ++ (if x = k then [j] else []) := by
  induction idx with
  | nil => by_cases h : x = k <;> simp [indexInsert, lookupD, lookup, h]
  | cons e rest ih =>
    obtain ⟨k', js⟩ := e
    unfold lookupD at ih ⊢
    by_cases h1 : k' = x
    · subst h1
      by_cases h2 : k' = k <;> simp [indexInsert, lookup, h2]
    · by_cases h2 : k' = k
      · subst h2
        have h3 : ¬ x = k' := fun h => h1 h.symm
        simp [indexInsert, lookup, h1, h3]
      · simp [indexInsert, lookup, h1, h2, ih]

theorem lookupD_buildIndexFrom (k : κ) (start : Nat) (idx : List (κ × List Nat)) (ko : List κ) :
    lookupD k (buildIndexFrom start idx ko) = lookupD k idx ++ positionsFrom start k ko := by
  induction ko generalizing start idx with
  | nil => simp [buildIndexFrom, positionsFrom]
  | cons x xs ih =>
    simp only [buildIndexFrom, positionsFrom]
    rw [ih, lookupD_indexInsert]
    simp

theorem probeFrom_cons (idx : List (κ × List Nat)) (start : Nat) (k : κ) (ks : List κ) :
    probeFrom idx start (k :: ks) =
      (List.replicate (lookupD k idx).length start ++ (probeFrom idx (start + 1) ks).1,
       lookupD k idx ++ (probeFrom idx (start + 1) ks).2) := by
  simp only [probeFrom, lookupD]
  cases lookup k idx <;> simp

theorem probeFrom_length (idx : List (κ × List Nat)) (start : Nat) (ks : List κ) :
    (probeFrom idx start ks).1.length = (probeFrom idx start ks).2.length := by
  induction ks generalizing start with
  | nil => simp [probeFrom]
  | cons k ks ih => rw [probeFrom_cons]; simp [ih]

theorem zipWith_replicate_left {β γ : Type} (g : Nat → β → γ) (i : Nat) (l : List β) :
    List.zipWith g (List.replicate l.length i) l = l.map (g i) := by
  induction l with
  | nil => rfl
  | cons b l ih => simp [List.replicate_succ, ih]

theorem positionsFrom_map {σ τ : Type} (S pre : List σ) (ks : σ → κ) (k : κ) (h : σ → τ) (ds : σ) :
    (positionsFrom pre.length k (S.map ks)).map (fun j => h ((pre ++ S).getD j ds)) =
      S.filterMap (fun s => if k = ks s then some (h s) else none) := by
  induction S generalizing pre with
  | nil => simp [positionsFrom]
  | cons s S ih =>
    have e : pre ++ s :: S = (pre ++ [s]) ++ S := by simp
    have ih' := ih (pre ++ [s])
    simp only [List.length_append, List.length_cons, List.length_nil, Nat.zero_add] at ih'
    simp only [List.map_cons, positionsFrom, List.map_append, List.filterMap_cons]
    rw [e, ih']
    by_cases hk : ks s = k
    · have hk' : k = ks s := hk.symm
      simp [hk, List.getD_eq_getElem?_getD]
    · have hk' : ¬ k = ks s := fun h => hk h.symm
      simp [hk, hk']

/-- **hash join = nested loop**, for all row lists (duplicate keys on either side, in the nested
loop's order): picking the rows by the two index lists the hash join produces gives exactly
`[out r s for r in R for s in S if key(r) == key(s)]`. -/
theorem hashJoin_eq_nestedLoop' {ρ σ τ : Type} (R : List ρ) (S : List σ) (kr : ρ → κ) (ks : σ → κ)
    (out : ρ → σ → τ) (dr : ρ) (ds : σ) :
    List.zipWith (fun i j => out (R.getD i dr) (S.getD j ds))
        (hashJoinSel (R.map kr) (S.map ks)).1 (hashJoinSel (R.map kr) (S.map ks)).2
      = R.flatMap (fun r => S.filterMap (fun s => if kr r = ks s then some (out r s) else none)) := by
  unfold hashJoinSel
  suffices H : ∀ (rest pre : List ρ),
      List.zipWith (fun i j => out ((pre ++ rest).getD i dr) (S.getD j ds))
        (probeFrom (buildIndexFrom 0 [] (S.map ks)) pre.length (rest.map kr)).1
        (probeFrom (buildIndexFrom 0 [] (S.map ks)) pre.length (rest.map kr)).2
      = rest.flatMap (fun r => S.filterMap (fun s => if kr r = ks s then some (out r s) else none)) by
    simpa using H R []
  intro rest
  induction rest with
  | nil => intro pre; simp [probeFrom]
  | cons r rest ih =>
    intro pre
    rw [List.map_cons, probeFrom_cons]
    simp only
    rw [List.zipWith_append (by simp)]
    have ih' := ih (pre ++ [r])
    simp only [List.length_append, List.length_cons, List.length_nil, Nat.zero_add,
      List.append_assoc, List.singleton_append] at ih'
    rw [ih', zipWith_replicate_left, List.flatMap_cons]
    congr 1
    rw [lookupD_buildIndexFrom]
    have hl : lookupD (kr r) ([] : List (κ × List Nat)) = [] := rfl
    rw [hl, List.nil_append]
    have := positionsFrom_map S [] ks (kr r) (out r) ds
    simp only [List.length_nil, List.nil_append] at this
    rw [← this]
    apply List.map_congr_left
    intro j _
    simp [List.getD_eq_getElem?_getD]

end HashJoin


/-! ### selection, rows by index -/

theorem nrows_selectCols (sel : List Nat) (cols : List (List α)) (hw : WF cols) (hs : sel ≠ [])
    (hb : ∀ j ∈ sel, j < cols.length) : nrows (selectCols sel cols) = nrows cols := by
  cases sel with
  | nil => exact absurd rfl hs
  | cons j js =>
    have hj := hb j (by simp)
    simp only [selectCols, List.map_cons, nrows, List.getD_eq_getElem?_getD, List.getElem?_eq_getElem hj,
      Option.getD_some]
    exact hw _ (List.getElem_mem hj)

theorem rowsOf_selectCols (dflt : α) (sel : List Nat) (cols : List (List α)) (hw : WF cols) (hs : sel ≠ [])
    (hb : ∀ j ∈ sel, j < cols.length) :
    rowsOf dflt (selectCols sel cols) = TableRows.select dflt sel (rowsOf dflt cols) := by
  unfold rowsOf TableRows.select
  rw [nrows_selectCols sel cols hw hs hb, List.map_map]
  apply List.map_congr_left
  intro i _
  exact rowAt_selectCols dflt sel cols i

theorem getD_rowsOf (dflt : α) (cols : List (List α)) (i : Nat) (hi : i < nrows cols) :
    (rowsOf dflt cols).getD i [] = rowAt dflt cols i := by
  simp [rowsOf, List.getD_eq_getElem?_getD, List.getElem?_map, List.getElem?_range hi]

theorem zipWith_congr_mem {β γ δ : Type} (f g : β → γ → δ) (a : List β) (b : List γ)
    (h : ∀ x ∈ a, ∀ y ∈ b, f x y = g x y) : List.zipWith f a b = List.zipWith g a b := by
  induction a generalizing b with
  | nil => simp
  | cons x a ih =>
    cases b with
    | nil => simp
    | cons y b =>
      simp only [List.zipWith_cons_cons]
      rw [h x (by simp) y (by simp), ih b (fun x hx y hy => h x (by simp [hx]) y (by simp [hy]))]

theorem map_range_zipWith {β γ δ : Type} [Inhabited β] [Inhabited γ] (f : β → γ → δ) (a : List β) (b : List γ)
    (h : a.length = b.length) :
    (List.range a.length).map (fun k => f (a.getD k default) (b.getD k default)) = List.zipWith f a b := by
  apply List.ext_getElem
  · simp [h]
  · intro i h1 h2
    simp at h1
    have h3 : i < b.length := h ▸ h1
    simp [List.getD_eq_getElem?_getD, h1, h3]

section JoinBounds
variable {κ : Type} [DecidableEq κ]

theorem positionsFrom_bound (start : Nat) (k : κ) (l : List κ) :
    ∀ j ∈ positionsFrom start k l, start ≤ j ∧ j < start + l.length := by
  induction l generalizing start with
  | nil => simp [positionsFrom]
  | cons x xs ih =>
    intro j hj
    simp only [positionsFrom, List.mem_append] at hj
    rcases hj with hj | hj
    · split at hj
      · simp at hj; subst hj; simp
      · simp at hj
    · have := ih (start + 1) j hj
      simp only [List.length_cons]
      omega

theorem probeFrom_bound (idx : List (κ × List Nat)) (m : Nat) (hidx : ∀ k, ∀ j ∈ lookupD k idx, j < m)
    (start : Nat) (ks : List κ) :
    (∀ i ∈ (probeFrom idx start ks).1, i < start + ks.length) ∧ (∀ j ∈ (probeFrom idx start ks).2, j < m) := by
  induction ks generalizing start with
  | nil => simp [probeFrom]
  | cons k ks ih =>
    rw [probeFrom_cons]
    obtain ⟨h1, h2⟩ := ih (start + 1)
    constructor
    · intro i hi
      simp only [List.mem_append, List.mem_replicate] at hi
      rcases hi with ⟨_, rfl⟩ | hi
      · simp
      · have := h1 i hi
        simp only [List.length_cons]
        omega
    · intro j hj
      simp only [List.mem_append] at hj
      rcases hj with hj | hj
      · exact hidx k j hj
      · exact h2 j hj

theorem hashJoinSel_bound (ks ko : List κ) :
    (∀ i ∈ (hashJoinSel ks ko).1, i < ks.length) ∧ (∀ j ∈ (hashJoinSel ks ko).2, j < ko.length) := by
  have := probeFrom_bound (buildIndexFrom 0 [] ko) ko.length (by
    intro k j hj
    rw [lookupD_buildIndexFrom] at hj
    have hl : lookupD k ([] : List (κ × List Nat)) = [] := rfl
    rw [hl, List.nil_append] at hj
    have := positionsFrom_bound 0 k ko j hj
    omega) 0 ks
  simpa [hashJoinSel] using this

end JoinBounds


theorem length_rowsOf (dflt : α) (cols : List (List α)) : (rowsOf dflt cols).length = nrows cols := by
  simp [rowsOf]

/-- two row selections placed side by side: the rows are the concatenated picked rows -/
theorem rowsOf_hstack_take (dflt : α) (a b : List (List α)) (s1 s2 : List Nat) (ha : a ≠ [])
    (hl : s1.length = s2.length) :
    rowsOf dflt (takeRows dflt s1 a ++ takeRows dflt s2 b)
      = List.zipWith (fun i j => rowAt dflt a i ++ rowAt dflt b j) s1 s2 := by
  have hn : nrows (takeRows dflt s1 a ++ takeRows dflt s2 b) = s1.length := by
    cases a with
    | nil => exact absurd rfl ha
    | cons c cs => simp [takeRows, nrows]
  unfold rowsOf
  rw [hn]
  apply List.ext_getElem
  · simp [hl]
  · intro k h1 h2
    simp at h1
    have h3 : k < s2.length := hl ▸ h1
    simp [rowAt_append, rowAt_takeRows, h1, h3]

/-- `inner_join` on the column store = the nested-loop join of the two row lists -/
theorem innerJoinCols_rows {κ : Type} [DecidableEq κ] (dflt : α) (key : α → κ) (kS kO keep : List Nat)
    (self other : List (List α)) (hs : self ≠ []) (hwS : WF self) (hwO : WF other)
    (hkS : kS ≠ []) (hkO : kO ≠ [])
    (hbS : ∀ j ∈ kS, j < self.length) (hbO : ∀ j ∈ kO, j < other.length) :
    rowsOf dflt (innerJoinCols dflt key kS kO keep self other)
      = TableRows.innerJoin dflt key kS kO keep (rowsOf dflt self) (rowsOf dflt other) := by
  unfold innerJoinCols TableRows.innerJoin
  simp only
  rw [rowsOf_selectCols dflt kS self hwS hkS hbS, rowsOf_selectCols dflt kO other hwO hkO hbO]
  simp only [TableRows.select, List.map_map]
  have e1 : (List.map (List.map key ∘ TableRows.proj dflt kS) (rowsOf dflt self))
      = (rowsOf dflt self).map (fun r => (TableRows.proj dflt kS r).map key) := rfl
  have e2 : (List.map (List.map key ∘ TableRows.proj dflt kO) (rowsOf dflt other))
      = (rowsOf dflt other).map (fun r => (TableRows.proj dflt kO r).map key) := rfl
  rw [e1, e2]
  obtain ⟨b1, b2⟩ := hashJoinSel_bound
    ((rowsOf dflt self).map (fun r => (TableRows.proj dflt kS r).map key))
    ((rowsOf dflt other).map (fun r => (TableRows.proj dflt kO r).map key))
  rw [rowsOf_hstack_take dflt self _ _ _ hs (by unfold hashJoinSel; exact probeFrom_length _ _ _)]
  rw [← hashJoin_eq_nestedLoop' (rowsOf dflt self) (rowsOf dflt other)
    (fun r => (TableRows.proj dflt kS r).map key) (fun r => (TableRows.proj dflt kO r).map key)
    (fun r s => r ++ TableRows.proj dflt keep s) [] []]
  apply zipWith_congr_mem
  intro i hi j hj
  have hi' : i < nrows self := by simpa [length_rowsOf] using b1 i hi
  have hj' : j < nrows other := by simpa [length_rowsOf] using b2 j hj
  rw [getD_rowsOf dflt self i hi', getD_rowsOf dflt other j hj', rowAt_selectCols]


/-! ### cross join -/

theorem crossSel_zipWith {δ : Type} (f : Nat → Nat → δ) (l : List Nat) (m : Nat) :
    List.zipWith f (l.flatMap (fun i => List.replicate m i)) (l.flatMap (fun _ => List.range m))
      = l.flatMap (fun i => (List.range m).map (f i)) := by
  induction l with
  | nil => simp
  | cons i l ih =>
    simp only [List.flatMap_cons]
    rw [List.zipWith_append (by simp), ih]
    congr 1
    have := zipWith_replicate_left f i (List.range m)
    simpa using this

theorem crossSel_length (n m : Nat) : (crossSel n m).1.length = (crossSel n m).2.length := by
  simp [crossSel, List.length_flatMap]

/-- `cross_join` on the column store = `[r + s for r in R for s in S]` -/
theorem crossJoinCols_rows (dflt : α) (self other : List (List α)) (hs : self ≠ []) :
    rowsOf dflt (crossJoinCols dflt self other) = TableRows.crossJoin (rowsOf dflt self) (rowsOf dflt other) := by
  unfold crossJoinCols TableRows.crossJoin
  simp only
  rw [rowsOf_hstack_take dflt self other _ _ hs (crossSel_length _ _)]
  unfold crossSel
  simp only
  rw [crossSel_zipWith]
  unfold rowsOf
  rw [List.flatMap_map]
  simp only [List.map_map]
  rfl

/-! ### filtered / new column -/

theorem filteredCols_rows (dflt : α) (p : List α → Bool) (sel : List Nat) (cols : List (List α)) :
    rowsOf dflt (filteredCols dflt p sel cols) = TableRows.filtered dflt p sel (rowsOf dflt cols) := by
  by_cases h : cols = []
  · subst h; simp [filteredCols, takeRows, rowsOf, nrows, TableRows.filtered]
  · unfold filteredCols TableRows.filtered filterIdx
    rw [rowsOf_takeRows dflt _ cols h]
    unfold rowsOf
    rw [List.filter_map]
    congr 1
    apply List.filter_congr
    intro i _
    simp [rowAt_selectCols]

theorem withNewColumnCols_rows (dflt : α) (f : List α → α) (sel : List Nat) (cols : List (List α))
    (h : cols ≠ []) :
    rowsOf dflt (withNewColumnCols dflt f sel cols) = TableRows.withNewColumn dflt f sel (rowsOf dflt cols) := by
  unfold withNewColumnCols TableRows.withNewColumn rowsOf
  have hn : nrows (cols ++ [(List.range (nrows cols)).map fun i => f (rowAt dflt (selectCols sel cols) i)])
      = nrows cols := by
    cases cols with
    | nil => exact absurd rfl h
    | cons c cs => simp [nrows]
  rw [hn, List.map_map]
  apply List.map_congr_left
  intro i hi
  have hi' : i < nrows cols := by simpa using hi
  rw [rowAt_append]
  simp only [Function.comp]
  rw [← rowAt_selectCols]
  simp [rowAt, List.getD_eq_getElem?_getD, hi']


/-! ### sorting -/

theorem optLe_trans {κ : Type} (le : κ → κ → Bool) (ht : ∀ a b c, le a b = true → le b c = true → le a c = true)
    (a b c : Option κ) : optLe le a b = true → optLe le b c = true → optLe le a c = true := by
  cases a <;> cases b <;> cases c <;> simp [optLe]
  exact ht _ _ _

theorem optLe_total {κ : Type} (le : κ → κ → Bool) (htot : ∀ a b, (le a b || le b a) = true)
    (a b : Option κ) : (optLe le a b || optLe le b a) = true := by
  cases a <;> cases b <;> simp [optLe]
  simpa using htot _ _

theorem sortIdx_perm {κ : Type} (le : κ → κ → Bool) (keys : List κ) :
    (sortIdx le keys).Perm (List.range keys.length) := List.mergeSort_perm _ _

theorem sortIdx_sorted {κ : Type} (le : κ → κ → Bool)
    (ht : ∀ a b c, le a b = true → le b c = true → le a c = true)
    (htot : ∀ a b, (le a b || le b a) = true) (keys : List κ) :
    (sortIdx le keys).Pairwise (fun i j => optLe le keys[i]? keys[j]? = true) := by
  unfold sortIdx
  exact List.pairwise_mergeSort (le := fun i j => optLe le keys[i]? keys[j]?)
    (fun a b c => optLe_trans le ht keys[a]? keys[b]? keys[c]?)
    (fun a b => optLe_total le htot keys[a]? keys[b]?) _

/-- `Table.sorted` on the column store: the result's rows are a permutation of the rows and are
in order under the (transformed) record comparison `le` -/
theorem sortedCols_perm_sorted {κ : Type} (dflt : α) (le : κ → κ → Bool)
    (ht : ∀ a b c, le a b = true → le b c = true → le a c = true)
    (htot : ∀ a b, (le a b || le b a) = true)
    (keyOf : List α → κ) (cols : List (List α)) :
    (rowsOf dflt (sortedCols dflt le keyOf cols)).Perm (rowsOf dflt cols) ∧
    TableRows.SortedBy le keyOf (rowsOf dflt (sortedCols dflt le keyOf cols)) := by
  by_cases h : cols = []
  · subst h
    simp [sortedCols, takeRows, rowsOf, nrows, TableRows.SortedBy]
  · unfold sortedCols
    rw [rowsOf_takeRows dflt _ cols h]
    have hp := sortIdx_perm le ((rowsOf dflt cols).map keyOf)
    have hlen : ((rowsOf dflt cols).map keyOf).length = nrows cols := by simp [rowsOf]
    constructor
    · have := hp.map (rowAt dflt cols)
      rw [hlen] at this
      exact this
    · unfold TableRows.SortedBy
      rw [List.pairwise_map]
      have hs := sortIdx_sorted le ht htot ((rowsOf dflt cols).map keyOf)
      refine hs.imp_of_mem ?_
      intro i j hi hj hij
      have hi' : i < nrows cols := by
        have := (hp.mem_iff).1 hi; rw [hlen] at this; simpa using this
      have hj' : j < nrows cols := by
        have := (hp.mem_iff).1 hj; rw [hlen] at this; simpa using this
      have gi : ((rowsOf dflt cols).map keyOf)[i]? = some (keyOf (rowAt dflt cols i)) := by
        simp [rowsOf, List.getElem?_map, List.getElem?_range hi']
      have gj : ((rowsOf dflt cols).map keyOf)[j]? = some (keyOf (rowAt dflt cols j)) := by
        simp [rowsOf, List.getElem?_map, List.getElem?_range hj']
      rw [gi, gj] at hij
      simpa [optLe] using hij

/-! #### the order on records of key fields -/

theorem natLexLe_refl (a : List Nat) : natLexLe a a = true := by
  induction a with
  | nil => rfl
  | cons x xs ih => simp [natLexLe, ih]

theorem natLexLe_total (a b : List Nat) : (natLexLe a b || natLexLe b a) = true := by
  induction a generalizing b with
  | nil => simp [natLexLe]
  | cons x xs ih =>
    cases b with
    | nil => simp [natLexLe]
    | cons y ys =>
      simp only [natLexLe]
      have := ih ys
      by_cases h1 : x < y
      · simp [h1]
      · by_cases h2 : y < x
        · simp [h1, h2]
        · simpa [h1, h2] using this

theorem natLexLe_antisymm (a b : List Nat) : natLexLe a b = true → natLexLe b a = true → a = b := by
  induction a generalizing b with
  | nil => cases b <;> simp [natLexLe]
  | cons x xs ih =>
    cases b with
    | nil => simp [natLexLe]
    | cons y ys =>
      simp only [natLexLe]
      by_cases h1 : x < y
      · have : ¬ y < x := by omega
        simp [h1, this]
      · by_cases h2 : y < x
        · simp [h1, h2]
        · have : x = y := by omega
          subst this
          simp only [Nat.lt_irrefl, if_false]
          intro p q
          rw [ih ys p q]

theorem natLexLe_trans (a b c : List Nat) : natLexLe a b = true → natLexLe b c = true → natLexLe a c = true := by
  induction a generalizing b c with
  | nil => simp [natLexLe]
  | cons x xs ih =>
    cases b with
    | nil => simp [natLexLe]
    | cons y ys =>
      cases c with
      | nil => simp [natLexLe]
      | cons z zs =>
        simp only [natLexLe]
        by_cases h1 : x < y
        · by_cases h3 : y < z
          · have : x < z := by omega
            simp [this]
          · by_cases h4 : z < y
            · simp [h1, h3, h4]
            · have : x < z := by omega
              simp [this]
        · by_cases h2 : y < x
          · simp [h1, h2]
          · have hxy : x = y := by omega
            subst hxy
            simp only [Nat.lt_irrefl, if_false]
            by_cases h3 : x < z
            · simp [h3]
            · by_cases h4 : z < x
              · simp [h3, h4]
              · simp only [h3, h4, if_false]
                exact ih ys zs


theorem SKey.le_total (a b : SKey) : (SKey.le a b || SKey.le b a) = true := by
  cases a <;> cases b <;> simp [SKey.le, SKey.rank]
  · rename_i x y; cases x <;> cases y <;> simp
  · exact Rat.le_total
  · simpa using natLexLe_total _ _

theorem SKey.le_trans (a b c : SKey) : SKey.le a b = true → SKey.le b c = true → SKey.le a c = true := by
  cases a <;> cases b <;> cases c <;> simp [SKey.le, SKey.rank]
  · rename_i x y z; cases x <;> cases y <;> cases z <;> simp
  · exact fun h1 h2 => Rat.le_trans h1 h2
  · exact natLexLe_trans _ _ _

theorem SKey.le_antisymm (a b : SKey) : SKey.le a b = true → SKey.le b a = true → a = b := by
  cases a <;> cases b <;> simp [SKey.le, SKey.rank]
  · rename_i x y; cases x <;> cases y <;> simp
  · exact fun h1 h2 => Rat.le_antisymm h1 h2
  · exact natLexLe_antisymm _ _

theorem lexLe_total (a b : List SKey) : (lexLe a b || lexLe b a) = true := by
  induction a generalizing b with
  | nil => simp [lexLe]
  | cons x xs ih =>
    cases b with
    | nil => simp [lexLe]
    | cons y ys =>
      simp only [lexLe]
      by_cases h : x = y
      · subst h; simpa using ih ys
      · have h' : ¬ y = x := fun e => h e.symm
        simpa [h, h'] using SKey.le_total x y

theorem lexLe_trans (a b c : List SKey) : lexLe a b = true → lexLe b c = true → lexLe a c = true := by
  induction a generalizing b c with
  | nil => simp [lexLe]
  | cons x xs ih =>
    cases b with
    | nil => simp [lexLe]
    | cons y ys =>
      cases c with
      | nil => simp [lexLe]
      | cons z zs =>
        simp only [lexLe]
        by_cases h1 : x = y
        · subst h1
          by_cases h2 : x = z
          · subst h2; simpa using ih ys zs
          · simp only [if_true, h2, if_false]
            intro _ h; exact h
        · by_cases h2 : y = z
          · subst h2
            simp only [h1, if_false, if_true]
            intro h _; exact h
          · simp only [h1, h2, if_false]
            intro p q
            by_cases h3 : x = z
            · subst h3
              exact absurd (SKey.le_antisymm _ _ p q) h1
            · simp only [h3, if_false]
              exact SKey.le_trans _ _ _ p q

/-! #### the reversal transforms -/

theorem reverseNum_antitone' (a b : Rat) : a ≤ b ↔ reverseNum b ≤ reverseNum a := by
  unfold reverseNum
  rw [Rat.mul_neg, Rat.mul_neg, Rat.mul_one, Rat.mul_one]
  exact Rat.neg_le_neg_iff.symm

/-! ### counting and distinct values -/
section Count
variable {κ : Type} [DecidableEq κ]

theorem countLookup_countInsert (k x : κ) (acc : List (κ × Nat)) :
    countLookup k (countInsert x acc) = countLookup k acc + (if x = k then 1 else 0) := by
  induction acc with
  | nil => by_cases h : x = k <;> simp [countInsert, countLookup, h]
  | cons e rest ih =>
    obtain ⟨k', n⟩ := e
    by_cases h1 : k' = x
    · subst h1
      by_cases h2 : k' = k <;> simp [countInsert, countLookup, h2]
    · by_cases h2 : k' = k
      · subst h2
        have h3 : ¬ x = k' := fun h => h1 h.symm
        simp [countInsert, countLookup, h1, h3]
      · simp [countInsert, countLookup, h1, h2, ih]

theorem countLookup_countAll (k : κ) (acc : List (κ × Nat)) (ks : List κ) :
    countLookup k (countAll acc ks) = countLookup k acc + (ks.filter (fun x => decide (x = k))).length := by
  induction ks generalizing acc with
  | nil => simp [countAll]
  | cons x xs ih =>
    simp only [countAll]
    rw [ih, countLookup_countInsert]
    by_cases h : x = k <;> simp [h] <;> omega

theorem mem_setOfList (k : κ) (acc ks : List κ) : k ∈ setOfList acc ks ↔ k ∈ acc ∨ k ∈ ks := by
  induction ks generalizing acc with
  | nil => simp [setOfList]
  | cons x xs ih =>
    simp only [setOfList]
    rw [ih]
    unfold setInsert
    by_cases h : x ∈ acc
    · simp only [h, if_true, List.mem_cons]
      constructor
      · rintro (h1 | h1)
        · exact Or.inl h1
        · exact Or.inr (Or.inr h1)
      · rintro (h1 | h1 | h1)
        · exact Or.inl h1
        · exact Or.inl (h1 ▸ h)
        · exact Or.inr h1
    · simp only [h, if_false, List.mem_append, List.mem_cons, List.mem_nil_iff, or_false]
      constructor
      · rintro ((h1 | h1) | h1)
        · exact Or.inl h1
        · exact Or.inr (Or.inl h1)
        · exact Or.inr (Or.inr h1)
      · rintro (h1 | h1 | h1)
        · exact Or.inl (Or.inl h1)
        · exact Or.inl (Or.inr h1)
        · exact Or.inr h1

theorem nodup_setOfList (acc ks : List κ) (h : acc.Nodup) : (setOfList acc ks).Nodup := by
  induction ks generalizing acc with
  | nil => simpa [setOfList]
  | cons x xs ih =>
    simp only [setOfList]
    apply ih
    unfold setInsert
    by_cases hx : x ∈ acc
    · simpa [hx]
    · simp only [hx, if_false]
      rw [List.nodup_append]
      refine ⟨h, by simp, ?_⟩
      intro a ha b hb
      simp at hb
      subst hb
      exact fun e => hx (e ▸ ha)

end Count

/-! ### transpose / append -/

theorem map_getD_range_self (dflt : α) (c : List α) : (List.range c.length).map (fun i => c.getD i dflt) = c := by
  apply List.ext_getElem
  · simp
  · intro i h1 h2
    simp at h1
    simp [List.getD_eq_getElem?_getD, h1]

/-- transposing twice gives the column store back (any well-formed store with at least one row) -/
theorem transposeCols_involutive (dflt : α) (cols : List (List α)) (hw : WF cols) (hn : nrows cols ≠ 0) :
    transposeCols dflt (transposeCols dflt cols) = cols := by
  unfold transposeCols
  have h1 : nrows (rowsOf dflt cols) = cols.length := by
    unfold rowsOf
    cases hr : List.range (nrows cols) with
    | nil => simp at hr; exact absurd hr hn
    | cons i is => simp [nrows, rowAt]
  show rowsOf dflt (rowsOf dflt cols) = cols
  generalize hR : rowsOf dflt cols = R at h1
  unfold rowsOf
  rw [h1]
  apply List.ext_getElem
  · simp
  · intro j h2 h3
    simp only [List.getElem_map, List.getElem_range, rowAt]
    subst hR
    unfold rowsOf
    rw [List.map_map]
    have hc : cols[j].length = nrows cols := hw _ (List.getElem_mem h3)
    have key : ∀ i, ((fun c => c.getD j dflt) ∘ rowAt dflt cols) i = cols[j].getD i dflt := by
      intro i
      simp [Function.comp, rowAt, List.getD_eq_getElem?_getD, h3]
    rw [List.map_congr_left (fun i _ => key i), ← hc]
    exact map_getD_range_self dflt cols[j]


theorem nrows_vstack (a b : List (List α)) (hl : a.length = b.length) :
    nrows (List.zipWith (· ++ ·) a b) = nrows a + nrows b := by
  cases a with
  | nil => cases b with
    | nil => rfl
    | cons _ _ => simp at hl
  | cons ca as => cases b with
    | nil => simp at hl
    | cons cb bs => simp [nrows]

theorem wf_vstack (a b : List (List α)) (hwa : WF a) (hwb : WF b) (hl : a.length = b.length) :
    WF (List.zipWith (· ++ ·) a b) := by
  intro c hc
  rw [nrows_vstack a b hl]
  obtain ⟨j, hj, rfl⟩ := List.getElem_of_mem hc
  simp only [List.length_zipWith] at hj
  have h1 : j < a.length := by omega
  have h2 : j < b.length := by omega
  simp only [List.getElem_zipWith, List.length_append]
  rw [hwa _ (List.getElem_mem h1), hwb _ (List.getElem_mem h2)]

theorem rowAt_vstack_left (dflt : α) (a b : List (List α)) (hwa : WF a) (hl : a.length = b.length)
    (i : Nat) (hi : i < nrows a) : rowAt dflt (List.zipWith (· ++ ·) a b) i = rowAt dflt a i := by
  unfold rowAt
  apply List.ext_getElem
  · simp [hl]
  · intro j h1 h2
    simp at h1 h2
    have hc : a[j].length = nrows a := hwa _ (List.getElem_mem h2)
    simp [List.getD_eq_getElem?_getD, List.getElem?_append_left (hc ▸ hi)]

theorem rowAt_vstack_right (dflt : α) (a b : List (List α)) (hwa : WF a) (hl : a.length = b.length)
    (i : Nat) : rowAt dflt (List.zipWith (· ++ ·) a b) (nrows a + i) = rowAt dflt b i := by
  unfold rowAt
  apply List.ext_getElem
  · simp [hl]
  · intro j h1 h2
    simp at h1 h2
    have h3 : j < a.length := by omega
    have hc : a[j].length = nrows a := hwa _ (List.getElem_mem h3)
    simp [List.getD_eq_getElem?_getD, List.getElem?_append_right, hc]

/-- stacking two aligned tables: the rows are the rows of the first followed by those of the second -/
theorem rowsOf_vstack (dflt : α) (a b : List (List α)) (hwa : WF a) (hl : a.length = b.length) :
    rowsOf dflt (List.zipWith (· ++ ·) a b) = rowsOf dflt a ++ rowsOf dflt b := by
  unfold rowsOf
  rw [nrows_vstack a b hl, List.range_add, List.map_append, List.map_map]
  congr 1
  · apply List.map_congr_left
    intro i hi
    exact rowAt_vstack_left dflt a b hwa hl i (by simpa using hi)
  · apply List.map_congr_left
    intro i _
    exact rowAt_vstack_right dflt a b hwa hl i

/-- `appended` on aligned column stores = concatenation of the row lists, for any number of tables -/
theorem appendCols_rows (dflt : α) (ts : List (List (List α))) (L : Nat)
    (hw : ∀ t ∈ ts, WF t) (hL : ∀ t ∈ ts, t.length = L) (hne : ts ≠ []) :
    rowsOf dflt (appendCols ts) = TableRows.appended (ts.map (rowsOf dflt)) ∧
    WF (appendCols ts) ∧ (appendCols ts).length = L := by
  induction ts with
  | nil => exact absurd rfl hne
  | cons t rest ih =>
    cases rest with
    | nil =>
      simp only [appendCols, TableRows.appended, List.map_cons, List.map_nil, List.flatMap_cons,
        List.flatMap_nil, List.append_nil, id]
      exact ⟨trivial, hw t (by simp), hL t (by simp)⟩
    | cons u rest =>
      obtain ⟨ih1, ih2, ih3⟩ := ih (fun t ht => hw t (by simp [ht])) (fun t ht => hL t (by simp [ht])) (by simp)
      have hl : t.length = (appendCols (u :: rest)).length := by rw [ih3, hL t (by simp)]
      have hwt := hw t (by simp)
      refine ⟨?_, ?_, ?_⟩
      · show rowsOf dflt (List.zipWith (· ++ ·) t (appendCols (u :: rest))) = _
        rw [rowsOf_vstack dflt t _ hwt hl, ih1]
        simp [TableRows.appended]
      · exact wf_vstack t _ hwt ih2 hl
      · show (List.zipWith (· ++ ·) t (appendCols (u :: rest))).length = L
        rw [List.length_zipWith, ← hl, Nat.min_self, hL t (by simp)]

/-! #### reversal by negated dense ranks -/
section Rank

theorem filter_length_le_of_imp {β : Type} (p q : β → Bool) (D : List β) (h : ∀ z ∈ D, p z = true → q z = true) :
    (D.filter p).length ≤ (D.filter q).length := by
  induction D with
  | nil => simp
  | cons z D ih =>
    have ih' := ih (fun w hw => h w (by simp [hw]))
    have hz := h z (by simp)
    simp only [List.filter_cons]
    cases hp : p z <;> cases hq : q z <;> simp <;> first | omega | (simp [hp, hq] at hz)

theorem filter_length_lt_of_imp {β : Type} (p q : β → Bool) (D : List β) (h : ∀ z ∈ D, p z = true → q z = true)
    (x : β) (hx : x ∈ D) (h1 : p x = false) (h2 : q x = true) :
    (D.filter p).length < (D.filter q).length := by
  induction D with
  | nil => simp at hx
  | cons z D ih =>
    have hle := filter_length_le_of_imp p q D (fun w hw => h w (by simp [hw]))
    have hz := h z (by simp)
    simp only [List.filter_cons]
    rcases List.mem_cons.1 hx with rfl | hx'
    · simp [h1, h2]; omega
    · have ih' := ih (fun w hw => h w (by simp [hw])) hx'
      cases hp : p z <;> cases hq : q z <;> simp <;> first | omega | (simp [hp, hq] at hz)

variable {κ : Type} [DecidableEq κ] (le : κ → κ → Bool)

theorem denseRank_mono (ht : ∀ a b c, le a b = true → le b c = true → le a c = true)
    (ha : ∀ a b, le a b = true → le b a = true → a = b) (D : List κ) (x y : κ) (h : le x y = true) :
    denseRank le D x ≤ denseRank le D y := by
  unfold denseRank
  apply filter_length_le_of_imp
  intro z _ hz
  simp only [Bool.and_eq_true, Bool.not_eq_true', decide_eq_false_iff_not] at hz ⊢
  refine ⟨ht _ _ _ hz.1 h, ?_⟩
  intro e
  subst e
  exact hz.2 (ha _ _ hz.1 h)

theorem denseRank_strict (ht : ∀ a b c, le a b = true → le b c = true → le a c = true)
    (ha : ∀ a b, le a b = true → le b a = true → a = b) (D : List κ) (x y : κ) (hx : x ∈ D)
    (h : le x y = true) (hne : x ≠ y) : denseRank le D x < denseRank le D y := by
  unfold denseRank
  apply filter_length_lt_of_imp _ _ D _ x hx
  · simp
  · simp [h, hne]
  · intro z _ hz
    simp only [Bool.and_eq_true, Bool.not_eq_true', decide_eq_false_iff_not] at hz ⊢
    refine ⟨ht _ _ _ hz.1 h, ?_⟩
    intro e
    subst e
    exact hz.2 (ha _ _ hz.1 h)

/-- the dense rank is an order embedding on the values that occur in the column -/
theorem denseRank_le_iff (ht : ∀ a b c, le a b = true → le b c = true → le a c = true)
    (ha : ∀ a b, le a b = true → le b a = true → a = b) (htot : ∀ a b, (le a b || le b a) = true)
    (D : List κ) (x y : κ) (_hx : x ∈ D) (hy : y ∈ D) :
    denseRank le D x ≤ denseRank le D y ↔ le x y = true := by
  constructor
  · intro hr
    cases hxy : le x y with
    | true => rfl
    | false =>
      have hyx : le y x = true := by have := htot x y; simpa [hxy] using this
      have hne : y ≠ x := by intro e; subst e; simp [hyx] at hxy
      have := denseRank_strict le ht ha D y x hy hyx hne
      omega
  · exact denseRank_mono le ht ha D x y

end Rank

/-- negating the rank reverses the order of the key fields, for ALL values of the column -/
theorem reverseRank_antitone' (D : List SKey) (x y : SKey) (hx : x ∈ D) (hy : y ∈ D) :
    SKey.le (.num (-((denseRank SKey.le D x : Nat) : Rat))) (.num (-((denseRank SKey.le D y : Nat) : Rat)))
      = SKey.le y x := by
  have h := denseRank_le_iff SKey.le SKey.le_trans SKey.le_antisymm SKey.le_total D y x hy hx
  simp only [SKey.le]
  rw [Bool.eq_iff_iff]
  simp only [decide_eq_true_eq, Rat.neg_le_neg_iff, Rat.natCast_le_natCast]
  exact h

theorem lexLe_single (a b : SKey) (h : lexLe [a] [b] = true) : SKey.le a b = true := by
  simp only [lexLe] at h
  by_cases e : a = b
  · subst e; have := SKey.le_total a a; simpa using this
  · simpa [e] using h

/-- **a reverse sort on any single non-numeric key column is a descending sort**, for ALL columns
(strings with common prefixes, bools, …): rows come out with keys in descending `SKey.le` order -/
theorem sorted_reverse_descending' {α : Type} (dflt : α) (keyOf : List α → SKey) (cols : List (List α)) :
    let D := setOfList [] ((rowsOf dflt cols).map keyOf)
    (rowsOf dflt (sortedCols dflt lexLe
        (fun r => [SKey.num (-((denseRank SKey.le D (keyOf r) : Nat) : Rat))]) cols)).Pairwise
      (fun r s => SKey.le (keyOf s) (keyOf r) = true) := by
  intro D
  obtain ⟨hperm, hsorted⟩ := sortedCols_perm_sorted dflt lexLe lexLe_trans lexLe_total
    (fun r => [SKey.num (-((denseRank SKey.le D (keyOf r) : Nat) : Rat))]) cols
  unfold TableRows.SortedBy at hsorted
  refine hsorted.imp_of_mem ?_
  intro r s hr hs h
  have hr' := (hperm.mem_iff).1 hr
  have hs' := (hperm.mem_iff).1 hs
  have mr : keyOf r ∈ D := (mem_setOfList _ _ _).2 (Or.inr (List.mem_map_of_mem hr'))
  have ms : keyOf s ∈ D := (mem_setOfList _ _ _).2 (Or.inr (List.mem_map_of_mem hs'))
  have := lexLe_single _ _ h
  rwa [reverseRank_antitone' D (keyOf r) (keyOf s) mr ms] at this

/-! ### audit additions: multi-key sorting with mixed directions, transpose as `zip(*rows)` -/


/-- the key record `Table.sorted` hands to `argsort`: field `i` of the row's key fields through transform `i` -/
def keyT : List (Bool × (SKey → SKey)) → List SKey → List SKey
  | e :: sp, x :: xs => e.2 x :: keyT sp xs
  | _, _ => []

/-- the order the caller asks for: the first differing key field decides, ascending (`false`) or descending (`true`) -/
def mixedLe : List Bool → List SKey → List SKey → Bool
  | rev :: rs, a :: as, b :: bs =>
    if a = b then mixedLe rs as bs else (if rev then SKey.le b a else SKey.le a b)
  | _, _, _ => true

/-- a transform is faithful for direction `rev` on a pair of fields -/
def FieldOK (rev : Bool) (T : SKey → SKey) (x y : SKey) : Prop :=
  (T x = T y → x = y) ∧ SKey.le (T x) (T y) = (if rev then SKey.le y x else SKey.le x y)

def AllOK : List (Bool × (SKey → SKey)) → List SKey → List SKey → Prop
  | e :: sp, x :: xs, y :: ys => FieldOK e.1 e.2 x y ∧ AllOK sp xs ys
  | [], [], [] => True
  | _, _, _ => False

theorem lexLe_keyT : ∀ (sp : List (Bool × (SKey → SKey))) (a b : List SKey), AllOK sp a b →
    lexLe (keyT sp a) (keyT sp b) = mixedLe (sp.map (·.1)) a b
  | [], [], [], _ => rfl
  | [], [], _ :: _, h => by simp [AllOK] at h
  | [], _ :: _, _, h => by simp [AllOK] at h
  | _ :: _, [], _, h => by simp [AllOK] at h
  | _ :: _, _ :: _, [], h => by simp [AllOK] at h
  | e :: sp, x :: xs, y :: ys, h => by
    obtain ⟨⟨hinj, hle⟩, hrest⟩ := h
    simp only [keyT, lexLe, List.map_cons, mixedLe]
    by_cases hxy : x = y
    · subst hxy; simp [lexLe_keyT sp xs ys hrest]
    · have : e.2 x ≠ e.2 y := fun h => hxy (hinj h)
      simp [this, hxy, hle]

theorem fieldOK_asc (x y : SKey) : FieldOK false id x y := ⟨fun h => h, by simp⟩

theorem fieldOK_descRank (D : List SKey) (x y : SKey) (hx : x ∈ D) (hy : y ∈ D) :
    FieldOK true (fun k => .num (-((denseRank SKey.le D k : Nat) : Rat))) x y := by
  refine ⟨?_, by simpa using reverseRank_antitone' D x y hx hy⟩
  intro h
  have e : denseRank SKey.le D x = denseRank SKey.le D y := by
    have : (-((denseRank SKey.le D x : Nat) : Rat)) = -((denseRank SKey.le D y : Nat) : Rat) := by
      injection h
    have h2 := congrArg (fun z : Rat => -z) this
    simp only [Rat.neg_neg] at h2
    exact_mod_cast h2
  have h1 := (denseRank_le_iff SKey.le SKey.le_trans SKey.le_antisymm SKey.le_total D x y hx hy).1 (by omega)
  have h2 := (denseRank_le_iff SKey.le SKey.le_trans SKey.le_antisymm SKey.le_total D y x hy hx).1 (by omega)
  exact SKey.le_antisymm x y h1 h2

/-- `_reverse_num` on a numeric key column -/
def revNumField : SKey → SKey
  | .num q => .num (reverseNum q)
  | k => k

theorem fieldOK_descNum (p q : Rat) : FieldOK true revNumField (.num p) (.num q) := by
  refine ⟨?_, ?_⟩
  · intro h
    simp only [revNumField, reverseNum] at h
    injection h with h
    have : p = q := by
      rw [Rat.mul_neg, Rat.mul_one, Rat.mul_neg, Rat.mul_one] at h
      have h2 := congrArg (fun z : Rat => -z) h
      simpa only [Rat.neg_neg] using h2
    rw [this]
  · simp only [revNumField, SKey.le, if_true]
    rw [Bool.eq_iff_iff]
    simp only [decide_eq_true_eq]
    exact (reverseNum_antitone' q p).symm


/-- the rows of the transposed store are the columns of the row list (`list(zip(*rows))`) -/
theorem transposeCols_rows (dflt : α) (cols : List (List α)) (hw : WF cols) (hn : nrows cols ≠ 0) :
    rowsOf dflt (transposeCols dflt cols) = TableRows.transpose dflt cols.length (rowsOf dflt cols) := by
  have h := transposeCols_involutive dflt cols hw hn
  unfold transposeCols at h ⊢
  rw [h]
  unfold TableRows.transpose
  apply List.ext_getElem
  · simp
  · intro j h2 h3
    simp only [List.getElem_map, List.getElem_range]
    unfold rowsOf
    rw [List.map_map]
    have hc : cols[j].length = nrows cols := hw _ (List.getElem_mem h2)
    have key : ∀ i, ((fun r : List α => r.getD j dflt) ∘ rowAt dflt cols) i = cols[j].getD i dflt := by
      intro i
      simp [Function.comp, rowAt, List.getD_eq_getElem?_getD, h2]
    rw [List.map_congr_left (fun i _ => key i), ← hc]
    exact (map_getD_range_self dflt cols[j]).symm

end CogentModel.TableOps
