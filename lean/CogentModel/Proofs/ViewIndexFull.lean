import CogentModel.Proofs.SeqWrap
import CogentModel.Proofs.ViewInt
import CogentModel.Proofs.ViewStep
import CogentModel.Proofs.ViewRange
/-! Integer indexing at full strength: `view[i]` / `seq[i]` for EVERY python int `i` -- the 1-long result, its
parent coordinates, and `IndexError` (and nothing else) exactly when the plain string raises. -/
namespace CogentModel.View
open CogentModel

/-- `_get_index` raises nothing but `IndexError` -/
theorem getIndex_err_kind (v : View) (i : Int) (b : Bool) (e : Err) (h : getIndex v i b = .error e) :
    e = .indexError := by
  unfold getIndex at h
  simp only [] at h
  (repeat' split at h) <;> cases h <;> rfl

/-- the step `_get_index` hands to the constructor is `1` or `-1` -/
theorem getIndex_step (v : View) (i : Int) (b : Bool) (r : Int × Int × Int) (h : getIndex v i b = .ok r) :
    r.2.2 = 1 ∨ r.2.2 = -1 := by
  unfold getIndex at h
  simp only [] at h
  (repeat' split at h) <;> cases h <;> simp

/-- `view[i]` raises nothing but `IndexError` -/
theorem getitemInt_err_kind (v : View) (i : Int) (e : Err) (h : getitemInt v i = .error e) :
    e = .indexError := by
  unfold getitemInt at h
  cases hg : getIndex v i with
  | error e' =>
    simp [hg, bind, Except.bind] at h
    rw [← h]; exact getIndex_err_kind v i false e' hg
  | ok r =>
    obtain ⟨a, b, c⟩ := r
    have hc := getIndex_step v i false _ hg
    simp [hg, bind, Except.bind] at h
    unfold remk mk at h
    split at h
    · rename_i h0
      simp at h0 hc
      omega
    · cases h

/-- a view of step `±1` displaying exactly one parent position `x` reports the parent segment `[x, x+1)` -/
theorem single_coords (w : View) (hI : Inv w) (x : Int) (he : elems w = [x]) (hs : w.step = 1 ∨ w.step = -1) :
    len w = 1 ∧ parentStart w = .ok (w.offset + x) ∧ parentStop w = .ok (w.offset + x + 1) := by
  have hl : len w = 1 := by
    have h1 := elems_length w
    rw [he] at h1
    have := len_nonneg w
    simp at h1
    omega
  have hf : first w = x := by
    unfold elems at he
    rw [hl] at he
    simpa using he
  refine ⟨hl, ?_⟩
  obtain ⟨hN, hF | hR⟩ := hI
  · obtain ⟨hk, i0, i1, i2⟩ := hF
    have hs1 : w.step = 1 := by omega
    obtain ⟨_, k1, k2⟩ := len_fwd' w hk i1
    rw [hl, hs1] at k1 k2
    have hk' : ¬ w.step < 0 := by omega
    have hfx : w.start = x := by rw [← hf]; simp [first, hk]
    constructor
    · simp [parentStart, hk', hfx]
    · simp only [parentStop, hk', if_false]
      congr 1; omega
  · obtain ⟨hk, i0, i1, i2⟩ := hR
    have hs1 : w.step = -1 := by omega
    obtain ⟨_, k1, k2⟩ := len_rev' w hk i1
    rw [hl, hs1] at k1 k2
    have hk' : ¬ w.step > 0 := by omega
    have hfx : w.start + w.seqLen = x := by rw [← hf]; simp [first, hk']
    have a1 : w.stop < 0 := by omega
    have a2 : w.start < 0 := by omega
    constructor
    · simp only [parentStart, hk, if_true, a1]
      congr 1; omega
    · simp only [parentStop, hk, if_true, a2]
      congr 1; omega

/-- **Integer indexing at full strength.**  For a view satisfying the invariant and ANY python int `i`:
if the displayed positions `elems v` have an `i`-th element `x` (python indexing, negative from the end) then
`v[i]` succeeds with a view `w` that satisfies the invariant, displays exactly `[x]`, has length 1, keeps
`offset` / `seq_len`, has step `±1` with the orientation of `v`, and reports the parent segment
`[offset + x, offset + x + 1)`; `x` is a valid parent position.  Otherwise `v[i]` raises `IndexError`
(and nothing else). -/
theorem getitemInt_full (v : View) (h : Inv v) (i : Int) :
    (∀ x, PySlice.index (elems v) i = some x →
      ∃ w, getitemInt v i = .ok w ∧ Inv w ∧ elems w = [x] ∧ len w = 1 ∧
        w.offset = v.offset ∧ w.seqLen = v.seqLen ∧ w.step = (if v.step < 0 then -1 else 1) ∧
        parentStart w = .ok (v.offset + x) ∧ parentStop w = .ok (v.offset + x + 1) ∧
        0 ≤ x ∧ x < v.seqLen) ∧
    (PySlice.index (elems v) i = none → getitemInt v i = .error .indexError) := by
  obtain ⟨s1, s2⟩ := getitemInt_spec v h i
  cases hg : getitemInt v i with
  | error e =>
    have he := getitemInt_err_kind v i e hg
    subst he
    refine ⟨fun x hx => ?_, fun _ => rfl⟩
    rw [s2 _ hg] at hx; cases hx
  | ok w =>
    obtain ⟨x', hx', hw'⟩ := s1 w hg
    refine ⟨fun x hx => ?_, fun hn => ?_⟩
    · rw [hx'] at hx
      have hxx : x' = x := Option.some.inj hx
      subst hxx
      have hIw := getitemInt_inv v h i w hg
      -- offset / seq_len / step of the result
      have hmeta : w.offset = v.offset ∧ w.seqLen = v.seqLen ∧ (w.step = 1 ∨ w.step = -1) := by
        have hg' := hg
        unfold getitemInt at hg'
        cases hq : getIndex v i with
        | error e' => simp [hq, bind, Except.bind] at hg'
        | ok r =>
          obtain ⟨a, b, c⟩ := r
          have hc := getIndex_step v i false _ hq
          simp [hq, bind, Except.bind] at hg'
          obtain ⟨q1, q2⟩ := remk_seqLen v a b c w hg'
          refine ⟨q2, q1, ?_⟩
          rcases remk_step v w a b c hg' with e | e
          · simp at hc; rw [e]; exact hc
          · rw [elems_nil_of_len w e] at hw'; cases hw'
      obtain ⟨m1, m2, m3⟩ := hmeta
      obtain ⟨c1, c2, c3⟩ := single_coords w hIw x' hw' m3
      have hsgn : (w.step < 0 ↔ v.step < 0) := by
        rcases getitemInt_step v w h i hg with e | e
        · exact e
        · rw [elems_nil_of_len w e] at hw'; cases hw'
      have hstep : w.step = (if v.step < 0 then -1 else 1) := by
        split
        · rename_i hv; have := hsgn.2 hv; omega
        · rename_i hv; have : ¬ w.step < 0 := fun hh => hv (hsgn.1 hh); omega
      have hmem : x' ∈ elems w := by rw [hw']; simp
      have hr : 0 ≤ x' ∧ x' < w.seqLen := by
        have hs0 : w.step ≠ 0 := by rcases m3 with e | e <;> omega
        have hm := hmem
        rw [← realise_eq' w hIw] at hm
        exact sliceIdx_mem_range w.seqLen hIw.1 _ _ _ hs0 x' hm
      exact ⟨w, rfl, hIw, hw', c1, m1, m2, hstep, by rw [← m1]; exact c2, by rw [← m1]; exact c3, hr.1, by rw [← m2]; exact hr.2⟩
    · rw [hx'] at hn; cases hn

end CogentModel.View

namespace CogentModel.SeqWrap
open CogentModel CogentModel.View

/-- **`seq[i]` at full strength (string level).**  For a well-formed sequence wrapper and ANY python int `i`:
if the displayed string `str(seq)` has an `i`-th character `ch` (python indexing) then `seq[i]` succeeds with a
well-formed 1-long sequence over the SAME parent whose string is `[ch]`, and there is a parent position `x`
(valid index into the parent) such that the result reports the parent segment `[offset + x, offset + x + 1)`
with the orientation (strand) of `seq`, and `ch` is the parent's character at `x` -- complemented exactly when
`seq` is a reversed nucleic acid.  Otherwise `seq[i]` raises `IndexError` (and nothing else). -/
theorem str_getitemI_full (comp : Char → Char) (s : Seq) (i : Int) (h : WF s) :
    (∀ ch, PySlice.index (str comp s) i = some ch →
      ∃ s' x, getitemI s i = .ok s' ∧ WF s' ∧ str comp s' = [ch] ∧ length s' = 1 ∧
        s'.parent = s.parent ∧ s'.nucleic = s.nucleic ∧ (s'.v.step < 0 ↔ s.v.step < 0) ∧
        parentStart s'.v = .ok (s.v.offset + x) ∧ parentStop s'.v = .ok (s.v.offset + x + 1) ∧
        0 ≤ x ∧ x < s.parent.length ∧
        ch = (if s.v.step < 0 ∧ s.nucleic then comp (s.parent[x.toNat]!) else s.parent[x.toNat]!)) ∧
    (PySlice.index (str comp s) i = none → getitemI s i = .error .indexError) := by
  obtain ⟨f1, f2⟩ := getitemInt_full s.v h.1 i
  obtain ⟨g1, _⟩ := str_getitemI' comp s i h
  have hstr : PySlice.index (str comp s) i = (PySlice.index (elems s.v) i).map
      (fun x => if s.v.step < 0 ∧ s.nucleic then comp (s.parent[x.toNat]!) else s.parent[x.toNat]!) := by
    unfold str
    split
    · rw [value_eq_elems' s h, List.map_map, index_map]; rfl
    · rw [value_eq_elems' s h, index_map]
  constructor
  · intro ch hch
    rw [hstr] at hch
    cases hx : PySlice.index (elems s.v) i with
    | none => rw [hx] at hch; cases hch
    | some x =>
      rw [hx] at hch
      have hce := (Option.some.inj hch).symm
      obtain ⟨w, hg, hIw, hew, hlw, ho, hsl, hst, hps, hpe, x0, x1⟩ := f1 x hx
      have hgi : getitemI s i = .ok (wrap s w) := by unfold getitemI; rw [hg]
      obtain ⟨ch', hc1, hc2⟩ := g1 _ hgi
      have hcc : ch' = ch := by
        rw [hstr, hx] at hc1
        rw [hce]; exact (Option.some.inj hc1).symm
      have hwf := (wrap_spec s w h hIw (Or.inl hsl)).1
      refine ⟨wrap s w, x, hgi, hwf, by rw [hc2, hcc], hlw, ?_, rfl, ?_, hps, hpe, x0, ?_, hce⟩
      · show (if w.seqLen = s.v.seqLen then s.parent else []) = s.parent
        rw [if_pos hsl]
      · show w.step < 0 ↔ s.v.step < 0
        rw [hst]; split <;> omega
      · have := h.2; omega
  · intro hn
    rw [hstr] at hn
    have hx : PySlice.index (elems s.v) i = none := by
      cases hx : PySlice.index (elems s.v) i with
      | none => rfl
      | some x => rw [hx] at hn; cases hn
    unfold getitemI
    rw [f2 hx]

end CogentModel.SeqWrap
