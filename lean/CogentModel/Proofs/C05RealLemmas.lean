import Mathlib.Analysis.Normed.Algebra.MatrixExponential
import Mathlib.Topology.Algebra.InfiniteSum.Order
import Mathlib.Topology.Instances.Matrix
import Mathlib.Tactic.NormNum
/-! C05 helper lemmas over ℝ: the exponential of an entrywise non-negative matrix is entrywise non-negative. -/
namespace CogentModel.C05Real
open Matrix NormedSpace

variable {n : Type*} [Fintype n] [DecidableEq n]
attribute [local instance] Matrix.linftyOpNormedRing Matrix.linftyOpNormedAlgebra

theorem pow_entry_nonneg (A : Matrix n n ℝ) (hA : ∀ i j, 0 ≤ A i j) : ∀ (k : ℕ) (i j : n), 0 ≤ (A ^ k) i j := by
  intro k
  induction k with
  | zero => intro i j; rw [pow_zero, Matrix.one_apply]; split <;> norm_num
  | succ k ih =>
    intro i j
    rw [pow_succ, Matrix.mul_apply]
    exact Finset.sum_nonneg fun l _ => mul_nonneg (ih i l) (hA l j)

theorem exp_entry_nonneg (A : Matrix n n ℝ) (hA : ∀ i j, 0 ≤ A i j) (i j : n) : 0 ≤ (exp A) i j := by
  have hs : HasSum (fun k : ℕ => ((k.factorial : ℝ)⁻¹) • A ^ k) (exp A) := exp_series_hasSum_exp' (𝕂 := ℝ) A
  have hc : Continuous fun M : Matrix n n ℝ => M i j := continuous_id.matrix_elem i j
  have hs2 : HasSum (fun k : ℕ => (((k.factorial : ℝ)⁻¹) • A ^ k) i j) ((exp A) i j) :=
    hs.map (Matrix.entryAddMonoidHom ℝ i j) hc
  refine HasSum.nonneg (fun k => ?_) hs2
  rw [Matrix.smul_apply, smul_eq_mul]
  exact mul_nonneg (inv_nonneg.mpr (Nat.cast_nonneg _)) (pow_entry_nonneg A hA k i j)

end CogentModel.C05Real
