import CogentModel.Proofs.PhyloReroot
import CogentModel.Proofs.PhyloSorted
set_option linter.unusedSimpArgs false
/-! C09: induction over histories of re-rootings, sortings and copies. -/
namespace CogentModel.Phylo
open PTree
variable {K : Type}

theorem rerootGo_degree : ∀ (p : List Nat) (above : List (PTree K)) (t r : PTree K),
    rerootGo above t p = some r → (p ≠ [] ∨ above ≠ []) → 2 ≤ r.children.length
  | [], above, .node n l cs, r, h, hne => by
    simp only [rerootGo] at h
    split at h
    · cases h
    · rename_i hcs
      injection h with h; subst h
      have ha : above ≠ [] := by rcases hne with h0 | h0; exact absurd rfl h0; exact h0
      cases cs with
      | nil => simp at hcs
      | cons c cs =>
        cases above with
        | nil => exact absurd rfl ha
        | cons a as => simp; omega
  | i :: p, above, .node n l cs, r, h, _ => by
    simp only [rerootGo] at h
    cases hp : pick cs i with
    | none => simp [hp] at h
    | some v =>
      obtain ⟨pre, x, post⟩ := v
      simp only [hp] at h
      exact rerootGo_degree p _ x r h (Or.inr (by simp))

theorem rerootAt_degree (t r : PTree K) (p : List Nat) (h : rerootAt t p = some r)
    (hdeg : 2 ≤ t.children.length) : 2 ≤ r.children.length := by
  cases p with
  | nil =>
    cases t with
    | node n l cs =>
      simp only [rerootAt, rerootGo] at h
      split at h
      · cases h
      · injection h with h; subst h; simpa using hdeg
  | cons i p => exact rerootGo_degree (i :: p) [] t r h (Or.inl (by simp))

theorem sorted_degree (t : PTree K) (order : List String) :
    (sorted t order).children.length = t.children.length := by
  cases t with
  | node n l cs =>
    simp only [sorted, sortedGo_snd, children_node]
    exact (sortedL_ok _ cs).1

/-- one step of a history keeps the degree of the root, the tips and the split multiset -/
theorem applyOp_spec (t r : PTree K) (op : TOp) (h : applyOp t op = some r)
    (hdeg : 2 ≤ t.children.length) :
    2 ≤ r.children.length ∧ (tips r).Perm (tips t) ∧
      ((tips t).Nodup → SplitsEquiv (tips t) (splits t) (splits r)) := by
  cases op with
  | reroot p =>
    have hs := rerootAt_spec t r p h (Or.inr hdeg)
    exact ⟨rerootAt_degree t r p h hdeg, hs.1, hs.2⟩
  | sorted o =>
    simp only [applyOp, Option.some.injEq] at h; subst h
    have hs := sorted_ok t o
    exact ⟨by rw [sorted_degree]; exact hdeg, hs.2.2.1, fun _ => hs.2.2.2 _⟩
  | copy =>
    simp only [applyOp, Option.some.injEq] at h; subst h
    exact ⟨hdeg, .refl _, fun _ => SplitsEquiv.refl _ _⟩

theorem applyOps_spec : ∀ (ops : List TOp) (t r : PTree K), applyOps t ops = some r →
    2 ≤ t.children.length → (tips t).Nodup →
    (tips r).Perm (tips t) ∧ SplitsEquiv (tips t) (splits t) (splits r)
  | [], t, r, h, _, _ => by
    simp only [applyOps, Option.some.injEq] at h; subst h
    exact ⟨.refl _, SplitsEquiv.refl _ _⟩
  | op :: ops, t, r, h, hdeg, hnd => by
    simp only [applyOps] at h
    cases h1 : applyOp t op with
    | none => simp [h1] at h
    | some m =>
      simp only [h1] at h
      obtain ⟨hd, hp, hs⟩ := applyOp_spec t m op h1 hdeg
      have hnd' : (tips m).Nodup := (hp.nodup_iff).2 hnd
      obtain ⟨hp2, hs2⟩ := applyOps_spec ops m r h hd hnd'
      refine ⟨hp2.trans hp, .trans (hs hnd) ?_⟩
      exact SplitsEquiv.mono (fun x hx => (hp.mem_iff).2 hx) hs2

end CogentModel.Phylo
