import CogentModel.Model.Optimiser
import Mathlib.Order.Basic
/-! Helper lemmas for C16: the best-so-far invariant of the wrapper stack, preserved by
every query of every optimiser. -/
namespace CogentModel.Optimiser

variable {X Y : Type}

/-- the representation invariant of `limited_use`'s closure after a successful first evaluation -/
structure Inv [LinearOrder Y] (c : Cfg X Y) (s : St X Y) : Prop where
  best : ∃ xb, s.bestX = some xb ∧ c.f xb = .val s.bestF ∧ xb ∈ s.calls
  inb : ∀ x ∈ s.calls, c.inB x = true
  maxi : ∀ x ∈ s.calls, ∀ y, c.f x = .val y → y ≤ s.bestF
  cnt : s.evals = s.calls.length
  lim : ∀ k, c.maxEvals = some k → s.evals ≤ k

/-- `gt` really is `>` of the linear order -/
def GtOk [LinearOrder Y] (c : Cfg X Y) : Prop := ∀ a b, c.gt a b = decide (b < a)

theorem limitHit_false {m : Option Nat} {e : Nat} (h : limitHit m e = false) :
    ∀ k, m = some k → e + 1 ≤ k := by
  intro k hk
  subst hk
  simp [limitHit] at h
  omega


/-! ### unconditional invariant (any objective, any comparison, any start) -/

structure Inv0 (c : Cfg X Y) (s : St X Y) : Prop where
  bestMem : ∀ xb, s.bestX = some xb → xb ∈ s.calls
  inb : ∀ x ∈ s.calls, c.inB x = true
  cnt : s.evals = s.calls.length
  lim : ∀ k, c.maxEvals = some k → s.evals ≤ k

theorem inv0_init (c : Cfg X Y) : Inv0 c (init c) :=
  ⟨by intro xb h; simp [init] at h, by intro x h; simp [init] at h, rfl, by intro k _; simp [init]⟩

theorem inv0_boundedCall {c : Cfg X Y} {s : St X Y} (hs : Inv0 c s) (q : X) :
    Inv0 c (boundedCall c s q).1 := by
  obtain ⟨h1, h2, h3, h4⟩ := hs
  unfold boundedCall
  by_cases hb : c.inB q = true
  · rw [if_pos hb]
    unfold limitedCall
    by_cases hl : limitHit c.maxEvals s.evals = true
    · rw [if_pos hl]; exact ⟨h1, h2, h3, h4⟩
    · rw [if_neg hl]
      have hl' : limitHit c.maxEvals s.evals = false := by simpa using hl
      have hin : ∀ z ∈ q :: s.calls, c.inB z = true := by
        intro z hz
        rcases List.mem_cons.mp hz with rfl | hz
        · exact hb
        · exact h2 z hz
      have base : Inv0 c (counted s q) :=
        ⟨fun xb h => List.mem_cons_of_mem _ (h1 xb h), hin, by simp [counted, h3], limitHit_false hl'⟩
      cases hf : c.f q with
      | val y =>
        simp only [afterCall]
        unfold record
        split
        · refine ⟨?_, hin, by simp [counted, h3], limitHit_false hl'⟩
          intro xb h
          simp at h
          subst h
          exact List.mem_cons_self
        · exact base
      | oob => exact base
      | arith => exact base
      | fatal => exact base
      | nan => exact base
  · rw [if_neg hb]; exact ⟨h1, h2, h3, h4⟩

theorem inv0_runQueries {c : Cfg X Y} (qs : List X) : ∀ s, Inv0 c s → Inv0 c (runQueries c s qs).st := by
  induction qs with
  | nil => intro s hs; exact hs
  | cons q qs ih =>
    intro s hs
    have h1 := inv0_boundedCall hs q
    unfold runQueries
    split
    · exact h1
    · exact ih _ h1

section
variable [LinearOrder Y] {c : Cfg X Y}

theorem inv_counted_noval (hs : Inv c s) (hx : c.inB x = true)
    (hl : limitHit c.maxEvals s.evals = false) (hv : ∀ y, c.f x ≠ .val y) : Inv c (counted s x) := by
  obtain ⟨⟨xb, h1, h2, h3⟩, hi, hm, hc, _⟩ := hs
  refine ⟨⟨xb, h1, h2, List.mem_cons_of_mem _ h3⟩, ?_, ?_, ?_, ?_⟩
  · intro z hz
    rcases List.mem_cons.mp hz with rfl | hz
    · exact hx
    · exact hi z hz
  · intro z hz y hy
    rcases List.mem_cons.mp hz with rfl | hz
    · exact absurd hy (hv y)
    · exact hm z hz y hy
  · simp [counted, hc]
  · intro k hk
    exact limitHit_false hl k hk

theorem inv_record (hg : GtOk c) (hs : Inv c s) (hx : c.inB x = true)
    (hl : limitHit c.maxEvals s.evals = false) (hy : c.f x = .val y) :
    Inv c (record c (counted s x) x y) := by
  obtain ⟨⟨xb, h1, h2, h3⟩, hi, hm, hc, _⟩ := hs
  have hin : ∀ z ∈ x :: s.calls, c.inB z = true := by
    intro z hz
    rcases List.mem_cons.mp hz with rfl | hz
    · exact hx
    · exact hi z hz
  have hlim : ∀ k, c.maxEvals = some k → s.evals + 1 ≤ k := limitHit_false hl
  unfold record
  by_cases hgt : c.gt y (counted s x).bestF = true
  · rw [if_pos hgt]
    have hlt : s.bestF < y := by
      have := hg y s.bestF
      simp [counted] at hgt
      rw [this] at hgt
      exact of_decide_eq_true hgt
    refine ⟨⟨x, rfl, hy, List.mem_cons_self⟩, hin, ?_, ?_, hlim⟩
    · intro z hz y' hy'
      rcases List.mem_cons.mp hz with rfl | hz
      · rw [hy] at hy'
        cases hy'
        exact le_refl _
      · exact le_trans (hm z hz y' hy') (le_of_lt hlt)
    · simp [counted, hc]
  · rw [if_neg hgt]
    have hle : y ≤ s.bestF := by
      have := hg y s.bestF
      simp [counted] at hgt
      rw [this] at hgt
      exact not_lt.mp (by simpa using hgt)
    refine ⟨⟨xb, h1, h2, List.mem_cons_of_mem _ h3⟩, hin, ?_, ?_, hlim⟩
    · intro z hz y' hy'
      rcases List.mem_cons.mp hz with rfl | hz
      · rw [hy] at hy'
        cases hy'
        exact hle
      · exact hm z hz y' hy'
    · simp [counted, hc]

/-- one optimiser query preserves the invariant, never lowers the best value and only
appends to the call log -/
theorem inv_boundedCall (hg : GtOk c) (hs : Inv c s) (q : X) :
    Inv c (boundedCall c s q).1 ∧ s.bestF ≤ (boundedCall c s q).1.bestF ∧
    (∀ z ∈ s.calls, z ∈ (boundedCall c s q).1.calls) := by
  unfold boundedCall
  by_cases hb : c.inB q = true
  · rw [if_pos hb]
    unfold limitedCall
    by_cases hl : limitHit c.maxEvals s.evals = true
    · rw [if_pos hl]
      exact ⟨hs, le_refl _, fun z hz => hz⟩
    · rw [if_neg hl]
      have hl' : limitHit c.maxEvals s.evals = false := by simpa using hl
      cases hf : c.f q with
      | val y =>
        simp only [afterCall]
        refine ⟨inv_record hg hs hb hl' hf, ?_, ?_⟩
        · unfold record
          split
          · rename_i hgt
            have := hg y (counted s q).bestF
            rw [this] at hgt
            exact le_of_lt (of_decide_eq_true hgt)
          · exact le_refl _
        · intro z hz
          unfold record
          split <;> exact List.mem_cons_of_mem _ hz
      | oob => exact ⟨inv_counted_noval hs hb hl' (by simp [hf]), le_refl _, fun z hz => List.mem_cons_of_mem _ hz⟩
      | arith => exact ⟨inv_counted_noval hs hb hl' (by simp [hf]), le_refl _, fun z hz => List.mem_cons_of_mem _ hz⟩
      | fatal => exact ⟨inv_counted_noval hs hb hl' (by simp [hf]), le_refl _, fun z hz => List.mem_cons_of_mem _ hz⟩
      | nan => exact ⟨inv_counted_noval hs hb hl' (by simp [hf]), le_refl _, fun z hz => List.mem_cons_of_mem _ hz⟩
  · rw [if_neg hb]
    exact ⟨hs, le_refl _, fun z hz => hz⟩

/-- any optimiser whatsoever (any finite list of queries, stopped anywhere) preserves the invariant -/
theorem inv_runQueries (hg : GtOk c) (qs : List X) : ∀ s, Inv c s →
    Inv c (runQueries c s qs).st ∧ s.bestF ≤ (runQueries c s qs).st.bestF ∧
    (∀ z ∈ s.calls, z ∈ (runQueries c s qs).st.calls) := by
  induction qs with
  | nil => intro s hs; exact ⟨hs, le_refl _, fun z hz => hz⟩
  | cons q qs ih =>
    intro s hs
    obtain ⟨h1, h2, h3⟩ := inv_boundedCall hg hs q
    unfold runQueries
    split
    · exact ⟨h1, h2, h3⟩
    · obtain ⟨k1, k2, k3⟩ := ih _ h1
      exact ⟨k1, le_trans h2 k2, fun z hz => k3 z (h3 z hz)⟩

/-- the invariant holds after a successful, finite first evaluation -/
theorem inv_first (hg : GtOk c) {x0 : X} {y0 : Y} (h0 : c.f x0 = .val y0) (hb : c.inB x0 = true)
    (hbot : c.negInf < y0) (hmax : c.maxEvals ≠ some 0) :
    (boundedCall c (init c) x0).2 = .val y0 ∧ Inv c (boundedCall c (init c) x0).1 ∧
    (boundedCall c (init c) x0).1.bestF = y0 ∧ x0 ∈ (boundedCall c (init c) x0).1.calls := by
  have hl : limitHit c.maxEvals 0 = false := by
    unfold limitHit
    cases hm : c.maxEvals with
    | none => rfl
    | some k =>
      have : k ≠ 0 := fun h => hmax (by rw [hm, h])
      simp
      omega
  have hgt : c.gt y0 c.negInf = true := by rw [hg]; exact decide_eq_true hbot
  simp only [boundedCall, hb, if_true, limitedCall, hl, h0, afterCall, record, counted, init, hgt, Bool.false_eq_true, if_false]
  refine ⟨trivial, ⟨⟨x0, rfl, h0, List.mem_cons_self⟩, ?_, ?_, rfl, ?_⟩, trivial, List.mem_cons_self⟩
  · intro z hz
    simp at hz
    rw [hz]; exact hb
  · intro z hz y hy
    simp at hz
    subst hz
    rw [h0] at hy
    cases hy
    exact le_refl _
  · intro k hk
    have : k ≠ 0 := fun h => hmax (by rw [hk, h])
    simp
    omega

end

/-! ### the start clamp of `Calculator.optimise` -/
section
variable {R : Type} [LinearOrder R]

theorem clamp_pointwise (c : Coord R) (h : c.lo ≤ c.hi) :
    let c1 : Coord R := if decide (c.x < c.lo) then { c with x := c.lo } else c
    let c2 : Coord R := if decide (c1.hi < c1.x) then { c1 with x := c1.hi } else c1
    (!(decide (c2.x < c2.lo)) && !(decide (c2.hi < c2.x))) = true := by
  intro c1 c2
  by_cases h1 : c.x < c.lo
  · have e1 : c1 = { c with x := c.lo } := by simp [c1, h1]
    have hn : ¬ (c.hi < c.lo) := not_lt.mpr h
    have e2 : c2 = c1 := by simp [c2, e1, hn]
    rw [e2, e1]
    simp [h]
  · have e1 : c1 = c := by simp [c1, h1]
    by_cases h2 : c.hi < c.x
    · have e2 : c2 = { c with x := c.hi } := by simp [c2, e1, h2]
      rw [e2]
      simp [h]
    · have e2 : c2 = c := by simp [c2, e1, h2]
      rw [e2]
      simp [not_lt.mp h1, not_lt.mp h2]

theorem clampStart_inBounds (close : R → R → Bool) (v : List (Coord R))
    (hlohi : ∀ c ∈ v, c.lo ≤ c.hi)
    (hL : v.all (fun c => !(decide (c.x < c.lo)) || close c.x c.lo) = true)
    (hH : (clampLow (fun a b => decide (a < b)) close v).all
            (fun c => !(decide (c.hi < c.x)) || close c.x c.hi) = true) :
    inBounds (fun a b => decide (a < b)) (clampStart (fun a b => decide (a < b)) close v) = true := by
  unfold clampStart clampHigh
  rw [if_pos hH]
  unfold clampLow
  rw [if_pos hL]
  unfold inBounds
  rw [List.all_eq_true]
  intro c hc
  simp only [List.map_map, List.mem_map] at hc
  obtain ⟨c0, hc0, rfl⟩ := hc
  exact clamp_pointwise c0 (hlohi c0 hc0)

theorem clampStart_id (close : R → R → Bool) (v : List (Coord R))
    (h : inBounds (fun a b => decide (a < b)) v = true) :
    clampStart (fun a b => decide (a < b)) close v = v := by
  unfold inBounds at h
  rw [List.all_eq_true] at h
  have hmapL : v.map (fun c : Coord R => if decide (c.x < c.lo) then { c with x := c.lo } else c) = v := by
    conv => rhs; rw [← List.map_id v]
    apply List.map_congr_left
    intro c hc
    have := h c hc
    simp at this
    simp [not_lt.mpr this.1]
  have hmapH : v.map (fun c : Coord R => if decide (c.hi < c.x) then { c with x := c.hi } else c) = v := by
    conv => rhs; rw [← List.map_id v]
    apply List.map_congr_left
    intro c hc
    have := h c hc
    simp at this
    simp [not_lt.mpr this.2]
  have eL : clampLow (fun a b => decide (a < b)) close v = v := by
    unfold clampLow
    split
    · exact hmapL
    · rfl
  unfold clampStart
  rw [eL]
  unfold clampHigh
  split
  · exact hmapH
  · rfl
end

end CogentModel.Optimiser
