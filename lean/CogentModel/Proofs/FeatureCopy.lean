import CogentModel.Proofs.FeatureOnView
/-! C04: copy(sliced) keeps what every feature denotes; the new-style _mapped guard. -/
namespace CogentModel.FeatureView
open CogentModel.View CogentModel.FeatureSpec CogentModel.SeqWrap

theorem mk_full_fwd (L off : Int) (hL : 0 < L) :
    mk L none none (some 1) off = .ok { start := 0, stop := L, step := 1, offset := off, seqLen := L } := by
  have a1 : ¬ (L < 0) := by omega
  have a2 : min L L = L := by omega
  have a3 : ¬ (L ≤ 0) := by omega
  simp [mk, inputValsPos, pyabs, hL, a1, a2, a3]

theorem mk_full_rev (L off : Int) (hL : 0 < L) :
    mk L none none (some (-1)) off = .ok { start := -1, stop := -L - 1, step := -1, offset := off, seqLen := L } := by
  have a1 : ¬ ((-1 : Int) < -L - 1) := by omega
  simp [mk, inputValsNeg, inputValsNegTail, a1]

theorem copyView_spec (v : View) (h : UnitView v) (hl : 0 < len v) :
    ∃ w, copyView v = .ok w ∧ UnitView w ∧ segStart w = segStart v ∧ len w = len v ∧ w.step = v.step := by
  have hlen := len_unit v h
  obtain ⟨⟨hn, hinv⟩, hs⟩ := h
  unfold copyView parentStart richDictBounds
  rcases hs with hs | hs
  · rw [hs] at hinv hlen
    simp at hinv hlen
    have e0 : ¬ ((1 : Int) < 0) := by omega
    simp only [hs, e0, if_false]
    have hL : 0 < v.stop - v.start := by omega
    refine ⟨_, mk_full_fwd _ _ hL, ?_, ?_, ?_, rfl⟩
    · refine ⟨⟨by simp only []; omega, Or.inl ⟨by simp, by simp, by simp only []; omega, by simp⟩⟩, Or.inl rfl⟩
    · unfold segStart; simp [hs]
    · rw [hlen]; unfold len pyabs; simp only []; rw [fdiv_one']; split <;> omega
  · rw [hs] at hinv hlen
    simp at hinv hlen
    have e0 : ((-1 : Int) < 0) := by omega
    have hstop : v.stop < 0 := by omega
    simp only [hs, e0, if_true, hstop]
    have hL : 0 < v.start + (v.seqLen + 1) - (v.stop + (v.seqLen + 1)) := by omega
    refine ⟨_, mk_full_rev _ _ hL, ?_, ?_, ?_, rfl⟩
    · refine ⟨⟨by simp only []; omega, Or.inr ⟨by simp, by simp only []; omega, by simp only []; omega, by simp⟩⟩, Or.inr rfl⟩
    · unfold segStart; simp [hs]; omega
    · rw [hlen]; unfold len pyabs; simp only []; rw [fdiv_neg_one]; split <;> omega

/-- a feature denotes the same positions on the copy -/
theorem copy_positions (v : View) (h : UnitView v) (hl : 0 < len v) (minus : Bool) (spans : List (Int × Int))
    (hsp : ∀ sp ∈ spans, 0 ≤ sp.1 ∧ sp.1 < sp.2) (hsorted : spans.Pairwise (fun a b => a.1 ≤ b.1)) :
    ∃ w f f', copyView v = .ok w ∧ featureOnView v minus spans = .ok f ∧ featureOnView w minus spans = .ok f' ∧
      slicePositions w f' = slicePositions v f := by
  obtain ⟨w, hw, hu, hseg, hlw, _⟩ := copyView_spec v h hl
  obtain ⟨f, hf, hp⟩ := featureOnView_spec v h hl minus spans hsp hsorted
  obtain ⟨f', hf', hp'⟩ := featureOnView_spec w hu (by omega) minus spans hsp hsorted
  exact ⟨w, f, f', hw, hf, hf', by rw [hp, hp', hseg, hlw]⟩

theorem realOf_eq (m : List MSpan) : realOf m = realSpans m := rfl

theorem getSliceNew_err (comp : Char → Char) (s : Seq) (f : Feat) (a b : Int)
    (h1 : realOf f.spans = [(a, b)]) (h2 : a ≠ 0) (h3 : s.v.offset ≠ 0) :
    getSliceNew comp s f = .error .valueError := by
  unfold getSliceNew; rw [h1]; simp [h2, h3]

theorem getSliceNew_ok (comp : Char → Char) (s : Seq) (f : Feat)
    (h : ¬ ∃ a b, realOf f.spans = [(a, b)] ∧ a ≠ 0 ∧ s.v.offset ≠ 0) :
    getSliceNew comp s f = .ok (getSlice comp s f) := by
  unfold getSliceNew
  split
  · rename_i a b heq
    have : ¬ (a ≠ 0 ∧ s.v.offset ≠ 0) := fun hc => h ⟨a, b, heq, hc.1, hc.2⟩
    simp only [this, if_false]
  · rfl

/-- the new-style `_mapped` guard fires exactly for one real span that does not start at view index 0 on a
view carrying an offset; in every other case the residues are those of `getSlice` -/
theorem getSliceNew_spec (comp : Char → Char) (s : Seq) (f : Feat) :
    (getSliceNew comp s f = .error .valueError ↔
      ∃ a b, realOf f.spans = [(a, b)] ∧ a ≠ 0 ∧ s.v.offset ≠ 0) ∧
    ((¬ ∃ a b, realOf f.spans = [(a, b)] ∧ a ≠ 0 ∧ s.v.offset ≠ 0) →
      getSliceNew comp s f = .ok (getSlice comp s f)) := by
  refine ⟨⟨?_, ?_⟩, getSliceNew_ok comp s f⟩
  · intro he
    by_cases h : ∃ a b, realOf f.spans = [(a, b)] ∧ a ≠ 0 ∧ s.v.offset ≠ 0
    · exact h
    · rw [getSliceNew_ok comp s f h] at he; cases he
  · rintro ⟨a, b, h1, h2, h3⟩
    exact getSliceNew_err comp s f a b h1 h2 h3
end CogentModel.FeatureView
