/-
  C18 helper lemmas for Hirschberg, part 1: cutting a path score into prefix + tail (needs associativity and
  commutativity of `+`, which the Viterbi theorems did not), and the scores of the derived HMMs
  (`pinEnd`, `startFrom`, `revHMM`).
-/
import CogentModel.Model.Hirschberg
import CogentModel.Proofs.PairHMMLocal
namespace CogentModel.PairHMM
set_option linter.unusedSectionVars false
set_option linter.unusedVariables false

/-- `ScoreLaws` + `+` associative and commutative (the divide-and-conquer adds two half scores) -/
class ScoreLawsAC (S : Type) [Add S] [LT S] : Prop extends ScoreLaws S where
  add_assoc : ∀ a b c : S, a + b + c = a + (b + c)
  add_comm : ∀ a b : S, a + b = b + a

instance : ScoreLawsAC Int where
  add_assoc := Int.add_assoc
  add_comm := Int.add_comm

instance : ScoreLawsAC Rat where
  add_assoc := Rat.add_assoc
  add_comm := Rat.add_comm

variable {S : Type} [Add S] [LT S] [DecidableLT S] [ScoreLawsAC S]

theorem eadd_assoc (a b c : Option S) : eadd (eadd a b) c = eadd a (eadd b c) := by
  cases a <;> cases b <;> cases c <;> simp [eadd, ScoreLawsAC.add_assoc]

theorem eadd_comm (a b : Option S) : eadd a b = eadd b a := by
  cases a <;> cases b <;> simp [eadd, ScoreLawsAC.add_comm]

theorem eadd_mono_right {a b : Option S} (c : Option S) (h : ele a b) : ele (eadd c a) (eadd c b) := by
  rw [eadd_comm c a, eadd_comm c b]; exact eadd_mono c h

theorem eadd_mono2 {a b c d : Option S} (h1 : ele a b) (h2 : ele c d) : ele (eadd a c) (eadd b d) :=
  ele_trans (eadd_mono c h1) (eadd_mono_right b h2)

theorem ele_some_left {x : S} {b : Option S} (h : ele (some x) b) : ∃ y, b = some y := by
  cases b with
  | none => simp [ele, egt] at h
  | some y => exact ⟨y, rfl⟩

/-! ### tail score (right nested) -/

/-- score of continuing with the states `q` after state `a`, standing at `(i, j)`, incl. the END transition -/
def tailScore (h : HMM S) : Nat → Nat → Nat → List Nat → Option S
  | a, _, _, [] => h.T a h.endId
  | a, i, j, s :: q =>
    eadd (h.T a s) (eadd (h.em s (i + (h.dir s).1.toNat) (j + (h.dir s).2.toNat))
      (tailScore h s (i + (h.dir s).1.toNat) (j + (h.dir s).2.toNat) q))

theorem scoreFrom_tail (h : HMM S) (q : List Nat) : ∀ (prev i j : Nat) (acc : Option S),
    eadd (scoreFrom h prev i j acc q) (h.T (lastState (prev :: q)) h.endId) = eadd acc (tailScore h prev i j q) := by
  induction q with
  | nil => intro prev i j acc; rfl
  | cons s q ih =>
    intro prev i j acc
    simp only [scoreFrom, tailScore, lastState_cons_cons]
    rw [ih, eadd_assoc, eadd_assoc]

theorem scoreFrom_append_list (h : HMM S) (p q : List Nat) : ∀ (prev i j : Nat) (acc : Option S),
    scoreFrom h prev i j acc (p ++ q) =
      scoreFrom h (lastState (prev :: p)) (consumedFrom h i j p).1 (consumedFrom h i j p).2 (scoreFrom h prev i j acc p) q := by
  induction p with
  | nil => intro prev i j acc; rfl
  | cons s p ih =>
    intro prev i j acc
    simp only [List.cons_append, scoreFrom, consumedFrom, lastState_cons_cons]
    exact ih _ _ _ _

theorem lastState_append_cons (p : List Nat) (s : Nat) (q : List Nat) :
    lastState (p ++ s :: q) = lastState (s :: q) := by
  induction p with
  | nil => rfl
  | cons a p ih =>
    cases p with
    | nil => rfl
    | cons b p => simpa [lastState] using ih

/-- **cutting a global path**: score = prefix score + tail score from the cut -/
theorem globalScore_cut (h : HMM S) (a : Nat) (p q : List Nat) :
    globalScore h ((a :: p) ++ q) =
      eadd (prefixScore h 0 0 (a :: p))
        (tailScore h (lastState (a :: p)) (consumedFrom h 0 0 (a :: p)).1 (consumedFrom h 0 0 (a :: p)).2 q) := by
  have hl : lastState ((a :: p) ++ q) = lastState (lastState (a :: p) :: q) := by
    cases q with
    | nil => simp [lastState]
    | cons s q => rw [lastState_append_cons, lastState_cons_cons]
  simp only [List.cons_append, globalScore, prefixScore, consumedFrom]
  rw [scoreFrom_append_list]
  have := scoreFrom_tail h q (lastState (a :: p))
    (consumedFrom h (0 + (h.dir a).1.toNat) (0 + (h.dir a).2.toNat) p).1
    (consumedFrom h (0 + (h.dir a).1.toNat) (0 + (h.dir a).2.toNat) p).2
    (scoreFrom h a (0 + (h.dir a).1.toNat) (0 + (h.dir a).2.toNat)
      (eadd (h.T 0 a) (h.em a (0 + (h.dir a).1.toNat) (0 + (h.dir a).2.toNat))) p)
  rw [← this]
  congr 1
  rw [show a :: (p ++ q) = a :: p ++ q from rfl, hl]

end CogentModel.PairHMM
