/-
  C13 — helper lemmas for Props/C13Gen.lean: python list indexing (`xs[-1]`, `xs[0]`), `Path.suffix` emptiness, the suffix list of
  get_format_suffixes in both spellings, `any (· == id)` = `contains`.
-/
import CogentModel.Gen.C13Fmt
namespace CogentModel.C13
open CogentModel CogentModel.KV
open CogentModel.DataStore (splitExt pathSuffixes pathSuffixDot pathSuffixesDot reSubLeadDot lower pyLastN pyIdx)

/-- python `xs[-1]` -/
theorem pyIdx_last {α} (xs : List α) : pyIdx xs (-1) = xs.getLast? := by
  unfold pyIdx
  cases h : xs.getLast? with
  | none => simp [List.getLast?_eq_none_iff] at h; subst h; simp
  | some a =>
    obtain ⟨l, rfl⟩ := List.getLast?_eq_some_iff.mp h
    simp

theorem pyIdx_zero {α} (xs : List α) : pyIdx xs 0 = xs.head? := by
  unfold pyIdx; cases xs <;> simp

theorem pathSuffixDot_isEmpty (n : Str) : (pathSuffixDot n).isEmpty = (splitExt n).isNone := by
  unfold pathSuffixDot; cases splitExt n <;> simp

/-- the two suffix lists agree: last two dotted suffixes, dot removed, lower-cased -/
theorem fmt_suffixes_eq (n : Str) :
    (pyLastN 2 (pathSuffixesDot n)).map (fun sfx => lower (reSubLeadDot ([] : Str) sfx))
      = ((pathSuffixes n).map (fun s => s.map Char.toLower)).drop (((pathSuffixes n).map (fun s => s.map Char.toLower)).length - 2) := by
  simp [pyLastN, pathSuffixesDot, lower, List.map_drop, reSubLeadDot, Function.comp_def]

theorem any_beq_eq_contains (l : List Str) (id : Str) : l.any (fun m => m == id) = l.contains id := by
  induction l with
  | nil => rfl
  | cons a t ih =>
    simp only [List.any_cons, List.contains_cons, ih]
    have : (a == id) = (id == a) := by
      by_cases h : a = id
      · subst h; rfl
      · have h' : ¬ id = a := fun e => h e.symm
        rw [beq_eq_false_iff_ne.mpr h, beq_eq_false_iff_ne.mpr h']
    rw [this]

end CogentModel.C13
