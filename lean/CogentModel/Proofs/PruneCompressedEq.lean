import Mathlib.Data.List.Basic
import Mathlib.Data.List.GetD
import CogentModel.Model.PruneCompressed
import CogentModel.Proofs.Prune
/-!
Helper lemmas for C02, part 5: the hierarchically compressed evaluation (unique columns per node,
products through index arrays) computes, for every alignment column, the plain per-column pruning.
-/
namespace CogentModel.Prune

section indexed
variable {κ : Type} [DecidableEq κ]

/-- loop invariant of `_indexed`: every processed value is found again through `index` -/
def LookupInv (st : Indexed κ) (done : List κ) : Prop :=
  st.index.length = done.length ∧
  ∀ j (h : j < done.length), st.uniq[st.index.getD j 0]? = some done[j]

theorem indexedStep_lookupInv (st : Indexed κ) (done : List κ) (key : κ) (h : LookupInv st done) :
    LookupInv (indexedStep st key) (done ++ [key]) := by
  obtain ⟨hl, hm⟩ := h
  unfold indexedStep
  by_cases hi : st.uniq.idxOf key < st.uniq.length
  · simp only [hi, if_true]
    refine ⟨by simp [hl], fun j hj => ?_⟩
    by_cases hjd : j < done.length
    · have := hm j hjd
      rw [List.getD_append _ _ _ _ (by omega), List.getElem_append_left hjd]
      exact this
    · have hje : j = done.length := by simp at hj; omega
      subst hje
      rw [List.getD_append_right _ _ _ _ (by omega)]
      simp [hl, List.getElem_idxOf hi, hi]
  · simp only [hi, if_false]
    refine ⟨by simp [hl], fun j hj => ?_⟩
    by_cases hjd : j < done.length
    · have := hm j hjd
      rw [List.getD_append _ _ _ _ (by omega), List.getElem_append_left hjd]
      have hlt : st.index.getD j 0 < st.uniq.length := by
        by_contra hge
        rw [List.getElem?_eq_none (by omega)] at this
        cases this
      rw [List.getElem?_append_left hlt]
      exact this
    · have hje : j = done.length := by simp at hj; omega
      subst hje
      rw [List.getD_append_right _ _ _ _ (by omega)]
      simp [hl]

theorem indexedGo_lookupInv : ∀ (vals : List κ) (st : Indexed κ) (done : List κ),
    LookupInv st done → LookupInv (indexedGo vals st) (done ++ vals)
  | [], st, done, h => by simpa [indexedGo] using h
  | key :: rest, st, done, h => by
    have := indexedGo_lookupInv rest _ _ (indexedStep_lookupInv st done key h)
    simpa [indexedGo] using this

theorem indexed_lookup (values : List κ) :
    (indexed values).index.length = values.length ∧
    ∀ j (h : j < values.length), (indexed values).uniq[(indexed values).index.getD j 0]? = some values[j] := by
  have h := indexedGo_lookupInv values { uniq := [], counts := [], index := [] } [] ⟨rfl, fun j h => by simp at h⟩
  simpa [indexed, LookupInv] using h

end indexed

section semiring
variable {R : Type} [CommSemiring R] {α : Type}

/-- the profile of alignment column `j` -/
def colProf (seqs : α → List Nat) (symProf : Nat → Nat → R) (j : Nat) : α → Nat → R :=
  fun a => symProf ((seqs a).getD j 0)

omit [CommSemiring R] in
theorem childTuples_get (n : Nat) (kids : List (CNode R)) (j : Nat) (hj : j < n) :
    ∃ h : j < (childTuples n kids).length, (childTuples n kids)[j] = kids.map fun k => k.index.getD j 0 := by
  refine ⟨by simp [childTuples, hj], ?_⟩
  simp [childTuples]

mutual
theorem cplh_eq (m n : Nat) (seqs : α → List Nat) (symProf : Nat → Nat → R) (j : Nat) (hj : j < n) :
    ∀ (t : PTree R α), (∀ a ∈ t.leaves, (seqs a).length = n) →
      (cplh m n seqs symProf t).table[(cplh m n seqs symProf t).index.getD j 0]?
        = some (plh m (colProf seqs symProf j) t)
  | .leaf P a, hl => by
    have hlen : (seqs a).length = n := hl a (by simp [PTree.leaves])
    obtain ⟨_, hlook⟩ := indexed_lookup (seqs a)
    have := hlook j (by omega)
    simp only [cplh, List.getElem?_map, this, Option.map_some, plh, colProf]
    congr 2
    rw [List.getD_eq_getElem (hn := by omega)]
  | .node P cs, hl => by
    have hl' : ∀ a ∈ PTree.leavesL cs, (seqs a).length = n := by simpa [PTree.leaves] using hl
    obtain ⟨hj', hget⟩ := childTuples_get n ((cplhL m n seqs symProf cs).map (·.2)) j hj
    obtain ⟨_, hlook⟩ := indexed_lookup (childTuples n ((cplhL m n seqs symProf cs).map (·.2)))
    have := hlook j hj'
    simp only [cplh, List.getElem?_map, this, Option.map_some, plh_node, hget]
    congr 1
    have := prodRow_eq m n seqs symProf j hj cs hl'
    simpa [List.map_map, Function.comp_def] using this
theorem prodRow_eq (m n : Nat) (seqs : α → List Nat) (symProf : Nat → Nat → R) (j : Nat) (hj : j < n) :
    ∀ (cs : List (PTree R α)), (∀ a ∈ PTree.leavesL cs, (seqs a).length = n) →
      prodRow m ((cplhL m n seqs symProf cs).map fun k => k.2.table.map (upWith m k.1))
          ((cplhL m n seqs symProf cs).map fun k => k.2.index.getD j 0)
        = prodUp m (colProf seqs symProf j) cs
  | [], _ => by simp [cplhL, prodRow, prodUp]
  | c :: cs, hl => by
    have h1 : ∀ a ∈ c.leaves, (seqs a).length = n := fun a ha => hl a (by simp [PTree.leavesL, ha])
    have h2 : ∀ a ∈ PTree.leavesL cs, (seqs a).length = n := fun a ha => hl a (by simp [PTree.leavesL, ha])
    simp only [cplhL, List.map_cons, prodRow, prodUp, List.getElem?_map,
      cplh_eq m n seqs symProf j hj c h1, Option.map_some, Option.getD_some,
      prodRow_eq m n seqs symProf j hj cs h2]
end

theorem cplh_index_length (m n : Nat) (seqs : α → List Nat) (symProf : Nat → Nat → R) (t : PTree R α)
    (hl : ∀ a ∈ t.leaves, (seqs a).length = n) : (cplh m n seqs symProf t).index.length = n := by
  cases t with
  | leaf P a => simp [cplh, (indexed_lookup (seqs a)).1, hl a (by simp [PTree.leaves])]
  | node P cs => simp [cplh, (indexed_lookup _).1, childTuples]

theorem clhFull_eq (m n : Nat) (π : Nat → R) (seqs : α → List Nat) (symProf : Nat → Nat → R) (t : PTree R α)
    (hl : ∀ a ∈ t.leaves, (seqs a).length = n) :
    clhFull m n π seqs symProf t = (List.range n).map fun j => lh m π (colProf seqs symProf j) t := by
  have hlen := cplh_index_length m n seqs symProf t hl
  apply List.ext_getElem
  · simp [clhFull, hlen]
  · intro j h1 h2
    have hj : j < n := by simpa using h2
    have := cplh_eq m n seqs symProf j hj t hl
    simp only [clhFull, List.getElem_map, List.getElem_range, lh]
    rw [List.getD_eq_getElem?_getD, List.getElem?_map]
    rw [List.getD_eq_getElem (hn := by omega)] at this
    rw [this]
    rfl

end semiring
end CogentModel.Prune
