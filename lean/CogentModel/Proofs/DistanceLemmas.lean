import CogentModel.Model.Distance
import Mathlib.Tactic.Ring
import Mathlib.Tactic.Linarith
import Mathlib.Algebra.Order.Field.Rat
/-! Helper lemmas for C15, estimators. -/
namespace CogentModel.Distance

/-! ### the count matrix -/

theorem fillStep_apply (m : Int → Int → Nat) (c : Col) (x y : Int) :
    fillStep m c x y = m x y + (if 0 ≤ c.1 ∧ 0 ≤ c.2 ∧ c.1 = x ∧ c.2 = y then 1 else 0) := by
  unfold fillStep bump
  by_cases h : c.1 < 0 ∨ c.2 < 0
  · rw [if_pos h, if_neg (by omega)]; rfl
  · rw [if_neg h]
    by_cases h2 : x = c.1 ∧ y = c.2
    · rw [if_pos h2, if_pos (by omega)]
    · rw [if_neg h2, if_neg (by omega)]; rfl

theorem foldl_fillStep (cols : List Col) (m : Int → Int → Nat) (x y : Int) :
    cols.foldl fillStep m x y = m x y + cnt cols x y := by
  induction cols generalizing m with
  | nil => simp [cnt]
  | cons c cs ih =>
    rw [List.foldl_cons, ih, fillStep_apply]
    unfold cnt
    rw [List.countP_cons]
    by_cases h : (0 ≤ c.1 ∧ 0 ≤ c.2 ∧ c.1 = x ∧ c.2 = y) <;> simp [h]; omega

/-- the loop of `fill_diversity_matrix` computes the table of column counts -/
theorem fill_eq_cnt (cols : List Col) (x y : Int) : fill cols x y = cnt cols x y := by
  unfold fill; rw [foldl_fillStep]; simp

theorem cnt_swap (cols : List Col) (x y : Int) :
    cnt (cols.map Prod.swap) x y = cnt cols y x := by
  unfold cnt
  rw [List.countP_map]
  congr 1
  funext c
  simp only [Function.comp_apply, Prod.fst_swap, Prod.snd_swap]
  exact decide_eq_decide.mpr (by constructor <;> (intro h; omega))

theorem memo_apply (m : M4) (i j : Nat) (hi : i < 4) (hj : j < 4) : memo m i j = m i j := by
  have : i = 0 ∨ i = 1 ∨ i = 2 ∨ i = 3 := by omega
  have : j = 0 ∨ j = 1 ∨ j = 2 ∨ j = 3 := by omega
  rcases ‹i = 0 ∨ _› with rfl | rfl | rfl | rfl <;> rcases ‹j = 0 ∨ _› with rfl | rfl | rfl | rfl <;> rfl

/-! ### transposition -/

theorem total_tr (m : M4) : total (tr m) = total m := by
  unfold total rowSum tr; ring

theorem diagSum_tr (m : M4) : diagSum (tr m) = diagSum m := rfl

theorem rowSum_tr (m : M4) (i : Nat) : rowSum (tr m) i = colSum m i := rfl
theorem colSum_tr (m : M4) (i : Nat) : colSum (tr m) i = rowSum m i := rfl

theorem tnFreq_tr (m : M4) (i : Nat) : tnFreq (tr m) i = tnFreq m i := by
  unfold tnFreq; rw [rowSum_tr, colSum_tr, total_tr, add_comm]

theorem purTs_tr (m : M4) : purTs (tr m) = purTs m := by unfold purTs tr; ring
theorem pyrTs_tr (m : M4) : pyrTs (tr m) = pyrTs m := by unfold pyrTs tr; ring
theorem tvSum_tr (m : M4) : tvSum (tr m) = tvSum m := by unfold tvSum tr; ring

theorem det4_tr (m : M4) : det4 (tr m) = det4 m := by
  unfold det4 det3 tr; ring

theorem halfDiag_tr (m : M4) : halfDiag (tr m) = tr (halfDiag m) := by
  funext i j
  unfold halfDiag tr
  by_cases h : i = j
  · subst h; rfl
  · have h' : ¬ j = i := fun e => h e.symm
    simp [h, h']

theorem freqMatrix_tr (m : M4) : freqMatrix (tr m) = tr (freqMatrix m) := by
  funext i j
  unfold freqMatrix
  rw [halfDiag_tr, total_tr]
  rfl

theorem freqProd_tr (f : M4) : freqProd (tr f) = freqProd f := by
  unfold freqProd; simp only [rowSum_tr, colSum_tr]; ring

theorem freqSqSum_tr (f : M4) : freqSqSum (tr f) = freqSqSum f := by
  unfold freqSqSum; simp only [rowSum_tr, colSum_tr]; ring

theorem hammingStat_tr (m : M4) : hammingStat (tr m) = hammingStat m := by
  unfold hammingStat; rw [total_tr, diagSum_tr]

theorem jc69Stat_tr (m : M4) : jc69Stat (tr m) = jc69Stat m := by
  unfold jc69Stat; rw [total_tr, diagSum_tr]

theorem tn93Stat_tr (m : M4) : tn93Stat (tr m) = tn93Stat m := by
  unfold tn93Stat; simp only [total_tr, tnFreq_tr, purTs_tr, pyrTs_tr, tvSum_tr]

theorem logdetCommon_tr (m : M4) (k : Rat → Rat → M4 → Stat)
    (hk : ∀ t p f, k t p (tr f) = k t p f) : logdetCommon (tr m) k = logdetCommon m k := by
  unfold logdetCommon; simp only [total_tr, diagSum_tr, freqMatrix_tr, det4_tr, hk]

theorem paralinearStat_tr (m : M4) : paralinearStat (tr m) = paralinearStat m := by
  unfold paralinearStat
  apply logdetCommon_tr
  intro t p f; rw [det4_tr, freqProd_tr]

theorem logdetStat_tr (b : Bool) (m : M4) : logdetStat b (tr m) = logdetStat b m := by
  unfold logdetStat
  apply logdetCommon_tr
  intro t p f; rw [det4_tr, freqProd_tr, freqSqSum_tr]

theorem hasOffDiag_tr (m : M4) : hasOffDiag (tr m) = hasOffDiag m := by
  unfold hasOffDiag tr
  cases decide (0 < m 0 1) <;> cases decide (0 < m 0 2) <;> cases decide (0 < m 0 3) <;>
  cases decide (0 < m 1 0) <;> cases decide (0 < m 1 2) <;> cases decide (0 < m 1 3) <;>
  cases decide (0 < m 2 0) <;> cases decide (0 < m 2 1) <;> cases decide (0 < m 2 3) <;>
  cases decide (0 < m 3 0) <;> cases decide (0 < m 3 1) <;> cases decide (0 < m 3 2) <;> rfl

/-! ### identical sequences -/

/-- a count matrix without off-diagonal entries -/
def Diagonal (m : M4) : Prop :=
  m 0 1 = 0 ∧ m 0 2 = 0 ∧ m 0 3 = 0 ∧ m 1 0 = 0 ∧ m 1 2 = 0 ∧ m 1 3 = 0 ∧
  m 2 0 = 0 ∧ m 2 1 = 0 ∧ m 2 3 = 0 ∧ m 3 0 = 0 ∧ m 3 1 = 0 ∧ m 3 2 = 0

theorem hasOffDiag_of_diagonal (m : M4) (h : Diagonal m) : hasOffDiag m = false := by
  obtain ⟨h1, h2, h3, h4, h5, h6, h7, h8, h9, h10, h11, h12⟩ := h
  simp [hasOffDiag, h1, h2, h3, h4, h5, h6, h7, h8, h9, h10, h11, h12]

theorem diag_total (m : M4) (h : Diagonal m) : total m = diagSum m := by
  obtain ⟨h1, h2, h3, h4, h5, h6, h7, h8, h9, h10, h11, h12⟩ := h
  simp [total, rowSum, diagSum, h1, h2, h3, h4, h5, h6, h7, h8, h9, h10, h11, h12]

theorem cnt_eq_zero_of_same (cols : List Col) (hs : ∀ c ∈ cols, c.1 = c.2 ∨ c.1 < 0 ∨ c.2 < 0)
    (x y : Int) (hxy : x ≠ y) : cnt cols x y = 0 := by
  unfold cnt
  rw [List.countP_eq_zero]
  intro c hc
  have := hs c hc
  simp only [decide_eq_true_eq]
  omega

theorem zip_self_same (s : List Int) : ∀ c ∈ s.zip s, c.1 = c.2 ∨ c.1 < 0 ∨ c.2 < 0 := by
  induction s with
  | nil => simp
  | cons a s ih =>
    intro c hc
    rw [List.zip_cons_cons, List.mem_cons] at hc
    rcases hc with rfl | hc
    · exact Or.inl rfl
    · exact ih c hc

theorem ofCounts_offdiag (cols : List Col) (hs : ∀ c ∈ cols, c.1 = c.2 ∨ c.1 < 0 ∨ c.2 < 0)
    (i j : Nat) (hij : i ≠ j) : ofCounts (fill cols) i j = 0 := by
  unfold ofCounts
  rw [fill_eq_cnt, cnt_eq_zero_of_same cols hs _ _ (by omega)]
  rfl

theorem countsOf_diagonal (cols : List Col) (hs : ∀ c ∈ cols, c.1 = c.2 ∨ c.1 < 0 ∨ c.2 < 0) :
    Diagonal (memo (ofCounts (fill cols))) := by
  unfold Diagonal
  simp only [memo_apply _ _ _ (by omega : (0:Nat) < 4) (by omega : (1:Nat) < 4),
    memo_apply _ _ _ (by omega : (0:Nat) < 4) (by omega : (2:Nat) < 4),
    memo_apply _ _ _ (by omega : (0:Nat) < 4) (by omega : (3:Nat) < 4),
    memo_apply _ _ _ (by omega : (1:Nat) < 4) (by omega : (0:Nat) < 4),
    memo_apply _ _ _ (by omega : (1:Nat) < 4) (by omega : (2:Nat) < 4),
    memo_apply _ _ _ (by omega : (1:Nat) < 4) (by omega : (3:Nat) < 4),
    memo_apply _ _ _ (by omega : (2:Nat) < 4) (by omega : (0:Nat) < 4),
    memo_apply _ _ _ (by omega : (2:Nat) < 4) (by omega : (1:Nat) < 4),
    memo_apply _ _ _ (by omega : (2:Nat) < 4) (by omega : (3:Nat) < 4),
    memo_apply _ _ _ (by omega : (3:Nat) < 4) (by omega : (0:Nat) < 4),
    memo_apply _ _ _ (by omega : (3:Nat) < 4) (by omega : (1:Nat) < 4),
    memo_apply _ _ _ (by omega : (3:Nat) < 4) (by omega : (2:Nat) < 4)]
  refine ⟨?_, ?_, ?_, ?_, ?_, ?_, ?_, ?_, ?_, ?_, ?_, ?_⟩ <;> exact ofCounts_offdiag cols hs _ _ (by omega)

/-! ### audit additions: helpers for `countsOf_swap` -/

theorem zip_swap_int : ∀ (a b : List Int), b.zip a = (a.zip b).map Prod.swap
  | [], b => by cases b <;> simp
  | _ :: _, [] => by simp
  | x :: a, y :: b => by simp [zip_swap_int a b]

/-- the tabulated matrix is 0 outside the 4×4 box -/
theorem memo_out (m : M4) (i j : Nat) (h : 4 ≤ i ∨ 4 ≤ j) : memo m i j = 0 := by
  have hl : ∀ l : List Rat, l.length ≤ 4 → 4 ≤ j → l.getD j 0 = 0 := by
    intro l hl hj
    rw [List.getD_eq_getElem?_getD, List.getElem?_eq_none (by omega)]; rfl
  unfold memo
  show (((List.range 4).map fun i => (List.range 4).map fun j => m i j).getD i []).getD j 0 = 0
  by_cases hi : i < 4
  · have hj : 4 ≤ j := by omega
    apply hl _ _ hj
    rw [List.getD_eq_getElem?_getD, List.getElem?_map, List.getElem?_range hi]
    simp
  · have : ((List.range 4).map fun i => (List.range 4).map fun j => m i j).getD i [] = [] := by
      rw [List.getD_eq_getElem?_getD, List.getElem?_eq_none (by simp; omega)]
      rfl
    rw [this]; rfl

end CogentModel.Distance
