import CogentModel.Proofs.ExpmAlgebra
/-! C05: the eigen back-ends as `V·diag(f(tλ))·V⁻¹` for an exact decomposition and an abstract exponential `f`. -/

namespace CogentModel.Expm
open CogentModel.RateMatrix Finset Matrix
set_option linter.unusedSectionVars false

variable {K : Type*} [Field K] {n : Nat}

theorem toM_eigenCall (evT evI : Mat K) (e : Vec K) :
    toM n (eigenCall n evT evI e) = toM n evT * Matrix.diagonal (fun k : Fin n => vget e k.val) * (toM n evI)ᵀ := by
  ext i j
  unfold eigenCall
  rw [toM_apply, mget_tab _ i.isLt j.isLt, sumTo_eq_sum, Matrix.mul_apply,
    ← Fin.sum_univ_eq_sum_range (fun k => mget evT i k * vget e k * mget evI j k) n]
  apply Finset.sum_congr rfl
  intro k _
  rw [Matrix.mul_diagonal, Matrix.transpose_apply]; rfl

/-- an exact eigendecomposition in the shape the code stores it: `W = evIᵀ` is a left inverse of `V = evT`,
and `Q = V·diag(λ)·W` -/
structure IsEigenDecomp (n : Nat) (Q evT evI : Mat K) (roots : Vec K) : Prop where
  inv : (toM n evI)ᵀ * toM n evT = 1
  dec : toM n Q = toM n evT * Matrix.diagonal (fun k : Fin n => vget roots k.val) * (toM n evI)ᵀ

variable {Q evT evI : Mat K} {roots : Vec K}

theorem IsEigenDecomp.inv' (h : IsEigenDecomp n Q evT evI roots) : toM n evT * (toM n evI)ᵀ = 1 :=
  mul_eq_one_comm.mp h.inv

/-- the value of the eigen back-end at `t` for an abstract scalar "exponential" `f` -/
def eigenP (n : Nat) (evT evI : Mat K) (roots : Vec K) (f : K → K) (t : K) : Mat K :=
  eigenCall n evT evI (vtab n fun k => f (t * vget roots k))

theorem toM_eigenP (evT evI : Mat K) (roots : Vec K) (f : K → K) (t : K) :
    toM n (eigenP n evT evI roots f t) =
      toM n evT * Matrix.diagonal (fun k : Fin n => f (t * vget roots k.val)) * (toM n evI)ᵀ := by
  unfold eigenP
  rw [toM_eigenCall]
  have : (fun k : Fin n => vget (vtab n fun k => f (t * vget roots k)) k.val) = fun k : Fin n => f (t * vget roots k.val) := by
    ext k; rw [vget_vtab _ k.isLt]
  rw [this]

theorem eigenP_zero (h : IsEigenDecomp n Q evT evI roots) (f : K → K) (hf0 : f 0 = 1) :
    toM n (eigenP n evT evI roots f 0) = 1 := by
  rw [toM_eigenP]
  have : (fun k : Fin n => f (0 * vget roots k.val)) = fun _ => 1 := by ext k; rw [zero_mul, hf0]
  rw [this, Matrix.diagonal_one, Matrix.mul_one, h.inv']

theorem eigenP_add (h : IsEigenDecomp n Q evT evI roots) (f : K → K) (hf : ∀ x y, f (x + y) = f x * f y) (s t : K) :
    toM n (eigenP n evT evI roots f (s + t)) = toM n (eigenP n evT evI roots f s) * toM n (eigenP n evT evI roots f t) := by
  rw [toM_eigenP, toM_eigenP, toM_eigenP]
  have : (fun k : Fin n => f ((s + t) * vget roots k.val)) =
      fun k => f (s * vget roots k.val) * f (t * vget roots k.val) := by ext k; rw [add_mul, hf]
  rw [this, ← Matrix.diagonal_mul_diagonal]
  calc toM n evT * (Matrix.diagonal (fun k : Fin n => f (s * vget roots k.val)) * Matrix.diagonal fun k : Fin n => f (t * vget roots k.val)) * (toM n evI)ᵀ
      = toM n evT * Matrix.diagonal (fun k : Fin n => f (s * vget roots k.val)) * 1 *
          (Matrix.diagonal (fun k : Fin n => f (t * vget roots k.val)) * (toM n evI)ᵀ) := by
        simp only [Matrix.mul_one, Matrix.mul_assoc]
    _ = _ := by rw [← h.inv]; simp only [Matrix.mul_assoc]

theorem eigenReQ_eq (h : IsEigenDecomp n Q evT evI roots) : toM n (eigenReQ n evT evI roots) = toM n Q := by
  unfold eigenReQ; rw [toM_eigenCall, h.dec]

/-- any function of the eigenvalues commutes with `Q` -/
theorem eigenP_commute (h : IsEigenDecomp n Q evT evI roots) (f : K → K) (t : K) :
    toM n Q * toM n (eigenP n evT evI roots f t) = toM n (eigenP n evT evI roots f t) * toM n Q := by
  rw [toM_eigenP, h.dec]
  set V := toM n evT
  set W := (toM n evI)ᵀ
  have hWV : W * V = 1 := h.inv
  calc V * diagonal (fun k : Fin n => vget roots k.val) * W * (V * diagonal (fun k : Fin n => f (t * vget roots k.val)) * W)
      = V * diagonal (fun k : Fin n => vget roots k.val) * (W * V) * diagonal (fun k : Fin n => f (t * vget roots k.val)) * W := by
        simp only [Matrix.mul_assoc]
    _ = V * (diagonal (fun k : Fin n => vget roots k.val) * diagonal (fun k : Fin n => f (t * vget roots k.val))) * W := by
        rw [hWV]; simp only [Matrix.mul_one, Matrix.mul_assoc]
    _ = V * (diagonal (fun k : Fin n => f (t * vget roots k.val)) * diagonal (fun k : Fin n => vget roots k.val)) * W := by
        rw [Matrix.diagonal_mul_diagonal, Matrix.diagonal_mul_diagonal]; congr 3; ext k; ring
    _ = V * diagonal (fun k : Fin n => f (t * vget roots k.val)) * (W * V) * diagonal (fun k : Fin n => vget roots k.val) * W := by
        rw [hWV]; simp only [Matrix.mul_one, Matrix.mul_assoc]
    _ = _ := by simp only [Matrix.mul_assoc]

/-- right null vectors of `Q` are fixed: `Q·v = 0 ⇒ P·v = v` when `f 0 = 1` (with `v = 1`: unit row sums) -/
theorem eigenP_mulVec_fixed (h : IsEigenDecomp n Q evT evI roots) (f : K → K) (hf0 : f 0 = 1) (t : K)
    (v : Fin n → K) (hv : (toM n Q).mulVec v = 0) : (toM n (eigenP n evT evI roots f t)).mulVec v = v := by
  rw [toM_eigenP]
  set V := toM n evT
  set W := (toM n evI)ᵀ
  have hWV : W * V = 1 := h.inv
  have hVW : V * W = 1 := h.inv'
  -- w = W v satisfies λ_k w_k = 0
  have hw : (diagonal fun k : Fin n => vget roots k.val).mulVec (W.mulVec v) = 0 := by
    have : W.mulVec ((V * diagonal (fun k : Fin n => vget roots k.val) * W).mulVec v) = 0 := by
      rw [← h.dec, hv, Matrix.mulVec_zero]
    rw [Matrix.mulVec_mulVec, ← Matrix.mul_assoc, ← Matrix.mul_assoc, hWV, Matrix.one_mul, ← Matrix.mulVec_mulVec] at this
    exact this
  have hfw : (diagonal fun k : Fin n => f (t * vget roots k.val)).mulVec (W.mulVec v) = W.mulVec v := by
    ext k
    have hk := congrFun hw k
    rw [Matrix.mulVec_diagonal] at hk ⊢
    rcases mul_eq_zero.mp hk with h0 | h0
    · rw [h0, mul_zero, hf0, one_mul]
    · rw [h0]; simp
  rw [← Matrix.mulVec_mulVec, ← Matrix.mulVec_mulVec, hfw, Matrix.mulVec_mulVec, hVW, Matrix.one_mulVec]

/-- left null vectors: `π·Q = 0 ⇒ π·P = π` -/
theorem eigenP_vecMul_fixed (h : IsEigenDecomp n Q evT evI roots) (f : K → K) (hf0 : f 0 = 1) (t : K)
    (v : Fin n → K) (hv : Matrix.vecMul v (toM n Q) = 0) : Matrix.vecMul v (toM n (eigenP n evT evI roots f t)) = v := by
  rw [toM_eigenP]
  set V := toM n evT
  set W := (toM n evI)ᵀ
  have hWV : W * V = 1 := h.inv
  have hVW : V * W = 1 := h.inv'
  have hw : Matrix.vecMul (Matrix.vecMul v V) (diagonal fun k : Fin n => vget roots k.val) = 0 := by
    have : Matrix.vecMul (Matrix.vecMul v (V * diagonal (fun k : Fin n => vget roots k.val) * W)) V = 0 := by
      rw [← h.dec, hv, Matrix.zero_vecMul]
    rw [Matrix.vecMul_vecMul, Matrix.mul_assoc, hWV, Matrix.mul_one, ← Matrix.vecMul_vecMul] at this
    exact this
  have hfw : Matrix.vecMul (Matrix.vecMul v V) (diagonal fun k : Fin n => f (t * vget roots k.val)) = Matrix.vecMul v V := by
    ext k
    have hk := congrFun hw k
    rw [Matrix.vecMul_diagonal] at hk ⊢
    rcases mul_eq_zero.mp hk with h0 | h0
    · rw [h0]; simp
    · rw [h0, mul_zero, hf0, mul_one]
  rw [← Matrix.vecMul_vecMul, ← Matrix.vecMul_vecMul, hfw, Matrix.vecMul_vecMul, hVW, Matrix.vecMul_one]

/-- the decomposition hypotheses stated on the model's own entries: `evIᵀ·evT = I` and the reconstruction
`reQ` of `CheckedExponentiator` equals `Q` exactly -/
theorem isEigenDecomp_of (Q evT evI : Mat K) (roots : Vec K)
    (hinv : ∀ i j, i < n → j < n → sumTo n (fun k => mget evI k i * mget evT k j) = if i = j then 1 else 0)
    (hdec : ∀ i j, i < n → j < n → mget (eigenReQ n evT evI roots) i j = mget Q i j) :
    IsEigenDecomp n Q evT evI roots := by
  constructor
  · ext i j
    rw [Matrix.mul_apply, Matrix.one_apply]
    have := hinv i.val j.val i.isLt j.isLt
    rw [sumTo_eq_sum, ← Fin.sum_univ_eq_sum_range (fun k => mget evI k i * mget evT k j) n] at this
    simp only [Fin.ext_iff]
    exact this
  · have : toM n Q = toM n (eigenReQ n evT evI roots) := ((entryEq_iff n _ _).mp hdec).symm
    rw [this]; unfold eigenReQ; rw [toM_eigenCall]

end CogentModel.Expm
