import CogentModel.Proofs.AnnotDb
namespace CogentModel.AnnotDb

/-! ### Part A: the insertion sort is canonical -/

def PLe (p q : Int × Int) : Prop := p.1 < q.1 ∨ (p.1 = q.1 ∧ p.2 ≤ q.2)

theorem pairLe_iff (p q : Int × Int) : pairLe p q = true ↔ PLe p q := by
  unfold pairLe PLe; simp

theorem PLe_total (p q : Int × Int) : PLe p q ∨ PLe q p := by unfold PLe; omega
theorem PLe_trans {p q r : Int × Int} (h1 : PLe p q) (h2 : PLe q r) : PLe p r := by unfold PLe at *; omega
theorem PLe_antisymm {p q : Int × Int} (h1 : PLe p q) (h2 : PLe q p) : p = q := by
  unfold PLe at *
  obtain ⟨a, b⟩ := p; obtain ⟨c, d⟩ := q
  simp only [Prod.mk.injEq] at *; omega
theorem PLe_refl (p : Int × Int) : PLe p p := by unfold PLe; omega

def Sorted (l : List (Int × Int)) : Prop := l.Pairwise PLe

theorem insertSorted_sorted (p : Int × Int) (l : List (Int × Int)) (h : Sorted l) : Sorted (insertSorted p l) := by
  induction l with
  | nil => simp [insertSorted, Sorted]
  | cons q qs ih =>
    unfold insertSorted
    have hq := List.pairwise_cons.mp h
    split
    · rename_i hpq
      have hpq' := (pairLe_iff p q).mp hpq
      refine List.pairwise_cons.mpr ⟨?_, h⟩
      intro x hx
      rcases List.mem_cons.mp hx with rfl | hx
      · exact hpq'
      · exact PLe_trans hpq' (hq.1 x hx)
    · rename_i hpq
      have hqp : PLe q p := by
        rcases PLe_total p q with h1 | h1
        · exact absurd ((pairLe_iff p q).mpr h1) hpq
        · exact h1
      refine List.pairwise_cons.mpr ⟨?_, ih hq.2⟩
      intro x hx
      have := (insertSorted_perm p qs).mem_iff.mp hx
      rcases List.mem_cons.mp this with rfl | hx'
      · exact hqp
      · exact hq.1 x hx'

theorem sortSpans_sorted (l : List (Int × Int)) : Sorted (sortSpans l) := by
  induction l with
  | nil => simp [sortSpans, Sorted]
  | cons p ps ih => unfold sortSpans; exact insertSorted_sorted p _ ih

theorem sorted_perm_eq : ∀ (l₁ l₂ : List (Int × Int)), Sorted l₁ → Sorted l₂ → l₁.Perm l₂ → l₁ = l₂
  | [], l₂, _, _, hp => (List.Perm.nil_eq hp)
  | a :: t1, [], _, _, hp => absurd hp.symm (by simp)
  | a :: t1, b :: t2, h1, h2, hp => by
    have h1' := List.pairwise_cons.mp h1
    have h2' := List.pairwise_cons.mp h2
    have hab : PLe a b := by
      have : b ∈ a :: t1 := hp.mem_iff.mpr List.mem_cons_self
      rcases List.mem_cons.mp this with rfl | hb
      · exact PLe_refl _
      · exact h1'.1 b hb
    have hba : PLe b a := by
      have : a ∈ b :: t2 := hp.mem_iff.mp List.mem_cons_self
      rcases List.mem_cons.mp this with rfl | ha
      · exact PLe_refl _
      · exact h2'.1 a ha
    have e := PLe_antisymm hab hba
    subst e
    rw [sorted_perm_eq t1 t2 h1'.2 h2'.2 (List.Perm.cons_inv hp)]

theorem sortSpans_congr {l₁ l₂ : List (Int × Int)} (h : l₁.Perm l₂) : sortSpans l₁ = sortSpans l₂ :=
  sorted_perm_eq _ _ (sortSpans_sorted _) (sortSpans_sorted _)
    ((sortSpans_perm l₁).trans (h.trans (sortSpans_perm l₂).symm))

theorem sortSpans_idem_append (a b : List (Int × Int)) :
    sortSpans (sortSpans a ++ sortSpans b) = sortSpans (a ++ b) :=
  sortSpans_congr (List.Perm.append (sortSpans_perm a) (sortSpans_perm b))

theorem dedupSorted_nodup : ∀ (l : List (Int × Int)), l.Nodup → dedupSorted l = l
  | [], _ => rfl
  | [p], _ => rfl
  | p :: q :: rest, h => by
    have h' := List.nodup_cons.mp h
    have hne : p ≠ q := by intro e; exact h'.1 (e ▸ List.mem_cons_self)
    unfold dedupSorted
    simp only [hne, if_false]
    rw [dedupSorted_nodup (q :: rest) h'.2]

theorem map_sortPair_id (l : List (Int × Int)) (h : ∀ p ∈ l, p.1 ≤ p.2) : l.map sortPair = l := by
  induction l with
  | nil => rfl
  | cons p ps ih =>
    simp only [List.map_cons]
    rw [ih (fun q hq => h q (List.mem_cons_of_mem _ hq))]
    have := h p List.mem_cons_self
    simp [sortPair, this]

theorem gffCoords_le (a b : Int) : (gffCoords a b).1 ≤ (gffCoords a b).2 := by
  unfold gffCoords
  simp only []
  (repeat' split) <;> simp only [] <;> omega

/-- `_merge_spans` on disjoint, duplicate-free span lists is the sort of the concatenation -/
theorem mergeSpans_eq (xs new : List (Int × Int)) (hne : new ≠ []) (hnd : (xs ++ new).Nodup) :
    mergeSpans (sortSpans xs) new = sortSpans (xs ++ new) := by
  unfold mergeSpans
  have hneq : sortSpans xs ≠ new := by
    intro e
    obtain ⟨x, hx⟩ := List.exists_mem_of_ne_nil new hne
    have hx' : x ∈ xs := (sortSpans_perm xs).mem_iff.mp (e ▸ hx)
    exact (List.nodup_append.mp hnd).2.2 x hx' x hx rfl
  simp only [hneq, if_false]
  have hs : sortSpans (sortSpans xs ++ sortSpans new) = sortSpans (xs ++ new) := sortSpans_idem_append xs new
  rw [hs]
  exact dedupSorted_nodup _ ((sortSpans_perm _).nodup_iff.mpr hnd)
/-! ### Part B: merging rows = absorbing single-span records one at a time -/

def names (l : List Merged) : List String := l.map (·.name)

def extend (m x : Merged) : Merged := if x.name = m.name then { x with spans := x.spans ++ m.spans } else x

def absorb (acc : List Merged) (m : Merged) : List Merged :=
  if acc.any (fun x => x.name = m.name) then acc.map (extend m) else acc ++ [m]

def combine (acc ms : List Merged) : List Merged := ms.foldl absorb acc

theorem extend_name (m x : Merged) : (extend m x).name = x.name := by
  unfold extend; split <;> rfl

theorem names_map_extend (m : Merged) (l : List Merged) : names (l.map (extend m)) = names l := by
  simp [names, List.map_map, Function.comp, extend_name]

theorem extend_pos (m x : Merged) (h : x.name = m.name) : extend m x = { x with spans := x.spans ++ m.spans } := by
  unfold extend; simp [h]

theorem extend_neg (m x : Merged) (h : x.name ≠ m.name) : extend m x = x := by
  unfold extend; simp [h]

theorem any_name_iff (l : List Merged) (n : String) : l.any (fun x => x.name = n) = true ↔ n ∈ names l := by
  unfold names
  rw [List.any_eq_true, List.mem_map]
  constructor
  · rintro ⟨x, hx, hd⟩; exact ⟨x, hx, by simpa using hd⟩
  · rintro ⟨x, hx, rfl⟩; exact ⟨x, hx, by simp⟩

theorem mergedAppend_eq_absorb (acc : List Merged) (name : String) (row : GffRow) (sp : Int × Int) :
    mergedAppend acc name row sp = absorb acc { name := name, row := row, spans := [sp] } := by
  unfold mergedAppend absorb
  simp only []
  split
  · apply List.map_congr_left
    intro x _
    unfold extend; rfl
  · rfl

theorem names_absorb (acc : List Merged) (m : Merged) :
    names (absorb acc m) = if m.name ∈ names acc then names acc else names acc ++ [m.name] := by
  by_cases h : m.name ∈ names acc
  · have ha := (any_name_iff acc m.name).mpr h
    unfold absorb; rw [if_pos ha, if_pos h, names_map_extend]
  · have ha : ¬ (acc.any (fun x => x.name = m.name) = true) := fun e => h ((any_name_iff acc m.name).mp e)
    unfold absorb; rw [if_neg ha, if_neg h]; simp [names]

theorem nodup_names_absorb (acc : List Merged) (m : Merged) (h : (names acc).Nodup) : (names (absorb acc m)).Nodup := by
  rw [names_absorb]
  split
  · exact h
  · rename_i hm
    exact List.nodup_append.mpr ⟨h, by simp, by intro a ha b hb; simp at hb; subst hb; intro e; exact hm (e ▸ ha)⟩

theorem mem_names_absorb_left (acc : List Merged) (m : Merged) (n : String) (h : n ∈ names acc) :
    n ∈ names (absorb acc m) := by
  rw [names_absorb]; split
  · exact h
  · exact List.mem_append_left _ h

theorem mem_names_combine_left (ms acc : List Merged) (n : String) (h : n ∈ names acc) : n ∈ names (combine acc ms) := by
  induction ms generalizing acc with
  | nil => exact h
  | cons m ms ih => exact ih (absorb acc m) (mem_names_absorb_left acc m n h)

theorem combine_cons (acc : List Merged) (m : Merged) (ms : List Merged) :
    combine acc (m :: ms) = combine (absorb acc m) ms := rfl

theorem combine_append (acc a b : List Merged) : combine acc (a ++ b) = combine (combine acc a) b := by
  unfold combine; exact List.foldl_append

theorem mem_names_combine_right (ms acc : List Merged) (n : String) (h : n ∈ names ms) : n ∈ names (combine acc ms) := by
  induction ms generalizing acc with
  | nil => cases h
  | cons m ms ih =>
    rw [combine_cons]
    simp only [names, List.map_cons, List.mem_cons] at h
    rcases h with rfl | h
    · apply mem_names_combine_left
      rw [names_absorb]; split
      · assumption
      · simp
    · exact ih _ h

theorem nodup_names_combine (ms acc : List Merged) (h : (names acc).Nodup) : (names (combine acc ms)).Nodup := by
  induction ms generalizing acc with
  | nil => exact h
  | cons m ms ih => exact ih _ (nodup_names_absorb acc m h)

/-- K4 -/
theorem absorb_map_extend (s y : Merged) (A : List Merged) (hne : y.name ≠ s.name) :
    absorb (A.map (extend s)) y = (absorb A y).map (extend s) := by
  unfold absorb
  have hany : (A.map (extend s)).any (fun x => x.name = y.name) = A.any (fun x => x.name = y.name) := by
    rw [List.any_map]; congr 1; funext x; simp [Function.comp, extend_name]
  rw [hany]
  split
  · simp only [List.map_map]
    apply List.map_congr_left
    intro z _
    simp only [Function.comp]
    by_cases h1 : z.name = s.name
    · have h2 : z.name ≠ y.name := fun e => hne (e.symm.trans h1)
      rw [extend_neg y z h2, extend_neg y (extend s z) (by rw [extend_name]; exact h2)]
    · rw [extend_neg s z h1, extend_neg s (extend y z) (by rw [extend_name]; exact h1)]
  · simp only [List.map_append, List.map_cons, List.map_nil]
    rw [extend_neg s y hne]

/-- K3 -/
theorem combine_map_extend (s : Merged) (xs A : List Merged) (h : s.name ∉ names xs) :
    combine (A.map (extend s)) xs = (combine A xs).map (extend s) := by
  induction xs generalizing A with
  | nil => rfl
  | cons y ys ih =>
    simp only [names, List.map_cons, List.mem_cons, not_or] at h
    rw [combine_cons, combine_cons, absorb_map_extend s y A (fun e => h.1 e.symm)]
    exact ih _ h.2

/-- K2 -/
theorem absorb_extended (s x : Merged) (acc : List Merged) (hx : x.name = s.name) :
    absorb acc { x with spans := x.spans ++ s.spans } = (absorb acc x).map (extend s) := by
  unfold absorb
  simp only []
  split
  · rename_i hany
    simp only [List.map_map]
    apply List.map_congr_left
    intro z _
    simp only [Function.comp]
    by_cases h1 : z.name = x.name
    · rw [extend_pos _ z (by simpa using h1), extend_pos x z h1, extend_pos s _ (by simpa using h1.trans hx)]
      simp [List.append_assoc]
    · have h2 : z.name ≠ s.name := hx ▸ h1
      rw [extend_neg _ z (by simpa using h1), extend_neg x z h1, extend_neg s z h2]
  · rename_i hany
    simp only [List.map_append, List.map_cons, List.map_nil]
    have hnot : ∀ z ∈ acc, z.name ≠ s.name := by
      intro z hz e
      apply hany
      exact List.any_eq_true.mpr ⟨z, hz, by simp [e, hx]⟩
    have : acc.map (extend s) = acc := by
      conv => rhs; rw [← List.map_id acc]
      apply List.map_congr_left
      intro z hz
      rw [extend_neg s z (hnot z hz)]; rfl
    rw [this, extend_pos s x hx]

theorem map_extend_id (s : Merged) (xs : List Merged) (h : s.name ∉ names xs) : xs.map (extend s) = xs := by
  conv => rhs; rw [← List.map_id xs]
  apply List.map_congr_left
  intro z hz
  rw [extend_neg s z]; rfl
  intro e
  exact h (List.mem_map.mpr ⟨z, hz, e⟩)

/-- K1 -/
theorem combine_of_map_extend (s : Merged) (acc' acc : List Merged) (hnd : (names acc').Nodup)
    (hs : s.name ∈ names acc') :
    combine acc (acc'.map (extend s)) = (combine acc acc').map (extend s) := by
  induction acc' generalizing acc with
  | nil => cases hs
  | cons x xs ih =>
    simp only [names, List.map_cons, List.nodup_cons] at hnd
    simp only [List.map_cons, combine_cons]
    by_cases hx : x.name = s.name
    · have hnot : s.name ∉ names xs := by rw [← hx]; exact hnd.1
      rw [map_extend_id s xs hnot, extend_pos s x hx, absorb_extended s x acc hx]
      exact combine_map_extend s xs _ hnot
    · rw [extend_neg s x hx]
      have hs' : s.name ∈ names xs := by
        simp only [names, List.map_cons, List.mem_cons] at hs
        rcases hs with e | h
        · exact absurd e.symm hx
        · exact h
      exact ih (absorb acc x) hnd.2 hs'

/-- K: absorbing `s` into an already combined list = combining with `s` absorbed first -/
theorem absorb_combine (s : Merged) (acc acc' : List Merged) (hnd : (names acc').Nodup) :
    absorb (combine acc acc') s = combine acc (absorb acc' s) := by
  by_cases hs : s.name ∈ names acc'
  · have h1 : absorb acc' s = acc'.map (extend s) := by
      unfold absorb; rw [if_pos ((any_name_iff acc' s.name).mpr hs)]
    have h2 : absorb (combine acc acc') s = (combine acc acc').map (extend s) := by
      unfold absorb; rw [if_pos ((any_name_iff _ s.name).mpr (mem_names_combine_right acc' acc s.name hs))]
    rw [h1, h2, combine_of_map_extend s acc' acc hnd hs]
  · have h1 : absorb acc' s = acc' ++ [s] := by
      unfold absorb; rw [if_neg (fun e => hs ((any_name_iff acc' s.name).mp e))]
    rw [h1, combine_append]; rfl

/-- absorbing a list one element at a time = absorbing its self-combined version -/
theorem combine_combine (S acc acc' : List Merged) (hnd : (names acc').Nodup) :
    combine (combine acc acc') S = combine acc (combine acc' S) := by
  induction S generalizing acc' with
  | nil => rfl
  | cons s S ih =>
    rw [combine_cons, combine_cons, absorb_combine s acc acc' hnd]
    exact ih (absorb acc' s) (nodup_names_absorb acc' s hnd)

/-- the single-span records `merged_gff_records` feeds in, with the fake-id counter threaded -/
def singles : List GffRow → Nat → List Merged × Nat
  | [], n => ([], n)
  | row :: rows, n =>
    let sp := gffCoords row.start row.stop
    match row.id with
    | some i => ({ name := i, row := row, spans := [sp] } :: (singles rows n).1, (singles rows n).2)
    | none => ({ name := "unknown-" ++ toString n, row := row, spans := [sp] } :: (singles rows (n + 1)).1,
               (singles rows (n + 1)).2)

theorem mergeRows_eq (rows : List GffRow) (n : Nat) (acc : List Merged) :
    mergeRows rows n acc = (combine acc (singles rows n).1, (singles rows n).2) := by
  induction rows generalizing n acc with
  | nil => rfl
  | cons row rows ih =>
    unfold mergeRows singles
    simp only []
    cases row.id with
    | some i => simp only [ih, mergedAppend_eq_absorb, combine_cons]
    | none => simp only [ih, mergedAppend_eq_absorb, combine_cons]

theorem singles_some (row : GffRow) (rows : List GffRow) (n : Nat) (i : String) (h : row.id = some i) :
    singles (row :: rows) n =
      ({ name := i, row := row, spans := [gffCoords row.start row.stop] } :: (singles rows n).1, (singles rows n).2) := by
  simp [singles, h]

theorem singles_none (row : GffRow) (rows : List GffRow) (n : Nat) (h : row.id = none) :
    singles (row :: rows) n =
      ({ name := "unknown-" ++ toString n, row := row, spans := [gffCoords row.start row.stop] } :: (singles rows (n + 1)).1,
        (singles rows (n + 1)).2) := by
  simp [singles, h]

theorem singles_append (P b : List GffRow) (n : Nat) :
    singles (P ++ b) n = ((singles P n).1 ++ (singles b (singles P n).2).1, (singles b (singles P n).2).2) := by
  induction P generalizing n with
  | nil => rfl
  | cons row rows ih =>
    simp only [List.cons_append]
    cases h : row.id with
    | some i => rw [singles_some _ _ _ i h, singles_some _ _ _ i h, ih]; rfl
    | none => rw [singles_none _ _ _ h, singles_none _ _ _ h, ih]; rfl
end CogentModel.AnnotDb
