/-
  C18 helper lemmas for Hirschberg, part 3: the backward half.  The reversed DP computes, per (cell, state), the
  maximum tail score over all continuations to the end (`bwd_upper`, `bwd_attained`).
-/
import CogentModel.Proofs.HirschDerived
namespace CogentModel.PairHMM
set_option linter.unusedSectionVars false
set_option linter.unusedVariables false

variable {S : Type} [Add S] [LT S] [DecidableLT S] [ScoreLawsAC S]

theorem prefixScore_snoc (h : HMM S) (i j : Nat) (p : List Nat) (hne : p ≠ []) (s : Nat) :
    prefixScore h i j (p ++ [s]) =
      eadd (eadd (prefixScore h i j p) (h.T (lastState p) s))
        (h.em s ((consumedFrom h i j p).1 + (h.dir s).1.toNat) ((consumedFrom h i j p).2 + (h.dir s).2.toNat)) := by
  cases p with
  | nil => exact absurd rfl hne
  | cons a p => exact prefixScore_append h i j a p s

theorem lastState_reverse_cons (s : Nat) (q : List Nat) : lastState (s :: q).reverse = s := by
  rw [List.reverse_cons]; exact lastState_append _ s

/-- where the reversed path ends in reversed coordinates -/
theorem consumed_rev (h : HMM S) (n m i0 j0 : Nat) (q : List Nat) (hc : consumedFrom h i0 j0 q = (n, m)) :
    consumedFrom (revHMM h n m) 0 0 q.reverse = (n - i0, m - j0) := by
  rw [consumedFrom_congr (revHMM h n m) h (fun _ => rfl), consumedFrom_reverse]
  rw [consumedFrom_from] at hc
  have e1 : i0 + (consumedFrom h 0 0 q).1 = n := congrArg Prod.fst hc
  have e2 : j0 + (consumedFrom h 0 0 q).2 = m := congrArg Prod.snd hc
  exact Prod.ext (by simp only; omega) (by simp only; omega)

/-- **reversal**: the prefix score of the reversed path in the reversed problem is the tail score of the path
minus its first transition -/
theorem reverse_score (h : HMM S) (n m : Nat) (q : List Nat) :
    ∀ (s i0 j0 : Nat), (∀ x ∈ s :: q, 1 ≤ x) → consumedFrom h i0 j0 (s :: q) = (n, m) →
      prefixScore (revHMM h n m) 0 0 (s :: q).reverse =
        eadd (h.em s (i0 + (h.dir s).1.toNat) (j0 + (h.dir s).2.toNat))
          (tailScore h s (i0 + (h.dir s).1.toNat) (j0 + (h.dir s).2.toNat) q) := by
  induction q with
  | nil =>
    intro s i0 j0 hpos hc
    simp only [consumedFrom, Prod.mk.injEq] at hc
    simp only [List.reverse_cons, List.reverse_nil, List.nil_append, prefixScore, scoreFrom, tailScore]
    have hd : (revHMM h n m).dir s = h.dir s := rfl
    rw [hd]
    simp only [revHMM, if_true, Nat.zero_add]
    rw [eadd_comm]
    congr 2 <;> omega
  | cons s2 q ih =>
    intro s i0 j0 hpos hc
    have hc' : consumedFrom h (i0 + (h.dir s).1.toNat) (j0 + (h.dir s).2.toNat) (s2 :: q) = (n, m) := hc
    have ih' := ih s2 _ _ (fun x hx => hpos x (List.mem_cons_of_mem _ hx)) hc'
    have hmono := consumed_mono h (i0 + (h.dir s).1.toNat) (j0 + (h.dir s).2.toNat) (s2 :: q)
    rw [hc'] at hmono
    simp only at hmono
    rw [List.reverse_cons, prefixScore_snoc _ _ _ _ (by simp), ih', lastState_reverse_cons,
      consumed_rev h n m _ _ (s2 :: q) hc']
    have hs2 : ¬ s2 = 0 := by
      have := hpos s2 (by simp); omega
    have hd : (revHMM h n m).dir s = h.dir s := rfl
    rw [hd]
    have hT : (revHMM h n m).T s2 s = h.T s s2 := by simp [revHMM, hs2]
    have hE : (revHMM h n m).em s (n - (i0 + (h.dir s).1.toNat) + (h.dir s).1.toNat)
        (m - (j0 + (h.dir s).2.toNat) + (h.dir s).2.toNat) =
        h.em s (i0 + (h.dir s).1.toNat) (j0 + (h.dir s).2.toNat) := by
      simp only [revHMM]
      congr 1 <;> omega
    rw [hT, hE]
    simp only [tailScore]
    rw [eadd_comm (eadd _ (h.T s s2)), eadd_comm _ (h.T s s2)]

/-- the backward value of `(cell (i0, j0), state a)` as `hirsch` computes it -/
def bwdVal (h : HMM S) (n m i0 j0 a : Nat) : Option S :=
  bwdAt (revHMM h n m) (V (revHMM h n m) false m (n - i0) (m - j0)) (n - i0) (m - j0) a

/-- no continuation scores above the backward value -/
theorem bwd_upper (h : HMM S) (n m i0 j0 a : Nat) (ha : 1 ≤ a) (q : List Nat) (hst : statesOK h q)
    (hc : consumedFrom h i0 j0 q = (n, m)) :
    ele (tailScore h a i0 j0 q) (bwdVal h n m i0 j0 a) := by
  have hmono := consumed_mono h i0 j0 q
  rw [hc] at hmono
  simp only at hmono
  unfold bwdVal bwdAt
  cases q with
  | nil =>
    simp only [consumedFrom, Prod.mk.injEq] at hc
    obtain ⟨rfl, rfl⟩ := hc
    simp only [Nat.sub_self, tailScore]
    have : (revHMM h i0 j0).T 0 a = h.T a h.endId := by simp [revHMM]
    have h2 := bestPrev_ge_init (revHMM h i0 j0).T a (V (revHMM h i0 j0) false j0 0 0) 1
      ((revHMM h i0 j0).T 0 a, 0)
    simpa [this] using h2
  | cons s q =>
    have hpos : ∀ x ∈ s :: q, 1 ≤ x := fun x hx => (hst x hx).1
    have hrs := reverse_score h n m q s i0 j0 hpos hc
    have hcr := consumed_rev h n m i0 j0 (s :: q) hc
    have hlr := lastState_reverse_cons s q
    -- the reversed path as a cons
    obtain ⟨r0, r', hr⟩ : ∃ r0 r', (s :: q).reverse = r0 :: r' := by
      cases hrev : (s :: q).reverse with
      | nil => simp at hrev
      | cons r0 r' => exact ⟨r0, r', rfl⟩
    have hstr : statesOK (revHMM h n m) (r0 :: r') := by
      intro x hx
      rw [← hr] at hx
      exact hst x (List.mem_reverse.mp hx)
    have hle := prefixScore_le (revHMM h n m) false m 0 0 r0 r' hstr (by simp [canStart])
      (by rw [← hr, hcr]; simp only; omega) (cellsOK_global _ 0 0 _)
    rw [← hr, hcr, hlr, hrs] at hle
    simp only at hle
    have hs := hst s List.mem_cons_self
    have hlen : s - 1 < (V (revHMM h n m) false m (n - i0) (m - j0)).length := by
      rw [V_length _ false m _ _ (by omega)]
      have := hs.2.1
      simp only [HMM.k] at this ⊢
      show s - 1 < h.dirs.length
      omega
    have hc2 := bestPrev_ge_cand (revHMM h n m).T a (V (revHMM h n m) false m (n - i0) (m - j0)) 1
      (if (n - i0 == 0 && m - j0 == 0) = true then ((revHMM h n m).T 0 a, 0) else (none, (revHMM h n m).errId))
      (s - 1) hlen
    rw [show 1 + (s - 1) = s by omega,
      val_getElem (revHMM h n m) false m _ _ s (by omega) hs.1 hs.2.1 hlen] at hc2
    have hT : (revHMM h n m).T s a = h.T a s := by
      have : ¬ s = 0 := by omega
      simp [revHMM, this]
    rw [hT] at hc2
    simp only [tailScore]
    rw [eadd_comm (h.T a s)]
    exact ele_trans (eadd_mono _ hle) hc2

end CogentModel.PairHMM
