import CogentModel.Proofs.IndelMapSliceSpec
import CogentModel.Proofs.AlnInv
namespace CogentModel.Aln
open CogentModel.IndelMap CogentModel.Gapped List CogentModel

def cntF (xs : List Bool) : Nat := (xs.filter (! ·)).length

theorem cntF_append (xs ys : List Bool) : cntF (xs ++ ys) = cntF xs + cntF ys := by simp [cntF]

theorem cntF_take_drop (xs : List Bool) (S E : Nat) (h : S ≤ E) :
    cntF ((xs.drop S).take (E - S)) = cntF (xs.take E) - cntF (xs.take S) := by
  have e1 : xs.take E = xs.take S ++ (xs.drop S).take (E - S) := by
    rw [← take_append_drop S (xs.take E), take_take, drop_take]
    congr 2; omega
  rw [e1, cntF_append]; omega

theorem take_ofPatternFrom (xs : List Bool) : ∀ (n k : Nat),
    (ofPatternFrom k xs).take n = ofPatternFrom k (xs.take n) := by
  induction xs with
  | nil => intro n k; simp [ofPatternFrom]
  | cons b r ih =>
    intro n k
    cases n with
    | zero => simp [ofPatternFrom]
    | succ n => cases b <;> simp [ofPatternFrom, ih]

theorem drop_ofPatternFrom (xs : List Bool) : ∀ (n k : Nat),
    (ofPatternFrom k xs).drop n = ofPatternFrom (k + cntF (xs.take n)) (xs.drop n) := by
  induction xs with
  | nil => intro n k; simp [ofPatternFrom]
  | cons b r ih =>
    intro n k
    cases n with
    | zero => simp [ofPatternFrom, cntF]
    | succ n =>
      cases b with
      | true => simp [ofPatternFrom, ih, cntF]
      | false =>
        simp only [ofPatternFrom, drop_succ_cons, ih, take_succ_cons, cntF, filter_cons, Bool.not_false, if_true, length_cons]
        congr 1; omega

theorem pattern_ofPatternFrom (xs : List Bool) : ∀ k, pattern (ofPatternFrom k xs) = xs := by
  induction xs with
  | nil => intro k; rfl
  | cons b r ih => intro k; cases b <;> simp [ofPatternFrom, pattern] <;> exact ih _

theorem seqLen_ofPatternFrom (xs : List Bool) : ∀ k, seqLen (ofPatternFrom k xs) = cntF xs := by
  induction xs with
  | nil => intro k; rfl
  | cons b r ih =>
    intro k
    cases b with
    | true => simp only [ofPatternFrom, seqLen, cntF] at *; simpa using ih k
    | false => simp only [ofPatternFrom, seqLen, cntF] at *; simpa using ih (k + 1)

/-- total display of a column -/
def dispCol (data : List Char) (o : Option Nat) : Char := (showCol data o).getD '-'

/-- the renumbered slice shown through the sliced data = the slice shown through the whole data -/
theorem display_shift (data : List Char) (s n : Nat) (hs : s + n ≤ data.length) (xs : List Bool) : ∀ (j : Nat),
    j + cntF xs ≤ n →
    (ofPatternFrom j xs).filterMap (showCol ((data.drop s).take n)) = (ofPatternFrom (s + j) xs).map (dispCol data) := by
  induction xs with
  | nil => intro j _; rfl
  | cons b r ih =>
    intro j hj
    cases b with
    | true =>
      have : j + cntF r ≤ n := by simpa [cntF] using hj
      simp only [ofPatternFrom, filterMap_cons, showCol, map_cons, dispCol, Option.getD_some]
      rw [ih j this]
    | false =>
      have hc : cntF (false :: r) = cntF r + 1 := by simp [cntF]
      rw [hc] at hj
      simp only [ofPatternFrom, filterMap_cons, showCol, map_cons, dispCol]
      have h1 : ((data.drop s).take n)[j]? = some data[s + j] := by
        rw [getElem?_take_of_lt (by omega), getElem?_drop, getElem?_eq_getElem (by omega)]
      have h2 : data[s + j]? = some data[s + j] := getElem?_eq_getElem (by omega)
      rw [h1, h2]
      simp only [Option.getD_some]
      rw [ih (j + 1) (by omega)]
      rfl

/-- with as many residues as the map expects, every column displays -/
theorem display_total (data : List Char) (xs : List Bool) : ∀ (j : Nat), j + cntF xs ≤ data.length →
    (ofPatternFrom j xs).filterMap (showCol data) = (ofPatternFrom j xs).map (dispCol data) := by
  intro j hj
  have := display_shift data 0 data.length (by omega) xs j hj
  simpa using this

end CogentModel.Aln
