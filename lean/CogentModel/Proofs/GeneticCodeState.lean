import CogentModel.Model.GeneticCodeState
/-! helper lemmas for `Props/C12State.lean` (derived state of new-style collections) -/
namespace CogentModel.C12State
open CogentModel.GC CogentModel.GCS

theorem lookupD_map_fst {β} (l : List (List Char × List Char)) (f : List Char → β) (n : List Char) (d : β)
    (h : n ∈ l.map (·.1)) : lookupD (l.map fun p => (p.1, f p.1)) n d = f n := by
  induction l with
  | nil => simp at h
  | cons p r ih =>
    simp only [List.map_cons, lookupD]
    by_cases hp : p.1 = n
    · simp [hp]
    · simp only [hp, if_false]
      apply ih
      simp only [List.map_cons, List.mem_cons] at h
      rcases h with h | h
      · exact absurd h.symm hp
      · exact h

theorem isRev_reverseSeqs (sd : SD) (n : List Char) (h : n ∈ sd.names) : sd.reverseSeqs.isRev n = !sd.isRev n := by
  unfold SD.isRev SD.reverseSeqs
  exact lookupD_map_fst sd.data (fun n => !lookupD sd.rev n false) n false h

theorem display_reverseSeqs (rcf : List Char → List Char) (hinv : ∀ s, rcf (rcf s) = s) (sd : SD) :
    sd.reverseSeqs.display rcf = (sd.display rcf).map fun p => (p.1, rcf p.2) := by
  unfold SD.display
  rw [List.map_map]
  apply List.map_congr_left
  intro p hp
  have hn : p.1 ∈ sd.names := List.mem_map_of_mem hp
  rw [isRev_reverseSeqs sd p.1 hn]
  simp only [Function.comp]
  generalize sd.isRev p.1 = b
  cases b <;> simp [hinv]

theorem mapM_length {α β ε} (f : α → Except ε β) : ∀ (l : List α) (r : List β), l.mapM f = .ok r → r.length = l.length := by
  intro l
  induction l with
  | nil => intro r h; simp [pure, Except.pure] at h; subst h; rfl
  | cons a t ih =>
    intro r h
    rw [List.mapM_cons] at h
    cases ha : f a with
    | error e => simp [ha, bind, Except.bind] at h
    | ok b =>
      cases ht : t.mapM f with
      | error e => simp [ha, ht, bind, Except.bind] at h
      | ok r' =>
        simp [ha, ht, bind, Except.bind, pure, Except.pure] at h
        subst h
        simp [ih r' ht]

theorem rows_rebuilt_false (rcf : List Char → List Char) (sd : SD) (rows : List (List Char)) (h : rows.length = sd.data.length) :
    (sd.rebuilt false rows).rows rcf = rows := by
  unfold SD.rows SD.display SD.rebuilt SD.isRev SD.names
  simp only [List.map_map, Bool.false_eq_true, if_false]
  have hf : ((fun p : List Char × List Char => p.2) ∘ fun p : List Char × List Char =>
      (p.1, if lookupD ([] : List (List Char × Bool)) p.1 false = true then rcf p.2 else p.2)) = Prod.snd := by
    funext p; simp [lookupD]
  rw [hf, List.map_snd_zip]
  simp [h]

theorem rows_rebuilt_true_allrev (rcf : List Char → List Char) (sd : SD) (hall : ∀ n ∈ sd.names, sd.isRev n = true)
    (rows : List (List Char)) (h : rows.length = sd.data.length) :
    (sd.rebuilt true rows).rows rcf = rows.map rcf := by
  unfold SD.rows SD.display SD.rebuilt
  simp only [List.map_map, if_true]
  have hm : ∀ p ∈ sd.names.zip rows,
      ((fun p : List Char × List Char => p.2) ∘ fun p : List Char × List Char =>
        (p.1, if SD.isRev { data := sd.names.zip rows, rev := sd.rev } p.1 = true then rcf p.2 else p.2)) p = (rcf ∘ Prod.snd) p := by
    intro p hp
    have h1 : p.1 ∈ sd.names := (List.of_mem_zip hp).1
    have h2 : SD.isRev { data := sd.names.zip rows, rev := sd.rev } p.1 = true := hall p.1 h1
    simp [h2]
  rw [List.map_congr_left hm, ← List.map_map, List.map_snd_zip]
  simp [SD.names, h]

theorem allrev_reverse_fresh (data : List (List Char × List Char)) :
    ∀ n ∈ (SD.fresh data).reverseSeqs.names, (SD.fresh data).reverseSeqs.isRev n = true := by
  intro n hn
  have hn' : n ∈ (SD.fresh data).names := hn
  rw [isRev_reverseSeqs _ _ hn']
  simp [SD.fresh, SD.isRev, lookupD]

theorem rows_length (rcf : List Char → List Char) (sd : SD) : (sd.rows rcf).length = sd.data.length := by
  simp [SD.rows, SD.display]

end CogentModel.C12State
