import CogentModel.Proofs.FMapLemmas
import CogentModel.Model.FeatureProject
namespace CogentModel.FMap


theorem project_denotes (A fm : FM) (hA : SortedFwd A) (hpl : 0 < A.parentLength)
    (hfm : ∀ x ∈ fm.spans, x.idxIn A.parentLength)
    (hcov : ∀ (j : Nat) (p : Int), (cover fm)[j]? = some (some p) → ∃ k : Nat, (cover A)[k]? = some (some p)) :
    ∃ r, project A fm = .ok r ∧ r.parentLength = len A ∧
      ∀ (j : Nat) (p : Int), (cover fm)[j]? = some (some p) →
        ∃ k : Nat, (cover r)[j]? = some (some (k : Int)) ∧ (cover A)[k]? = some (some p) := by
  obtain ⟨I, hI, hIpl, hIlen, hNN, hconv⟩ := inverse_spec A hA.1 hA.2
  have hne : I.spans ≠ [] := by
    intro e
    have : len I = 0 := by unfold len; rw [e]; rfl
    omega
  obtain ⟨r, hr, hrp, hrc⟩ := getitem_spec I fm hNN hne (by
    intro x hx
    have := hfm x hx
    cases x with
    | lost k => trivial
    | span s e rv => simp only [FSp.idxIn] at this; simp only [FSp.idxOK]; omega)
  refine ⟨r, by unfold project; rw [hI]; exact hr, by rw [hrp, hIpl], ?_⟩
  intro j p hj
  obtain ⟨k, hk⟩ := hcov j p hj
  have hp : 0 ≤ p := chain_pos_ge A.spans 0 hA.1 k p hk
  have hIk : (cover I)[p.toNat]? = some (some (k : Int)) := by
    apply (hconv p.toNat (k : Int)).2
    refine ⟨by omega, ?_⟩
    rw [show ((k : Int)).toNat = k by omega, hk]
    congr 2; omega
  refine ⟨k, ?_, hk⟩
  rw [hrc, List.getElem?_map, hj]
  simp only [Option.map_some, compose, lookup]
  have : ¬ (p < 0) := by omega
  simp [this, hIk]
end CogentModel.FMap
