import CogentModel.Proofs.FMapLemmas
import CogentModel.Model.FeatureProject
namespace CogentModel.FMap


theorem project_denotes (A fm : FM) (hA : SortedFwd A) (hpl : 0 < A.parentLength)
    (hfm : ∀ x ∈ fm.spans, x.idxIn A.parentLength)
    (hcov : ∀ (j : Nat) (p : Int), (cover fm)[j]? = some (some p) → ∃ k : Nat, (cover A)[k]? = some (some p)) :
    ∃ r, project A fm = .ok r ∧ r.parentLength = len A ∧
      ∀ (j : Nat) (p : Int), (cover fm)[j]? = some (some p) →
        ∃ k : Nat, (cover r)[j]? = some (some (k : Int)) ∧ (cover A)[k]? = some (some p) := by
  obtain ⟨I, hI, hIpl, hIlen, hNN, hconv⟩ := inverse_spec A hA.1 hA.2
  have hne : I.spans ≠ [] := by
    intro e
    have : len I = 0 := by unfold len; rw [e]; rfl
    omega
  obtain ⟨r, hr, hrp, hrc⟩ := getitem_spec I fm hNN hne (by
    intro x hx
    have := hfm x hx
    cases x with
    | lost k => trivial
    | span s e rv => simp only [FSp.idxIn] at this; simp only [FSp.idxOK]; omega)
  refine ⟨r, by unfold project; rw [hI]; exact hr, by rw [hrp, hIpl], ?_⟩
  intro j p hj
  obtain ⟨k, hk⟩ := hcov j p hj
  have hp : 0 ≤ p := chain_pos_ge A.spans 0 hA.1 k p hk
  have hIk : (cover I)[p.toNat]? = some (some (k : Int)) := by
    apply (hconv p.toNat (k : Int)).2
    refine ⟨by omega, ?_⟩
    rw [show ((k : Int)).toNat = k by omega, hk]
    congr 2; omega
  refine ⟨k, ?_, hk⟩
  rw [hrc, List.getElem?_map, hj]
  simp only [Option.map_some, compose, lookup]
  have : ¬ (p < 0) := by omega
  simp [this, hIk]
/-- degapping the own-row slice: reading the aligned row at the columns of the projected feature gives
back exactly the positions of the sequence feature, in order (lost stays lost) -/
theorem project_readback (A fm : FM) (hA : SortedFwd A) (hpl : 0 < A.parentLength)
    (hfm : ∀ x ∈ fm.spans, x.idxIn A.parentLength)
    (hcov : ∀ (j : Nat) (p : Int), (cover fm)[j]? = some (some p) → ∃ k : Nat, (cover A)[k]? = some (some p)) :
    ∃ r, project A fm = .ok r ∧ (cover r).map (readRow A) = cover fm := by
  obtain ⟨I, hI, hIpl, hIlen, hNN, hconv⟩ := inverse_spec A hA.1 hA.2
  have hne : I.spans ≠ [] := by
    intro e
    have : len I = 0 := by unfold len; rw [e]; rfl
    omega
  obtain ⟨r, hr, hrp, hrc⟩ := getitem_spec I fm hNN hne (by
    intro x hx
    have := hfm x hx
    cases x with
    | lost k => trivial
    | span s e rv => simp only [FSp.idxIn] at this; simp only [FSp.idxOK]; omega)
  refine ⟨r, by unfold project; rw [hI]; exact hr, ?_⟩
  rw [hrc, List.map_map]
  conv => rhs; rw [← List.map_id (cover fm)]
  apply List.map_congr_left
  intro o ho
  cases o with
  | none => rfl
  | some p =>
    obtain ⟨j, hj, hjj⟩ := List.mem_iff_getElem.mp ho
    have hj' : (cover fm)[j]? = some (some p) := by rw [List.getElem?_eq_getElem hj, hjj]
    obtain ⟨k, hk⟩ := hcov j p hj'
    have hp : 0 ≤ p := chain_pos_ge A.spans 0 hA.1 k p hk
    have hIk : (cover I)[p.toNat]? = some (some (k : Int)) := by
      apply (hconv p.toNat (k : Int)).2
      refine ⟨by omega, ?_⟩
      rw [show ((k : Int)).toNat = k by omega, hk]
      congr 2; omega
    have n1 : ¬ (p < 0) := by omega
    have n2 : ¬ ((k : Int) < 0) := by omega
    simp only [Function.comp, compose, lookup, coverAt, n1, if_false, hIk, Option.join_some, readRow, n2, id]
    rw [show ((k : Int)).toNat = k by omega, hk]; rfl

end CogentModel.FMap
