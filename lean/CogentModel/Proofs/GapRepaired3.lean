/-
  C18 / gap merging, final: the repaired `pairwise_to_multiple` keeps every pairwise alignment.
-/
import CogentModel.Proofs.GapRepaired2
namespace CogentModel.GapMerge

theorem stN_succ (f : Nat → Nat) (i : Nat) : stN f (i + 1) = stN f i + f i + 1 := by
  simp only [stN, sumN]; omega

theorem pairValid_parts (reflen : Int) (rg og : Gaps) (len : Int) (hv : pairValid reflen (rg, og, len) = true) :
    0 ≤ len ∧ GapsOK rg reflen ∧ GapsOK og len ∧ (rowOf rg reflen).length = (rowOf og len).length ∧
      (dropCommon (rowOf rg reflen) (rowOf og len)).length = (rowOf rg reflen).length := by
  simp only [pairValid, Bool.and_eq_true, decide_eq_true_eq, beq_iff_eq] at hv
  obtain ⟨⟨⟨⟨h0, h1⟩, h2⟩, h3⟩, h4⟩ := hv
  exact ⟨h0, gapsValid_ok rg reflen h1, gapsValid_ok og len h2, h3, h4⟩

/-- one pairwise alignment inside a merge whose reference gaps `u` dominate its own -/
theorem keepsPair_repaired (reflen len : Int) (rg og u : Gaps) (hreflen : 0 ≤ reflen)
    (hv : pairValid reflen (rg, og, len) = true) (hu : GapsOK u reflen) (hdom : ∀ p, gl rg p ≤ gl u p) :
    ∃ inj, gapsForInjection true og (combinedRefseqGaps rg u) len = .ok inj ∧
      keepsPair reflen u rg og inj len = true := by
  obtain ⟨hlen, hrg, hog, hlenEq, hdrop⟩ := pairValid_parts reflen rg og len hv
  have H : MergeHyp rg u := ⟨hrg.nodup, hrg.nonneg, hu.nodup, hu.pos, hdom⟩
  have hL : reflen + total rg = len + total og := by
    have h1 := rowOf_length rg reflen hrg hreflen
    have h2 := rowOf_length og len hog hlen
    have : ((rowOf rg reflen).length : Int) = ((rowOf og len).length : Int) := by exact_mod_cast hlenEq
    omega
  obtain ⟨inj, hinj, hwin⟩ := other_window rg og u reflen len hlen hrg hog hu H hL
  refine ⟨inj, hinj, ?_⟩
  -- the two merged rows are the pairwise rows padded at the same columns
  have hU : rowOf u reflen = padCols (glN (combinedRefseqGaps rg u)) 0 (rowOf rg reflen) := by
    simp only [rowOf, rowFrom_eq_rowFn]
    exact (padCols_rowFn _ (glN rg) (glN u) reflen.toNat 0 0 (stN (glN rg)) (by simp [stN, sumN])
      (fun i _ => by rw [Nat.zero_add]; exact stN_succ _ i)
      (fun i _ => by rw [Nat.zero_add]; exact ref_window rg u reflen hrg hu H i)).symm
  have hO : rowOf inj len = padCols (glN (combinedRefseqGaps rg u)) 0 (rowOf og len) := by
    simp only [rowOf, rowFrom_eq_rowFn]
    exact (padCols_rowFn _ (glN og) (glN inj) len.toNat 0 0 (stN (glN og)) (by simp [stN, sumN])
      (fun i _ => by rw [Nat.zero_add]; exact stN_succ _ i)
      (fun i hi => by rw [Nat.zero_add]; exact hwin i hi)).symm
  obtain ⟨hp1, hp2⟩ := padCols_pair (glN (combinedRefseqGaps rg u)) (rowOf rg reflen) (rowOf og len) hlenEq 0
  simp only [keepsPair, Bool.and_eq_true, beq_iff_eq]
  rw [hU, hO]
  exact ⟨hp1, by rw [hp2]; exact dropCommon_eq_zip _ _ hlenEq hdrop⟩

theorem keepsList_repaired (reflen : Int) (hreflen : 0 ≤ reflen) (u : Gaps) (hu : GapsOK u reflen) :
    ∀ pw : List (Gaps × Gaps × Int), (∀ x ∈ pw, pairValid reflen x = true) → (∀ x ∈ pw, ∀ p, gl x.1 p ≤ gl u p) →
      ∃ others, injectAll true u pw = .ok others ∧ keepsList reflen u pw others = true := by
  intro pw
  induction pw with
  | nil => intro _ _; exact ⟨[], rfl, rfl⟩
  | cons x r ih =>
    intro hv hd
    obtain ⟨rg, og, len⟩ := x
    obtain ⟨inj, hinj, hk⟩ := keepsPair_repaired reflen len rg og u hreflen (hv _ List.mem_cons_self) hu
      (hd _ List.mem_cons_self)
    obtain ⟨rest, hrest, hkr⟩ := ih (fun x hx => hv x (List.mem_cons_of_mem _ hx)) (fun x hx => hd x (List.mem_cons_of_mem _ hx))
    refine ⟨inj :: rest, ?_, ?_⟩
    · simp only [injectAll, hinj, hrest]
    · simp only [keepsList, hk, hkr, Bool.and_self]

/-- **the repaired merge keeps every pairwise alignment**, for any number of well-formed pairwise alignments -/
theorem keepsAll_repaired (reflen : Int) (hreflen : 0 ≤ reflen) (pw : List (Gaps × Gaps × Int))
    (hv : ∀ x ∈ pw, pairValid reflen x = true) : keepsAll true reflen pw = true := by
  have hall : ∀ g ∈ pw.map (·.1), GapsOK g reflen := by
    intro g hg
    obtain ⟨x, hx, rfl⟩ := List.mem_map.mp hg
    obtain ⟨rg, og, len⟩ := x
    exact (pairValid_parts reflen rg og len (hv _ hx)).2.1
  obtain ⟨hu, _, hdom⟩ := gapUnion_spec reflen (pw.map (·.1)) [] (gapsOK_nil reflen) hall
  obtain ⟨others, hinj, hk⟩ := keepsList_repaired reflen hreflen _ hu pw hv
    (fun x hx p => hdom x.1 (List.mem_map.mpr ⟨x, hx, rfl⟩) p)
  simp only [keepsAll, pairwiseToMultiple, hinj, hk]

end CogentModel.GapMerge
