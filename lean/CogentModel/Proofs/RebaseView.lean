import CogentModel.Proofs.RebaseSlice
/-! Helper lemmas for C10: normal forms of the constructor / `[::step]` on a full
parent, and the four "rebuilt view is observationally the original" cases. -/
namespace CogentModel.RichDict
open CogentModel.View CogentModel.PySlice

theorem mk_fwd_full (m c off : Int) (hm : 0 < m) (hc : 0 < c) :
    mk m none none (some c) off = .ok { start := 0, stop := m, step := c, offset := off, seqLen := m } := by
  have h0 : ¬ c = 0 := by omega
  simp [mk, inputValsPos, pyabs, h0, hc]
  (repeat' split) <;> simp <;> omega

theorem mk_fwd_empty (c off : Int) (hc : 0 < c) :
    mk 0 none none (some c) off = .ok { start := 0, stop := 0, step := 1, offset := off, seqLen := 0 } := by
  have h0 : ¬ c = 0 := by omega
  simp [mk, inputValsPos, pyabs, h0, hc]

theorem mk_rev_full (m c off : Int) (hm : 0 ≤ m) (hc : c < 0) :
    mk m none none (some c) off = .ok { start := -1, stop := -m - 1, step := c, offset := off, seqLen := m } := by
  have h0 : ¬ c = 0 := by omega
  have h1 : ¬ 0 < c := by omega
  have h2 : ¬ (-1 : Int) < -m - 1 := by omega
  have h3 : max (-m - 1) (-m - 1) = -m - 1 := by omega
  simp [mk, inputValsNeg, inputValsNegTail, h0, h1, h2, h3]
theorem mk_none_full (m off : Int) (hm : 0 < m) :
    mk m none none none off = .ok { start := 0, stop := m, step := 1, offset := off, seqLen := m } := by
  simp [mk, inputValsPos, pyabs]
  (repeat' split) <;> simp <;> omega

theorem mk_none_empty (off : Int) :
    mk 0 none none none off = .ok { start := 0, stop := 0, step := 1, offset := off, seqLen := 0 } := by
  simp [mk, inputValsPos, pyabs]

theorem len_full (m off : Int) (hm : 0 ≤ m) :
    len { start := 0, stop := m, step := 1, offset := off, seqLen := m } = m := by
  simp only [len, pyabs]
  have : Int.fdiv (0 - m) 1 = -m := by
    rw [Int.fdiv_eq_ediv_of_nonneg _ (by omega)]; simp
  rw [this]; split <;> omega

theorem getitem_empty (c off : Int) :
    getitemSlice .seqView { start := 0, stop := 0, step := 1, offset := off, seqLen := 0 } none none (some c)
      = .ok { start := 0, stop := 0, step := 1, offset := off, seqLen := 0 } := by
  have := len_full 0 off (by omega)
  simp [getitemSlice, this]

theorem getitem_full_fwd (m c off : Int) (hm : 0 < m) (hc : 0 < c) :
    getitemSlice .seqView { start := 0, stop := m, step := 1, offset := off, seqLen := m } none none (some c)
      = .ok { start := 0, stop := m, step := c, offset := off, seqLen := m } := by
  have hl := len_full m off (by omega)
  have h1 : ¬ m = 0 := by omega
  simp only [getitemSlice, hl, h1, fwdFromFwd, remk]
  simp [hc]
  have h2 : ¬ m < 0 := by omega
  have h0 : ¬ c = 0 := by omega
  simp [h2, mk, h0, hc, inputValsPos, pyabs]
  (repeat' split) <;> simp <;> omega

theorem getitem_full_rev (m c off : Int) (hm : 0 < m) (hc : c < 0) :
    getitemSlice .seqView { start := 0, stop := m, step := 1, offset := off, seqLen := m } none none (some c)
      = .ok { start := -1, stop := -m - 1, step := c, offset := off, seqLen := m } := by
  have hl := len_full m off (by omega)
  have h1 : ¬ m = 0 := by omega
  have h3 : ¬ 0 < c := by omega
  have h0 : ¬ c = 0 := by omega
  simp only [getitemSlice, hl, h1, revFromFwd, remk]
  simp [hc, h3]
  have h4 : ¬ (-1 : Int) ≥ m := by omega
  simp [h4]
  have g1 : ¬ m ≤ -m - 1 := by omega
  have g2 : ¬ (1 : Int) ≤ -m := by omega
  have g3 : ¬ (m ≤ m + -1 ∨ 0 ≤ m + (-m - 1) - m) := by omega
  have g4 : m + -1 - m = -1 := by omega
  have g5 : max (m + (-m - 1) - m) (-m - 1) = -m - 1 := by omega
  simp only [g1, g2, g3, g4, g5, if_false]
  have g6 : ¬ (-1 : Int) ≥ m := by omega
  have g7 : ¬ (-1 : Int) ≥ 0 := by omega
  have g8 : ¬ (-1 : Int) < -m := by omega
  have g9 : ¬ (-m - 1 ≥ 0) := by omega
  have g10 : max (-m - 1) (-m - 1) = -m - 1 := by omega
  have g11 : ¬ (-1 : Int) < -m - 1 := by omega
  have g12 : max (if 1 ≤ -m then -m - 1 - m else -m - 1) (-m - 1) = -m - 1 := by
    rw [if_neg g2]; omega
  simp [mk, h0, h3, inputValsNeg, inputValsNegTail, g6, g8, g12, g11]

/-- observation of a view inside a sequence: displayed string, plus-strand parent
coordinates, representation invariant (strand is stated separately) -/
def RebaseObs {α} [Inhabited α] (parent : List α) (v : View) (r : List α × View) : Prop :=
  realise r.1 r.2 = realise parent v ∧
  parentStart r.2 = parentStart v ∧ parentStop r.2 = parentStop v ∧
  Inv r.2 ∧ r.2.seqLen = r.1.length

/-- … and the strand -/
def RebaseOK {α} [Inhabited α] (parent : List α) (v : View) (r : List α × View) : Prop :=
  RebaseObs parent v r ∧ isReversed r.2 = isReversed v

theorem slice_same {α} [Inhabited α] (xs : List α) (a c : Int) :
    slice xs (some a) (some a) c = [] := by
  simp [slice, sliceIdx, indices, rangeList, rangeLen]
  split <;> simp

theorem coerce_zero (v : View) (ps : Int) (h : v.offset = 0) :
    coerceOffset v ps = .ok { v with offset := ps } := by
  unfold coerceOffset
  by_cases hp : ps = 0
  · subst hp; simp [← h]
  · simp [hp, h]

/-- the truncated parent exported by `to_rich_dict` -/
def trunc {α} [Inhabited α] (parent : List α) (v : View) : List α :=
  PySlice.slice parent (some (richDictBounds v).1) (some (richDictBounds v).2) 1

theorem trunc_len_fwd {α} [Inhabited α] (parent : List α) (v : View) (hlen : v.seqLen = parent.length)
    (hc : 0 < v.step) (h0 : 0 ≤ v.start) (hse : v.start ≤ v.stop) (he : v.stop ≤ v.seqLen) :
    ((trunc parent v).length : Int) = v.stop - v.start := by
  have hns : ¬ v.step < 0 := by omega
  have hb : richDictBounds v = (v.start, v.stop) := by simp [richDictBounds, hns]
  have := trunc_length parent v.start v.stop h0 hse (by omega)
  simp only [trunc, hb]; omega

theorem trunc_len_rev {α} [Inhabited α] (parent : List α) (v : View) (hlen : v.seqLen = parent.length)
    (hc : v.step < 0) (he : -v.seqLen - 1 ≤ v.stop) (hes : v.stop ≤ v.start) (hs : v.start ≤ -1) :
    ((trunc parent v).length : Int) = v.start - v.stop := by
  have hb : richDictBounds v = (v.stop + (v.seqLen + 1), v.start + (v.seqLen + 1)) := by simp [richDictBounds, hc]
  have := trunc_length parent (v.stop + (v.seqLen + 1)) (v.start + (v.seqLen + 1)) (by omega) (by omega) (by omega)
  simp only [trunc, hb]; omega

theorem ok_fwd_nonempty {α} [Inhabited α] (parent : List α) (v : View) (hlen : v.seqLen = parent.length)
    (hc : 0 < v.step) (h0 : 0 ≤ v.start) (hlt : v.start < v.stop) (he : v.stop ≤ v.seqLen) :
    RebaseOK parent v (trunc parent v,
      { start := 0, stop := v.stop - v.start, step := v.step, offset := v.offset + v.start, seqLen := v.stop - v.start }) := by
  have hns : ¬ v.step < 0 := by omega
  have hps : parentStart v = .ok (v.offset + v.start) := by simp [parentStart, hns]
  have hpe : parentStop v = .ok (v.offset + v.stop) := by simp [parentStop, hns]
  have hb : richDictBounds v = (v.start, v.stop) := by simp [richDictBounds, hns]
  have htl := trunc_len_fwd parent v hlen hc h0 (by omega) he
  refine ⟨⟨?_, ?_, ?_, ?_, ?_⟩, ?_⟩
  · simp only [realise, trunc, hb]
    exact fwd_rebase parent v.start v.stop v.step h0 hlt (by omega) hc
  · rw [hps]; simp [parentStart, hns]
  · rw [hpe]; simp [parentStop, hns]; omega
  · simp [View.Inv]; omega
  · simp; omega
  · simp [isReversed, hns]

theorem ok_empty {α} [Inhabited α] (parent : List α) (v : View) (hlen : v.seqLen = parent.length)
    (hinv : Inv v) (hm : v.start = v.stop) (ps : Int) (hps : parentStart v = .ok ps) :
    RebaseObs parent v (trunc parent v, { start := 0, stop := 0, step := 1, offset := ps, seqLen := 0 }) := by
  obtain ⟨hn, ⟨hc, h0, hse, he⟩ | ⟨hc, he, hes, hs⟩⟩ := hinv
  · have hns : ¬ v.step < 0 := by omega
    have htl := trunc_len_fwd parent v hlen hc h0 (by omega) he
    simp only [parentStart, hns, if_false, Except.ok.injEq] at hps
    refine ⟨?_, ?_, ?_, ?_, ?_⟩
    · simp only [realise]; rw [slice_same, ← hm, slice_same]
    · simp [parentStart, hns, hps]
    · simp [parentStop, hns, ← hps, hm]
    · simp [View.Inv]
    · simp; omega
  · have htl := trunc_len_rev parent v hlen hc he hes hs
    have h1 : v.stop < 0 := by omega
    have h2 : v.start < 0 := by omega
    simp only [parentStart, hc, if_true, h1, Except.ok.injEq] at hps
    refine ⟨?_, ?_, ?_, ?_, ?_⟩
    · simp only [realise]; rw [slice_same, ← hm, slice_same]
    · simp [parentStart, hc, h1, hps]
    · simp [parentStop, hc, ← hps, hm, h1]
    · simp [View.Inv]
    · simp; omega

theorem ok_rev {α} [Inhabited α] (parent : List α) (v : View) (hlen : v.seqLen = parent.length)
    (hc : v.step < 0) (he : -v.seqLen - 1 ≤ v.stop) (hes : v.stop ≤ v.start) (hs : v.start ≤ -1) :
    RebaseOK parent v (trunc parent v,
      { start := -1, stop := -(v.start - v.stop) - 1, step := v.step, offset := v.offset + (v.stop + v.seqLen + 1),
        seqLen := v.start - v.stop }) := by
  have hps : parentStart v = .ok (v.offset + (v.stop + v.seqLen + 1)) := by
    simp [parentStart, hc]; omega
  have hpe : parentStop v = .ok (v.offset + (v.start + v.seqLen + 1)) := by
    simp [parentStop, hc]; omega
  have hb : richDictBounds v = (v.stop + (v.seqLen + 1), v.start + (v.seqLen + 1)) := by simp [richDictBounds, hc]
  have htl := trunc_len_rev parent v hlen hc he hes hs
  refine ⟨⟨?_, ?_, ?_, ?_, ?_⟩, ?_⟩
  · simp only [realise, trunc, hb]
    have := rev_rebase parent v.start v.stop v.step (by omega) hes hs hc
    rw [← hlen] at this
    exact this
  · rw [hps]
    have h1 : -(v.start - v.stop) - 1 < 0 := by omega
    simp only [parentStart, hc, if_true, h1]
    congr 1; omega
  · rw [hpe]
    simp only [parentStop, hc, if_true, show (-1 : Int) < 0 by omega]
    congr 1; omega
  · simp [View.Inv, hc]; omega
  · simp; omega
  · simp [isReversed, hc]

end CogentModel.RichDict
