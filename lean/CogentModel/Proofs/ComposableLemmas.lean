import CogentModel.Model.Composable
/-! helper lemmas for C14 / C19-resume (core Lean only) -/
namespace CogentModel.Composable

theorem entries_append (s t : Store) (i : Id) : entries (s ++ t) i = entries s i ++ entries t i := by
  simp [entries]

/-- writing under another identifier does not change the records of `i` -/
theorem entries_put_ne (s : Store) (i j : Id) (r : Val) (h : i ≠ j) : entries (put s j r) i = entries s i := by
  unfold put
  split
  · rfl
  · have hb : (j == i) = false := by simp [Ne.symm h]
    rw [entries_append]
    simp only [entries, List.filter_filter, List.filter_cons, hb, List.filter_nil, List.append_nil,
      Bool.false_eq_true, if_false]
    apply List.filter_congr
    intro e _
    by_cases he : e.1 = i
    · simp [he, h]
    · simp [he]

theorem entries_put_self (s : Store) (i : Id) (r : Val) (h : hasDone s i = false) :
    entries (put s i r) i = [(i, r)] := by
  unfold put
  rw [if_neg (by simp [h])]
  rw [entries_append]
  simp only [entries, List.filter_filter, List.filter_cons, BEq.rfl, if_true, List.filter_nil]
  simp

theorem hasDone_put_ne (s : Store) (i j : Id) (r : Val) (h : i ≠ j) : hasDone (put s j r) i = hasDone s i := by
  simp [hasDone, entries_put_ne s i j r h]

/-- a completed record is never replaced -/
theorem entries_put_done (s : Store) (i : Id) (r : Val) (h : hasDone s i = true) : put s i r = s := by
  simp [put, h]

theorem writeAll_cons (idOf : Nat → Id) (s : Store) (r : Nat × Val) (rs : List (Nat × Val)) :
    writeAll idOf s (r :: rs) = writeAll idOf (put s (idOf r.1) r.2) rs := rfl

theorem writeAll_append (idOf : Nat → Id) (s : Store) (a b : List (Nat × Val)) :
    writeAll idOf s (a ++ b) = writeAll idOf (writeAll idOf s a) b := by
  simp [writeAll, List.foldl_append]

/-- results for other identifiers leave the records of `i` alone -/
theorem entries_writeAll_other (idOf : Nat → Id) (rs : List (Nat × Val)) (s : Store) (i : Id)
    (h : ∀ r ∈ rs, idOf r.1 ≠ i) : entries (writeAll idOf s rs) i = entries s i := by
  induction rs generalizing s with
  | nil => rfl
  | cons r rs ih =>
    rw [writeAll_cons, ih _ (fun r' hr' => h r' (List.mem_cons_of_mem _ hr'))]
    exact entries_put_ne s i _ _ (Ne.symm (h r List.mem_cons_self))

/-- key lemma: results with pairwise distinct identifiers, none completed yet: each ends up as
exactly one record holding that result -/
theorem entries_writeAll_mem (idOf : Nat → Id) (rs : List (Nat × Val)) (s : Store)
    (hnd : (rs.map (fun r => idOf r.1)).Nodup)
    (hnew : ∀ r ∈ rs, hasDone s (idOf r.1) = false) :
    ∀ r ∈ rs, entries (writeAll idOf s rs) (idOf r.1) = [(idOf r.1, r.2)] := by
  induction rs generalizing s with
  | nil => intro r hr; cases hr
  | cons r0 rs ih =>
    intro r hr
    rw [List.map_cons, List.nodup_cons] at hnd
    rw [writeAll_cons]
    have hother : ∀ r' ∈ rs, idOf r'.1 ≠ idOf r0.1 := by
      intro r' hr' e; exact hnd.1 (e ▸ List.mem_map_of_mem (f := fun r => idOf r.1) hr')
    rcases List.mem_cons.mp hr with rfl | hr
    · rw [entries_writeAll_other idOf rs _ _ hother]
      exact entries_put_self s _ _ (hnew _ List.mem_cons_self)
    · apply ih _ hnd.2 _ r hr
      intro r' hr'
      rw [hasDone_put_ne _ _ _ _ (hother r' hr')]
      exact hnew r' (List.mem_cons_of_mem _ hr')

/-! ### `select` (identifier selection in `_apply_to`) -/

theorem select_prefix (idOf : Nat → Id) (s : Store) (ms : List Nat) (acc sel : List (Id × Nat))
    (h : select idOf s ms acc = some sel) :
    ∃ added, sel = acc ++ added ∧ ∀ p ∈ added, idOf p.2 = p.1 ∧ p.2 ∈ ms ∧ hasDone s p.1 = false := by
  induction ms generalizing acc with
  | nil => simp only [select, Option.some.injEq] at h; exact ⟨[], by simp [h], by simp⟩
  | cons m ms ih =>
    unfold select at h
    split at h
    · cases h
    · split at h
      · obtain ⟨added, e, hp⟩ := ih acc h
        exact ⟨added, e, fun p hp' => let ⟨a, b, c⟩ := hp p hp'; ⟨a, List.mem_cons_of_mem _ b, c⟩⟩
      · next hd =>
        obtain ⟨added, e, hp⟩ := ih _ h
        refine ⟨(idOf m, m) :: added, by simp [e], ?_⟩
        intro p hp'
        rcases List.mem_cons.mp hp' with rfl | hp'
        · exact ⟨rfl, List.mem_cons_self, by simpa using hd⟩
        · let ⟨a, b, c⟩ := hp p hp'; exact ⟨a, List.mem_cons_of_mem _ b, c⟩

theorem select_nodup (idOf : Nat → Id) (s : Store) (ms : List Nat) (acc sel : List (Id × Nat))
    (h : select idOf s ms acc = some sel) (hn : (acc.map (·.1)).Nodup) : (sel.map (·.1)).Nodup := by
  induction ms generalizing acc with
  | nil => simp only [select, Option.some.injEq] at h; exact h ▸ hn
  | cons m ms ih =>
    unfold select at h
    split at h
    · cases h
    · next hany =>
      split at h
      · exact ih acc h hn
      · apply ih _ h
        rw [List.map_append, List.nodup_append]
        refine ⟨hn, by simp, ?_⟩
        intro a ha b hb
        simp only [List.map_cons, List.map_nil, List.mem_singleton] at hb
        subst hb
        intro e; subst e
        apply hany
        obtain ⟨p, hp, e⟩ := List.mem_map.mp ha
        exact List.any_eq_true.mpr ⟨p, hp, by simp [e]⟩

theorem select_complete (idOf : Nat → Id) (s : Store) (ms : List Nat) (acc sel : List (Id × Nat))
    (h : select idOf s ms acc = some sel) :
    ∀ m ∈ ms, hasDone s (idOf m) = false → (idOf m, m) ∈ sel := by
  induction ms generalizing acc with
  | nil => intro m hm; cases hm
  | cons m0 ms ih =>
    intro m hm hd
    unfold select at h
    split at h
    · cases h
    · split at h
      · next hd0 =>
        rcases List.mem_cons.mp hm with rfl | hm
        · rw [hd0] at hd; cases hd
        · exact ih acc h m hm hd
      · rcases List.mem_cons.mp hm with rfl | hm
        · obtain ⟨added, e, _⟩ := select_prefix idOf s ms _ sel h
          rw [e]; simp
        · exact ih _ h m hm hd

theorem select_mono_aux (idOf : Nat → Id) (s s' : Store) (ms : List Nat)
    (hmono : ∀ i, hasDone s i = true → hasDone s' i = true) (acc acc' sel : List (Id × Nat))
    (h : select idOf s ms acc = some sel) (hsub : ∀ p ∈ acc', ∃ q ∈ acc, q.1 = p.1) :
    ∃ sel', select idOf s' ms acc' = some sel' := by
  induction ms generalizing acc acc' with
  | nil => exact ⟨acc', rfl⟩
  | cons m ms ih =>
    unfold select at h
    split at h
    · cases h
    · next hany =>
      have hany' : ¬ (acc'.any (fun p => p.1 == idOf m)) = true := by
        intro ha
        obtain ⟨p, hp, e⟩ := List.any_eq_true.mp ha
        obtain ⟨q, hq, e'⟩ := hsub p hp
        exact hany (List.any_eq_true.mpr ⟨q, hq, by simpa [e'] using e⟩)
      unfold select
      rw [if_neg hany']
      by_cases hd' : hasDone s' (idOf m) = true
      · rw [if_pos hd']
        split at h
        · exact ih acc acc' h hsub
        · refine ih _ acc' h (fun p hp => ?_)
          obtain ⟨q, hq, e⟩ := hsub p hp
          exact ⟨q, List.mem_append_left _ hq, e⟩
      · rw [if_neg hd']
        have hd : ¬ hasDone s (idOf m) = true := fun hd => hd' (hmono _ hd)
        rw [if_neg hd] at h
        refine ih _ _ h (fun p hp => ?_)
        rcases List.mem_append.mp hp with hp | hp
        · obtain ⟨q, hq, e⟩ := hsub p hp
          exact ⟨q, List.mem_append_left _ hq, e⟩
        · exact ⟨p, List.mem_append_right _ hp, rfl⟩

theorem select_mono (idOf : Nat → Id) (s s' : Store) (inputs : List Nat) (sel : List (Id × Nat))
    (hsel : select idOf s inputs [] = some sel) (hmono : ∀ i, hasDone s i = true → hasDone s' i = true) :
    ∃ sel', select idOf s' inputs [] = some sel' :=
  select_mono_aux idOf s s' inputs hmono [] [] sel hsel (fun p hp => by cases hp)

/-- the facts about a successful selection used below -/
structure SelSpec (idOf : Nat → Id) (s : Store) (inputs : List Nat) (sel : List (Id × Nat)) : Prop where
  nodup : (sel.map (·.1)).Nodup
  idOk : ∀ p ∈ sel, idOf p.2 = p.1
  mem : ∀ p ∈ sel, p.2 ∈ inputs
  fresh : ∀ p ∈ sel, hasDone s p.1 = false
  complete : ∀ m ∈ inputs, hasDone s (idOf m) = false → (idOf m, m) ∈ sel

theorem select_spec (idOf : Nat → Id) (s : Store) (inputs : List Nat) (sel : List (Id × Nat))
    (h : select idOf s inputs [] = some sel) : SelSpec idOf s inputs sel := by
  obtain ⟨added, e, hp⟩ := select_prefix idOf s inputs [] sel h
  simp only [List.nil_append] at e
  subst e
  exact ⟨select_nodup idOf s inputs [] _ h (by simp), fun p hp' => (hp p hp').1, fun p hp' => (hp p hp').2.1,
    fun p hp' => (hp p hp').2.2, select_complete idOf s inputs [] _ h⟩

theorem fst_inj_of_nodup {α β} (l : List (α × β)) (h : (l.map (·.1)).Nodup) (p q : α × β)
    (hp : p ∈ l) (hq : q ∈ l) (e : p.1 = q.1) : p = q := by
  induction l with
  | nil => cases hp
  | cons x xs ih =>
    rw [List.map_cons, List.nodup_cons] at h
    rcases List.mem_cons.mp hp with hp1 | hp1
    · rcases List.mem_cons.mp hq with hq1 | hq1
      · rw [hp1, hq1]
      · exact absurd (by rw [← hp1, e]; exact List.mem_map_of_mem (f := (·.1)) hq1) h.1
    · rcases List.mem_cons.mp hq with hq1 | hq1
      · exact absurd (by rw [← hq1, ← e]; exact List.mem_map_of_mem (f := (·.1)) hp1) h.1
      · exact ih h.2 hp1 hq1

section results
variable (idOf : Nat → Id) (app : Nat → Val) (s : Store) (inputs : List Nat) (sel : List (Id × Nat))
  (hs : SelSpec idOf s inputs sel) (results : List (Nat × Val)) (hperm : results.Perm (sel.map (wrapped app)))
include hs hperm

theorem results_ids_nodup : (results.map (fun r => idOf r.1)).Nodup := by
  have h1 : (results.map (fun r => idOf r.1)).Perm ((sel.map (wrapped app)).map (fun r => idOf r.1)) :=
    hperm.map _
  rw [h1.nodup_iff, List.map_map]
  have : sel.map ((fun r => idOf r.1) ∘ wrapped app) = sel.map (·.1) :=
    List.map_congr_left (fun p hp => by simpa [wrapped] using hs.idOk p hp)
  rw [this]; exact hs.nodup

theorem results_mem (r : Nat × Val) (hr : r ∈ results) : ∃ p ∈ sel, r = (p.2, app p.2) := by
  obtain ⟨p, hp, e⟩ := List.mem_map.mp (hperm.mem_iff.mp hr)
  exact ⟨p, hp, e.symm⟩

theorem mem_results (p : Id × Nat) (hp : p ∈ sel) : (p.2, app p.2) ∈ results :=
  hperm.mem_iff.mpr (List.mem_map.mpr ⟨p, hp, rfl⟩)

theorem results_fresh (r : Nat × Val) (hr : r ∈ results) : hasDone s (idOf r.1) = false := by
  obtain ⟨p, hp, rfl⟩ := results_mem idOf app s inputs sel hs results hperm r hr
  rw [hs.idOk p hp]; exact hs.fresh p hp

/-- an uninterrupted run, any completion order -/
theorem apply_any_schedule' :
    (∀ p ∈ sel, entries (writeAll idOf s results) p.1 = [(p.1, app p.2)]) ∧
    (∀ i, (∀ p ∈ sel, p.1 ≠ i) → entries (writeAll idOf s results) i = entries s i) := by
  constructor
  · intro p hp
    have := entries_writeAll_mem idOf results s (results_ids_nodup idOf app s inputs sel hs results hperm)
      (results_fresh idOf app s inputs sel hs results hperm) _ (mem_results idOf app s inputs sel hs results hperm p hp)
    simpa [hs.idOk p hp] using this
  · intro i hi
    apply entries_writeAll_other
    intro r hr e
    obtain ⟨p, hp, rfl⟩ := results_mem idOf app s inputs sel hs results hperm r hr
    exact hi p hp ((hs.idOk p hp).symm.trans e)

end results

theorem hasDone_congr (s t : Store) (i : Id) (h : entries s i = entries t i) : hasDone s i = hasDone t i := by
  simp [hasDone, h]

theorem resume_same_store' (idOf : Nat → Id) (app : Nat → Val) (s : Store) (inputs : List Nat)
    (sel : List (Id × Nat)) (hsel : select idOf s inputs [] = some sel)
    (results : List (Nat × Val)) (hperm : results.Perm (sel.map (wrapped app))) (j : Nat)
    (sel' : List (Id × Nat)) (hsel' : select idOf (writeAll idOf s (results.take j)) inputs [] = some sel')
    (results' : List (Nat × Val)) (hperm' : results'.Perm (sel'.map (wrapped app))) :
    (∀ p ∈ sel, entries (writeAll idOf (writeAll idOf s (results.take j)) results') p.1 = [(p.1, app p.2)]) ∧
    (∀ p ∈ sel, (p.2, app p.2) ∈ results.take j → (app p.2).isOk = true → ∀ q ∈ sel', q.1 ≠ p.1) := by
  have hs := select_spec idOf s inputs sel hsel
  have hs' := select_spec idOf _ inputs sel' hsel'
  have hnd := results_ids_nodup idOf app s inputs sel hs results hperm
  have hsub : (results.take j).Sublist results := List.take_sublist _ _
  have hnd1 : ((results.take j).map (fun r => idOf r.1)).Nodup := (hsub.map _).nodup hnd
  have hfresh1 : ∀ r ∈ results.take j, hasDone s (idOf r.1) = false :=
    fun r hr => results_fresh idOf app s inputs sel hs results hperm r (hsub.subset hr)
  have key1 := entries_writeAll_mem idOf (results.take j) s hnd1 hfresh1
  have key2 := apply_any_schedule' idOf app _ inputs sel' hs' results' hperm'
  constructor
  · intro p hp
    by_cases hd : hasDone (writeAll idOf s (results.take j)) p.1 = true
    · -- completed before the interruption: not selected again, untouched by the second run
      have hnot : ∀ q ∈ sel', q.1 ≠ p.1 := by
        intro q hq e; have := hs'.fresh q hq; rw [e, hd] at this; cases this
      rw [key2.2 p.1 hnot]
      by_cases hin : ∃ r ∈ results.take j, idOf r.1 = p.1
      · obtain ⟨r, hr, e⟩ := hin
        obtain ⟨p', hp', rfl⟩ := results_mem idOf app s inputs sel hs results hperm r (hsub.subset hr)
        have : p' = p := fst_inj_of_nodup sel hs.nodup p' p hp' hp ((hs.idOk p' hp').symm.trans e)
        subst this
        have := key1 _ hr
        simpa [hs.idOk p' hp'] using this
      · have : entries (writeAll idOf s (results.take j)) p.1 = entries s p.1 :=
          entries_writeAll_other idOf _ s p.1 (fun r hr e => hin ⟨r, hr, e⟩)
        rw [hasDone_congr _ _ _ this, hs.fresh p hp] at hd; cases hd
    · -- still missing: selected again and written by the second run
      have hd' : hasDone (writeAll idOf s (results.take j)) (idOf p.2) = false := by
        rw [hs.idOk p hp]; simpa using hd
      have hmem : (idOf p.2, p.2) ∈ sel' := hs'.complete p.2 (hs.mem p hp) hd'
      have := key2.1 _ hmem
      simpa [hs.idOk p hp] using this
  · intro p hp hin hok q hq e
    have := key1 _ hin
    have hd : hasDone (writeAll idOf s (results.take j)) (idOf p.2) = true := by
      simp [hasDone, this, hok]
    rw [hs.idOk p hp, ← e, hs'.fresh q hq] at hd; cases hd

/-! ### `_call` -/

theorem afterInput_nc (s : Step) (n : NC) (h : s.skipNC = true) : afterInput s (.nc n) = .nc n := by
  simp [afterInput, Val.isNC, h]

/-- a not-completed value produced by an inner part of a composition comes out of the whole
composition unchanged, whatever the outer steps are (as long as they skip not-completed input) -/
theorem nc_passthrough' (outer inner : List Step) (hin : inner ≠ [])
    (hskip : ∀ s ∈ outer, s.skipNC = true) (hk : ∀ s ∈ outer, s.kind ≠ .loader)
    (x : V) (n : NC) (h : callChain inner (some (.ok x)) = .nc n) :
    callChain (outer ++ inner) (some (.ok x)) = .nc n := by
  induction outer with
  | nil => simpa using h
  | cons s outer ih =>
    have ih := ih (fun t ht => hskip t (List.mem_cons_of_mem _ ht)) (fun t ht => hk t (List.mem_cons_of_mem _ ht))
    have hne : (outer ++ inner).isEmpty = false := by
      cases outer <;> cases inner <;> simp_all
    have hkind : (s.kind != .loader) = true := by simpa using hk s List.mem_cons_self
    simp only [List.cons_append, callChain, Val.isNC, Bool.false_and, Bool.false_eq_true, if_false, hne, hkind,
      Bool.not_false, Bool.and_self, if_true, ih]
    exact afterInput_nc s n (hskip s List.mem_cons_self)

/-- a not-completed *input* is returned as is -/
theorem nc_input_passthrough (s : Step) (rest : List Step) (h : s.skipNC = true) (n : NC) :
    callChain (s :: rest) (some (.nc n)) = .nc n := by
  simp [callChain, Val.isNC, h]

theorem afterInput_cases (s : Step) (v2 : Val) :
    (afterInput s v2 = v2 ∧ v2.isNC = true) ∨
    (∃ n, afterInput s v2 = .nc n ∧ n.origin = s.name) ∨
    (∃ n w, afterInput s v2 = .nc n ∧ s.main w = .retNC n) ∨
    (∃ r w, afterInput s v2 = .ok r ∧ s.main w = .ret r) := by
  unfold afterInput
  split
  · next h => left; simp_all
  · split
    · next n hv =>
      right; left
      refine ⟨n, rfl, ?_⟩
      unfold validate at hv
      split at hv
      · cases hv
      · split at hv
        · cases hv
        · cases hv; rfl
    · unfold runMain
      cases hm : s.main v2 with
      | ret r => right; right; right; exact ⟨r, v2, rfl, hm⟩
      | raise t => right; left; exact ⟨_, rfl, rfl⟩
      | retNone => right; left; exact ⟨_, rfl, rfl⟩
      | retNC n => right; right; left; exact ⟨n, v2, rfl, hm⟩

/-- every not-completed result is accounted for: it is the input itself, or it names the step
that created it, or a step's `main` returned it -/
theorem call_nc_origin' (steps : List Step) (hne : steps ≠ []) (v : Option Val) (n : NC)
    (h : callChain steps v = .nc n) :
    v = some (.nc n) ∨ ∃ s ∈ steps, n.origin = s.name ∨ ∃ w, s.main w = .retNC n := by
  induction steps generalizing v n with
  | nil => exact absurd rfl hne
  | cons s rest ih =>
    unfold callChain at h
    cases v with
    | none =>
      simp only at h
      split at h
      · cases h; exact Or.inr ⟨s, List.mem_cons_self, Or.inl rfl⟩
      · -- a non-skipping outermost step passes the fresh not-completed inwards
        right
        split at h
        · next hc =>
          have hr : rest ≠ [] := by intro e; simp [e] at hc
          rcases afterInput_cases s (callChain rest (some (.nc ⟨.error, s.name, .noneIn, none⟩))) with
            ⟨e, _⟩ | ⟨m, e, ho⟩ | ⟨m, w, e, hm⟩ | ⟨r, w, e, _⟩
          · rw [e] at h
            rcases ih hr _ _ h with e' | ⟨t, ht, hh⟩
            · cases e'; exact ⟨s, List.mem_cons_self, Or.inl rfl⟩
            · exact ⟨t, List.mem_cons_of_mem _ ht, hh⟩
          · rw [e] at h; cases h; exact ⟨s, List.mem_cons_self, Or.inl ho⟩
          · rw [e] at h; cases h; exact ⟨s, List.mem_cons_self, Or.inr ⟨w, hm⟩⟩
          · rw [e] at h; cases h
        · rcases afterInput_cases s (.nc ⟨.error, s.name, .noneIn, none⟩) with
            ⟨e, _⟩ | ⟨m, e, ho⟩ | ⟨m, w, e, hm⟩ | ⟨r, w, e, _⟩
          · rw [e] at h; cases h; exact ⟨s, List.mem_cons_self, Or.inl rfl⟩
          · rw [e] at h; cases h; exact ⟨s, List.mem_cons_self, Or.inl ho⟩
          · rw [e] at h; cases h; exact ⟨s, List.mem_cons_self, Or.inr ⟨w, hm⟩⟩
          · rw [e] at h; cases h
    | some x =>
      simp only at h
      split at h
      · left; rw [h]
      · split at h
        · next hc =>
          have hr : rest ≠ [] := by intro e; simp [e] at hc
          rcases afterInput_cases s (callChain rest (some x)) with ⟨e, _⟩ | ⟨m, e, ho⟩ | ⟨m, w, e, hm⟩ | ⟨r, w, e, _⟩
          · rw [e] at h
            rcases ih hr _ _ h with e' | ⟨t, ht, hh⟩
            · exact Or.inl e'
            · exact Or.inr ⟨t, List.mem_cons_of_mem _ ht, hh⟩
          · rw [e] at h; cases h; exact Or.inr ⟨s, List.mem_cons_self, Or.inl ho⟩
          · rw [e] at h; cases h; exact Or.inr ⟨s, List.mem_cons_self, Or.inr ⟨w, hm⟩⟩
          · rw [e] at h; cases h
        · rcases afterInput_cases s x with ⟨e, _⟩ | ⟨m, e, ho⟩ | ⟨m, w, e, hm⟩ | ⟨r, w, e, _⟩
          · rw [e] at h; exact Or.inl (by rw [h])
          · rw [e] at h; cases h; exact Or.inr ⟨s, List.mem_cons_self, Or.inl ho⟩
          · rw [e] at h; cases h; exact Or.inr ⟨s, List.mem_cons_self, Or.inr ⟨w, hm⟩⟩
          · rw [e] at h; cases h

/-- a completed result is what the outermost step's `main` returned (or the input itself when it
never ran) -/
theorem call_ok_from_main' (s : Step) (rest : List Step) (v : Option Val) (r : V)
    (h : callChain (s :: rest) v = .ok r) : ∃ w, s.main w = .ret r := by
  unfold callChain at h
  have key : ∀ (v1 v2 : Val), (if (v1.isNC && s.skipNC) = true then v1 else afterInput s v2) = .ok r →
      ∃ w, s.main w = .ret r := by
    intro v1 v2 h
    split at h
    · next hc => rw [h] at hc; simp [Val.isNC] at hc
    · rcases afterInput_cases s v2 with ⟨e, hn⟩ | ⟨m, e, _⟩ | ⟨m, w, e, _⟩ | ⟨r', w, e, hm⟩
      · rw [e] at h; rw [h] at hn; simp [Val.isNC] at hn
      · rw [e] at h; cases h
      · rw [e] at h; cases h
      · rw [e] at h; cases h; exact ⟨w, hm⟩
  cases v with
  | none => exact key _ _ h
  | some x => exact key _ _ h

end CogentModel.Composable
