import CogentModel.Model.ControllerFail
import CogentModel.Proofs.CtlInv
/-! # C07 — dirty marks survive an `update()` that raises part way through the walk (helper lemmas) -/
namespace CogentModel.CtlF
open CogentModel.Ctl (St Op upd StackOK)
variable {V : Type} [Inhabited V]

def WF (g : Graph V) : Prop := ∀ k, k < g.length → ∀ a, a ∈ (defn g k).args → a < k

def LocalOK (g : Graph V) (s : St V) (k : Nat) : Prop :=
  match defn g k with
  | .leaf => s.values k = s.setting k
  | .derived args f => f (args.map s.values) = some (s.values k)

theorem LocalOK.congr {g : Graph V} {s s' : St V} {k : Nat} (h : LocalOK g s k)
    (hk : s'.values k = s.values k) (ha : ∀ a, a ∈ (defn g k).args → s'.values a = s.values a)
    (hs : s'.setting k = s.setting k) : LocalOK g s' k := by
  unfold LocalOK at *
  cases hd : defn g k with
  | leaf => simp [hd] at h ⊢; rw [hk, hs, h]
  | derived args f =>
    simp [hd] at h ⊢
    have : args.map s'.values = args.map s.values := by
      apply List.map_congr_left
      intro a ha'
      exact ha a (by simp [hd, Defn.args, ha'])
    rw [this, hk, h]

theorem mem_clients {g : Graph V} {k j : Nat} (hj : j < g.length) (h : k ∈ (defn g j).args) :
    j ∈ clients g k := by
  simp [clients, hj, h]

theorem updateOne_fields (g : Graph V) (s s1 : St V) (k : Nat) (h : updateOne g s k = some s1) :
    s1.setting = s.setting ∧ s1.changed = s.changed ∧ s1.suspended = s.suspended ∧ s1.stack = s.stack ∧
    ∀ j, j ≠ k → s1.values j = s.values j := by
  unfold updateOne at h
  cases hd : defn g k with
  | leaf =>
    rw [hd] at h; simp only [Option.some.injEq] at h; subst h
    exact ⟨rfl, rfl, rfl, rfl, fun j hj => by simp [upd, hj]⟩
  | derived args f =>
    rw [hd] at h
    simp only [] at h
    cases hf : f (args.map s.values) with
    | none => rw [hf] at h; cases h
    | some v =>
      rw [hf] at h; simp only [Option.some.injEq] at h; subst h
      exact ⟨rfl, rfl, rfl, rfl, fun j hj => by simp [upd, hj]⟩

theorem updateOne_ok (g : Graph V) (hwf : WF g) (s s1 : St V) (k : Nat) (hk : k < g.length)
    (h : updateOne g s k = some s1) : LocalOK g s1 k := by
  unfold updateOne at h
  unfold LocalOK
  cases hd : defn g k with
  | leaf => rw [hd] at h; simp only [Option.some.injEq] at h; subst h; simp [upd]
  | derived args f =>
    rw [hd] at h
    simp only [] at h ⊢
    cases hf : f (args.map s.values) with
    | none => rw [hf] at h; cases h
    | some v =>
      rw [hf] at h; simp only [Option.some.injEq] at h; subst h
      have : args.map (upd s.values k v) = args.map s.values := by
        apply List.map_congr_left
        intro a ha
        have : a < k := hwf k hk a (by simp [hd, Defn.args, ha])
        have : a ≠ k := by omega
        simp [upd, this]
      simp only []
      rw [this, hf]
      simp [upd]

/-- every definition that is not marked dirty is locally consistent -/
def J (g : Graph V) (s : St V) : Prop := ∀ k, k < g.length → k ∉ s.changed → LocalOK g s k

/-- the walk keeps `J`, **however it ends** (completed or left by an exception) -/
theorem updateLoop_J (g : Graph V) : ∀ (ks : List Nat) (s : St V), J g s →
    J g (updateLoop g ks s).1 ∧ (updateLoop g ks s).1.setting = s.setting ∧
    (updateLoop g ks s).1.suspended = s.suspended ∧ (updateLoop g ks s).1.stack = s.stack := by
  intro ks
  induction ks with
  | nil => intro s h; exact ⟨h, rfl, rfl, rfl⟩
  | cons k ks ih =>
    intro s hJ
    unfold updateLoop
    by_cases hc : s.changed.contains k = true
    · simp only [hc, if_true]
      cases hu : updateOne g s k with
      | none => exact ⟨hJ, rfl, rfl, rfl⟩
      | some s1 =>
        simp only []
        obtain ⟨f1, f2, f3, f4, f5⟩ := updateOne_fields g s s1 k hu
        have hJ2 : J g { s1 with changed := s1.changed ++ clients g k } := by
          intro j hj hjc
          simp only [List.mem_append, not_or] at hjc
          rw [f2] at hjc
          have hjk : j ≠ k := by
            intro h; subst h; exact hjc.1 (by simpa using hc)
          apply (hJ j hj hjc.1).congr
          · exact f5 j hjk
          · intro a ha
            apply f5
            intro hak; subst hak
            exact hjc.2 (mem_clients hj ha)
          · show s1.setting j = _; rw [f1]
        obtain ⟨a, b, c, d⟩ := ih _ hJ2
        exact ⟨a, b.trans f1, c.trans f3, d.trans f4⟩
    · simp only [hc]
      exact ih s hJ

/-- a walk that completes leaves every definition consistent -/
theorem updateLoop_complete (g : Graph V) (hwf : WF g) :
    ∀ (ks : List Nat) (s : St V), ks.Pairwise (· < ·) → (∀ x, x ∈ ks → x < g.length) →
      (∀ j, j < g.length → j ∉ ks → ∀ x, x ∈ ks → j < x) →
      (∀ j, j < g.length → j ∉ ks → LocalOK g s j) →
      (∀ j, j ∈ ks → j ∉ s.changed → LocalOK g s j) →
      (updateLoop g ks s).2 = true →
      ∀ j, j < g.length → LocalOK g (updateLoop g ks s).1 j := by
  intro ks
  induction ks with
  | nil =>
    intro s _ _ _ hdone _ _ j hj
    exact hdone j hj (by simp)
  | cons k ks ih =>
    intro s hp hlt hlow hdone hpend
    have hp' := (List.pairwise_cons.1 hp)
    have hkn : k < g.length := hlt k (by simp)
    have hlt' : ∀ x, x ∈ ks → x < g.length := fun x hx => hlt x (by simp [hx])
    have hlow' : ∀ j, j < g.length → j ∉ ks → ∀ x, x ∈ ks → j < x := by
      intro j hj hjk x hx
      by_cases hjk' : j = k
      · subst hjk'; exact hp'.1 x hx
      · exact hlow j hj (by simp [hjk', hjk]) x (by simp [hx])
    unfold updateLoop
    by_cases hc : s.changed.contains k = true
    · simp only [hc, if_true]
      cases hu : updateOne g s k with
      | none => intro h; simp at h
      | some s1 =>
        simp only []
        obtain ⟨f1, f2, f3, f4, f5⟩ := updateOne_fields g s s1 k hu
        apply ih { s1 with changed := s1.changed ++ clients g k } hp'.2 hlt' hlow'
        · intro j hj hjk
          by_cases hjk' : j = k
          · subst hjk'
            exact (updateOne_ok g hwf s s1 j hj hu).congr rfl (fun _ _ => rfl) rfl
          · have hjlt : j < k := hlow j hj (by simp [hjk', hjk]) k (by simp)
            apply (hdone j hj (by simp [hjk', hjk])).congr
            · exact f5 j hjk'
            · intro a ha
              have : a < j := hwf j hj a ha
              exact f5 a (by omega)
            · show s1.setting j = _; rw [f1]
        · intro j hj hjc
          have hjk : j ≠ k := by
            have := hp'.1 j hj; omega
          have hjn := hlt' j hj
          simp only [List.mem_append, not_or] at hjc
          rw [f2] at hjc
          apply (hpend j (by simp [hj]) hjc.1).congr
          · exact f5 j hjk
          · intro a ha
            apply f5
            intro hak; subst hak
            exact hjc.2 (mem_clients hjn ha)
          · show s1.setting j = _; rw [f1]
    · simp only [hc]
      apply ih s hp'.2 hlt' hlow'
      · intro j hj hjk
        by_cases hjk' : j = k
        · subst hjk'
          exact hpend j (by simp) (by simpa using hc)
        · exact hdone j hj (by simp [hjk', hjk])
      · intro j hj hjc
        exact hpend j (by simp [hj]) hjc

theorem updateIntermediate_spec (g : Graph V) (hwf : WF g) (s : St V) (hJ : J g s) :
    J g (updateIntermediate g s).1 ∧ (updateIntermediate g s).1.suspended = s.suspended ∧
    (updateIntermediate g s).1.stack = s.stack ∧ (updateIntermediate g s).1.setting = s.setting ∧
    ((updateIntermediate g s).2 = true → s.suspended = false → (updateIntermediate g s).1.changed = []) := by
  unfold updateIntermediate
  cases hs : s.suspended with
  | true => simp [hJ, hs]
  | false =>
    simp only [Bool.false_eq_true, if_false]
    obtain ⟨a, b, c, d⟩ := updateLoop_J g (List.range g.length) s hJ
    cases hr : updateLoop g (List.range g.length) s with
    | mk s' ok =>
      rw [hr] at a b c d
      cases ok with
      | false => exact ⟨a, c.trans hs, d, b, by simp⟩
      | true =>
        simp only []
        have hall := updateLoop_complete g hwf (List.range g.length) s List.pairwise_lt_range
          (fun x hx => by simpa using hx) (fun j hj hjn => absurd (by simpa using hj) hjn)
          (fun j hj hjn => absurd (by simpa using hj) hjn) (fun j hj hjc => hJ j (by simpa using hj) hjc)
          (by rw [hr])
        rw [hr] at hall
        refine ⟨fun k hk _ => ?_, c.trans hs, d, b, by simp⟩
        exact (hall k hk).congr rfl (fun _ _ => rfl) rfl

/-- the invariant that survives failing recalculations -/
structure Inv (g : Graph V) (s : St V) : Prop where
  j : J g s
  stack : StackOK s.suspended s.stack

theorem step_inv (g : Graph V) (hwf : WF g) (s : St V) (o : Op V) (hI : Inv g s) :
    Inv g (step g s o).1 ∧
    ((step g s o).2 = true → (step g s o).1.suspended = false →
      (s.stack ≠ [] ∧ o ≠ Op.enter ∨ ∃ k v, o = Op.assign k v) → (step g s o).1.changed = []) := by
  cases o with
  | enter =>
    refine ⟨⟨hI.j, ⟨rfl, hI.stack⟩⟩, fun _ _ h => ?_⟩
    rcases h with ⟨_, h⟩ | ⟨k, v, h⟩
    · exact absurd rfl h
    · cases h
  | assign k v =>
    have hJ0 : J g { s with setting := upd s.setting k v, changed := s.changed ++ [k] } := by
      intro j hj hjc
      simp only [List.mem_append, List.mem_singleton, not_or] at hjc
      exact LocalOK.congr (hI.j j hj hjc.1) rfl (fun _ _ => rfl) (by simp [upd, hjc.2])
    obtain ⟨a, b, c, _, e⟩ := updateIntermediate_spec g hwf _ hJ0
    refine ⟨⟨a, ?_⟩, fun h1 h2 _ => ?_⟩
    · show StackOK (updateIntermediate g _).1.suspended (updateIntermediate g _).1.stack
      rw [b, c]; exact hI.stack
    · have h2' : (updateIntermediate g { s with setting := upd s.setting k v, changed := s.changed ++ [k] }).1.suspended = false := h2
      rw [b] at h2'
      exact e h1 h2'
  | exit =>
    unfold step
    cases hst : s.stack with
    | nil =>
      simp only []
      refine ⟨hI, fun _ _ h => ?_⟩
      rcases h with ⟨h, _⟩ | ⟨k, v, h⟩
      · exact absurd rfl h
      · cases h
    | cons old rest =>
      simp only []
      have hso := hI.stack
      rw [hst] at hso
      have hJ0 : J g { s with suspended := old, stack := rest } := hI.j
      obtain ⟨a, b, c, _, e⟩ := updateIntermediate_spec g hwf _ hJ0
      refine ⟨⟨a, ?_⟩, fun h1 h2 _ => ?_⟩
      · rw [b, c]; exact hso.2
      · rw [b] at h2; exact e h1 h2
  | xexit =>
    unfold step
    cases hst : s.stack with
    | nil =>
      simp only []
      refine ⟨hI, fun _ _ h => ?_⟩
      rcases h with ⟨h, _⟩ | ⟨k, v, h⟩
      · exact absurd rfl h
      · cases h
    | cons old rest =>
      simp only []
      have hso := hI.stack
      rw [hst] at hso
      have hJ0 : J g { s with suspended := old, stack := rest } := hI.j
      obtain ⟨a, b, c, _, e⟩ := updateIntermediate_spec g hwf _ hJ0
      refine ⟨⟨a, ?_⟩, fun h1 h2 _ => ?_⟩
      · rw [b, c]; exact hso.2
      · rw [b] at h2; exact e h1 h2

end CogentModel.CtlF
