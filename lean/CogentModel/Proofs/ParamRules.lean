import CogentModel.Model.ParamRules
/-! # C07 — exported parameter rules rebuild the same scoped settings (helper lemmas) -/
namespace CogentModel.Rules

/-- every Var in use holds a value inside its bounds (what `assign_all` establishes by clamping) -/
def WFSt (d : Defn) (s : St) : Prop :=
  ∀ e, e < d.nEdges → match s.setting e with
    | .var lo v hi => lo ≤ v ∧ v ≤ hi
    | .const _ => True

/-- one `assign_all` scope: all edges of `G` get one new setting object -/
def assignGroup (t : St) (G : List Nat) (σ : Setting) : St :=
  { asg := fun e => if G.contains e then t.next else t.asg e, store := upd t.store t.next σ, next := t.next + 1 }

/-! ### list facts -/

theorem eq_singleton_of {l : List Nat} {a : Nat} (hnd : l.Nodup) (hall : ∀ x, x ∈ l → x = a) (ha : a ∈ l) :
    l = [a] := by
  cases l with
  | nil => simp at ha
  | cons b l =>
    have hb : b = a := hall b (by simp)
    subst hb
    cases l with
    | nil => rfl
    | cons c l =>
      exfalso
      have hc : c = b := hall c (by simp)
      subst hc
      simp at hnd

theorem filter_len_one_unique {p : Nat → Bool} : ∀ {l : List Nat}, (l.filter p).length = 1 →
    ∀ a b, a ∈ l → b ∈ l → p a = true → p b = true → a = b := by
  intro l h a b ha hb pa pb
  have ha' : a ∈ l.filter p := List.mem_filter.2 ⟨ha, pa⟩
  have hb' : b ∈ l.filter p := List.mem_filter.2 ⟨hb, pb⟩
  match hl : l.filter p, h with
  | [x], _ =>
    rw [hl] at ha' hb'
    simp at ha' hb'
    rw [ha', hb']

/-! ### first occurrences and groups -/

theorem isFirst_iff (s : St) (e : Nat) : isFirst s e = true ↔ ∀ e', e' < e → s.asg e' ≠ s.asg e := by
  simp [isFirst]

theorem rep_exists (s : St) : ∀ x, ∃ f, f ≤ x ∧ isFirst s f = true ∧ s.asg f = s.asg x := by
  intro x
  induction x using Nat.strongRecOn with
  | _ x ih =>
    by_cases h : isFirst s x = true
    · exact ⟨x, Nat.le_refl _, h, rfl⟩
    · have : ∃ e', e' < x ∧ s.asg e' = s.asg x := by
        simpa [isFirst] using h
      obtain ⟨e', he', heq⟩ := this
      obtain ⟨f, hf, hff, hfa⟩ := ih e' he'
      exact ⟨f, by omega, hff, hfa.trans heq⟩

theorem first_inj (s : St) (a b : Nat) (ha : isFirst s a = true) (hb : isFirst s b = true)
    (h : s.asg a = s.asg b) : a = b := by
  rcases Nat.lt_trichotomy a b with hlt | heq | hgt
  · exact absurd h ((isFirst_iff s b).1 hb a hlt)
  · exact heq
  · exact absurd h.symm ((isFirst_iff s a).1 ha b hgt)

theorem mem_group (d : Defn) (s : St) (e x : Nat) : x ∈ group d s e ↔ x < d.nEdges ∧ s.asg x = s.asg e := by
  simp [group]

/-- the edges selected by the exported rule of `e` are exactly the edges sharing `e`'s setting -/
theorem mem_ruleGroup (d : Defn) (s : St) (e : Nat) (he : e < d.nEdges) (x : Nat) :
    x ∈ selected d (ruleOf d s e).edges ↔ x < d.nEdges ∧ s.asg x = s.asg e := by
  unfold ruleOf
  simp only []
  by_cases h1 : nGroups d s = 1
  · simp only [h1, if_true, selected, List.mem_range]
    constructor
    · intro hx
      refine ⟨hx, ?_⟩
      obtain ⟨f1, hf1, hf1f, hf1a⟩ := rep_exists s x
      obtain ⟨f2, hf2, hf2f, hf2a⟩ := rep_exists s e
      have := filter_len_one_unique (l := List.range d.nEdges) (p := isFirst s) h1 f1 f2
        (by simp; omega) (by simp; omega) hf1f hf2f
      rw [← hf1a, ← hf2a, this]
    · intro hx; exact hx.1
  · simp only [h1, if_false, selected]
    have hne : (group d s e).isEmpty = false := by
      have : e ∈ group d s e := (mem_group d s e e).2 ⟨he, rfl⟩
      cases hg : group d s e with
      | nil => rw [hg] at this; simp at this
      | cons a l => rfl
    simp only [hne, Bool.false_eq_true, if_false, List.mem_filter, List.mem_range, List.contains_iff_mem]
    constructor
    · intro ⟨hx, hm⟩; exact ⟨hx, ((mem_group d s e x).1 hm).2⟩
    · intro ⟨hx, ha⟩; exact ⟨hx, (mem_group d s e x).2 ⟨hx, ha⟩⟩

theorem hasDup_of_nodup : ∀ (l : List Nat), l.Nodup → hasDup l = false
  | [], _ => rfl
  | a :: as, h => by
    have h' := List.nodup_cons.1 h
    simp [hasDup, h'.1, hasDup_of_nodup as h'.2]

theorem selected_nodup (d : Defn) (edges : Option (List Nat)) : (selected d edges).Nodup := by
  unfold selected
  cases edges with
  | none => exact List.nodup_range
  | some es =>
    simp only []
    split
    · exact List.nodup_range
    · exact List.nodup_range.filter _

/-! ### one exported rule applied to any state -/

theorem setRule_ruleOf (d : Defn) (s : St) (hwf : WFSt d s) (e : Nat) (he : e < d.nEdges) (t : St) :
    setRule d t (ruleOf d s e) = .ok (assignGroup t (selected d (ruleOf d s e).edges) (s.setting e)) := by
  have hmem := mem_ruleGroup d s e he
  have hsel_e : e ∈ selected d (ruleOf d s e).edges := (hmem e).2 ⟨he, rfl⟩
  have hne : (selected d (ruleOf d s e).edges).isEmpty = false := by
    cases hg : selected d (ruleOf d s e).edges with
    | nil => rw [hg] at hsel_e; simp at hsel_e
    | cons a l => rfl
  -- the scopes are the single selected set
  have hsc : scopes d (ruleOf d s e).edges (indepOf d (ruleOf d s e).isIndependent)
      = [selected d (ruleOf d s e).edges] := by
    unfold scopes indepOf
    by_cases hi : d.indepDefault = true
    · by_cases hg : 2 ≤ (group d s e).length
      · have : (ruleOf d s e).isIndependent = some false := by simp [ruleOf, hi, hg]
        simp only [this, Bool.false_eq_true, if_false, hne]
      · have : (ruleOf d s e).isIndependent = none := by simp [ruleOf, hg]
        simp only [this, hi, if_true]
        -- the group is the single edge e
        have hall : ∀ x, x ∈ selected d (ruleOf d s e).edges → x = e := by
          intro x hx
          have hx' := (hmem x).1 hx
          have hxg : x ∈ group d s e := (mem_group d s e x).2 hx'
          have heg : e ∈ group d s e := (mem_group d s e e).2 ⟨he, rfl⟩
          match hgl : group d s e, hg with
          | [], _ => rw [hgl] at hxg; simp at hxg
          | [a], _ =>
            rw [hgl] at hxg heg
            simp at hxg heg
            rw [hxg, heg]
          | a :: b :: l, hg' => simp at hg'
        rw [eq_singleton_of (selected_nodup d _) hall hsel_e]
        rfl
    · have hi' : d.indepDefault = false := by simpa using hi
      have : (ruleOf d s e).isIndependent = none := by simp [ruleOf, hi']
      simp only [this, hi', Bool.false_eq_true, if_false, hne]
  have hedges : ∀ es, (ruleOf d s e).edges = some es → ∀ x, x ∈ es → x < d.nEdges := by
    intro es hes x hx
    unfold ruleOf at hes
    simp only [] at hes
    split at hes
    · cases hes
    · cases hes
      exact ((mem_group d s e x).1 hx).1
  have hnodup : ∀ es, (ruleOf d s e).edges = some es → es.Nodup := by
    intro es hes
    unfold ruleOf at hes
    simp only [] at hes
    split at hes
    · cases hes
    · cases hes
      exact List.nodup_range.filter _
  have hcheck : badEdges d (ruleOf d s e).edges = false := by
    unfold badEdges
    cases hed : (ruleOf d s e).edges with
    | none => rfl
    | some es =>
      simp only [Bool.or_eq_false_iff, List.any_eq_false, decide_eq_true_eq]
      refine ⟨?_, hasDup_of_nodup es (hnodup es hed)⟩
      intro x hx
      have := hedges es hed x hx
      omega
  have hw := hwf e he
  unfold setRule
  cases hs : s.setting e with
  | const v =>
    have h1 : (ruleOf d s e).isConstant = true := by simp [ruleOf, hs, Setting.isVar]
    have h2 : (ruleOf d s e).init = none := by simp [ruleOf, hs]
    have h3 : (ruleOf d s e).lower = none := by simp [ruleOf, hs]
    have h4 : (ruleOf d s e).upper = none := by simp [ruleOf, hs]
    have h5 : (ruleOf d s e).value = some v := by simp [ruleOf, hs]
    simp only [h1, h2, h3, h4, h5, truthy, Bool.or_self, Bool.and_false, Bool.false_eq_true, if_false,
      Bool.not_true, Bool.false_and, if_true]
    unfold assignAll
    rw [hcheck]
    simp only [Bool.false_eq_true, if_false]
    rw [hsc]
    simp [mkSettings, mkSetting, orElse, assignScopes, assignGroup]
  | var lo v hi =>
    rw [hs] at hw
    have h1 : (ruleOf d s e).isConstant = false := by simp [ruleOf, hs, Setting.isVar]
    have h2 : (ruleOf d s e).init = some v := by simp [ruleOf, hs]
    have h3 : (ruleOf d s e).lower = some lo := by simp [ruleOf, hs]
    have h4 : (ruleOf d s e).upper = some hi := by simp [ruleOf, hs]
    have h5 : (ruleOf d s e).value = none := by simp [ruleOf, hs]
    simp only [h1, h2, h3, h4, h5, truthy, Bool.false_and, Bool.false_eq_true, if_false,
      Bool.not_false, Option.isSome_some, Bool.and_false, Bool.true_and]
    unfold assignAll
    rw [hcheck]
    simp only [Bool.false_eq_true, if_false]
    rw [hsc]
    have c1 : ¬ hi < lo := by
      have : lo ≤ hi := Rat.le_trans hw.1 hw.2
      exact Rat.not_lt.2 this
    have c2 : ¬ v < lo := Rat.not_lt.2 hw.1
    have c3 : ¬ hi < v := Rat.not_lt.2 hw.2
    simp [mkSettings, mkSetting, clampVar, orElse, assignScopes, assignGroup, c1, c2, c3]

/-! ### all exported rules applied in order -/

/-- position of `x` in `l` -/
def pos : List Nat → Nat → Nat
  | [], _ => 0
  | a :: l, x => if x = a then 0 else pos l x + 1

theorem pos_inj : ∀ (l : List Nat) (a b : Nat), a ∈ l → b ∈ l → pos l a = pos l b → a = b := by
  intro l
  induction l with
  | nil => intro a b ha; simp at ha
  | cons c l ih =>
    intro a b ha hb h
    simp only [pos] at h
    by_cases hac : a = c <;> by_cases hbc : b = c
    · rw [hac, hbc]
    · simp [hac, hbc] at h
    · simp [hac, hbc] at h
    · simp only [hac, hbc, if_false, Nat.add_right_cancel_iff] at h
      exact ih a b (by simpa [hac] using ha) (by simpa [hbc] using hb) h

theorem applyRules_fold (d : Defn) (s : St) (hwf : WFSt d s) :
    ∀ (fs : List Nat) (t0 : St), fs.Nodup → (∀ f, f ∈ fs → f < d.nEdges) →
      (∀ a, a ∈ fs → ∀ b, b ∈ fs → s.asg a = s.asg b → a = b) →
      ∃ t, applyRules d t0 (fs.map (ruleOf d s)) = .ok t ∧ t.next = t0.next + fs.length ∧
        (∀ x, x < d.nEdges → ∀ f, f ∈ fs → s.asg x = s.asg f →
          t.asg x = t0.next + pos fs f ∧ t.store (t0.next + pos fs f) = s.setting f) ∧
        (∀ x, x < d.nEdges → (∀ f, f ∈ fs → s.asg x ≠ s.asg f) → t.asg x = t0.asg x) ∧
        (∀ i, i < t0.next → t.store i = t0.store i) := by
  intro fs
  induction fs with
  | nil =>
    intro t0 _ _ _
    refine ⟨t0, rfl, by simp, ?_, fun _ _ _ => rfl, fun _ _ => rfl⟩
    intro x _ f hf; simp at hf
  | cons f fs ih =>
    intro t0 hnd hlt hinj
    have hfn : f < d.nEdges := hlt f (by simp)
    have hnd' := List.nodup_cons.1 hnd
    simp only [List.map_cons, applyRules, setRule_ruleOf d s hwf f hfn t0]
    obtain ⟨t, h1, h2, h3, h4, h5⟩ := ih (assignGroup t0 (selected d (ruleOf d s f).edges) (s.setting f)) hnd'.2
      (fun g hg => hlt g (by simp [hg])) (fun a ha b hb => hinj a (by simp [ha]) b (by simp [hb]))
    have hmem := mem_ruleGroup d s f hfn
    have hnext : (assignGroup t0 (selected d (ruleOf d s f).edges) (s.setting f)).next = t0.next + 1 := rfl
    have hasg : ∀ x, (assignGroup t0 (selected d (ruleOf d s f).edges) (s.setting f)).asg x
        = if x ∈ selected d (ruleOf d s f).edges then t0.next else t0.asg x := by
      intro x; simp [assignGroup]
    have hstore : ∀ i, (assignGroup t0 (selected d (ruleOf d s f).edges) (s.setting f)).store i
        = if i = t0.next then s.setting f else t0.store i := by
      intro i; simp [assignGroup, upd]
    refine ⟨t, h1, ?_, ?_, ?_, ?_⟩
    · rw [h2, hnext]; simp; omega
    · intro x hx g hg hxg
      rcases List.mem_cons.1 hg with hgf | hgfs
      · subst hgf
        have hxin : x ∈ selected d (ruleOf d s g).edges := (hmem x).2 ⟨hx, hxg⟩
        have hnone : ∀ f', f' ∈ fs → s.asg x ≠ s.asg f' := by
          intro f' hf' heq
          have : g = f' := hinj g (by simp) f' (by simp [hf']) (hxg.symm.trans heq)
          subst this
          exact hnd'.1 hf'
        constructor
        · rw [h4 x hx hnone, hasg, if_pos hxin]; simp [pos]
        · have : t0.next < (assignGroup t0 (selected d (ruleOf d s g).edges) (s.setting g)).next := by
            rw [hnext]; omega
          simp only [pos, if_true, Nat.add_zero]
          rw [h5 t0.next this, hstore]; simp
      · have hgne : g ≠ f := by
          intro h; subst h; exact hnd'.1 hgfs
        obtain ⟨a1, a2⟩ := h3 x hx g hgfs hxg
        rw [hnext] at a1 a2
        simp only [pos, hgne, if_false]
        constructor
        · rw [a1]; omega
        · rw [← a2]; congr 1; omega
    · intro x hx hnone
      have hxnot : x ∉ selected d (ruleOf d s f).edges := by
        intro hin
        exact hnone f (by simp) ((hmem x).1 hin).2
      rw [h4 x hx (fun f' hf' => hnone f' (by simp [hf'])), hasg, if_neg hxnot]
    · intro i hi
      rw [h5 i (by rw [hnext]; omega), hstore]
      have : i ≠ t0.next := by omega
      simp [this]

/-- **round trip**: applying the exported rules, in order, to a newly built function yields the same
setting for every edge, the same sharing of setting objects, hence the same number of free
parameters. -/
theorem roundtrip (d : Defn) (s : St) (hwf : WFSt d s) :
    ∃ s', applyRules d (fresh d) (exportRules d s) = .ok s' ∧
      (∀ e, e < d.nEdges → s'.setting e = s.setting e) ∧
      (∀ e1 e2, e1 < d.nEdges → e2 < d.nEdges → (s'.asg e1 = s'.asg e2 ↔ s.asg e1 = s.asg e2)) ∧
      nfp d s' = nfp d s := by
  have hfs_mem : ∀ f, f ∈ (List.range d.nEdges).filter (isFirst s) ↔ f < d.nEdges ∧ isFirst s f = true := by
    intro f; simp
  obtain ⟨t, h1, _, h3, _, _⟩ := applyRules_fold d s hwf ((List.range d.nEdges).filter (isFirst s)) (fresh d)
    (List.nodup_range.filter _) (fun f hf => ((hfs_mem f).1 hf).1)
    (fun a ha b hb h => first_inj s a b ((hfs_mem a).1 ha).2 ((hfs_mem b).1 hb).2 h)
  have hrep : ∀ x, x < d.nEdges → ∃ f, f ∈ (List.range d.nEdges).filter (isFirst s) ∧ s.asg x = s.asg f := by
    intro x hx
    obtain ⟨f, hf, hff, hfa⟩ := rep_exists s x
    exact ⟨f, (hfs_mem f).2 ⟨by omega, hff⟩, hfa.symm⟩
  have hset : ∀ e, e < d.nEdges → t.setting e = s.setting e := by
    intro e he
    obtain ⟨f, hf, hef⟩ := hrep e he
    obtain ⟨a1, a2⟩ := h3 e he f hf hef
    show t.store (t.asg e) = s.store (s.asg e)
    rw [a1, a2, hef]; rfl
  have hpart : ∀ e1 e2, e1 < d.nEdges → e2 < d.nEdges → (t.asg e1 = t.asg e2 ↔ s.asg e1 = s.asg e2) := by
    intro e1 e2 he1 he2
    obtain ⟨f1, hf1, hef1⟩ := hrep e1 he1
    obtain ⟨f2, hf2, hef2⟩ := hrep e2 he2
    rw [(h3 e1 he1 f1 hf1 hef1).1, (h3 e2 he2 f2 hf2 hef2).1]
    constructor
    · intro h
      have : f1 = f2 := pos_inj _ f1 f2 hf1 hf2 (by omega)
      rw [hef1, hef2, this]
    · intro h
      have : f1 = f2 := first_inj s f1 f2 ((hfs_mem f1).1 hf1).2 ((hfs_mem f2).1 hf2).2
        (hef1.symm.trans (h.trans hef2))
      rw [this]
  refine ⟨t, h1, hset, hpart, ?_⟩
  unfold nfp
  congr 1
  apply List.filter_congr
  intro e he
  have he' : e < d.nEdges := by simpa using he
  have hfirst : isFirst t e = isFirst s e := by
    rw [Bool.eq_iff_iff, isFirst_iff, isFirst_iff]
    constructor
    · intro h e' he'' heq
      exact h e' he'' ((hpart e' e (by omega) he').2 heq)
    · intro h e' he'' heq
      exact h e' he'' ((hpart e' e (by omega) he').1 heq)
  rw [hfirst, hset e he']

/-! ### every state reached by `set_param_rule` calls is well formed -/

def Good : Setting → Prop
  | .var lo v hi => lo ≤ v ∧ v ≤ hi
  | .const _ => True

/-- ids in use are below the fresh-id counter, and every Var in use is within its bounds -/
def Inv2 (d : Defn) (s : St) : Prop := (∀ e, e < d.nEdges → s.asg e < s.next) ∧ WFSt d s

theorem wf_iff_good (d : Defn) (s : St) : WFSt d s ↔ ∀ e, e < d.nEdges → Good (s.setting e) := by
  unfold WFSt Good
  constructor <;> intro h e he <;> have := h e he <;> cases hs : s.setting e <;> simp_all

theorem clampVar_good (lo v hi : Rat) (σ : Setting) (h : clampVar lo v hi = .ok σ) : Good σ := by
  unfold clampVar at h
  by_cases h1 : hi < lo
  · simp [h1] at h
  · by_cases h2 : v < lo
    · simp only [h1, h2, if_true, if_false, Except.ok.injEq] at h
      subst h; exact ⟨Rat.le_refl, Rat.not_lt.1 h1⟩
    · by_cases h3 : hi < v
      · simp only [h1, h2, h3, if_true, if_false, Except.ok.injEq] at h
        subst h; exact ⟨Rat.not_lt.1 h1, Rat.le_refl⟩
      · simp only [h1, h2, h3, if_false, Except.ok.injEq] at h
        subst h; exact ⟨Rat.not_lt.1 h2, Rat.not_lt.1 h3⟩

theorem mkSetting_good (d : Defn) (s : St) (sc : List Nat) (value lower upper : Option Rat) (c : Bool)
    (σ : Setting) (h : mkSetting d s sc value lower upper c = .ok σ) : Good σ := by
  unfold mkSetting at h
  cases c with
  | true => simp only [if_true, Except.ok.injEq] at h; subst h; trivial
  | false =>
    simp only [Bool.false_eq_true, if_false] at h
    exact clampVar_good _ _ _ σ h

theorem mkSettings_good (d : Defn) (s : St) (value lower upper : Option Rat) (c : Bool) :
    ∀ (scs : List (List Nat)) (l : List (List Nat × Setting)),
      mkSettings d s value lower upper c scs = .ok l → ∀ p, p ∈ l → Good p.2 := by
  intro scs
  induction scs with
  | nil => intro l h p hp; simp [mkSettings] at h; subst h; simp at hp
  | cons sc scs ih =>
    intro l h p hp
    simp only [mkSettings] at h
    cases h1 : mkSetting d s sc value lower upper c with
    | error e => rw [h1] at h; simp at h
    | ok σ =>
      rw [h1] at h
      simp only [] at h
      cases h2 : mkSettings d s value lower upper c scs with
      | error e => rw [h2] at h; simp at h
      | ok l' =>
        rw [h2] at h
        simp only [Except.ok.injEq] at h
        subst h
        rcases List.mem_cons.1 hp with hp | hp
        · subst hp; exact mkSetting_good d s sc value lower upper c σ h1
        · exact ih l' h2 p hp

theorem assignScopes_inv (d : Defn) : ∀ (l : List (List Nat × Setting)) (s : St),
    Inv2 d s → (∀ p, p ∈ l → Good p.2) → Inv2 d (assignScopes s l) := by
  intro l
  induction l with
  | nil => intro s h _; exact h
  | cons p l ih =>
    intro s h hg
    obtain ⟨sc, σ⟩ := p
    simp only [assignScopes]
    apply ih _ _ (fun p hp => hg p (by simp [hp]))
    refine ⟨?_, (wf_iff_good d _).2 ?_⟩
    · intro e he
      show (if sc.contains e then s.next else s.asg e) < s.next + 1
      have := h.1 e he
      split <;> omega
    · intro e he
      show Good (upd s.store s.next σ (if sc.contains e then s.next else s.asg e))
      by_cases hc : sc.contains e = true
      · simp only [hc, if_true, upd]
        exact hg (sc, σ) (by simp)
      · have hlt := h.1 e he
        have hne : s.asg e ≠ s.next := by omega
        have hc' : sc.contains e = false := by simpa using hc
        have : (if sc.contains e = true then s.next else s.asg e) = s.asg e := by rw [hc']; rfl
        rw [this]
        simp only [upd, hne, if_false]
        exact (wf_iff_good d s).1 h.2 e he

theorem setRule_inv (d : Defn) (s s' : St) (r : RuleArgs) (h : setRule d s r = .ok s') (hI : Inv2 d s) :
    Inv2 d s' := by
  unfold setRule at h
  split at h
  · cases h
  · split at h
    · cases h
    · unfold assignAll at h
      split at h
      · cases h
      · split at h
        · cases h
        · rename_i l hl
          cases h
          exact assignScopes_inv d l s hI (mkSettings_good d s _ _ _ _ _ l hl)

theorem fresh_inv (d : Defn) (hd : d.dLo ≤ d.dVal ∧ d.dVal ≤ d.dHi) : Inv2 d (fresh d) := by
  unfold fresh
  split
  · refine ⟨fun e he => he, (wf_iff_good d _).2 fun e _ => hd⟩
  · refine ⟨fun e _ => Nat.zero_lt_one, (wf_iff_good d _).2 fun e _ => hd⟩

end CogentModel.Rules
