import CogentModel.Model.NJ
import Mathlib.Tactic.Ring
import Mathlib.Tactic.Linarith
import Mathlib.Tactic.FieldSimp
import Mathlib.Algebra.Order.Field.Rat
/-! Helper lemmas for C15 (neighbour joining): sums, cherries, the realisation invariant of `join`,
the loop, the final three-node step, tip labels. -/
namespace CogentModel.NJ

theorem get_tab (n : Nat) (f : Nat → Nat → Rat) (a b : Nat) (ha : a < n) (hb : b < n) :
    get (tab n f) a b = f a b := by
  simp [get, tab, List.getD_eq_getElem?_getD, ha, hb]

theorem sumTo_congr (n : Nat) (f g : Nat → Rat) (h : ∀ k, k < n → f k = g k) : sumTo n f = sumTo n g := by
  induction n with
  | zero => rfl
  | succ n ih =>
    simp only [sumTo]
    rw [ih (fun k hk => h k (by omega)), h n (by omega)]

theorem sumTo_add (n : Nat) (f g : Nat → Rat) : sumTo n (fun k => f k + g k) = sumTo n f + sumTo n g := by
  induction n with
  | zero => simp [sumTo]
  | succ n ih => simp only [sumTo]; rw [ih]; ring

theorem sumTo_sub (n : Nat) (f g : Nat → Rat) : sumTo n (fun k => f k - g k) = sumTo n f - sumTo n g := by
  induction n with
  | zero => simp [sumTo]
  | succ n ih => simp only [sumTo]; rw [ih]; ring

theorem sumTo_const (n : Nat) (c : Rat) : sumTo n (fun _ => c) = n * c := by
  induction n with
  | zero => simp [sumTo]
  | succ n ih => simp only [sumTo]; rw [ih]; push_cast; ring

theorem sumTo_zero (n : Nat) (g : Nat → Rat) (h : ∀ k, k < n → g k = 0) : sumTo n g = 0 := by
  rw [sumTo_congr n g (fun _ => 0) h, sumTo_const]; ring

theorem sumTo_one (n i : Nat) (g : Nat → Rat) (hi : i < n) (h : ∀ k, k < n → k ≠ i → g k = 0) :
    sumTo n g = g i := by
  induction n with
  | zero => omega
  | succ n ih =>
    simp only [sumTo]
    by_cases hin : i = n
    · subst hin
      rw [sumTo_zero i g (fun k hk => h k (by omega) (by omega))]; ring
    · rw [ih (by omega) (fun k hk hki => h k (by omega) hki), h n (by omega) (fun e => hin e.symm)]; ring

theorem sumTo_two (n i j : Nat) (g : Nat → Rat) (hij : i ≠ j) (hi : i < n) (hj : j < n)
    (h : ∀ k, k < n → k ≠ i → k ≠ j → g k = 0) : sumTo n g = g i + g j := by
  induction n with
  | zero => omega
  | succ n ih =>
    simp only [sumTo]
    by_cases hin : i = n
    · subst hin
      rw [sumTo_one i j g (by omega) (fun k hk hkj => h k (by omega) (by omega) hkj)]; ring
    · by_cases hjn : j = n
      · subst hjn
        rw [sumTo_one j i g (by omega) (fun k hk hki => h k (by omega) hki (by omega))]
      · rw [ih (by omega) (by omega) (fun k hk => h k (by omega)),
          h n (by omega) (fun e => hin e.symm) (fun e => hjn e.symm)]; ring

/-- `(i, j)` is a cherry of the metric `d` on `0..L-1`: there are pendant lengths `ai, aj ≥ 0` and a vector
`e` (distances from the cherry's parent) with `d i k = ai + e k`, `d j k = aj + e k`, `d i j = ai + aj`. -/
structure Cherry (d : Mat) (L i j : Nat) (ai aj : Rat) (e : Nat → Rat) : Prop where
  hij : i ≠ j
  hi : i < L
  hj : j < L
  nni : 0 ≤ ai
  nnj : 0 ≤ aj
  dij : get d i j = ai + aj
  di : ∀ k, k < L → k ≠ i → k ≠ j → get d i k = ai + e k
  dj : ∀ k, k < L → k ≠ i → k ≠ j → get d j k = aj + e k

def Sym (d : Mat) (L : Nat) : Prop := ∀ a b, a < L → b < L → get d a b = get d b a
def ZeroDiag (d : Mat) (L : Nat) : Prop := ∀ a, a < L → get d a a = 0

theorem clamp0_of_nonneg (x : Rat) (h : 0 ≤ x) : clamp0 x = x := by
  unfold clamp0
  by_cases h' : 0 < x
  · rw [if_pos h']
  · rw [if_neg h']; linarith

theorem colSum_diff (d : Mat) (L i j : Nat) (ai aj : Rat) (e : Nat → Rat)
    (hs : Sym d L) (hz : ZeroDiag d L) (hc : Cherry d L i j ai aj e) :
    colSum d L i - colSum d L j = ((L : Rat) - 2) * (ai - aj) := by
  unfold colSum
  rw [← sumTo_sub]
  have h1 : sumTo L (fun k => get d k i - get d k j)
      = sumTo L (fun k => (get d k i - get d k j - (ai - aj)) + (ai - aj)) :=
    sumTo_congr _ _ _ (fun k _ => by ring)
  rw [h1, sumTo_add, sumTo_const,
    sumTo_two L i j (fun k => get d k i - get d k j - (ai - aj)) hc.hij hc.hi hc.hj]
  · show get d i i - get d i j - (ai - aj) + (get d j i - get d j j - (ai - aj)) + ↑L * (ai - aj) = _
    rw [hz i hc.hi, hz j hc.hj, hs j i hc.hj hc.hi, hc.dij]; ring
  · intro k hk hki hkj
    show get d k i - get d k j - (ai - aj) = 0
    rw [hs k i hk hc.hi, hs k j hk hc.hj, hc.di k hk hki hkj, hc.dj k hk hki hkj]; ring

theorem distDiff_cherry (d : Mat) (L i j : Nat) (ai aj : Rat) (e : Nat → Rat) (hL : 2 < L)
    (hs : Sym d L) (hz : ZeroDiag d L) (hc : Cherry d L i j ai aj e) :
    distDiff d L i j = ai - aj := by
  unfold distDiff
  rw [colSum_diff d L i j ai aj e hs hz hc]
  have : ((L : Rat) - 2) ≠ 0 := by
    have : (2 : Rat) < (L : Rat) := by exact_mod_cast hL
    linarith
  field_simp

theorem leftLen_cherry (d : Mat) (L i j : Nat) (ai aj : Rat) (e : Nat → Rat) (hL : 2 < L)
    (hs : Sym d L) (hz : ZeroDiag d L) (hc : Cherry d L i j ai aj e) : leftLen d L i j = ai := by
  unfold leftLen
  rw [distDiff_cherry d L i j ai aj e hL hs hz hc, hc.dij]
  have : (1 / 2 : Rat) * (ai + aj + (ai - aj)) = ai := by ring
  rw [this, clamp0_of_nonneg _ hc.nni]

theorem rightLen_cherry (d : Mat) (L i j : Nat) (ai aj : Rat) (e : Nat → Rat) (hL : 2 < L)
    (hs : Sym d L) (hz : ZeroDiag d L) (hc : Cherry d L i j ai aj e) : rightLen d L i j = aj := by
  unfold rightLen
  rw [distDiff_cherry d L i j ai aj e hL hs hz hc, hc.dij]
  have : (1 / 2 : Rat) * (ai + aj - (ai - aj)) = aj := by ring
  rw [this, clamp0_of_nonneg _ hc.nnj]

theorem newDist_cherry (d : Mat) (L i j : Nat) (ai aj : Rat) (e : Nat → Rat)
    (hc : Cherry d L i j ai aj e) (k : Nat) (hk : k < L) (hki : k ≠ i) (hkj : k ≠ j) :
    newDist d i j k = e k := by
  unfold newDist
  rw [hc.di k hk hki hkj, hc.dj k hk hki hkj, hc.dij]; ring

/-- all tip pairs inside the subtree have path length `D` -/
def Real (D : Nat → Nat → Rat) : T → Prop
  | .tip _ => True
  | .bin l1 t1 l2 t2 => Real D t1 ∧ Real D t2 ∧
      ∀ p ∈ t1.depths, ∀ q ∈ t2.depths, D p.1 q.1 = p.2 + l1 + l2 + q.2

/-- the partial tree realises `D`: inside every node, and across nodes through the current matrix -/
structure Inv (D : Nat → Nat → Rat) (pt : PT) : Prop where
  sym : Sym pt.d pt.L
  zd : ZeroDiag pt.d pt.L
  real : ∀ a, a < pt.L → Real D (pt.nodes.getD a default)
  cross : ∀ a b, a < pt.L → b < pt.L → a ≠ b →
    ∀ p ∈ (pt.nodes.getD a default).depths, ∀ q ∈ (pt.nodes.getD b default).depths,
      D p.1 q.1 = p.2 + get pt.d a b + q.2

theorem src_lt (L j a : Nat) (ha : a < L - 1) : src L j a < L := by
  unfold src; split <;> omega

theorem src_ne_j (L j a : Nat) (ha : a < L - 1) : src L j a ≠ j := by
  unfold src; split <;> omega

theorem src_inj (L j a b : Nat) (ha : a < L - 1) (hb : b < L - 1) (h : src L j a = src L j b) : a = b := by
  unfold src at h; split at h <;> split at h <;> omega

theorem joinNodes_getD (nodes : List T) (L i j : Nat) (new : T) (a : Nat) (ha : a < L - 1) :
    (joinNodes nodes L i j new).getD a default
      = if src L j a = i then new else nodes.getD (src L j a) default := by
  simp [joinNodes, List.getD_eq_getElem?_getD, ha]

theorem base_sym (d : Mat) (L i j x y : Nat) (hs : Sym d L) (hx : x < L) (hy : y < L) :
    base d i j x y = base d i j y x := by
  unfold base
  by_cases hxi : x = i <;> by_cases hyi : y = i <;> simp [hxi, hyi]
  exact hs x y hx hy

theorem depths_bin (l1 l2 : Rat) (t1 t2 : T) (p : Nat × Rat) (hp : p ∈ (T.bin l1 t1 l2 t2).depths) :
    (∃ p0 ∈ t1.depths, p = (p0.1, p0.2 + l1)) ∨ (∃ p0 ∈ t2.depths, p = (p0.1, p0.2 + l2)) := by
  simp only [T.depths, List.mem_append, List.mem_map] at hp
  rcases hp with ⟨p0, h0, rfl⟩ | ⟨p0, h0, rfl⟩
  · exact Or.inl ⟨p0, h0, rfl⟩
  · exact Or.inr ⟨p0, h0, rfl⟩

theorem join_inv (D : Nat → Nat → Rat) (pt : PT) (i j : Nat) (ai aj : Rat) (e : Nat → Rat)
    (hL : 2 < pt.L) (hI : Inv D pt) (hc : Cherry pt.d pt.L i j ai aj e) : Inv D (join pt i j) := by
  have hleft := leftLen_cherry pt.d pt.L i j ai aj e hL hI.sym hI.zd hc
  have hright := rightLen_cherry pt.d pt.L i j ai aj e hL hI.sym hI.zd hc
  have hLj : (join pt i j).L = pt.L - 1 := rfl
  have hdj : (join pt i j).d = joinMat pt.d pt.L i j := rfl
  have hget : ∀ a b, a < pt.L - 1 → b < pt.L - 1 →
      get (join pt i j).d a b = base pt.d i j (src pt.L j a) (src pt.L j b) := by
    intro a b ha hb; rw [hdj]; unfold joinMat; rw [get_tab _ _ _ _ ha hb]
  have hnode : ∀ a, a < pt.L - 1 → (join pt i j).nodes.getD a default
      = if src pt.L j a = i then
          T.bin ai (pt.nodes.getD i default) aj (pt.nodes.getD j default)
        else pt.nodes.getD (src pt.L j a) default := by
    intro a ha
    show (joinNodes pt.nodes pt.L i j _).getD a default = _
    rw [joinNodes_getD _ _ _ _ _ _ ha, hleft, hright]
  -- the new node realises D
  have hnew : Real D (T.bin ai (pt.nodes.getD i default) aj (pt.nodes.getD j default)) := by
    refine ⟨hI.real i hc.hi, hI.real j hc.hj, ?_⟩
    intro p hp q hq
    rw [hI.cross i j hc.hi hc.hj hc.hij p hp q hq, hc.dij]; ring
  -- distances from the new node to an old node y
  have hnewcross : ∀ y, y < pt.L → y ≠ i → y ≠ j →
      ∀ p ∈ (T.bin ai (pt.nodes.getD i default) aj (pt.nodes.getD j default)).depths,
      ∀ q ∈ (pt.nodes.getD y default).depths, D p.1 q.1 = p.2 + e y + q.2 := by
    intro y hy hyi hyj p hp q hq
    rcases depths_bin _ _ _ _ p hp with ⟨p0, h0, rfl⟩ | ⟨p0, h0, rfl⟩
    · show D p0.1 q.1 = p0.2 + ai + e y + q.2
      rw [hI.cross i y hc.hi hy (fun h => hyi h.symm) p0 h0 q hq, hc.di y hy hyi hyj]; ring
    · show D p0.1 q.1 = p0.2 + aj + e y + q.2
      rw [hI.cross j y hc.hj hy (fun h => hyj h.symm) p0 h0 q hq, hc.dj y hy hyi hyj]; ring
  have holdcross : ∀ x, x < pt.L → x ≠ i → x ≠ j →
      ∀ p ∈ (pt.nodes.getD x default).depths,
      ∀ q ∈ (T.bin ai (pt.nodes.getD i default) aj (pt.nodes.getD j default)).depths,
      D p.1 q.1 = p.2 + e x + q.2 := by
    intro x hx hxi hxj p hp q hq
    rcases depths_bin _ _ _ _ q hq with ⟨q0, h0, rfl⟩ | ⟨q0, h0, rfl⟩
    · show D p.1 q0.1 = p.2 + e x + (q0.2 + ai)
      rw [hI.cross x i hx hc.hi hxi p hp q0 h0, hI.sym x i hx hc.hi, hc.di x hx hxi hxj]; ring
    · show D p.1 q0.1 = p.2 + e x + (q0.2 + aj)
      rw [hI.cross x j hx hc.hj hxj p hp q0 h0, hI.sym x j hx hc.hj, hc.dj x hx hxi hxj]; ring
  refine ⟨?_, ?_, ?_, ?_⟩
  · intro a b ha hb
    rw [hLj] at ha hb
    rw [hget a b ha hb, hget b a hb ha]
    exact base_sym pt.d pt.L i j _ _ hI.sym (src_lt _ _ _ ha) (src_lt _ _ _ hb)
  · intro a ha
    rw [hLj] at ha
    rw [hget a a ha ha]
    unfold base
    by_cases h : src pt.L j a = i
    · simp [h]
    · simp [h]; exact hI.zd _ (src_lt _ _ _ ha)
  · intro a ha
    rw [hLj] at ha
    rw [hnode a ha]
    by_cases h : src pt.L j a = i
    · rw [if_pos h]; exact hnew
    · rw [if_neg h]; exact hI.real _ (src_lt _ _ _ ha)
  · intro a b ha hb hab p hp q hq
    rw [hLj] at ha hb
    have hxy : src pt.L j a ≠ src pt.L j b := fun h => hab (src_inj _ _ _ _ ha hb h)
    have hxL := src_lt pt.L j a ha
    have hyL := src_lt pt.L j b hb
    have hxj := src_ne_j pt.L j a ha
    have hyj := src_ne_j pt.L j b hb
    rw [hnode a ha] at hp
    rw [hnode b hb] at hq
    rw [hget a b ha hb]
    unfold base
    by_cases hx : src pt.L j a = i
    · have hy : src pt.L j b ≠ i := fun h => hxy (hx.trans h.symm)
      rw [if_pos hx] at hp
      rw [if_neg hy] at hq
      rw [if_neg (by intro h; exact hy h.2), if_pos hx, newDist_cherry pt.d pt.L i j ai aj e hc _ hyL hy hyj]
      exact hnewcross _ hyL hy hyj p hp q hq
    · rw [if_neg hx] at hp
      by_cases hy : src pt.L j b = i
      · rw [if_pos hy] at hq
        rw [if_neg (by intro h; exact hx h.1), if_neg hx, if_pos hy,
          newDist_cherry pt.d pt.L i j ai aj e hc _ hxL hx hxj]
        exact holdcross _ hxL hx hxj p hp q hq
      · rw [if_neg hy] at hq
        rw [if_neg (by intro h; exact hx h.1), if_neg hx, if_neg hy]
        exact hI.cross _ _ hxL hyL hxy p hp q hq

/-! ### the loop -/

theorem njLoop_inv (D : Nat → Nat → Rat) (sel : PT → Nat × Nat) (fuel : Nat) (pt : PT) (hI : Inv D pt)
    (hch : ∀ k, 3 < (njLoop sel k pt).L →
      ∃ ai aj e, Cherry (njLoop sel k pt).d (njLoop sel k pt).L (sel (njLoop sel k pt)).1 (sel (njLoop sel k pt)).2 ai aj e) :
    Inv D (njLoop sel fuel pt) := by
  induction fuel generalizing pt with
  | zero => exact hI
  | succ fuel ih =>
    unfold njLoop
    by_cases h3 : pt.L ≤ 3
    · rw [if_pos h3]; exact hI
    · rw [if_neg h3]
      have h0 := hch 0 (by show 3 < pt.L; omega)
      change ∃ ai aj e, Cherry pt.d pt.L (sel pt).1 (sel pt).2 ai aj e at h0
      obtain ⟨ai, aj, e, hc⟩ := h0
      apply ih _ (join_inv D pt _ _ ai aj e (by omega) hI hc)
      intro k hk
      have : njLoop sel (k + 1) pt = njLoop sel k (join pt (sel pt).1 (sel pt).2) := by
        conv_lhs => unfold njLoop
        rw [if_neg h3]
      rw [← this] at hk ⊢
      exact hch (k + 1) hk

theorem njLoop_L (sel : PT → Nat × Nat) (fuel : Nat) (pt : PT) (h3 : 3 ≤ pt.L) (hf : pt.L - 3 ≤ fuel) :
    (njLoop sel fuel pt).L = 3 := by
  induction fuel generalizing pt with
  | zero => show pt.L = 3; omega
  | succ fuel ih =>
    unfold njLoop
    by_cases h : pt.L ≤ 3
    · rw [if_pos h]; omega
    · rw [if_neg h]
      apply ih
      · show 3 ≤ pt.L - 1; omega
      · show pt.L - 1 - 3 ≤ fuel; omega

/-! ### the final three-node step -/

/-- triangle inequality on the three remaining nodes (makes the `max(0.0, ·)` clamps inactive) -/
def Tri3 (d : Mat) : Prop :=
  get d 1 2 ≤ get d 0 1 + get d 0 2 ∧ get d 0 2 ≤ get d 0 1 + get d 1 2 ∧ get d 0 1 ≤ get d 0 2 + get d 1 2

theorem finalLen_vals (d : Mat) (hs : Sym d 3) (hz : ZeroDiag d 3) :
    finalLen d 0 = (get d 0 1 + get d 0 2 - get d 1 2) / 2 ∧
    finalLen d 1 = (get d 0 1 + get d 1 2 - get d 0 2) / 2 ∧
    finalLen d 2 = (get d 0 2 + get d 1 2 - get d 0 1) / 2 := by
  have z0 := hz 0 (by omega); have z1 := hz 1 (by omega); have z2 := hz 2 (by omega)
  have s10 := hs 1 0 (by omega) (by omega); have s20 := hs 2 0 (by omega) (by omega)
  have s21 := hs 2 1 (by omega) (by omega)
  refine ⟨?_, ?_, ?_⟩ <;>
  · simp only [finalLen, colSum, sumTo]
    rw [z0, z1, z2, s10, s20, s21]; ring

/-- the root realises `D`: every child does, and tips under different children are joined through the root -/
def RootReal (D : Nat → Nat → Rat) (r : Root) : Prop :=
  (∀ a, a < r.length → Real D (r.getD a default).2) ∧
  ∀ a b, a < r.length → b < r.length → a ≠ b →
    ∀ p ∈ (r.getD a default).2.depths, ∀ q ∈ (r.getD b default).2.depths,
      D p.1 q.1 = p.2 + (r.getD a default).1 + (r.getD b default).1 + q.2

theorem finish_getD (pt : PT) (a : Nat) (ha : a < 3) :
    (finish pt).getD a default = (clamp0 (finalLen pt.d a), pt.nodes.getD a default) := by
  have : a = 0 ∨ a = 1 ∨ a = 2 := by omega
  rcases this with rfl | rfl | rfl <;> rfl

theorem finish_real (D : Nat → Nat → Rat) (pt : PT) (hL : pt.L = 3) (hI : Inv D pt) (ht : Tri3 pt.d) :
    RootReal D (finish pt) := by
  have hs : Sym pt.d 3 := hL ▸ hI.sym
  have hz : ZeroDiag pt.d 3 := hL ▸ hI.zd
  obtain ⟨f0, f1, f2⟩ := finalLen_vals pt.d hs hz
  obtain ⟨t0, t1, t2⟩ := ht
  have c0 : clamp0 (finalLen pt.d 0) = (get pt.d 0 1 + get pt.d 0 2 - get pt.d 1 2) / 2 := by
    rw [clamp0_of_nonneg _ (by rw [f0]; linarith), f0]
  have c1 : clamp0 (finalLen pt.d 1) = (get pt.d 0 1 + get pt.d 1 2 - get pt.d 0 2) / 2 := by
    rw [clamp0_of_nonneg _ (by rw [f1]; linarith), f1]
  have c2 : clamp0 (finalLen pt.d 2) = (get pt.d 0 2 + get pt.d 1 2 - get pt.d 0 1) / 2 := by
    rw [clamp0_of_nonneg _ (by rw [f2]; linarith), f2]
  have hlen : (finish pt).length = 3 := rfl
  constructor
  · intro a ha
    rw [hlen] at ha
    rw [finish_getD pt a ha]
    exact hI.real a (by omega)
  · intro a b ha hb hab p hp q hq
    rw [hlen] at ha hb
    rw [finish_getD pt a ha] at hp ⊢
    rw [finish_getD pt b hb] at hq ⊢
    rw [hI.cross a b (by omega) (by omega) hab p hp q hq]
    have s10 := hs 1 0 (by omega) (by omega); have s20 := hs 2 0 (by omega) (by omega)
    have s21 := hs 2 1 (by omega) (by omega)
    have : a = 0 ∨ a = 1 ∨ a = 2 := by omega
    have : b = 0 ∨ b = 1 ∨ b = 2 := by omega
    rcases ‹a = 0 ∨ _› with rfl | rfl | rfl <;> rcases ‹b = 0 ∨ _› with rfl | rfl | rfl <;>
      first
      | exact absurd rfl hab
      | (simp only [c0, c1, c2, s10, s20, s21]; ring)

/-! ### the star tree -/

theorem star_inv (D : Nat → Nat → Rat) (n : Nat) (hDs : ∀ a b, D a b = D b a) (hDz : ∀ a, D a a = 0) :
    Inv D (star n (tab n D)) := by
  have hnode : ∀ a, a < n → (star n (tab n D)).nodes.getD a default = T.tip a := by
    intro a ha
    simp [star, List.getD_eq_getElem?_getD, ha]
  refine ⟨?_, ?_, ?_, ?_⟩
  · intro a b ha hb
    have ha : a < n := ha
    have hb : b < n := hb
    show get (tab n D) a b = get (tab n D) b a
    rw [get_tab _ _ _ _ ha hb, get_tab _ _ _ _ hb ha, hDs]
  · intro a ha
    have ha : a < n := ha
    show get (tab n D) a a = 0
    rw [get_tab _ _ _ _ ha ha, hDz]
  · intro a ha
    rw [hnode a ha]; trivial
  · intro a b ha hb _ p hp q hq
    have ha : a < n := ha
    have hb : b < n := hb
    rw [hnode a ha] at hp
    rw [hnode b hb] at hq
    simp only [T.depths, List.mem_singleton] at hp hq
    subst hp; subst hq
    show D a b = 0 + get (tab n D) a b + 0
    rw [get_tab _ _ _ _ ha hb]; ring

/-! ### the tips of the partial tree are exactly the labels (as a set) -/

def Labels (n : Nat) (pt : PT) : Prop :=
  (∀ x, x < n → ∃ a, a < pt.L ∧ x ∈ (pt.nodes.getD a default).tips) ∧
  (∀ a, a < pt.L → ∀ x ∈ (pt.nodes.getD a default).tips, x < n)

theorem tips_bin (l1 l2 : Rat) (t1 t2 : T) (x : Nat) :
    x ∈ (T.bin l1 t1 l2 t2).tips ↔ x ∈ t1.tips ∨ x ∈ t2.tips := by
  simp only [T.tips, T.depths, List.map_append, List.map_map, List.mem_append, List.mem_map, Function.comp]

theorem src_surj (L j x : Nat) (hx : x < L) (hxj : x ≠ j) (hj : j < L) : ∃ a, a < L - 1 ∧ src L j a = x := by
  by_cases h : x = L - 1
  · exact ⟨j, by omega, by unfold src; rw [if_pos rfl]; omega⟩
  · exact ⟨x, by omega, by unfold src; rw [if_neg hxj]⟩

theorem join_labels (n : Nat) (pt : PT) (i j : Nat) (hi : i < pt.L) (hj : j < pt.L) (hij : i ≠ j)
    (h : Labels n pt) : Labels n (join pt i j) := by
  have hnode : ∀ a, a < pt.L - 1 → (join pt i j).nodes.getD a default
      = if src pt.L j a = i then
          T.bin (leftLen pt.d pt.L i j) (pt.nodes.getD i default) (rightLen pt.d pt.L i j) (pt.nodes.getD j default)
        else pt.nodes.getD (src pt.L j a) default := by
    intro a ha
    exact joinNodes_getD _ _ _ _ _ _ ha
  constructor
  · intro x hx
    obtain ⟨a, ha, hxa⟩ := h.1 x hx
    by_cases hai : a = i ∨ a = j
    · obtain ⟨a', ha', hs⟩ := src_surj pt.L j i hi hij hj
      refine ⟨a', ha', ?_⟩
      rw [hnode a' ha', if_pos hs, tips_bin]
      rcases hai with rfl | rfl
      · exact Or.inl hxa
      · exact Or.inr hxa
    · obtain ⟨a', ha', hs⟩ := src_surj pt.L j a ha (by omega) hj
      refine ⟨a', ha', ?_⟩
      rw [hnode a' ha', if_neg (by omega), hs]
      exact hxa
  · intro a ha x hx
    have ha : a < pt.L - 1 := ha
    rw [hnode a ha] at hx
    by_cases hs : src pt.L j a = i
    · rw [if_pos hs, tips_bin] at hx
      rcases hx with hx | hx
      · exact h.2 i hi x hx
      · exact h.2 j hj x hx
    · rw [if_neg hs] at hx
      exact h.2 _ (src_lt _ _ _ ha) x hx

theorem njLoop_labels (n : Nat) (sel : PT → Nat × Nat) (fuel : Nat) (pt : PT) (hI : Labels n pt)
    (hch : ∀ k, 3 < (njLoop sel k pt).L →
      ∃ ai aj e, Cherry (njLoop sel k pt).d (njLoop sel k pt).L (sel (njLoop sel k pt)).1 (sel (njLoop sel k pt)).2 ai aj e) :
    Labels n (njLoop sel fuel pt) := by
  induction fuel generalizing pt with
  | zero => exact hI
  | succ fuel ih =>
    unfold njLoop
    by_cases h3 : pt.L ≤ 3
    · rw [if_pos h3]; exact hI
    · rw [if_neg h3]
      have h0 := hch 0 (by show 3 < pt.L; omega)
      change ∃ ai aj e, Cherry pt.d pt.L (sel pt).1 (sel pt).2 ai aj e at h0
      obtain ⟨ai, aj, e, hc⟩ := h0
      apply ih _ (join_labels n pt _ _ hc.hi hc.hj hc.hij hI)
      intro k hk
      have : njLoop sel (k + 1) pt = njLoop sel k (join pt (sel pt).1 (sel pt).2) := by
        conv_lhs => unfold njLoop
        rw [if_neg h3]
      rw [← this] at hk ⊢
      exact hch (k + 1) hk

theorem star_labels (n : Nat) (d : Mat) : Labels n (star n d) := by
  have hnode : ∀ a, a < n → (star n d).nodes.getD a default = T.tip a := by
    intro a ha
    simp [star, List.getD_eq_getElem?_getD, ha]
  constructor
  · intro x hx
    exact ⟨x, hx, by rw [hnode x hx]; simp [T.tips, T.depths]⟩
  · intro a ha x hx
    have ha : a < n := ha
    rw [hnode a ha] at hx
    simp [T.tips, T.depths] at hx
    omega
/-! ### soundness of the computable certificate -/

theorem cherryB_sound (d : Mat) (L i j : Nat) (h : cherryB d L i j = true) :
    ∃ ai aj e, Cherry d L i j ai aj e := by
  unfold cherryB at h
  simp only [Bool.and_eq_true, Bool.or_eq_true, decide_eq_true_eq, List.all_eq_true, List.mem_range] at h
  obtain ⟨⟨⟨⟨⟨hij, hi⟩, hj⟩, h0i⟩, h0j⟩, hall⟩ := h
  refine ⟨_, _, newDist d i j, ⟨hij, hi, hj, h0i, h0j, by ring, ?_, ?_⟩⟩
  · intro k hk hki hkj
    rcases hall k hk with (h | h) | h
    · exact absurd h hki
    · exact absurd h hkj
    · exact h.1
  · intro k hk hki hkj
    rcases hall k hk with (h | h) | h
    · exact absurd h hki
    · exact absurd h hkj
    · exact h.2

theorem njLoop_stop (sel : PT → Nat × Nat) (k : Nat) (pt : PT) (h : pt.L ≤ 3) : njLoop sel k pt = pt := by
  cases k with
  | zero => rfl
  | succ k => unfold njLoop; rw [if_pos h]

theorem njCheck_sound (sel : PT → Nat × Nat) (fuel : Nat) (pt : PT) (h : njCheck sel fuel pt = true) :
    ∀ k, 3 < (njLoop sel k pt).L →
      ∃ ai aj e, Cherry (njLoop sel k pt).d (njLoop sel k pt).L (sel (njLoop sel k pt)).1 (sel (njLoop sel k pt)).2 ai aj e := by
  induction fuel generalizing pt with
  | zero =>
    intro k hk
    have h3 : pt.L ≤ 3 := by simpa [njCheck] using h
    rw [njLoop_stop sel k pt h3] at hk; omega
  | succ fuel ih =>
    intro k hk
    by_cases h3 : pt.L ≤ 3
    · rw [njLoop_stop sel k pt h3] at hk; omega
    · unfold njCheck at h
      rw [if_neg h3, Bool.and_eq_true] at h
      cases k with
      | zero => exact cherryB_sound _ _ _ _ h.1
      | succ k =>
        have : njLoop sel (k + 1) pt = njLoop sel k (join pt (sel pt).1 (sel pt).2) := by
          conv_lhs => unfold njLoop
          rw [if_neg h3]
        rw [this] at hk ⊢
        exact ih _ h.2 k hk

theorem tri3B_sound (d : Mat) (h : tri3B d = true) : Tri3 d := by
  unfold tri3B at h
  simp only [Bool.and_eq_true, decide_eq_true_eq] at h
  exact ⟨h.1.1, h.1.2, h.2⟩

end CogentModel.NJ
