import CogentModel.Proofs.IndelMapJoin1
namespace CogentModel.IndelMap
open CogentModel.Gapped List CogentModel

theorem lastOr_append (d : Int) (xs ys : List Int) : lastOr d (xs ++ ys) = lastOr (lastOr d xs) ys := by
  induction xs generalizing d with
  | nil => rfl
  | cons x r ih => simp only [cons_append, lastOr, ih]

theorem lastOr_map_add (cl : Int) : ∀ (d : Int) (ys : List Int), ys ≠ [] →
    lastOr d (ys.map (cl + ·)) = cl + lastOr 0 ys := by
  intro d ys
  induction ys generalizing d with
  | nil => intro h; exact absurd rfl h
  | cons y r ih =>
    intro _
    cases r with
    | nil => simp [lastOr]
    | cons z r' =>
      simp only [map_cons, lastOr] at ih ⊢
      exact ih (cl + y) (by simp)

theorem wf_mk_ok (m : IMap) (h : WF m) : mk m.gapPos m.cumLens m.parentLength = .ok m := by
  unfold mk
  rw [if_neg (by have := h.len_eq; omega), if_neg]
  intro ⟨hne, hgt⟩
  have := (h.pos_range _ (lastD_mem _ hne)).2
  omega

/-- one slice appended to the dictionary of `joined_segments` is `__add__` of the two maps -/
theorem joinGaps_eq_add (M im : IMap) (hM : WF M) (hi : WF im) :
    ∃ R, add M im = .ok R ∧ WF R ∧ abs R = Gapped.concat (abs M) (abs im) ∧
      joinGaps M.parentLength (lastOr 0 M.cumLens) im.gapPos im.cumLens (zip M.gapPos M.cumLens) = zip R.gapPos R.cumLens ∧
      R.parentLength = M.parentLength + im.parentLength ∧
      lastOr 0 R.cumLens = lastOr 0 M.cumLens + (if im.gapPos = [] then 0 else lastD im.cumLens) := by
  obtain ⟨R, hR, hwf, habs⟩ := add_spec' M im hM hi
  refine ⟨R, hR, hwf, habs, ?_⟩
  have hlM := hM.len_eq
  have hli := hi.len_eq
  have hcl : (if M.gapPos = [] then 0 else lastD M.cumLens) = lastOr 0 M.cumLens := by
    by_cases hg : M.gapPos = []
    · rw [if_pos hg, cum_nil_of_gp_nil M hM hg]; rfl
    · rw [if_neg hg]
      have : M.cumLens ≠ [] := by intro hn; rw [hn] at hlM; exact hg (length_eq_zero_iff.mp hlM)
      exact (lastOr_eq_lastD 0 _ this).symm
  have hicum : im.gapPos = [] ↔ im.cumLens = [] := by
    constructor
    · exact cum_nil_of_gp_nil im hi
    · intro hc; rw [hc] at hli; exact length_eq_zero_iff.mp hli
  have hlasti : (if im.gapPos = [] then 0 else lastD im.cumLens) = lastOr 0 im.cumLens := by
    by_cases hg : im.gapPos = []
    · rw [if_pos hg, hicum.mp hg]; rfl
    · rw [if_neg hg]; exact (lastOr_eq_lastD 0 _ (fun hc => hg (hicum.mpr hc))).symm
  unfold add at hR
  simp only [hcl] at hR
  generalize hclv : lastOr 0 M.cumLens = cl at *
  by_cases hm : M.gapPos ≠ [] ∧ im.gapPos ≠ [] ∧ lastD M.gapPos = M.parentLength ∧ im.gapPos.headD 0 = 0
  · -- merge
    obtain ⟨hane, hbne, hlast, hhead⟩ := hm
    have hmd : decide (M.gapPos ≠ [] ∧ im.gapPos ≠ [] ∧ lastD M.gapPos = M.parentLength ∧ im.gapPos.headD 0 = 0) = true := by
      simp only [decide_eq_true_eq]; exact ⟨hane, hbne, hlast, hhead⟩
    simp only [hmd, if_true] at hR
    obtain ⟨hR', _⟩ := mk_ok _ _ _ R hR
    have hcne : M.cumLens ≠ [] := by intro hn; rw [hn] at hlM; exact hane (length_eq_zero_iff.mp hlM)
    have hA := dropLast_append_lastD M.gapPos hane
    have hC := dropLast_append_lastD M.cumLens hcne
    rw [hlast] at hA
    have hclD : lastD M.cumLens = cl := by rw [← hclv]; exact (lastOr_eq_lastD 0 _ hcne).symm
    rw [hclD] at hC
    generalize hA' : M.gapPos.dropLast = A' at *
    generalize hC' : M.cumLens.dropLast = C' at *
    have hlen' : A'.length = C'.length := by
      have := congrArg length hA; have := congrArg length hC
      simp only [length_append, length_singleton] at *; omega
    obtain ⟨B', hB⟩ : ∃ B', im.gapPos = 0 :: B' := by
      cases hg : im.gapPos with
      | nil => exact absurd hg hbne
      | cons p ps => rw [hg] at hhead; simp only [headD_cons] at hhead; subst hhead; exact ⟨ps, rfl⟩
    obtain ⟨cb0, D', hD⟩ : ∃ cb0 D', im.cumLens = cb0 :: D' := by
      cases hc : im.cumLens with
      | nil => rw [hB, hc] at hli; simp at hli
      | cons c cs => exact ⟨c, cs, rfl⟩
    have hPa := hM.pos_sorted; rw [hA] at hPa
    have hPa' := pairwise_append.mp hPa
    have hPb := hi.pos_sorted; rw [hB] at hPb
    have hPb' := pairwise_cons.mp hPb
    subst hR'
    refine ⟨?_, rfl, ?_⟩
    · simp only []
      rw [hA, hC, hB, hD, zip_append hlen']
      simp only [zip_cons_cons, zip_nil_right, joinGaps, Int.zero_add, map_cons]
      rw [dictAdd_last _ _ _ _ _ (fun z hz => by have := hPa'.2.2 z.1 (of_mem_zip hz).1 M.parentLength (by simp); omega)]
      rw [joinGaps_append _ _ B' D' _ M.parentLength (by rw [hB, hD] at hli; simpa using hli) hPb'.2
        (fun p hp => by have := hPb'.1 p hp; omega)
        (fun x hx => by
          rcases mem_append.mp hx with h1 | h1
          · have := hPa'.2.2 x.1 (of_mem_zip h1).1 M.parentLength (by simp); omega
          · simp only [mem_singleton] at h1; subst h1; simp)]
      rw [zip_append hlen']
      simp
    · simp only []
      rw [lastOr_append, hD]
      rw [lastOr_map_add cl _ _ (by simp), if_neg hbne, lastD_cons]; rfl
  · -- no merge
    have hmd : decide (M.gapPos ≠ [] ∧ im.gapPos ≠ [] ∧ lastD M.gapPos = M.parentLength ∧ im.gapPos.headD 0 = 0) = false := by
      simp only [decide_eq_false_iff_not]; exact hm
    simp only [hmd, Bool.false_eq_true, if_false] at hR
    obtain ⟨hR', _⟩ := mk_ok _ _ _ R hR
    subst hR'
    refine ⟨?_, rfl, ?_⟩
    · simp only []
      -- a bound separating the keys already present from the keys of the slice
      have hkey : ∃ lo, (∀ p ∈ im.gapPos, lo < p + M.parentLength) ∧ ∀ x ∈ zip M.gapPos M.cumLens, x.1 ≤ lo := by
        by_cases hxl : M.gapPos ≠ [] ∧ lastD M.gapPos = M.parentLength
        · -- then the slice has no gap at 0
          refine ⟨M.parentLength, ?_, fun x hx => (hM.pos_range x.1 (of_mem_zip hx).1).2⟩
          intro p hp
          have hbne : im.gapPos ≠ [] := by intro hn; rw [hn] at hp; simp at hp
          have hp0 := (hi.pos_range p hp).1
          by_cases hq0 : 0 < p
          · omega
          · exfalso
            apply hm
            refine ⟨hxl.1, hbne, hxl.2, ?_⟩
            cases hgb : im.gapPos with
            | nil => exact absurd hgb hbne
            | cons q qs =>
              rw [hgb] at hp
              have hq0' := (hi.pos_range q (by rw [hgb]; simp)).1
              have hsorted := hi.pos_sorted
              rw [hgb] at hsorted
              rcases mem_cons.mp hp with rfl | hp'
              · simp only [headD_cons]; omega
              · have := (pairwise_cons.mp hsorted).1 p hp'; simp only [headD_cons]; omega
        · refine ⟨M.parentLength - 1, fun p hp => by have := (hi.pos_range p hp).1; omega, ?_⟩
          intro x hx
          have hxm := (of_mem_zip hx).1
          have hne : M.gapPos ≠ [] := by intro hn; rw [hn] at hxm; simp at hxm
          have h1 := pairwise_le_lastD _ hM.pos_sorted x.1 hxm
          have h2 := (hM.pos_range _ (lastD_mem _ hne)).2
          have h3 : lastD M.gapPos ≠ M.parentLength := fun h => hxl ⟨hne, h⟩
          omega
      obtain ⟨lo, hlo1, hlo2⟩ := hkey
      rw [joinGaps_append _ _ _ _ _ lo hli hi.pos_sorted hlo1 hlo2, zip_append hlM]
    · simp only []
      rw [lastOr_append, hclv, hlasti]
      by_cases hc : im.cumLens = []
      · rw [hc]; simp [lastOr]
      · rw [lastOr_map_add cl _ _ hc]

end CogentModel.IndelMap
