import CogentModel.Model.Clustal
import CogentModel.Spec.ClustalRecords
import CogentModel.Proofs.SeqFormats
/-! Helper lemmas for C06 / Clustal: `clustal_from_alignment` followed by `ClustalParser`. -/
namespace CogentModel.Clustal
open CogentModel.Splitlines CogentModel.SeqFormats CogentModel.SeqSpec CogentModel.ClustalSpec

/-- a white-space delimited word -/
def Word (w : Str) : Prop := w ≠ [] ∧ ∀ c ∈ w, isSpaceStr c = false

/-! ### the spec predicates, unfolded -/

theorem clustalName_facts {n : Str} (h : clustalName n = true) :
    Word n ∧ (∀ c ∈ n, printable c = true) ∧ "CLUSTAL".toList.isPrefixOf n = false ∧ "MUSCLE".toList.isPrefixOf n = false := by
  simp only [clustalName, Bool.and_eq_true, Bool.not_eq_true', List.all_eq_true, bne_iff_ne, ne_eq] at h
  obtain ⟨⟨⟨hwf, hnb⟩, hc⟩, hm⟩ := h
  obtain ⟨hne, hp⟩ := wfName_chars hwf
  refine ⟨⟨hne, fun c hc' => ?_⟩, hp, hc, hm⟩
  rw [printable_space (hp c hc')]
  simpa using hnb c hc'

theorem clustalSeq_facts {s : Str} (h : clustalSeq s = true) :
    Word s ∧ (∀ c ∈ s, printable c = true) ∧ ∀ c ∈ s, isDigit c = false := by
  simp only [clustalSeq, Bool.and_eq_true, Bool.not_eq_true', List.all_eq_true, bne_iff_ne, ne_eq,
    List.isEmpty_eq_false_iff] at h
  obtain ⟨hne, hall⟩ := h
  refine ⟨⟨hne, fun c hc => ?_⟩, fun c hc => (hall c hc).1.1, fun c hc => ?_⟩
  · rw [printable_space (hall c hc).1.1]
    simpa using (hall c hc).1.2
  · have := (hall c hc).2
    simpa [isDigit] using this

/-! ### `str.split()` on `label <blanks> residues` -/

theorem splitWs_spaces (t : Str) : ∀ k : Nat, splitWs (List.replicate k ' ' ++ t) = splitWs t
  | 0 => by simp
  | k + 1 => by
    have hsp : isSpaceStr ' ' = true := by decide
    rw [List.replicate_succ, List.cons_append]
    have ih := splitWs_spaces t k
    cases hl : List.replicate k ' ' ++ t with
    | nil =>
      rw [hl] at ih
      simp [splitWs, hsp, ← ih]
    | cons d ds =>
      rw [hl] at ih
      rw [splitWs_cons2]
      simp [hsp, ih]

theorem splitWs_two {a b : Str} (ha : Word a) (hb : Word b) (k : Nat) :
    splitWs (a ++ List.replicate (k + 1) ' ' ++ b) = [a, b] := by
  rw [List.replicate_succ, List.append_assoc, List.cons_append, splitWs_word_sp _ _ ha.1 ha.2, splitWs_spaces,
    splitWs_word _ hb.1 hb.2]

/-! ### `int()` fails on a token without digits -/

theorem pyIntOk_noDigit {t : Str} (h : ∀ c ∈ t, isDigit c = false) : pyIntOk t = false := by
  unfold pyIntOk
  cases t with
  | nil => simp [signSplit]
  | cons c r =>
    simp only [signSplit]
    by_cases h1 : c = '-'
    · cases r with
      | nil => simp [h1]
      | cons d r' => simp [h1, h d (by simp)]
    · by_cases h2 : c = '+'
      · cases r with
        | nil => simp [h2]
        | cons d r' => simp [h2, h d (by simp)]
      · simp [h1, h2, h c (by simp)]

/-! ### one written line -/

theorem isPrefixOf_sep (sep : Char) : ∀ (p name rest : Str), sep ∉ p →
    p.isPrefixOf (name ++ sep :: rest) = p.isPrefixOf name
  | [], _, _, _ => by simp
  | a :: p, [], rest, h => by
    have : a ≠ sep := by rintro rfl; exact h (by simp)
    simp [List.isPrefixOf, this]
  | a :: p, c :: name, rest, h => by
    have ih := isPrefixOf_sep sep p name rest (fun hm => h (List.mem_cons_of_mem _ hm))
    simp [List.isPrefixOf, ih]

theorem word_head {w : Str} (h : Word w) : ∃ c cs, w = c :: cs ∧ isSpaceStr c = false := by
  cases w with
  | nil => exact absurd rfl h.1
  | cons c cs => exact ⟨c, cs, rfl, h.2 c (by simp)⟩

theorem rstrip_word_end {x w : Str} (hw : Word w) : rstrip (x ++ w) = x ++ w := by
  unfold rstrip rstripBy
  rw [dropWhile_id_of_head, List.reverse_reverse]
  intro c hc
  rw [List.head?_reverse, List.getLast?_append] at hc
  cases hl : w.getLast? with
  | none => exact absurd (List.getLast?_eq_none_iff.mp hl) hw.1
  | some d =>
    rw [hl] at hc
    simp at hc
    subst hc
    exact hw.2 d (List.mem_of_getLast? hl)

theorem strip_word {w : Str} (hw : Word w) : strip w = w :=
  stripBy_id (all_of_head hw.2) (all_of_last hw.2)

/-- the line `name <k+1 blanks> chunk` -/
def wline (k : Nat) (n c : Str) : Str := n ++ List.replicate (k + 1) ' ' ++ c

theorem wline_isSeqLine {n c : Str} (hn : clustalName n = true) (k : Nat) : isSeqLine (wline k n c) = true := by
  obtain ⟨hw, _, hC, hM⟩ := clustalName_facts hn
  obtain ⟨a, as, rfl, ha⟩ := word_head hw
  have e : wline k (a :: as) c = (a :: as) ++ ' ' :: (List.replicate k ' ' ++ c) := by
    simp [wline, List.replicate_succ]
  have h1 := isPrefixOf_sep ' ' "CLUSTAL".toList (a :: as) (List.replicate k ' ' ++ c) (by decide)
  have h2 := isPrefixOf_sep ' ' "MUSCLE".toList (a :: as) (List.replicate k ' ' ++ c) (by decide)
  rw [e]
  simp only [List.cons_append] at h1 h2 ⊢
  simp only [isSeqLine, ha, h1, h2, hC, hM]
  rfl

theorem wline_delete {n c : Str} (hn : clustalName n = true) (hc : clustalSeq c = true) (k : Nat) :
    deleteTrailingNumber (wline k n c) = wline k n c := by
  obtain ⟨hw, _⟩ := clustalName_facts hn
  obtain ⟨hcw, _, hd⟩ := clustalSeq_facts hc
  unfold deleteTrailingNumber wline
  rw [splitWs_two hw hcw]
  simp [pyIntOk_noDigit hd]

theorem wline_split {n c : Str} (hn : clustalName n = true) (hc : clustalSeq c = true) (k : Nat) :
    lastSpace (rstrip (wline k n c)) = [n, c] := by
  obtain ⟨hw, _⟩ := clustalName_facts hn
  obtain ⟨hcw, _, _⟩ := clustalSeq_facts hc
  unfold wline
  rw [rstrip_word_end hcw]
  unfold lastSpace
  rw [splitWs_two hw hcw]
  simp [joinSp, strip_word hw, strip_word hcw]

theorem wline_noBreak {n c : Str} (hn : clustalName n = true) (hc : clustalSeq c = true) (k : Nat) :
    ∀ x ∈ wline k n c, isBreak x = false := by
  obtain ⟨_, hp, _⟩ := clustalName_facts hn
  obtain ⟨_, hq, _⟩ := clustalSeq_facts hc
  intro x hx
  simp only [wline, List.mem_append, List.mem_replicate] at hx
  rcases hx with (hx | ⟨_, rfl⟩) | hx
  · exact printable_not_break (hp x hx)
  · decide
  · exact printable_not_break (hq x hx)

/-! ### `max(label_lengths)` -/

theorem le_foldl_max : ∀ (l : List Nat) (a : Nat), a ≤ l.foldl max a ∧ ∀ x ∈ l, x ≤ l.foldl max a
  | [], a => ⟨Nat.le_refl _, fun _ h => absurd h (by simp)⟩
  | y :: l, a => by
    obtain ⟨h1, h2⟩ := le_foldl_max l (max a y)
    refine ⟨Nat.le_trans (Nat.le_max_left a y) h1, fun x hx => ?_⟩
    rcases List.mem_cons.mp hx with rfl | hx
    · exact Nat.le_trans (Nat.le_max_right a x) h1
    · exact h2 x hx

theorem length_le_labelMax {recs : List Rec} {r : Rec} (h : r ∈ recs) : r.1.length ≤ labelMax recs :=
  (le_foldl_max _ 0).2 _ (List.mem_map_of_mem h)

theorem padTo_eq {recs : List Rec} {r : Rec} (h : r ∈ recs) (c : Str) :
    padTo (labelMax recs + 4) r.1 ++ c = wline (labelMax recs + 3 - r.1.length) r.1 c := by
  have := length_le_labelMax h
  have e : labelMax recs + 4 - r.1.length = (labelMax recs + 3 - r.1.length) + 1 := by omega
  unfold padTo wline
  rw [e]

/-! ### the dict of `LabelLineParser` -/

abbrev Acc := List (Str × List Str)
def step (a : Acc) (p : Str × Str) : Acc := assocAppend p.1 p.2 a

theorem assocAppend_notin (k v : Str) : ∀ (xs : Acc), k ∉ xs.map Prod.fst → assocAppend k v xs = xs ++ [(k, [v])]
  | [], _ => rfl
  | (k', vs) :: xs, h => by
    have hne : k' ≠ k := fun e => h (by simp [e])
    have ih := assocAppend_notin k v xs (fun hm => h (by simp [hm]))
    simp [assocAppend, hne, ih]

theorem assocAppend_mid (k v : Str) (vs : List Str) (ys : Acc) : ∀ (xs : Acc), k ∉ xs.map Prod.fst →
    assocAppend k v (xs ++ (k, vs) :: ys) = xs ++ (k, vs ++ [v]) :: ys
  | [], _ => by simp [assocAppend]
  | (k', ws) :: xs, h => by
    have hne : k' ≠ k := fun e => h (by simp [e])
    have ih := assocAppend_mid k v vs ys xs (fun hm => h (by simp [hm]))
    simp [assocAppend, hne, ih]

theorem labelLineGo_cons_pair {strict : Bool} {acc : Acc} {line k v : Str} {rest : List Str}
    (h : lastSpace (rstrip line) = [k, v]) :
    labelLineGo strict acc (line :: rest) = labelLineGo strict (assocAppend k v acc) rest := by
  rw [labelLineGo, h]

theorem labelLineGo_pairs (strict : Bool) (line : Str × Str → Str) : ∀ (ps : List (Str × Str)) (acc : Acc),
    (∀ p ∈ ps, lastSpace (rstrip (line p)) = [p.1, p.2]) →
    labelLineGo strict acc (ps.map line) = .ok (ps.foldl step acc)
  | [], acc, _ => rfl
  | p :: ps, acc, h => by
    rw [List.map_cons, labelLineGo_cons_pair (h p (by simp)), List.foldl_cons]
    exact labelLineGo_pairs strict line ps _ (fun q hq => h q (List.mem_cons_of_mem _ hq))

/-- first block: every label is new -/
theorem fold_first (f : Rec → Str) : ∀ (suf pre : List Rec), ((pre ++ suf).map Prod.fst).Nodup →
    (suf.map (fun r => (r.1, f r))).foldl step (pre.map (fun r => (r.1, [f r]))) = (pre ++ suf).map (fun r => (r.1, [f r]))
  | [], pre, _ => by simp
  | r :: suf, pre, h => by
    have hnot : r.1 ∉ (pre.map (fun r => (r.1, [f r]))).map Prod.fst := by
      rw [List.map_map]
      intro hm
      have h' : ((pre.map Prod.fst) ++ r.1 :: suf.map Prod.fst).Nodup := by simpa using h
      have := (List.nodup_append.mp h').2.2 r.1 (by simpa using hm) r.1 (by simp)
      exact this rfl
    have ih := fold_first f suf (pre ++ [r]) (by simpa using h)
    simp only [List.map_cons, List.foldl_cons, step]
    rw [assocAppend_notin _ _ _ hnot]
    simpa [step] using ih

/-- later blocks: every label exists, in the same order -/
theorem fold_later (f : Rec → Str) (g : Rec → List Str) : ∀ (suf pre : List Rec), ((pre ++ suf).map Prod.fst).Nodup →
    (suf.map (fun r => (r.1, f r))).foldl step
        (pre.map (fun r => (r.1, g r ++ [f r])) ++ suf.map (fun r => (r.1, g r)))
      = (pre ++ suf).map (fun r => (r.1, g r ++ [f r]))
  | [], pre, _ => by simp
  | r :: suf, pre, h => by
    have hnot : r.1 ∉ (pre.map (fun r => (r.1, g r ++ [f r]))).map Prod.fst := by
      rw [List.map_map]
      intro hm
      have h' : ((pre.map Prod.fst) ++ r.1 :: suf.map Prod.fst).Nodup := by simpa using h
      have := (List.nodup_append.mp h').2.2 r.1 (by simpa using hm) r.1 (by simp)
      exact this rfl
    have ih := fold_later f g suf (pre ++ [r]) (by simpa using h)
    simp only [List.map_cons, List.foldl_cons, step]
    rw [assocAppend_mid _ _ _ _ _ hnot]
    simpa [step] using ih

/-- all the blocks after the first -/
theorem fold_blocks (recs : List Rec) (hnd : (recs.map Prod.fst).Nodup) : ∀ (cs : List (Rec → Str)) (g : Rec → List Str),
    (cs.flatMap (fun c => recs.map (fun r => (r.1, c r)))).foldl step (recs.map (fun r => (r.1, g r)))
      = recs.map (fun r => (r.1, g r ++ cs.map (fun c => c r)))
  | [], g => by simp
  | c :: cs, g => by
    rw [List.flatMap_cons, List.foldl_append]
    have h1 := fold_later c g recs [] (by simpa using hnd)
    simp only [List.map_nil, List.nil_append] at h1
    rw [h1, fold_blocks recs hnd cs (fun r => g r ++ [c r])]
    simp

theorem fold_all (recs : List Rec) (hnd : (recs.map Prod.fst).Nodup) (c : Rec → Str) (cs : List (Rec → Str)) :
    ((c :: cs).flatMap (fun c => recs.map (fun r => (r.1, c r)))).foldl step []
      = recs.map (fun r => (r.1, (c :: cs).map (fun c => c r))) := by
  rw [List.flatMap_cons, List.foldl_append]
  have h1 := fold_first c recs [] (by simpa using hnd)
  simp only [List.map_nil, List.nil_append] at h1
  rw [h1, fold_blocks recs hnd cs (fun r => [c r])]
  simp

/-! ### the body of the file -/

/-- hypotheses on the records: distinct Clustal labels -/
def WfNames (recs : List Rec) : Prop := (recs.map Prod.fst).Nodup ∧ ∀ r ∈ recs, clustalName r.1 = true

/-- the written sequence lines of a list of blocks -/
def seqLines (recs : List Rec) (cs : List (Rec → Str)) : List Str :=
  (cs.flatMap (fun c => recs.map (fun r => (r.1, c r)))).map
    (fun p => padTo (labelMax recs + 4) p.1 ++ p.2)

theorem seqLines_eq (recs : List Rec) (cs : List (Rec → Str)) :
    seqLines recs cs = cs.flatMap (fun c => recs.map (fun r => padTo (labelMax recs + 4) r.1 ++ c r)) := by
  unfold seqLines
  rw [List.map_flatMap]
  simp [List.map_map, Function.comp_def]

theorem filter_body {recs : List Rec} (hn : WfNames recs) : ∀ (cs : List (Rec → Str)),
    (∀ c ∈ cs, ∀ r ∈ recs, clustalSeq (c r) = true) →
    ((cs.flatMap (block (labelMax recs + 4) recs)).filter isSeqLine).map deleteTrailingNumber = seqLines recs cs
  | [], _ => by simp [seqLines]
  | c :: cs, h => by
    have ih := filter_body hn cs (fun d hd => h d (List.mem_cons_of_mem _ hd))
    rw [seqLines_eq] at ih ⊢
    rw [List.flatMap_cons, List.filter_append, List.map_append, ih, List.flatMap_cons]
    congr 1
    unfold block
    rw [List.filter_append]
    have hnil : List.filter isSeqLine [([] : Str)] = [] := by simp [isSeqLine]
    rw [hnil, List.append_nil]
    have hall : ∀ l ∈ recs.map (fun r => padTo (labelMax recs + 4) r.1 ++ c r),
        isSeqLine l = true ∧ deleteTrailingNumber l = l := by
      intro l hl
      obtain ⟨r, hr, rfl⟩ := List.mem_map.mp hl
      rw [padTo_eq hr]
      exact ⟨wline_isSeqLine (hn.2 r hr) _, wline_delete (hn.2 r hr) (h c (by simp) r hr) _⟩
    rw [List.filter_eq_self.mpr (fun l hl => (hall l hl).1)]
    have hm := List.map_congr_left (f := deleteTrailingNumber) (g := id) (fun l hl => (hall l hl).2)
    rw [hm, List.map_id]

theorem body_snoc (ms : Nat) (recs : List Rec) : ∀ (cs : List (Rec → Str)), cs ≠ [] →
    ∃ body', cs.flatMap (block ms recs) = body' ++ [[]] ∧ ∀ l ∈ body', l ∈ cs.flatMap (block ms recs) := by
  intro cs hcs
  rcases List.eq_nil_or_concat cs with rfl | ⟨cs', c, rfl⟩
  · exact absurd rfl hcs
  · refine ⟨cs'.flatMap (block ms recs) ++ recs.map (fun r => padTo ms r.1 ++ c r), ?_, ?_⟩
    · simp [List.flatMap_append, block]
    · intro l hl
      simp only [List.concat_eq_append, List.flatMap_append, List.flatMap_cons, List.flatMap_nil, List.append_nil,
        List.mem_append, block] at hl ⊢
      rcases hl with hl | hl
      · exact Or.inl hl
      · exact Or.inr (Or.inl hl)

theorem body_noBreak {recs : List Rec} (hn : WfNames recs) (cs : List (Rec → Str))
    (h : ∀ c ∈ cs, ∀ r ∈ recs, clustalSeq (c r) = true) :
    NoBreak (cs.flatMap (block (labelMax recs + 4) recs)) := by
  intro l hl x hx
  obtain ⟨c, hc, hl⟩ := List.mem_flatMap.mp hl
  simp only [block, List.mem_append, List.mem_map, List.mem_singleton] at hl
  rcases hl with ⟨r, hr, rfl⟩ | rfl
  · rw [padTo_eq hr] at hx
    exact wline_noBreak (hn.2 r hr) (h c hc r hr) _ x hx
  · simp at hx

/-- the text written for a non-empty list of blocks, as terminated lines -/
theorem text_eq {body body' : List Str} (h : body = body' ++ [[]]) :
    joinNl ("CLUSTAL\n".toList :: body) = unlines ("CLUSTAL".toList :: [] :: body') := by
  rw [h, ← List.cons_append, joinNl_snoc_nil _ (by simp)]
  have : "CLUSTAL\n".toList = "CLUSTAL".toList ++ ['\n'] := by decide
  rw [unlines_cons, unlines_cons, unlines_cons, this]
  simp

/-- **core**: the parser on the text of any non-empty list of blocks of well-formed chunks -/
theorem parse_blocks {recs : List Rec} (hn : WfNames recs) (c : Rec → Str) (cs : List (Rec → Str))
    (h : ∀ d ∈ c :: cs, ∀ r ∈ recs, clustalSeq (d r) = true) :
    let text := joinNl ("CLUSTAL\n".toList :: (c :: cs).flatMap (block (labelMax recs + 4) recs))
    NlOnly text ∧
    clustalParse text = .ok (recs.map (fun r => (r.1, ((c :: cs).map (fun d => d r)).flatten))) := by
  intro text
  obtain ⟨body', hb, hsub⟩ := body_snoc (labelMax recs + 4) recs (c :: cs) (by simp)
  have hnb : NoBreak ("CLUSTAL".toList :: [] :: body') := by
    refine noBreak_cons (by decide) (noBreak_cons (by simp) ?_)
    intro l hl
    exact body_noBreak hn (c :: cs) h l (hsub l hl)
  have ht : text = unlines ("CLUSTAL".toList :: [] :: body') := text_eq hb
  refine ⟨by rw [ht]; exact unlines_nlOnly hnb, ?_⟩
  unfold clustalParse clustalParser minimalClustalParser
  rw [ht, pySplitlines_unlines hnb]
  have hf : ("CLUSTAL".toList :: [] :: body').filter isSeqLine
      = ((c :: cs).flatMap (block (labelMax recs + 4) recs)).filter isSeqLine := by
    have h1 : ¬ (isSeqLine "CLUSTAL".toList = true) := by decide
    have h2 : ¬ (isSeqLine [] = true) := by simp [isSeqLine]
    rw [hb, List.filter_cons_of_neg h1, List.filter_cons_of_neg h2, List.filter_append,
      List.filter_cons_of_neg h2]
    simp
  rw [hf, filter_body hn (c :: cs) h]
  unfold seqLines
  rw [labelLineGo_pairs true _ _ []]
  · rw [fold_all recs hn.1 c cs]
    simp [Except.map, List.map_map, Function.comp_def]
  · intro p hp
    obtain ⟨d, hd, hp⟩ := List.mem_flatMap.mp hp
    obtain ⟨r, hr, rfl⟩ := List.mem_map.mp hp
    show lastSpace (rstrip (padTo (labelMax recs + 4) r.1 ++ d r)) = [r.1, d r]
    rw [padTo_eq hr]
    exact wline_split (hn.2 r hr) (h d hd r hr) _

/-! ### the wrapped blocks -/

/-- the slices `y[curr_ix:curr_ix + wrap]` of the `while` loop -/
def chunkFns (w L : Nat) : Nat → Nat → List (Rec → Str)
  | 0, _ => []
  | fuel + 1, i => if i < L ∧ 0 < w then (fun r => (r.2.drop i).take w) :: chunkFns w L fuel (i + w) else []

theorem blocks_eq (ms w L : Nat) (recs : List Rec) : ∀ (fuel i : Nat),
    blocks ms w L recs fuel i = (chunkFns w L fuel i).flatMap (block ms recs)
  | 0, _ => rfl
  | fuel + 1, i => by
    have ih := blocks_eq ms w L recs fuel (i + w)
    by_cases h : i < L ∧ 0 < w
    · simp only [blocks, chunkFns, h, and_self, if_true, List.flatMap_cons, ih]
    · simp only [blocks, chunkFns, h, if_false, List.flatMap_nil]

theorem chunkFns_flatten {w L : Nat} (r : Rec) (hL : r.2.length = L) : ∀ (fuel i : Nat), L - i ≤ fuel →
    ((chunkFns w L fuel i).map (fun d => d r)).flatten = if 0 < w then r.2.drop i else []
  | 0, i, h => by
    have : r.2.length ≤ i := by omega
    simp [chunkFns, List.drop_eq_nil_of_le this]
  | fuel + 1, i, h => by
    by_cases hw : 0 < w
    · by_cases h1 : i < L
      · have ih := chunkFns_flatten (w := w) r hL fuel (i + w) (by omega)
        simp only [chunkFns, h1, hw, and_self, if_true, List.map_cons, List.flatten_cons, ih]
        rw [← List.drop_drop, List.take_append_drop]
      · have : r.2.length ≤ i := by omega
        simp [chunkFns, h1, hw, List.drop_eq_nil_of_le this]
    · simp [chunkFns, hw]

theorem chunkFns_good {w L : Nat} {recs : List Rec} (hs : ∀ r ∈ recs, clustalSeq r.2 = true ∧ r.2.length = L) :
    ∀ (fuel i : Nat), ∀ d ∈ chunkFns w L fuel i, ∀ r ∈ recs, clustalSeq (d r) = true
  | 0, _, d, hd, _, _ => by simp [chunkFns] at hd
  | fuel + 1, i, d, hd, r, hr => by
    by_cases h1 : i < L ∧ 0 < w
    · simp only [chunkFns, h1, and_self, if_true] at hd
      rcases List.mem_cons.mp hd with rfl | hd
      · obtain ⟨hq, hl⟩ := hs r hr
        simp only [clustalSeq, Bool.and_eq_true, Bool.not_eq_true', List.all_eq_true, List.isEmpty_eq_false_iff] at hq ⊢
        refine ⟨?_, fun c hc => hq.2 c (List.mem_of_mem_drop (List.mem_of_mem_take hc))⟩
        intro he
        have := congrArg List.length he
        simp at this
        omega
      · exact chunkFns_good hs fuel (i + w) d hd r hr
    · simp [chunkFns, h1] at hd

/-! ### `strip` of a blank string (used by Props/C06Gen) -/

theorem dropWhile_isEmpty (p : Char → Bool) : ∀ l : Str, (l.dropWhile p).isEmpty = l.all p
  | [] => rfl
  | c :: cs => by
    by_cases h : p c = true
    · simp [List.dropWhile, h, dropWhile_isEmpty p cs]
    · simp [List.dropWhile, h]

theorem dropWhile_all (p : Char → Bool) : ∀ l : Str, (l.dropWhile p).all p = l.all p
  | [] => rfl
  | c :: cs => by
    by_cases h : p c = true
    · simp [List.dropWhile, h, dropWhile_all p cs]
    · simp [List.dropWhile, h]

end CogentModel.Clustal
