import CogentModel.Proofs.ViewSliceFF
import CogentModel.Proofs.ViewSliceFR
import CogentModel.Proofs.ViewSliceRF
import CogentModel.Proofs.ViewSliceRR
/-! `getitemSlice` implements Python slicing of the displayed positions. -/
namespace CogentModel.View
open CogentModel

theorem sliceIdx_pos (n : Int) (hn : 0 ≤ n) (a b : Option Int) (c : Int) (hc : 0 < c) :
    PySlice.sliceIdx n.toNat a b c = PySlice.rangeList (clampP (a.getD 0) n) (clampP (b.getD n) n) c := by
  unfold PySlice.sliceIdx
  rw [Int.toNat_of_nonneg hn, indices_pos' n hn a b c hc]

theorem sliceIdx_neg (n : Int) (hn : 0 ≤ n) (a b : Option Int) (c : Int) (hc : c < 0) :
    PySlice.sliceIdx n.toNat a b c =
      PySlice.rangeList (clampN (a.getD (-1)) n) (clampN (b.getD (-n - 1)) n) c := by
  unfold PySlice.sliceIdx
  rw [Int.toNat_of_nonneg hn, indices_neg' n hn a b c hc]

/-- "(length, first, stride) agree" ⇒ the displayed list is the mapped Python range -/
theorem spec_of_sem (v w : View) (A B c : Int)
    (hsem : Sem w (PySlice.rangeLen A B c) (first v + A * v.step) (v.step * c)) :
    elems w = (PySlice.rangeList A B c).map fun j => first v + j * v.step := by
  rw [elems_of_sem w _ _ _ hsem]
  unfold PySlice.rangeList
  rw [List.map_map]
  apply List.map_congr_left
  intro i _
  simp only [Function.comp]
  ring

theorem elems_nil_of_len (w : View) (h : len w = 0) : elems w = [] := by
  unfold elems; rw [h]; rfl

/-- the identity slice: a view displays `range(0, n)` mapped through itself -/
theorem sem_self (v : View) :
    Sem v (PySlice.rangeLen 0 (len v) 1) (first v + 0 * v.step) (v.step * 1) := by
  have hn := len_nonneg v
  refine ⟨?_, fun _ => ⟨by ring, by ring⟩⟩
  unfold PySlice.rangeLen
  by_cases h : 0 < len v
  · simp [h]
  · have : len v = 0 := by omega
    simp [this]

theorem remk_self (v w : View) (h : Inv v) (hw : remk v v.start v.stop v.step = .ok w) :
    elems w = elems v := by
  obtain ⟨hN, hI | hI⟩ := h
  · obtain ⟨hk, i0, i1, i2⟩ := hI
    rw [remk_pos_eq v _ _ _ hN hk i0 (by omega), min_eq_right i2] at hw
    have hw' := (Except.ok.inj hw).symm
    by_cases hlt : v.start < v.stop
    · rw [if_pos hlt] at hw'; rw [hw']
    · rw [if_neg hlt] at hw'
      rw [elems_nil_of_len w (by rw [hw']; rfl), elems_nil_of_len v (len_eq_zero_of_eq v (by omega))]
  · obtain ⟨hk, i0, i1, i2⟩ := hI
    rw [remk_neg_eq v _ _ _ hN hk i2 i0 (by omega)] at hw
    have hw' := (Except.ok.inj hw).symm
    by_cases hlt : v.start < -v.seqLen ∨ v.start < v.stop
    · rw [if_pos hlt] at hw'
      rw [elems_nil_of_len w (by rw [hw']; rfl), elems_nil_of_len v (len_eq_zero_of_eq v (by omega))]
    · rw [if_neg hlt] at hw'; rw [hw']

theorem clampP_zero (x : Int) : clampP x 0 = 0 := by unfold clampP; omega
theorem clampN_zero (x : Int) : clampN x 0 = -1 := by unfold clampN; omega

theorem getitemSlice_spec (fl : Flavour) (v w : View) (a b c : Option Int) (h : Inv v)
    (hc : c ≠ some 0) (hw : getitemSlice fl v a b c = .ok w) :
    elems w = (PySlice.sliceIdx (len v).toNat a b (c.getD 1)).map fun j => first v + j * v.step := by
  have hn := len_nonneg v
  have hc0 : c.getD 1 ≠ 0 := by
    cases c with
    | none => simp
    | some s => simp at hc ⊢; exact hc
  unfold getitemSlice at hw
  split at hw
  · -- full copy
    rename_i hnone
    obtain ⟨ha, hb, hcn⟩ := hnone
    subst ha hb hcn
    have e1 : elems w = elems v := by
      cases fl
      · exact remk_self v w h hw
      · rw [← Except.ok.inj hw]
    rw [e1, Option.getD_none, sliceIdx_pos _ hn _ _ _ (by omega)]
    have : clampP 0 (len v) = 0 := by unfold clampP; omega
    have : clampP (len v) (len v) = len v := by unfold clampP; omega
    simp only [Option.getD_none]
    rw [‹clampP 0 (len v) = 0›, ‹clampP (len v) (len v) = len v›]
    exact spec_of_sem v v 0 (len v) 1 (sem_self v)
  split at hw
  · -- empty view
    rename_i h0
    rw [← Except.ok.inj hw, elems_nil_of_len v h0, h0]
    rcases Int.lt_or_lt_of_ne hc0 with hneg | hpos
    · rw [sliceIdx_neg 0 (by omega) _ _ _ hneg, clampN_zero, clampN_zero]
      unfold PySlice.rangeList
      rw [rangeLen_neg_empty _ _ _ hneg (by omega)]; rfl
    · rw [sliceIdx_pos 0 (by omega) _ _ _ hpos, clampP_zero, clampP_zero]
      unfold PySlice.rangeList
      rw [rangeLen_pos_empty _ _ _ hpos (by omega)]; rfl
  rename_i hlen
  split at hw
  · -- start == stop
    rename_i hab
    obtain ⟨ha, hab⟩ := hab
    subst hab
    rw [← Except.ok.inj hw, elems_nil_of_len _ (len_zero fl v)]
    rcases Int.lt_or_lt_of_ne hc0 with hneg | hpos
    · rw [sliceIdx_neg _ hn _ _ _ hneg]
      cases a with
      | none => exact absurd rfl ha
      | some x =>
        simp only [Option.getD_some]
        unfold PySlice.rangeList
        rw [rangeLen_neg_empty _ _ _ hneg (by omega)]; rfl
    · rw [sliceIdx_pos _ hn _ _ _ hpos]
      cases a with
      | none => exact absurd rfl ha
      | some x =>
        simp only [Option.getD_some]
        unfold PySlice.rangeList
        rw [rangeLen_pos_empty _ _ _ hpos (by omega)]; rfl
  simp only [] at hw
  have hvs : v.step > 0 ∨ v.step < 0 := by
    rcases h with ⟨_, hI | hI⟩
    · left; exact hI.1
    · right; exact hI.1
  split at hw
  · rename_i hpos
    rw [sliceIdx_pos _ hn _ _ _ hpos]
    apply spec_of_sem
    split at hw
    · rename_i hk
      exact fwdFromFwd_sem fl v w _ _ _ h hk hpos hlen hw
    · rename_i hk
      exact fwdFromRev_sem fl v w _ _ _ h (by omega) hpos hlen hw
  split at hw
  · rename_i hpos hneg
    rw [sliceIdx_neg _ hn _ _ _ hneg]
    apply spec_of_sem
    split at hw
    · rename_i hk
      exact revFromRev_sem fl v w _ _ _ h hk hneg hlen hw
    · rename_i hk
      exact revFromFwd_sem fl v w _ _ _ h (by omega) hneg hlen hw
  · cases hw

end CogentModel.View
