import CogentModel.Proofs.IndelMapSegs1
namespace CogentModel.IndelMap
open CogentModel.Gapped List CogentModel

/-- segments between consecutive gaps, after a gap that ended at column `e` -/
def midsFrom (e : Int) : List Trip → List (Int × Int)
  | (_, s, e') :: r => (e, s) :: midsFrom e' r
  | [] => []

def lastE (e : Int) : List Trip → Int
  | (_, _, e') :: r => lastE e' r
  | [] => e

theorem augT_decomp (r : List Trip) : ∀ (col s e L : Int) (p : Int),
    augT col ((p, s, e) :: r) L = (col, s) :: (midsFrom e r ++ [(lastE e r, L)]) := by
  induction r with
  | nil => intro col s e L p; rfl
  | cons t r' ih =>
    intro col s e L p
    obtain ⟨p', s', e'⟩ := t
    have := ih e s' e' L p'
    simp only [augT] at this ⊢
    rw [this]; rfl

theorem nongapFrom_mids (ps : List Int) : ∀ (cs : List Int) (p c : Int), (∀ q ∈ ps, q ≠ 0) →
    nongapFrom false p c ps cs = midsFrom (p + c) (trips c ps cs) := by
  induction ps with
  | nil => intro cs p c _; cases cs <;> rfl
  | cons q qs ih =>
    intro cs p c h
    cases cs with
    | nil => rfl
    | cons d ds =>
      have hq := h q (by simp)
      simp only [nongapFrom, hq, if_false, Bool.false_eq_true, trips, midsFrom, singleton_append]
      rw [ih ds q d (fun x hx => h x (by simp [hx]))]

theorem lastE_trips (ps : List Int) : ∀ (cs : List Int) (p c : Int), ps.length = cs.length →
    lastE (p + c) (trips c ps cs) = lastD (p :: ps) + lastD (c :: cs) := by
  induction ps with
  | nil => intro cs p c hl; cases cs with
    | nil => rfl
    | cons _ _ => simp at hl
  | cons q qs ih =>
    intro cs p c hl
    cases cs with
    | nil => simp at hl
    | cons d ds =>
      simp only [trips, lastE, lastD_cons_cons]
      exact ih ds q d (by simpa using hl)

theorem mids_facts (r : List Trip) : ∀ (e : Int), TSorted (e + 1) r →
    (∀ x ∈ midsFrom e r, e ≤ x.1 ∧ x.1 < x.2) ∧
    (∀ x, (midsFrom e r).getLast? = some x → x.2 < lastE e r) ∧ e ≤ lastE e r := by
  induction r with
  | nil => intro e _; simp [midsFrom, lastE]
  | cons t r' ih =>
    intro e hs
    obtain ⟨p, s, e'⟩ := t
    obtain ⟨h1, h2, h3⟩ := hs
    obtain ⟨i1, i2, i3⟩ := ih e' h3
    refine ⟨?_, ?_, ?_⟩
    · intro x hx
      simp only [midsFrom, mem_cons] at hx
      rcases hx with rfl | hx
      · simp only; omega
      · have := i1 x hx; omega
    · intro x hx
      simp only [midsFrom, lastE] at hx ⊢
      cases hm : midsFrom e' r' with
      | nil => rw [hm] at hx; simp only [getLast?_singleton, Option.some.injEq] at hx; subst hx; simp only; omega
      | cons y ys =>
        rw [hm, getLast?_cons_cons] at hx
        exact i2 x (by rw [hm]; exact hx)
    · simp only [lastE]; omega

def fasStep1 (locs : List (Int × Int)) : List (Int × Int) :=
  match locs with
  | [] => [(0, 0)]
  | first :: _ => if first.1 ≠ 0 then (0, 0) :: locs else locs

def fasStep2 (locs : List (Int × Int)) (L : Int) : List (Int × Int) :=
  if (match locs.getLast? with | some l => l.2 | none => 0) < L then locs ++ [(L, L)] else locs

theorem fasAugment_eq (locs : List (Int × Int)) (L : Int) : fasAugment locs L = fasStep2 (fasStep1 locs) L := rfl

/-- the sentinel handling restores the sentinel-complete list from the non-empty segments -/
theorem fasAugment_spec (s1 eN L : Int) (M : List (Int × Int)) (h0 : 0 ≤ s1) (hs1 : s1 < L)
    (hM : ∀ x ∈ M, 0 < x.1) (hML : ∀ x, M.getLast? = some x → x.2 < L) (heN : 0 < eN) (heL : eN ≤ L) :
    fasAugment ((if 0 < s1 then [(0, s1)] else []) ++ M ++ (if eN < L then [(eN, L)] else [])) L =
      (0, s1) :: (M ++ [(eN, L)]) := by
  have step1 : fasStep1 ((if 0 < s1 then [((0 : Int), s1)] else []) ++ M ++ (if eN < L then [(eN, L)] else []))
      = (0, s1) :: (M ++ (if eN < L then [(eN, L)] else [])) := by
    by_cases hp : 0 < s1
    · simp [hp, fasStep1]
    · have hz : s1 = 0 := by omega
      subst hz
      simp only [hp, if_false, nil_append]
      cases hM' : M with
      | nil =>
        by_cases hz : eN < L
        · simp only [hz, if_true, nil_append, fasStep1]; rw [if_pos (by simp; omega)]
        · simp [hz, fasStep1]
      | cons x xs =>
        have := hM x (by rw [hM']; simp)
        simp only [cons_append, fasStep1]
        rw [if_pos (by omega)]
  rw [fasAugment_eq, step1]
  unfold fasStep2
  by_cases hz : eN < L
  · simp only [hz, if_true]
    have hl : ((0, s1) :: (M ++ [(eN, L)])).getLast? = some (eN, L) := by
      rw [← cons_append, getLast?_append]; simp
    rw [hl]
    simp
  · have heq : eN = L := by omega
    simp only [hz, if_false, append_nil]
    have hl : ∃ x, ((0, s1) :: M).getLast? = some x ∧ x.2 < L := by
      cases hM' : M with
      | nil => exact ⟨(0, s1), rfl, hs1⟩
      | cons y ys =>
        have hne : (y :: ys).getLast? ≠ none := by simp
        obtain ⟨x, hx⟩ := Option.ne_none_iff_exists'.mp hne
        refine ⟨x, by rw [getLast?_cons_cons]; exact hx, hML x (by rw [hM']; exact hx)⟩
    obtain ⟨x, hx1, hx2⟩ := hl
    rw [hx1]
    simp only [hx2, if_true, heq, cons_append]

end CogentModel.IndelMap
