import CogentModel.Proofs.IndelMapAdd2
namespace CogentModel.IndelMap
open CogentModel.Gapped List CogentModel

theorem dictAdd_append (pos d v : Int) : ∀ (g : List (Int × Int)), (∀ x ∈ g, x.1 ≠ pos) →
    dictAdd pos d v g = g ++ [(pos, d + v)] := by
  intro g
  induction g with
  | nil => intro _; rfl
  | cons x r ih =>
    intro h
    obtain ⟨k, y⟩ := x
    have hk : k ≠ pos := h (k, y) (by simp)
    simp only [dictAdd, hk, if_false, cons_append]
    rw [ih (fun z hz => h z (by simp [hz]))]

theorem dictAdd_last (pos d v x : Int) : ∀ (g : List (Int × Int)), (∀ z ∈ g, z.1 ≠ pos) →
    dictAdd pos d v (g ++ [(pos, x)]) = g ++ [(pos, x + v)] := by
  intro g
  induction g with
  | nil => intro _; simp [dictAdd]
  | cons z r ih =>
    intro h
    obtain ⟨k, y⟩ := z
    have hk : k ≠ pos := h (k, y) (by simp)
    simp only [cons_append, dictAdd, hk, if_false]
    rw [ih (fun w hw => h w (by simp [hw]))]

/-- all later gaps of a slice are appended: their keys exceed every key seen so far -/
theorem joinGaps_append (cp cl : Int) : ∀ (ps cs : List Int) (g : List (Int × Int)) (lo : Int),
    ps.length = cs.length → ps.Pairwise (· < ·) → (∀ p ∈ ps, lo < p + cp) → (∀ x ∈ g, x.1 ≤ lo) →
    joinGaps cp cl ps cs g = g ++ zip (ps.map (cp + ·)) (cs.map (cl + ·)) := by
  intro ps
  induction ps with
  | nil => intro cs g lo hl _ _ _; cases cs <;> simp [joinGaps]
  | cons p r ih =>
    intro cs g lo hl hs hp hg
    cases cs with
    | nil => simp at hl
    | cons c cs' =>
      have hs' := pairwise_cons.mp hs
      have hp0 := hp p (by simp)
      simp only [joinGaps]
      rw [dictAdd_append _ _ _ g (fun x hx => by have := hg x hx; omega)]
      rw [ih cs' _ (p + cp) (by simpa using hl) hs'.2
        (fun q hq => by have := hs'.1 q hq; omega)
        (fun x hx => by
          rcases mem_append.mp hx with h1 | h1
          · have := hg x h1; omega
          · simp only [mem_singleton] at h1; subst h1; simp)]
      have e1 : p + cp = cp + p := by omega
      simp only [map_cons, zip_cons_cons, append_assoc, singleton_append, e1]

theorem sortPairs_sorted : ∀ (g : List (Int × Int)), (g.map (·.1)).Pairwise (· < ·) → sortPairs g = g := by
  intro g
  induction g with
  | nil => intro _; rfl
  | cons x r ih =>
    intro h
    simp only [map_cons, pairwise_cons] at h
    have hr := ih h.2
    show insertPair x (sortPairs r) = x :: r
    rw [hr]
    cases r with
    | nil => rfl
    | cons y r' =>
      have := h.1 y.1 (by simp)
      simp only [insertPair]
      rw [if_pos (Or.inl this)]

end CogentModel.IndelMap
