import CogentModel.Model.AnnotDbRoundTrip
import CogentModel.Proofs.AnnotDb
namespace CogentModel.AnnotDb

theorem richToRec_recToRich (r : Rec) : richToRec (recToRich r) = r := by
  obtain ⟨a, b, c, d, e, sp, s, t⟩ := r
  cases a <;> cases b <;> cases c <;> cases d <;> cases e <;>
    simp [recToRich, richToRec, optField, getStr, List.lookup]

theorem map_rich_roundtrip (l : List Rec) : (l.map recToRich).map richToRec = l := by
  rw [List.map_map]
  conv => rhs; rw [← List.map_id l]
  apply List.map_congr_left
  intro r _
  exact richToRec_recToRich r

/-- inserting the rich records = appending every table of the source -/
theorem fromRichInto_toRich (opened db : Db) :
    fromRichInto opened (toRich db) = db.tables.foldl (fun acc t => addToTable acc t.1 t.2) opened := by
  unfold fromRichInto toRich
  rw [List.foldl_map]
  congr 1
  funext acc t
  simp only [map_rich_roundtrip]

theorem appendTables_perm (opened db : Db) (ho : opened.WF) (hd : db.WF) (hk : opened.kind = db.kind) :
    let r := db.tables.foldl (fun acc t => addToTable acc t.1 t.2) opened
    r.WF ∧ r.kind = opened.kind ∧ r.records.Perm (opened.records ++ db.records) := by
  obtain ⟨ko, to⟩ := opened
  obtain ⟨kd, td⟩ := db
  simp only [] at hk
  subst hk
  cases ko
  · obtain ⟨u1, rfl⟩ := wf_basic ho rfl
    obtain ⟨u2, rfl⟩ := wf_basic hd rfl
    refine ⟨by simp [Db.WF, addToTable, tableNames], by simp [addToTable], ?_⟩
    simp [addToTable, Db.records]
  · obtain ⟨g1, u1, rfl⟩ := wf_gff ho rfl
    obtain ⟨g2, u2, rfl⟩ := wf_gff hd rfl
    refine ⟨by simp [Db.WF, addToTable, tableNames], by simp [addToTable], ?_⟩
    simp [addToTable, Db.records]
    apply perm_of_count; intro a; simp [List.count_append]; omega
  · obtain ⟨g1, u1, rfl⟩ := wf_gb ho rfl
    obtain ⟨g2, u2, rfl⟩ := wf_gb hd rfl
    refine ⟨by simp [Db.WF, addToTable, tableNames], by simp [addToTable], ?_⟩
    simp [addToTable, Db.records]
    apply perm_of_count; intro a; simp [List.count_append]; omega

theorem jsonRoundTrip_memory_perm (db : Db) (h : db.WF) :
    (jsonRoundTrip db false).WF ∧ (jsonRoundTrip db false).kind = db.kind ∧
      (jsonRoundTrip db false).records.Perm db.records := by
  unfold jsonRoundTrip
  simp only [Bool.false_eq_true, if_false]
  rw [fromRichInto_toRich]
  have := appendTables_perm (Db.empty db.kind) db (empty_wf _) h (by cases hk : db.kind <;> simp [Db.empty])
  simp only [] at this
  obtain ⟨w, k, p⟩ := this
  refine ⟨w, by rw [k]; cases db.kind <;> rfl, ?_⟩
  rw [empty_records, List.nil_append] at p
  exact p

theorem jsonRoundTrip_file_doubles (db : Db) (h : db.WF) :
    (jsonRoundTrip db true).records.Perm (db.records ++ db.records) := by
  unfold jsonRoundTrip
  simp only [if_true]
  rw [fromRichInto_toRich]
  exact (appendTables_perm db db h h rfl).2.2
end CogentModel.AnnotDb
