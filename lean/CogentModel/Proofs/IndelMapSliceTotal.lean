import CogentModel.Proofs.IndelMapSliceSpec
namespace CogentModel.IndelMap
open CogentModel.Gapped List CogentModel

theorem takeT_pos_le (T : List Trip) : ∀ (col next stop : Int), TSorted col T → TRel col next T → col ≤ stop →
    ∀ t ∈ takeT stop T, t.1 ≤ seqIdxT col next T stop := by
  induction T with
  | nil => intro _ _ _ _ _ _ t ht; simp [takeT] at ht
  | cons t0 r ih =>
    intro col next stop hs hr h t ht
    obtain ⟨p, s, e⟩ := t0
    obtain ⟨h1, h2, h3⟩ := hs
    obtain ⟨r1, r2⟩ := hr
    simp only [takeT] at ht
    simp only [seqIdxT]
    by_cases c1 : e ≤ stop
    · rw [if_pos c1] at ht
      rw [if_neg (by omega)]
      by_cases c2 : stop ≤ e
      · have hse : stop = e := by omega
        subst hse
        rw [if_pos c2]
        rcases mem_cons.mp ht with rfl | ht'
        · exact Int.le_refl _
        · rw [takeT_of_lt r stop (tsorted_mono _ _ _ (by omega) h3)] at ht'; simp at ht'
      · rw [if_neg c2]
        rcases mem_cons.mp ht with rfl | ht'
        · exact seqIdxT_ge_next r e p stop (tsorted_mono _ _ _ (by omega) h3) r2 (by omega)
        · exact ih e p stop (tsorted_mono _ _ _ (by omega) h3) r2 (by omega) t ht'
    · rw [if_neg c1] at ht
      by_cases c2 : s < stop
      · rw [if_pos c2] at ht
        simp only [mem_singleton] at ht
        subst ht
        rw [if_neg (by omega), if_pos (by omega)]
      · rw [if_neg c2] at ht; simp at ht

/-- an in-range interval of a map with gaps never raises -/
theorem getitemGaps_total (m : IMap) (h : WF m) (hne : m.gapPos ≠ []) (start stop : Int) (h0 : 0 ≤ start)
    (hlt : start < stop) (hle : stop ≤ len m) : ∃ r, getitemGaps m start stop = .ok r := by
  by_cases c1 : stop < m.gapPos.headD 0 ∨ start ≥ lastD m.gapPos + lastD m.cumLens
  · exact ⟨emptyMap (stop - start), by unfold getitemGaps; simp only [c1, if_true]⟩
  · by_cases c2 : getN (gapStarts m.gapPos m.cumLens) (ssLeft (gapEnds m.gapPos m.cumLens) start) ≤ start ∧
              start < getN (gapEnds m.gapPos m.cumLens) (ssLeft (gapEnds m.gapPos m.cumLens) start) ∧
              stop ≤ getN (gapEnds m.gapPos m.cumLens) (ssLeft (gapEnds m.gapPos m.cumLens) start)
    · exact ⟨⟨[0], [stop - start], 0⟩, by unfold getitemGaps; simp only [c1, if_false, c2, and_self, if_true]⟩
    · rw [getitemGaps_general m h hne start stop h0 hlt c1 c2]
      have hTs : TSorted 0 (trips 0 m.gapPos m.cumLens) := by
        have := trips_sorted m.gapPos m.cumLens (-1) 0 h.inc; simpa using this
      have hTr : TRel 0 0 (trips 0 m.gapPos m.cumLens) := by
        have := trips_rel m.gapPos m.cumLens 0 0; simpa using this
      rw [seqIndexNN_eq_T m h start, seqIndexNN_eq_T m h stop]
      generalize hT : trips 0 m.gapPos m.cumLens = T at *
      generalize hsh : seqIdxT 0 0 T start = sh
      have hDs : TSorted start (dropT start T) := dropT_sorted T 0 start hTs h0
      have hDr : TRel start sh (dropT start T) := by rw [← hsh]; exact dropT_rel T 0 0 start hTs hTr h0
      have hcomp : seqIdxT start sh (dropT start T) stop = seqIdxT 0 0 T stop := by
        rw [← hsh]; exact seqIdxT_comp T 0 0 start stop hTs h0 (by omega)
      have hbound := takeT_pos_le (dropT start T) start sh stop hDs hDr (by omega)
      rw [hcomp] at hbound
      generalize hT' : takeT stop (dropT start T) = T' at *
      unfold mkLengths mk
      rw [if_neg (by simp [cumsum, cumsumFrom_length])]
      rw [if_neg]
      · exact ⟨_, rfl⟩
      · intro ⟨hne', hgt⟩
        have hmem := lastD_mem _ hne'
        obtain ⟨t, ht, hte⟩ := mem_map.mp hmem
        have := hbound t ht
        omega

/-- **in-range slicing never raises**: the only error `IndelMap.__getitem__` can give (for
`step is None`) is the IndexError for a negative bound below `-len` -/
theorem getitem_total' (m : IMap) (h : WF m) (a b : Option Int)
    (ha : ∀ x, a = some x → -len m ≤ x) (hb : ∀ y, b = some y → -len m ≤ y) :
    ∃ r, getitem m a b none = .ok r := by
  have hlen : ((abs m).length : Int) = len m := len_eq' m h
  have hlen0 : 0 ≤ len m := by omega
  rw [getitem_eq_tail]
  unfold getitemTail
  simp only []
  have hs : ¬ ((if a.getD 0 ≥ 0 then a.getD 0 else len m + a.getD 0) < 0) := by
    cases a with
    | none => simp
    | some x => have := ha x rfl; simp only [Option.getD_some]; split <;> omega
  have he : ¬ ((if b.getD (len m) ≥ 0 then b.getD (len m) else len m + b.getD (len m)) < 0) := by
    cases b with
    | none => simp only [Option.getD_none]; split <;> omega
    | some y => have := hb y rfl; simp only [Option.getD_some]; split <;> omega
  rw [if_neg (by intro hh; rcases hh with hh | hh; exact hs hh; exact he hh)]
  generalize (if a.getD 0 ≥ 0 then a.getD 0 else len m + a.getD 0) = start at *
  generalize (if b.getD (len m) ≥ 0 then b.getD (len m) else len m + b.getD (len m)) = stop at *
  by_cases hge : start ≥ min stop (len m)
  · rw [if_pos hge]; exact ⟨_, rfl⟩
  · rw [if_neg hge]
    by_cases hg : m.gapPos = []
    · rw [if_pos hg]; exact ⟨_, rfl⟩
    · rw [if_neg hg]
      exact getitemGaps_total m h hg start (min stop (len m)) (by omega) (by omega) (by omega)

end CogentModel.IndelMap
