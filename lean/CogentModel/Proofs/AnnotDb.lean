import CogentModel.Model.AnnotDb
import CogentModel.Spec.AnnotDb
/-! Helper lemmas for C17 (annotation databases).  No Mathlib needed: `omega`, `simp`, core `List.Perm`. -/
namespace CogentModel.AnnotDb
open CogentModel.Gen.C17Sql CogentModel.AnnotDbSpec


/-- what the property theorems establish about the four generated interval clauses -/
structure ClausesOk : Prop where
  part : ∀ s e a b : Int, s < e → a < b → (matchPartial s e a b = true ↔ overlaps s e a b)
  within : ∀ s e a b : Int, matchWithin s e a b = true ↔ within s e a b
  startOnly : ∀ s e a : Int, matchStartOnly s e a = true ↔ containsPt s e a
  stopOnly : ∀ s e b : Int, matchStopOnly s e b = true ↔ containsPt s e b

theorem windowConds_spec (ok : ClausesOk) (q : Query) (r : Rec) (hr : r.start < r.stop) (hq : WindowOk q) :
    (windowConds q).all (fun c => c r) = windowMatch q r := by
  unfold windowConds windowMatch
  unfold WindowOk at hq
  cases hs : q.start <;> cases he : q.stop <;> simp only [hs, he] at hq ⊢
  · simp
  · simp only [List.all_cons, List.all_nil, Bool.and_true]
    rw [Bool.eq_iff_iff, ok.stopOnly]; simp
  · simp only [List.all_cons, List.all_nil, Bool.and_true]
    rw [Bool.eq_iff_iff, ok.startOnly]; simp
  · simp only [List.all_cons, List.all_nil, Bool.and_true]
    cases q.allowPartial
    · simp only [Bool.false_eq_true, if_false]; rw [Bool.eq_iff_iff, ok.within]; simp
    · simp only [if_true]; rw [Bool.eq_iff_iff, ok.part _ _ _ _ hr hq]; simp

theorem optCond_spec (q : Option String) (f : Rec → Option String) (r : Rec) :
    (optCond q f).all (fun c => c r) = optMatch q (f r) := by
  cases q <;> simp [optCond, optMatch]

theorem rowMatches_spec (ok : ClausesOk) (q : Query) (r : Rec) (hr : r.start < r.stop) (hq : WindowOk q) :
    rowMatches q r = specMatch q r := by
  unfold rowMatches whereConds columnConds specMatch
  simp only [List.all_append, optCond_spec, windowConds_spec ok q r hr hq]

theorem selectTable_spec (ok : ClausesOk) (t : List Rec) (q : Query) (ht : ∀ r ∈ t, r.start < r.stop) (hq : WindowOk q) :
    selectTable t q = linearScan t q := by
  unfold selectTable linearScan
  apply List.filter_congr
  intro r hr
  exact rowMatches_spec ok q r (ht r hr) hq

/-- (audit) outside the "both bounds + `allow_partial`" mode no side condition is needed -/
theorem windowConds_spec_nonpartial (ok : ClausesOk) (q : Query) (r : Rec)
    (h : q.allowPartial = false ∨ q.start = none ∨ q.stop = none) :
    (windowConds q).all (fun c => c r) = windowMatch q r := by
  unfold windowConds windowMatch
  cases hs : q.start <;> cases he : q.stop <;> simp only [hs, he] at h ⊢
  · simp
  · simp only [List.all_cons, List.all_nil, Bool.and_true]
    rw [Bool.eq_iff_iff, ok.stopOnly]; simp
  · simp only [List.all_cons, List.all_nil, Bool.and_true]
    rw [Bool.eq_iff_iff, ok.startOnly]; simp
  · have hp : q.allowPartial = false := by simpa using h
    simp only [List.all_cons, List.all_nil, Bool.and_true, hp, Bool.false_eq_true, if_false]
    rw [Bool.eq_iff_iff, ok.within]; simp

theorem selectTable_nonpartial (ok : ClausesOk) (t : List Rec) (q : Query)
    (h : q.allowPartial = false ∨ q.start = none ∨ q.stop = none) :
    selectTable t q = linearScan t q := by
  unfold selectTable linearScan
  apply List.filter_congr
  intro r _
  unfold rowMatches whereConds columnConds specMatch
  simp only [List.all_append, optCond_spec, windowConds_spec_nonpartial ok q r h]

theorem filter_flatMap {α β} (p : β → Bool) (f : α → List β) (l : List α) :
    (l.flatMap f).filter p = l.flatMap (fun a => (f a).filter p) := by
  induction l with
  | nil => rfl
  | cons a l ih => simp [List.flatMap_cons, List.filter_append, ih]

theorem query_is_filter_of (ok : ClausesOk) (db : Db) (q : Query) (hdb : ∀ r ∈ db.records, r.start < r.stop) (hq : WindowOk q) :
    getMatching db q = linearScan db.records q := by
  unfold getMatching linearScan Db.records
  unfold Db.records at hdb
  rw [filter_flatMap]
  generalize db.tables = ts at hdb
  induction ts with
  | nil => rfl
  | cons t ts ih =>
    simp only [List.flatMap_cons]
    rw [ih (fun r hr => hdb r (by simp only [List.flatMap_cons, List.mem_append]; exact Or.inr hr))]
    rw [selectTable_spec ok t.2 q (fun r hr => hdb r (by simp only [List.flatMap_cons, List.mem_append]; exact Or.inl hr)) hq]
    rfl


theorem insertSorted_perm (p : Int × Int) (l : List (Int × Int)) : (insertSorted p l).Perm (p :: l) := by
  induction l with
  | nil => exact List.Perm.refl _
  | cons q qs ih =>
    unfold insertSorted
    split
    · exact List.Perm.refl _
    · exact (List.Perm.cons q ih).trans (List.Perm.swap p q qs)

theorem sortSpans_perm (l : List (Int × Int)) : (sortSpans l).Perm l := by
  induction l with
  | nil => exact List.Perm.refl _
  | cons p ps ih =>
    unfold sortSpans
    exact (insertSorted_perm p _).trans (List.Perm.cons p ih)

theorem covers_of_mem_iff {l l' : List (Int × Int)} (h : ∀ x, x ∈ l ↔ x ∈ l') (p : Int) :
    covers l p ↔ covers l' p := by
  unfold covers
  constructor
  · rintro ⟨sp, hm, hp⟩; exact ⟨sp, (h sp).mp hm, hp⟩
  · rintro ⟨sp, hm, hp⟩; exact ⟨sp, (h sp).mpr hm, hp⟩

theorem covers_sortSpans (l : List (Int × Int)) (p : Int) : covers (sortSpans l) p ↔ covers l p :=
  covers_of_mem_iff (fun _ => (sortSpans_perm l).mem_iff) p

theorem covers_map_sortPair (l : List (Int × Int)) (p : Int) : covers (l.map sortPair) p ↔ covers l p := by
  unfold covers
  constructor
  · rintro ⟨sp, hm, hp⟩
    obtain ⟨sp0, hm0, rfl⟩ := List.mem_map.mp hm
    refine ⟨sp0, hm0, ?_⟩
    unfold sortPair at hp
    split at hp <;> omega
  · rintro ⟨sp, hm, hp⟩
    refine ⟨sortPair sp, List.mem_map.mpr ⟨sp, hm, rfl⟩, ?_⟩
    unfold sortPair
    split <;> omega

theorem norm_positions (spans : List (Int × Int)) (p : Int) : covers (normSpans spans) p ↔ covers spans p := by
  unfold normSpans
  rw [covers_sortSpans, covers_map_sortPair]

theorem minList_le (l : List Int) (x : Int) (h : x ∈ l) : minList l ≤ x := by
  induction l with
  | nil => cases h
  | cons y ys ih =>
    cases ys with
    | nil => simp only [List.mem_singleton] at h; subst h; simp [minList]
    | cons z zs =>
      simp only [minList]
      rcases List.mem_cons.mp h with h | h
      · subst h; omega
      · have := ih h; omega

theorem le_maxList (l : List Int) (x : Int) (h : x ∈ l) : x ≤ maxList l := by
  induction l with
  | nil => cases h
  | cons y ys ih =>
    cases ys with
    | nil => simp only [List.mem_singleton] at h; subst h; simp [maxList]
    | cons z zs =>
      simp only [maxList]
      rcases List.mem_cons.mp h with h | h
      · subst h; omega
      · have := ih h; omega

theorem minList_mem (l : List Int) (h : l ≠ []) : minList l ∈ l := by
  induction l with
  | nil => exact absurd rfl h
  | cons y ys ih =>
    cases ys with
    | nil => simp [minList]
    | cons z zs =>
      simp only [minList]
      have := ih (by simp)
      by_cases hle : y ≤ minList (z :: zs)
      · rw [Int.min_eq_left hle]; exact List.mem_cons_self
      · rw [Int.min_eq_right (by omega)]; exact List.mem_cons_of_mem _ this

theorem maxList_mem (l : List Int) (h : l ≠ []) : maxList l ∈ l := by
  induction l with
  | nil => exact absurd rfl h
  | cons y ys ih =>
    cases ys with
    | nil => simp [maxList]
    | cons z zs =>
      simp only [maxList]
      have := ih (by simp)
      by_cases hle : maxList (z :: zs) ≤ y
      · rw [Int.max_eq_left hle]; exact List.mem_cons_self
      · rw [Int.max_eq_right (by omega)]; exact List.mem_cons_of_mem _ this

theorem mem_coords {spans : List (Int × Int)} {sp : Int × Int} (h : sp ∈ spans) :
    sp.1 ∈ coords spans ∧ sp.2 ∈ coords spans := by
  unfold coords
  constructor <;> exact List.mem_flatMap.mpr ⟨sp, h, by simp⟩

/-- the stored `start`/`stop` are the hull of the spans -/
theorem hull_of_covers (spans : List (Int × Int)) (p : Int) (h : covers spans p) :
    spanStart spans ≤ p ∧ p < spanStop spans := by
  obtain ⟨sp, hm, hp⟩ := h
  have ⟨h1, h2⟩ := mem_coords hm
  have a1 := minList_le _ _ h1
  have a2 := minList_le _ _ h2
  have b1 := le_maxList _ _ h1
  have b2 := le_maxList _ _ h2
  unfold spanStart spanStop
  omega

theorem gffCoords_positions (first last p1 : Int) (h1 : 1 ≤ first) (h2 : first ≤ last) :
    covers1 first last p1 ↔ (gffCoords first last).1 ≤ p1 - 1 ∧ p1 - 1 < (gffCoords first last).2 := by
  unfold gffCoords covers1
  simp only []
  split <;> split <;> simp only [] <;> omega



/-- representation invariant: table names are those of the class, in order -/
def Db.WF (db : Db) : Prop := db.tables.map (·.1) = tableNames db.kind

theorem wf_basic {db : Db} (h : db.WF) (hk : db.kind = .basic) : ∃ u, db.tables = [("user", u)] := by
  unfold Db.WF at h; rw [hk] at h
  match hT : db.tables, h with
  | [(n, u)], h => simp [tableNames] at h; exact ⟨u, by rw [h]⟩

theorem wf_gff {db : Db} (h : db.WF) (hk : db.kind = .gff) : ∃ g u, db.tables = [("gff", g), ("user", u)] := by
  unfold Db.WF at h; rw [hk] at h
  match hT : db.tables, h with
  | [(n, g), (m, u)], h => simp [tableNames] at h; exact ⟨g, u, by rw [h.1, h.2]⟩

theorem wf_gb {db : Db} (h : db.WF) (hk : db.kind = .genbank) : ∃ g u, db.tables = [("gb", g), ("user", u)] := by
  unfold Db.WF at h; rw [hk] at h
  match hT : db.tables, h with
  | [(n, g), (m, u)], h => simp [tableNames] at h; exact ⟨g, u, by rw [h.1, h.2]⟩


theorem records_nil_of_len {db : Db} (h : db.len = 0) : db.records = [] := by
  unfold Db.len at h; exact List.eq_nil_of_length_eq_zero h

theorem perm_of_count {l₁ l₂ : List Rec} (h : ∀ a, l₁.count a = l₂.count a) : l₁.Perm l₂ :=
  List.perm_iff_count.mpr h

theorem update_perm (self other : Db) (seqids : Option CondVal) (d : Db)
    (hs : self.WF) (ho : other.WF) (h : update self other seqids = .ok d) :
    d.WF ∧ d.kind = self.kind ∧ d.records.Perm (self.records ++ other.records.filter (seqidCond seqids)) := by
  unfold update at h
  split at h
  · cases h
  · rename_i hc
    split at h
    · rename_i hl
      cases h
      refine ⟨hs, rfl, ?_⟩
      rw [records_nil_of_len hl]; simp
    · cases h
      obtain ⟨ks, ts⟩ := self
      obtain ⟨ko, to⟩ := other
      cases ks <;> cases ko <;> simp [tableNames, compatible, subsetOf] at hc
      · obtain ⟨u1, rfl⟩ := wf_basic hs rfl
        obtain ⟨u2, rfl⟩ := wf_basic ho rfl
        refine ⟨by simp [Db.WF, updateFrom, addToTable, tableNames], rfl, ?_⟩
        simp [updateFrom, addToTable, Db.records]
      · obtain ⟨g1, u1, rfl⟩ := wf_gff hs rfl
        obtain ⟨u2, rfl⟩ := wf_basic ho rfl
        refine ⟨by simp [Db.WF, updateFrom, addToTable, tableNames], rfl, ?_⟩
        simp [updateFrom, addToTable, Db.records]
      · obtain ⟨g1, u1, rfl⟩ := wf_gff hs rfl
        obtain ⟨g2, u2, rfl⟩ := wf_gff ho rfl
        refine ⟨by simp [Db.WF, updateFrom, addToTable, tableNames], rfl, ?_⟩
        simp [updateFrom, addToTable, Db.records]
        apply perm_of_count; intro a; simp [List.count_append]; omega
      · obtain ⟨g1, u1, rfl⟩ := wf_gb hs rfl
        obtain ⟨u2, rfl⟩ := wf_basic ho rfl
        refine ⟨by simp [Db.WF, updateFrom, addToTable, tableNames], rfl, ?_⟩
        simp [updateFrom, addToTable, Db.records]
      · obtain ⟨g1, u1, rfl⟩ := wf_gb hs rfl
        obtain ⟨g2, u2, rfl⟩ := wf_gb ho rfl
        refine ⟨by simp [Db.WF, updateFrom, addToTable, tableNames], rfl, ?_⟩
        simp [updateFrom, addToTable, Db.records]
        apply perm_of_count; intro a; simp [List.count_append]; omega

theorem empty_wf (k : Kind) : (Db.empty k).WF := by
  cases k <;> simp [Db.WF, Db.empty, tableNames]

theorem empty_records (k : Kind) : (Db.empty k).records = [] := by
  cases k <;> simp [Db.records, Db.empty, tableNames]

theorem filter_seqidCond_none (l : List Rec) : l.filter (seqidCond none) = l := by
  simp [seqidCond]

theorem update_none_perm (self other d : Db) (hs : self.WF) (ho : other.WF)
    (h : update self other none = .ok d) :
    d.WF ∧ d.kind = self.kind ∧ d.records.Perm (self.records ++ other.records) := by
  have := update_perm self other none d hs ho h
  rwa [filter_seqidCond_none] at this

theorem union_via (k : Kind) (self other d : Db) (hs : self.WF) (ho : other.WF)
    (h : (do let d ← update (Db.empty k) self none; update d other none) = Except.ok d) :
    d.WF ∧ d.kind = k ∧ d.records.Perm (self.records ++ other.records) := by
  cases h1 : update (Db.empty k) self none with
  | error e => rw [h1] at h; cases h
  | ok d1 =>
    rw [h1] at h
    simp only [bind, Except.bind] at h
    obtain ⟨w1, k1, p1⟩ := update_none_perm _ _ _ (empty_wf k) hs h1
    obtain ⟨w2, k2, p2⟩ := update_none_perm _ _ _ w1 ho h
    refine ⟨w2, by rw [k2, k1]; rfl, ?_⟩
    rw [empty_records, List.nil_append] at p1
    exact p2.trans (List.Perm.append_right _ p1)

theorem union_perm_aux (self other d : Db) (hs : self.WF) (ho : other.WF) (h : union self other = .ok d) :
    d.WF ∧ d.records.Perm (self.records ++ other.records) := by
  unfold union at h
  split at h
  · rename_i hl
    cases h
    refine ⟨hs, ?_⟩
    rw [records_nil_of_len hl]; simp
  · simp only [] at h
    split at h
    · have := union_via _ _ _ _ hs ho h; exact ⟨this.1, this.2.2⟩
    · split at h
      · have := union_via _ _ _ _ hs ho h; exact ⟨this.1, this.2.2⟩
      · cases h

theorem subset_filter_aux (db : Db) (q : Query) (hdb : ∀ r ∈ db.records, r.start < r.stop)
    (sel : ∀ (t : List Rec) , (∀ r ∈ t, r.start < r.stop) → selectTable t q = linearScan t q) :
    ∃ d, subset db q = .ok d ∧ d.kind = db.kind ∧ d.records = linearScan db.records q := by
  unfold subset
  split
  · rename_i hl
    refine ⟨_, rfl, rfl, ?_⟩
    rw [empty_records, records_nil_of_len hl]; rfl
  · refine ⟨_, rfl, rfl, ?_⟩
    unfold Db.records at hdb ⊢
    simp only []
    generalize db.tables = ts at hdb
    unfold linearScan
    induction ts with
    | nil => rfl
    | cons t ts ih =>
      simp only [List.map_cons, List.flatMap_cons, List.filter_append]
      rw [ih (fun r hr => hdb r (by simp only [List.flatMap_cons, List.mem_append]; exact Or.inr hr))]
      rw [sel t.2 (fun r hr => hdb r (by simp only [List.flatMap_cons, List.mem_append]; exact Or.inl hr))]
      rfl

theorem gbCoords_positions (l : Loc) (hl : ∀ seg ∈ l.flat, seg.1 ≤ seg.2.1) (p0 : Int) :
    covers (gbCoords l) p0 ↔ ∃ seg ∈ l.flat, covers1 seg.1 seg.2.1 (p0 + 1) := by
  unfold gbCoords
  rw [covers_sortSpans]
  unfold covers covers1
  constructor
  · rintro ⟨sp, hm, hp⟩
    obtain ⟨seg, hseg, rfl⟩ := List.mem_map.mp hm
    refine ⟨seg, hseg, ?_⟩
    have := hl seg hseg
    obtain ⟨a, b, s⟩ := seg
    simp only [] at hp this ⊢
    omega
  · rintro ⟨seg, hseg, hp⟩
    refine ⟨_, List.mem_map.mpr ⟨seg, hseg, rfl⟩, ?_⟩
    have := hl seg hseg
    obtain ⟨a, b, s⟩ := seg
    simp only [] at hp this ⊢
    omega

theorem foldl_const {α β} (l : List β) (a : α) : l.foldl (fun t _ => t) a = a := by
  induction l with
  | nil => rfl
  | cons x xs ih => simpa using ih

instance (q : Query) : Decidable (WindowOk q) := by
  unfold WindowOk; split <;> infer_instance

instance (db : Db) : Decidable db.WF := by unfold Db.WF; infer_instance

theorem flat_complement (x : Loc) :
    (Loc.complement x).flat = x.flat.reverse.map fun (a, b, s) => (a, b, -s) := by
  simp [Loc.flat]

theorem flat_complement_complement (x : Loc) : (Loc.complement (Loc.complement x)).flat = x.flat := by
  rw [flat_complement, flat_complement]
  generalize x.flat = l
  simp only [← List.map_reverse, List.reverse_reverse, List.map_map]
  induction l with
  | nil => rfl
  | cons h t ih => simp [ih]

theorem flat_join_cons (x : Loc) (xs : List Loc) : (Loc.join (x :: xs)).flat = x.flat ++ (Loc.join xs).flat := by
  simp [Loc.flat, Loc.flat.flatList]

end CogentModel.AnnotDb
