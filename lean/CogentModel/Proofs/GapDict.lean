/-
  C18 / gap merging, part A: association-list dictionaries (`dget`, `dset`, `sortGaps`) and sums over entries.
-/
import CogentModel.Model.GapMerge
namespace CogentModel.GapMerge

/-- the gap length a dict assigns to a position (0 when absent) -/
def gl (g : Gaps) (x : Int) : Int := (dget g x).getD 0

def keys (g : Gaps) : List Int := g.map (·.1)

@[simp] theorem keys_nil : keys [] = [] := rfl
@[simp] theorem keys_cons (k v : Int) (g : Gaps) : keys ((k, v) :: g) = k :: keys g := rfl
theorem keys_append (a b : Gaps) : keys (a ++ b) = keys a ++ keys b := by simp [keys]

theorem dget_none_iff (g : Gaps) (x : Int) : dget g x = none ↔ x ∉ keys g := by
  induction g with
  | nil => simp [dget]
  | cons e r ih =>
    obtain ⟨k, v⟩ := e
    simp only [dget, keys_cons, List.mem_cons, not_or]
    by_cases h : k = x
    · simp [h]
    · simp only [if_neg h, ih]
      constructor
      · intro h2; exact ⟨fun e => h e.symm, h2⟩
      · intro h2; exact h2.2

theorem dget_some_mem (g : Gaps) (x v : Int) (h : dget g x = some v) : (x, v) ∈ g := by
  induction g with
  | nil => simp [dget] at h
  | cons e r ih =>
    obtain ⟨k, w⟩ := e
    simp only [dget] at h
    by_cases hk : k = x
    · simp only [if_pos hk, Option.some.injEq] at h
      subst hk; subst h; exact List.mem_cons_self
    · rw [if_neg hk] at h; exact List.mem_cons_of_mem _ (ih h)

theorem dget_mem_nodup (g : Gaps) (hnd : (keys g).Nodup) (k v : Int) (hm : (k, v) ∈ g) : dget g k = some v := by
  induction g with
  | nil => simp at hm
  | cons e r ih =>
    obtain ⟨k', v'⟩ := e
    simp only [keys_cons, List.nodup_cons] at hnd
    simp only [dget]
    rcases List.mem_cons.mp hm with e | hm'
    · cases e; simp
    · have hk : k' ≠ k := by
        intro e; subst e
        exact hnd.1 (List.mem_map.mpr ⟨(k', v), hm', rfl⟩)
      rw [if_neg hk]; exact ih hnd.2 hm'

theorem dget_dset (g : Gaps) (k v x : Int) : dget (dset g k v) x = if x = k then some v else dget g x := by
  induction g with
  | nil =>
    simp only [dset, dget]
    by_cases h : k = x
    · subst h; simp
    · have : ¬ x = k := fun e => h e.symm
      simp [h, this]
  | cons e r ih =>
    obtain ⟨k', v'⟩ := e
    simp only [dset]
    by_cases hk : k' = k
    · subst hk
      simp only [if_true, dget]
      by_cases hx : k' = x
      · subst hx; simp
      · have : ¬ x = k' := fun e => hx e.symm
        simp [hx, this]
    · simp only [if_neg hk, dget, ih]
      by_cases hx : k' = x
      · subst hx; simp [hk]
      · simp [hx]

theorem gl_dset (g : Gaps) (k v x : Int) : gl (dset g k v) x = if x = k then v else gl g x := by
  simp only [gl, dget_dset]; split <;> rfl

theorem dset_fresh (g : Gaps) (k v : Int) (h : k ∉ keys g) : dset g k v = g ++ [(k, v)] := by
  induction g with
  | nil => rfl
  | cons e r ih =>
    obtain ⟨k', v'⟩ := e
    simp only [keys_cons, List.mem_cons, not_or] at h
    simp only [dset, if_neg (fun e : k' = k => h.1 e.symm), ih h.2, List.cons_append]

/-! ### sorting -/

theorem dget_insertKey (k v : Int) (g : Gaps) (x : Int) :
    dget (insertKey k v g) x = if x = k then some v else dget g x := by
  induction g with
  | nil =>
    simp only [insertKey, dget]
    by_cases h : k = x
    · subst h; simp
    · have : ¬ x = k := fun e => h e.symm
      simp [h, this]
  | cons e r ih =>
    obtain ⟨k', v'⟩ := e
    simp only [insertKey]
    by_cases hle : k ≤ k'
    · simp only [if_pos hle, dget]
      by_cases h : k = x
      · subst h; simp
      · have : ¬ x = k := fun e => h e.symm
        simp [h, this]
    · simp only [if_neg hle, dget, ih]
      by_cases hx : k' = x
      · have : ¬ x = k := by omega
        simp [hx, this]
      · simp [hx]

theorem dget_sortGaps (g : Gaps) (x : Int) : dget (sortGaps g) x = dget g x := by
  induction g with
  | nil => rfl
  | cons e r ih =>
    obtain ⟨k, v⟩ := e
    simp only [sortGaps, dget_insertKey, ih, dget]
    by_cases h : k = x
    · subst h; simp
    · have : ¬ x = k := fun e => h e.symm
      simp [h, this]

theorem gl_sortGaps (g : Gaps) (x : Int) : gl (sortGaps g) x = gl g x := by simp [gl, dget_sortGaps]

theorem mem_insertKey (k v : Int) (g : Gaps) (e : Int × Int) : e ∈ insertKey k v g ↔ e = (k, v) ∨ e ∈ g := by
  induction g with
  | nil => simp [insertKey]
  | cons e' r ih =>
    obtain ⟨k', v'⟩ := e'
    simp only [insertKey]
    split
    · simp
    · simp only [List.mem_cons, ih]
      constructor
      · rintro (h | h | h)
        · exact Or.inr (Or.inl h)
        · exact Or.inl h
        · exact Or.inr (Or.inr h)
      · rintro (h | h | h)
        · exact Or.inr (Or.inl h)
        · exact Or.inl h
        · exact Or.inr (Or.inr h)

theorem mem_sortGaps (g : Gaps) (e : Int × Int) : e ∈ sortGaps g ↔ e ∈ g := by
  induction g with
  | nil => simp [sortGaps]
  | cons e' r ih =>
    obtain ⟨k, v⟩ := e'
    simp only [sortGaps, mem_insertKey, ih, List.mem_cons]

theorem mem_keys_sortGaps (g : Gaps) (k : Int) : k ∈ keys (sortGaps g) ↔ k ∈ keys g := by
  simp only [keys, List.mem_map]
  constructor
  · rintro ⟨e, he, rfl⟩; exact ⟨e, (mem_sortGaps g e).mp he, rfl⟩
  · rintro ⟨e, he, rfl⟩; exact ⟨e, (mem_sortGaps g e).mpr he, rfl⟩

/-- strictly increasing keys -/
def SortedLT (g : Gaps) : Prop := g.Pairwise fun a b => a.1 < b.1

theorem sortedLT_insertKey (k v : Int) (g : Gaps) (hs : SortedLT g) (hk : k ∉ keys g) : SortedLT (insertKey k v g) := by
  induction g with
  | nil => simp [insertKey, SortedLT]
  | cons e r ih =>
    obtain ⟨k', v'⟩ := e
    simp only [keys_cons, List.mem_cons, not_or] at hk
    simp only [SortedLT, List.pairwise_cons] at hs
    simp only [insertKey]
    split
    · rename_i hle
      have hlt : k < k' := by omega
      simp only [SortedLT, List.pairwise_cons]
      refine ⟨?_, hs.1, hs.2⟩
      intro b hb
      rcases List.mem_cons.mp hb with e | hb'
      · subst e; exact hlt
      · have h1 : k' < b.1 := hs.1 b hb'
        show k < b.1
        omega
    · rename_i hle
      simp only [SortedLT, List.pairwise_cons]
      refine ⟨?_, ih hs.2 hk.2⟩
      intro b hb
      rcases (mem_insertKey k v r b).mp hb with e | hb'
      · subst e; show k' < k; omega
      · exact hs.1 b hb'

theorem sortGaps_sorted (g : Gaps) (hnd : (keys g).Nodup) : SortedLT (sortGaps g) := by
  induction g with
  | nil => simp [sortGaps, SortedLT]
  | cons e r ih =>
    obtain ⟨k, v⟩ := e
    simp only [keys_cons, List.nodup_cons] at hnd
    simp only [sortGaps]
    exact sortedLT_insertKey k v _ (ih hnd.2) (fun h => hnd.1 ((mem_keys_sortGaps r k).mp h))

theorem sortedLT_nodup (g : Gaps) (hs : SortedLT g) : (keys g).Nodup := by
  induction g with
  | nil => simp
  | cons e r ih =>
    obtain ⟨k, v⟩ := e
    simp only [SortedLT, List.pairwise_cons] at hs
    simp only [keys_cons, List.nodup_cons]
    refine ⟨?_, ih hs.2⟩
    intro hm
    obtain ⟨e', he', hk⟩ := List.mem_map.mp hm
    have h1 : k < e'.1 := hs.1 e' he'
    rw [hk] at h1; omega

theorem insertKey_lt_all (k v : Int) (g : Gaps) (h : ∀ e ∈ g, k < e.1) : insertKey k v g = (k, v) :: g := by
  cases g with
  | nil => rfl
  | cons e r =>
    obtain ⟨k', v'⟩ := e
    have := h (k', v') List.mem_cons_self
    simp only at this
    simp only [insertKey, if_pos (by omega : k ≤ k')]

theorem sortGaps_of_sorted (g : Gaps) (hs : SortedLT g) : sortGaps g = g := by
  induction g with
  | nil => rfl
  | cons e r ih =>
    obtain ⟨k, v⟩ := e
    simp only [SortedLT, List.pairwise_cons] at hs
    simp only [sortGaps, ih hs.2]
    exact insertKey_lt_all k v r hs.1

/-! ### sums over entries -/

/-- `Σ l` over the entries `(k, l)` with `P k` -/
def sumIf (P : Int → Bool) : Gaps → Int
  | [] => 0
  | (k, l) :: r => (if P k then l else 0) + sumIf P r

def sumLt (g : Gaps) (x : Int) : Int := sumIf (fun k => decide (k < x)) g

theorem sumIf_insertKey (P : Int → Bool) (k v : Int) (g : Gaps) :
    sumIf P (insertKey k v g) = (if P k then v else 0) + sumIf P g := by
  induction g with
  | nil => simp [insertKey, sumIf]
  | cons e r ih =>
    obtain ⟨k', v'⟩ := e
    simp only [insertKey]
    split
    · simp [sumIf]
    · simp only [sumIf, ih]; omega

theorem sumIf_sortGaps (P : Int → Bool) (g : Gaps) : sumIf P (sortGaps g) = sumIf P g := by
  induction g with
  | nil => rfl
  | cons e r ih => obtain ⟨k, v⟩ := e; simp only [sortGaps, sumIf_insertKey, ih, sumIf]

theorem sumIf_append (P : Int → Bool) (a b : Gaps) : sumIf P (a ++ b) = sumIf P a + sumIf P b := by
  induction a with
  | nil => simp [sumIf]
  | cons e r ih => obtain ⟨k, v⟩ := e; simp only [List.cons_append, sumIf, ih]; omega

theorem sumLt_succ (g : Gaps) (hnd : (keys g).Nodup) (x : Int) : sumLt g (x + 1) = sumLt g x + gl g x := by
  induction g with
  | nil => simp [sumLt, sumIf, gl, dget]
  | cons e r ih =>
    obtain ⟨k, v⟩ := e
    simp only [keys_cons, List.nodup_cons] at hnd
    have ih' := ih hnd.2
    simp only [sumLt, sumIf, gl, dget] at ih' ⊢
    by_cases hk : k = x
    · subst hk
      have hn : dget r k = none := (dget_none_iff r k).mpr hnd.1
      simp only [hn, Option.getD_none] at ih'
      have hlt : k < k + 1 := by omega
      rw [ih']
      simp [hlt]
      omega
    · simp only [if_neg hk]
      by_cases h1 : k < x
      · have h2 : k < x + 1 := by omega
        simp only [h1, h2, decide_true, if_true]; omega
      · have h2 : ¬ k < x + 1 := by omega
        simp only [h1, h2, decide_false]; simp only [Bool.false_eq_true, if_false]; omega

theorem sumIf_nonneg (P : Int → Bool) (g : Gaps) (h : ∀ e ∈ g, 0 ≤ e.2) : 0 ≤ sumIf P g := by
  induction g with
  | nil => simp [sumIf]
  | cons e r ih =>
    obtain ⟨k, v⟩ := e
    have h1 := h (k, v) List.mem_cons_self
    have h2 := ih (fun e he => h e (List.mem_cons_of_mem _ he))
    simp only [sumIf]
    split <;> simp only at h1 <;> omega

theorem gl_nonneg (g : Gaps) (h : ∀ e ∈ g, 0 ≤ e.2) (x : Int) : 0 ≤ gl g x := by
  unfold gl
  cases hd : dget g x with
  | none => simp
  | some v => have := h _ (dget_some_mem g x v hd); simpa using this

end CogentModel.GapMerge
