import CogentModel.Proofs.ViewInt
/-! The reported parent segment is exactly what is displayed. -/
namespace CogentModel.View
open CogentModel

theorem parent_coords_exact' (v : View) (h : Inv v) :
    ∃ ps pe : Int, parentStart v = .ok (v.offset + ps) ∧ parentStop v = .ok (v.offset + pe) ∧
      0 ≤ ps ∧ ps ≤ pe ∧ pe ≤ v.seqLen ∧
      elems v = (PySlice.sliceIdx (pe - ps).toNat none none v.step).map (· + ps) := by
  obtain ⟨hN, hI | hI⟩ := h
  · obtain ⟨hk, i0, i1, i2⟩ := hI
    have hk' : ¬ v.step < 0 := by omega
    refine ⟨v.start, v.stop, by simp [parentStart, hk'], by simp [parentStop, hk'], i0, i1, i2, ?_⟩
    rw [sliceIdx_pos _ (by omega) _ _ _ hk]
    simp only [Option.getD_none]
    have e1 : clampP 0 (v.stop - v.start) = 0 := by unfold clampP; omega
    have e2 : clampP (v.stop - v.start) (v.stop - v.start) = v.stop - v.start := by unfold clampP; omega
    rw [e1, e2]
    have hL : PySlice.rangeLen 0 (v.stop - v.start) v.step = (len v).toNat := by
      rcases Int.lt_or_le v.start v.stop with hlt | hge
      · obtain ⟨L, hL0, hL, a, b⟩ := rangeLen_pos 0 (v.stop - v.start) v.step hk (by omega)
        rw [hL, len_eq_of_bounds_fwd v L hk i1 (by omega) (by omega)]
      · rw [rangeLen_pos_empty _ _ _ hk (by omega), len_eq_zero_of_eq v (by omega)]; rfl
    rw [rangeList_eq_of 0 (v.stop - v.start) v.step _ 0 v.step hL (fun _ => ⟨rfl, rfl⟩)]
    unfold elems
    rw [List.map_map]
    apply List.map_congr_left
    intro i _
    simp only [Function.comp, first, gt_iff_lt, hk, if_true]
    ring
  · obtain ⟨hk, i0, i1, i2⟩ := hI
    have h1 : v.stop < 0 := by omega
    have h2 : v.start < 0 := by omega
    have hk' : ¬ v.step > 0 := by omega
    refine ⟨v.stop + v.seqLen + 1, v.start + v.seqLen + 1, by simp [parentStart, hk, h1],
      by simp [parentStop, hk, h2], by omega, by omega, by omega, ?_⟩
    have eM : v.start + v.seqLen + 1 - (v.stop + v.seqLen + 1) = v.start - v.stop := by ring
    rw [eM, sliceIdx_neg _ (by omega) _ _ _ hk]
    simp only [Option.getD_none]
    have e1 : clampN (-1) (v.start - v.stop) = v.start - v.stop - 1 := by unfold clampN; omega
    have e2 : clampN (-(v.start - v.stop) - 1) (v.start - v.stop) = -1 := by unfold clampN; omega
    rw [e1, e2]
    have hL : PySlice.rangeLen (v.start - v.stop - 1) (-1) v.step = (len v).toNat := by
      rcases Int.lt_or_le v.stop v.start with hlt | hge
      · obtain ⟨L, hL0, hL, a, b⟩ := rangeLen_neg (v.start - v.stop - 1) (-1) v.step hk (by omega)
        rw [hL, len_eq_of_bounds_rev v L hk i1 (by omega) (by omega)]
      · rw [rangeLen_neg_empty _ _ _ hk (by omega), len_eq_zero_of_eq v (by omega)]; rfl
    rw [rangeList_eq_of _ _ v.step _ (v.start - v.stop - 1) v.step hL (fun _ => ⟨rfl, rfl⟩)]
    unfold elems
    rw [List.map_map]
    apply List.map_congr_left
    intro i _
    simp only [Function.comp, first, hk', if_false]
    ring

end CogentModel.View
