import CogentModel.Proofs.IndelMapResultAux
namespace CogentModel.IndelMap
open CogentModel.Gapped List

theorem len_eq_lastOr (m : IMap) (h : WF m) : len m = m.parentLength + lastOr 0 m.cumLens := by
  have hl := h.len_eq
  unfold len
  cases hg : m.gapPos with
  | nil =>
    rw [hg] at hl
    have : m.cumLens = [] := by cases hc : m.cumLens with | nil => rfl | cons x xs => rw [hc] at hl; simp at hl
    simp [this, lastOr]
  | cons p ps =>
    rw [hg] at hl
    cases hc : m.cumLens with
    | nil => rw [hc] at hl; simp at hl
    | cons x xs => simp [lastD_cons, lastOr]

theorem seqIndexNN_eq_T (m : IMap) (h : WF m) (ai : Int) :
    seqIndexNN m ai = seqIdxT 0 0 (trips 0 m.gapPos m.cumLens) ai := by
  rw [seqIndexNN_eq_rec m h]
  have := seqIdxT_trips m.gapPos m.cumLens 0 0 ai
  simpa using this.symm

theorem pattern_abs_T (m : IMap) : pattern (abs m) = patT 0 0 (trips 0 m.gapPos m.cumLens) m.parentLength := by
  have := pattern_absFrom m.gapPos m.cumLens 0 0 m.parentLength
  simpa [abs] using this

/-- the map `__getitem__` returns (gap positions shifted by the sequence index of `start`,
cumulative sum of the surviving gap lengths, parent length = difference of sequence indices)
is well formed and denotes the slice of the string -/
theorem result_spec (m : IMap) (h : WF m) (start stop : Int) (h0 : 0 ≤ start) (hlt : start < stop)
    (hle : stop ≤ len m) (r : IMap)
    (hgp : r.gapPos = (takeT stop (dropT start (trips 0 m.gapPos m.cumLens))).map (·.1 - seqIndexNN m start))
    (hcum : r.cumLens = cumsum ((takeT stop (dropT start (trips 0 m.gapPos m.cumLens))).map tlen))
    (hpl : r.parentLength = seqIndexNN m stop - seqIndexNN m start)
    (hcheck : r.gapPos ≠ [] → lastD r.gapPos ≤ r.parentLength) :
    WF r ∧ pattern (abs r) = ((pattern (abs m)).drop start.toNat).take (stop - start).toNat := by
  have hTs : TSorted 0 (trips 0 m.gapPos m.cumLens) := by
    have := trips_sorted m.gapPos m.cumLens (-1) 0 h.inc; simpa using this
  have hTr : TRel 0 0 (trips 0 m.gapPos m.cumLens) := by
    have := trips_rel m.gapPos m.cumLens 0 0; simpa using this
  rw [seqIndexNN_eq_T m h start] at hgp
  rw [seqIndexNN_eq_T m h stop, seqIndexNN_eq_T m h start] at hpl
  generalize hT : trips 0 m.gapPos m.cumLens = T at *
  generalize hsh : seqIdxT 0 0 T start = sh at *
  have hDs : TSorted start (dropT start T) := dropT_sorted T 0 start hTs h0
  have hDr : TRel start sh (dropT start T) := by rw [← hsh]; exact dropT_rel T 0 0 start hTs hTr h0
  have hT's : TSorted start (takeT stop (dropT start T)) := takeT_sorted _ _ _ hDs
  have hT'r : TRel start sh (takeT stop (dropT start T)) := takeT_rel _ _ _ _ hDr
  have hcomp : seqIdxT start sh (dropT start T) stop = seqIdxT 0 0 T stop := by
    rw [← hsh]; exact seqIdxT_comp T 0 0 start stop hTs h0 (by omega)
  have hge : sh ≤ seqIdxT 0 0 T stop := by
    rw [← hcomp]; exact seqIdxT_ge_next _ _ _ _ hDs hDr (by omega)
  generalize hT' : takeT stop (dropT start T) = T' at *
  obtain ⟨pw, pge⟩ := trel_pos_le T' start sh hT's hT'r
  have hlenpos := tsorted_tlen_pos T' start hT's
  -- well-formedness
  have hwf : WF r := by
    refine ⟨by rw [hpl]; omega, ?_, ?_, ?_, ?_⟩
    · rw [hgp, hcum, cumsum, cumsumFrom_length]; simp
    · rw [hgp]
      have : (T'.map (·.1 - sh)) = (T'.map (·.1)).map (· - sh) := by simp [Function.comp_def]
      rw [this]
      exact pw.map _ (fun a b hab => by omega)
    · rw [hcum]
      exact (cumsumFrom_pairwise _ 0 (by
        intro x hx; obtain ⟨t, ht, rfl⟩ := mem_map.mp hx; exact hlenpos t ht)).1
    · intro q hq
      have hne : r.gapPos ≠ [] := by intro hn; rw [hn] at hq; simp at hq
      have hlast := hcheck hne
      have hsorted : r.gapPos.Pairwise (· < ·) := by
        rw [hgp]
        have : (T'.map (·.1 - sh)) = (T'.map (·.1)).map (· - sh) := by simp [Function.comp_def]
        rw [this]
        exact pw.map _ (fun a b hab => by omega)
      have h1 := pairwise_le_lastD _ hsorted q hq
      rw [hgp] at hq
      obtain ⟨t, ht, rfl⟩ := mem_map.mp hq
      have := pge t ht
      exact ⟨by omega, by omega⟩
  refine ⟨hwf, ?_⟩
  -- denotation
  rw [pattern_abs_T r, hgp, hcum, hpl, cumsum]
  rw [trips_of_result T' start sh 0 start sh hT'r (by omega)]
  have e1 := patT_shift T' start sh (seqIdxT 0 0 T stop) start sh
  have e2 : start - start = 0 := by omega
  have e3 : sh - sh = 0 := by omega
  rw [e2, e3] at e1
  rw [e1, ← hT', ← hcomp]
  have hend : stop ≤ endColT start sh (dropT start T) m.parentLength := by
    rw [← hsh, endColT_dropT T 0 0 m.parentLength start hTs h0, ← hT]
    have := endColT_trips m.gapPos m.cumLens 0 0 m.parentLength h.len_eq
    simp only [Int.add_zero] at this
    rw [this, ← len_eq_lastOr m h]; exact hle
  rw [← take_patT (dropT start T) start sh m.parentLength stop hDs hDr (by omega) hend]
  rw [← hsh, ← drop_patT T 0 0 m.parentLength start hTs h0, pattern_abs_T m, hT]
  simp

end CogentModel.IndelMap
