import CogentModel.Proofs.MotifProbLemmas
import Mathlib.Tactic.Linarith
/-! C05: over every gap-free alphabet of equal-length words, `instMask` = "differ at exactly one position". -/

namespace CogentModel.RateMatrix
set_option linter.unusedSimpArgs false

theorem nDiffs_comm : ∀ (x y : List Nat), nDiffs x y = nDiffs y x
  | [], [] => rfl
  | [], _ :: _ => rfl
  | _ :: _, [] => rfl
  | a :: as, b :: bs => by
    unfold nDiffs
    rw [nDiffs_comm as bs]
    by_cases h : a = b
    · subst h; rfl
    · have h' : b ≠ a := fun e => h e.symm
      simp [h, h']

/-- without gap characters the indel scan can only succeed on words without any difference -/
theorem anyIndelLoop_gapfree (g : Nat) : ∀ (x y : List Nat) (s e : Bool) (st : Nat),
    g ∉ x → g ∉ y → anyIndelLoop g x y s e st = true → nDiffs x y = 0
  | [], [], _, _, _, _, _, _ => rfl
  | [], _ :: _, _, _, _, _, _, _ => rfl
  | _ :: _, [], _, _, _, _, _, _ => rfl
  | a :: as, b :: bs, s, e, st, hx, hy, h => by
    have ha : a ≠ g := fun h' => hx (h' ▸ List.mem_cons_self)
    have hb : b ≠ g := fun h' => hy (h' ▸ List.mem_cons_self)
    have hx' : g ∉ as := fun h' => hx (List.mem_cons_of_mem _ h')
    have hy' : g ∉ bs := fun h' => hy (List.mem_cons_of_mem _ h')
    unfold anyIndelLoop at h
    by_cases hab : a = b
    · subst hab
      simp only [ne_eq, not_true_eq_false, if_false] at h
      unfold nDiffs
      simp only [ne_eq, not_true_eq_false, if_false, Nat.zero_add]
      split at h
      · exact anyIndelLoop_gapfree g as bs _ _ _ hx' hy' h
      · exact anyIndelLoop_gapfree g as bs _ _ _ hx' hy' h
    · simp [hab, ha, hb] at h

theorem isInstWord_gapfree (g : Nat) (x y : List Nat) (hx : g ∉ x) (hy : g ∉ y) :
    isInstWord g x y = true ↔ nDiffs x y = 1 := by
  unfold isInstWord
  simp only [Bool.decide_or, Bool.decide_and, Bool.or_eq_true, Bool.and_eq_true, decide_eq_true_eq]
  constructor
  · rintro (h | ⟨h1, h2⟩)
    · exact h
    · unfold isAnyIndel at h2
      split at h2
      · exact absurd h2 (by simp)
      · have := anyIndelLoop_gapfree g x y _ _ _ hx hy h2
        omega
  · intro h; exact Or.inl h

theorem isInstCodon_gapfree (g : Nat) (x y : List Nat) (hx : g ∉ x) (hy : g ∉ y) (hlen : x.length = y.length) :
    isInstCodon g x y = true ↔ nDiffs x y = 1 := by
  unfold isInstCodon
  simp only []
  have hxg : ∀ z : List Nat, g ∉ z → z = (x.map fun _ => g) → z = [] := by
    intro z hz he
    cases z with
    | nil => rfl
    | cons a as =>
      exfalso
      cases x with
      | nil => simp at he
      | cons b bs =>
        simp only [List.map_cons, List.cons.injEq] at he
        exact hz (he.1 ▸ List.mem_cons_self)
  by_cases h : x = (x.map fun _ => g) ∨ y = (x.map fun _ => g)
  · rw [if_pos h]
    have hx0 : x = [] := by
      rcases h with h | h
      · exact hxg x hx h
      · have := hxg y hy h
        subst this
        exact List.length_eq_zero_iff.mp hlen
    subst hx0
    have hy0 : y = [] := List.length_eq_zero_iff.mp hlen.symm
    subst hy0
    simp [nDiffs]
  · rw [if_neg h]; simp

theorem nDiffs_zero_sameContext (d : Nat) : ∀ (x y : List Nat) (k : Nat), x.length = y.length → nDiffs x y = 0 →
    sameContext d k x y = true
  | [], [], _, _, _ => rfl
  | [], _ :: _, _, h, _ => by simp at h
  | _ :: _, [], _, h, _ => by simp at h
  | a :: as, b :: bs, k, hl, h => by
    unfold nDiffs at h
    have hab : a = b := by by_contra hne; simp [hne] at h
    subst hab
    simp only [ne_eq, not_true_eq_false, if_false, Nat.zero_add] at h
    unfold sameContext
    simp only [or_true, decide_true, Bool.true_and]
    simpa using nDiffs_zero_sameContext d as bs (k + 1) (by simpa using hl) h

theorem nDiffs_zero_getD : ∀ (x y : List Nat), x.length = y.length → nDiffs x y = 0 → ∀ k, x.getD k 0 = y.getD k 0
  | [], [], _, _, _ => rfl
  | [], _ :: _, h, _, _ => by simp at h
  | _ :: _, [], h, _, _ => by simp at h
  | a :: as, b :: bs, hl, h, k => by
    unfold nDiffs at h
    have hab : a = b := by by_contra hne; simp [hne] at h
    subst hab
    simp only [ne_eq, not_true_eq_false, if_false, Nat.zero_add] at h
    cases k with
    | zero => rfl
    | succ k => simpa using nDiffs_zero_getD as bs (by simpa using hl) h k

/-- exactly one difference: the context test succeeds at the position of the difference -/
theorem nDiffs_one_sameContext : ∀ (x y : List Nat) (k : Nat), x.length = y.length → nDiffs x y = 1 →
    sameContext (firstDiff x y + k) k x y = true
  | [], [], _, _, h => by simp [nDiffs] at h
  | [], _ :: _, _, h, _ => by simp at h
  | _ :: _, [], _, h, _ => by simp at h
  | a :: as, b :: bs, k, hl, h => by
    have hl' : as.length = bs.length := by simpa using hl
    unfold nDiffs at h
    unfold firstDiff sameContext
    by_cases hab : a = b
    · subst hab
      simp only [ne_eq, not_true_eq_false, if_false, Nat.zero_add] at h ⊢
      simp only [or_true, decide_true, Bool.true_and]
      have := nDiffs_one_sameContext as bs (k + 1) hl' h
      rw [show firstDiff as bs + (k + 1) = firstDiff as bs + 1 + k by omega] at this
      simpa using this
    · simp only [ne_eq, hab, not_false_eq_true, if_true] at h ⊢
      have h0 : nDiffs as bs = 0 := by omega
      simp only [Nat.zero_add, true_or, decide_true, Bool.true_and]
      simpa using nDiffs_zero_sameContext k as bs (k + 1) hl' h0

theorem nDiffs_one_firstDiff_lt : ∀ (x y : List Nat), x.length = y.length → nDiffs x y = 1 → firstDiff x y < x.length
  | [], [], _, h => by simp [nDiffs] at h
  | [], _ :: _, h, _ => by simp at h
  | _ :: _, [], h, _ => by simp at h
  | a :: as, b :: bs, hl, h => by
    unfold nDiffs at h
    unfold firstDiff
    by_cases hab : a = b
    · subst hab
      simp only [ne_eq, not_true_eq_false, if_false, Nat.zero_add] at h ⊢
      have := nDiffs_one_firstDiff_lt as bs (by simpa using hl) h
      simp; omega
    · simp [hab]

theorem nDiffs_one_getD : ∀ (x y : List Nat), x.length = y.length → nDiffs x y = 1 →
    ∀ k, k ≠ firstDiff x y → x.getD k 0 = y.getD k 0
  | [], [], _, h, _, _ => by simp [nDiffs] at h
  | [], _ :: _, h, _, _, _ => by simp at h
  | _ :: _, [], h, _, _, _ => by simp at h
  | a :: as, b :: bs, hl, h, k, hk => by
    have hl' : as.length = bs.length := by simpa using hl
    unfold nDiffs at h
    unfold firstDiff at hk
    by_cases hab : a = b
    · subst hab
      simp only [ne_eq, not_true_eq_false, if_false, Nat.zero_add] at h hk
      cases k with
      | zero => rfl
      | succ k => simpa using nDiffs_one_getD as bs hl' h k (by omega)
    · simp only [ne_eq, hab, not_false_eq_true, if_true] at h hk
      have h0 : nDiffs as bs = 0 := by omega
      cases k with
      | zero => exact absurd rfl hk
      | succ k => simpa using nDiffs_zero_getD as bs hl' h0 k

theorem wordAt_getD (words : Array (Array Nat)) (i k : Nat) :
    (words.getD i #[]).getD k 0 = (wordAt words i).getD k 0 := by
  unfold wordAt
  simp [Array.getD_eq_getD_getElem?, List.getD_eq_getElem?_getD]

/-- over a gap-free alphabet of equal-length words the instantaneous mask is exactly "differ at one position" -/
theorem instMask_iff (codon : Bool) (g : Nat) (words : Array (Array Nat)) (L : Nat)
    (hlen : ∀ i, i < words.size → (wordAt words i).length = L) (hgap : ∀ i, i < words.size → g ∉ wordAt words i)
    (i j : Nat) (hi : i < words.size) (hj : j < words.size) :
    bget (instMask codon g words) i j = true ↔ nDiffs (wordAt words i) (wordAt words j) = 1 := by
  unfold instMask
  rw [bget_tab _ hi hj]
  cases codon with
  | true =>
    simp only [if_true]
    exact isInstCodon_gapfree g _ _ (hgap i hi) (hgap j hj) (by rw [hlen i hi, hlen j hj])
  | false =>
    simp only [Bool.false_eq_true, if_false]
    exact isInstWord_gapfree g _ _ (hgap i hi) (hgap j hj)

theorem instMask_symm (codon : Bool) (g : Nat) (words : Array (Array Nat)) (L : Nat)
    (hlen : ∀ i, i < words.size → (wordAt words i).length = L) (hgap : ∀ i, i < words.size → g ∉ wordAt words i)
    (i j : Nat) (hi : i < words.size) (hj : j < words.size) :
    bget (instMask codon g words) i j = bget (instMask codon g words) j i := by
  have h1 := instMask_iff codon g words L hlen hgap i j hi hj
  have h2 := instMask_iff codon g words L hlen hgap j i hj hi
  rw [nDiffs_comm] at h2
  cases hb : bget (instMask codon g words) i j with
  | true => exact (h2.mpr (h1.mp hb)).symm
  | false =>
    cases hb' : bget (instMask codon g words) j i with
    | false => rfl
    | true => rw [h1.mpr (h2.mp hb')] at hb; exact absurd hb (by simp)

/-- … hence instantaneous pairs differ at exactly one position, in both forms used by the detailed-balance theorems -/
theorem instMask_one_position (codon : Bool) (g : Nat) (words : Array (Array Nat)) (L : Nat)
    (hlen : ∀ i, i < words.size → (wordAt words i).length = L) (hgap : ∀ i, i < words.size → g ∉ wordAt words i)
    (i j : Nat) (hi : i < words.size) (hj : j < words.size) (hb : bget (instMask codon g words) i j = true) :
    sameContext (firstDiff (wordAt words i) (wordAt words j)) 0 (wordAt words i) (wordAt words j) = true ∧
    firstDiff (wordAt words i) (wordAt words j) < L ∧
    ∀ k, k < L → k ≠ firstDiff (wordAt words i) (wordAt words j) →
      (words.getD i #[]).getD k 0 = (words.getD j #[]).getD k 0 := by
  have h1 := (instMask_iff codon g words L hlen hgap i j hi hj).mp hb
  have hl : (wordAt words i).length = (wordAt words j).length := by rw [hlen i hi, hlen j hj]
  refine ⟨?_, ?_, ?_⟩
  · simpa using nDiffs_one_sameContext _ _ 0 hl h1
  · rw [← hlen i hi]; exact nDiffs_one_firstDiff_lt _ _ hl h1
  · intro k _ hk
    rw [wordAt_getD, wordAt_getD]
    exact nDiffs_one_getD _ _ hl h1 k hk

end CogentModel.RateMatrix
