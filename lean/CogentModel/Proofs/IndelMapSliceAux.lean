import CogentModel.Proofs.IndelMapAssemble3
import CogentModel.Proofs.SliceList
namespace CogentModel.IndelMap
open CogentModel.Gapped List CogentModel

/-- `xs[a:b]` (step 1) is a `drop` followed by a `take`, at the bounds `slice.indices` gives -/
theorem slice_step1 {α} [Inhabited α] (xs : List α) (a b : Option Int) :
    PySlice.slice xs a b 1 =
      (xs.drop (PySlice.indices xs.length a b 1).1.toNat).take
        ((PySlice.indices xs.length a b 1).2.1 - (PySlice.indices xs.length a b 1).1).toNat := by
  have hidx := View.indices_pos' (xs.length : Int) (by omega) a b 1 (by omega)
  generalize hs : View.clampP (a.getD 0) xs.length = s at hidx
  generalize he : View.clampP (b.getD xs.length) xs.length = e at hidx
  have hs0 : 0 ≤ s ∧ s ≤ xs.length := by rw [← hs]; unfold View.clampP; split <;> omega
  have he0 : 0 ≤ e ∧ e ≤ xs.length := by rw [← he]; unfold View.clampP; split <;> omega
  unfold PySlice.slice PySlice.sliceIdx
  rw [hidx]
  simp only []
  have hL : PySlice.rangeLen s e 1 = (e - s).toNat := by
    unfold PySlice.rangeLen
    simp only [show (1 : Int) > 0 by omega, if_true]
    split
    · rw [Int.ediv_one]; omega
    · omega
  rw [View.rangeList_eq_of s e 1 (e - s).toNat s 1 hL (fun _ => ⟨rfl, rfl⟩), map_map]
  apply ext_getElem
  · simp only [length_map, length_range, length_take, length_drop]; omega
  · intro i h1 h2
    simp only [length_map, length_range] at h1
    simp only [getElem_map, getElem_range, Function.comp, getElem_take, getElem_drop]
    have e1 : (s + (i : Int) * 1).toNat = s.toNat + i := by omega
    rw [e1, getElem!_def, getElem?_eq_getElem (by omega)]

theorem ofPatternFrom_append (xs ys : List Bool) : ∀ k,
    ofPatternFrom k (xs ++ ys) = ofPatternFrom k xs ++ ofPatternFrom (k + (xs.filter (! ·)).length) ys := by
  induction xs with
  | nil => intro k; simp [ofPatternFrom]
  | cons b r ih =>
    intro k
    cases b with
    | true => simp [ofPatternFrom, ih]
    | false =>
      simp only [cons_append, ofPatternFrom, ih, filter_cons, Bool.not_false, if_true, length_cons]
      rw [show k + 1 + (filter (fun x => !x) r).length = k + ((filter (fun x => !x) r).length + 1) by omega]

theorem ofPatternFrom_false (n : Nat) : ∀ k, ofPatternFrom k (replicate n false) = (range' k n).map some := by
  induction n with
  | zero => intro k; rfl
  | succ n ih => intro k; simp [replicate_succ, ofPatternFrom, ih, range'_succ]

theorem ofPatternFrom_true (n : Nat) : ∀ k, ofPatternFrom k (replicate n true) = replicate n none := by
  induction n with
  | zero => intro k; rfl
  | succ n ih => intro k; simp [replicate_succ, ofPatternFrom, ih]

/-- a map whose positions do not decrease numbers its residues 0, 1, 2, …: it is determined by its gap pattern -/
theorem absFrom_eq_ofPattern (gp : List Int) : ∀ (cum : List Int) (next prevCum pl : Int),
    0 ≤ next → (∀ p ∈ gp, next ≤ p ∧ p ≤ pl) → gp.Pairwise (· < ·) → next ≤ pl →
    absFrom next prevCum gp cum pl = ofPatternFrom next.toNat (pattern (absFrom next prevCum gp cum pl)) := by
  induction gp with
  | nil =>
    intro cum next prevCum pl h0 _ _ hn
    have : absFrom next prevCum [] cum pl = seg next pl := by cases cum <;> rfl
    rw [this, pattern_seg, ofPatternFrom_false]; rfl
  | cons p ps ih =>
    intro cum next prevCum pl h0 hr hs hn
    cases cum with
    | nil => simp only [absFrom]; rw [pattern_seg, ofPatternFrom_false]; rfl
    | cons c cs =>
      have hp := hr p (by simp)
      have hs' := pairwise_cons.mp hs
      have ihh := ih cs p c pl (by omega)
        (fun q hq => ⟨Int.le_of_lt (hs'.1 q hq), (hr q (by simp [hq])).2⟩) hs'.2 hp.2
      simp only [absFrom, pattern, map_append] at ihh ⊢
      have e1 := pattern_seg next p
      have e2 := pattern_gapCols (c - prevCum)
      simp only [pattern] at e1 e2
      rw [e1, e2]
      simp only [append_assoc]
      rw [ofPatternFrom_append, ofPatternFrom_append, ofPatternFrom_false, ofPatternFrom_true]
      have a1 : next.toNat + (filter (fun x => !x) (replicate (p - next).toNat false)).length = p.toNat := by
        simp; omega
      have a2 : p.toNat + (filter (fun x => !x) (replicate (c - prevCum).toNat true)).length = p.toNat := by
        simp
      rw [a1, a2, ← ihh]
      rfl

theorem abs_eq_ofPattern (m : IMap) (h : WF m) : abs m = ofPattern (pattern (abs m)) := by
  have := absFrom_eq_ofPattern m.gapPos m.cumLens 0 0 m.parentLength (by omega)
    (fun p hp => h.pos_range p hp) h.pos_sorted h.pl_nonneg
  simpa [abs, ofPattern] using this

end CogentModel.IndelMap
