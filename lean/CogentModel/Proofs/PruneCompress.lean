import Mathlib.Algebra.BigOperators.Group.List.Basic
import Mathlib.Algebra.BigOperators.Ring.List
import CogentModel.Proofs.Prune
/-!
Helper lemmas for C02 / C11, part 3: column compression (`_indexed`), the weighted log-sum,
the bin mixture.
-/
namespace CogentModel.Prune

section compress
variable {κ S : Type} [DecidableEq κ] [AddCommMonoid S]

theorem nsmulR_eq (k : Nat) (x : S) : nsmulR k x = k • x := by
  induction k with
  | zero => simp [nsmulR]
  | succ n ih => rw [nsmulR, ih, succ_nsmul]

omit [DecidableEq κ] in
theorem wls_append_one (g : κ → S) : ∀ (u : List κ) (c : List Nat) (k : κ), u.length = c.length →
    weightedLogSum g (u ++ [k]) (c ++ [1]) = weightedLogSum g u c + g k
  | [], [], k, _ => by simp [weightedLogSum, nsmulR]
  | [], _ :: _, _, h => by simp at h
  | _ :: _, [], _, h => by simp at h
  | x :: us, y :: cs, k, h => by
    simp only [List.cons_append, weightedLogSum]
    rw [wls_append_one g us cs k (by simpa using h), add_assoc]

theorem wls_bump (g : κ → S) : ∀ (u : List κ) (c : List Nat) (key : κ), u.length = c.length →
    u.idxOf key < u.length →
    weightedLogSum g u (bumpAt c (u.idxOf key)) = weightedLogSum g u c + g key
  | [], _, _, _, h => by simp at h
  | _ :: _, [], _, h, _ => by simp at h
  | x :: us, y :: cs, key, h, hi => by
    by_cases hx : x = key
    · subst hx
      simp only [List.idxOf_cons_self, bumpAt, weightedLogSum, nsmulR]
      rw [add_right_comm]
    · have hidx : (x :: us).idxOf key = us.idxOf key + 1 := List.idxOf_cons_ne _ hx
      rw [hidx] at hi ⊢
      simp only [bumpAt, weightedLogSum]
      rw [wls_bump g us cs key (by simpa using h) (by simpa using hi), add_assoc]

theorem bumpAt_length : ∀ (c : List Nat) (i : Nat), (bumpAt c i).length = c.length
  | [], _ => rfl
  | _ :: _, 0 => rfl
  | _ :: cs, i + 1 => by simp [bumpAt, bumpAt_length cs i]

theorem indexedStep_inv (g : κ → S) (st : Indexed κ) (key : κ) (h : st.uniq.length = st.counts.length) :
    (indexedStep st key).uniq.length = (indexedStep st key).counts.length ∧
    weightedLogSum g (indexedStep st key).uniq (indexedStep st key).counts
      = weightedLogSum g st.uniq st.counts + g key := by
  unfold indexedStep
  by_cases hi : st.uniq.idxOf key < st.uniq.length
  · simp only [hi, if_true]
    exact ⟨by rw [bumpAt_length]; exact h, wls_bump g _ _ key h hi⟩
  · simp only [hi, if_false]
    exact ⟨by simp [h], wls_append_one g _ _ key h⟩

theorem indexedGo_inv (g : κ → S) : ∀ (vals : List κ) (st : Indexed κ), st.uniq.length = st.counts.length →
    weightedLogSum g (indexedGo vals st).uniq (indexedGo vals st).counts
      = weightedLogSum g st.uniq st.counts + (vals.map g).sum
  | [], st, _ => by simp [indexedGo]
  | key :: rest, st, h => by
    obtain ⟨h1, h2⟩ := indexedStep_inv g st key h
    rw [indexedGo, indexedGo_inv g rest _ h1, h2, List.map_cons, List.sum_cons, add_assoc]

/-- the weighted sum over unique columns equals the plain sum over all columns -/
theorem lnLCompressed_eq_plain (g : κ → S) (cols : List κ) : lnLCompressed g cols = lnLPlain g cols := by
  unfold lnLCompressed lnLPlain indexed
  rw [indexedGo_inv g cols _ rfl]
  simp [weightedLogSum]

end compress

section bins
variable {R : Type} [CommSemiring R] {α : Type}

theorem weightedSum_eq : ∀ (bs ls : List R),
    weightedSum bs ls = ((List.zip bs ls).map fun p => p.1 * p.2).sum
  | [], _ => by simp [weightedSum]
  | _ :: _, [] => by simp [weightedSum]
  | b :: bs, l :: ls => by
    simp only [weightedSum, List.zip_cons_cons, List.map_cons, List.sum_cons]
    rw [weightedSum_eq bs ls, mul_comm]

end bins
end CogentModel.Prune
