import CogentModel.Model.AtomicWrite
/-! helper lemmas for C19 (core Lean only): frame lemma, closed forms of the phases of the atomic_write program -/
namespace CogentModel.AtomicWrite

@[simp] theorem upd_same (fs : FS) (p : Path) (v) : upd fs p v p = v := by simp [upd]
theorem upd_other (fs : FS) (p q : Path) (v) (h : q ≠ p) : upd fs p v q = fs q := by simp [upd, h]

theorem under_iff (d p : Path) : under d p = true ↔ d <+: p := by
  simp [under]

theorem under_self (d : Path) : under d d = true := by simp [under]
theorem under_append (d s : Path) : under d (d ++ s) = true := by simp [under]

theorem not_under_sibling (d : Path) (a b : Nat) (h : a ≠ b) : under (d ++ [a]) (d ++ [b]) = false := by
  induction d with
  | nil => simp [under, List.isPrefixOf, h]
  | cons x xs ih => simpa [under, List.isPrefixOf] using ih

theorem not_under_parent (d : Path) (a : Nat) : under (d ++ [a]) d = false := by
  induction d with
  | nil => simp [under]
  | cons x xs ih => simpa [under, List.isPrefixOf] using ih

theorem step_frame (fs fs' : FS) (c : Call) (p : Path) (h : step fs c = .ok fs') (hw : writesTo c p = false) :
    fs' p = fs p := by
  cases c <;> simp only [step, writesTo, beq_eq_false_iff_ne, ne_eq, Bool.or_eq_false_iff] at h hw
  all_goals (repeat' split at h)
  all_goals (try cases h)
  all_goals (simp_all [upd])

theorem runInstr_frame (fs fs' : FS) (i : Instr) (p : Path) (h : runInstr fs i = .ok fs')
    (hw : writesTo i.call p = false) : fs' p = fs p := by
  unfold runInstr at h
  split at h
  · next fs'' hs => cases h; exact step_frame _ _ _ _ hs hw
  · split at h
    · cases h; rfl
    · cases h

theorem exec_frame (is : List Instr) (fs : FS) (p : Path)
    (hw : ∀ i ∈ is, writesTo i.call p = false) : (exec fs is).1 p = fs p := by
  induction is generalizing fs with
  | nil => rfl
  | cons i is ih =>
    unfold exec
    split
    · next fs' h =>
      rw [ih fs' (fun j hj => hw j (List.mem_cons_of_mem _ hj))]
      exact runInstr_frame _ _ _ _ h (hw i List.mem_cons_self)
    · rfl

theorem exec_cons_ok (fs fs' : FS) (i : Instr) (is : List Instr) (h : runInstr fs i = .ok fs') :
    exec fs (i :: is) = exec fs' is := by simp [exec, h]

theorem exec_cons_err (fs : FS) (i : Instr) (is : List Instr) (e : Errno) (h : runInstr fs i = .error e) :
    exec fs (i :: is) = (fs, some e) := by simp [exec, h]

theorem exec_append_ok (a b : List Instr) (fs : FS) (h : (exec fs a).2 = none) :
    exec fs (a ++ b) = exec (exec fs a).1 b := by
  induction a generalizing fs with
  | nil => simp [exec]
  | cons i is ih =>
    cases hr : runInstr fs i with
    | ok fs' =>
      rw [List.cons_append, exec_cons_ok _ _ _ _ hr, exec_cons_ok _ _ _ _ hr]
      rw [exec_cons_ok _ _ _ _ hr] at h
      exact ih fs' h
    | error e => rw [exec_cons_err _ _ _ _ hr] at h; cases h

theorem exec_append_err (a b : List Instr) (fs : FS) (e : Errno) (h : (exec fs a).2 = some e) :
    exec fs (a ++ b) = exec fs a := by
  induction a generalizing fs with
  | nil => simp [exec] at h
  | cons i is ih =>
    cases hr : runInstr fs i with
    | ok fs' =>
      rw [List.cons_append, exec_cons_ok _ _ _ _ hr, exec_cons_ok _ _ _ _ hr]
      rw [exec_cons_ok _ _ _ _ hr] at h
      exact ih fs' h
    | error e' => rw [List.cons_append, exec_cons_err _ _ _ _ hr, exec_cons_err _ _ _ _ hr]

theorem exec_writes (c : Cfg) (cs : List Data) (fs : FS) (acc : Data)
    (h : fs c.tmpfile = some (.file acc)) :
    exec fs (writes c cs) = (upd fs c.tmpfile (some (.file (acc ++ cs.flatten))), none) := by
  induction cs generalizing fs acc with
  | nil =>
    simp only [writes, List.map_nil, exec, List.flatten_nil, List.append_nil, Prod.mk.injEq, and_true]
    funext q; by_cases hq : q = c.tmpfile <;> simp [upd, hq, h]
  | cons ch cs ih =>
    simp only [writes, List.map_cons, exec, runInstr, step, h]
    have := ih (upd fs c.tmpfile (some (.file (acc ++ ch)))) (acc ++ ch) (by simp)
    simp only [writes] at this
    rw [this]
    simp only [List.flatten_cons, List.append_assoc, Prod.mk.injEq, and_true]
    funext q; by_cases hq : q = c.tmpfile <;> simp [upd, hq]

theorem exec_take_ok (is : List Instr) (fs : FS) (k : Nat) (h : (exec fs is).2 = none) :
    (exec fs (is.take k)).2 = none := by
  cases hk : (exec fs (is.take k)).2 with
  | none => rfl
  | some e =>
    have := exec_append_err (is.take k) (is.drop k) fs e hk
    rw [List.take_append_drop] at this
    rw [this, hk] at h; cases h

structure WF (c : Cfg) (fs : FS) : Prop where
  hdir : fs c.dir = some .dir
  hne : c.t ≠ c.name
  hfresh : ∀ p, under c.tmpdir p = true → fs p = none
  hdest : fs c.dest ≠ some .dir

section paths
variable (c : Cfg)
theorem tmpfile_ne_dest (_h : c.t ≠ c.name) : c.tmpfile ≠ c.dest := by
  simp [Cfg.tmpfile, Cfg.dest]
theorem tmpdir_ne_dest (h : c.t ≠ c.name) : c.tmpdir ≠ c.dest := by
  simp [Cfg.tmpdir, Cfg.dest, h]
theorem tmpfile_ne_tmpdir : c.tmpfile ≠ c.tmpdir := by
  simp [Cfg.tmpfile, Cfg.tmpdir]
theorem dir_ne_tmpdir : c.dir ≠ c.tmpdir := by simp [Cfg.tmpdir]
theorem dir_ne_tmpfile : c.dir ≠ c.tmpfile := by simp [Cfg.tmpfile]
theorem dir_ne_dest : c.dir ≠ c.dest := by simp [Cfg.dest]
@[simp] theorem parent_tmpdir : parent c.tmpdir = c.dir := by simp [parent, Cfg.tmpdir]
@[simp] theorem parent_tmpfile : parent c.tmpfile = c.tmpdir := by simp [parent, Cfg.tmpfile, Cfg.tmpdir]
@[simp] theorem parent_dest : parent c.dest = c.dir := by simp [parent, Cfg.dest]
theorem under_tmpdir_tmpfile : under c.tmpdir c.tmpfile = true := by
  simp [Cfg.tmpdir, Cfg.tmpfile, under]
theorem not_under_tmpdir_dest (h : c.t ≠ c.name) : under c.tmpdir c.dest = false :=
  not_under_sibling _ _ _ h
theorem not_under_tmpdir_dir : under c.tmpdir c.dir = false := not_under_parent _ _
end paths

/-- state after the constructor, `__enter__`, and writing `acc` -/
def preState (c : Cfg) (fs : FS) (acc : Data) : FS :=
  upd (upd fs c.tmpdir (some .dir)) c.tmpfile (some (.file acc))

theorem exec_pre (c : Cfg) (fs : FS) (h : WF c fs) :
    exec fs (pre c) = (preState c fs c.newData, none) := by
  have h1 : fs c.tmpdir = none := h.hfresh _ (under_self _)
  have h2 : fs c.tmpfile = none := h.hfresh _ (under_tmpdir_tmpfile c)
  have r1 : runInstr fs ⟨.mkdir c.tmpdir, .ctor⟩ = .ok (upd fs c.tmpdir (some .dir)) := by
    simp [runInstr, step, h1, isDir, h.hdir]
  have r2 : runInstr (upd fs c.tmpdir (some .dir)) ⟨.openW c.tmpfile, .enter⟩
      = .ok (preState c fs []) := by
    simp [runInstr, step, isDir, upd_other _ _ _ _ (tmpfile_ne_tmpdir c), h2, preState]
  unfold pre
  rw [List.append_assoc, List.cons_append, List.cons_append, List.nil_append,
    exec_cons_ok _ _ _ _ r1, exec_cons_ok _ _ _ _ r2]
  have hw := exec_writes c c.chunks (preState c fs []) [] (by simp [preState])
  rw [exec_append_ok _ _ _ (by rw [hw])]
  rw [hw]
  simp only [List.nil_append, exec, runInstr, step, closeInstr, Cfg.newData, Prod.mk.injEq, and_true]
  funext q; by_cases hq : q = c.tmpfile <;> simp [upd, hq, preState]

section post
variable (c : Cfg) (fs : FS) (h : WF c fs)
include h

theorem preState_dest (acc) : preState c fs acc c.dest = fs c.dest := by
  simp [preState, upd, (tmpfile_ne_dest c h.hne).symm, (tmpdir_ne_dest c h.hne).symm]
theorem preState_dir (acc) : preState c fs acc c.dir = some .dir := by
  simp [preState, upd, dir_ne_tmpdir c, dir_ne_tmpfile c, h.hdir]
omit h in
theorem preState_tmpdir (acc) : preState c fs acc c.tmpdir = some .dir := by
  simp [preState, upd, (tmpfile_ne_tmpdir c).symm]
omit h in
theorem preState_tmpfile (acc) : preState c fs acc c.tmpfile = some (.file acc) := by
  simp [preState]

/-- state after the commit: destination holds the new content, the temp file is gone -/
def commitState (c : Cfg) (fs : FS) : FS :=
  upd (upd (preState c fs c.newData) c.dest (some (.file c.newData))) c.tmpfile none

theorem run_rename (S : FS) (hS : ∀ q, q ≠ c.dest → S q = preState c fs c.newData q)
    (hd : S c.dest ≠ some .dir) :
    runInstr S ⟨.rename c.tmpfile c.dest, .commitRename⟩ = .ok (commitState c fs) := by
  have e1 : S c.tmpfile = some (.file c.newData) := by
    rw [hS _ (tmpfile_ne_dest c h.hne), preState_tmpfile]
  have e2 : S c.dir = some .dir := by rw [hS _ (dir_ne_dest c), preState_dir c fs h]
  have e3 : (S c.dest == some Node.dir) = false := by
    simp only [beq_eq_false_iff_ne, ne_eq]; exact hd
  simp only [runInstr, step, e1, parent_dest, isDir, e3, e2, BEq.rfl, if_true, Bool.false_eq_true, if_false]
  congr 1
  funext q
  by_cases q1 : q = c.tmpfile
  · simp [commitState, upd, q1]
  · by_cases q2 : q = c.dest
    · simp [commitState, upd, q2, (tmpfile_ne_dest c h.hne).symm]
    · simp [commitState, upd, q1, q2, hS q q2]

omit h in
theorem run_rmtree (S : FS) (hS : S c.tmpdir = some .dir) :
    runInstr S ⟨.rmtree c.tmpdir, .cleanup⟩ = .ok (fun q => if under c.tmpdir q then none else S q) := by
  simp [runInstr, step, isDir, hS]

theorem commitState_tmpdir : commitState c fs c.tmpdir = some .dir := by
  simp [commitState, upd, (tmpfile_ne_tmpdir c).symm, tmpdir_ne_dest c h.hne, preState_tmpdir c fs]

theorem commitState_dest : commitState c fs c.dest = some (.file c.newData) := by
  simp [commitState, upd, (tmpfile_ne_dest c h.hne).symm]

end post


/-! ### the post phase, replace strategy -/
section replace
variable (c : Cfg) (fs : FS) (h : WF c fs) (hz : c.zipMember = none) (hc : c.commit = .replace)
include h hz hc

omit h in
theorem post_replace : post c = [⟨.rename c.tmpfile c.dest, .commitRename⟩, ⟨.rmtree c.tmpdir, .cleanup⟩] := by
  simp [post, commitInstrs, hz, hc]

theorem exec_post_replace_1 :
    exec (preState c fs c.newData) [⟨.rename c.tmpfile c.dest, .commitRename⟩] = (commitState c fs, none) := by
  have hd : preState c fs c.newData c.dest ≠ some .dir := by rw [preState_dest c fs h]; exact h.hdest
  rw [exec_cons_ok _ _ _ _ (run_rename c fs h _ (fun _ _ => rfl) hd)]; rfl

theorem exec_post_replace_2 :
    exec (preState c fs c.newData) (post c) =
      ((fun q => if under c.tmpdir q then none else commitState c fs q), none) := by
  have hd : preState c fs c.newData c.dest ≠ some .dir := by rw [preState_dest c fs h]; exact h.hdest
  rw [post_replace c hz hc, exec_cons_ok _ _ _ _ (run_rename c fs h _ (fun _ _ => rfl) hd),
    exec_cons_ok _ _ _ _ (run_rmtree c _ (commitState_tmpdir c fs h))]; rfl

end replace

theorem mem_take {α} (l : List α) (k : Nat) (x : α) (h : x ∈ l.take k) : x ∈ l := List.mem_of_mem_take h

theorem pre_frame_dest (c : Cfg) (hne : c.t ≠ c.name) : ∀ i ∈ pre c, writesTo i.call c.dest = false := by
  intro i hi
  have a := (tmpdir_ne_dest c hne).symm
  have b := (tmpfile_ne_dest c hne).symm
  simp only [pre, writes, List.mem_append, List.mem_cons, List.mem_map, List.not_mem_nil, or_false] at hi
  rcases hi with ((rfl | rfl) | ⟨ch, _, rfl⟩) | rfl <;> simp [writesTo, closeInstr, a, b]

theorem program_frame (c : Cfg) (p : Path) (hp : p ≠ c.dest) (hu : under c.tmpdir p = false) :
    ∀ i ∈ program c, writesTo i.call p = false := by
  intro i hi
  have a : p ≠ c.tmpdir := by intro e; rw [e, under_self] at hu; cases hu
  have b : p ≠ c.tmpfile := by intro e; rw [e, under_tmpdir_tmpfile] at hu; cases hu
  simp only [program, pre, post, commitInstrs, writes, List.mem_append, List.mem_cons, List.mem_map,
    List.not_mem_nil, or_false] at hi
  rcases hi with (((rfl | rfl) | ⟨ch, _, rfl⟩) | rfl) | hi | rfl
  · simp [writesTo, a]
  · simp [writesTo, b]
  · simp [writesTo, b]
  · simp [writesTo, closeInstr]
  · cases hz : c.zipMember with
    | some m => simp only [hz, List.mem_cons, List.not_mem_nil, or_false] at hi; rcases hi with rfl | rfl <;> simp [writesTo, hp]
    | none =>
      cases hc : c.commit <;> simp only [hz, hc, List.mem_cons, List.not_mem_nil, or_false] at hi
      · rcases hi with rfl | rfl <;> simp [writesTo, hp, b]
      · rcases hi with rfl; simp [writesTo, hp, b]
  · simp [writesTo, hu]

/-- whatever the crash point, nothing outside the destination and the temp dir is touched -/
theorem crash_others_unchanged (c : Cfg) (fs : FS) (k : Nat) (p : Path) (hp : p ≠ c.dest)
    (hu : under c.tmpdir p = false) : crashState c fs k p = fs p :=
  exec_frame _ _ _ (fun i hi => program_frame c p hp hu i (mem_take _ _ _ hi))

theorem crash_before_commit (c : Cfg) (fs : FS) (hne : c.t ≠ c.name) (k : Nat) (hk : k ≤ (pre c).length) :
    crashState c fs k c.dest = fs c.dest := by
  unfold crashState program
  rw [List.take_append_of_le_length hk]
  exact exec_frame _ _ _ (fun i hi => pre_frame_dest c hne i (mem_take _ _ _ hi))

theorem crash_after_pre (c : Cfg) (fs : FS) (h : WF c fs) (k : Nat) (hk : (pre c).length ≤ k) :
    crashState c fs k = (exec (preState c fs c.newData) ((post c).take (k - (pre c).length))).1 := by
  unfold crashState program
  rw [List.take_append, List.take_of_length_le hk, exec_append_ok _ _ _ (by rw [exec_pre c fs h]), exec_pre c fs h]

theorem crash_replace_after (c : Cfg) (fs : FS) (h : WF c fs) (hz : c.zipMember = none)
    (hc : c.commit = .replace) (k : Nat) (hk : (pre c).length < k) :
    crashState c fs k c.dest = some (.file c.newData) := by
  rw [crash_after_pre c fs h k (Nat.le_of_lt hk)]
  obtain ⟨j, hj⟩ : ∃ j, k - (pre c).length = j + 1 := ⟨k - (pre c).length - 1, by omega⟩
  rw [hj]
  cases j with
  | zero =>
    rw [post_replace c hz hc]
    simp only [Nat.zero_add, List.take_succ_cons, List.take_zero]
    rw [exec_post_replace_1 c fs h hz hc]; exact commitState_dest c fs h
  | succ j =>
    have : (post c).take (j + 1 + 1) = post c := by
      rw [post_replace c hz hc]; simp
    rw [this, exec_post_replace_2 c fs h hz hc]
    simp [not_under_tmpdir_dest c h.hne, commitState_dest c fs h]

/-! ### the post phase, unlink-then-rename (what the pinned tree does) -/
section unlinkRename
variable (c : Cfg) (fs : FS) (h : WF c fs) (hz : c.zipMember = none) (hc : c.commit = .unlinkRename)
include h hz hc

/-- state after `dest.unlink()` (FileNotFoundError swallowed) -/
def unlinkedState (c : Cfg) (fs : FS) : FS := upd (preState c fs c.newData) c.dest none

omit h in
theorem post_unlinkRename : post c = [⟨.unlink c.dest, .commitUnlink⟩, ⟨.rename c.tmpfile c.dest, .commitRename⟩,
    ⟨.rmtree c.tmpdir, .cleanup⟩] := by
  simp [post, commitInstrs, hz, hc]

omit hz hc in
theorem run_unlink : runInstr (preState c fs c.newData) ⟨.unlink c.dest, .commitUnlink⟩ = .ok (unlinkedState c fs) := by
  have e := preState_dest c fs h c.newData
  cases hd : fs c.dest with
  | none =>
    simp only [runInstr, step, e, hd]
    simp only [and_self, if_true, unlinkedState]
    congr 1; funext q; by_cases hq : q = c.dest <;> simp [upd, hq, e, hd]
  | some n =>
    cases n with
    | dir => exact absurd hd h.hdest
    | file d => simp [runInstr, step, e, hd, unlinkedState]
    | archive ms t => simp [runInstr, step, e, hd, unlinkedState]

omit hz hc in
theorem run_rename_unlinked :
    runInstr (unlinkedState c fs) ⟨.rename c.tmpfile c.dest, .commitRename⟩ = .ok (commitState c fs) :=
  run_rename c fs h _ (fun q hq => by simp [unlinkedState, upd, hq]) (by simp [unlinkedState])

theorem crash_unlinkRename_window :
    crashState c fs ((pre c).length + 1) c.dest = none := by
  rw [crash_after_pre c fs h _ (by omega), post_unlinkRename c hz hc]
  simp only [Nat.add_sub_cancel_left, List.take_succ_cons, List.take_zero]
  rw [exec_cons_ok _ _ _ _ (run_unlink c fs h)]
  simp [exec, unlinkedState]

theorem crash_unlinkRename_after (k : Nat) (hk : (pre c).length + 1 < k) :
    crashState c fs k c.dest = some (.file c.newData) := by
  rw [crash_after_pre c fs h k (by omega)]
  obtain ⟨j, hj⟩ : ∃ j, k - (pre c).length = j + 2 := ⟨k - (pre c).length - 2, by omega⟩
  rw [hj, post_unlinkRename c hz hc]
  cases j with
  | zero =>
    simp only [Nat.zero_add, List.take_succ_cons, List.take_zero]
    rw [exec_cons_ok _ _ _ _ (run_unlink c fs h), exec_cons_ok _ _ _ _ (run_rename_unlinked c fs h)]
    exact commitState_dest c fs h
  | succ j =>
    simp only [List.take_succ_cons, List.take_nil]
    rw [exec_cons_ok _ _ _ _ (run_unlink c fs h), exec_cons_ok _ _ _ _ (run_rename_unlinked c fs h),
      exec_cons_ok _ _ _ _ (run_rmtree c _ (commitState_tmpdir c fs h))]
    simp [exec, not_under_tmpdir_dest c h.hne, commitState_dest c fs h]

end unlinkRename
theorem pre_length (c : Cfg) : (pre c).length = c.chunks.length + 3 := by
  simp [pre, writes]

theorem phaseAt_0 (c : Cfg) : phaseAt c 0 = .ctor := by simp [phaseAt, program, pre]
theorem phaseAt_1 (c : Cfg) : phaseAt c 1 = .enter := by simp [phaseAt, program, pre]
theorem phaseAt_body (c : Cfg) (j : Nat) (hj : j < c.chunks.length) : phaseAt c (j + 2) = .body := by
  simp [phaseAt, program, pre, writes, List.getElem?_append, hj]
theorem phaseAt_close (c : Cfg) : phaseAt c (c.chunks.length + 2) = if c.closeInBody then .body else .exitClose := by
  simp [phaseAt, program, pre, writes, closeInstr]
theorem phaseAt_commit0 (c : Cfg) : phaseAt c (c.chunks.length + 3) = ((post c)[0]?.map (·.phase)).getD .cleanup := by
  simp [phaseAt, program, pre, writes, List.getElem?_append]
  cases (post c)[0]? <;> simp <;> (rw [if_neg (by omega)])

theorem crash_zero (c : Cfg) (fs : FS) : crashState c fs 0 = fs := by simp [crashState, exec]

theorem crash_tmpdir_pre (c : Cfg) (fs : FS) (h : WF c fs) (k : Nat) (hk1 : 1 ≤ k) (hk : k ≤ (pre c).length) :
    crashState c fs k c.tmpdir = some .dir := by
  unfold crashState program
  rw [List.take_append_of_le_length hk]
  obtain ⟨j, rfl⟩ : ∃ j, k = j + 1 := ⟨k - 1, by omega⟩
  have h1 : fs c.tmpdir = none := h.hfresh _ (under_self _)
  have r1 : runInstr fs ⟨.mkdir c.tmpdir, .ctor⟩ = .ok (upd fs c.tmpdir (some .dir)) := by
    simp [runInstr, step, h1, isDir, h.hdir]
  have hp : pre c = ⟨.mkdir c.tmpdir, .ctor⟩ :: (⟨.openW c.tmpfile, .enter⟩ :: (writes c c.chunks ++ [closeInstr c])) := by
    simp [pre]
  rw [hp, List.take_succ_cons, exec_cons_ok _ _ _ _ r1, exec_frame]
  · simp
  · intro i hi
    have hi := mem_take _ _ _ hi
    have a := (tmpfile_ne_tmpdir c).symm
    simp only [writes, List.mem_append, List.mem_cons, List.mem_map, List.not_mem_nil, or_false] at hi
    rcases hi with rfl | ⟨ch, _, rfl⟩ | rfl <;> simp [writesTo, closeInstr, a]

theorem cleanup_result (c : Cfg) (S : FS) (hS : S c.tmpdir = some .dir) (l : List Instr)
    (hl : l = [⟨.rmtree c.tmpdir, .cleanup⟩] ∨ l = [⟨.close c.tmpfile, .exitClose⟩, ⟨.rmtree c.tmpdir, .cleanup⟩]) :
    (exec S l).1 = fun q => if under c.tmpdir q then none else S q := by
  rcases hl with rfl | rfl
  · rw [exec_cons_ok _ _ _ _ (run_rmtree c S hS)]; rfl
  · have : runInstr S ⟨.close c.tmpfile, .exitClose⟩ = .ok S := by simp [runInstr, step]
    rw [exec_cons_ok _ _ _ _ this, exec_cons_ok _ _ _ _ (run_rmtree c S hS)]; rfl

/-- fault at any call before the final rmtree, repaired handler table, one-call commit -/
theorem fault_guarded_replace (c : Cfg) (fs : FS) (h : WF c fs) (hz : c.zipMember = none)
    (hc : c.commit = .replace) (hg : c.guarded = true) (hw : c.withBlock = true) (hb : c.bodyUnlink = false)
    (k : Nat) (hk : k ≤ (pre c).length) :
    faultState c fs k c.dest = fs c.dest ∧ ∀ p, under c.tmpdir p = true → faultState c fs k p = none := by
  by_cases k0 : k = 0
  · subst k0
    simp only [faultState, phaseAt_0, handler, exec, crash_zero, true_and]
    exact fun p hp => h.hfresh p hp
  · have hS := crash_tmpdir_pre c fs h k (by omega) hk
    have hD := crash_before_commit c fs h.hne k hk
    have hl : handler c (phaseAt c k) = [⟨.rmtree c.tmpdir, .cleanup⟩] ∨
        handler c (phaseAt c k) = [⟨.close c.tmpfile, .exitClose⟩, ⟨.rmtree c.tmpdir, .cleanup⟩] := by
      rw [pre_length] at hk
      by_cases k1 : k = 1
      · subst k1; simp [phaseAt_1, handler, hg]
      · by_cases kb : k < c.chunks.length + 2
        · obtain ⟨j, rfl⟩ : ∃ j, k = j + 2 := ⟨k - 2, by omega⟩
          rw [phaseAt_body c j (by omega)]; simp [handler, hw, hb]
        · by_cases kc : k = c.chunks.length + 2
          · subst kc; rw [phaseAt_close]; cases c.closeInBody <;> simp [handler, hg, hw, hb]
          · have : k = c.chunks.length + 3 := by omega
            subst this
            rw [phaseAt_commit0, post_replace c hz hc]; simp [handler, hg]
    unfold faultState
    rw [cleanup_result c _ hS _ hl]
    constructor
    · simp [not_under_tmpdir_dest c h.hne, hD]
    · intro p hp; simp [hp]

/-! ### zip-member target (`in_zip`): append in place -/

section zip
variable (c : Cfg) (fs : FS) (h : WF c fs) (m : Nat) (hz : c.zipMember = some m)
  (ms : List (Nat × Data)) (hold : fs c.dest = some (.archive ms false))
include h hz hold

omit h hold in
theorem post_zip : post c = [⟨.zipData c.dest m c.tmpfile, .zipData⟩, ⟨.zipDir c.dest, .zipDir⟩,
    ⟨.rmtree c.tmpdir, .cleanup⟩] := by
  simp [post, commitInstrs, hz]

def zipTorn (c : Cfg) (fs : FS) (ms : List (Nat × Data)) (m : Nat) : FS :=
  upd (preState c fs c.newData) c.dest (some (.archive (ms ++ [(m, c.newData)]) true))
def zipDone (c : Cfg) (fs : FS) (ms : List (Nat × Data)) (m : Nat) : FS :=
  upd (zipTorn c fs ms m) c.dest (some (.archive (ms ++ [(m, c.newData)]) false))

omit hz in
theorem run_zipData : runInstr (preState c fs c.newData) ⟨.zipData c.dest m c.tmpfile, .zipData⟩
    = .ok (zipTorn c fs ms m) := by
  simp [runInstr, step, preState_tmpfile, preState_dest c fs h, hold, zipTorn]

omit h hz hold in
theorem run_zipDir : runInstr (zipTorn c fs ms m) ⟨.zipDir c.dest, .zipDir⟩ = .ok (zipDone c fs ms m) := by
  simp [runInstr, step, zipTorn, zipDone]

omit hz hold in
theorem zipDone_tmpdir : zipDone c fs ms m c.tmpdir = some .dir := by
  simp [zipDone, zipTorn, upd, tmpdir_ne_dest c h.hne, preState_tmpdir c fs]

/-- between appending the member data and writing the new central directory the archive is unreadable -/
theorem zip_torn_window : readable (crashState c fs ((pre c).length + 1) c.dest) = none := by
  rw [crash_after_pre c fs h _ (by omega), post_zip c m hz]
  simp only [Nat.add_sub_cancel_left, List.take_succ_cons, List.take_zero]
  rw [exec_cons_ok _ _ _ _ (run_zipData c fs h m ms hold)]
  simp [exec, zipTorn, readable]

theorem zip_after (k : Nat) (hk : (pre c).length + 1 < k) :
    readable (crashState c fs k c.dest) = some (ms ++ [(m, c.newData)]) := by
  rw [crash_after_pre c fs h k (by omega)]
  obtain ⟨j, hj⟩ : ∃ j, k - (pre c).length = j + 2 := ⟨k - (pre c).length - 2, by omega⟩
  rw [hj, post_zip c m hz]
  cases j with
  | zero =>
    simp only [Nat.zero_add, List.take_succ_cons, List.take_zero]
    rw [exec_cons_ok _ _ _ _ (run_zipData c fs h m ms hold), exec_cons_ok _ _ _ _ (run_zipDir c fs m ms)]
    simp [exec, zipDone, readable]
  | succ j =>
    simp only [List.take_succ_cons, List.take_nil]
    rw [exec_cons_ok _ _ _ _ (run_zipData c fs h m ms hold), exec_cons_ok _ _ _ _ (run_zipDir c fs m ms),
      exec_cons_ok _ _ _ _ (run_rmtree c _ (zipDone_tmpdir c fs h m ms))]
    simp [exec, not_under_tmpdir_dest c h.hne, zipDone, readable]
end zip


/-! ### the `tmpdir=` route -/
structure WFtmp (c : Cfg) (fs : FS) : Prop where
  hdir : fs c.dir = some .dir
  hne : c.t ≠ c.name
  htmp : fs c.tmpdir = some .dir         -- the caller's directory exists (and may hold anything)
  hfile : fs c.tmpfile = none            -- the uuid name is fresh
  hdest : fs c.dest ≠ some .dir

/-- state after open, writes and close on the `tmpdir=` route -/
def tmpState (c : Cfg) (fs : FS) : FS := upd fs c.tmpfile (some (.file c.newData))

theorem exec_preTmp (c : Cfg) (fs : FS) (h : WFtmp c fs) :
    exec fs ([⟨.openW c.tmpfile, .enter⟩] ++ writes c c.chunks ++ [closeInstr c]) = (tmpState c fs, none) := by
  have r2 : runInstr fs ⟨.openW c.tmpfile, .enter⟩ = .ok (upd fs c.tmpfile (some (.file []))) := by
    simp [runInstr, step, isDir, h.hfile, h.htmp]
  rw [List.append_assoc, List.singleton_append, exec_cons_ok _ _ _ _ r2]
  have hw := exec_writes c c.chunks (upd fs c.tmpfile (some (.file []))) [] (by simp)
  rw [exec_append_ok _ _ _ (by rw [hw]), hw]
  simp only [List.nil_append, exec, runInstr, step, closeInstr, Cfg.newData, Prod.mk.injEq, and_true]
  funext q; by_cases hq : q = c.tmpfile <;> simp [upd, hq, tmpState, Cfg.newData]

def tmpCommitted (c : Cfg) (fs : FS) : FS :=
  upd (upd (tmpState c fs) c.dest (some (.file c.newData))) c.tmpfile none

theorem run_rename_tmp (c : Cfg) (fs : FS) (h : WFtmp c fs) :
    runInstr (tmpState c fs) ⟨.rename c.tmpfile c.dest, .commitRename⟩ = .ok (tmpCommitted c fs) := by
  have e1 : tmpState c fs c.tmpfile = some (.file c.newData) := by simp [tmpState]
  have e2 : tmpState c fs c.dir = some .dir := by simp [tmpState, upd, dir_ne_tmpfile c, h.hdir]
  have e0 : tmpState c fs c.dest = fs c.dest := by simp [tmpState, upd, (tmpfile_ne_dest c h.hne).symm]
  have e3 : (tmpState c fs c.dest == some Node.dir) = false := by
    rw [e0]; simp only [beq_eq_false_iff_ne, ne_eq]; exact h.hdest
  simp only [runInstr, step, e1, parent_dest, isDir, e3, e2, BEq.rfl, if_true, Bool.false_eq_true, if_false]
  rfl

theorem exec_programTmp_rmtree (c : Cfg) (fs : FS) (h : WFtmp c fs) :
    exec fs (programTmp c .rmtreeDir) = ((fun q => if under c.tmpdir q then none else tmpCommitted c fs q), none) := by
  unfold programTmp
  rw [List.append_assoc, exec_append_ok _ _ _ (by rw [exec_preTmp c fs h]), exec_preTmp c fs h,
    List.singleton_append, exec_cons_ok _ _ _ _ (run_rename_tmp c fs h)]
  have hd : tmpCommitted c fs c.tmpdir = some .dir := by
    simp [tmpCommitted, tmpState, upd, (tmpfile_ne_tmpdir c).symm, tmpdir_ne_dest c h.hne, h.htmp]
  rw [exec_cons_ok _ _ _ _ (run_rmtree c _ hd)]; rfl

theorem exec_programTmp_unlink (c : Cfg) (fs : FS) (h : WFtmp c fs) :
    exec fs (programTmp c .unlinkFile) = (tmpCommitted c fs, none) := by
  unfold programTmp
  rw [List.append_assoc, exec_append_ok _ _ _ (by rw [exec_preTmp c fs h]), exec_preTmp c fs h,
    List.singleton_append, exec_cons_ok _ _ _ _ (run_rename_tmp c fs h)]
  have : runInstr (tmpCommitted c fs) ⟨.unlink c.tmpfile, .commitUnlink⟩ = .ok (tmpCommitted c fs) := by
    simp [runInstr, step, tmpCommitted]
  rw [exec_cons_ok _ _ _ _ this]; rfl

/-! ### faults on a zip-member target, handlers as they are -/
section zipfault
variable (c : Cfg) (fs : FS) (h : WF c fs) (m : Nat) (hg : c.guarded = true)
  (hw : c.withBlock = true) (hb : c.bodyUnlink = false)
include h hg hw hb

omit m in
/-- any call before the append raising: archive (whatever the destination is) untouched, no temp left -/
theorem fault_before_commit (k : Nat) (hk : k < (pre c).length) :
    faultState c fs k c.dest = fs c.dest ∧ ∀ p, under c.tmpdir p = true → faultState c fs k p = none := by
  by_cases k0 : k = 0
  · subst k0
    simp only [faultState, phaseAt_0, handler, exec, crash_zero, true_and]
    exact fun p hp => h.hfresh p hp
  · have hS := crash_tmpdir_pre c fs h k (by omega) (by omega)
    have hD := crash_before_commit c fs h.hne k (by omega)
    have hl : handler c (phaseAt c k) = [⟨.rmtree c.tmpdir, .cleanup⟩] ∨
        handler c (phaseAt c k) = [⟨.close c.tmpfile, .exitClose⟩, ⟨.rmtree c.tmpdir, .cleanup⟩] := by
      rw [pre_length] at hk
      by_cases k1 : k = 1
      · subst k1; simp [phaseAt_1, handler, hg]
      · by_cases kb : k < c.chunks.length + 2
        · obtain ⟨j, rfl⟩ : ∃ j, k = j + 2 := ⟨k - 2, by omega⟩
          rw [phaseAt_body c j (by omega)]; simp [handler, hw, hb]
        · have kc : k = c.chunks.length + 2 := by omega
          subst kc; rw [phaseAt_close]; cases c.closeInBody <;> simp [handler, hg, hw, hb]
    unfold faultState
    rw [cleanup_result c _ hS _ hl]
    exact ⟨by simp [not_under_tmpdir_dest c h.hne, hD], fun p hp => by simp [hp]⟩

omit hw hb in
/-- the open of the archive for append raising: zipfile retries with 'w+b', the write "succeeds" with
an archive that holds ONLY the new member -/
theorem fault_at_zipData (hz : c.zipMember = some m) (ms : List (Nat × Data)) (hold : fs c.dest = some (.archive ms false)) :
    faultState c fs (pre c).length c.dest = some (.archive [(m, c.newData)] false) ∧
    ∀ p, under c.tmpdir p = true → faultState c fs (pre c).length p = none := by
  have hph : phaseAt c (pre c).length = .zipData := by
    rw [pre_length, phaseAt_commit0, post_zip c m hz]; rfl
  have hcr : crashState c fs (pre c).length = preState c fs c.newData := by
    rw [crash_after_pre c fs h _ (Nat.le_refl _)]; simp [exec]
  unfold faultState
  rw [hph, hcr]
  simp only [handler, hg, if_true, hz, List.cons_append, List.nil_append]
  have e0 := preState_dest c fs h c.newData
  have r1 : runInstr (preState c fs c.newData) ⟨.zipTrunc c.dest, .zipData⟩
      = .ok (upd (preState c fs c.newData) c.dest (some (.archive [] false))) := by
    simp [runInstr, step, isDir, e0, hold, preState_dir c fs h]
  have r2 : runInstr (upd (preState c fs c.newData) c.dest (some (.archive [] false))) ⟨.zipData c.dest m c.tmpfile, .zipData⟩
      = .ok (upd (preState c fs c.newData) c.dest (some (.archive [(m, c.newData)] true))) := by
    simp only [runInstr, step, upd_other _ _ _ _ (tmpfile_ne_dest c h.hne), preState_tmpfile, upd_same, List.nil_append]
    congr 1; funext q; by_cases hq : q = c.dest <;> simp [upd, hq]
  have r3 : runInstr (upd (preState c fs c.newData) c.dest (some (.archive [(m, c.newData)] true))) ⟨.zipDir c.dest, .zipDir⟩
      = .ok (upd (preState c fs c.newData) c.dest (some (.archive [(m, c.newData)] false))) := by
    simp only [runInstr, step, upd_same]
    congr 1; funext q; by_cases hq : q = c.dest <;> simp [upd, hq]
  have hd : upd (preState c fs c.newData) c.dest (some (.archive [(m, c.newData)] false)) c.tmpdir = some .dir := by
    rw [upd_other _ _ _ _ (tmpdir_ne_dest c h.hne), preState_tmpdir]
  rw [exec_cons_ok _ _ _ _ r1, exec_cons_ok _ _ _ _ r2, exec_cons_ok _ _ _ _ r3, exec_cons_ok _ _ _ _ (run_rmtree c _ hd)]
  exact ⟨by simp [exec, not_under_tmpdir_dest c h.hne], fun p hp => by simp [exec, hp]⟩

omit hw hb in
/-- the close of the archive (central directory) raising: the temp dir is removed, the archive stays torn -/
theorem fault_at_zipDir (hz : c.zipMember = some m) (ms : List (Nat × Data)) (hold : fs c.dest = some (.archive ms false)) :
    readable (faultState c fs ((pre c).length + 1) c.dest) = none ∧
    ∀ p, under c.tmpdir p = true → faultState c fs ((pre c).length + 1) p = none := by
  have hph : phaseAt c ((pre c).length + 1) = .zipDir := by
    simp [phaseAt, program, post_zip c m hz]
  have hcr : crashState c fs ((pre c).length + 1) = zipTorn c fs ms m := by
    rw [crash_after_pre c fs h _ (by omega), post_zip c m hz]
    simp only [Nat.add_sub_cancel_left, List.take_succ_cons, List.take_zero]
    rw [exec_cons_ok _ _ _ _ (run_zipData c fs h m ms hold)]; rfl
  unfold faultState
  rw [hph, hcr]
  simp only [handler, hg, if_true]
  have hd : zipTorn c fs ms m c.tmpdir = some .dir := by
    simp [zipTorn, upd, tmpdir_ne_dest c h.hne, preState_tmpdir c fs]
  rw [exec_cons_ok _ _ _ _ (run_rmtree c _ hd)]
  exact ⟨by simp [exec, not_under_tmpdir_dest c h.hne, zipTorn, readable], fun p hp => by simp [exec, hp]⟩

end zipfault

end CogentModel.AtomicWrite
