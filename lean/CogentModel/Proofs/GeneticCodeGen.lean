import CogentModel.Model.GeneticCodePrims
import CogentModel.Proofs.GeneticCode
/-!
# C12 — the TRANSLATED functions (`Gen/C12Code.lean`, regenerated from the source on every run) equal the hand model

Core Lean only: facts about the Python primitives of `Model/GeneticCodePrims.lean` (dicts as association lists,
slices, `range`, joins) that do not mention the generated definitions; the equations themselves are in `Props/C12Gen.lean`.
-/
namespace CogentModel.GCP
open CogentModel.GC



/-! ## dicts -/

theorem lookupD_append {α β} [DecidableEq α] (a b : List (α × β)) (k : α) (d : β) :
    lookupD (a ++ b) k d = lookupD a k (lookupD b k d) := by
  induction a with
  | nil => rfl
  | cons x r ih => obtain ⟨x1, x2⟩ := x; simp only [List.cons_append, lookupD]; split <;> simp [ih]

theorem lookupD_dictSet {α β} [DecidableEq α] (d : List (α × β)) (k k' : α) (v dflt : β) :
    lookupD (dictSet d k v) k' dflt = if k = k' then v else lookupD d k' dflt := by
  induction d with
  | nil => simp [dictSet, lookupD]
  | cons x r ih =>
    obtain ⟨a, b⟩ := x
    simp only [dictSet]
    by_cases h : a = k
    · subst h; simp only [if_true, lookupD]; split <;> simp_all
    · simp only [h, if_false, lookupD, ih]
      by_cases h2 : a = k'
      · subst h2; simp [Ne.symm h]
      · simp [h2]

theorem lookupD_dictOfZip_aux {α β} [DecidableEq α] (kvs : List (α × β)) (d0 : List (α × β)) (k : α) (dflt : β) :
    lookupD (kvs.foldl (fun d kv => dictSet d kv.1 kv.2) d0) k dflt = lookupD kvs.reverse k (lookupD d0 k dflt) := by
  induction kvs generalizing d0 with
  | nil => rfl
  | cons x r ih =>
    simp only [List.foldl_cons, List.reverse_cons, ih, lookupD_append, lookupD_dictSet]
    obtain ⟨a, b⟩ := x
    simp [lookupD]

/-- `dict(zip(keys, values)).get(k, d)` is "the last pair with that key wins" -/
theorem lookupD_dictOfZip {α β} [DecidableEq α] (kvs : List (α × β)) (k : α) (dflt : β) :
    lookupD (dictOfZip kvs) k dflt = dictGet kvs k dflt := by
  simp [dictOfZip, dictGet, lookupD_dictOfZip_aux, lookupD]

theorem lookupD_map_val {α β γ} [DecidableEq α] (f : β → γ) (l : List (α × β)) (k : α) (d : β) :
    lookupD (l.map fun p => (p.1, f p.2)) k (f d) = f (lookupD l k d) := by
  induction l with
  | nil => rfl
  | cons x r ih => obtain ⟨a, b⟩ := x; simp only [List.map_cons, lookupD]; split <;> simp [ih]

theorem dictGet_zip_map {α β γ} [DecidableEq α] (f : β → γ) (ks : List α) (vs : List β) (k : α) (d : β) :
    dictGet (ks.zip (vs.map f)) k (f d) = f (dictGet (ks.zip vs) k d) := by
  have : ks.zip (vs.map f) = (ks.zip vs).map fun p => (p.1, f p.2) := by
    rw [List.zip_map_right]; rfl
  rw [this, dictGet, dictGet, ← List.map_reverse, lookupD_map_val]

/-! ## `len`, slices, `range` -/

theorem pyLen_eq1 {α} (s : List α) : (pyLen s = (1 : Int)) ↔ s.length = 1 := by unfold pyLen; omega

theorem pyLen_eq3 {α} (s : List α) : (pyLen s = (3 : Int)) ↔ s.length = 3 := by unfold pyLen; omega

theorem pyLen_ne3 {α} (s : List α) : (pyLen s ≠ (3 : Int)) ↔ s.length ≠ 3 := by unfold pyLen; omega

theorem normIdx_nat (n a : Nat) : normIdx n (a : Int) = min a n := by
  unfold normIdx
  have h1 : ¬ ((a:Int) < 0) := by omega
  rw [if_neg h1]
  split <;> omega

theorem normIdx_neg (n d : Nat) (hd : 0 < d) : normIdx n (-(d : Int)) = n - d := by
  unfold normIdx
  have h1 : (-(d:Int) < 0) := by omega
  rw [if_pos h1]
  split <;> omega

theorem drop_min {α} (s : List α) (a : Nat) : s.drop (min a s.length) = s.drop a := by
  by_cases h : a ≤ s.length
  · rw [Nat.min_eq_left h]
  · rw [Nat.min_eq_right (by omega), List.drop_eq_nil_of_le (Nat.le_refl _), List.drop_eq_nil_of_le (by omega)]

/-- `s[a:b]` for non-negative bounds -/
theorem pySlice_nn {α} (s : List α) (a b : Nat) : pySlice s (some (a:Int)) (some (b:Int)) = (s.take b).drop a := by
  unfold pySlice
  simp only [normIdx_nat]
  rw [← List.take_eq_take_min]
  by_cases h : a ≤ s.length
  · rw [Nat.min_eq_left h]
  · rw [Nat.min_eq_right (by omega), List.drop_eq_nil_of_le (by simp; omega), List.drop_eq_nil_of_le (by simp; omega)]

/-- `s[a:]` -/
theorem pySlice_n_ {α} (s : List α) (a : Nat) : pySlice s (some (a:Int)) none = s.drop a := by
  unfold pySlice
  simp only [normIdx_nat, List.take_length, drop_min]

/-- `s[:-d]` -/
theorem pySlice__neg {α} (s : List α) (d : Nat) (hd : 0 < d) : pySlice s none (some (-(d:Int))) = s.take (s.length - d) := by
  unfold pySlice
  simp only [normIdx_neg _ _ hd, List.drop_zero]

/-- `s[-d:]` -/
theorem pySlice_neg_ {α} (s : List α) (d : Nat) (hd : 0 < d) : pySlice s (some (-(d:Int))) none = s.drop (s.length - d) := by
  unfold pySlice
  simp only [normIdx_neg _ _ hd, List.take_length]

theorem key_eq (item : List Char) : pyReplace1 (pyUpper item) 'U' 'T' = oldKey item := by
  simp [pyReplace1, pyUpper, oldKey]

theorem itemStrs_singletons (l : List Char) : itemStrs (l.map fun c => Item.str [c]) = some (l.map fun c => [c]) := by
  induction l with
  | nil => rfl
  | cons x r ih => simp [itemStrs, ih]

theorem pyJoin_singletons (l : List Char) : pyJoin [] (l.map fun c => [c]) = l := by
  induction l with
  | nil => rfl
  | cons x r ih =>
    cases r with
    | nil => rfl
    | cons y t => simp only [List.map_cons, pyJoin] at ih ⊢; simp [ih]

theorem pyJoinItems_singletons (l : List Char) : pyJoinItems [] (l.map fun c => Item.str [c]) = .ok l := by
  simp [pyJoinItems, itemStrs_singletons, pyJoin_singletons]

theorem oldCodons_short (seq : List Char) (d : List Char) (h : d.length < 3) : oldCodons seq d = [] := by
  match d, h with
  | [], _ => rfl
  | [_], _ => rfl
  | [_, _], _ => rfl
  | _ :: _ :: _ :: _, h => simp at h; omega

theorem drop_cons3 {α} (s : List α) (k : Nat) (h : k + 3 ≤ s.length) :
    ∃ a b c, s.drop k = a :: b :: c :: s.drop (k + 3) := by
  have h0 : k < s.length := by omega
  have h1 : k + 1 < s.length := by omega
  have h2 : k + 2 < s.length := by omega
  refine ⟨s[k], s[k+1], s[k+2], ?_⟩
  rw [List.drop_eq_getElem_cons h0, List.drop_eq_getElem_cons h1, List.drop_eq_getElem_cons h2]

theorem liftE_bind {α β} (m : Except Err α) (f : α → Except Err β) :
    liftE (m >>= f) = Except.bind (liftE m) (fun a => liftE (f a)) := by
  cases m <;> rfl

theorem mapM_liftE {α β} (f : α → Except Err β) (l : List α) :
    l.mapM (fun x => liftE (f x)) = liftE (l.mapM f) := by
  induction l with
  | nil => rfl
  | cons x r ih =>
    simp only [List.mapM_cons, ih]
    cases f x <;> simp [liftE, bind, Except.bind]
    cases List.mapM f r <;> simp [liftE, pure, Except.pure]

theorem pyRange3 : pyRange 0 3 1 = [0, 1, 2] := by decide

theorem fmod3 (n : Nat) : Int.fmod (n : Int) 3 = ((n % 3 : Nat) : Int) := by
  rw [Int.fmod_eq_emod_of_nonneg _ (by omega)]; omega

theorem pySlice_m3 {α} (s : List α) : pySlice s (some (-(3 : Int))) none = s.drop (s.length - 3) :=
  pySlice_neg_ s 3 (by omega)

theorem pySlice__m3 {α} (s : List α) : pySlice s none (some (-(3 : Int))) = s.take (s.length - 3) :=
  pySlice__neg s 3 (by omega)

theorem fmod3_zero (n : Nat) : (Int.fmod (n : Int) 3 = 0) ↔ n % 3 = 0 := by rw [fmod3]; omega

theorem gapRuns_none (gap : Char) (s : List Char) (h : gap ∉ s) (b : Bool) : gapRuns gap s b = 0 := by
  induction s generalizing b with
  | nil => rfl
  | cons x r ih =>
    have hx : x ≠ gap := fun e => h (by simp [e])
    have hr : gap ∉ r := fun e => h (by simp [e])
    simp [gapRuns, hx, ih hr]

theorem filter_nogap (gap : Char) (s : List Char) (h : gap ∉ s) : s.filter (fun c => c ≠ gap) = s := by
  rw [List.filter_eq_self]
  intro a ha
  simp
  intro e; exact h (e ▸ ha)

/-- gap-free sequence of the molecular type -/
def GapFree (q : NSeq) : Prop := q.gap ∉ q.chars

/-- successive complete codons of a text -/
def chunks3 : List Char → List (List Char)
  | a :: b :: c :: rest => [a, b, c] :: chunks3 rest
  | _ => []

theorem chunks3_short (d : List Char) (h : d.length < 3) : chunks3 d = [] := by
  match d with
  | [] => rfl
  | [_] => rfl
  | [_, _] => rfl
  | _ :: _ :: _ :: _ => simp at h; omega

theorem pyRange_codons (str : List Char) :
    pyRange (0 : Int) (pyLen str - 2) 3 = pyRangeAux (str.length / 3) ((0 : Nat) : Int) 3 := by
  unfold pyRange pyLen
  rw [if_pos (by omega)]
  congr 1
  omega


end CogentModel.GCP
