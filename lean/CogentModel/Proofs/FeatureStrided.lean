import CogentModel.Proofs.FeatureOnView
/-! C04: features on STRIDED views (|step| ≥ 1, forward and reversed): the feature denotes the shown positions lying in its spans. -/
namespace CogentModel.FeatureView
open CogentModel.View CogentModel.FeatureSpec

def ceilDiv (x k : Int) : Int := if Int.fmod x k = 0 then Int.fdiv x k else Int.fdiv x k + 1

theorem ceilDiv_bounds (x k : Int) (hk : 0 < k) : k * (ceilDiv x k - 1) < x ∧ x ≤ k * ceilDiv x k := by
  have h1 : Int.fdiv x k = x / k := Int.fdiv_eq_ediv_of_nonneg x (by omega)
  have h2 : Int.fmod x k = x % k := Int.fmod_eq_emod_of_nonneg x (by omega)
  have h3 := Int.mul_ediv_add_emod x k
  have h4 := Int.emod_nonneg x (show k ≠ 0 by omega)
  have h5 := Int.emod_lt_of_pos x hk
  unfold ceilDiv
  rw [h1, h2]
  split
  · rename_i h0
    rw [Int.mul_sub, Int.mul_one]; omega
  · rename_i h0
    rw [show x / k + 1 - 1 = x / k by omega, Int.mul_add, Int.mul_one]; omega

theorem ceilDiv_le_iff (x k i : Int) (hk : 0 < k) : ceilDiv x k ≤ i ↔ x ≤ i * k := by
  obtain ⟨h1, h2⟩ := ceilDiv_bounds x k hk
  constructor
  · intro h
    have := Int.mul_le_mul_of_nonneg_left h (show 0 ≤ k by omega)
    rw [Int.mul_comm i k]; omega
  · intro h
    rw [Int.mul_comm i k] at h
    have : k * (ceilDiv x k - 1) < k * i := by omega
    have := Int.lt_of_mul_lt_mul_left this (by omega)
    omega

theorem ceilDiv_mono (x y k : Int) (hk : 0 < k) (h : x ≤ y) : ceilDiv x k ≤ ceilDiv y k := by
  rw [ceilDiv_le_iff x k _ hk]
  have := (ceilDiv_bounds y k hk).2
  rw [Int.mul_comm]; omega

theorem relCoord_fwd (v : View) (hk : 0 < v.step) (hl : 0 < len v) (c : Int) (hc : 0 ≤ c) :
    relCoord v c = .ok (ceilDiv (c - (v.offset + v.start)) v.step) := by
  unfold relCoord relativePosition ceilDiv
  have h1 : ¬ (len v = 0) := by omega
  have h2 : ¬ (c < 0) := by omega
  have h3 : ¬ (v.step < 0) := by omega
  simp only [h1, h2, h3, if_false, Bool.false_eq_true, or_false]
  by_cases h0 : Int.fmod (c - (v.offset + v.start)) v.step = 0 <;> simp [h0, liftErr]

theorem seg_succ (a b : Int) (h : a ≤ b) : seg a (b + 1) = seg a b ++ [b] := by
  unfold seg
  have : (b + 1 - a).toNat = (b - a).toNat + 1 := by omega
  rw [this, List.range_succ, List.map_append]
  simp
  omega

theorem seg_filter_range (a b : Int) (n : Nat) :
    (seg 0 n).filter (fun i => decide (a ≤ i ∧ i < b)) = seg (max a 0) (min b n) := by
  induction n with
  | zero =>
    have : seg 0 ((0 : Nat) : Int) = [] := by simp [seg]
    rw [this, seg_nil _ _ (by omega)]; rfl
  | succ n ih =>
    have hs : seg 0 ((n + 1 : Nat) : Int) = seg 0 (n : Int) ++ [(n : Int)] := by
      rw [show ((n + 1 : Nat) : Int) = (n : Int) + 1 by omega]
      exact seg_succ 0 n (by omega)
    rw [hs, List.filter_append, ih]
    by_cases hc : a ≤ (n : Int) ∧ (n : Int) < b
    · simp only [List.filter_cons, hc, and_self, decide_true, if_true, List.filter_nil]
      rw [show min b ((n + 1 : Nat) : Int) = (n : Int) + 1 by omega, show min b (n : Int) = (n : Int) by omega]
      exact (seg_succ _ _ (by omega)).symm
    · simp only [List.filter_cons, hc, decide_false, Bool.false_eq_true, if_false, List.filter_nil, List.append_nil]
      by_cases hlt : (n : Int) < a
      · rw [seg_nil _ _ (by omega), seg_nil _ _ (by omega)]
      · have : b ≤ (n : Int) := by omega
        rw [show min b ((n + 1 : Nat) : Int) = b by omega, show min b (n : Int) = b by omega]

theorem flatMap_clipped0 (L : Int) (rel : List (Int × Int)) :
    (rel.filterMap (clipped L)).flatMap (fun p => seg p.1 p.2) =
      rel.flatMap (fun sp => seg (max sp.1 0) (min sp.2 L)) := by
  have := flatMap_clipped L 0 rel
  simpa using this

theorem featureOnStridedFwd_spec (v : View) (hk : 0 < v.step) (hl : 0 < len v) (minus : Bool)
    (spans : List (Int × Int)) (hsp : ∀ sp ∈ spans, 0 ≤ sp.1 ∧ sp.1 < sp.2)
    (hsorted : spans.Pairwise (fun a b => a.1 ≤ b.1)) :
    ∃ f, featureOnView v minus spans = .ok f ∧
      slicePositionsAny v f = denoteShown (shownFwd (v.offset + v.start) v.step (len v)) spans minus := by
  let cd : Int → Int := fun c => ceilDiv (c - (v.offset + v.start)) v.step
  have hrelEq : mapExcept (relSpan v) spans = .ok (spans.map (fun sp => (cd sp.1, cd sp.2))) := by
    apply mapExcept_eq_map
    intro sp hx
    have := hsp sp hx
    unfold relSpan
    rw [relCoord_fwd v hk hl sp.1 this.1, relCoord_fwd v hk hl sp.2 (by omega)]
  have hrel1 : ∀ sp ∈ spans.map (fun sp => (cd sp.1, cd sp.2)), sp.1 ≤ sp.2 := by
    intro sp hm
    obtain ⟨x, hx, rfl⟩ := List.mem_map.mp hm
    have := hsp x hx
    exact ceilDiv_mono _ _ _ hk (by omega)
  have hrel2 : (spans.map (fun sp => (cd sp.1, cd sp.2))).Pairwise (fun a b => a.1 ≤ b.1) := by
    rw [List.pairwise_map]
    exact hsorted.imp (fun hab => ceilDiv_mono _ _ _ hk (by omega))
  have e1 : decide (v.step < 0) = false := decide_eq_false (by omega)
  obtain ⟨f, hf, hrev, hreal⟩ := makeFeature_spec (len v) (decide (v.step < 0)) minus _ hl hrel1 hrel2
  refine ⟨f, ?_, ?_⟩
  · unfold featureOnView; rw [hrelEq]; exact hf
  · unfold slicePositionsAny denoteShown shownFwd
    rw [sliceIdx_eq, hreal, hrev, e1]
    simp only [Bool.false_eq_true, if_false]
    rw [flatMap_clipped0, List.flatMap_map]
    have hL : len v = ((len v).toNat : Int) := by omega
    have hvp : viewPosAny v = fun i => (v.offset + v.start) + i * v.step := by
      funext i; unfold viewPosAny; simp [hk]
    have key : ∀ sp : Int × Int,
        (seg (max (cd sp.1) 0) (min (cd sp.2) (len v))).map (viewPosAny v) =
          ((seg 0 (len v)).map (fun i => (v.offset + v.start) + i * v.step)).filter
            (fun p => decide (sp.1 ≤ p ∧ p < sp.2)) := by
      intro sp
      rw [List.filter_map, hvp]
      congr 1
      rw [hL, ← seg_filter_range (cd sp.1) (cd sp.2) (len v).toNat]
      apply List.filter_congr
      intro i _
      simp only [Function.comp, cd]
      have a1 := ceilDiv_le_iff (sp.1 - (v.offset + v.start)) v.step i hk
      have a2 := ceilDiv_le_iff (sp.2 - (v.offset + v.start)) v.step i hk
      rw [decide_eq_decide]
      constructor
      · rintro ⟨h1, h2⟩
        have b1 := a1.mp h1
        have b2 : ¬ (sp.2 - (v.offset + v.start) ≤ i * v.step) := fun h => by have := a2.mpr h; omega
        omega
      · rintro ⟨h1, h2⟩
        have b1 := a1.mpr (by omega)
        have b2 : ¬ (ceilDiv (sp.2 - (v.offset + v.start)) v.step ≤ i) := fun h => by have := a2.mp h; omega
        omega
    simp only [Function.comp, List.map_flatMap, key]
    cases minus <;> simp

theorem fmod_neg_zero_iff (x k : Int) : Int.fmod x (-k) = 0 ↔ Int.fmod x k = 0 := by
  rw [← Int.dvd_iff_fmod_eq_zero, ← Int.dvd_iff_fmod_eq_zero, Int.neg_dvd]

/-- plus-strand exclusive end of the parent segment of a reversed view -/
def revEnd (v : View) : Int := v.seqLen + v.offset + v.start + 1

theorem relCoord_rev (v : View) (hk : v.step < 0) (hl : 0 < len v) (c : Int) (hc : 0 ≤ c) :
    relCoord v c = .ok (len v - ceilDiv (revEnd v - c) (-v.step)) := by
  unfold relCoord relativePosition ceilDiv revEnd
  have h1 : ¬ (len v = 0) := by omega
  have h2 : ¬ (c < 0) := by omega
  have hp : pyabs v.step = -v.step := by unfold pyabs; simp [hk]
  simp only [h1, h2, hk, if_false, if_true, Bool.false_eq_true, or_false, hp]
  have e : v.seqLen - c + v.offset + v.start + 1 = v.seqLen + v.offset + v.start + 1 - c := by omega
  rw [e]
  have hz := fmod_neg_zero_iff (v.seqLen + v.offset + v.start + 1 - c) (-v.step)
  rw [Int.neg_neg] at hz
  by_cases h0 : Int.fmod (v.seqLen + v.offset + v.start + 1 - c) v.step = 0
  · have h0' := hz.mp h0
    simp [h0, h0', liftErr]
  · have h0' : ¬ Int.fmod (v.seqLen + v.offset + v.start + 1 - c) (-v.step) = 0 := fun h => h0 (hz.mpr h)
    simp [h0, h0', liftErr]

/-- plus-strand positions a reversed view shows, in PLUS-strand order -/
def shownRev (v : View) : List Int := ((seg 0 (len v)).map (viewPosAny v)).reverse

theorem mirror_flatMap (L : Int) (A B : Int × Int → Int) (spans : List (Int × Int)) :
    ((((spans.map (fun sp => (L - A sp, L - B sp))).filterMap (clipped L)).map
        (fun p => (L - p.2, L - p.1))).flatMap (fun x => (seg x.1 x.2).reverse)) =
      spans.flatMap (fun sp => (seg (max (B sp) 0) (min (A sp) L)).reverse) := by
  induction spans with
  | nil => rfl
  | cons sp rest ih =>
    simp only [List.map_cons, List.filterMap_cons, List.flatMap_cons]
    by_cases hc : max (L - A sp) 0 < min (L - B sp) L
    · have hcl : clipped L (L - A sp, L - B sp) = some (max (L - A sp) 0, min (L - B sp) L) := by simp [clipped, hc]
      simp only [hcl, List.map_cons, List.flatMap_cons, ih]
      congr 2
      congr 1 <;> omega
    · have hcl : clipped L (L - A sp, L - B sp) = none := by simp [clipped, hc]
      simp only [hcl, ih]
      rw [seg_nil _ _ (by omega)]; rfl

theorem featureOnStridedRev_spec (v : View) (hk : v.step < 0) (hl : 0 < len v) (minus : Bool)
    (spans : List (Int × Int)) (hsp : ∀ sp ∈ spans, 0 ≤ sp.1 ∧ sp.1 < sp.2)
    (hsorted : spans.Pairwise (fun a b => a.1 ≤ b.1)) :
    ∃ f, featureOnView v minus spans = .ok f ∧
      slicePositionsAny v f = denoteShown (shownRev v) spans minus := by
  have hk' : 0 < -v.step := by omega
  let cd : Int → Int := fun c => ceilDiv (revEnd v - c) (-v.step)
  have hrelEq : mapExcept (relSpan v) spans = .ok (spans.map (fun sp => (len v - cd sp.1, len v - cd sp.2))) := by
    apply mapExcept_eq_map
    intro sp hx
    have := hsp sp hx
    unfold relSpan
    rw [relCoord_rev v hk hl sp.1 this.1, relCoord_rev v hk hl sp.2 (by omega)]
  have hrel1 : ∀ sp ∈ spans.map (fun sp => (len v - cd sp.1, len v - cd sp.2)), sp.1 ≤ sp.2 := by
    intro sp hm
    obtain ⟨x, hx, rfl⟩ := List.mem_map.mp hm
    have := hsp x hx
    have := ceilDiv_mono (revEnd v - x.2) (revEnd v - x.1) _ hk' (by omega)
    simp only [cd]; omega
  have hrel2 : (spans.map (fun sp => (len v - cd sp.1, len v - cd sp.2))).Pairwise (fun a b => a.1 ≤ b.1) := by
    rw [List.pairwise_map]
    refine hsorted.imp (fun {a b} hab => ?_)
    have := ceilDiv_mono (revEnd v - b.1) (revEnd v - a.1) _ hk' (by omega)
    simp only [cd]; omega
  have e1 : decide (v.step < 0) = true := decide_eq_true hk
  obtain ⟨f, hf, hrev, hreal⟩ := makeFeature_spec (len v) (decide (v.step < 0)) minus _ hl hrel1 hrel2
  refine ⟨f, ?_, ?_⟩
  · unfold featureOnView; rw [hrelEq]; exact hf
  · unfold slicePositionsAny denoteShown shownRev
    rw [sliceIdx_eq, hreal, hrev, e1]
    simp only [if_true]
    have hL : len v = ((len v).toNat : Int) := by omega
    have hvp : ∀ i, viewPosAny v i = revEnd v - 1 - i * (-v.step) := by
      intro i; unfold viewPosAny revEnd
      have : ¬ (v.step > 0) := by omega
      simp only [this, if_false]
      rw [Int.mul_neg]; omega
    -- one span: the view indices read are exactly those whose shown position lies in the span
    have key : ∀ sp : Int × Int,
        (seg (max (cd sp.2) 0) (min (cd sp.1) (len v))).map (viewPosAny v) =
          ((seg 0 (len v)).map (viewPosAny v)).filter (fun p => decide (sp.1 ≤ p ∧ p < sp.2)) := by
      intro sp
      rw [List.filter_map]
      congr 1
      rw [hL, ← seg_filter_range (cd sp.2) (cd sp.1) (len v).toNat]
      apply List.filter_congr
      intro i _
      simp only [Function.comp, cd, hvp]
      have a1 := ceilDiv_le_iff (revEnd v - sp.1) (-v.step) i hk'
      have a2 := ceilDiv_le_iff (revEnd v - sp.2) (-v.step) i hk'
      rw [decide_eq_decide]
      constructor
      · rintro ⟨h1, h2⟩
        have b2 := a2.mp h1
        have b1 : ¬ (revEnd v - sp.1 ≤ i * (-v.step)) := fun h => by have := a1.mpr h; omega
        omega
      · rintro ⟨h1, h2⟩
        have b2 := a2.mpr (by omega)
        have b1 : ¬ (ceilDiv (revEnd v - sp.1) (-v.step) ≤ i) := fun h => by have := a1.mp h; omega
        omega
    rw [flatMap_reverse, List.map_reverse, mirror_flatMap (len v) (fun sp => cd sp.1) (fun sp => cd sp.2) spans]
    have hmap : (spans.flatMap (fun sp => (seg (max (cd sp.2) 0) (min (cd sp.1) (len v))).reverse)).map (viewPosAny v)
        = (spans.flatMap (fun sp => (((seg 0 (len v)).map (viewPosAny v)).reverse.filter
            (fun p => decide (sp.1 ≤ p ∧ p < sp.2))))) := by
      rw [List.map_flatMap]
      apply flatMap_congr'
      intro sp _
      rw [List.map_reverse, key sp, List.filter_reverse]
    rw [hmap]
    cases minus <;> simp
end CogentModel.FeatureView
