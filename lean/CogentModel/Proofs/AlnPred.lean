import CogentModel.Model.AlnPred
import CogentModel.Proofs.AlnRefine2
/-! Lemmas for the predicate side of `filtered` (C03): the `kept` toggle over motif positions is the
run-length encoding of the expanded column mask, and taking the columns of the expanded mask is the natural
"kept motifs joined" operation on a string. -/
namespace CogentModel.Aln
open CogentModel.IndelMap CogentModel.Gapped List CogentModel

theorem foldl_min_le (xs : List Nat) : ∀ (x : Nat), xs.foldl min x ≤ x ∧ ∀ y ∈ xs, xs.foldl min x ≤ y := by
  induction xs with
  | nil => intro x; simp
  | cons z r ih =>
    intro x
    obtain ⟨i1, i2⟩ := ih (min x z)
    simp only [foldl_cons]
    refine ⟨by omega, ?_⟩
    intro y hy
    rcases mem_cons.mp hy with rfl | hy'
    · omega
    · exact i2 y hy'

/-- every row holds at least `numMotifs` whole motifs -/
theorem numMotifs_le (ml : Nat) (rows : List (List Char)) (s : List Char) (hs : s ∈ rows) :
    ml * numMotifs ml rows ≤ s.length := by
  unfold numMotifs
  cases rows with
  | nil => cases hs
  | cons r0 rest =>
    simp only [map_cons]
    obtain ⟨i1, i2⟩ := foldl_min_le (rest.map fun s => s.length / ml) (r0.length / ml)
    have hb : foldl min (r0.length / ml) (rest.map fun s => s.length / ml) ≤ s.length / ml := by
      rcases mem_cons.mp hs with rfl | h'
      · exact i1
      · exact i2 _ (mem_map.mpr ⟨s, h', rfl⟩)
    calc ml * _ ≤ ml * (s.length / ml) := Nat.mul_le_mul_left _ hb
      _ ≤ s.length := Nat.mul_div_le _ _

theorem verdicts_length (pred : List (List Char) → Bool) (ml : Nat) : ∀ (k : Nat) (rows : List (List Char)),
    (verdicts pred ml k rows).length = k := by
  intro k
  induction k with
  | zero => intro rows; rfl
  | succ k ih => intro rows; simp [verdicts, ih]

/-- the column mask of a list of motif verdicts -/
def expandMask (ml : Nat) (vs : List Bool) : List Bool := vs.flatMap fun v => replicate ml v

theorem maskRuns_replicate_true (r : List Bool) : ∀ (k : Nat) (pos : Int) (start : Option Int), 0 < k →
    maskRuns pos start (replicate k true ++ r) = maskRuns (pos + k) (some (start.getD pos)) r := by
  intro k
  induction k with
  | zero => intro pos start h; omega
  | succ k ih =>
    intro pos start _
    simp only [replicate_succ, cons_append, maskRuns]
    by_cases hk : 0 < k
    · rw [ih (pos + 1) (some (start.getD pos)) hk]
      simp only [Option.getD_some]
      congr 1; push_cast; omega
    · have : k = 0 := by omega
      subst this
      simp

theorem maskRuns_replicate_false (r : List Bool) : ∀ (k : Nat) (pos : Int) (start : Option Int), 0 < k →
    maskRuns pos start (replicate k false ++ r)
      = (match start with | some s => [(s, pos)] | none => []) ++ maskRuns (pos + k) none r := by
  intro k
  induction k with
  | zero => intro pos start h; omega
  | succ k ih =>
    intro pos start _
    simp only [replicate_succ, cons_append, maskRuns]
    by_cases hk : 0 < k
    · rw [ih (pos + 1) none hk]
      simp only [nil_append]
      congr 2; push_cast; omega
    · have : k = 0 := by omega
      subst this
      cases start <;> simp

/-- the `kept` toggle of `Alignment.filtered` over motif positions = run-length blocks of the column mask -/
theorem motifRuns_eq (ml : Nat) (hml : 0 < ml) (vs : List Bool) : ∀ (pos : Nat) (start : Option Int),
    motifRuns ml pos start vs = maskRuns ((pos * ml : Nat) : Int) start (expandMask ml vs) := by
  induction vs with
  | nil => intro pos start; cases start <;> simp [motifRuns, maskRuns, expandMask]
  | cons v r ih =>
    intro pos start
    have e : (((pos + 1) * ml : Nat) : Int) = ((pos * ml : Nat) : Int) + (ml : Int) := by
      push_cast; rw [Int.add_mul]; omega
    cases v with
    | true =>
      simp only [motifRuns, expandMask, flatMap_cons]
      rw [maskRuns_replicate_true _ ml _ _ hml, ih, e]; rfl
    | false =>
      simp only [motifRuns, expandMask, flatMap_cons]
      rw [maskRuns_replicate_false _ ml _ _ hml, ih, e]; rfl

theorem denseFilter_append (xs ys : List Char) (m1 m2 : List Bool) (h : xs.length = m1.length) :
    denseFilter (xs ++ ys) (m1 ++ m2) = denseFilter xs m1 ++ denseFilter ys m2 := by
  unfold denseFilter
  rw [zip_append h, filter_append, map_append]

theorem denseFilter_replicate (xs : List Char) (v : Bool) :
    denseFilter xs (replicate xs.length v) = if v then xs else [] := by
  induction xs with
  | nil => cases v <;> simp [denseFilter]
  | cons c t ih =>
    cases v with
    | true => rw [length_cons, replicate_succ, denseFilter_cons_true, ih]; rfl
    | false => rw [length_cons, replicate_succ, denseFilter_cons_false, ih]; rfl

/-- taking the columns of the expanded mask = joining the kept motifs -/
theorem denseFilter_expand (ml : Nat) (vs : List Bool) : ∀ (s : List Char), ml * vs.length ≤ s.length →
    denseFilter s (expandMask ml vs) = keepMotifs ml vs s := by
  induction vs with
  | nil => intro s _; simp [expandMask, keepMotifs, denseFilter]
  | cons v r ih =>
    intro s hs
    simp only [length_cons, Nat.mul_succ] at hs
    have hl : (s.take ml).length = ml := by rw [length_take]; omega
    have hsplit : s = s.take ml ++ s.drop ml := (take_append_drop ml s).symm
    simp only [expandMask, flatMap_cons, keepMotifs]
    rw [← ih (s.drop ml) (by rw [length_drop]; omega)]
    conv => lhs; rw [hsplit]
    rw [denseFilter_append _ _ _ _ (by rw [hl, length_replicate])]
    congr 1
    have := denseFilter_replicate (s.take ml) v
    rw [hl] at this
    exact this

theorem expandMask_all (ml : Nat) (hml : 0 < ml) (vs : List Bool) :
    (expandMask ml vs).all (! ·) = vs.all (! ·) := by
  induction vs with
  | nil => rfl
  | cons v r ih =>
    simp only [expandMask, flatMap_cons, all_append, all_cons] at ih ⊢
    rw [ih]
    congr 1
    cases v <;> simp [all_replicate]; omega

theorem foldl_max_congr {α β} (f : α → Int) (g : β → Int) : ∀ (xs : List α) (ys : List β) (m : Int),
    xs.map f = ys.map g → xs.foldl (fun m p => max m (f p)) m = ys.foldl (fun m p => max m (g p)) m := by
  intro xs
  induction xs with
  | nil => intro ys m h; cases ys with
    | nil => rfl
    | cons _ _ => simp at h
  | cons x r ih =>
    intro ys m h
    cases ys with
    | nil => simp at h
    | cons y r' =>
      simp only [map_cons, cons.injEq] at h
      simp only [foldl_cons]
      rw [h.1]
      exact ih r' _ h.2

end CogentModel.Aln
