import CogentModel.Model.RulesPrims
/-! # C07 — helper lemmas for Props/C07Gen.lean (nothing here mentions a GENERATED definition)

The loops of the translated python functions are folds of the step functions below; these lemmas relate the folds to
the hand models `Rules.curBounds`, `Rules.meanValue`, `Ctl.updateLoop`. -/
namespace CogentModel.Gen.C07Rules
open CogentModel.Rules CogentModel.Rules.Prim

/-- a `for` loop whose body never throws, breaks or returns is a fold -/
theorem forIn_of_step {α β : Type} {body : α → β → Except String (ForInStep β)} (f : α → β → β)
    (h : ∀ a b, body a b = pure (ForInStep.yield (f a b))) (l : List α) (init : β) :
    forIn l init body = pure (l.foldl (fun b a => f a b) init) := by
  have : body = fun a b => pure (ForInStep.yield (f a b)) := by funext a b; exact h a b
  rw [this]; exact List.forIn_pure_yield_eq_foldl f init

/-- one pass of the loop body of `get_current_bounds` -/
def bStep (self : St) (s : Nat) (acc : PV × PV) : PV × PV :=
  match getBounds self s with
  | (lower, _, upper) =>
    if pyEq upper lower then acc
    else
      ((if acc.1.isNone || pyLt lower acc.1 then lower else acc.1),
       (if acc.2.isNone || pyGt upper acc.2 then upper else acc.2))

/-- the entry `get_current_bounds` takes from one scope element (none: `upper == lower`, skipped) -/
def entry (s : St) (e : Nat) : Option (Rat × Rat) :=
  match s.setting e with
  | .var lo _ hi => if hi = lo then none else some (lo, hi)
  | .const _ => none

def bEntries (s : St) (scope : List Nat) : List (Rat × Rat) := scope.filterMap (entry s)

theorem bStep_entry (self : St) (e : Nat) (acc : PV × PV) :
    bStep self e acc =
      match entry self e with
      | none => acc
      | some (lo, hi) =>
        ((if acc.1.isNone || pyLt (some lo) acc.1 then some lo else acc.1),
         (if acc.2.isNone || pyGt (some hi) acc.2 then some hi else acc.2)) := by
  unfold bStep getBounds entry
  cases hs : self.setting e with
  | const v => simp [pyEq]
  | var lo v hi =>
    by_cases hh : hi = lo
    · simp [pyEq, hh]
    · simp [pyEq, hh]

theorem bStep_some (self : St) (scope : List Nat) : ∀ (a b : Rat),
    scope.foldl (fun acc s => bStep self s acc) (some a, some b) =
      (some ((bEntries self scope).foldl (fun acc x => (min acc.1 x.1, max acc.2 x.2)) (a, b)).1,
       some ((bEntries self scope).foldl (fun acc x => (min acc.1 x.1, max acc.2 x.2)) (a, b)).2) := by
  induction scope with
  | nil => intro a b; simp [bEntries]
  | cons e es ih =>
    intro a b
    simp only [List.foldl_cons, bEntries, List.filterMap_cons]
    rw [bStep_entry]
    cases he : entry self e with
    | none => simp only []; exact ih a b
    | some x =>
      obtain ⟨lo, hi⟩ := x
      have h1 : (if (decide (lo < a)) = true then some lo else some a) = some (min a lo) := by
        by_cases h : lo < a <;> simp [h] <;> grind
      have h2 : (if (decide (b < hi)) = true then some hi else some b) = some (max b hi) := by
        by_cases h : b < hi <;> simp [h] <;> grind
      simp only [Option.isNone_some, Bool.false_or, pyLt, pyGt, h1, h2, List.foldl_cons]
      exact ih (min a lo) (max b hi)

theorem bStep_none (self : St) (scope : List Nat) :
    scope.foldl (fun acc s => bStep self s acc) (none, none) =
      match bEntries self scope with
      | [] => (none, none)
      | x :: rest =>
        (some (rest.foldl (fun acc x => (min acc.1 x.1, max acc.2 x.2)) x).1,
         some (rest.foldl (fun acc x => (min acc.1 x.1, max acc.2 x.2)) x).2) := by
  induction scope with
  | nil => simp [bEntries]
  | cons e es ih =>
    simp only [List.foldl_cons, bEntries, List.filterMap_cons]
    rw [bStep_entry]
    cases he : entry self e with
    | none => simp only []; exact ih
    | some x =>
      obtain ⟨lo, hi⟩ := x
      simp only [Option.isNone_none, Bool.true_or, if_true]
      exact bStep_some self es lo hi

theorem curBounds_entries (d : Defn) (s : St) (scope : List Nat) :
    curBounds d s scope =
      match bEntries s scope with
      | [] => (d.dLo, d.dHi)
      | b :: rest => rest.foldl (fun acc x => (min acc.1 x.1, max acc.2 x.2)) b := rfl

theorem pySum_values (self : St) (scope : List Nat) : ∀ acc : Rat,
    (scope.map (fun s => getDefaultValue self s)).foldl (fun acc v => acc + v.getD 0) acc =
      scope.foldl (fun acc e => acc + (self.setting e).value) acc := by
  induction scope with
  | nil => intro acc; rfl
  | cons e es ih => intro acc; simp only [List.map_cons, List.foldl_cons, getDefaultValue, Option.getD_some]; exact ih _

end CogentModel.Gen.C07Rules

namespace CogentModel.Gen.C07Ctl
open CogentModel.Ctl CogentModel.Gen.C07Rules
variable {V : Type} [Inhabited V]

theorem foldl_changedAdd (cs : List Nat) : ∀ s : St V,
    cs.foldl (fun s c => Prim.changedAdd s c) s = { s with changed := s.changed ++ cs } := by
  induction cs with
  | nil => intro s; simp
  | cons c cs ih => intro s; simp only [List.foldl_cons]; rw [ih]; simp [Prim.changedAdd]

/-- one pass of the body of the `for defn in self.defns` loop -/
def uStep (g : Graph V) (k : Nat) (s : St V) : St V :=
  if s.changed.contains k then
    { updateOne g s k with changed := (updateOne g s k).changed ++ clients g k }
  else s

theorem foldl_uStep (g : Graph V) (ks : List Nat) : ∀ s : St V,
    ks.foldl (fun s k => uStep g k s) s = updateLoop g ks s := by
  induction ks with
  | nil => intro s; rfl
  | cons k ks ih =>
    intro s
    simp only [List.foldl_cons, updateLoop, uStep]
    split <;> exact ih _

/-- one pass of the loop of `update_from_calculator` over (self, changed) -/
def fcStep (g : Graph V) (cv : Nat → V) (k : Nat) (acc : St V × List Nat) : St V × List Nat :=
  if Prim.isLeaf g k then (Prim.defnFromCalc acc.1 k cv, acc.2 ++ [k]) else acc

theorem foldl_fcStep (g : Graph V) (cv : Nat → V) (ks : List Nat) : ∀ (s : St V) (ch : List Nat),
    ks.foldl (fun acc k => fcStep g cv k acc) (s, ch) =
      ({ s with setting := fun j => if ks.contains j && Prim.isLeaf g j then cv j else s.setting j },
       ch ++ ks.filter (fun k => Prim.isLeaf g k)) := by
  induction ks with
  | nil => intro s ch; simp
  | cons k ks ih =>
    intro s ch
    simp only [List.foldl_cons]
    by_cases hl : Prim.isLeaf g k = true
    · have h1 : fcStep g cv k (s, ch) = (Prim.defnFromCalc s k cv, ch ++ [k]) := by simp [fcStep, hl]
      rw [h1, ih]
      simp only [Prim.defnFromCalc, List.filter_cons, hl, if_true, List.append_assoc, List.singleton_append,
        Prod.mk.injEq, and_true]
      congr 1
      funext j
      by_cases hjk : j = k
      · subst hjk; simp [upd, hl]
      · have : (k == j) = false := by simp; exact fun h => hjk h.symm
        simp [upd, hjk, List.contains_cons, this]
    · have h1 : fcStep g cv k (s, ch) = (s, ch) := by simp [fcStep, hl]
      rw [h1, ih]
      have hf : List.filter (fun k => Prim.isLeaf g k) (k :: ks) = List.filter (fun k => Prim.isLeaf g k) ks := by
        simp [List.filter_cons, hl]
      rw [hf]
      congr 2
      funext j
      by_cases hjk : j = k
      · subst hjk; simp [hl]
      · simp [hjk]

end CogentModel.Gen.C07Ctl
