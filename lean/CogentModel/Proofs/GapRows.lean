/-
  C18 / gap merging, part G: rows as functions of gap-length functions; inserting the same number of gap columns at
  the same columns of both rows of a pairwise alignment keeps the alignment.
-/
import CogentModel.Proofs.GapDict
namespace CogentModel.GapMerge

/-- gap length in front of residue `p` as a natural number (what `rowFrom` replicates) -/
def glN (g : Gaps) (p : Nat) : Nat := ((dget g (p : Int)).getD 0).toNat

/-- the row of a gap-length *function* -/
def rowFn (f : Nat → Nat) : Nat → Nat → List (Option Nat)
  | 0, p => List.replicate (f p) none
  | n + 1, p => List.replicate (f p) none ++ some p :: rowFn f n (p + 1)

theorem rowFrom_eq_rowFn (g : Gaps) (n p : Nat) : rowFrom g n p = rowFn (glN g) n p := by
  induction n generalizing p with
  | zero => rfl
  | succ n ih => simp only [rowFrom, rowFn, ih]; rfl

theorem rowFn_congr (f f' : Nat → Nat) (n p : Nat) (h : ∀ i, i ≤ n → f (p + i) = f' (p + i)) :
    rowFn f n p = rowFn f' n p := by
  induction n generalizing p with
  | zero => simp only [rowFn]; rw [show f p = f' p from h 0 (Nat.le_refl _)]
  | succ n ih =>
    simp only [rowFn]
    rw [show f p = f' p from h 0 (by omega),
      ih (p + 1) (fun i hi => by have := h (i + 1) (by omega); rwa [show p + (i + 1) = p + 1 + i by omega] at this)]

/-- insert `k c` gap columns in front of column `c` (columns counted from `c0`), and `k` (end) at the end -/
def padCols (k : Nat → Nat) : Nat → List (Option Nat) → List (Option Nat)
  | c0, [] => List.replicate (k c0) none
  | c0, w :: ws => List.replicate (k c0) none ++ w :: padCols k (c0 + 1) ws

/-- `Σ_{i < cnt} k (c0 + i)` -/
def sumRange (k : Nat → Nat) (c0 : Nat) : Nat → Nat
  | 0 => 0
  | cnt + 1 => k c0 + sumRange k (c0 + 1) cnt

theorem replicate_none_cons (n : Nat) (l : List (Option Nat)) :
    (none : Option Nat) :: (List.replicate n none ++ l) = List.replicate (n + 1) none ++ l := by
  simp [List.replicate_succ]

theorem padCols_replicate (k : Nat → Nat) (c0 a : Nat) (rest : List (Option Nat)) :
    padCols k c0 (List.replicate a none ++ rest) =
      List.replicate (a + sumRange k c0 a) none ++ padCols k (c0 + a) rest := by
  induction a generalizing c0 with
  | zero => simp [sumRange]
  | succ a ih =>
    simp only [List.replicate_succ, List.cons_append, padCols, sumRange]
    rw [ih (c0 + 1)]
    rw [show c0 + 1 + a = c0 + (a + 1) by omega]
    rw [replicate_none_cons, ← List.append_assoc, List.replicate_append_replicate]
    congr 2; omega

theorem sumRange_succ_right (k : Nat → Nat) (c0 cnt : Nat) :
    sumRange k c0 (cnt + 1) = sumRange k c0 cnt + k (c0 + cnt) := by
  induction cnt generalizing c0 with
  | zero => simp [sumRange]
  | succ cnt ih =>
    rw [show sumRange k c0 (cnt + 1 + 1) = k c0 + sumRange k (c0 + 1) (cnt + 1) from rfl, ih (c0 + 1)]
    simp only [sumRange]
    rw [show c0 + 1 + cnt = c0 + (cnt + 1) by omega]; omega

/-- padding a row = the row of the padded gap lengths: the run in front of residue `p+i` (columns
`c_i … c_i + f(p+i)`) absorbs everything inserted at its columns -/
theorem padCols_rowFn (k : Nat → Nat) (f f' : Nat → Nat) (n : Nat) : ∀ (c0 p : Nat) (st : Nat → Nat),
    st 0 = c0 → (∀ i, i < n → st (i + 1) = st i + f (p + i) + 1) →
    (∀ i, i ≤ n → f' (p + i) = f (p + i) + sumRange k (st i) (f (p + i) + 1)) →
    padCols k c0 (rowFn f n p) = rowFn f' n p := by
  induction n with
  | zero =>
    intro c0 p st h0 _ hf
    have := hf 0 (Nat.le_refl _)
    simp only [Nat.add_zero, h0] at this
    simp only [rowFn]
    have e := padCols_replicate k c0 (f p) []
    simp only [List.append_nil, padCols] at e
    rw [e, this, sumRange_succ_right, List.replicate_append_replicate]
    congr 1; omega
  | succ n ih =>
    intro c0 p st h0 hst hf
    have h00 := hf 0 (by omega)
    simp only [Nat.add_zero, h0] at h00
    simp only [rowFn]
    rw [padCols_replicate, padCols]
    have ih' := ih (c0 + f p + 1) (p + 1) (fun i => st (i + 1))
      (by have := hst 0 (by omega); simp only [Nat.add_zero, h0] at this; simpa using this)
      (fun i hi => by have := hst (i + 1) (by omega); rwa [show p + (i + 1) = p + 1 + i by omega] at this)
      (fun i hi => by have := hf (i + 1) (by omega); rwa [show p + (i + 1) = p + 1 + i by omega] at this)
    rw [ih', h00, sumRange_succ_right, ← List.append_assoc, List.replicate_append_replicate]
    congr 2; omega

/-! ### both rows padded alike -/

theorem dropCommon_replicate (a : Nat) (r1 r2 : List (Option Nat)) :
    dropCommon (List.replicate a none ++ r1) (List.replicate a none ++ r2) = dropCommon r1 r2 := by
  induction a with
  | zero => simp
  | succ a ih => simp only [List.replicate_succ, List.cons_append, dropCommon]; simpa using ih

theorem padCols_pair (k : Nat → Nat) (r1 r2 : List (Option Nat)) (hl : r1.length = r2.length) : ∀ c0,
    (padCols k c0 r1).length = (padCols k c0 r2).length ∧
    dropCommon (padCols k c0 r1) (padCols k c0 r2) = dropCommon r1 r2 := by
  induction r1 generalizing r2 with
  | nil =>
    intro c0
    cases r2 with
    | nil =>
      refine ⟨rfl, ?_⟩
      simp only [padCols]
      have := dropCommon_replicate (k c0) [] []
      simpa using this
    | cons b r2 => simp at hl
  | cons a r1 ih =>
    intro c0
    cases r2 with
    | nil => simp at hl
    | cons b r2 =>
      have hl' : r1.length = r2.length := by simpa using hl
      obtain ⟨h1, h2⟩ := ih r2 hl' (c0 + 1)
      refine ⟨by simp [padCols, h1], ?_⟩
      simp only [padCols]
      rw [dropCommon_replicate]
      simp only [dropCommon, h2]

end CogentModel.GapMerge
