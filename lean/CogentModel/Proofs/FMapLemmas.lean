import CogentModel.Model.FMap
/-! # Helper lemmas for the C08 feature-map theorems (`Props/C08FMap.lean`) -/
namespace CogentModel.FMap

instance exceptDecEq {ε α : Type} [DecidableEq ε] [DecidableEq α] : DecidableEq (Except ε α)
  | .ok a, .ok b => if h : a = b then isTrue (by rw [h]) else isFalse (by intro h'; injection h' with h'; exact h h')
  | .error a, .error b => if h : a = b then isTrue (by rw [h]) else isFalse (by intro h'; injection h' with h'; exact h h')
  | .ok _, .error _ => isFalse (by intro h; cases h)
  | .error _, .ok _ => isFalse (by intro h; cases h)

/-- a real span lies inside `[0, pl]` (lost spans carry no coordinates) -/
def FSp.within (pl : Int) : FSp → Prop
  | .span s e _ => 0 ≤ s ∧ s ≤ e ∧ e ≤ pl
  | .lost _ => True

/-- every real span has `0 ≤ s ≤ e ≤ parentLength` -/
def Within (m : FM) : Prop := ∀ sp ∈ m.spans, sp.within m.parentLength

instance (pl : Int) (sp : FSp) : Decidable (sp.within pl) := by
  cases sp <;> unfold FSp.within <;> infer_instance
instance (m : FM) : Decidable (Within m) := by unfold Within; infer_instance

theorem spansFromLocs_within (pl : Int) : ∀ (locs : List (Int × Int)) (sp : List FSp),
    spansFromLocs pl locs = .ok sp → ∀ x ∈ sp, x.within pl
  | [], sp, h => by
    simp [spansFromLocs] at h; subst h; simp
  | (s, e) :: r, sp, h => by
    unfold spansFromLocs at h
    split at h
    · cases h
    · split at h
      · cases h
      · split at h
        · cases h
        · rename_i rest hr
          have ih := spansFromLocs_within pl r rest hr
          split at h
          · injection h with h; subst h
            intro x hx
            simp only [List.mem_cons] at hx
            rcases hx with rfl | rfl | hx
            · simp only [FSp.within]; omega
            · trivial
            · exact ih x hx
          · injection h with h; subst h
            intro x hx
            simp only [List.mem_cons] at hx
            rcases hx with rfl | hx
            · simp only [FSp.within]; omega
            · exact ih x hx

theorem spansFromLocations_within (locs : List (Int × Int)) (pl : Int) (sp : List FSp)
    (h : spansFromLocations locs pl = .ok sp) : ∀ x ∈ sp, x.within pl := by
  unfold spansFromLocations at h
  split at h
  · split at h
    · cases h
    · exact spansFromLocs_within pl _ sp h
  · injection h with h; subst h; simp

theorem fromLocations_within (locs : List (Int × Int)) (pl : Int) (m : FM)
    (h : fromLocations locs pl = .ok m) : Within m ∧ m.parentLength = pl := by
  unfold fromLocations at h
  split at h
  · cases h
  · rename_i sp hs
    injection h with h; subst h
    exact ⟨spansFromLocations_within locs pl sp hs, rfl⟩

theorem covered_within (m c : FM) (h : covered m = .ok c) : Within c ∧ c.parentLength = m.parentLength := by
  unfold covered at h
  simp only at h
  split at h
  · cases h
  · exact fromLocations_within _ _ _ h

theorem gaps_within (m g : FM) (h : gaps m = .ok g) : Within g ∧ g.parentLength = len m :=
  fromLocations_within _ _ _ h

theorem nucleicReversed_go_within (m : FM) : ∀ (l : List FSp) (sp : List FSp),
    (∀ x ∈ l, x.within m.parentLength) → nucleicReversed.go m l = .ok sp → ∀ x ∈ sp, x.within m.parentLength
  | [], sp, _, h => by
    simp [nucleicReversed.go] at h; subst h; simp
  | .lost n :: r, sp, hw, h => by
    simp only [nucleicReversed.go] at h
    cases hr : nucleicReversed.go m r with
    | error e => rw [hr] at h; cases h
    | ok rest =>
      rw [hr] at h
      injection h with h; subst h
      have ih := nucleicReversed_go_within m r rest (fun x hx => hw x (List.mem_cons_of_mem _ hx)) hr
      intro x hx
      simp only [List.mem_cons] at hx
      rcases hx with rfl | hx
      · trivial
      · exact ih x hx
  | .span s e rv :: r, sp, hw, h => by
    simp only [nucleicReversed.go] at h
    split at h
    · cases h
    · cases hr : nucleicReversed.go m r with
      | error e => rw [hr] at h; cases h
      | ok rest =>
        rw [hr] at h
        injection h with h; subst h
        have ih := nucleicReversed_go_within m r rest (fun x hx => hw x (List.mem_cons_of_mem _ hx)) hr
        have h0 := hw (.span s e rv) (List.mem_cons_self)
        simp only [FSp.within] at h0
        intro x hx
        simp only [List.mem_cons] at hx
        rcases hx with rfl | hx
        · unfold mkSpan; split <;> simp only [FSp.within] <;> omega
        · exact ih x hx

theorem nucleicReversed_within (m r : FM) (hw : Within m) (h : nucleicReversed m = .ok r) :
    Within r ∧ r.parentLength = m.parentLength := by
  unfold nucleicReversed at h
  split at h
  · cases h
  · rename_i sp hs
    injection h with h; subst h
    refine ⟨?_, rfl⟩
    intro x hx
    simp only [List.mem_reverse] at hx
    exact nucleicReversed_go_within m m.spans sp hw hs x hx


/-! ### nucleic_reversed -/

def FSp.fwd : FSp → Prop
  | .span _ _ rv => rv = false
  | .lost _ => True
def Fwd (m : FM) : Prop := ∀ sp ∈ m.spans, sp.fwd
instance (sp : FSp) : Decidable sp.fwd := by cases sp <;> unfold FSp.fwd <;> infer_instance
instance (m : FM) : Decidable (Fwd m) := by unfold Fwd; infer_instance

/-- the parent-coordinate flip of `nucleic_reversed` -/
def flip (pl : Int) : Option Int → Option Int := Option.map (fun p => pl - 1 - p)

theorem coverSp_flip (pl s e : Int) (h : s ≤ e) :
    coverSp (mkSpan (pl - e) (pl - e + (e - s)) false) = (coverSp (.span s e false)).reverse.map (flip pl) := by
  have : mkSpan (pl - e) (pl - e + (e - s)) false = .span (pl - e) (pl - e + (e - s)) false := by
    unfold mkSpan; split
    · omega
    · rfl
  rw [this]
  simp only [coverSp, Bool.false_eq_true, if_false]
  apply List.ext_getElem
  · simp; omega
  · intro i h1 h2
    simp at h1 h2
    simp [flip, List.getElem_reverse]
    omega

theorem foldl_add_shift (l : List Int) (a : Int) : l.foldl (· + ·) a = a + l.foldl (· + ·) 0 := by
  induction l generalizing a with
  | nil => simp
  | cons x xs ih => simp only [List.foldl_cons]; rw [ih (a + x), ih (0 + x)]; omega

/-- total length of a list of spans -/
def lenL (l : List FSp) : Int := (l.map FSp.length).foldl (· + ·) 0

theorem len_eq_lenL (m : FM) : len m = lenL m.spans := rfl
@[simp] theorem lenL_nil : lenL [] = 0 := rfl
@[simp] theorem lenL_cons (x : FSp) (l : List FSp) : lenL (x :: l) = x.length + lenL l := by
  simp only [lenL, List.map_cons, List.foldl_cons]; rw [foldl_add_shift]; omega
@[simp] theorem lenL_append (a b : List FSp) : lenL (a ++ b) = lenL a + lenL b := by
  induction a with
  | nil => simp
  | cons x xs ih => simp [ih]; omega
@[simp] theorem lenL_reverse (a : List FSp) : lenL a.reverse = lenL a := by
  induction a with
  | nil => simp
  | cons x xs ih => simp [ih]; omega

theorem go_rev_spec (m : FM) : ∀ (l sp : List FSp),
    (∀ x ∈ l, x.within m.parentLength) → (∀ x ∈ l, x.fwd) → nucleicReversed.go m l = .ok sp →
    sp.reverse.flatMap coverSp = ((l.flatMap coverSp).reverse).map (flip m.parentLength) ∧ lenL sp = lenL l
  | [], sp, _, _, h => by
    simp [nucleicReversed.go] at h; subst h; simp
  | .lost n :: r, sp, hw, hf, h => by
    simp only [nucleicReversed.go] at h
    cases hr : nucleicReversed.go m r with
    | error e => rw [hr] at h; cases h
    | ok rest =>
      rw [hr] at h
      injection h with h; subst h
      have ih := go_rev_spec m r rest (fun x hx => hw x (List.mem_cons_of_mem _ hx))
        (fun x hx => hf x (List.mem_cons_of_mem _ hx)) hr
      simp [ih.1, ih.2, coverSp, flip]
  | .span s e rv :: r, sp, hw, hf, h => by
    simp only [nucleicReversed.go] at h
    split at h
    · cases h
    · cases hr : nucleicReversed.go m r with
      | error e => rw [hr] at h; cases h
      | ok rest =>
        rw [hr] at h
        injection h with h; subst h
        have ih := go_rev_spec m r rest (fun x hx => hw x (List.mem_cons_of_mem _ hx))
          (fun x hx => hf x (List.mem_cons_of_mem _ hx)) hr
        have h0 := hw (.span s e rv) (List.mem_cons_self)
        have h1 : rv = false := hf (.span s e rv) (List.mem_cons_self)
        subst h1
        simp only [FSp.within] at h0
        constructor
        · simp only [List.reverse_cons, List.flatMap_append, List.flatMap_cons, List.flatMap_nil,
            List.append_nil, List.reverse_append, List.map_append, ih.1, coverSp_flip _ _ _ h0.2.1]
        · simp only [lenL_cons, ih.2]
          unfold mkSpan; split <;> simp only [FSp.length] <;> omega


/-! ### nucleic_reversed is total and involutive on within/forward maps -/
/-- one span of `nucleic_reversed` -/
def revSp (pl : Int) : FSp → FSp
  | .lost n => .lost n
  | .span s e _ => mkSpan (pl - e) (pl - e + (e - s)) false

theorem go_rev_total (m : FM) : ∀ (l : List FSp),
    (∀ x ∈ l, x.within m.parentLength) → nucleicReversed.go m l = .ok (l.map (revSp m.parentLength))
  | [], _ => by simp [nucleicReversed.go]
  | .lost n :: r, hw => by
    simp only [nucleicReversed.go]
    rw [go_rev_total m r (fun x hx => hw x (List.mem_cons_of_mem _ hx))]
    rfl
  | .span s e rv :: r, hw => by
    simp only [nucleicReversed.go]
    have h0 := hw (.span s e rv) (List.mem_cons_self)
    simp only [FSp.within] at h0
    rw [if_neg (by omega)]
    rw [go_rev_total m r (fun x hx => hw x (List.mem_cons_of_mem _ hx))]
    rfl

theorem nucleicReversed_total (m : FM) (hw : Within m) :
    nucleicReversed m = .ok ⟨(m.spans.map (revSp m.parentLength)).reverse, m.parentLength⟩ := by
  unfold nucleicReversed
  rw [go_rev_total m m.spans hw]

theorem revSp_revSp (pl : Int) (x : FSp) (hw : x.within pl) (hf : x.fwd) : revSp pl (revSp pl x) = x := by
  cases x with
  | lost n => rfl
  | span s e rv =>
    simp only [FSp.within] at hw
    simp only [FSp.fwd] at hf
    subst hf
    simp only [revSp]
    unfold mkSpan
    rw [if_neg (by omega)]
    simp only []
    rw [if_neg (by omega)]
    congr 1 <;> omega

theorem nucleicReversed_involutive' (m r : FM) (hw : Within m) (hf : Fwd m) (h : nucleicReversed m = .ok r) :
    nucleicReversed r = .ok m := by
  have hwr := (nucleicReversed_within m r hw h)
  rw [nucleicReversed_total r hwr.1]
  rw [nucleicReversed_total m hw] at h
  injection h with h; subst h
  simp only [List.map_reverse, List.reverse_reverse, List.map_map]
  congr 1
  cases m with
  | mk spans pl =>
    simp only [FM.mk.injEq, and_true]
    simp only [Within] at hw
    simp only [Fwd] at hf
    conv => rhs; rw [← List.map_id spans]
    apply List.map_congr_left
    intro x hx
    exact revSp_revSp pl x (hw x hx) (hf x hx)

/-! ### offsets / bisect: locating the span that contains a map position -/

/-- all span lengths are non-negative -/
def NonNegL (l : List FSp) : Prop := ∀ x ∈ l, 0 ≤ x.length
def NonNeg (m : FM) : Prop := NonNegL m.spans
instance (l : List FSp) : Decidable (NonNegL l) := by unfold NonNegL; infer_instance
instance (m : FM) : Decidable (NonNeg m) := by unfold NonNeg; infer_instance

theorem NonNegL.tail {x : FSp} {l : List FSp} (h : NonNegL (x :: l)) : NonNegL l :=
  fun y hy => h y (List.mem_cons_of_mem _ hy)
theorem NonNegL.head {x : FSp} {l : List FSp} (h : NonNegL (x :: l)) : 0 ≤ x.length :=
  h x List.mem_cons_self
theorem lenL_nonneg {l : List FSp} (h : NonNegL l) : 0 ≤ lenL l := by
  induction l with
  | nil => simp
  | cons x xs ih => have := h.head; have := ih h.tail; simp; omega
theorem NonNegL.take {l : List FSp} (h : NonNegL l) (k : Nat) : NonNegL (l.take k) :=
  fun y hy => h y (List.mem_of_mem_take hy)
theorem NonNegL.drop {l : List FSp} (h : NonNegL l) (k : Nat) : NonNegL (l.drop k) :=
  fun y hy => h y (List.mem_of_mem_drop hy)

/-- cover of a list of spans -/
def coverL (l : List FSp) : List (Option Int) := l.flatMap coverSp
theorem cover_eq_coverL (m : FM) : cover m = coverL m.spans := rfl
@[simp] theorem coverL_nil : coverL [] = [] := rfl
@[simp] theorem coverL_cons (x : FSp) (l : List FSp) : coverL (x :: l) = coverSp x ++ coverL l := by
  simp [coverL]
@[simp] theorem coverL_append (a b : List FSp) : coverL (a ++ b) = coverL a ++ coverL b := by
  simp [coverL]

@[simp] theorem coverSp_length (x : FSp) : (coverSp x).length = x.length.toNat := by
  cases x with
  | lost n => simp [coverSp, FSp.length]
  | span s e rv => simp only [coverSp]; split <;> simp [FSp.length]

theorem coverL_length {l : List FSp} (h : NonNegL l) : ((coverL l).length : Int) = lenL l := by
  induction l with
  | nil => simp
  | cons x xs ih =>
    have := h.head; have := ih h.tail
    simp; omega

theorem offsetsFrom_length (pos : Int) (l : List FSp) : (offsetsFrom pos l).length = l.length := by
  induction l generalizing pos with
  | nil => rfl
  | cons x xs ih => simp [offsetsFrom, ih]

theorem offsetsFrom_drop (pos : Int) (l : List FSp) (k : Nat) :
    (offsetsFrom pos l).drop k = offsetsFrom (pos + lenL (l.take k)) (l.drop k) := by
  induction l generalizing pos k with
  | nil => simp [offsetsFrom]
  | cons x xs ih =>
    cases k with
    | zero => simp
    | succ k => simp only [offsetsFrom, List.drop_succ_cons, List.take_succ_cons, lenL_cons]; rw [ih]; congr 1; omega

theorem offsetsFrom_getD (pos : Int) (l : List FSp) (k : Nat) (hk : k < l.length) :
    (offsetsFrom pos l).getD k 0 = pos + lenL (l.take k) := by
  induction l generalizing pos k with
  | nil => simp at hk
  | cons x xs ih =>
    cases k with
    | zero => simp [offsetsFrom]
    | succ k =>
      simp only [offsetsFrom, List.take_succ_cons, lenL_cons]
      simp only [List.length_cons] at hk
      have := ih (pos + x.length) k (by omega)
      simp only [List.getD_cons_succ]
      rw [this]; omega

/-- `bisect_right(offsets, z) - 1` is the index of the span containing map position `z` -/
theorem bisectRight_spec (l : List FSp) (h : NonNegL l) (pos z : Int) (hz : pos ≤ z) (hne : l ≠ []) :
    1 ≤ bisectRight (offsetsFrom pos l) z ∧ bisectRight (offsetsFrom pos l) z ≤ l.length ∧
    pos + lenL (l.take (bisectRight (offsetsFrom pos l) z - 1)) ≤ z ∧
    (bisectRight (offsetsFrom pos l) z < l.length →
      z < pos + lenL (l.take (bisectRight (offsetsFrom pos l) z))) := by
  induction l generalizing pos with
  | nil => exact absurd rfl hne
  | cons x xs ih =>
    simp only [offsetsFrom, bisectRight, if_pos hz]
    cases xs with
    | nil => simp [offsetsFrom, bisectRight]; omega
    | cons y ys =>
      by_cases hy : pos + x.length ≤ z
      · have := ih h.tail (pos + x.length) hy (by simp)
        obtain ⟨h1, h2, h3, h4⟩ := this
        refine ⟨by omega, by simp only [List.length_cons] at h2 ⊢; omega, ?_, ?_⟩
        · generalize bisectRight (offsetsFrom (pos + x.length) (y :: ys)) z = k at *
          obtain ⟨k, rfl⟩ : ∃ k', k = k' + 1 := ⟨k - 1, by omega⟩
          simp only [Nat.add_sub_cancel, List.take_succ_cons, lenL_cons] at h3 ⊢
          omega
        · intro hlt
          simp only [List.length_cons] at hlt h4
          have := h4 (by omega)
          simp only [List.take_succ_cons, lenL_cons]
          omega
      · simp only [offsetsFrom, bisectRight, if_neg hy]
        simp
        omega

/-- `bisect_left(offsets, z)` = number of spans starting strictly before map position `z` -/
theorem bisectLeft_spec (l : List FSp) (h : NonNegL l) (pos z : Int) :
    bisectLeft (offsetsFrom pos l) z ≤ l.length ∧
    (1 ≤ bisectLeft (offsetsFrom pos l) z → pos + lenL (l.take (bisectLeft (offsetsFrom pos l) z - 1)) < z) ∧
    (bisectLeft (offsetsFrom pos l) z < l.length →
      z ≤ pos + lenL (l.take (bisectLeft (offsetsFrom pos l) z))) := by
  induction l generalizing pos with
  | nil => simp [offsetsFrom, bisectLeft]
  | cons x xs ih =>
    simp only [offsetsFrom, bisectLeft]
    by_cases hz : pos < z
    · simp only [if_pos hz]
      obtain ⟨h1, h2, h3⟩ := ih h.tail (pos + x.length)
      generalize bisectLeft (offsetsFrom (pos + x.length) xs) z = k at *
      refine ⟨by simp; omega, ?_, ?_⟩
      · intro _
        cases k with
        | zero => simp; omega
        | succ k =>
          have := h2 (by omega)
          simp only [Nat.add_sub_cancel, List.take_succ_cons, lenL_cons] at this ⊢
          omega
      · intro hlt
        simp only [List.length_cons] at hlt
        have := h3 (by omega)
        simp only [List.take_succ_cons, lenL_cons]
        omega
    · simp only [if_neg hz]
      simp; omega


/-! ### Span.__getitem__ with in-range bounds -/

theorem normIndex_id (i L : Int) (h0 : 0 ≤ i) (h1 : i ≤ L) : normIndex i L = i := by
  unfold normIndex; simp only []; split <;> omega

theorem spanSlice_none_left (x : FSp) (ob : Option Int) (hL : 0 ≤ x.length) :
    spanSlice x none ob = spanSlice x (some 0) ob := by
  unfold spanSlice; simp only [normIndex_id 0 x.length (by omega) hL]

theorem spanSlice_none_right (x : FSp) (oa : Option Int) (hL : 0 ≤ x.length) :
    spanSlice x oa none = spanSlice x oa (some x.length) := by
  unfold spanSlice; simp only [normIndex_id x.length x.length hL (by omega)]

/-- `span[a:b]` for `0 ≤ a ≤ b ≤ len(span)` cuts positions `a..b-1` out of the span's cover -/
theorem spanSlice_spec (x : FSp) (a b : Int) (h0 : 0 ≤ a) (h1 : a ≤ b) (h2 : b ≤ x.length) :
    ∃ y, spanSlice x (some a) (some b) = .ok y ∧ y.length = b - a ∧
      coverSp y = ((coverSp x).drop a.toNat).take (b - a).toNat := by
  unfold spanSlice
  simp only [normIndex_id a x.length h0 (by omega), normIndex_id b x.length (by omega) h2]
  cases x with
  | lost n =>
    simp only [FSp.length] at h2
    refine ⟨_, rfl, ?_, ?_⟩
    · simp only [FSp.length]; split <;> omega
    · rw [if_neg (by omega)]
      simp only [coverSp, List.drop_replicate, List.take_replicate]
      congr 1; omega
  | span s e rv =>
    simp only [FSp.length] at h2
    simp only []
    rw [if_neg (by omega)]
    cases rv with
    | false =>
      simp only [Bool.false_eq_true, if_false]
      refine ⟨_, rfl, ?_, ?_⟩
      · unfold mkSpan; split <;> simp only [FSp.length] <;> omega
      · have : mkSpan (s + a) (s + b) false = .span (s + a) (s + b) false := by
          unfold mkSpan; rw [if_neg (by omega)]
        rw [this]
        simp only [coverSp, Bool.false_eq_true, if_false]
        apply List.ext_getElem
        · simp; omega
        · intro i h1 h2
          simp at h1 h2
          simp
          omega
    | true =>
      simp only [if_true]
      refine ⟨_, rfl, ?_, ?_⟩
      · unfold mkSpan; split <;> simp only [FSp.length] <;> omega
      · have : mkSpan (e - b) (e - a) true = .span (e - b) (e - a) true := by
          unfold mkSpan; rw [if_neg (by omega)]
        rw [this]
        simp only [coverSp, if_true]
        apply List.ext_getElem
        · simp; omega
        · intro i h1 h2
          simp at h1 h2
          simp [List.getElem_reverse]
          omega


/-! ### the trimming steps of Span.remap_with -/

/-- the `end_trim` step of `remap_with` -/
def trimEnd (result : List FSp) (endTrim : Int) : Except FErr (List FSp) :=
  if endTrim > 0 then
    match result.getLast? with
    | some x => (spanSlice x none (some (x.length - endTrim))).map (setLast result ·)
    | none => .ok result
  else .ok result

/-- the `start_trim` step of `remap_with` -/
def trimStart (r1 : List FSp) (startTrim : Int) : Except FErr (List FSp) :=
  if startTrim > 0 then
    match r1 with
    | x :: rest => (spanSlice x (some startTrim) none).map (· :: rest)
    | [] => .ok []
  else .ok r1

def trimBoth (result : List FSp) (endTrim startTrim : Int) : Except FErr (List FSp) :=
  match trimEnd result endTrim with
  | .error er => .error er
  | .ok r1 => trimStart r1 startTrim

/-- `remapSpan`, restated with the trimming steps named -/
theorem remapSpan_eq (s e : Int) (rev : Bool) (m : FM) :
    remapSpan s e rev m =
      match (offsets m).getLast?, m.spans.getLast? with
      | some lo, some ls =>
        let mapLength := lo + ls.length
        let zlo := max 0 s
        let zhi := min mapLength e
        let first : Int := (bisectRight (offsets m) zlo : Int) - 1
        if first < 0 then .error .valueError else
        let firstN := first.toNat
        let last : Int := (bisectLeft ((offsets m).drop firstN) zhi + firstN : Nat) - 1
        let result := (m.spans.take (last + 1).toNat).drop firstN
        let trimmed : Except FErr (List FSp) :=
          match result with
          | [] => .ok []
          | _ => trimBoth result
              ((offsets m).getD last.toNat 0 + (m.spans.getD last.toNat (.lost 0)).length - zhi)
              (zlo - (offsets m).getD firstN 0)
        match trimmed with
        | .error er => .error er
        | .ok res =>
          let res := if s < 0 then FSp.lost (-s) :: res else res
          let res := if e > mapLength then res ++ [FSp.lost (e - mapLength)] else res
          .ok (if rev then (res.map FSp.reversed).reverse else res)
      | _, _ => .error .indexError := by
  rfl

theorem trimEnd_spec (init : List FSp) (y : FSp) (et : Int) (h0 : 0 ≤ et) (h1 : et ≤ y.length) :
    ∃ y', trimEnd (init ++ [y]) et = .ok (init ++ [y']) ∧ y'.length = y.length - et ∧
      coverSp y' = (coverSp y).take (y.length - et).toNat := by
  unfold trimEnd
  by_cases h : et > 0
  · rw [if_pos h, List.getLast?_concat]
    simp only []
    rw [spanSlice_none_left _ _ (by omega)]
    obtain ⟨y', hy, hl, hc⟩ := spanSlice_spec y 0 (y.length - et) (by omega) (by omega) (by omega)
    refine ⟨y', ?_, by omega, by simpa using hc⟩
    rw [hy]; simp [Except.map, setLast]
  · rw [if_neg h]
    have : et = 0 := by omega
    subst this
    refine ⟨y, rfl, by omega, ?_⟩
    simp only [Int.sub_zero]
    exact (List.take_of_length_le (by simp)).symm

theorem trimStart_spec (x : FSp) (rest : List FSp) (st : Int) (h0 : 0 ≤ st) (h1 : st ≤ x.length) :
    ∃ x', trimStart (x :: rest) st = .ok (x' :: rest) ∧ x'.length = x.length - st ∧
      coverSp x' = (coverSp x).drop st.toNat := by
  unfold trimStart
  by_cases h : st > 0
  · rw [if_pos h]
    simp only []
    rw [spanSlice_none_right _ _ (by omega)]
    obtain ⟨x', hx, hl, hc⟩ := spanSlice_spec x st x.length (by omega) (by omega) (by omega)
    refine ⟨x', ?_, by omega, ?_⟩
    · rw [hx]; simp [Except.map]
    · rw [hc]; apply List.take_of_length_le; simp; omega
  · rw [if_neg h]
    have : st = 0 := by omega
    subst this
    exact ⟨x, rfl, by omega, by simp⟩


/-- both trims together: what is left is positions `st .. len - et - 1` of the cover -/
theorem trimBoth_spec (R : List FSp) (hR : NonNegL R) (x y : FSp) (hx : R.head? = some x) (hy : R.getLast? = some y)
    (et st : Int) (h0 : 0 ≤ et) (h1 : 0 ≤ st) (hx1 : st ≤ x.length) (hy1 : et ≤ y.length)
    (hs : st + et ≤ lenL R) :
    ∃ parts, trimBoth R et st = .ok parts ∧
      coverL parts = ((coverL R).take (lenL R - et).toNat).drop st.toNat := by
  rcases List.eq_nil_or_concat R with rfl | ⟨init, y0, rfl⟩
  · simp at hx
  simp only [List.concat_eq_append] at *
  rw [List.getLast?_concat] at hy
  injection hy with hy; subst hy
  obtain ⟨y', hte, hyl, hyc⟩ := trimEnd_spec init y0 et h0 hy1
  unfold trimBoth
  rw [hte]
  simp only []
  have hinit : NonNegL init := fun z hz => hR z (List.mem_append_left _ hz)
  have hy0 : 0 ≤ y0.length := hR y0 (by simp)
  have hil := coverL_length hinit
  have hil0 := lenL_nonneg hinit
  cases init with
  | nil =>
    simp only [List.nil_append, List.head?_cons] at hx
    injection hx with hx; subst hx
    simp only [List.nil_append, lenL_cons, lenL_nil] at hs ⊢
    obtain ⟨x', hts, hxl, hxc⟩ := trimStart_spec y' [] st h1 (by omega)
    refine ⟨_, hts, ?_⟩
    simp only [coverL_cons, coverL_nil, List.append_nil, hxc, hyc]
    congr 3; omega
  | cons x0 init' =>
    simp only [List.cons_append, List.head?_cons] at hx
    injection hx with hx; subst hx
    obtain ⟨x', hts, hxl, hxc⟩ := trimStart_spec x0 (init' ++ [y']) st h1 hx1
    refine ⟨_, hts, ?_⟩
    have hx0 : 0 ≤ x0.length := hR x0 (by simp)
    have hi' : NonNegL init' := hinit.tail
    have hil' := coverL_length hi'
    have hil0' := lenL_nonneg hi'
    simp only [List.cons_append, coverL_cons, coverL_append, coverL_nil, List.append_nil, hxc, hyc,
      lenL_cons, lenL_append, lenL_nil]
    have e1 : (x0.length + (lenL init' + (y0.length + 0)) - et).toNat
        = (coverSp x0 ++ coverL init').length + (y0.length - et).toNat := by
      simp only [List.length_append, coverSp_length]; omega
    rw [← List.append_assoc (coverSp x0), e1, List.take_length_add_append]
    rw [List.append_assoc, List.drop_append_of_le_length (by simp; omega)]

end CogentModel.FMap
