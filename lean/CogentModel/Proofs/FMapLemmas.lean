import CogentModel.Model.FMap
/-! # Helper lemmas for the C08 feature-map theorems (`Props/C08FMap.lean`) -/
namespace CogentModel.FMap

instance exceptDecEq {ε α : Type} [DecidableEq ε] [DecidableEq α] : DecidableEq (Except ε α)
  | .ok a, .ok b => if h : a = b then isTrue (by rw [h]) else isFalse (by intro h'; injection h' with h'; exact h h')
  | .error a, .error b => if h : a = b then isTrue (by rw [h]) else isFalse (by intro h'; injection h' with h'; exact h h')
  | .ok _, .error _ => isFalse (by intro h; cases h)
  | .error _, .ok _ => isFalse (by intro h; cases h)

/-- a real span lies inside `[0, pl]` (lost spans carry no coordinates) -/
def FSp.within (pl : Int) : FSp → Prop
  | .span s e _ => 0 ≤ s ∧ s ≤ e ∧ e ≤ pl
  | .lost _ => True

/-- every real span has `0 ≤ s ≤ e ≤ parentLength` -/
def Within (m : FM) : Prop := ∀ sp ∈ m.spans, sp.within m.parentLength

instance (pl : Int) (sp : FSp) : Decidable (sp.within pl) := by
  cases sp <;> unfold FSp.within <;> infer_instance
instance (m : FM) : Decidable (Within m) := by unfold Within; infer_instance

theorem spansFromLocs_within (pl : Int) : ∀ (locs : List (Int × Int)) (sp : List FSp),
    spansFromLocs pl locs = .ok sp → ∀ x ∈ sp, x.within pl
  | [], sp, h => by
    simp [spansFromLocs] at h; subst h; simp
  | (s, e) :: r, sp, h => by
    unfold spansFromLocs at h
    split at h
    · cases h
    · split at h
      · cases h
      · split at h
        · cases h
        · rename_i rest hr
          have ih := spansFromLocs_within pl r rest hr
          split at h
          · injection h with h; subst h
            intro x hx
            simp only [List.mem_cons] at hx
            rcases hx with rfl | rfl | hx
            · simp only [FSp.within]; omega
            · trivial
            · exact ih x hx
          · injection h with h; subst h
            intro x hx
            simp only [List.mem_cons] at hx
            rcases hx with rfl | hx
            · simp only [FSp.within]; omega
            · exact ih x hx

theorem spansFromLocations_within (locs : List (Int × Int)) (pl : Int) (sp : List FSp)
    (h : spansFromLocations locs pl = .ok sp) : ∀ x ∈ sp, x.within pl := by
  unfold spansFromLocations at h
  split at h
  · split at h
    · cases h
    · exact spansFromLocs_within pl _ sp h
  · injection h with h; subst h; simp

theorem fromLocations_within (locs : List (Int × Int)) (pl : Int) (m : FM)
    (h : fromLocations locs pl = .ok m) : Within m ∧ m.parentLength = pl := by
  unfold fromLocations at h
  split at h
  · cases h
  · rename_i sp hs
    injection h with h; subst h
    exact ⟨spansFromLocations_within locs pl sp hs, rfl⟩

theorem covered_within (m c : FM) (h : covered m = .ok c) : Within c ∧ c.parentLength = m.parentLength := by
  unfold covered at h
  simp only at h
  split at h
  · cases h
  · exact fromLocations_within _ _ _ h

theorem gaps_within (m g : FM) (h : gaps m = .ok g) : Within g ∧ g.parentLength = len m :=
  fromLocations_within _ _ _ h

theorem nucleicReversed_go_within (m : FM) : ∀ (l : List FSp) (sp : List FSp),
    (∀ x ∈ l, x.within m.parentLength) → nucleicReversed.go m l = .ok sp → ∀ x ∈ sp, x.within m.parentLength
  | [], sp, _, h => by
    simp [nucleicReversed.go] at h; subst h; simp
  | .lost n :: r, sp, hw, h => by
    simp only [nucleicReversed.go] at h
    cases hr : nucleicReversed.go m r with
    | error e => rw [hr] at h; cases h
    | ok rest =>
      rw [hr] at h
      injection h with h; subst h
      have ih := nucleicReversed_go_within m r rest (fun x hx => hw x (List.mem_cons_of_mem _ hx)) hr
      intro x hx
      simp only [List.mem_cons] at hx
      rcases hx with rfl | hx
      · trivial
      · exact ih x hx
  | .span s e rv :: r, sp, hw, h => by
    simp only [nucleicReversed.go] at h
    split at h
    · cases h
    · cases hr : nucleicReversed.go m r with
      | error e => rw [hr] at h; cases h
      | ok rest =>
        rw [hr] at h
        injection h with h; subst h
        have ih := nucleicReversed_go_within m r rest (fun x hx => hw x (List.mem_cons_of_mem _ hx)) hr
        have h0 := hw (.span s e rv) (List.mem_cons_self)
        simp only [FSp.within] at h0
        intro x hx
        simp only [List.mem_cons] at hx
        rcases hx with rfl | hx
        · unfold mkSpan; split <;> simp only [FSp.within] <;> omega
        · exact ih x hx

theorem nucleicReversed_within (m r : FM) (hw : Within m) (h : nucleicReversed m = .ok r) :
    Within r ∧ r.parentLength = m.parentLength := by
  unfold nucleicReversed at h
  split at h
  · cases h
  · rename_i sp hs
    injection h with h; subst h
    refine ⟨?_, rfl⟩
    intro x hx
    simp only [List.mem_reverse] at hx
    exact nucleicReversed_go_within m m.spans sp hw hs x hx


/-! ### nucleic_reversed -/

def FSp.fwd : FSp → Prop
  | .span _ _ rv => rv = false
  | .lost _ => True
def Fwd (m : FM) : Prop := ∀ sp ∈ m.spans, sp.fwd
instance (sp : FSp) : Decidable sp.fwd := by cases sp <;> unfold FSp.fwd <;> infer_instance
instance (m : FM) : Decidable (Fwd m) := by unfold Fwd; infer_instance

/-- the parent-coordinate flip of `nucleic_reversed` -/
def flip (pl : Int) : Option Int → Option Int := Option.map (fun p => pl - 1 - p)

theorem coverSp_flip (pl s e : Int) (h : s ≤ e) :
    coverSp (mkSpan (pl - e) (pl - e + (e - s)) false) = (coverSp (.span s e false)).reverse.map (flip pl) := by
  have : mkSpan (pl - e) (pl - e + (e - s)) false = .span (pl - e) (pl - e + (e - s)) false := by
    unfold mkSpan; split
    · omega
    · rfl
  rw [this]
  simp only [coverSp, Bool.false_eq_true, if_false]
  apply List.ext_getElem
  · simp; omega
  · intro i h1 h2
    simp at h1 h2
    simp [flip, List.getElem_reverse]
    omega

theorem foldl_add_shift (l : List Int) (a : Int) : l.foldl (· + ·) a = a + l.foldl (· + ·) 0 := by
  induction l generalizing a with
  | nil => simp
  | cons x xs ih => simp only [List.foldl_cons]; rw [ih (a + x), ih (0 + x)]; omega

/-- total length of a list of spans -/
def lenL (l : List FSp) : Int := (l.map FSp.length).foldl (· + ·) 0

theorem len_eq_lenL (m : FM) : len m = lenL m.spans := rfl
@[simp] theorem lenL_nil : lenL [] = 0 := rfl
@[simp] theorem lenL_cons (x : FSp) (l : List FSp) : lenL (x :: l) = x.length + lenL l := by
  simp only [lenL, List.map_cons, List.foldl_cons]; rw [foldl_add_shift]; omega
@[simp] theorem lenL_append (a b : List FSp) : lenL (a ++ b) = lenL a + lenL b := by
  induction a with
  | nil => simp
  | cons x xs ih => simp [ih]; omega
@[simp] theorem lenL_reverse (a : List FSp) : lenL a.reverse = lenL a := by
  induction a with
  | nil => simp
  | cons x xs ih => simp [ih]; omega

theorem go_rev_spec (m : FM) : ∀ (l sp : List FSp),
    (∀ x ∈ l, x.within m.parentLength) → (∀ x ∈ l, x.fwd) → nucleicReversed.go m l = .ok sp →
    sp.reverse.flatMap coverSp = ((l.flatMap coverSp).reverse).map (flip m.parentLength) ∧ lenL sp = lenL l
  | [], sp, _, _, h => by
    simp [nucleicReversed.go] at h; subst h; simp
  | .lost n :: r, sp, hw, hf, h => by
    simp only [nucleicReversed.go] at h
    cases hr : nucleicReversed.go m r with
    | error e => rw [hr] at h; cases h
    | ok rest =>
      rw [hr] at h
      injection h with h; subst h
      have ih := go_rev_spec m r rest (fun x hx => hw x (List.mem_cons_of_mem _ hx))
        (fun x hx => hf x (List.mem_cons_of_mem _ hx)) hr
      simp [ih.1, ih.2, coverSp, flip]
  | .span s e rv :: r, sp, hw, hf, h => by
    simp only [nucleicReversed.go] at h
    split at h
    · cases h
    · cases hr : nucleicReversed.go m r with
      | error e => rw [hr] at h; cases h
      | ok rest =>
        rw [hr] at h
        injection h with h; subst h
        have ih := go_rev_spec m r rest (fun x hx => hw x (List.mem_cons_of_mem _ hx))
          (fun x hx => hf x (List.mem_cons_of_mem _ hx)) hr
        have h0 := hw (.span s e rv) (List.mem_cons_self)
        have h1 : rv = false := hf (.span s e rv) (List.mem_cons_self)
        subst h1
        simp only [FSp.within] at h0
        constructor
        · simp only [List.reverse_cons, List.flatMap_append, List.flatMap_cons, List.flatMap_nil,
            List.append_nil, List.reverse_append, List.map_append, ih.1, coverSp_flip _ _ _ h0.2.1]
        · simp only [lenL_cons, ih.2]
          unfold mkSpan; split <;> simp only [FSp.length] <;> omega


/-! ### nucleic_reversed is total and involutive on within/forward maps -/
/-- one span of `nucleic_reversed` -/
def revSp (pl : Int) : FSp → FSp
  | .lost n => .lost n
  | .span s e _ => mkSpan (pl - e) (pl - e + (e - s)) false

theorem go_rev_total (m : FM) : ∀ (l : List FSp),
    (∀ x ∈ l, x.within m.parentLength) → nucleicReversed.go m l = .ok (l.map (revSp m.parentLength))
  | [], _ => by simp [nucleicReversed.go]
  | .lost n :: r, hw => by
    simp only [nucleicReversed.go]
    rw [go_rev_total m r (fun x hx => hw x (List.mem_cons_of_mem _ hx))]
    rfl
  | .span s e rv :: r, hw => by
    simp only [nucleicReversed.go]
    have h0 := hw (.span s e rv) (List.mem_cons_self)
    simp only [FSp.within] at h0
    rw [if_neg (by omega)]
    rw [go_rev_total m r (fun x hx => hw x (List.mem_cons_of_mem _ hx))]
    rfl

theorem nucleicReversed_total (m : FM) (hw : Within m) :
    nucleicReversed m = .ok ⟨(m.spans.map (revSp m.parentLength)).reverse, m.parentLength⟩ := by
  unfold nucleicReversed
  rw [go_rev_total m m.spans hw]

theorem revSp_revSp (pl : Int) (x : FSp) (hw : x.within pl) (hf : x.fwd) : revSp pl (revSp pl x) = x := by
  cases x with
  | lost n => rfl
  | span s e rv =>
    simp only [FSp.within] at hw
    simp only [FSp.fwd] at hf
    subst hf
    simp only [revSp]
    unfold mkSpan
    rw [if_neg (by omega)]
    simp only []
    rw [if_neg (by omega)]
    congr 1 <;> omega

theorem nucleicReversed_involutive' (m r : FM) (hw : Within m) (hf : Fwd m) (h : nucleicReversed m = .ok r) :
    nucleicReversed r = .ok m := by
  have hwr := (nucleicReversed_within m r hw h)
  rw [nucleicReversed_total r hwr.1]
  rw [nucleicReversed_total m hw] at h
  injection h with h; subst h
  simp only [List.map_reverse, List.reverse_reverse, List.map_map]
  congr 1
  cases m with
  | mk spans pl =>
    simp only [FM.mk.injEq, and_true]
    simp only [Within] at hw
    simp only [Fwd] at hf
    conv => rhs; rw [← List.map_id spans]
    apply List.map_congr_left
    intro x hx
    exact revSp_revSp pl x (hw x hx) (hf x hx)

/-! ### offsets / bisect: locating the span that contains a map position -/

/-- all span lengths are non-negative -/
def NonNegL (l : List FSp) : Prop := ∀ x ∈ l, 0 ≤ x.length
def NonNeg (m : FM) : Prop := NonNegL m.spans
instance (l : List FSp) : Decidable (NonNegL l) := by unfold NonNegL; infer_instance
instance (m : FM) : Decidable (NonNeg m) := by unfold NonNeg; infer_instance

theorem NonNegL.tail {x : FSp} {l : List FSp} (h : NonNegL (x :: l)) : NonNegL l :=
  fun y hy => h y (List.mem_cons_of_mem _ hy)
theorem NonNegL.head {x : FSp} {l : List FSp} (h : NonNegL (x :: l)) : 0 ≤ x.length :=
  h x List.mem_cons_self
theorem lenL_nonneg {l : List FSp} (h : NonNegL l) : 0 ≤ lenL l := by
  induction l with
  | nil => simp
  | cons x xs ih => have := h.head; have := ih h.tail; simp; omega
theorem NonNegL.take {l : List FSp} (h : NonNegL l) (k : Nat) : NonNegL (l.take k) :=
  fun y hy => h y (List.mem_of_mem_take hy)
theorem NonNegL.drop {l : List FSp} (h : NonNegL l) (k : Nat) : NonNegL (l.drop k) :=
  fun y hy => h y (List.mem_of_mem_drop hy)

/-- cover of a list of spans -/
def coverL (l : List FSp) : List (Option Int) := l.flatMap coverSp
theorem cover_eq_coverL (m : FM) : cover m = coverL m.spans := rfl
@[simp] theorem coverL_nil : coverL [] = [] := rfl
@[simp] theorem coverL_cons (x : FSp) (l : List FSp) : coverL (x :: l) = coverSp x ++ coverL l := by
  simp [coverL]
@[simp] theorem coverL_append (a b : List FSp) : coverL (a ++ b) = coverL a ++ coverL b := by
  simp [coverL]

@[simp] theorem coverSp_length (x : FSp) : (coverSp x).length = x.length.toNat := by
  cases x with
  | lost n => simp [coverSp, FSp.length]
  | span s e rv => simp only [coverSp]; split <;> simp [FSp.length]

theorem coverL_length {l : List FSp} (h : NonNegL l) : ((coverL l).length : Int) = lenL l := by
  induction l with
  | nil => simp
  | cons x xs ih =>
    have := h.head; have := ih h.tail
    simp; omega

theorem offsetsFrom_length (pos : Int) (l : List FSp) : (offsetsFrom pos l).length = l.length := by
  induction l generalizing pos with
  | nil => rfl
  | cons x xs ih => simp [offsetsFrom, ih]

theorem offsetsFrom_drop (pos : Int) (l : List FSp) (k : Nat) :
    (offsetsFrom pos l).drop k = offsetsFrom (pos + lenL (l.take k)) (l.drop k) := by
  induction l generalizing pos k with
  | nil => simp [offsetsFrom]
  | cons x xs ih =>
    cases k with
    | zero => simp
    | succ k => simp only [offsetsFrom, List.drop_succ_cons, List.take_succ_cons, lenL_cons]; rw [ih]; congr 1; omega

theorem offsetsFrom_getD (pos : Int) (l : List FSp) (k : Nat) (hk : k < l.length) :
    (offsetsFrom pos l).getD k 0 = pos + lenL (l.take k) := by
  induction l generalizing pos k with
  | nil => simp at hk
  | cons x xs ih =>
    cases k with
    | zero => simp [offsetsFrom]
    | succ k =>
      simp only [offsetsFrom, List.take_succ_cons, lenL_cons]
      simp only [List.length_cons] at hk
      have := ih (pos + x.length) k (by omega)
      simp only [List.getD_cons_succ]
      rw [this]; omega

/-- `bisect_right(offsets, z) - 1` is the index of the span containing map position `z` -/
theorem bisectRight_spec (l : List FSp) (h : NonNegL l) (pos z : Int) (hz : pos ≤ z) (hne : l ≠ []) :
    1 ≤ bisectRight (offsetsFrom pos l) z ∧ bisectRight (offsetsFrom pos l) z ≤ l.length ∧
    pos + lenL (l.take (bisectRight (offsetsFrom pos l) z - 1)) ≤ z ∧
    (bisectRight (offsetsFrom pos l) z < l.length →
      z < pos + lenL (l.take (bisectRight (offsetsFrom pos l) z))) := by
  induction l generalizing pos with
  | nil => exact absurd rfl hne
  | cons x xs ih =>
    simp only [offsetsFrom, bisectRight, if_pos hz]
    cases xs with
    | nil => simp [offsetsFrom, bisectRight]; omega
    | cons y ys =>
      by_cases hy : pos + x.length ≤ z
      · have := ih h.tail (pos + x.length) hy (by simp)
        obtain ⟨h1, h2, h3, h4⟩ := this
        refine ⟨by omega, by simp only [List.length_cons] at h2 ⊢; omega, ?_, ?_⟩
        · generalize bisectRight (offsetsFrom (pos + x.length) (y :: ys)) z = k at *
          obtain ⟨k, rfl⟩ : ∃ k', k = k' + 1 := ⟨k - 1, by omega⟩
          simp only [Nat.add_sub_cancel, List.take_succ_cons, lenL_cons] at h3 ⊢
          omega
        · intro hlt
          simp only [List.length_cons] at hlt h4
          have := h4 (by omega)
          simp only [List.take_succ_cons, lenL_cons]
          omega
      · simp only [offsetsFrom, bisectRight, if_neg hy]
        simp
        omega

/-- `bisect_left(offsets, z)` = number of spans starting strictly before map position `z` -/
theorem bisectLeft_spec (l : List FSp) (h : NonNegL l) (pos z : Int) :
    bisectLeft (offsetsFrom pos l) z ≤ l.length ∧
    (1 ≤ bisectLeft (offsetsFrom pos l) z → pos + lenL (l.take (bisectLeft (offsetsFrom pos l) z - 1)) < z) ∧
    (bisectLeft (offsetsFrom pos l) z < l.length →
      z ≤ pos + lenL (l.take (bisectLeft (offsetsFrom pos l) z))) := by
  induction l generalizing pos with
  | nil => simp [offsetsFrom, bisectLeft]
  | cons x xs ih =>
    simp only [offsetsFrom, bisectLeft]
    by_cases hz : pos < z
    · simp only [if_pos hz]
      obtain ⟨h1, h2, h3⟩ := ih h.tail (pos + x.length)
      generalize bisectLeft (offsetsFrom (pos + x.length) xs) z = k at *
      refine ⟨by simp; omega, ?_, ?_⟩
      · intro _
        cases k with
        | zero => simp; omega
        | succ k =>
          have := h2 (by omega)
          simp only [Nat.add_sub_cancel, List.take_succ_cons, lenL_cons] at this ⊢
          omega
      · intro hlt
        simp only [List.length_cons] at hlt
        have := h3 (by omega)
        simp only [List.take_succ_cons, lenL_cons]
        omega
    · simp only [if_neg hz]
      simp; omega


/-! ### Span.__getitem__ with in-range bounds -/

theorem normIndex_id (i L : Int) (h0 : 0 ≤ i) (h1 : i ≤ L) : normIndex i L = i := by
  unfold normIndex; simp only []; split <;> omega

theorem spanSlice_none_left (x : FSp) (ob : Option Int) (hL : 0 ≤ x.length) :
    spanSlice x none ob = spanSlice x (some 0) ob := by
  unfold spanSlice; simp only [normIndex_id 0 x.length (by omega) hL]

theorem spanSlice_none_right (x : FSp) (oa : Option Int) (hL : 0 ≤ x.length) :
    spanSlice x oa none = spanSlice x oa (some x.length) := by
  unfold spanSlice; simp only [normIndex_id x.length x.length hL (by omega)]

/-- `span[a:b]` for `0 ≤ a ≤ b ≤ len(span)` cuts positions `a..b-1` out of the span's cover -/
theorem spanSlice_spec (x : FSp) (a b : Int) (h0 : 0 ≤ a) (h1 : a ≤ b) (h2 : b ≤ x.length) :
    ∃ y, spanSlice x (some a) (some b) = .ok y ∧ y.length = b - a ∧
      coverSp y = ((coverSp x).drop a.toNat).take (b - a).toNat := by
  unfold spanSlice
  simp only [normIndex_id a x.length h0 (by omega), normIndex_id b x.length (by omega) h2]
  cases x with
  | lost n =>
    simp only [FSp.length] at h2
    refine ⟨_, rfl, ?_, ?_⟩
    · simp only [FSp.length]; split <;> omega
    · rw [if_neg (by omega)]
      simp only [coverSp, List.drop_replicate, List.take_replicate]
      congr 1; omega
  | span s e rv =>
    simp only [FSp.length] at h2
    simp only []
    rw [if_neg (by omega)]
    cases rv with
    | false =>
      simp only [Bool.false_eq_true, if_false]
      refine ⟨_, rfl, ?_, ?_⟩
      · unfold mkSpan; split <;> simp only [FSp.length] <;> omega
      · have : mkSpan (s + a) (s + b) false = .span (s + a) (s + b) false := by
          unfold mkSpan; rw [if_neg (by omega)]
        rw [this]
        simp only [coverSp, Bool.false_eq_true, if_false]
        apply List.ext_getElem
        · simp; omega
        · intro i h1 h2
          simp at h1 h2
          simp
          omega
    | true =>
      simp only [if_true]
      refine ⟨_, rfl, ?_, ?_⟩
      · unfold mkSpan; split <;> simp only [FSp.length] <;> omega
      · have : mkSpan (e - b) (e - a) true = .span (e - b) (e - a) true := by
          unfold mkSpan; rw [if_neg (by omega)]
        rw [this]
        simp only [coverSp, if_true]
        apply List.ext_getElem
        · simp; omega
        · intro i h1 h2
          simp at h1 h2
          simp [List.getElem_reverse]
          omega


/-! ### the trimming steps of Span.remap_with -/

/-- the `end_trim` step of `remap_with` -/
def trimEnd (result : List FSp) (endTrim : Int) : Except FErr (List FSp) :=
  if endTrim > 0 then
    match result.getLast? with
    | some x => (spanSlice x none (some (x.length - endTrim))).map (setLast result ·)
    | none => .ok result
  else .ok result

/-- the `start_trim` step of `remap_with` -/
def trimStart (r1 : List FSp) (startTrim : Int) : Except FErr (List FSp) :=
  if startTrim > 0 then
    match r1 with
    | x :: rest => (spanSlice x (some startTrim) none).map (· :: rest)
    | [] => .ok []
  else .ok r1

def trimBoth (result : List FSp) (endTrim startTrim : Int) : Except FErr (List FSp) :=
  match trimEnd result endTrim with
  | .error er => .error er
  | .ok r1 => trimStart r1 startTrim

/-- `remapSpan`, restated with the trimming steps named -/
theorem remapSpan_eq (s e : Int) (rev : Bool) (m : FM) :
    remapSpan s e rev m =
      match (offsets m).getLast?, m.spans.getLast? with
      | some lo, some ls =>
        let mapLength := lo + ls.length
        let zlo := max 0 s
        let zhi := min mapLength e
        let trimmed : Except FErr (List FSp) :=
          if zlo > zhi then .ok [] else
          let first : Int := (bisectRight (offsets m) zlo : Int) - 1
          if first < 0 then .error .valueError else
          let firstN := first.toNat
          let last : Int := (bisectLeft ((offsets m).drop firstN) zhi + firstN : Nat) - 1
          let result := (m.spans.take (last + 1).toNat).drop firstN
          match result with
          | [] => .ok []
          | _ => trimBoth result
              ((offsets m).getD last.toNat 0 + (m.spans.getD last.toNat (.lost 0)).length - zhi)
              (zlo - (offsets m).getD firstN 0)
        match trimmed with
        | .error er => .error er
        | .ok res =>
          let res := if s < 0 then FSp.lost (min e 0 - s) :: res else res
          let res := if e > mapLength then res ++ [FSp.lost (e - max s mapLength)] else res
          .ok (if rev then (res.map FSp.reversed).reverse else res)
      | _, _ => .error .indexError := by
  rfl

theorem trimEnd_spec (init : List FSp) (y : FSp) (et : Int) (h0 : 0 ≤ et) (h1 : et ≤ y.length) :
    ∃ y', trimEnd (init ++ [y]) et = .ok (init ++ [y']) ∧ y'.length = y.length - et ∧
      coverSp y' = (coverSp y).take (y.length - et).toNat := by
  unfold trimEnd
  by_cases h : et > 0
  · rw [if_pos h, List.getLast?_concat]
    simp only []
    rw [spanSlice_none_left _ _ (by omega)]
    obtain ⟨y', hy, hl, hc⟩ := spanSlice_spec y 0 (y.length - et) (by omega) (by omega) (by omega)
    refine ⟨y', ?_, by omega, by simpa using hc⟩
    rw [hy]; simp [Except.map, setLast]
  · rw [if_neg h]
    have : et = 0 := by omega
    subst this
    refine ⟨y, rfl, by omega, ?_⟩
    simp only [Int.sub_zero]
    exact (List.take_of_length_le (by simp)).symm

theorem trimStart_spec (x : FSp) (rest : List FSp) (st : Int) (h0 : 0 ≤ st) (h1 : st ≤ x.length) :
    ∃ x', trimStart (x :: rest) st = .ok (x' :: rest) ∧ x'.length = x.length - st ∧
      coverSp x' = (coverSp x).drop st.toNat := by
  unfold trimStart
  by_cases h : st > 0
  · rw [if_pos h]
    simp only []
    rw [spanSlice_none_right _ _ (by omega)]
    obtain ⟨x', hx, hl, hc⟩ := spanSlice_spec x st x.length (by omega) (by omega) (by omega)
    refine ⟨x', ?_, by omega, ?_⟩
    · rw [hx]; simp [Except.map]
    · rw [hc]; apply List.take_of_length_le; simp; omega
  · rw [if_neg h]
    have : st = 0 := by omega
    subst this
    exact ⟨x, rfl, by omega, by simp⟩


/-- both trims together: what is left is positions `st .. len - et - 1` of the cover -/
theorem trimBoth_spec (R : List FSp) (hR : NonNegL R) (x y : FSp) (hx : R.head? = some x) (hy : R.getLast? = some y)
    (et st : Int) (h0 : 0 ≤ et) (h1 : 0 ≤ st) (hx1 : st ≤ x.length) (hy1 : et ≤ y.length)
    (hs : st + et ≤ lenL R) :
    ∃ parts, trimBoth R et st = .ok parts ∧
      coverL parts = ((coverL R).take (lenL R - et).toNat).drop st.toNat := by
  rcases List.eq_nil_or_concat R with rfl | ⟨init, y0, rfl⟩
  · simp at hx
  simp only [List.concat_eq_append] at *
  rw [List.getLast?_concat] at hy
  injection hy with hy; subst hy
  obtain ⟨y', hte, hyl, hyc⟩ := trimEnd_spec init y0 et h0 hy1
  unfold trimBoth
  rw [hte]
  simp only []
  have hinit : NonNegL init := fun z hz => hR z (List.mem_append_left _ hz)
  have hy0 : 0 ≤ y0.length := hR y0 (by simp)
  have hil := coverL_length hinit
  have hil0 := lenL_nonneg hinit
  cases init with
  | nil =>
    simp only [List.nil_append, List.head?_cons] at hx
    injection hx with hx; subst hx
    simp only [List.nil_append, lenL_cons, lenL_nil] at hs ⊢
    obtain ⟨x', hts, hxl, hxc⟩ := trimStart_spec y' [] st h1 (by omega)
    refine ⟨_, hts, ?_⟩
    simp only [coverL_cons, coverL_nil, List.append_nil, hxc, hyc]
    congr 3; omega
  | cons x0 init' =>
    simp only [List.cons_append, List.head?_cons] at hx
    injection hx with hx; subst hx
    obtain ⟨x', hts, hxl, hxc⟩ := trimStart_spec x0 (init' ++ [y']) st h1 hx1
    refine ⟨_, hts, ?_⟩
    have hx0 : 0 ≤ x0.length := hR x0 (by simp)
    have hi' : NonNegL init' := hinit.tail
    have hil' := coverL_length hi'
    have hil0' := lenL_nonneg hi'
    simp only [List.cons_append, coverL_cons, coverL_append, coverL_nil, List.append_nil, hxc, hyc,
      lenL_cons, lenL_append, lenL_nil]
    have e1 : (x0.length + (lenL init' + (y0.length + 0)) - et).toNat
        = (coverSp x0 ++ coverL init').length + (y0.length - et).toNat := by
      simp only [List.length_append, coverSp_length]; omega
    rw [← List.append_assoc (coverSp x0), e1, List.take_length_add_append]
    rw [List.append_assoc, List.drop_append_of_le_length (by simp; omega)]


/-! ### remap_with: selecting and trimming the spans for map positions [zlo, zhi) -/

theorem slice_decomp (A R B : List FSp) (hA : NonNegL A) (hR : NonNegL R) (zlo zhi : Int)
    (h1 : lenL A ≤ zlo) (h2 : zlo ≤ zhi) (h3 : zhi ≤ lenL A + lenL R) :
    ((coverL (A ++ R ++ B)).drop zlo.toNat).take (zhi - zlo).toNat
      = ((coverL R).take (zhi - lenL A).toNat).drop (zlo - lenL A).toNat := by
  have hAl := coverL_length hA
  have hRl := coverL_length hR
  have hA0 := lenL_nonneg hA
  simp only [coverL_append, List.append_assoc]
  have e1 : zlo.toNat = (coverL A).length + (zlo - lenL A).toNat := by omega
  rw [e1, List.drop_length_add_append, List.take_drop]
  have e2 : (zlo - lenL A).toNat + (zhi - zlo).toNat = (zhi - lenL A).toNat := by omega
  rw [e2, List.take_append_of_le_length (by omega)]

/-- the part of `remap_with` that selects and trims the spans for map positions `[zlo, zhi)` -/
def remapCore (sp : List FSp) (zlo zhi : Int) : Except FErr (List FSp) :=
  let offs := offsetsFrom 0 sp
  let first : Int := (bisectRight offs zlo : Int) - 1
  let firstN := first.toNat
  let last : Int := (bisectLeft (offs.drop firstN) zhi + firstN : Nat) - 1
  let result := (sp.take (last + 1).toNat).drop firstN
  match result with
  | [] => .ok []
  | _ => trimBoth result
      (offs.getD last.toNat 0 + (sp.getD last.toNat (.lost 0)).length - zhi)
      (zlo - offs.getD firstN 0)

theorem remapSpan_core (s e : Int) (rev : Bool) (m : FM) :
    remapSpan s e rev m =
      match (offsets m).getLast?, m.spans.getLast? with
      | some lo, some ls =>
        match (if max 0 s > min (lo + ls.length) e then (Except.ok [] : Except FErr (List FSp)) else
               if ((bisectRight (offsets m) (max 0 s) : Nat) : Int) - 1 < 0 then .error .valueError else
               remapCore m.spans (max 0 s) (min (lo + ls.length) e)) with
        | .error er => .error er
        | .ok res =>
          let res := if s < 0 then FSp.lost (min e 0 - s) :: res else res
          let res := if e > lo + ls.length then res ++ [FSp.lost (e - max s (lo + ls.length))] else res
          .ok (if rev then (res.map FSp.reversed).reverse else res)
      | _, _ => .error .indexError := by
  rfl

theorem lenL_take_succ (l : List FSp) (k : Nat) (hk : k < l.length) (d : FSp) :
    lenL (l.take k) + (l.getD k d).length = lenL (l.take (k + 1)) := by
  rw [List.take_add_one, lenL_append, List.getD_eq_getElem?_getD, List.getElem?_eq_getElem hk]
  simp only [Option.toList_some, Option.getD_some, lenL_cons, lenL_nil]; omega

theorem remapCore_spec (sp : List FSp) (hN : NonNegL sp) (hne : sp ≠ []) (zlo zhi : Int)
    (h0 : 0 ≤ zlo) (h1 : zlo ≤ zhi) (h2 : zhi ≤ lenL sp) :
    ∃ parts, remapCore sp zlo zhi = .ok parts ∧
      coverL parts = ((coverL sp).drop zlo.toNat).take (zhi - zlo).toNat := by
  obtain ⟨b1, b2, b3, b4⟩ := bisectRight_spec sp hN 0 zlo h0 hne
  unfold remapCore
  simp only []
  generalize hk : bisectRight (offsetsFrom 0 sp) zlo = k at *
  obtain ⟨k1, rfl⟩ : ∃ k1, k = k1 + 1 := ⟨k - 1, by omega⟩
  have ef : ((↑(k1 + 1) : Int) - 1).toNat = k1 := by omega
  rw [ef, offsetsFrom_drop]
  simp only [Nat.add_sub_cancel] at b3
  obtain ⟨c1, c2, c3⟩ := bisectLeft_spec (sp.drop k1) (hN.drop k1) (0 + lenL (sp.take k1)) zhi
  generalize hc : bisectLeft (offsetsFrom (0 + lenL (sp.take k1)) (sp.drop k1)) zhi = cnt at *
  have el : ((↑(cnt + k1) : Int) - 1 + 1).toNat = cnt + k1 := by omega
  rw [el, List.drop_take, Nat.add_sub_cancel]
  simp only [List.length_drop] at c1 c3
  cases cnt with
  | zero =>
    simp only [List.take_zero]
    refine ⟨[], rfl, ?_⟩
    have := c3 (by omega)
    simp only [List.take_zero, lenL_nil] at this
    have : (zhi - zlo).toNat = 0 := by omega
    rw [this]; simp
  | succ c =>
    have hne' : List.take (c + 1) (List.drop k1 sp) ≠ [] := by
      intro h
      have := congrArg List.length h
      simp at this; omega
    split
    · rename_i h; exact absurd h hne'
    · clear hne'
      have et1 : ((↑(c + 1 + k1) : Int) - 1).toNat = c + k1 := by omega
      rw [et1, offsetsFrom_getD _ _ _ (by omega), offsetsFrom_getD _ _ _ (by omega)]
      have := lenL_take_succ sp (c + k1) (by omega) (.lost 0)
      -- decomposition sp = A ++ R ++ B
      have hdec : sp = sp.take k1 ++ (sp.drop k1).take (c + 1) ++ (sp.drop k1).drop (c + 1) := by
        rw [List.append_assoc, List.take_append_drop, List.take_append_drop]
      have hlen : lenL (sp.take (c + k1 + 1)) = lenL (sp.take k1) + lenL ((sp.drop k1).take (c + 1)) := by
        rw [show c + k1 + 1 = k1 + (c + 1) by omega, List.take_add, lenL_append]
      have hlen' : lenL (sp.take (c + k1)) = lenL (sp.take k1) + lenL ((sp.drop k1).take c) := by
        rw [show c + k1 = k1 + c by omega, List.take_add, lenL_append]
      have c2' := c2 (by omega)
      simp only [Nat.add_sub_cancel] at c2'
      -- head and last of R
      have hx : ((sp.drop k1).take (c + 1)).head? = some (sp[k1]'(by omega)) := by
        rw [List.head?_take, if_neg (by omega), List.head?_drop, List.getElem?_eq_getElem]
      have hy : ((sp.drop k1).take (c + 1)).getLast? = some (sp[k1 + c]'(by omega)) := by
        rw [List.getLast?_take, if_neg (by omega)]
        simp only [Nat.add_sub_cancel, List.getElem?_drop]
        rw [List.getElem?_eq_getElem (by omega)]; rfl
      have hRlen : lenL ((sp.drop k1).take (c + 1)) = lenL ((sp.drop k1).take c) + (sp[k1 + c]'(by omega)).length := by
        rw [List.take_add_one, lenL_append, List.getElem?_drop, List.getElem?_eq_getElem (by omega)]
        simp
      have hxlen : zlo - (0 + lenL (sp.take k1)) ≤ (sp[k1]'(by omega)).length := by
        have q := lenL_take_succ sp k1 (by omega) (.lost 0)
        simp only [List.getD_eq_getElem?_getD, List.getElem?_eq_getElem (show k1 < sp.length by omega), Option.getD_some] at q
        by_cases hlt : k1 + 1 < sp.length
        · have := b4 hlt; omega
        · have e : k1 + 1 = sp.length := by omega
          rw [e, List.take_length] at q
          omega
      have hRtot : zhi ≤ lenL (sp.take k1) + lenL ((sp.drop k1).take (c + 1)) := by
        by_cases hlt : c + 1 < sp.length - k1
        · have := c3 hlt; omega
        · have e : (sp.drop k1).take (c + 1) = sp.drop k1 := List.take_of_length_le (by simp; omega)
          rw [e, ← lenL_append, List.take_append_drop]; exact h2
      obtain ⟨parts, hp, hcov⟩ := trimBoth_spec ((sp.drop k1).take (c + 1)) ((hN.drop k1).take _) _ _ hx hy
        (0 + lenL (sp.take (c + k1)) + (sp.getD (c + k1) (.lost 0)).length - zhi)
        (zlo - (0 + lenL (sp.take k1))) (by omega) (by omega) hxlen (by omega) (by omega)
      refine ⟨parts, hp, ?_⟩
      rw [hcov]
      conv => rhs; rw [hdec]
      rw [slice_decomp _ _ _ (hN.take k1) ((hN.drop k1).take _) zlo zhi (by omega) h1 hRtot]
      congr 3 <;> omega


/-! ### remap_with: full specification -/

/-- what map position `j` of a cover list points to (`none` = lost or outside the map) -/
def lookup (c : List (Option Int)) (j : Int) : Option Int :=
  if j < 0 then none else (c[j.toNat]?).join

/-- composition: position of the index map ↦ position of `m` ↦ parent position -/
def compose (c : List (Option Int)) : Option Int → Option Int
  | none => none
  | some j => lookup c j

/-- `[f s, f (s+1), …, f (e-1)]` -/
def irange (s e : Int) (f : Int → Option Int) : List (Option Int) :=
  (List.range (e - s).toNat).map (fun (i : Nat) => f (s + (i : Int)))

theorem irange_split (s t e : Int) (f : Int → Option Int) (h1 : s ≤ t) (h2 : t ≤ e) :
    irange s e f = irange s t f ++ irange t e f := by
  unfold irange
  apply List.ext_getElem
  · simp; omega
  · intro i h1 h2
    simp at h1
    simp only [List.getElem_map, List.getElem_range, List.getElem_append]
    split
    · simp
    · rename_i h; simp at h
      simp only [List.length_map, List.length_range]
      congr 1; omega

theorem irange_const_none (s e : Int) (f : Int → Option Int) (h : ∀ j, s ≤ j → j < e → f j = none) :
    irange s e f = List.replicate (e - s).toNat none := by
  unfold irange
  apply List.ext_getElem
  · simp
  · intro i h1 h2
    simp at h1
    simp only [List.getElem_map, List.getElem_range, List.getElem_replicate]
    exact h _ (by omega) (by omega)

theorem irange_lookup (c : List (Option Int)) (a b : Int) (h0 : 0 ≤ a) (h1 : a ≤ b) (h2 : b ≤ c.length) :
    irange a b (lookup c) = (c.drop a.toNat).take (b - a).toNat := by
  unfold irange
  apply List.ext_getElem
  · simp; omega
  · intro i h1 h2
    simp at h1
    simp only [List.getElem_map, List.getElem_range, List.getElem_take, List.getElem_drop, lookup]
    rw [if_neg (by omega)]
    have : (a + (i : Int)).toNat = a.toNat + i := by omega
    rw [this, List.getElem?_eq_getElem (by omega)]
    rfl

theorem coverSp_span_irange (s e : Int) (rv : Bool) :
    coverSp (.span s e rv) = if rv then (irange s e some).reverse else irange s e some := rfl

theorem irange_map (s e : Int) (f : Int → Option Int) (g : Option Int → Option Int) :
    (irange s e f).map g = irange s e (fun j => g (f j)) := by
  simp [irange]

theorem coverSp_reversed (x : FSp) : coverSp x.reversed = (coverSp x).reverse := by
  cases x with
  | lost n => simp [FSp.reversed, coverSp]
  | span s e rv => cases rv <;> simp [FSp.reversed, coverSp]

theorem coverL_map_reversed_reverse (l : List FSp) :
    coverL ((l.map FSp.reversed).reverse) = (coverL l).reverse := by
  induction l with
  | nil => rfl
  | cons x xs ih => simp [ih, coverSp_reversed]

theorem offsetsFrom_concat (pos : Int) (init : List FSp) (y : FSp) :
    offsetsFrom pos (init ++ [y]) = offsetsFrom pos init ++ [pos + lenL init] := by
  induction init generalizing pos with
  | nil => simp [offsetsFrom]
  | cons x xs ih => simp only [List.cons_append, offsetsFrom, ih, lenL_cons]; congr 3; omega

theorem getLast_facts (sp : List FSp) (hne : sp ≠ []) :
    ∃ lo ls, (offsetsFrom 0 sp).getLast? = some lo ∧ sp.getLast? = some ls ∧ lo + ls.length = lenL sp := by
  rcases List.eq_nil_or_concat sp with rfl | ⟨init, y, rfl⟩
  · exact absurd rfl hne
  · simp only [List.concat_eq_append]
    refine ⟨0 + lenL init, y, ?_, ?_, ?_⟩
    · rw [offsetsFrom_concat, List.getLast?_concat]
    · rw [List.getLast?_concat]
    · simp

/-- `Span(s, e, rev).remap_with(m)`: position by position, the result is `m`'s cover looked up at
    the span's positions (lost where the span pokes outside `[0, len m)`) -/
theorem remapSpan_spec (m : FM) (hN : NonNeg m) (hne : m.spans ≠ []) (s e : Int) (rv : Bool)
    (h1 : s ≤ e) :
    ∃ parts, remapSpan s e rv m = .ok parts ∧
      coverL parts = (coverSp (.span s e rv)).map (compose (cover m)) := by
  obtain ⟨lo, ls, hlo, hls, hL⟩ := getLast_facts m.spans hne
  rw [remapSpan_core]
  have hlo' : (offsets m).getLast? = some lo := hlo
  simp only [hlo', hls]
  rw [hL]
  rw [← len_eq_lenL] at hL ⊢
  have hL0 : 0 ≤ len m := lenL_nonneg hN
  have hLL : len m = lenL m.spans := rfl
  have hlen : ((cover m).length : Int) = len m := coverL_length hN
  have hcomp : (fun j => compose (cover m) (some j)) = lookup (cover m) := rfl
  -- whatever the core gives, once padded it covers `irange s e (lookup (cover m))`
  have hfin : ∀ res : List FSp,
      coverL (if e > len m then (if s < 0 then FSp.lost (min e 0 - s) :: res else res) ++ [FSp.lost (e - max s (len m))]
        else if s < 0 then FSp.lost (min e 0 - s) :: res else res) = irange s e (lookup (cover m)) →
      ∃ parts, (Except.ok (if rv then
          ((if e > len m then (if s < 0 then FSp.lost (min e 0 - s) :: res else res) ++ [FSp.lost (e - max s (len m))]
            else if s < 0 then FSp.lost (min e 0 - s) :: res else res).map FSp.reversed).reverse
          else (if e > len m then (if s < 0 then FSp.lost (min e 0 - s) :: res else res) ++ [FSp.lost (e - max s (len m))]
            else if s < 0 then FSp.lost (min e 0 - s) :: res else res)) : Except FErr (List FSp)) = .ok parts ∧
        coverL parts = (coverSp (.span s e rv)).map (compose (cover m)) := by
    intro res hres
    refine ⟨_, rfl, ?_⟩
    cases rv with
    | false =>
      simp only [Bool.false_eq_true, if_false]
      rw [hres, coverSp_span_irange]
      simp only [Bool.false_eq_true, if_false, irange_map, hcomp]
    | true =>
      simp only [if_true]
      rw [coverL_map_reversed_reverse, hres, coverSp_span_irange]
      simp only [if_true, List.map_reverse, irange_map, hcomp]
  by_cases hout : max 0 s > min (len m) e
  · -- the span lies entirely outside the map: only lost padding, of the span's own length
    rw [if_pos hout]
    simp only []
    apply hfin
    rw [irange_const_none s e _ (by
      intro j hj hj2
      simp only [lookup]
      by_cases hj0 : j < 0
      · rw [if_pos hj0]
      · rw [if_neg hj0, List.getElem?_eq_none (by omega)]; rfl)]
    by_cases ha : e > len m <;> by_cases hb : s < 0 <;>
      simp only [ha, hb, if_true, if_false, coverL_append, coverL_cons, coverL_nil, coverSp, List.append_nil]
    · exfalso; omega
    · have e1 : (e - max s (len m)).toNat = (e - s).toNat := by omega
      rw [e1]; simp
    · have e1 : (min e 0 - s).toNat = (e - s).toNat := by omega
      rw [e1]
    · have e1 : (e - s).toNat = 0 := by omega
      rw [e1]; simp
  · rw [if_neg hout]
    have h2 : 0 ≤ e := by omega
    have h3 : s ≤ len m := by omega
    obtain ⟨b1, _, _, _⟩ := bisectRight_spec m.spans hN 0 (max 0 s) (by omega) hne
    have b1' : 1 ≤ bisectRight (offsets m) (max 0 s) := b1
    rw [if_neg (by omega)]
    obtain ⟨core, hc, hcov⟩ := remapCore_spec m.spans hN hne (max 0 s) (min (len m) e) (by omega) (by omega) (by omega)
    rw [hc]
    simp only []
    apply hfin
    rw [← cover_eq_coverL] at hcov
    rw [← irange_lookup _ _ _ (by omega) (by omega) (by omega)] at hcov
    rw [irange_split s (max 0 s) e _ (by omega) (by omega), irange_split (max 0 s) (min (len m) e) e _ (by omega) (by omega)]
    rw [irange_const_none s (max 0 s) _ (by intro j _ hj; simp only [lookup]; rw [if_pos (by omega)])]
    rw [irange_const_none (min (len m) e) e _ (by
      intro j hj hj2; simp only [lookup]; rw [if_neg (by omega), List.getElem?_eq_none (by omega)]; rfl)]
    rw [← hcov]
    by_cases ha : e > len m <;> by_cases hb : s < 0 <;>
      simp only [ha, hb, if_true, if_false, coverL_append, coverL_cons, coverL_nil, coverSp, List.append_nil]
    · have e1 : (max 0 s - s).toNat = (min e 0 - s).toNat := by omega
      have e2 : (e - min (len m) e).toNat = (e - max s (len m)).toNat := by omega
      rw [e1, e2]; simp only [List.append_assoc]
    · have e1 : (max 0 s - s).toNat = 0 := by omega
      have e2 : (e - min (len m) e).toNat = (e - max s (len m)).toNat := by omega
      rw [e1, e2]; simp only [List.replicate_zero, List.nil_append]
    · have e1 : (max 0 s - s).toNat = (min e 0 - s).toNat := by omega
      have e2 : (e - min (len m) e).toNat = 0 := by omega
      rw [e1, e2]; simp only [List.replicate_zero, List.append_nil]
    · have e1 : (max 0 s - s).toNat = 0 := by omega
      have e2 : (e - min (len m) e).toNat = 0 := by omega
      rw [e1, e2]; simp only [List.replicate_zero, List.nil_append, List.append_nil]


/-! ### FeatureMap.__getitem__ -/

/-- an index-map span usable on a map of length `L`: ordered (`Span.__init__` guarantees it); it may
    lie anywhere, also entirely outside `[0, L]` -/
def FSp.idxOK (_L : Int) : FSp → Prop
  | .span s e _ => s ≤ e
  | .lost _ => True
instance (L : Int) (x : FSp) : Decidable (x.idxOK L) := by cases x <;> unfold FSp.idxOK <;> infer_instance

/-- an index-map span lying inside `[0, L]` -/
def FSp.idxIn (L : Int) : FSp → Prop
  | .span s e _ => 0 ≤ s ∧ s ≤ e ∧ e ≤ L
  | .lost _ => True
instance (L : Int) (x : FSp) : Decidable (x.idxIn L) := by cases x <;> unfold FSp.idxIn <;> infer_instance

theorem getitem_go_spec (m : FM) (hN : NonNeg m) (hne : m.spans ≠ []) : ∀ (l : List FSp),
    (∀ x ∈ l, x.idxOK (len m)) →
    ∃ sp, getitem.go m l = .ok sp ∧ coverL sp = (coverL l).map (compose (cover m))
  | [], _ => ⟨[], rfl, rfl⟩
  | .lost k :: r, h => by
    obtain ⟨sp, hsp, hc⟩ := getitem_go_spec m hN hne r (fun x hx => h x (List.mem_cons_of_mem _ hx))
    refine ⟨.lost k :: sp, ?_, ?_⟩
    · simp only [getitem.go, hsp]; rfl
    · simp only [coverL_cons, hc, List.map_append, coverSp, List.map_replicate, compose]
  | .span s e rv :: r, h => by
    obtain ⟨sp, hsp, hc⟩ := getitem_go_spec m hN hne r (fun x hx => h x (List.mem_cons_of_mem _ hx))
    have h0 := h (.span s e rv) List.mem_cons_self
    simp only [FSp.idxOK] at h0
    obtain ⟨parts, hp, hpc⟩ := remapSpan_spec m hN hne s e rv h0
    refine ⟨parts ++ sp, ?_, ?_⟩
    · simp only [getitem.go, hp, hsp]; rfl
    · simp only [coverL_cons, coverL_append, hc, hpc, List.map_append]

theorem getitem_spec (m n : FM) (hN : NonNeg m) (hne : m.spans ≠ [])
    (hn : ∀ x ∈ n.spans, x.idxOK (len m)) :
    ∃ r, getitem m n = .ok r ∧ r.parentLength = m.parentLength ∧
      cover r = (cover n).map (compose (cover m)) := by
  obtain ⟨sp, hsp, hc⟩ := getitem_go_spec m hN hne n.spans hn
  refine ⟨⟨sp, m.parentLength⟩, ?_, rfl, hc⟩
  unfold getitem
  rw [hsp]


/-! ### composition with in-range index maps -/
theorem coverSp_nonneg (x : FSp) (L : Int) (h : x.idxIn L) : ∀ o ∈ coverSp x, ∀ j, o = some j → 0 ≤ j := by
  cases x with
  | lost n => intro o ho j hj; subst hj; simp [coverSp] at ho
  | span s e rv =>
    simp only [FSp.idxIn] at h
    intro o ho j hj
    subst hj
    rw [coverSp_span_irange] at ho
    have : some j ∈ irange s e some := by
      cases rv
      · simpa using ho
      · simpa using ho
    simp only [irange, List.mem_map, List.mem_range] at this
    obtain ⟨i, _, hi⟩ := this
    injection hi with hi; omega

theorem compose_eq_of_nonneg (c : List (Option Int)) (l : List (Option Int))
    (h : ∀ o ∈ l, ∀ j, o = some j → 0 ≤ j) :
    l.map (compose c) = l.map (fun | none => none | some j => (c[j.toNat]?).join) := by
  apply List.map_congr_left
  intro o ho
  cases o with
  | none => rfl
  | some j =>
    have := h _ ho j rfl
    simp only [compose, lookup]; rw [if_neg (by omega)]

/-! ### getitem results stay inside the parent -/

theorem normIndex_range (i L : Int) (hL : 0 ≤ L) : 0 ≤ normIndex i L ∧ normIndex i L ≤ L := by
  unfold normIndex; simp only []; omega

theorem spanSlice_within (x y : FSp) (pl : Int) (oa ob : Option Int) (hw : x.within pl)
    (h : spanSlice x oa ob = .ok y) : y.within pl := by
  cases x with
  | lost n =>
    simp only [spanSlice] at h
    injection h with h; subst h; trivial
  | span s e rv =>
    simp only [FSp.within] at hw
    have key : ∃ st en, 0 ≤ st ∧ st ≤ e - s ∧ 0 ≤ en ∧ en ≤ e - s ∧
        spanSlice (.span s e rv) oa ob = if st > en then .error .assertionError
          else if rv then .ok (mkSpan (e - en) (e - st) true) else .ok (mkSpan (s + st) (s + en) false) := by
      cases oa with
      | none =>
        cases ob with
        | none => exact ⟨0, e - s, by omega, by omega, by omega, by omega, rfl⟩
        | some j =>
          have := normIndex_range j (e - s) (by omega)
          exact ⟨0, normIndex j (e - s), by omega, by omega, by omega, by omega, rfl⟩
      | some i =>
        have := normIndex_range i (e - s) (by omega)
        cases ob with
        | none => exact ⟨normIndex i (e - s), e - s, by omega, by omega, by omega, by omega, rfl⟩
        | some j =>
          have := normIndex_range j (e - s) (by omega)
          exact ⟨normIndex i (e - s), normIndex j (e - s), by omega, by omega, by omega, by omega, rfl⟩
    obtain ⟨st, en, h1, h2, h3, h4, heq⟩ := key
    rw [heq] at h
    split at h
    · cases h
    · split at h <;> (injection h with h; subst h; unfold mkSpan; split <;> simp only [FSp.within] <;> omega)

theorem trimEnd_within (R r1 : List FSp) (et pl : Int) (hw : ∀ x ∈ R, x.within pl)
    (h : trimEnd R et = .ok r1) : ∀ x ∈ r1, x.within pl := by
  unfold trimEnd at h
  split at h
  · split at h
    · rename_i x hx
      cases hs : spanSlice x none (some (x.length - et)) with
      | error er => rw [hs] at h; cases h
      | ok y =>
        rw [hs] at h
        simp only [Except.map] at h
        injection h with h; subst h
        have hxm : x ∈ R := List.mem_of_getLast? hx
        intro z hz
        simp only [setLast, List.mem_append, List.mem_singleton] at hz
        rcases hz with hz | rfl
        · exact hw z (List.dropLast_subset _ hz)
        · exact spanSlice_within x _ pl _ _ (hw x hxm) hs
    · injection h with h; subst h; exact hw
  · injection h with h; subst h; exact hw

theorem trimStart_within (R r2 : List FSp) (st pl : Int) (hw : ∀ x ∈ R, x.within pl)
    (h : trimStart R st = .ok r2) : ∀ x ∈ r2, x.within pl := by
  unfold trimStart at h
  split at h
  · split at h
    · rename_i x rest
      cases hs : spanSlice x (some st) none with
      | error er => rw [hs] at h; cases h
      | ok y =>
        rw [hs] at h
        simp only [Except.map] at h
        injection h with h; subst h
        intro z hz
        simp only [List.mem_cons] at hz
        rcases hz with rfl | hz
        · exact spanSlice_within x _ pl _ _ (hw x List.mem_cons_self) hs
        · exact hw z (List.mem_cons_of_mem _ hz)
    · injection h with h; subst h; simp
  · injection h with h; subst h; exact hw

theorem remapCore_within (sp parts : List FSp) (zlo zhi pl : Int) (hw : ∀ x ∈ sp, x.within pl)
    (h : remapCore sp zlo zhi = .ok parts) : ∀ x ∈ parts, x.within pl := by
  unfold remapCore at h
  simp only [] at h
  split at h
  · injection h with h; subst h; simp
  · unfold trimBoth at h
    split at h
    · cases h
    · rename_i r1 h1
      refine trimStart_within _ _ _ pl ?_ h
      refine trimEnd_within _ _ _ pl ?_ h1
      intro x hx
      exact hw x (List.mem_of_mem_take (List.mem_of_mem_drop hx))

theorem FSp.reversed_within (x : FSp) (pl : Int) (h : x.within pl) : x.reversed.within pl := by
  cases x <;> exact h

theorem remapSpan_within (m : FM) (hw : Within m) (s e : Int) (rv : Bool) (parts : List FSp)
    (h : remapSpan s e rv m = .ok parts) : ∀ x ∈ parts, x.within m.parentLength := by
  rw [remapSpan_core] at h
  split at h
  · rename_i lo ls _ _
    -- the selected spans (none when the span lies outside the map)
    generalize hsel : (if max 0 s > min (lo + ls.length) e then (Except.ok [] : Except FErr (List FSp)) else
        if ((bisectRight (offsets m) (max 0 s) : Nat) : Int) - 1 < 0 then .error .valueError else
        remapCore m.spans (max 0 s) (min (lo + ls.length) e)) = sel at h
    cases sel with
    | error er => cases h
    | ok res =>
      have hc : ∀ x ∈ res, x.within m.parentLength := by
        by_cases c1 : max 0 s > min (lo + ls.length) e
        · rw [if_pos c1] at hsel; cases hsel; intro x hx; simp at hx
        · rw [if_neg c1] at hsel
          by_cases c2 : ((bisectRight (offsets m) (max 0 s) : Nat) : Int) - 1 < 0
          · rw [if_pos c2] at hsel; cases hsel
          · rw [if_neg c2] at hsel
            exact remapCore_within _ _ _ _ _ hw hsel
      simp only [] at h
      injection h with h
      have key : ∀ x ∈ (if e > lo + ls.length then (if s < 0 then FSp.lost (min e 0 - s) :: res else res) ++ [FSp.lost (e - max s (lo + ls.length))]
          else if s < 0 then FSp.lost (min e 0 - s) :: res else res), x.within m.parentLength := by
        intro x hx
        split at hx <;> split at hx <;> (try simp only [List.mem_append, List.mem_cons, List.not_mem_nil, or_false] at hx)
        · rcases hx with (rfl | hx) | rfl
          · trivial
          · exact hc x hx
          · trivial
        · rcases hx with hx | rfl
          · exact hc x hx
          · trivial
        · rcases hx with rfl | hx
          · trivial
          · exact hc x hx
        · exact hc x hx
      subst h
      intro x hx
      split at hx
      · simp only [List.mem_reverse, List.mem_map] at hx
        obtain ⟨y, hy, rfl⟩ := hx
        exact FSp.reversed_within y _ (key y hy)
      · exact key x hx
  · cases h

theorem getitem_go_within (m : FM) (hw : Within m) : ∀ (l sp : List FSp),
    getitem.go m l = .ok sp → ∀ x ∈ sp, x.within m.parentLength
  | [], sp, h => by simp [getitem.go] at h; subst h; simp
  | .lost k :: r, sp, h => by
    simp only [getitem.go] at h
    cases hr : getitem.go m r with
    | error er => rw [hr] at h; cases h
    | ok rest =>
      rw [hr] at h; injection h with h; subst h
      intro x hx
      simp only [List.mem_cons] at hx
      rcases hx with rfl | hx
      · trivial
      · exact getitem_go_within m hw r rest hr x hx
  | .span s e rv :: r, sp, h => by
    simp only [getitem.go] at h
    split at h
    · cases h
    · rename_i parts hp
      cases hr : getitem.go m r with
      | error er => rw [hr] at h; cases h
      | ok rest =>
        rw [hr] at h; injection h with h; subst h
        intro x hx
        simp only [List.mem_append] at hx
        rcases hx with hx | hx
        · exact remapSpan_within m hw s e rv parts hp x hx
        · exact getitem_go_within m hw r rest hr x hx

theorem getitem_within (m n r : FM) (hw : Within m) (h : getitem m n = .ok r) :
    Within r ∧ r.parentLength = m.parentLength := by
  unfold getitem at h
  split at h
  · cases h
  · rename_i sp hs
    injection h with h; subst h
    exact ⟨getitem_go_within m hw n.spans sp hs, rfl⟩


/-! ### covered(): the delta dict as a depth function -/

/-- sum of the delta values whose key satisfies `P` -/
def dsum (P : Int → Bool) : List (Int × Int) → Int
  | [] => 0
  | (k, v) :: r => (if P k then v else 0) + dsum P r

theorem dsum_deltaAdd (P : Int → Bool) (k v : Int) (d : List (Int × Int)) :
    dsum P (deltaAdd k v d) = dsum P d + (if P k then v else 0) := by
  induction d with
  | nil => simp [deltaAdd, dsum]
  | cons x xs ih =>
    obtain ⟨a, w⟩ := x
    simp only [deltaAdd]
    split
    · rename_i h; subst h
      simp only [dsum]; split <;> omega
    · simp only [dsum, ih]; omega

theorem dsum_insertKey (P : Int → Bool) (kv : Int × Int) (L : List (Int × Int)) :
    dsum P (insertKey kv L) = (if P kv.1 then kv.2 else 0) + dsum P L := by
  induction L with
  | nil => simp [insertKey, dsum]
  | cons x xs ih =>
    simp only [insertKey]
    split
    · simp only [dsum]
    · obtain ⟨a, w⟩ := x
      simp only [dsum, ih]; omega

theorem dsum_sorted (P : Int → Bool) (d : List (Int × Int)) :
    dsum P (d.foldr insertKey []) = dsum P d := by
  induction d with
  | nil => rfl
  | cons x xs ih => obtain ⟨a, w⟩ := x; simp only [List.foldr_cons, dsum_insertKey, ih, dsum]

/-- contribution of the real spans to `dsum P` of the delta dict -/
def cntP (P : Int → Bool) : List FSp → Int
  | [] => 0
  | .lost _ :: r => cntP P r
  | .span a b _ :: r => ((if P a then 1 else 0) + (if P b then -1 else 0)) + cntP P r

def deltaStep (d : List (Int × Int)) (s : FSp) : List (Int × Int) :=
  match s with
  | .lost _ => d
  | .span a b _ => deltaAdd b (-1) (deltaAdd a 1 d)

theorem dsum_foldl (P : Int → Bool) (l : List FSp) (d : List (Int × Int)) :
    dsum P (l.foldl deltaStep d) = dsum P d + cntP P l := by
  induction l generalizing d with
  | nil => simp [cntP]
  | cons x xs ih =>
    cases x with
    | lost n => simp only [List.foldl_cons, deltaStep, cntP, ih]
    | span a b rv => simp only [List.foldl_cons, deltaStep, cntP, ih, dsum_deltaAdd]; omega

theorem cntP_true (l : List FSp) : cntP (fun _ => true) l = 0 := by
  induction l with
  | nil => rfl
  | cons x xs ih => cases x <;> simp [cntP, ih]

theorem mem_coverSp (x : FSp) (p : Int) :
    some p ∈ coverSp x ↔ ∃ s e rv, x = .span s e rv ∧ s ≤ p ∧ p < e := by
  cases x with
  | lost n => simp [coverSp]
  | span s e rv =>
    rw [coverSp_span_irange]
    have : some p ∈ irange s e some ↔ s ≤ p ∧ p < e := by
      simp only [irange, List.mem_map, List.mem_range]
      constructor
      · rintro ⟨i, hi, h⟩; injection h with h; omega
      · intro h; exact ⟨(p - s).toNat, by omega, by congr 1; omega⟩
    have h2 : (∃ s' e' rv', FSp.span s e rv = .span s' e' rv' ∧ s' ≤ p ∧ p < e') ↔ s ≤ p ∧ p < e := by
      constructor
      · rintro ⟨s', e', rv', h, h1⟩; injection h with a b c; subst a; subst b; exact h1
      · intro h; exact ⟨s, e, rv, rfl, h⟩
    rw [h2, ← this]
    cases rv <;> simp

theorem mem_coverL (l : List FSp) (p : Int) :
    some p ∈ coverL l ↔ ∃ s e rv, .span s e rv ∈ l ∧ s ≤ p ∧ p < e := by
  simp only [coverL, List.mem_flatMap, mem_coverSp]
  constructor
  · rintro ⟨x, hx, s, e, rv, rfl, h⟩; exact ⟨s, e, rv, hx, h⟩
  · rintro ⟨s, e, rv, hx, h⟩; exact ⟨_, hx, s, e, rv, rfl, h⟩

theorem cntP_le_nonneg (p : Int) (l : List FSp) (hw : ∀ x ∈ l, ∀ s e rv, x = .span s e rv → s ≤ e) :
    0 ≤ cntP (fun k => decide (k ≤ p)) l ∧
    (cntP (fun k => decide (k ≤ p)) l ≠ 0 ↔ some p ∈ coverL l) := by
  induction l with
  | nil => simp [cntP]
  | cons x xs ih =>
    have ih := ih (fun y hy => hw y (List.mem_cons_of_mem _ hy))
    cases x with
    | lost n =>
      simp only [cntP, coverL_cons, List.mem_append, mem_coverSp]
      refine ⟨ih.1, ?_⟩
      rw [ih.2]; simp
    | span a b rv =>
      have hab := hw _ List.mem_cons_self a b rv rfl
      simp only [cntP, coverL_cons, List.mem_append, mem_coverSp, decide_eq_true_eq]
      constructor
      · split <;> split <;> omega
      · rw [← ih.2]
        constructor
        · intro h
          by_cases hc : a ≤ p ∧ p < b
          · left; exact ⟨a, b, rv, rfl, hc⟩
          · right; intro h0; apply h; rw [h0]; split <;> split <;> omega
        · rintro (⟨s, e, rv', h, h1, h2⟩ | h)
          · injection h with h3 h4 _; subst h3; subst h4
            rw [if_pos h1, if_neg (by omega)]; omega
          · split <;> split <;> omega


/-! ### covered(): sorted keys and the sweep -/

def keys (d : List (Int × Int)) : List Int := d.map (·.1)

theorem mem_keys_deltaAdd (k v : Int) (d : List (Int × Int)) (j : Int) :
    j ∈ keys (deltaAdd k v d) ↔ j = k ∨ j ∈ keys d := by
  induction d with
  | nil => simp [deltaAdd, keys]
  | cons x xs ih =>
    obtain ⟨a, w⟩ := x
    simp only [deltaAdd]
    split
    · rename_i h; subst h; simp [keys]
    · simp only [keys, List.map_cons, List.mem_cons] at ih ⊢
      rw [ih]; constructor <;> (intro h; rcases h with h | h | h <;> simp [h])

theorem keys_nodup_deltaAdd (k v : Int) (d : List (Int × Int)) (h : (keys d).Nodup) :
    (keys (deltaAdd k v d)).Nodup := by
  induction d with
  | nil => simp [deltaAdd, keys]
  | cons x xs ih =>
    obtain ⟨a, w⟩ := x
    simp only [deltaAdd]
    simp only [keys, List.map_cons, List.nodup_cons] at h
    split
    · simpa [keys] using h
    · rename_i hne
      simp only [keys, List.map_cons, List.nodup_cons]
      refine ⟨?_, ih h.2⟩
      intro hm
      have := (mem_keys_deltaAdd k v xs a).1 hm
      rcases this with h1 | h1
      · exact hne h1
      · exact h.1 h1

theorem keys_nodup_foldl (l : List FSp) (d : List (Int × Int)) (h : (keys d).Nodup) :
    (keys (l.foldl deltaStep d)).Nodup := by
  induction l generalizing d with
  | nil => exact h
  | cons x xs ih =>
    cases x with
    | lost n => exact ih d h
    | span a b rv => exact ih _ (keys_nodup_deltaAdd _ _ _ (keys_nodup_deltaAdd _ _ _ h))

theorem mem_insertKey (kv x : Int × Int) (L : List (Int × Int)) :
    x ∈ insertKey kv L ↔ x = kv ∨ x ∈ L := by
  induction L with
  | nil => simp [insertKey]
  | cons y ys ih =>
    simp only [insertKey]
    split
    · simp
    · simp only [List.mem_cons, ih]
      constructor <;> (intro h; rcases h with h | h | h <;> simp [h])

def SSorted (L : List (Int × Int)) : Prop := L.Pairwise (fun a b => a.1 < b.1)

theorem ssorted_insertKey (kv : Int × Int) (L : List (Int × Int)) (h : SSorted L)
    (hk : kv.1 ∉ keys L) : SSorted (insertKey kv L) := by
  induction L with
  | nil => simp [insertKey, SSorted]
  | cons y ys ih =>
    simp only [SSorted, List.pairwise_cons] at h
    simp only [keys, List.map_cons, List.mem_cons, not_or] at hk
    simp only [insertKey]
    split
    · rename_i hle
      simp only [SSorted, List.pairwise_cons]
      refine ⟨?_, h.1, h.2⟩
      intro z hz
      simp only [List.mem_cons] at hz
      rcases hz with rfl | hz
      · omega
      · have := h.1 z hz; omega
    · rename_i hle
      simp only [SSorted, List.pairwise_cons]
      refine ⟨?_, ih h.2 hk.2⟩
      intro z hz
      rcases (mem_insertKey kv z ys).1 hz with rfl | hz
      · omega
      · exact h.1 z hz

theorem mem_sorted (d : List (Int × Int)) (x : Int × Int) :
    x ∈ d.foldr insertKey [] ↔ x ∈ d := by
  induction d with
  | nil => simp
  | cons y ys ih => simp only [List.foldr_cons, mem_insertKey, ih, List.mem_cons]

theorem ssorted_sorted (d : List (Int × Int)) (h : (keys d).Nodup) : SSorted (d.foldr insertKey []) := by
  induction d with
  | nil => simp [SSorted]
  | cons y ys ih =>
    simp only [keys, List.map_cons, List.nodup_cons] at h
    simp only [List.foldr_cons]
    apply ssorted_insertKey _ _ (ih h.2)
    intro hm
    apply h.1
    simp only [keys, List.mem_map] at hm ⊢
    obtain ⟨z, hz, hz1⟩ := hm
    exact ⟨z, (mem_sorted ys z).1 hz, hz1⟩

/-- depth just after position `p` when the sweep is in state `y` in front of `L` -/
def depth (y : Int) (L : List (Int × Int)) (p : Int) : Int := y + dsum (fun k => decide (k ≤ p)) L

def inLocs (locs : List (Int × Int)) (p : Int) : Prop := ∃ ab ∈ locs, ab.1 ≤ p ∧ p < ab.2

theorem dsum_none (p : Int) (L : List (Int × Int)) (h : ∀ x ∈ L, p < x.1) :
    dsum (fun k => decide (k ≤ p)) L = 0 := by
  induction L with
  | nil => rfl
  | cons x xs ih =>
    obtain ⟨a, w⟩ := x
    have := h (a, w) List.mem_cons_self
    simp only [dsum, decide_eq_true_eq] at *
    rw [if_neg (by omega), ih (fun z hz => h z (List.mem_cons_of_mem _ hz))]; rfl

/-- the sweep of `covered()` emits exactly the maximal runs of non-zero depth -/
theorem sweep_spec : ∀ (L : List (Int × Int)) (y : Int) (start : Option Int) (lb : Int) (locs : List (Int × Int)),
    SSorted L → (∀ x ∈ L, lb ≤ x.1) →
    (y ≠ 0 → ∃ s0, start = some s0 ∧ s0 ≤ lb) → (y = 0 → start = none) →
    y + dsum (fun _ => true) L = 0 →
    sweep y start L = .ok locs →
    (∀ p, lb ≤ p → (inLocs locs p ↔ depth y L p ≠ 0)) ∧
    (∀ ab ∈ locs, (start.getD lb) ≤ ab.1) ∧
    (y ≠ 0 → ∃ b, (start.getD lb, b) ∈ locs ∧ lb ≤ b)
  | [], y, start, lb, locs, _, _, hs1, hs0, htot, h => by
    simp only [sweep] at h
    injection h with h; subst h
    simp only [dsum] at htot
    refine ⟨?_, by simp, by intro h; omega⟩
    intro p _
    simp only [inLocs, depth, dsum]
    constructor
    · rintro ⟨ab, hab, _⟩; simp at hab
    · intro h; omega
  | (x, d) :: r, y, start, lb, locs, hS, hlb, hs1, hs0, htot, h => by
    simp only [SSorted, List.pairwise_cons] at hS
    have hx := hlb (x, d) List.mem_cons_self
    simp only [] at hx
    have hr : ∀ z ∈ r, x ≤ z.1 := fun z hz => by have := hS.1 z hz; omega
    have hr' : ∀ z ∈ r, x < z.1 := fun z hz => by have := hS.1 z hz; simpa using this
    have htot' : (y + d) + dsum (fun _ => true) r = 0 := by
      simp only [dsum, if_true] at htot; omega
    have hdep : ∀ p, x ≤ p → depth y ((x, d) :: r) p = depth (y + d) r p := by
      intro p hp; simp only [depth, dsum, decide_eq_true_eq]; rw [if_pos hp]; omega
    have hdep0 : ∀ p, p < x → depth y ((x, d) :: r) p = y := by
      intro p hp
      have := dsum_none p ((x, d) :: r) (by
        intro z hz; simp only [List.mem_cons] at hz
        rcases hz with rfl | hz
        · exact hp
        · have := hr' z hz; omega)
      simp only [depth, this]; omega
    simp only [sweep] at h
    split at h
    · -- a run starts at x
      rename_i hc
      have hst := hs0 hc.2
      subst hst
      simp only [Option.isSome_none, Bool.false_eq_true, if_false] at h
      obtain ⟨A, B, C⟩ := sweep_spec r (y + d) (some x) x locs hS.2 hr
        (fun _ => ⟨x, rfl, by omega⟩) (fun h0 => absurd h0 hc.1) htot' h
      simp only [Option.getD_some] at B C
      refine ⟨?_, ?_, fun h0 => absurd hc.2 h0⟩
      · intro p hp
        by_cases hpx : x ≤ p
        · rw [hdep p hpx]; exact A p hpx
        · rw [hdep0 p (by omega)]
          constructor
          · rintro ⟨ab, hab, h1, _⟩
            have := B ab hab; omega
          · intro h0; exact absurd hc.2 h0
      · intro ab hab
        have := B ab hab
        simp only [Option.getD_none]; omega
    · split at h
      · -- a run ends at x
        rename_i _ hc
        obtain ⟨s0, hs, hs0le⟩ := hs1 hc.1
        subst hs
        cases hrest : sweep (y + d) none r with
        | error er => rw [hrest] at h; cases h
        | ok rest =>
          rw [hrest] at h
          simp only [Option.getD_some] at h
          injection h with h; subst h
          obtain ⟨A, B, _⟩ := sweep_spec r (y + d) none x rest hS.2 hr
            (fun h0 => absurd hc.2 h0) (fun _ => rfl) htot' hrest
          simp only [Option.getD_none] at B
          refine ⟨?_, ?_, ?_⟩
          · intro p hp
            by_cases hpx : x ≤ p
            · rw [hdep p hpx, ← A p hpx]
              simp only [inLocs, List.mem_cons]
              constructor
              · rintro ⟨ab, (rfl | hab), h1, h2⟩
                · simp only [] at h2; omega
                · exact ⟨ab, hab, h1, h2⟩
              · rintro ⟨ab, hab, h1, h2⟩; exact ⟨ab, Or.inr hab, h1, h2⟩
            · rw [hdep0 p (by omega)]
              constructor
              · intro _; exact hc.1
              · intro _; exact ⟨(s0, x), List.mem_cons_self, by simp only []; omega, by simp only []; omega⟩
          · intro ab hab
            simp only [List.mem_cons] at hab
            simp only [Option.getD_some]
            rcases hab with rfl | hab
            · simp
            · have := B ab hab; omega
          · intro _
            simp only [Option.getD_some]
            exact ⟨x, List.mem_cons_self, hx⟩
      · -- no change of state
        rename_i hc1 hc2
        by_cases hy : y = 0
        · have hy' : y + d = 0 := by
            by_cases h0 : y + d = 0
            · exact h0
            · exact absurd ⟨h0, hy⟩ hc1
          have hst := hs0 hy
          subst hst
          obtain ⟨A, B, _⟩ := sweep_spec r (y + d) none x locs hS.2 hr
            (fun h0 => absurd hy' h0) (fun _ => rfl) htot' h
          simp only [Option.getD_none] at B ⊢
          refine ⟨?_, ?_, fun h0 => absurd hy h0⟩
          · intro p hp
            by_cases hpx : x ≤ p
            · rw [hdep p hpx]; exact A p hpx
            · rw [hdep0 p (by omega)]
              constructor
              · rintro ⟨ab, hab, h1, _⟩
                have := B ab hab; omega
              · intro h0; exact absurd hy h0
          · intro ab hab
            have := B ab hab; omega
        · have hy' : y + d ≠ 0 := by
            intro h0; exact hc2 ⟨hy, h0⟩
          obtain ⟨s0, hs, hs0le⟩ := hs1 hy
          subst hs
          obtain ⟨A, B, C⟩ := sweep_spec r (y + d) (some s0) x locs hS.2 hr
            (fun _ => ⟨s0, rfl, by omega⟩) (fun h0 => absurd h0 hy') htot' h
          simp only [Option.getD_some] at B C ⊢
          obtain ⟨b, hb, hxb⟩ := C hy'
          refine ⟨?_, B, fun _ => ⟨b, hb, by omega⟩⟩
          intro p hp
          by_cases hpx : x ≤ p
          · rw [hdep p hpx]; exact A p hpx
          · rw [hdep0 p (by omega)]
            constructor
            · intro _; exact hy
            · intro _; exact ⟨(s0, b), hb, by simp only []; omega, by simp only []; omega⟩


/-! ### covered(): membership -/

theorem spansFromLocs_mem (pl p : Int) : ∀ (locs : List (Int × Int)) (sp : List FSp),
    spansFromLocs pl locs = .ok sp → (some p ∈ coverL sp ↔ inLocs locs p ∧ p < pl)
  | [], sp, h => by
    simp [spansFromLocs] at h; subst h; simp [inLocs]
  | (s, e) :: r, sp, h => by
    unfold spansFromLocs at h
    split at h
    · cases h
    · split at h
      · cases h
      · split at h
        · cases h
        · rename_i hc1 hc2 _ rest hr
          have ih := spansFromLocs_mem pl p r rest hr
          have hin : inLocs ((s, e) :: r) p ↔ (s ≤ p ∧ p < e) ∨ inLocs r p := by
            simp only [inLocs, List.mem_cons]
            constructor
            · rintro ⟨ab, (rfl | hab), h1⟩
              · left; exact h1
              · right; exact ⟨ab, hab, h1⟩
            · rintro (h1 | ⟨ab, hab, h1⟩)
              · exact ⟨(s, e), Or.inl rfl, h1⟩
              · exact ⟨ab, Or.inr hab, h1⟩
          have hsp : ∀ a b : Int, (some p ∈ coverSp (.span a b false) ↔ a ≤ p ∧ p < b) := by
            intro a b; rw [mem_coverSp]
            constructor
            · rintro ⟨s', e', rv', h, h1⟩; injection h with x y z; subst x; subst y; exact h1
            · intro h; exact ⟨a, b, false, rfl, h⟩
          split at h
          · injection h with h; subst h
            simp only [coverL_cons, List.mem_append, hsp, ih, hin]
            have : some p ∉ coverSp (.lost (e - pl)) := by simp [coverSp]
            constructor
            · rintro (h1 | h1 | h1)
              · exact ⟨Or.inl ⟨h1.1, by omega⟩, h1.2⟩
              · exact absurd h1 this
              · exact ⟨Or.inr h1.1, h1.2⟩
            · rintro ⟨h1 | h1, h2⟩
              · left; exact ⟨h1.1, h2⟩
              · right; right; exact ⟨h1, h2⟩
          · injection h with h; subst h
            simp only [coverL_cons, List.mem_append, hsp, ih, hin]
            constructor
            · rintro (h1 | h1)
              · exact ⟨Or.inl h1, by omega⟩
              · exact ⟨Or.inr h1.1, h1.2⟩
            · rintro ⟨h1 | h1, h2⟩
              · left; exact h1
              · right; exact ⟨h1, h2⟩

theorem fromLocations_mem (locs : List (Int × Int)) (pl p : Int) (c : FM)
    (h : fromLocations locs pl = .ok c) : (some p ∈ cover c ↔ inLocs locs p ∧ p < pl) := by
  unfold fromLocations at h
  split at h
  · cases h
  · rename_i sp hs
    injection h with h; subst h
    rw [cover_eq_coverL]
    simp only []
    cases locs with
    | nil =>
      simp [spansFromLocations] at hs; subst hs; simp [inLocs]
    | cons first rest =>
      unfold spansFromLocations at hs
      split at hs
      · split at hs
        · cases hs
        · exact spansFromLocs_mem pl p _ sp hs
      · rename_i hno
        exfalso
        cases hl : (first :: rest).getLast? with
        | none => simp at hl
        | some last => exact hno first rest last rfl hl

theorem covered_unfold (m : FM) : covered m =
    match sweep 0 none ((m.spans.foldl deltaStep []).foldr insertKey []) with
    | .error e => .error e
    | .ok locs => fromLocations locs m.parentLength := rfl

/-- `covered()`: the result covers exactly the parent positions covered by the map -/
theorem covered_mem (m c : FM) (hw : Within m) (h : covered m = .ok c) (p : Int) :
    some p ∈ cover c ↔ some p ∈ cover m := by
  rw [covered_unfold] at h
  split at h
  · cases h
  · rename_i locs hsw
    rw [fromLocations_mem locs m.parentLength p c h]
    have hord : ∀ x ∈ m.spans, ∀ s e rv, x = FSp.span s e rv → s ≤ e := by
      intro x hx s e rv hxe; subst hxe
      have := hw _ hx; simp only [FSp.within] at this; omega
    have hS := ssorted_sorted (m.spans.foldl deltaStep []) (keys_nodup_foldl _ _ (by simp [keys]))
    have htot : (0 : Int) + dsum (fun _ => true) ((m.spans.foldl deltaStep []).foldr insertKey []) = 0 := by
      rw [dsum_sorted, dsum_foldl, cntP_true]; simp [dsum]
    have hdepth : depth 0 ((m.spans.foldl deltaStep []).foldr insertKey []) p ≠ 0 ↔ some p ∈ cover m := by
      simp only [depth]
      rw [dsum_sorted, dsum_foldl]
      simp only [dsum]
      have := (cntP_le_nonneg p m.spans hord).2
      rw [cover_eq_coverL, ← this]
      constructor <;> (intro h1 h2; apply h1; omega)
    have key : inLocs locs p ↔ some p ∈ cover m := by
      rw [← hdepth]
      generalize hL : (m.spans.foldl deltaStep []).foldr insertKey [] = L at *
      cases L with
      | nil =>
        exact (sweep_spec [] 0 none p locs hS (by simp) (fun h0 => absurd rfl h0) (fun _ => rfl) htot hsw).1 p (by omega)
      | cons x r =>
        have hx : ∀ z ∈ x :: r, min p x.1 ≤ z.1 := by
          intro z hz
          simp only [List.mem_cons] at hz
          rcases hz with rfl | hz
          · omega
          · simp only [SSorted, List.pairwise_cons] at hS
            have := hS.1 z hz; omega
        exact (sweep_spec (x :: r) 0 none (min p x.1) locs hS hx (fun h0 => absurd rfl h0) (fun _ => rfl) htot hsw).1 p (by omega)
    rw [key]
    constructor
    · exact fun h1 => h1.1
    · intro h1
      refine ⟨h1, ?_⟩
      rw [cover_eq_coverL, mem_coverL] at h1
      obtain ⟨s, e, rv, hx, _, h2⟩ := h1
      have := hw _ hx; simp only [FSp.within] at this; omega


/-! ### inverse(): closed form on sorted non-overlapping forward maps -/

/-- forward real spans, sorted and non-overlapping in parent coordinates starting at `lb`;
    lost spans have non-negative length -/
def Chain (lb : Int) : List FSp → Prop
  | [] => True
  | .lost n :: r => 0 ≤ n ∧ Chain lb r
  | .span s e rv :: r => lb ≤ s ∧ s ≤ e ∧ rv = false ∧ Chain e r

instance : ∀ (lb : Int) (l : List FSp), Decidable (Chain lb l)
  | _, [] => isTrue trivial
  | lb, .lost n :: r => by unfold Chain; exact @instDecidableAnd _ _ _ (instDecidableChain lb r)
  | lb, .span s e rv :: r => by
    unfold Chain
    exact @instDecidableAnd _ _ _ (@instDecidableAnd _ _ _ (@instDecidableAnd _ _ _ (instDecidableChain e r)))

/-- end of the last real span (or `last` if there is none) -/
def lastEnd (last : Int) : List FSp → Int
  | [] => last
  | .lost _ :: r => lastEnd last r
  | .span _ e _ :: r => lastEnd e r

/-- closed form of the spans of `inverse()` on a `Chain` map -/
def invC (last cum : Int) : List FSp → List FSp
  | [] => []
  | .lost n :: r => invC last (cum + n) r
  | .span s e _ :: r =>
    (if s > last then [FSp.lost (s - last), FSp.span cum (cum + (e - s)) false]
     else [FSp.span cum (cum + (e - s)) false]) ++ invC e (cum + (e - s)) r

def sortedQ : List Q → Prop
  | [] => True
  | [_] => True
  | x :: y :: r => qle x y = true ∧ sortedQ (y :: r)

theorem foldr_insertQ_of_sorted : ∀ (T : List Q), sortedQ T → T.foldr insertQ [] = T
  | [], _ => rfl
  | [x], _ => rfl
  | x :: y :: r, h => by
    simp only [sortedQ] at h
    rw [List.foldr_cons, foldr_insertQ_of_sorted (y :: r) h.2]
    simp only [insertQ, h.1, if_true]

theorem invTemp_sorted : ∀ (l : List FSp) (lb cum : Int), Chain lb l →
    sortedQ (invTemp cum l) ∧
    ∀ q, (invTemp cum l).head? = some q → lb ≤ q.1 ∧ q.1 ≤ q.2.1 ∧ cum ≤ q.2.2.1 ∧ q.2.2.2 = q.2.2.1 + (q.2.1 - q.1)
  | [], _, _, _ => by simp [invTemp, sortedQ]
  | .lost n :: r, lb, cum, h => by
    simp only [Chain] at h
    simp only [invTemp]
    obtain ⟨h1, h2⟩ := invTemp_sorted r lb (cum + n) h.2
    refine ⟨h1, ?_⟩
    intro q hq
    have := h2 q hq
    omega
  | .span s e rv :: r, lb, cum, h => by
    simp only [Chain] at h
    obtain ⟨hlb, hse, hrv, hc⟩ := h
    subst hrv
    simp only [invTemp, Bool.false_eq_true, if_false]
    obtain ⟨h1, h2⟩ := invTemp_sorted r e (cum + (e - s)) hc
    constructor
    · cases hT : invTemp (cum + (e - s)) r with
      | nil => simp [sortedQ]
      | cons y ys =>
        rw [hT] at h1 h2
        simp only [sortedQ]
        refine ⟨?_, h1⟩
        have := h2 y rfl
        obtain ⟨y1, y2, y3, y4⟩ := y
        simp only [] at this
        simp only [qle, decide_eq_true_eq]
        omega
    · intro q hq
      simp only [List.head?_cons] at hq
      injection hq with hq; subst hq
      exact ⟨hlb, hse, Int.le_refl _, rfl⟩

theorem invLoop_chain : ∀ (l : List FSp) (last cum : Int), Chain last l →
    invLoop last (invTemp cum l) = .ok (invC last cum l, lastEnd last l)
  | [], _, _, _ => rfl
  | .lost n :: r, last, cum, h => by
    simp only [Chain] at h
    simp only [invTemp, invC, lastEnd]
    exact invLoop_chain r last (cum + n) h.2
  | .span s e rv :: r, last, cum, h => by
    simp only [Chain] at h
    obtain ⟨hlb, hse, hrv, hc⟩ := h
    subst hrv
    simp only [invTemp, Bool.false_eq_true, if_false, invC, lastEnd, invLoop]
    rw [if_neg (by omega), invLoop_chain r e (cum + (e - s)) hc]
    simp only []
    have : mkSpan cum (cum + (e - s)) (decide (cum > cum + (e - s))) = .span cum (cum + (e - s)) false := by
      have hd : decide (cum > cum + (e - s)) = false := by simp; omega
      rw [hd]; unfold mkSpan; rw [if_neg (by omega)]
    rw [this]

/-- `inverse()` of a `Chain` map, in closed form -/
theorem inverse_chain (m : FM) (h : Chain 0 m.spans) :
    inverse m = .ok ⟨invC 0 0 m.spans ++
      (if m.parentLength > lastEnd 0 m.spans then [FSp.lost (m.parentLength - lastEnd 0 m.spans)] else []), len m⟩ := by
  unfold inverse
  simp only []
  rw [foldr_insertQ_of_sorted _ (invTemp_sorted m.spans 0 0 h).1, invLoop_chain m.spans 0 0 h]

theorem lastEnd_ge : ∀ (l : List FSp) (last : Int), Chain last l → last ≤ lastEnd last l
  | [], _, _ => by simp [lastEnd]
  | .lost n :: r, last, h => by simp only [Chain] at h; simp only [lastEnd]; exact lastEnd_ge r last h.2
  | .span s e rv :: r, last, h => by
    simp only [Chain] at h; simp only [lastEnd]
    have := lastEnd_ge r e h.2.2.2; omega

theorem lenL_invC : ∀ (l : List FSp) (last cum : Int), Chain last l →
    lenL (invC last cum l) = lastEnd last l - last
  | [], _, _, _ => by simp [invC, lastEnd]
  | .lost n :: r, last, cum, h => by
    simp only [Chain] at h; simp only [invC, lastEnd]; exact lenL_invC r last _ h.2
  | .span s e rv :: r, last, cum, h => by
    simp only [Chain] at h
    simp only [invC, lastEnd, lenL_append, lenL_invC r e _ h.2.2.2]
    split <;> simp [FSp.length] <;> omega

theorem nonNegL_invC : ∀ (l : List FSp) (last cum : Int), Chain last l → NonNegL (invC last cum l)
  | [], _, _, _ => by simp [invC, NonNegL]
  | .lost n :: r, last, cum, h => by
    simp only [Chain] at h; simp only [invC]; exact nonNegL_invC r last _ h.2
  | .span s e rv :: r, last, cum, h => by
    simp only [Chain] at h
    simp only [invC]
    intro x hx
    simp only [List.mem_append] at hx
    rcases hx with hx | hx
    · split at hx <;> simp only [List.mem_cons, List.not_mem_nil, or_false] at hx
      · rcases hx with rfl | rfl <;> simp only [FSp.length] <;> omega
      · subst hx; simp only [FSp.length]; omega
    · exact nonNegL_invC r e _ h.2.2.2 x hx


/-! ### inverse(): pointwise meaning -/

theorem irange_getElem? (a b : Int) (i : Nat) :
    (irange a b some)[i]? = if i < (b - a).toNat then some (some (a + (i : Int))) else none := by
  unfold irange
  split
  · rename_i h
    rw [List.getElem?_eq_getElem (by simpa using h)]
    simp
  · rename_i h
    rw [List.getElem?_eq_none (by simpa using h)]

theorem chain_mem : ∀ (l : List FSp) (lb : Int), Chain lb l → ∀ s e rv, .span s e rv ∈ l → lb ≤ s
  | [], _, _, _, _, _, h => by simp at h
  | .lost n :: r, lb, hc, s, e, rv, h => by
    simp only [Chain] at hc
    simp only [List.mem_cons] at h
    rcases h with h | h
    · cases h
    · exact chain_mem r lb hc.2 s e rv h
  | .span s0 e0 rv0 :: r, lb, hc, s, e, rv, h => by
    simp only [Chain] at hc
    simp only [List.mem_cons] at h
    rcases h with h | h
    · injection h with h1 h2 h3; omega
    · have := chain_mem r e0 hc.2.2.2 s e rv h; omega

theorem chain_pos_ge (l : List FSp) (lb : Int) (hc : Chain lb l) (j : Nat) (p : Int)
    (h : (coverL l)[j]? = some (some p)) : lb ≤ p := by
  have hm : some p ∈ coverL l := List.mem_of_getElem? h
  rw [mem_coverL] at hm
  obtain ⟨s, e, rv, hx, h1, _⟩ := hm
  have := chain_mem l lb hc s e rv hx; omega

theorem coverSp_lost (n : Int) : coverSp (.lost n) = List.replicate n.toNat none := rfl

theorem coverL_invC_cons (last cum s e : Int) (rv : Bool) (r : List FSp) (h : last ≤ s) :
    coverL (invC last cum (.span s e rv :: r)) =
      List.replicate (s - last).toNat none ++ (irange cum (cum + (e - s)) some ++ coverL (invC e (cum + (e - s)) r)) := by
  simp only [invC]
  split
  · simp only [coverL_append, coverL_cons, coverL_nil, List.append_nil, coverSp_span_irange, coverSp_lost,
      Bool.false_eq_true, if_false, List.append_assoc]
  · have : (s - last).toNat = 0 := by omega
    simp only [coverL_append, coverL_cons, coverL_nil, List.append_nil, coverSp_span_irange,
      Bool.false_eq_true, if_false, this, List.replicate_zero, List.nil_append]

/-- pointwise: `inverse` swaps map position and parent position -/
theorem inv_cover : ∀ (l : List FSp) (last cum : Int), Chain last l → ∀ (k : Nat) (j : Int),
    ((coverL (invC last cum l))[k]? = some (some j) ↔
      (cum ≤ j ∧ (coverL l)[(j - cum).toNat]? = some (some (last + (k : Int)))))
  | [], _, _, _, k, j => by simp [invC]
  | .lost n :: r, last, cum, h, k, j => by
    simp only [Chain] at h
    simp only [invC]
    rw [inv_cover r last (cum + n) h.2 k j]
    simp only [coverL_cons, coverSp_lost, List.getElem?_append, List.length_replicate]
    constructor
    · rintro ⟨h1, h2⟩
      refine ⟨by omega, ?_⟩
      rw [if_neg (by omega)]
      rw [← h2]; congr 1; omega
    · rintro ⟨h1, h2⟩
      split at h2
      · rw [List.getElem?_replicate] at h2
        split at h2 <;> cases h2
      · refine ⟨by omega, ?_⟩
        rw [← h2]; congr 1; omega
  | .span s e rv :: r, last, cum, h, k, j => by
    simp only [Chain] at h
    obtain ⟨hlb, hse, hrv, hc⟩ := h
    subst hrv
    rw [coverL_invC_cons _ _ _ _ _ _ hlb]
    have ih := inv_cover r e (cum + (e - s)) hc
    simp only [coverL_cons, coverSp_span_irange, Bool.false_eq_true, if_false]
    have hlen : (irange cum (cum + (e - s)) some).length = (e - s).toNat := by
      simp only [irange, List.length_map, List.length_range]; omega
    have hlen' : (irange s e some).length = (e - s).toNat := by
      simp only [irange, List.length_map, List.length_range]
    simp only [List.getElem?_append, List.length_replicate, hlen, hlen']
    -- facts about the right-hand side lookup
    have rhs_lo : ∀ q : Int, (if (j - cum).toNat < (e - s).toNat then (irange s e some)[(j - cum).toNat]?
        else (coverL r)[(j - cum).toNat - (e - s).toNat]?) = some (some q) → s ≤ q ∧
        ((j - cum).toNat < (e - s).toNat → q = s + ((j - cum).toNat : Int)) ∧
        (¬ (j - cum).toNat < (e - s).toNat → e ≤ q) := by
      intro q hq
      split at hq
      · rename_i hlt
        rw [irange_getElem?, if_pos hlt] at hq
        simp only [Option.some.injEq] at hq
        exact ⟨by omega, fun _ => by omega, fun h => absurd hlt h⟩
      · rename_i hlt
        have := chain_pos_ge r e hc _ _ hq
        exact ⟨by omega, fun h => absurd h hlt, fun _ => this⟩
    by_cases hk1 : k < (s - last).toNat
    · -- inside the leading lost span
      rw [if_pos hk1, List.getElem?_replicate, if_pos hk1]
      constructor
      · intro h0; cases h0
      · rintro ⟨h1, h2⟩
        have := (rhs_lo _ h2).1; omega
    · rw [if_neg hk1]
      by_cases hk2 : k - (s - last).toNat < (e - s).toNat
      · -- inside the span
        rw [if_pos hk2, irange_getElem?, if_pos (by omega)]
        constructor
        · intro h0
          simp only [Option.some.injEq] at h0
          refine ⟨by omega, ?_⟩
          rw [if_pos (by omega), irange_getElem?, if_pos (by omega)]
          congr 2; omega
        · rintro ⟨h1, h2⟩
          obtain ⟨_, ha, hb⟩ := rhs_lo _ h2
          by_cases hlt : (j - cum).toNat < (e - s).toNat
          · have := ha hlt; congr 2; omega
          · have := hb hlt; omega
      · -- after the span
        rw [if_neg hk2, ih]
        constructor
        · rintro ⟨h1, h2⟩
          refine ⟨by omega, ?_⟩
          rw [if_neg (by omega)]
          have e1 : (j - cum).toNat - (e - s).toNat = (j - (cum + (e - s))).toNat := by omega
          rw [e1, h2]; congr 2; omega
        · rintro ⟨h1, h2⟩
          obtain ⟨_, ha, hb⟩ := rhs_lo _ h2
          by_cases hlt : (j - cum).toNat < (e - s).toNat
          · have := ha hlt; omega
          · rw [if_neg hlt] at h2
            refine ⟨by omega, ?_⟩
            have e1 : (j - (cum + (e - s))).toNat = (j - cum).toNat - (e - s).toNat := by omega
            rw [e1, h2]; congr 2; omega


/-! ### inverse() and shadow(): specifications -/

theorem getElem?_append_nones (A : List (Option Int)) (n k : Nat) (j : Int) :
    (A ++ List.replicate n none)[k]? = some (some j) ↔ A[k]? = some (some j) := by
  rw [List.getElem?_append]
  split
  · rfl
  · rename_i h
    rw [List.getElem?_replicate, List.getElem?_eq_none (by omega)]
    split <;> simp

theorem chain_nonNeg : ∀ (l : List FSp) (lb : Int), Chain lb l → NonNegL l
  | [], _, _ => by simp [NonNegL]
  | .lost n :: r, lb, h => by
    simp only [Chain] at h
    intro x hx; simp only [List.mem_cons] at hx
    rcases hx with rfl | hx
    · exact h.1
    · exact chain_nonNeg r lb h.2 x hx
  | .span s e rv :: r, lb, h => by
    simp only [Chain] at h
    intro x hx; simp only [List.mem_cons] at hx
    rcases hx with rfl | hx
    · simp only [FSp.length]; omega
    · exact chain_nonNeg r e h.2.2.2 x hx

/-- `inverse()` of a sorted, non-overlapping, forward map whose last end is inside the parent -/
theorem inverse_spec (m : FM) (hc : Chain 0 m.spans) (hle : lastEnd 0 m.spans ≤ m.parentLength) :
    ∃ i, inverse m = .ok i ∧ i.parentLength = len m ∧ len i = m.parentLength ∧ NonNeg i ∧
      ∀ (k : Nat) (j : Int), (cover i)[k]? = some (some j) ↔
        (0 ≤ j ∧ (cover m)[j.toNat]? = some (some (k : Int))) := by
  refine ⟨_, inverse_chain m hc, rfl, ?_, ?_, ?_⟩
  · simp only [len_eq_lenL, lenL_append, lenL_invC _ _ _ hc]
    split <;> simp [FSp.length] <;> omega
  · intro x hx
    simp only [List.mem_append] at hx
    rcases hx with hx | hx
    · exact nonNegL_invC _ _ _ hc x hx
    · split at hx
      · simp only [List.mem_cons, List.not_mem_nil, or_false] at hx
        subst hx; simp only [FSp.length]; omega
      · simp at hx
  · intro k j
    have := inv_cover m.spans 0 0 hc k j
    simp only [Int.sub_zero, Int.zero_add] at this
    rw [cover_eq_coverL, cover_eq_coverL, ← this]
    simp only [coverL_append]
    split
    · simp only [coverL_cons, coverL_nil, List.append_nil, coverSp_lost]
      exact getElem?_append_nones _ _ _ _
    · simp

theorem none_not_mem_coverSp_span (s e : Int) (rv : Bool) (i : Nat) :
    (coverSp (.span s e rv))[i]? ≠ some none := by
  intro h
  have hm : none ∈ coverSp (.span s e rv) := List.mem_of_getElem? h
  rw [coverSp_span_irange] at hm
  have : none ∉ irange s e some := by simp [irange]
  cases rv <;> simp at hm <;> exact this hm

/-- the locations `gaps()` hands to `from_locations` are exactly the lost map positions -/
theorem locsOf_lost : ∀ (l : List FSp) (off p : Int), NonNegL l →
    (inLocs (locsOf true off l) p ↔ off ≤ p ∧ (coverL l)[(p - off).toNat]? = some none)
  | [], off, p, _ => by simp [locsOf, inLocs]
  | x :: r, off, p, hN => by
    have hx := hN.head
    have ih := locsOf_lost r (off + x.length) p hN.tail
    have hsplit : ∀ (A B : List (Int × Int)), inLocs (A ++ B) p ↔ inLocs A p ∨ inLocs B p := by
      intro A B
      simp only [inLocs, List.mem_append]
      constructor
      · rintro ⟨ab, (h | h), h1⟩
        · left; exact ⟨ab, h, h1⟩
        · right; exact ⟨ab, h, h1⟩
      · rintro (⟨ab, h, h1⟩ | ⟨ab, h, h1⟩)
        · exact ⟨ab, Or.inl h, h1⟩
        · exact ⟨ab, Or.inr h, h1⟩
    simp only [locsOf, hsplit, ih, coverL_cons, List.getElem?_append, coverSp_length]
    cases x with
    | lost n =>
      rw [show (FSp.lost n).length = n from rfl] at hx ih ⊢
      simp only [FSp.isLost, if_true, coverSp_lost, List.getElem?_replicate]
      have h1 : inLocs [(off, off + n)] p ↔ off ≤ p ∧ p < off + n := by simp [inLocs]
      rw [h1]
      constructor
      · rintro (h | ⟨h, h2⟩)
        · refine ⟨h.1, ?_⟩
          rw [if_pos (by omega), if_pos (by omega)]
        · refine ⟨by omega, ?_⟩
          rw [if_neg (by omega), ← h2]; congr 1; omega
      · rintro ⟨h, h2⟩
        by_cases hlt : (p - off).toNat < n.toNat
        · left; omega
        · right
          rw [if_neg hlt] at h2
          refine ⟨by omega, ?_⟩
          rw [← h2]; congr 1; omega
    | span s e rv =>
      simp only [FSp.isLost, Bool.false_eq_true, if_false]
      generalize hLdef : (FSp.span s e rv).length = L at *
      have h1 : ¬ inLocs [] p := by simp [inLocs]
      constructor
      · rintro (h | ⟨h, h2⟩)
        · exact absurd h h1
        · refine ⟨by omega, ?_⟩
          rw [if_neg (by omega), ← h2]; congr 1; omega
      · rintro ⟨h, h2⟩
        right
        split at h2
        · exact absurd h2 (none_not_mem_coverSp_span s e rv _)
        · rename_i hlt
          refine ⟨by omega, ?_⟩
          rw [← h2]; congr 1; omega

/-- `shadow()` = `inverse().gaps()` covers exactly the parent positions the map does not cover -/
theorem shadow_spec (m s : FM) (hc : Chain 0 m.spans) (hle : lastEnd 0 m.spans ≤ m.parentLength)
    (h : shadow m = .ok s) (p : Int) :
    some p ∈ cover s ↔ (0 ≤ p ∧ p < m.parentLength ∧ some p ∉ cover m) := by
  obtain ⟨i, hi, hpl, hlen, hN, hcov⟩ := inverse_spec m hc hle
  unfold shadow at h
  rw [hi] at h
  simp only [] at h
  unfold gaps at h
  rw [fromLocations_mem _ _ p s h, locsOf_lost _ _ _ hN, hlen, ← cover_eq_coverL]
  simp only [Int.sub_zero]
  have hL : ((cover i).length : Int) = m.parentLength := by
    rw [← hlen]; exact coverL_length hN
  constructor
  · rintro ⟨⟨h0, h1⟩, h2⟩
    refine ⟨h0, h2, ?_⟩
    intro hm
    obtain ⟨j, hj⟩ := List.getElem?_of_mem hm
    have := (hcov p.toNat (j : Int)).2 ⟨by omega, by
      rw [show ((j : Int)).toNat = j by omega, hj]; congr 2; omega⟩
    rw [h1] at this; cases this
  · rintro ⟨h0, h1, h2⟩
    refine ⟨⟨h0, ?_⟩, h1⟩
    have hlt : p.toNat < (cover i).length := by omega
    rw [List.getElem?_eq_getElem hlt]
    cases hx : (cover i)[p.toNat] with
    | none => rfl
    | some j =>
      exfalso
      have h3 : (cover i)[p.toNat]? = some (some j) := by rw [List.getElem?_eq_getElem hlt, hx]
      have := (hcov p.toNat j).1 h3
      apply h2
      have h4 : (cover m)[j.toNat]? = some (some p) := by rw [this.2]; congr 2; omega
      exact List.mem_of_getElem? h4


/-! ### SortedFwd -/
/-- forward spans, sorted and non-overlapping in parent coordinates, inside `[0, parentLength]`,
    lost spans of non-negative length -/
def SortedFwd (m : FM) : Prop := Chain 0 m.spans ∧ lastEnd 0 m.spans ≤ m.parentLength
instance (m : FM) : Decidable (SortedFwd m) := by unfold SortedFwd; infer_instance

/-! ### inverse() stays inside its parent -/

theorem invTemp_bounds : ∀ (l : List FSp) (cum : Int), NonNegL l →
    ∀ q ∈ invTemp cum l, cum ≤ q.2.2.1 ∧ cum ≤ q.2.2.2 ∧ q.2.2.1 ≤ cum + lenL l ∧ q.2.2.2 ≤ cum + lenL l
  | [], _, _, q, hq => by simp [invTemp] at hq
  | .lost n :: r, cum, hN, q, hq => by
    simp only [invTemp] at hq
    have := invTemp_bounds r (cum + n) hN.tail q hq
    have hn : 0 ≤ n := hN.head
    simp only [lenL_cons, FSp.length]; omega
  | .span s e rv :: r, cum, hN, q, hq => by
    simp only [invTemp, List.mem_cons] at hq
    have hn : 0 ≤ e - s := hN.head
    have hr := lenL_nonneg hN.tail
    simp only [lenL_cons, FSp.length]
    rcases hq with rfl | hq
    · split <;> simp only [] <;> omega
    · have := invTemp_bounds r (cum + (e - s)) hN.tail q hq
      omega

theorem mem_insertQ (v x : Q) (L : List Q) : x ∈ insertQ v L ↔ x = v ∨ x ∈ L := by
  induction L with
  | nil => simp [insertQ]
  | cons y ys ih =>
    simp only [insertQ]
    split
    · simp
    · simp only [List.mem_cons, ih]
      constructor <;> (intro h; rcases h with h | h | h <;> simp [h])

theorem mem_sortedQ (T : List Q) (x : Q) : x ∈ T.foldr insertQ [] ↔ x ∈ T := by
  induction T with
  | nil => simp
  | cons y ys ih => simp only [List.foldr_cons, mem_insertQ, ih, List.mem_cons]

theorem invLoop_within (L : Int) : ∀ (T : List Q) (last : Int) (sp : List FSp) (ls : Int),
    (∀ q ∈ T, 0 ≤ q.2.2.1 ∧ 0 ≤ q.2.2.2 ∧ q.2.2.1 ≤ L ∧ q.2.2.2 ≤ L) →
    invLoop last T = .ok (sp, ls) → ∀ x ∈ sp, x.within L
  | [], _, sp, ls, _, h => by
    simp only [invLoop] at h; injection h with h; injection h with h1 h2; subst h1; simp
  | (s, e, cs, ce) :: r, last, sp, ls, hT, h => by
    simp only [invLoop] at h
    split at h
    · cases h
    · split at h
      · cases h
      · rename_i rest ls' hr
        have ih := invLoop_within L r e rest ls' (fun q hq => hT q (List.mem_cons_of_mem _ hq)) hr
        have hb := hT (s, e, cs, ce) List.mem_cons_self
        simp only [] at hb
        injection h with h; injection h with h1 h2; subst h1
        have hmk : (mkSpan cs ce (decide (cs > ce))).within L := by
          unfold mkSpan; split <;> simp only [FSp.within] <;> omega
        intro x hx
        simp only [List.mem_append] at hx
        rcases hx with hx | hx
        · split at hx <;> simp only [List.mem_cons, List.not_mem_nil, or_false] at hx
          · rcases hx with rfl | rfl
            · trivial
            · exact hmk
          · subst hx; exact hmk
        · exact ih x hx

/-- `inverse()` stays inside its parent, which is the map's own coordinate system `[0, len m]` -/
theorem inverse_within (m i : FM) (hN : NonNeg m) (h : inverse m = .ok i) :
    Within i ∧ i.parentLength = len m := by
  unfold inverse at h
  simp only [] at h
  split at h
  · cases h
  · rename_i sp ls hl
    injection h with h; subst h
    refine ⟨?_, rfl⟩
    have hb : ∀ q ∈ (invTemp 0 m.spans).foldr insertQ [],
        0 ≤ q.2.2.1 ∧ 0 ≤ q.2.2.2 ∧ q.2.2.1 ≤ len m ∧ q.2.2.2 ≤ len m := by
      intro q hq
      have := invTemp_bounds m.spans 0 hN q ((mem_sortedQ _ q).1 hq)
      rw [len_eq_lenL]; omega
    have := invLoop_within (len m) _ 0 sp ls hb hl
    intro x hx
    simp only [List.mem_append] at hx
    rcases hx with hx | hx
    · exact this x hx
    · split at hx
      · simp only [List.mem_cons, List.not_mem_nil, or_false] at hx; subst hx; trivial
      · simp at hx

/-- `shadow()` stays inside the parent of the inverse's inverse, i.e. `[0, len (inverse m)]` -/
theorem shadow_within (m s : FM) (h : shadow m = .ok s) : Within s := by
  unfold shadow at h
  split at h
  · cases h
  · exact (gaps_within _ _ h).1


/-! ### inverse() is an involution on complete sorted maps -/

/-- no lost spans (`FeatureMap.complete`) -/
def Complete (l : List FSp) : Prop := ∀ x ∈ l, x.isLost = false
instance (l : List FSp) : Decidable (Complete l) := by unfold Complete; infer_instance

theorem Complete.tail {x : FSp} {l : List FSp} (h : Complete (x :: l)) : Complete l :=
  fun y hy => h y (List.mem_cons_of_mem _ hy)

theorem chain_weaken : ∀ (l : List FSp) (lb lb' : Int), lb' ≤ lb → Chain lb l → Chain lb' l
  | [], _, _, _, _ => trivial
  | .lost n :: r, lb, lb', h, hc => by
    simp only [Chain] at hc ⊢; exact ⟨hc.1, chain_weaken r lb lb' h hc.2⟩
  | .span s e rv :: r, lb, lb', h, hc => by
    simp only [Chain] at hc ⊢; exact ⟨by omega, hc.2⟩

theorem chain_invC_append : ∀ (l : List FSp) (last cum lb : Int) (T : List FSp), Chain last l → lb ≤ cum →
    (∀ c, cum + lenL l ≤ c → Chain c T) → Chain lb (invC last cum l ++ T)
  | [], last, cum, lb, T, _, hlb, hT => by
    simp only [invC, List.nil_append]
    exact chain_weaken T cum lb hlb (hT cum (by simp))
  | .lost n :: r, last, cum, lb, T, h, hlb, hT => by
    simp only [Chain] at h
    simp only [invC]
    exact chain_invC_append r last (cum + n) lb T h.2 (by omega) (fun c hc => hT c (by simp only [lenL_cons, FSp.length]; omega))
  | .span s e rv :: r, last, cum, lb, T, h, hlb, hT => by
    simp only [Chain] at h
    have ih := chain_invC_append r e (cum + (e - s)) (cum + (e - s)) T h.2.2.2 (by omega)
      (fun c hc => hT c (by simp only [lenL_cons, FSp.length]; omega))
    simp only [invC]
    split
    · simp only [List.cons_append, List.nil_append, Chain]
      exact ⟨by omega, hlb, by omega, trivial, ih⟩
    · simp only [List.cons_append, List.nil_append, Chain]
      exact ⟨hlb, by omega, trivial, ih⟩

/-- inverting the inverse of a complete chain gives the chain back -/
theorem invC_invC : ∀ (l : List FSp) (last cum : Int) (T : List FSp), Chain last l → Complete l →
    invC cum last (invC last cum l ++ T) = l ++ invC (cum + lenL l) (lastEnd last l) T
  | [], last, cum, T, _, _ => by simp [invC, lastEnd]
  | .lost n :: r, last, cum, T, _, hC => by
    have := hC (.lost n) List.mem_cons_self
    simp [FSp.isLost] at this
  | .span s e rv :: r, last, cum, T, h, hC => by
    simp only [Chain] at h
    obtain ⟨hlb, hse, hrv, hc⟩ := h
    subst hrv
    have ih := invC_invC r e (cum + (e - s)) T hc hC.tail
    simp only [invC, lastEnd, lenL_cons, FSp.length]
    split
    · simp only [List.cons_append, List.nil_append, invC]
      rw [if_neg (by omega)]
      simp only [List.cons_append, List.nil_append]
      have e1 : last + (s - last) + (cum + (e - s) - cum) = e := by omega
      have e2 : cum + (e - s + lenL r) = cum + (e - s) + lenL r := by omega
      rw [e1, e2, ih]
      have e3 : last + (s - last) = s := by omega
      rw [e3]
    · have hs : s = last := by omega
      subst hs
      simp only [List.cons_append, List.nil_append, invC]
      rw [if_neg (by omega)]
      simp only [List.cons_append, List.nil_append]
      have e1 : s + (cum + (e - s) - cum) = e := by omega
      have e2 : cum + (e - s + lenL r) = cum + (e - s) + lenL r := by omega
      rw [e1, e2, ih]

theorem lastEnd_invC : ∀ (l : List FSp) (last cum : Int), Chain last l → Complete l →
    ∀ n, lastEnd cum (invC last cum l ++ [FSp.lost n]) = cum + lenL l ∧
      lastEnd cum (invC last cum l) = cum + lenL l
  | [], last, cum, _, _, n => by simp [invC, lastEnd]
  | .lost k :: r, last, cum, _, hC, n => by
    have := hC (.lost k) List.mem_cons_self
    simp [FSp.isLost] at this
  | .span s e rv :: r, last, cum, h, hC, n => by
    simp only [Chain] at h
    have ih := lastEnd_invC r e (cum + (e - s)) h.2.2.2 hC.tail n
    simp only [invC, lenL_cons, FSp.length]
    split <;> simp only [List.cons_append, List.nil_append, lastEnd] <;> (constructor <;> omega)

theorem inverse_inverse_complete (m i : FM) (hc : Chain 0 m.spans) (hle : lastEnd 0 m.spans ≤ m.parentLength)
    (hC : Complete m.spans) (h : inverse m = .ok i) : inverse i = .ok m := by
  obtain ⟨i', hi', hpl, hlen, _, _⟩ := inverse_spec m hc hle
  rw [h] at hi'; injection hi' with hi'; subst hi'
  rw [inverse_chain m hc] at h
  injection h with h
  have hci : Chain 0 i.spans := by
    rw [← h]
    simp only []
    apply chain_invC_append _ _ _ _ _ hc (by omega)
    intro c _
    split <;> simp [Chain]; omega
  rw [inverse_chain i hci, hlen]
  have hsp : i.spans = invC 0 0 m.spans ++
      (if m.parentLength > lastEnd 0 m.spans then [FSp.lost (m.parentLength - lastEnd 0 m.spans)] else []) := by
    rw [← h]
  have hL : lastEnd 0 i.spans = len m := by
    rw [hsp, len_eq_lenL]
    have := lastEnd_invC m.spans 0 0 hc hC (m.parentLength - lastEnd 0 m.spans)
    split
    · rw [this.1]; omega
    · rw [List.append_nil, this.2]; omega
  have hS : invC 0 0 i.spans = m.spans := by
    rw [hsp, invC_invC m.spans 0 0 _ hc hC]
    split <;> simp [invC]
  rw [hS, hL, hpl, if_neg (by omega), List.append_nil]


/-! ### covered(): result is sorted, disjoint, non-adjacent -/

/-- the sweep emits non-empty, strictly separated intervals whose end points are keys -/
theorem sweep_sep : ∀ (L : List (Int × Int)) (y : Int) (start : Option Int) (locs : List (Int × Int)),
    SSorted L → (∀ s0, start = some s0 → ∀ x ∈ L, s0 < x.1) → (y ≠ 0 → start.isSome = true) →
    sweep y start L = .ok locs →
    (∀ ab ∈ locs, ab.1 < ab.2) ∧ locs.Pairwise (fun a b => a.2 < b.1) ∧
    (∀ ab ∈ locs, (ab.1 ∈ keys L ∨ start = some ab.1) ∧ ab.2 ∈ keys L)
  | [], y, start, locs, _, _, _, h => by
    simp only [sweep] at h; injection h with h; subst h; simp
  | (x, d) :: r, y, start, locs, hS, hst, hy, h => by
    simp only [SSorted, List.pairwise_cons] at hS
    have hr' : ∀ z ∈ r, x < z.1 := fun z hz => by have := hS.1 z hz; simpa using this
    have hst' : ∀ s0, start = some s0 → ∀ z ∈ r, s0 < z.1 :=
      fun s0 h0 z hz => hst s0 h0 z (List.mem_cons_of_mem _ hz)
    have hkeys : ∀ j, j ∈ keys r → j ∈ keys ((x, d) :: r) := by
      intro j hj; simp only [keys, List.map_cons, List.mem_cons]; right; exact hj
    simp only [sweep] at h
    split at h
    · rename_i hc
      split at h
      · cases h
      · obtain ⟨A, B, C⟩ := sweep_sep r (y + d) (some x) locs hS.2
          (fun s0 h0 => by injection h0 with h0; subst h0; exact hr') (fun _ => rfl) h
        refine ⟨A, B, ?_⟩
        intro ab hab
        obtain ⟨c1, c2⟩ := C ab hab
        refine ⟨?_, hkeys _ c2⟩
        rcases c1 with c1 | c1
        · left; exact hkeys _ c1
        · injection c1 with c1; left; simp [keys, c1]
    · split at h
      · rename_i _ hc
        cases hrest : sweep (y + d) none r with
        | error er => rw [hrest] at h; cases h
        | ok rest =>
          rw [hrest] at h
          injection h with h; subst h
          obtain ⟨A, B, C⟩ := sweep_sep r (y + d) none rest hS.2 (fun s0 h0 => by cases h0)
            (fun h0 => absurd hc.2 h0) hrest
          have hsome := hy hc.1
          obtain ⟨s0, hs0⟩ := Option.isSome_iff_exists.1 hsome
          subst hs0
          simp only [Option.getD_some]
          have hs0x : s0 < x := hst s0 rfl (x, d) List.mem_cons_self
          refine ⟨?_, ?_, ?_⟩
          · intro ab hab
            simp only [List.mem_cons] at hab
            rcases hab with rfl | hab
            · exact hs0x
            · exact A ab hab
          · simp only [List.pairwise_cons]
            refine ⟨?_, B⟩
            intro ab hab
            obtain ⟨c1, _⟩ := C ab hab
            rcases c1 with c1 | c1
            · simp only [keys, List.mem_map] at c1
              obtain ⟨z, hz, hz1⟩ := c1
              have := hr' z hz
              show x < ab.1
              omega
            · cases c1
          · intro ab hab
            simp only [List.mem_cons] at hab
            rcases hab with rfl | hab
            · exact ⟨Or.inr rfl, by simp [keys]⟩
            · obtain ⟨c1, c2⟩ := C ab hab
              refine ⟨?_, hkeys _ c2⟩
              rcases c1 with c1 | c1
              · left; exact hkeys _ c1
              · cases c1
      · rename_i hc1 hc2
        have hy' : y + d ≠ 0 → start.isSome = true := by
          intro h0
          by_cases hy0 : y = 0
          · exact absurd ⟨h0, hy0⟩ hc1
          · exact hy hy0
        obtain ⟨A, B, C⟩ := sweep_sep r (y + d) start locs hS.2 hst' hy' h
        refine ⟨A, B, ?_⟩
        intro ab hab
        obtain ⟨c1, c2⟩ := C ab hab
        refine ⟨?_, hkeys _ c2⟩
        rcases c1 with c1 | c1
        · left; exact hkeys _ c1
        · right; exact c1

theorem keys_foldl (l : List FSp) (d : List (Int × Int)) (j : Int)
    (h : j ∈ keys (l.foldl deltaStep d)) :
    j ∈ keys d ∨ ∃ s e rv, .span s e rv ∈ l ∧ (j = s ∨ j = e) := by
  induction l generalizing d with
  | nil => left; exact h
  | cons x xs ih =>
    simp only [List.foldl_cons] at h
    rcases ih _ h with h1 | ⟨s, e, rv, hm, hj⟩
    · cases x with
      | lost n => left; exact h1
      | span a b rv =>
        simp only [deltaStep, mem_keys_deltaAdd] at h1
        rcases h1 with h1 | h1 | h1
        · right; exact ⟨a, b, rv, List.mem_cons_self, Or.inr h1⟩
        · right; exact ⟨a, b, rv, List.mem_cons_self, Or.inl h1⟩
        · left; exact h1
    · right; exact ⟨s, e, rv, List.mem_cons_of_mem _ hm, hj⟩

theorem spansFromLocs_exact (pl : Int) : ∀ (locs : List (Int × Int)),
    (∀ ab ∈ locs, 0 ≤ ab.1 ∧ ab.1 ≤ ab.2 ∧ ab.2 ≤ pl) →
    spansFromLocs pl locs = .ok (locs.map (fun ab => FSp.span ab.1 ab.2 false))
  | [], _ => rfl
  | (s, e) :: r, h => by
    have h0 := h (s, e) List.mem_cons_self
    simp only [] at h0
    unfold spansFromLocs
    rw [if_neg (by omega), if_neg (by omega), spansFromLocs_exact pl r (fun ab hab => h ab (List.mem_cons_of_mem _ hab))]
    simp only []
    rw [if_neg (by omega)]
    rfl

/-- `covered()`: the result consists of non-empty forward spans that are sorted, disjoint and
    non-adjacent -/
theorem covered_separated (m c : FM) (hw : Within m) (h : covered m = .ok c) :
    ∃ locs : List (Int × Int), c.spans = locs.map (fun ab => FSp.span ab.1 ab.2 false) ∧
      (∀ ab ∈ locs, ab.1 < ab.2) ∧ locs.Pairwise (fun a b => a.2 < b.1) := by
  rw [covered_unfold] at h
  split at h
  · cases h
  · rename_i locs hsw
    have hS := ssorted_sorted (m.spans.foldl deltaStep []) (keys_nodup_foldl _ _ (by simp [keys]))
    obtain ⟨A, B, C⟩ := sweep_sep _ 0 none locs hS (fun s0 h0 => by cases h0) (fun h0 => absurd rfl h0) hsw
    refine ⟨locs, ?_, A, B⟩
    have hkey : ∀ j, j ∈ keys ((m.spans.foldl deltaStep []).foldr insertKey []) → 0 ≤ j ∧ j ≤ m.parentLength := by
      intro j hj
      simp only [keys, List.mem_map] at hj
      obtain ⟨z, hz, rfl⟩ := hj
      have hz' := (mem_sorted _ z).1 hz
      have : z.1 ∈ keys (m.spans.foldl deltaStep []) := by
        simp only [keys, List.mem_map]; exact ⟨z, hz', rfl⟩
      rcases keys_foldl _ _ _ this with h1 | ⟨s, e, rv, hm, hj⟩
      · simp [keys] at h1
      · have := hw _ hm
        simp only [FSp.within] at this
        rcases hj with hj | hj <;> omega
    have hb : ∀ ab ∈ locs, 0 ≤ ab.1 ∧ ab.1 ≤ ab.2 ∧ ab.2 ≤ m.parentLength := by
      intro ab hab
      obtain ⟨c1, c2⟩ := C ab hab
      have := A ab hab
      rcases c1 with c1 | c1
      · have := hkey _ c1; have := hkey _ c2; omega
      · cases c1
    unfold fromLocations at h
    split at h
    · cases h
    · rename_i sp hs
      injection h with h; subst h
      simp only []
      cases locs with
      | nil => simp [spansFromLocations] at hs; subst hs; rfl
      | cons first rest =>
        unfold spansFromLocations at hs
        split at hs
        · split at hs
          · cases hs
          · rw [spansFromLocs_exact _ _ hb] at hs
            injection hs with hs; exact hs.symm
        · rename_i hno
          exfalso
          cases hl : (first :: rest).getLast? with
          | none => simp at hl
          | some last => exact hno first rest last rfl hl


/-! ### inverse() in general: the loop over sorted tuples -/

/-- what the `inverse()` tuple `(start, end, cum_start, cum_end)` says about parent position `k` -/
def tupAt (q : Q) (k : Int) : Option Int :=
  if q.1 ≤ k ∧ k < q.2.1 then
    some (if q.2.2.1 ≤ q.2.2.2 then q.2.2.1 + (k - q.1) else q.2.2.1 - 1 - (k - q.1))
  else none

def wfQ (q : Q) : Prop :=
  q.1 ≤ q.2.1 ∧ (q.2.2.2 - q.2.2.1 = q.2.1 - q.1 ∨ q.2.2.1 - q.2.2.2 = q.2.1 - q.1)

/-- tuples sorted and non-overlapping in parent coordinates, from `last` on -/
def QChain (last : Int) : List Q → Prop
  | [] => True
  | q :: r => last ≤ q.1 ∧ wfQ q ∧ QChain q.2.1 r

theorem qchain_mem : ∀ (T : List Q) (lb : Int), QChain lb T → ∀ q ∈ T, lb ≤ q.1
  | [], _, _, q, hq => by simp at hq
  | q0 :: r, lb, h, q, hq => by
    simp only [QChain] at h
    simp only [List.mem_cons] at hq
    rcases hq with rfl | hq
    · exact h.1
    · have := qchain_mem r _ h.2.2 q hq
      have := h.2.1.1; omega

theorem coverSp_mk_getElem? (s e cs ce : Int) (hw : wfQ (s, e, cs, ce)) (t : Nat) :
    (coverSp (mkSpan cs ce (decide (cs > ce))))[t]? =
      if t < (e - s).toNat then some (some (if cs ≤ ce then cs + (t : Int) else cs - 1 - (t : Int))) else none := by
  simp only [wfQ] at hw
  by_cases hc : cs ≤ ce
  · have hd : decide (cs > ce) = false := by simp; omega
    have : mkSpan cs ce false = .span cs ce false := by unfold mkSpan; rw [if_neg (by omega)]
    rw [hd, this, coverSp_span_irange]
    simp only [Bool.false_eq_true, if_false, irange_getElem?, if_pos hc]
    have : (ce - cs).toNat = (e - s).toNat := by omega
    rw [this]
  · have hd : decide (cs > ce) = true := by simp; omega
    have : mkSpan cs ce true = .span ce cs true := by unfold mkSpan; rw [if_pos (by omega)]
    rw [hd, this, coverSp_span_irange]
    simp only [if_true, if_neg hc]
    have hl : (irange ce cs some).length = (e - s).toNat := by
      simp only [irange, List.length_map, List.length_range]; omega
    split
    · rename_i ht
      rw [List.getElem?_eq_getElem (by simp only [List.length_reverse, hl]; exact ht)]
      rw [List.getElem_reverse]
      have h2 := irange_getElem? ce cs ((irange ce cs some).length - 1 - t)
      rw [if_pos (by omega), List.getElem?_eq_getElem (by omega)] at h2
      rw [h2]; congr 2; omega
    · rename_i ht
      rw [List.getElem?_eq_none (by simp only [List.length_reverse, hl]; omega)]

/-- the loop of `inverse()` over sorted non-overlapping tuples -/
theorem invLoop_cover : ∀ (T : List Q) (last : Int), QChain last T →
    ∃ sp ls, invLoop last T = .ok (sp, ls) ∧ NonNegL sp ∧ last ≤ ls ∧ lenL sp = ls - last ∧
      (∀ q ∈ T, q.2.1 ≤ ls) ∧
      ∀ (k : Nat) (j : Int), (coverL sp)[k]? = some (some j) ↔ ∃ q ∈ T, tupAt q (last + (k : Int)) = some j
  | [], last, _ => ⟨[], last, rfl, by simp [NonNegL], by omega, by simp, by simp, by simp⟩
  | (s, e, cs, ce) :: r, last, h => by
    simp only [QChain] at h
    obtain ⟨hlb, hw, hc⟩ := h
    obtain ⟨sp', ls, hl, hN, hle, hlen, hub, hcov⟩ := invLoop_cover r e hc
    have hw' := hw
    simp only [wfQ] at hw'
    simp only [invLoop]
    rw [if_neg (by omega), hl]
    simp only []
    have hmklen : (mkSpan cs ce (decide (cs > ce))).length = e - s := by
      unfold mkSpan; split <;> simp only [FSp.length] <;> omega
    refine ⟨_, ls, rfl, ?_, by omega, ?_, ?_, ?_⟩
    · intro x hx
      simp only [List.mem_append] at hx
      rcases hx with hx | hx
      · split at hx <;> simp only [List.mem_cons, List.not_mem_nil, or_false] at hx
        · rcases hx with rfl | rfl
          · simp only [FSp.length]; omega
          · rw [hmklen]; omega
        · subst hx; rw [hmklen]; omega
      · exact hN x hx
    · have hlost : (FSp.lost (s - last)).length = s - last := rfl
      simp only [lenL_append, hlen]
      split <;> simp only [lenL_cons, lenL_nil, hmklen, hlost] <;> omega
    · intro q hq
      simp only [List.mem_cons] at hq
      rcases hq with rfl | hq
      · exact hle
      · exact hub q hq
    · intro k j
      have hcl : coverL ((if s > last then [FSp.lost (s - last), mkSpan cs ce (decide (cs > ce))]
          else [mkSpan cs ce (decide (cs > ce))]) ++ sp') =
          List.replicate (s - last).toNat none ++ (coverSp (mkSpan cs ce (decide (cs > ce))) ++ coverL sp') := by
        split
        · simp only [coverL_append, coverL_cons, coverL_nil, List.append_nil, coverSp_lost, List.append_assoc]
        · have : (s - last).toNat = 0 := by omega
          simp only [coverL_append, coverL_cons, coverL_nil, List.append_nil, this, List.replicate_zero,
            List.nil_append]
      rw [hcl]
      have hlen2 : (coverSp (mkSpan cs ce (decide (cs > ce)))).length = (e - s).toNat := by
        rw [coverSp_length, hmklen]
      simp only [List.getElem?_append, List.length_replicate, hlen2]
      have hrest : ∀ q ∈ r, ∀ k' : Int, k' < e → tupAt q k' = none := by
        intro q hq k' hk'
        have := qchain_mem r e hc q hq
        simp only [tupAt]; rw [if_neg (by omega)]
      have hq0 : ∀ k' : Int, tupAt (s, e, cs, ce) k' =
          if s ≤ k' ∧ k' < e then some (if cs ≤ ce then cs + (k' - s) else cs - 1 - (k' - s)) else none := fun _ => rfl
      have hex : ∀ (P : Q → Prop), (∃ q ∈ (s, e, cs, ce) :: r, P q) ↔ (P (s, e, cs, ce) ∨ ∃ q ∈ r, P q) := by
        intro P; simp only [List.mem_cons, exists_eq_or_imp]
      rw [hex]
      by_cases hk1 : k < (s - last).toNat
      · rw [if_pos hk1, List.getElem?_replicate, if_pos hk1]
        constructor
        · intro h0; cases h0
        · rintro (h0 | ⟨q, hq, h0⟩)
          · rw [hq0, if_neg (by omega)] at h0; cases h0
          · rw [hrest q hq _ (by omega)] at h0; cases h0
      · rw [if_neg hk1]
        by_cases hk2 : k - (s - last).toNat < (e - s).toNat
        · rw [if_pos hk2, coverSp_mk_getElem? s e cs ce hw, if_pos hk2, hq0,
            if_pos (show s ≤ last + (k : Int) ∧ last + (k : Int) < e from by omega)]
          have hidx : last + (k : Int) - s = ((k - (s - last).toNat : Nat) : Int) := by omega
          rw [hidx]
          constructor
          · intro h0; left; injection h0
          · rintro (h0 | ⟨q, hq, h0⟩)
            · rw [h0]
            · rw [hrest q hq _ (by omega)] at h0; cases h0
        · rw [if_neg hk2, hcov]
          have e1 : e + ((k - (s - last).toNat - (e - s).toNat : Nat) : Int) = last + (k : Int) := by omega
          rw [e1]
          constructor
          · intro h0; right; exact h0
          · rintro (h0 | h0)
            · rw [hq0, if_neg (by omega)] at h0; cases h0
            · exact h0


/-! ### inverse() in general: the tuples describe the map -/

theorem coverSp_span_getElem? (s e : Int) (rv : Bool) (t : Nat) :
    (coverSp (.span s e rv))[t]? =
      if t < (e - s).toNat then some (some (if rv then e - 1 - (t : Int) else s + (t : Int))) else none := by
  rw [coverSp_span_irange]
  cases rv with
  | false => simp only [Bool.false_eq_true, if_false, irange_getElem?]
  | true =>
    simp only [if_true]
    have hl : (irange s e some).length = (e - s).toNat := by
      simp only [irange, List.length_map, List.length_range]
    split
    · rename_i ht
      rw [List.getElem?_eq_getElem (by simp only [List.length_reverse, hl]; exact ht)]
      rw [List.getElem_reverse]
      have h2 := irange_getElem? s e ((irange s e some).length - 1 - t)
      rw [if_pos (by omega), List.getElem?_eq_getElem (by omega)] at h2
      rw [h2]; congr 2; omega
    · rename_i ht
      rw [List.getElem?_eq_none (by simp only [List.length_reverse, hl]; omega)]

/-- the tuples collected by `inverse()` describe the map: map position `j` points at parent
    position `k` iff some tuple says so -/
theorem cover_tup : ∀ (l : List FSp) (cum : Int), NonNegL l → ∀ (k j : Int),
    ((cum ≤ j ∧ (coverL l)[(j - cum).toNat]? = some (some k)) ↔ ∃ q ∈ invTemp cum l, tupAt q k = some j)
  | [], cum, _, k, j => by simp [invTemp]
  | .lost n :: r, cum, hN, k, j => by
    have hn : 0 ≤ n := hN.head
    simp only [invTemp]
    rw [← cover_tup r (cum + n) hN.tail k j]
    simp only [coverL_cons, coverSp_lost, List.getElem?_append, List.length_replicate]
    constructor
    · rintro ⟨h1, h2⟩
      split at h2
      · rw [List.getElem?_replicate] at h2
        split at h2 <;> cases h2
      · refine ⟨by omega, ?_⟩
        rw [← h2]; congr 1; omega
    · rintro ⟨h1, h2⟩
      refine ⟨by omega, ?_⟩
      rw [if_neg (by omega), ← h2]; congr 1; omega
  | .span s e rv :: r, cum, hN, k, j => by
    have hn : 0 ≤ e - s := hN.head
    have ih := cover_tup r (cum + (e - s)) hN.tail k j
    simp only [invTemp, List.mem_cons, exists_eq_or_imp]
    rw [← ih]
    simp only [coverL_cons, List.getElem?_append, coverSp_length, coverSp_span_getElem?]
    have hlen : (FSp.span s e rv).length = e - s := rfl
    rw [hlen]
    have htup : tupAt (if rv = true then (s, e, cum + (e - s), cum) else (s, e, cum, cum + (e - s))) k = some j ↔
        (cum ≤ j ∧ j < cum + (e - s) ∧ k = (if rv then e - 1 - (j - cum) else s + (j - cum))) := by
      cases rv with
      | false =>
        simp only [Bool.false_eq_true, if_false, tupAt]
        have hc : cum ≤ cum + (e - s) := by omega
        simp only [if_pos hc]
        by_cases hr : s ≤ k ∧ k < e
        · simp only [if_pos hr, Option.some.injEq]; omega
        · simp only [if_neg hr]
          constructor
          · intro h; cases h
          · intro h; omega
      | true =>
        simp only [if_true, tupAt]
        by_cases hr : s ≤ k ∧ k < e
        · have hc : ¬ (cum + (e - s) ≤ cum) := by omega
          simp only [if_pos hr, if_neg hc, Option.some.injEq]; omega
        · simp only [if_neg hr]
          constructor
          · intro h; cases h
          · intro h; omega
    rw [htup]
    constructor
    · rintro ⟨h1, h2⟩
      split at h2
      · rename_i hlt
        left
        simp only [Option.some.injEq] at h2
        refine ⟨h1, by omega, ?_⟩
        rw [← h2]; cases rv <;> simp <;> omega
      · rename_i hlt
        right
        refine ⟨by omega, ?_⟩
        rw [← h2]; congr 1; omega
    · rintro (⟨h1, h2, h3⟩ | ⟨h1, h2⟩)
      · refine ⟨h1, ?_⟩
        rw [if_pos (by omega), if_pos (by omega), h3]
        cases rv <;> simp <;> omega
      · refine ⟨by omega, ?_⟩
        rw [if_neg (by omega), ← h2]; congr 1; omega


/-! ### inverse() in general: sorting and the full specification -/

/-- two spans do not overlap in parent coordinates (touching allowed; lost spans never overlap) -/
def disjSp : FSp → FSp → Prop
  | .span s1 e1 _, .span s2 e2 _ => e1 ≤ s2 ∨ e2 ≤ s1
  | _, _ => True

instance : DecidableRel disjSp := fun a b => by
  cases a <;> cases b <;> unfold disjSp <;> infer_instance

/-- the real spans are pairwise non-overlapping in parent coordinates (any order, any direction) -/
def NoOverlap (m : FM) : Prop := m.spans.Pairwise disjSp
instance (m : FM) : Decidable (NoOverlap m) := by unfold NoOverlap; infer_instance

def disjQ (a b : Q) : Prop := a.2.1 ≤ b.1 ∨ b.2.1 ≤ a.1

theorem invTemp_mem_span : ∀ (l : List FSp) (cum : Int) (q : Q), q ∈ invTemp cum l →
    ∃ rv, FSp.span q.1 q.2.1 rv ∈ l
  | [], _, q, h => by simp [invTemp] at h
  | .lost n :: r, cum, q, h => by
    simp only [invTemp] at h
    obtain ⟨rv, hrv⟩ := invTemp_mem_span r _ q h
    exact ⟨rv, List.mem_cons_of_mem _ hrv⟩
  | .span s e rv :: r, cum, q, h => by
    simp only [invTemp, List.mem_cons] at h
    rcases h with rfl | h
    · refine ⟨rv, ?_⟩
      cases rv <;> simp
    · obtain ⟨rv', hrv⟩ := invTemp_mem_span r _ q h
      exact ⟨rv', List.mem_cons_of_mem _ hrv⟩

theorem invTemp_wf : ∀ (l : List FSp) (cum : Int), NonNegL l → ∀ q ∈ invTemp cum l, wfQ q
  | [], _, _, q, h => by simp [invTemp] at h
  | .lost n :: r, cum, hN, q, h => by
    simp only [invTemp] at h
    exact invTemp_wf r _ hN.tail q h
  | .span s e rv :: r, cum, hN, q, h => by
    have hn : 0 ≤ e - s := hN.head
    simp only [invTemp, List.mem_cons] at h
    rcases h with rfl | h
    · cases rv <;> simp only [wfQ, Bool.false_eq_true, if_false, if_true] <;> omega
    · exact invTemp_wf r _ hN.tail q h

theorem invTemp_disj : ∀ (l : List FSp) (cum : Int), l.Pairwise disjSp → (invTemp cum l).Pairwise disjQ
  | [], _, _ => by simp [invTemp]
  | .lost n :: r, cum, h => by
    simp only [List.pairwise_cons] at h
    simp only [invTemp]
    exact invTemp_disj r _ h.2
  | .span s e rv :: r, cum, h => by
    simp only [List.pairwise_cons] at h
    simp only [invTemp, List.pairwise_cons]
    refine ⟨?_, invTemp_disj r _ h.2⟩
    intro q hq
    obtain ⟨rv', hrv⟩ := invTemp_mem_span r _ q hq
    have := h.1 _ hrv
    simp only [disjSp] at this
    cases rv <;> simpa [disjQ] using this

theorem qle_total (a b : Q) (h : qle a b = false) : qle b a = true := by
  obtain ⟨a1, a2, a3, a4⟩ := a
  obtain ⟨b1, b2, b3, b4⟩ := b
  simp only [qle, decide_eq_false_iff_not, decide_eq_true_eq] at h ⊢
  omega

theorem qle_trans (a b c : Q) (h1 : qle a b = true) (h2 : qle b c = true) : qle a c = true := by
  obtain ⟨a1, a2, a3, a4⟩ := a
  obtain ⟨b1, b2, b3, b4⟩ := b
  obtain ⟨c1, c2, c3, c4⟩ := c
  simp only [qle, decide_eq_true_eq] at h1 h2 ⊢
  omega

theorem insertQ_sorted (v : Q) : ∀ (L : List Q), L.Pairwise (fun a b => qle a b = true) →
    (insertQ v L).Pairwise (fun a b => qle a b = true)
  | [], _ => by simp [insertQ]
  | x :: xs, h => by
    simp only [List.pairwise_cons] at h
    simp only [insertQ]
    split
    · rename_i hvx
      simp only [List.pairwise_cons]
      refine ⟨?_, h.1, h.2⟩
      intro z hz
      simp only [List.mem_cons] at hz
      rcases hz with rfl | hz
      · exact hvx
      · exact qle_trans _ _ _ hvx (h.1 z hz)
    · rename_i hvx
      simp only [List.pairwise_cons]
      refine ⟨?_, insertQ_sorted v xs h.2⟩
      intro z hz
      rcases (mem_insertQ v z xs).1 hz with rfl | hz
      · exact qle_total _ _ (by simpa using hvx)
      · exact h.1 z hz

theorem sort_sorted : ∀ (T : List Q), (T.foldr insertQ []).Pairwise (fun a b => qle a b = true)
  | [] => by simp
  | x :: xs => by simp only [List.foldr_cons]; exact insertQ_sorted x _ (sort_sorted xs)

theorem insertQ_pairwise (R : Q → Q → Prop) (hsym : ∀ a b, R a b → R b a) (v : Q) :
    ∀ (L : List Q), (∀ x ∈ L, R v x) → L.Pairwise R → (insertQ v L).Pairwise R
  | [], _, _ => by simp [insertQ]
  | x :: xs, hv, h => by
    simp only [List.pairwise_cons] at h
    simp only [insertQ]
    split
    · simp only [List.pairwise_cons]
      exact ⟨hv, h.1, h.2⟩
    · simp only [List.pairwise_cons]
      refine ⟨?_, insertQ_pairwise R hsym v xs (fun z hz => hv z (List.mem_cons_of_mem _ hz)) h.2⟩
      intro z hz
      rcases (mem_insertQ v z xs).1 hz with rfl | hz
      · exact hsym _ _ (hv x List.mem_cons_self)
      · exact h.1 z hz

theorem sort_pairwise (R : Q → Q → Prop) (hsym : ∀ a b, R a b → R b a) :
    ∀ (T : List Q), T.Pairwise R → (T.foldr insertQ []).Pairwise R
  | [], _ => by simp
  | x :: xs, h => by
    simp only [List.pairwise_cons] at h
    simp only [List.foldr_cons]
    apply insertQ_pairwise R hsym x _ _ (sort_pairwise R hsym xs h.2)
    intro z hz
    exact h.1 z ((mem_sortedQ xs z).1 hz)

theorem qchain_of_sorted : ∀ (T : List Q) (last : Int), (∀ q ∈ T, last ≤ q.1 ∧ wfQ q) →
    T.Pairwise (fun a b => qle a b = true) → T.Pairwise disjQ → QChain last T
  | [], _, _, _, _ => trivial
  | q :: r, last, hall, hs, hd => by
    simp only [List.pairwise_cons] at hs hd
    have hq := hall q List.mem_cons_self
    simp only [QChain]
    refine ⟨hq.1, hq.2, ?_⟩
    apply qchain_of_sorted r q.2.1 _ hs.2 hd.2
    intro q' hq'
    have hw' := (hall q' (List.mem_cons_of_mem _ hq')).2
    refine ⟨?_, hw'⟩
    have h1 := hs.1 q' hq'
    have h2 := hd.1 q' hq'
    have hw := hq.2
    obtain ⟨a1, a2, a3, a4⟩ := q
    obtain ⟨b1, b2, b3, b4⟩ := q'
    simp only [qle, decide_eq_true_eq, disjQ, wfQ] at h1 h2 hw hw' ⊢
    omega

theorem invLoop_ls : ∀ (T : List Q) (last : Int) (sp : List FSp) (ls : Int),
    invLoop last T = .ok (sp, ls) → ls = last ∨ ∃ q ∈ T, ls = q.2.1
  | [], last, sp, ls, h => by
    simp only [invLoop] at h; injection h with h; injection h with h1 h2; left; exact h2.symm
  | (s, e, cs, ce) :: r, last, sp, ls, h => by
    simp only [invLoop] at h
    split at h
    · cases h
    · split at h
      · cases h
      · rename_i rest ls' hr
        injection h with h; injection h with h1 h2; subst h2
        right
        rcases invLoop_ls r e rest ls' hr with h3 | ⟨q, hq, h3⟩
        · exact ⟨(s, e, cs, ce), List.mem_cons_self, h3⟩
        · exact ⟨q, List.mem_cons_of_mem _ hq, h3⟩

/-- `inverse()` of any map whose real spans are pairwise non-overlapping, inside the parent and of
    non-negative length — in any order and any direction -/
theorem inverse_general_spec (m : FM) (hN : NonNeg m) (hw : Within m) (hd : NoOverlap m)
    (hpl : 0 ≤ m.parentLength) :
    ∃ i, inverse m = .ok i ∧ i.parentLength = len m ∧ len i = m.parentLength ∧ NonNeg i ∧
      ∀ (k : Nat) (j : Int), (cover i)[k]? = some (some j) ↔
        (0 ≤ j ∧ (cover m)[j.toNat]? = some (some (k : Int))) := by
  have hall : ∀ q ∈ (invTemp 0 m.spans).foldr insertQ [], (0 : Int) ≤ q.1 ∧ wfQ q := by
    intro q hq
    have hq' := (mem_sortedQ _ q).1 hq
    refine ⟨?_, invTemp_wf _ _ hN q hq'⟩
    obtain ⟨rv, hrv⟩ := invTemp_mem_span _ _ q hq'
    have := hw _ hrv; simp only [FSp.within] at this; omega
  have hdq : ((invTemp 0 m.spans).foldr insertQ []).Pairwise disjQ :=
    sort_pairwise disjQ (fun a b h => by simp only [disjQ] at h ⊢; omega) _ (invTemp_disj _ _ hd)
  have hch := qchain_of_sorted _ 0 hall (sort_sorted _) hdq
  obtain ⟨sp, ls, hl, hNs, hle, hlen, hub, hcov⟩ := invLoop_cover _ 0 hch
  have hls : ls ≤ m.parentLength := by
    rcases invLoop_ls _ _ _ _ hl with h1 | ⟨q, hq, h1⟩
    · omega
    · obtain ⟨rv, hrv⟩ := invTemp_mem_span _ _ q ((mem_sortedQ _ q).1 hq)
      have := hw _ hrv; simp only [FSp.within] at this; omega
  refine ⟨⟨sp ++ (if m.parentLength > ls then [FSp.lost (m.parentLength - ls)] else []), len m⟩, ?_, rfl, ?_, ?_, ?_⟩
  · unfold inverse
    simp only []
    rw [hl]
  · simp only [len_eq_lenL, lenL_append, hlen]
    split <;> simp [FSp.length] <;> omega
  · intro x hx
    simp only [List.mem_append] at hx
    rcases hx with hx | hx
    · exact hNs x hx
    · split at hx
      · simp only [List.mem_cons, List.not_mem_nil, or_false] at hx
        subst hx; simp only [FSp.length]; omega
      · simp at hx
  · intro k j
    have hA : (cover ⟨sp ++ (if m.parentLength > ls then [FSp.lost (m.parentLength - ls)] else []), len m⟩)[k]?
        = some (some j) ↔ (coverL sp)[k]? = some (some j) := by
      rw [cover_eq_coverL]
      simp only [coverL_append]
      split
      · simp only [coverL_cons, coverL_nil, List.append_nil, coverSp_lost]
        exact getElem?_append_nones _ _ _ _
      · simp
    rw [hA, hcov k j]
    have hB := cover_tup m.spans 0 hN (k : Int) j
    simp only [Int.sub_zero] at hB
    rw [cover_eq_coverL, hB]
    simp only [Int.zero_add]
    constructor
    · rintro ⟨q, hq, h⟩; exact ⟨q, (mem_sortedQ _ q).1 hq, h⟩
    · rintro ⟨q, hq, h⟩; exact ⟨q, (mem_sortedQ _ q).2 hq, h⟩


/-! ### shadow() in general -/

/-- `shadow()` for any non-overlapping map (any order, any direction) -/
theorem shadow_general_spec (m s : FM) (hN : NonNeg m) (hw : Within m) (hd : NoOverlap m)
    (hpl0 : 0 ≤ m.parentLength) (h : shadow m = .ok s) (p : Int) :
    some p ∈ cover s ↔ (0 ≤ p ∧ p < m.parentLength ∧ some p ∉ cover m) := by
  obtain ⟨i, hi, hpl, hlen, hN, hcov⟩ := inverse_general_spec m hN hw hd hpl0
  unfold shadow at h
  rw [hi] at h
  simp only [] at h
  unfold gaps at h
  rw [fromLocations_mem _ _ p s h, locsOf_lost _ _ _ hN, hlen, ← cover_eq_coverL]
  simp only [Int.sub_zero]
  have hL : ((cover i).length : Int) = m.parentLength := by
    rw [← hlen]; exact coverL_length hN
  constructor
  · rintro ⟨⟨h0, h1⟩, h2⟩
    refine ⟨h0, h2, ?_⟩
    intro hm
    obtain ⟨j, hj⟩ := List.getElem?_of_mem hm
    have := (hcov p.toNat (j : Int)).2 ⟨by omega, by
      rw [show ((j : Int)).toNat = j by omega, hj]; congr 2; omega⟩
    rw [h1] at this; cases this
  · rintro ⟨h0, h1, h2⟩
    refine ⟨⟨h0, ?_⟩, h1⟩
    have hlt : p.toNat < (cover i).length := by omega
    rw [List.getElem?_eq_getElem hlt]
    cases hx : (cover i)[p.toNat] with
    | none => rfl
    | some j =>
      exfalso
      have h3 : (cover i)[p.toNat]? = some (some j) := by rw [List.getElem?_eq_getElem hlt, hx]
      have := (hcov p.toNat j).1 h3
      apply h2
      have h4 : (cover m)[j.toNat]? = some (some p) := by rw [this.2]; congr 2; omega
      exact List.mem_of_getElem? h4

theorem shadow_parent (m s : FM) (hN : NonNeg m) (hw : Within m) (hd : NoOverlap m)
    (hpl0 : 0 ≤ m.parentLength) (h : shadow m = .ok s) : s.parentLength = m.parentLength := by
  obtain ⟨i, hi, hpl, hlen, _, _⟩ := inverse_general_spec m hN hw hd hpl0
  unfold shadow at h
  rw [hi] at h
  simp only [] at h
  rw [(gaps_within i s h).2, hlen]


/-! ### nucleic_reversed: set-level mirror -/

/-- `nucleic_reversed()` mirrors the covered SET of parent positions, also for reversed spans -/
theorem nucleicReversed_mem (m r : FM) (hw : Within m) (h : nucleicReversed m = .ok r) (p : Int) :
    some p ∈ cover r ↔ some (m.parentLength - 1 - p) ∈ cover m := by
  rw [nucleicReversed_total m hw] at h
  injection h with h; subst h
  rw [cover_eq_coverL, cover_eq_coverL, mem_coverL, mem_coverL]
  simp only [List.mem_reverse, List.mem_map]
  constructor
  · rintro ⟨s, e, rv, ⟨x, hx, hxe⟩, h1, h2⟩
    cases x with
    | lost n => simp [revSp] at hxe
    | span s0 e0 rv0 =>
      have h0 := hw _ hx
      simp only [FSp.within] at h0
      simp only [revSp, mkSpan] at hxe
      rw [if_neg (by omega)] at hxe
      injection hxe with a b c
      exact ⟨s0, e0, rv0, hx, by omega, by omega⟩
  · rintro ⟨s, e, rv, hx, h1, h2⟩
    have h0 := hw _ hx
    simp only [FSp.within] at h0
    refine ⟨m.parentLength - e, m.parentLength - e + (e - s), false, ⟨_, hx, ?_⟩, by omega, by omega⟩
    simp only [revSp, mkSpan]
    rw [if_neg (by omega)]


/-! ### inverse(inverse(m)) denotes m -/

/-- the map-coordinate blocks of two tuples do not overlap -/
def cdisj (a b : Q) : Prop :=
  max a.2.2.1 a.2.2.2 ≤ min b.2.2.1 b.2.2.2 ∨ max b.2.2.1 b.2.2.2 ≤ min a.2.2.1 a.2.2.2

theorem invTemp_cdisj : ∀ (l : List FSp) (cum : Int), NonNegL l → (invTemp cum l).Pairwise cdisj
  | [], _, _ => by simp [invTemp]
  | .lost n :: r, cum, hN => by simp only [invTemp]; exact invTemp_cdisj r _ hN.tail
  | .span s e rv :: r, cum, hN => by
    have hn : 0 ≤ e - s := hN.head
    simp only [invTemp, List.pairwise_cons]
    refine ⟨?_, invTemp_cdisj r _ hN.tail⟩
    intro q hq
    have := invTemp_bounds r (cum + (e - s)) hN.tail q hq
    cases rv <;> simp only [cdisj, Bool.false_eq_true, if_false, if_true] <;> omega

theorem invLoop_elems : ∀ (T : List Q) (last : Int) (sp : List FSp) (ls : Int),
    invLoop last T = .ok (sp, ls) →
    ∀ x ∈ sp, x.isLost = true ∨ ∃ q ∈ T, x = mkSpan q.2.2.1 q.2.2.2 (decide (q.2.2.1 > q.2.2.2))
  | [], last, sp, ls, h => by
    simp only [invLoop] at h; injection h with h; injection h with h1 h2; subst h1; simp
  | (s, e, cs, ce) :: r, last, sp, ls, h => by
    simp only [invLoop] at h
    split at h
    · cases h
    · split at h
      · cases h
      · rename_i rest ls' hr
        injection h with h; injection h with h1 h2; subst h1
        have ih := invLoop_elems r e rest ls' hr
        intro x hx
        simp only [List.mem_append] at hx
        rcases hx with hx | hx
        · split at hx <;> simp only [List.mem_cons, List.not_mem_nil, or_false] at hx
          · rcases hx with rfl | rfl
            · left; rfl
            · right; exact ⟨(s, e, cs, ce), List.mem_cons_self, rfl⟩
          · subst hx; right; exact ⟨(s, e, cs, ce), List.mem_cons_self, rfl⟩
        · rcases ih x hx with h3 | ⟨q, hq, h3⟩
          · left; exact h3
          · right; exact ⟨q, List.mem_cons_of_mem _ hq, h3⟩

theorem disjSp_lost_left (n : Int) (x : FSp) : disjSp (.lost n) x := by
  cases x <;> simp [disjSp]
theorem disjSp_lost_right (n : Int) (x : FSp) : disjSp x (.lost n) := by
  cases x <;> simp [disjSp]

theorem disjSp_mk (a b : Q) (h : cdisj a b) :
    disjSp (mkSpan a.2.2.1 a.2.2.2 (decide (a.2.2.1 > a.2.2.2))) (mkSpan b.2.2.1 b.2.2.2 (decide (b.2.2.1 > b.2.2.2))) := by
  simp only [cdisj] at h
  unfold mkSpan
  split <;> split <;> simp only [disjSp] <;> omega

theorem invLoop_nooverlap : ∀ (T : List Q) (last : Int) (sp : List FSp) (ls : Int),
    T.Pairwise cdisj → invLoop last T = .ok (sp, ls) → sp.Pairwise disjSp
  | [], last, sp, ls, _, h => by
    simp only [invLoop] at h; injection h with h; injection h with h1 h2; subst h1; simp
  | (s, e, cs, ce) :: r, last, sp, ls, hT, h => by
    simp only [List.pairwise_cons] at hT
    simp only [invLoop] at h
    split at h
    · cases h
    · split at h
      · cases h
      · rename_i rest ls' hr
        injection h with h; injection h with h1 h2; subst h1
        have ih := invLoop_nooverlap r e rest ls' hT.2 hr
        have hel := invLoop_elems r e rest ls' hr
        have hmk : ∀ x ∈ rest, disjSp (mkSpan cs ce (decide (cs > ce))) x := by
          intro x hx
          rcases hel x hx with h3 | ⟨q, hq, h3⟩
          · cases x with
            | lost n => exact disjSp_lost_right _ _
            | span _ _ _ => simp [FSp.isLost] at h3
          · subst h3
            exact disjSp_mk (s, e, cs, ce) q (hT.1 q hq)
        rw [List.pairwise_append]
        refine ⟨?_, ih, ?_⟩
        · split
          · simp only [List.pairwise_cons, List.mem_cons, List.not_mem_nil, or_false, forall_eq,
              List.Pairwise.nil, and_true, false_imp_iff, implies_true]
            exact disjSp_lost_left _ _
          · simp
        · intro a ha b hb
          split at ha <;> simp only [List.mem_cons, List.not_mem_nil, or_false] at ha
          · rcases ha with rfl | rfl
            · exact disjSp_lost_left _ _
            · exact hmk b hb
          · subst ha; exact hmk b hb

/-- the inverse of an invertible map is itself invertible (its spans do not overlap) -/
theorem inverse_nooverlap (m i : FM) (hN : NonNeg m) (h : inverse m = .ok i) : NoOverlap i := by
  unfold inverse at h
  simp only [] at h
  split at h
  · cases h
  · rename_i sp ls hl
    injection h with h; subst h
    have hc : ((invTemp 0 m.spans).foldr insertQ []).Pairwise cdisj :=
      sort_pairwise cdisj (fun a b h => by simp only [cdisj] at h ⊢; omega) _ (invTemp_cdisj _ _ hN)
    have := invLoop_nooverlap _ 0 sp ls hc hl
    simp only [NoOverlap]
    rw [List.pairwise_append]
    refine ⟨this, ?_, ?_⟩
    · split <;> simp
    · intro a _ b hb
      split at hb
      · simp only [List.mem_cons, List.not_mem_nil, or_false] at hb; subst hb
        exact disjSp_lost_right _ _
      · simp at hb

/-- `inverse(inverse(m))` denotes the same map as `m`, for every invertible map -/
theorem inverse_inverse_cover (m : FM) (hN : NonNeg m) (hw : Within m) (hd : NoOverlap m)
    (hpl : 0 ≤ m.parentLength) :
    ∃ i i2, inverse m = .ok i ∧ inverse i = .ok i2 ∧ cover i2 = cover m ∧
      i2.parentLength = m.parentLength := by
  obtain ⟨i, hi, hip, hilen, hiN, hicov⟩ := inverse_general_spec m hN hw hd hpl
  have hiw := (inverse_within m i hN hi).1
  have hid := inverse_nooverlap m i hN hi
  have hlm : 0 ≤ len m := lenL_nonneg hN
  obtain ⟨i2, hi2, hi2p, hi2len, hi2N, hi2cov⟩ := inverse_general_spec i hiN hiw hid (by omega)
  refine ⟨i, i2, hi, hi2, ?_, by omega⟩
  have hl2 : ((cover i2).length : Int) = len m := by
    have := coverL_length hi2N
    rw [← cover_eq_coverL, ← len_eq_lenL] at this; omega
  have hl1 : ((cover m).length : Int) = len m := coverL_length hN
  have hchain : ∀ (k : Nat) (j : Int), (cover i2)[k]? = some (some j) ↔ (cover m)[k]? = some (some j) := by
    intro k j
    rw [hi2cov k j]
    constructor
    · rintro ⟨h0, h1⟩
      have := (hicov j.toNat (k : Int)).1 h1
      rw [show ((k : Int)).toNat = k by omega] at this
      rw [this.2]; congr 2; omega
    · intro h1
      have h0 : 0 ≤ j := by
        have hm : some j ∈ cover m := List.mem_of_getElem? h1
        rw [cover_eq_coverL, mem_coverL] at hm
        obtain ⟨s, e, rv, hx, hs, _⟩ := hm
        have := hw _ hx; simp only [FSp.within] at this; omega
      refine ⟨h0, ?_⟩
      apply (hicov j.toNat (k : Int)).2
      refine ⟨by omega, ?_⟩
      rw [show ((k : Int)).toNat = k by omega, h1]; congr 2; omega
  apply List.ext_getElem?
  intro k
  by_cases hk : k < (cover m).length
  · have hk2 : k < (cover i2).length := by omega
    rw [List.getElem?_eq_getElem hk, List.getElem?_eq_getElem hk2]
    congr 1
    cases hx : (cover i2)[k] with
    | some j =>
      have := (hchain k j).1 (by rw [List.getElem?_eq_getElem hk2, hx])
      rw [List.getElem?_eq_getElem hk] at this
      injection this with this; exact this.symm
    | none =>
      cases hy : (cover m)[k] with
      | none => rfl
      | some j =>
        have := (hchain k j).2 (by rw [List.getElem?_eq_getElem hk, hy])
        rw [List.getElem?_eq_getElem hk2, hx] at this
        cases this
  · rw [List.getElem?_eq_none (by omega), List.getElem?_eq_none (by omega)]

end CogentModel.FMap
