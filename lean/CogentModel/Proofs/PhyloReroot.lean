import CogentModel.Proofs.PhyloBasic
/-! C09: re-rooting = a chain of rotations; invariants by induction along the path. -/
namespace CogentModel.Phylo
open PTree
variable {K : Type}

theorem rerootGo_children_ne_nil (above : List (PTree K)) (t : PTree K) (p : List Nat) (r : PTree K)
    (h : rerootGo above t p = some r) : t.children ≠ [] := by
  cases t with
  | node n l cs =>
    cases cs with
    | nil => cases p <;> simp [rerootGo, pick] at h
    | cons c cs => simp [PTree.children]

/-- Invariant of the walk.  `t.children ++ above` are the neighbours of the current node;
the tree "seen from the current node" keeps its tips and its split multiset. -/
theorem rerootGo_spec : ∀ (p : List Nat) (above : List (PTree K)) (t r : PTree K) (T : List String),
    rerootGo above t p = some r →
    (p = [] ∨ above ≠ [] ∨ 2 ≤ t.children.length) →
    (tipsL (t.children ++ above)).Perm T →
    (tips r).Perm T ∧ (T.Nodup → SplitsEquiv T (splitsL (t.children ++ above)) (splits r))
  | [], above, .node n l cs, r, T, h, _, hT => by
    simp only [rerootGo] at h
    split at h
    · cases h
    · rename_i hne
      have hne' : cs ++ above ≠ [] := by
        intro h0; simp at h0; simp [h0.1] at hne
      injection h with h; subst h
      simp only [PTree.children] at hT ⊢
      rw [tips_node_ne_nil _ _ _ hne']
      exact ⟨hT, fun _ => by simpa [splits] using SplitsEquiv.refl T _⟩
  | i :: p, above, .node n l cs, r, T, h, hdeg, hT => by
    simp only [rerootGo] at h
    cases hp : pick cs i with
    | none => simp [hp] at h
    | some v =>
      obtain ⟨pre, x, post⟩ := v
      simp only [hp] at h
      have hcs := pick_eq cs i pre x post hp
      have hx := rerootGo_children_ne_nil _ _ _ _ h
      cases x with
      | node xn xl xcs =>
        simp only [PTree.children, PTree.name, PTree.len] at h hx hT hdeg ⊢
        have hrest : pre ++ post ++ above ≠ [] := by
          rcases hdeg with h0 | h0 | h0
          · cases h0
          · intro h1; simp at h1; exact h0 h1.2.2
          · intro h1; simp at h1; rw [hcs, h1.1, h1.2.1] at h0; simp at h0
        subst hcs
        have hrot := rotate_tips pre post above xcs xn xl hx hrest
        have ih := rerootGo_spec p [PTree.node xn xl (pre ++ post ++ above)] (PTree.node xn xl xcs) r T h
          (Or.inr (Or.inl (by simp))) (by simpa [PTree.children] using hrot.trans hT)
        refine ⟨ih.1, fun hnd => ?_⟩
        have h2 := ih.2 hnd
        simp only [PTree.children] at h2
        exact .trans (rotate_splits pre post above xcs xn xl hx hrest T hT hnd) h2

theorem rerootAt_spec (t r : PTree K) (p : List Nat) (h : rerootAt t p = some r)
    (hdeg : p = [] ∨ 2 ≤ t.children.length) :
    (tips r).Perm (tips t) ∧ ((tips t).Nodup → SplitsEquiv (tips t) (splits t) (splits r)) := by
  have hne := rerootGo_children_ne_nil _ _ _ _ h
  cases t with
  | node n l cs =>
    simp only [PTree.children] at hne hdeg
    have := rerootGo_spec p [] (PTree.node n l cs) r (tips (PTree.node n l cs)) h
      (by rcases hdeg with h0 | h0; exact Or.inl h0; exact Or.inr (Or.inr h0))
      (by simp [PTree.children, tips_node_ne_nil _ _ _ hne])
    simpa [PTree.children, splits] using this

/-! ### the distance is a function of the split multiset -/
theorem dist_of_splitsEquiv [AddCommMonoid K] (d : K) (T : List String) (t r : PTree K)
    (h : SplitsEquiv T (splits t) (splits r)) (a b : String) (ha : a ∈ T) (hb : b ∈ T) :
    distSpec d a b r = distSpec d a b t := by
  unfold distSpec
  exact (SplitsEquiv.sum_eq d ha hb h).symm

end CogentModel.Phylo
