import CogentModel.Proofs.IndelMapSegs2
import CogentModel.Proofs.IndelMapAlignIdx2
namespace CogentModel.IndelMap
open CogentModel.Gapped List CogentModel

/-- **`from_aligned_segments`**: from the ungapped segments of a well-formed map (in alignment
coordinates, as `nongap()` lists them) and the aligned length, the map itself is rebuilt —
leading / trailing gaps, the all-gap row (no segment at all) and the gapless row included -/
theorem from_aligned_segments_spec' (m : IMap) (h : WF m) :
    fromAlignedSegments (nongap m) (len m) = .ok m := by
  have hl := h.len_eq
  have hinc := h.inc
  cases hg : m.gapPos with
  | nil =>
    have hc := cum_nil_of_gp_nil m h hg
    have hm : m = ⟨[], [], m.parentLength⟩ := by cases m; simp_all
    have hlen : len m = m.parentLength := by unfold len; rw [if_pos hg]; omega
    rw [fas_eq, hlen]
    unfold nongap
    rw [if_pos hg]
    by_cases hp : m.parentLength ≠ 0
    · rw [if_pos hp]
      simp only [decide_eq_true_eq, true_and, and_self, or_true, if_true, emptyMap]
      rw [← hm]
    · have hp0 : m.parentLength = 0 := by omega
      rw [if_neg hp]
      rw [hm, hp0]
      simp [emptyMap]
  | cons p ps =>
    rw [hg] at hinc
    cases hc : m.cumLens with
    | nil => rw [hc] at hinc; simp [Inc] at hinc
    | cons c cs =>
      rw [hc] at hinc
      obtain ⟨hp1, hc1, hinc'⟩ := hinc
      have hne : m.gapPos ≠ [] := by rw [hg]; simp
      have hTs' : TSorted (p + c + 1) (trips c ps cs) := trips_sorted ps cs p c hinc'
      obtain ⟨f1, f2, f3⟩ := mids_facts (trips c ps cs) (p + c) hTs'
      have hlE : lastE (p + c) (trips c ps cs) = lastD m.gapPos + lastD m.cumLens := by
        rw [hg, hc]; exact lastE_trips ps cs p c (by rw [hg, hc] at hl; simpa using hl)
      have hlen : len m = m.parentLength + lastD m.cumLens := by unfold len; rw [if_neg hne]
      have hlastp : lastD m.gapPos ≤ m.parentLength := (h.pos_range _ (lastD_mem _ hne)).2
      have hcle : c ≤ lastD m.cumLens := by
        have hcs := h.cum_sorted
        rw [hc] at hcs ⊢
        exact pairwise_le_lastD _ (pairwise_cons.mp hcs).2 c (by simp)
      have hple : p ≤ m.parentLength := (h.pos_range p (by rw [hg]; simp)).2
      have hpall : ∀ q ∈ ps, q ≠ 0 := by
        intro q hq
        have := (inc_pos ps cs p c hinc').2 q hq
        omega
      -- the segments `nongap()` yields
      have hnon : nongap m = (if 0 < p then [(0, p)] else []) ++ midsFrom (p + c) (trips c ps cs) ++
          (if lastE (p + c) (trips c ps cs) < len m then [(lastE (p + c) (trips c ps cs), len m)] else []) := by
        unfold nongap
        rw [if_neg hne, hlE]
        simp only [hne, ne_eq, not_false_eq_true, true_and]
        rw [hg, hc]
        simp only [nongapFrom, if_true, Int.add_zero, Int.zero_add]
        rw [nongapFrom_mids ps cs p c hpall]
        by_cases hp0 : p = 0
        · subst hp0; simp
        · have : 0 < p := by omega
          simp [hp0, this]
      have haug := fasAugment_spec p (lastE (p + c) (trips c ps cs)) (len m) (midsFrom (p + c) (trips c ps cs))
        (by omega) (by rw [hlen]; omega)
        (fun x hx => by have := (f1 x hx).1; omega)
        (fun x hx => by have := f2 x hx; rw [hlE] at this; rw [hlen]; omega)
        (by omega) (by rw [hlE, hlen]; omega)
      rw [fas_eq, hnon, haug]
      have hT : trips 0 m.gapPos m.cumLens = (p, p + 0, p + c) :: trips c ps cs := by rw [hg, hc]; rfl
      have hA : (0, p) :: (midsFrom (p + c) (trips c ps cs) ++ [(lastE (p + c) (trips c ps cs), len m)])
          = augT 0 (trips 0 m.gapPos m.cumLens) (len m) := by
        rw [hT, augT_decomp]; simp
      rw [hA, fasArrays_augT m h hne]
      -- the early return does not fire
      rw [if_neg]
      intro hcond
      rcases hcond with ⟨h1, h2⟩ | h2
      · rw [hlen] at h2; omega
      · -- a single segment (0, L) would leave no room for the gap
        have hlenpos : p + c ≤ len m := by rw [hlen]; omega
        by_cases hp0 : 0 < p
        · simp only [hp0, if_true, singleton_append, cons_append] at h2
          cases hm : midsFrom (p + c) (trips c ps cs) with
          | nil =>
            rw [hm] at h2
            by_cases hz : lastE (p + c) (trips c ps cs) < len m
            · simp [hz] at h2
            · simp [hz] at h2; omega
          | cons x xs => rw [hm] at h2; simp at h2
        · simp only [hp0, if_false, nil_append] at h2
          cases hm : midsFrom (p + c) (trips c ps cs) with
          | nil =>
            rw [hm] at h2
            by_cases hz : lastE (p + c) (trips c ps cs) < len m
            · simp [hz] at h2; omega
            · simp [hz] at h2
          | cons x xs =>
            rw [hm] at h2
            have hx := (f1 x (by rw [hm]; simp)).1
            cases hxs : xs with
            | nil =>
              by_cases hz : lastE (p + c) (trips c ps cs) < len m
              · simp [hxs, hz] at h2
              · simp [hxs, hz] at h2; omega
            | cons y ys => simp [hxs] at h2

end CogentModel.IndelMap
