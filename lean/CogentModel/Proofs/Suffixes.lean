import CogentModel.Model.Suffixes
import CogentModel.Proofs.Splitlines
/-! Helper lemmas for C06: the temporary file `atomic_write` writes has the suffixes of its destination. -/
namespace CogentModel.Suffixes
open CogentModel.Splitlines

theorem splitOn_ne_nil (d : Char) : ∀ (s : Str), splitOn d s ≠ []
  | [] => by simp [splitOn]
  | c :: cs => by
    simp only [splitOn]
    split
    · simp
    · exact consHead_ne_nil _ _

/-- no piece contains the separator -/
theorem splitOn_pieces (d : Char) : ∀ (s : Str), ∀ p ∈ splitOn d s, d ∉ p
  | [], p, hp => by simp [splitOn] at hp; subst hp; simp
  | c :: cs, p, hp => by
    simp only [splitOn] at hp
    split at hp
    · rcases List.mem_cons.mp hp with e | e
      · subst e; simp
      · exact splitOn_pieces d cs p e
    · rename_i hcd
      cases hs : splitOn d cs with
      | nil => exact absurd hs (splitOn_ne_nil d cs)
      | cons l ls =>
        rw [hs] at hp
        simp only [consHead] at hp
        rcases List.mem_cons.mp hp with e | e
        · subst e
          intro hm
          rcases List.mem_cons.mp hm with e2 | e2
          · exact hcd e2.symm
          · exact splitOn_pieces d cs l (by rw [hs]; exact List.mem_cons_self) e2
        · exact splitOn_pieces d cs p (by rw [hs]; exact List.mem_cons_of_mem _ e)

theorem splitOn_none {d : Char} : ∀ {a : Str}, d ∉ a → splitOn d a = [a]
  | [], _ => rfl
  | c :: cs, h => by
    have hc : ¬ (c = d) := fun e => h (by subst e; exact List.mem_cons_self)
    have := splitOn_none (a := cs) (fun hm => h (List.mem_cons_of_mem _ hm))
    simp [splitOn, hc, this, consHead]

theorem splitOn_sep {d : Char} : ∀ {a : Str} (b : Str), d ∉ a → splitOn d (a ++ d :: b) = a :: splitOn d b
  | [], b, _ => by simp [splitOn]
  | c :: cs, b, h => by
    have hc : ¬ (c = d) := fun e => h (by subst e; exact List.mem_cons_self)
    have := splitOn_sep (a := cs) b (fun hm => h (List.mem_cons_of_mem _ hm))
    simp [splitOn, hc, this, consHead]

/-- joining pieces with the separator in front of each and splitting again gives the pieces back -/
theorem splitOn_join {d : Char} : ∀ (ps : List Str) (u : Str), d ∉ u → (∀ p ∈ ps, d ∉ p) →
    splitOn d (u ++ ps.flatMap (d :: ·)) = u :: ps
  | [], u, hu, _ => by simpa using splitOn_none hu
  | p :: ps, u, hu, hp => by
    have ih := splitOn_join ps p (hp p List.mem_cons_self) (fun x hx => hp x (List.mem_cons_of_mem _ hx))
    simp only [List.flatMap_cons, List.cons_append]
    rw [splitOn_sep _ hu, ih]

/-- the last piece is empty only if the string is empty or ends with the separator -/
theorem splitOn_last {d : Char} : ∀ (s : Str), s ≠ [] → s.getLast? ≠ some d → (splitOn d s).getLast? ≠ some []
  | [], h, _ => absurd rfl h
  | [c], _, hl => by
    have hc : ¬ (c = d) := by intro e; subst e; simp at hl
    simp [splitOn, hc, consHead]
  | c :: c2 :: cs, _, hl => by
    rw [List.getLast?_cons_cons] at hl
    have ih := splitOn_last (c2 :: cs) (by simp) hl
    rw [splitOn]
    cases hs : splitOn d (c2 :: cs) with
    | nil => exact absurd hs (splitOn_ne_nil d _)
    | cons l ls =>
      rw [hs] at ih
      split
      · rw [List.getLast?_cons_cons]; exact ih
      · cases ls with
        | nil =>
          simp only [consHead, List.getLast?_singleton]
          simp
        | cons l2 ls2 =>
          simp only [consHead, List.getLast?_cons_cons] at ih ⊢
          exact ih

theorem dropWhile_dot_last {s : Str} (h : s.getLast? ≠ some '.') : (s.dropWhile (· = '.')).getLast? ≠ some '.' := by
  induction s with
  | nil => simp
  | cons c cs ih =>
    by_cases hc : c = '.'
    · subst hc
      cases cs with
      | nil => simp at h
      | cons c2 cs2 =>
        rw [List.getLast?_cons_cons] at h
        simpa [List.dropWhile] using ih h
    · simpa [List.dropWhile, hc] using h

/-- **the temporary file has exactly the suffixes of the destination** (for every name and every dot-free,
non-empty stem such as a uuid) -/
theorem suffixesOf_tmpName (u name : Str) (hu : u ≠ []) (hdot : '.' ∉ u) :
    suffixesOf (tmpName u name) = suffixesOf name := by
  have hu_last : u.getLast? ≠ some '.' := fun e => hdot (List.mem_of_getLast? e)
  have hu_head : u.dropWhile (· = '.') = u := by
    cases u with
    | nil => exact absurd rfl hu
    | cons a as =>
      have : a ≠ '.' := fun e => hdot (by subst e; exact List.mem_cons_self)
      simp [List.dropWhile, this]
  by_cases hend : name.getLast? = some '.'
  · -- no suffixes: the temporary name is the stem
    have : suffixesOf name = [] := by simp [suffixesOf, hend]
    simp only [tmpName, this, List.flatten_nil, List.append_nil]
    simp [suffixesOf, hu_last, hu_head, splitOn_none hdot]
  · cases hs : splitOn '.' (name.dropWhile (· = '.')) with
    | nil => exact absurd hs (splitOn_ne_nil _ _)
    | cons p0 ps =>
      have hsuf : suffixesOf name = ps.map ('.' :: ·) := by simp [suffixesOf, hend, hs]
      have hps : ∀ p ∈ ps, '.' ∉ p := fun p hp =>
        splitOn_pieces '.' _ p (by rw [hs]; exact List.mem_cons_of_mem _ hp)
      have htmp : tmpName u name = u ++ ps.flatMap ('.' :: ·) := by
        simp only [tmpName, hsuf]
        congr 1
      -- the temporary name does not end with a dot
      have hlast : (tmpName u name).getLast? ≠ some '.' := by
        rw [htmp]
        cases hps' : ps.reverse with
        | nil =>
          have : ps = [] := by simpa using hps'
          subst this
          simpa using hu_last
        | cons q qs =>
          have hpsq : ps = qs.reverse ++ [q] := by
            have := congrArg List.reverse hps'
            simpa using this
          -- q is the last piece of the split; it is not empty
          have hnd : (name.dropWhile (· = '.')).getLast? ≠ some '.' := dropWhile_dot_last hend
          have hne : name.dropWhile (· = '.') ≠ [] := by
            intro e
            rw [e] at hs
            simp only [splitOn, List.cons.injEq] at hs
            rw [← hs.2] at hpsq
            cases qs.reverse <;> simp at hpsq
          have hql := splitOn_last (d := '.') _ hne hnd
          rw [hs, hpsq] at hql
          have hq : q ≠ [] := by
            intro e
            subst e
            apply hql
            rw [show p0 :: (qs.reverse ++ [[]]) = (p0 :: qs.reverse) ++ [[]] from rfl, List.getLast?_append]
            rfl
          rw [hpsq, List.flatMap_append, ← List.append_assoc]
          simp only [List.flatMap_cons, List.flatMap_nil, List.append_nil]
          rw [List.getLast?_append]
          have hqd : '.' ∉ q := hps q (by rw [hpsq]; simp)
          intro e
          cases hq2 : q.getLast? with
          | none => cases q <;> simp_all
          | some z =>
            have hz : ('.' :: q).getLast? = some z := by
              cases q with
              | nil => simp at hq2
              | cons a as => rw [List.getLast?_cons_cons]; exact hq2
            rw [hz] at e
            simp at e
            subst e
            exact hqd (List.mem_of_getLast? hq2)
      have hhead : (tmpName u name).dropWhile (· = '.') = tmpName u name := by
        rw [htmp]
        cases u with
        | nil => exact absurd rfl hu
        | cons a as =>
          have : a ≠ '.' := fun e => hdot (by subst e; exact List.mem_cons_self)
          simp [List.dropWhile, this]
      rw [hsuf]
      simp only [suffixesOf, hlast, if_false, hhead]
      rw [htmp, splitOn_join ps u hdot hps]
      rfl

end CogentModel.Suffixes
