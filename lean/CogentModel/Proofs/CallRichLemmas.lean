import CogentModel.Model.CallRich
/-! C14 — lemmas relating the rich hand model (`Model/CallRich.lean`: `validateR`, `callR`, `chainR`) to the plain model
`Composable.callChain`.  Independent of the generated file. -/
namespace CogentModel.CallRich
open CogentModel.Composable CogentModel.CallPrims

theorem projNC_embedNC (n : NC) : projNC (embedNC n) = n := by
  obtain ⟨t, o, m, s⟩ := n
  cases t <;> cases m <;> simp [projNC, embedNC, embedType, projType, embedMsg, projMsg]

theorem projPV_embedVal (v : Val) : projPV (embedVal v) = some v := by
  cases v <;> simp [projPV, embedVal, projNC_embedNC]

def Rel (pv : PV) (v : Val) : Prop := projPV pv = some v

theorem rel_cases {pv : PV} {v : Val} (h : Rel pv v) :
    (∃ x, pv = .obj x ∧ v = .ok x) ∨ (∃ n, pv = .nc n ∧ v = .nc (projNC n)) := by
  unfold Rel at h
  cases pv <;> simp [projPV] at h
  · right; exact ⟨_, rfl, h.symm⟩
  · left; exact ⟨_, rfl, h.symm⟩

theorem inter_nil_of (a : List Nat) (h : ¬ (100 ∈ a) ∧ ¬ (101 ∈ a)) : inter a [100, 101] = [] := by
  unfold inter
  rw [List.filter_eq_nil_iff]
  intro x hx
  simp only [List.contains_cons, List.contains_nil, Bool.or_false, Bool.or_eq_true, beq_iff_eq, not_or]
  exact ⟨fun e => h.1 (e ▸ hx), fun e => h.2 (e ▸ hx)⟩

def finishR (name : Nat) (src : Option Id) (o : ROut) : PV :=
  let r := match o with
    | .ret r => r
    | .raise t => mkNC "ERROR" name [.tb t] src
  if r.isNone then mkNC "BUG" name [.lit "unexpected output value None"] src else r

def finish (name : Nat) (src : Option Id) (o : Out) : Val :=
  match o with
  | .ret r => .ok r
  | .raise t => .nc ⟨.error, name, .exc t, src⟩
  | .retNone => .nc ⟨.bug, name, .noneOut, src⟩
  | .retNC n => .nc n

theorem runMainR_eq (s : RStep) (v : PV) : runMainR s v = finishR s.name v.source (s.main v) := rfl
theorem runMain_eq (s : Step) (v : Val) : runMain s v = finish s.name v.source (s.main v) := rfl

theorem rel_finish (name : Nat) (src : Option Id) (o : Out) : Rel (finishR name src (embedOut o)) (finish name src o) := by
  cases o with
  | ret r => simp [finishR, finish, embedOut, PV.isNone, Rel, projPV]
  | raise t => simp [finishR, finish, embedOut, PV.isNone, Rel, projPV, mkNC, projNC, projType, projMsg]
  | retNone => simp [finishR, finish, embedOut, PV.isNone, Rel, projPV, mkNC, projNC, projType, projMsg]
  | retNC n => simp [finishR, finish, embedOut, PV.isNone, Rel, projPV, projNC_embedNC]

theorem embedStep_main (s : Step) (pv : PV) (v : Val) (h : Rel pv v) : (embedStep s).main pv = embedOut (s.main v) := by
  unfold Rel at h
  simp [embedStep, h]

theorem rel_source {pv : PV} {v : Val} (h : Rel pv v) : pv.source = v.source := by
  rcases rel_cases h with ⟨x, rfl, rfl⟩ | ⟨n, rfl, rfl⟩ <;> simp [PV.source, Val.source, projNC]

theorem rel_afterInput (s : Step) (htag : ¬ (100 ∈ s.accepts) ∧ ¬ (101 ∈ s.accepts)) (pv : PV) (v : Val) (h : Rel pv v) :
    Rel (afterInputR (embedStep s) pv) (afterInput s v) := by
  have hoff : typeCheckOff (embedStep s) = s.accepts.isEmpty := by
    simp [typeCheckOff, embedStep, inter_nil_of _ htag]
  have hrun : Rel (runMainR (embedStep s) pv) (runMain s v) := by
    rw [runMainR_eq, runMain_eq, embedStep_main s pv v h, rel_source h]
    exact rel_finish _ _ _
  have hn : (embedStep s).name = s.name := rfl
  have hd : (embedStep s).dataTypes = s.accepts := rfl
  have hk : (embedStep s).skipNC = s.skipNC := rfl
  unfold afterInputR validateR afterInput validate
  rw [hoff, hk]
  rcases rel_cases h with ⟨x, rfl, rfl⟩ | ⟨n, rfl, rfl⟩
  · simp only [PV.isNC, Val.isNC, Bool.false_and, PV.isProxy]
    by_cases he : s.accepts.isEmpty
    · simpa [he, PV.truthy] using hrun
    · by_cases hc : x.ty ∈ s.accepts
      · simpa [he, hc, checkData, checkClass, PV.className, PV.truthy, hd, Val.ty] using hrun
      · simp [he, hc, checkData, checkClass, PV.className, PV.truthy, hd, hn, Val.ty, mkNC, Rel, projPV, projNC, projType, projMsg, PV.source, Val.source]
  · simp only [PV.isNC, Val.isNC, Bool.true_and, PV.isProxy]
    by_cases hs : s.skipNC
    · simpa [hs, PV.truthy] using h
    · by_cases he : s.accepts.isEmpty
      · simpa [hs, he, PV.truthy] using hrun
      · by_cases hc : 0 ∈ s.accepts
        · simpa [hs, he, hc, checkData, checkClass, PV.className, PV.truthy, hd, Val.ty, ncTy, clsTag] using hrun
        · simp [hs, he, hc, checkData, checkClass, PV.className, PV.truthy, hd, hn, Val.ty, ncTy, clsTag, mkNC, Rel, projPV, projNC, projType, projMsg, PV.source, Val.source]

theorem rel_isNC {pv : PV} {v : Val} (h : Rel pv v) : pv.isNC = v.isNC := by
  rcases rel_cases h with ⟨x, rfl, rfl⟩ | ⟨n, rfl, rfl⟩ <;> rfl

theorem afterInputR_skip (s : RStep) (pv : PV) (h : (pv.isNC && s.skipNC) = true) : afterInputR s pv = pv := by
  unfold afterInputR validateR
  cases pv <;> simp_all [PV.isNC, PV.truthy]

/-- one layer of `_call` -/
theorem rel_layer (s : Step) (htag : ¬ (100 ∈ s.accepts) ∧ ¬ (101 ∈ s.accepts)) (inp : Option (PV → PV)) (f : Val → Val)
    (hf : inp.isSome = true → ∀ pv v, Rel pv v → Rel (applyInput inp pv) (f v))
    (pv : PV) (v : Option Val) (hv : (v = none ∧ pv = .none) ∨ (∃ x, v = some x ∧ Rel pv x)) :
    Rel (callR (embedStep s) inp pv)
      (let v1 : Val := v.getD (.nc ⟨.error, s.name, .noneIn, none⟩)
       if v1.isNC && s.skipNC then v1
       else afterInput s (if s.kind != .loader && inp.isSome then f v1 else v1)) := by
  have hk : (embedStep s).skipNC = s.skipNC := rfl
  have hkind : (embedStep s).kind = s.kind := rfl
  have key : ∀ pv1 v1, Rel pv1 v1 →
      Rel (if (pv1.isNC && s.skipNC) = true then pv1
           else if (s.kind != .loader && inp.isSome) = true then
             (if ((applyInput inp pv1).isNC && s.skipNC) = true then applyInput inp pv1 else afterInputR (embedStep s) (applyInput inp pv1))
           else afterInputR (embedStep s) pv1)
          (if (v1.isNC && s.skipNC) = true then v1 else afterInput s (if (s.kind != .loader && inp.isSome) = true then f v1 else v1)) := by
    intro pv1 v1 h1
    rw [rel_isNC h1]
    by_cases c1 : (v1.isNC && s.skipNC) = true
    · simpa [c1] using h1
    · simp only [c1, if_false]
      by_cases c2 : (s.kind != .loader && inp.isSome) = true
      · simp only [c2, if_true]
        have hi : inp.isSome = true := by simp_all
        have h2 := hf hi pv1 v1 h1
        by_cases c3 : ((applyInput inp pv1).isNC && s.skipNC) = true
        · have e := afterInputR_skip (embedStep s) (applyInput inp pv1) (by rw [hk]; exact c3)
          have h3 := rel_afterInput s htag _ _ h2
          rw [e] at h3
          rw [if_pos c3]; exact h3
        · rw [if_neg c3]; exact rel_afterInput s htag _ _ h2
      · simp only [c2, if_false]
        exact rel_afterInput s htag _ _ h1
  unfold callR
  rw [hk, hkind]
  rcases hv with ⟨rfl, rfl⟩ | ⟨x, rfl, hx⟩
  · have := key (mkNC "ERROR" s.name [.lit "unexpected input value None"] none) (.nc ⟨.error, s.name, .noneIn, none⟩)
      (by simp [mkNC, Rel, projPV, projNC, projType, projMsg])
    simpa [PV.isNone, embedStep] using this
  · have hnn : pv.isNone = false := by rcases rel_cases hx with ⟨y, rfl, rfl⟩ | ⟨n, rfl, rfl⟩ <;> rfl
    have := key pv x hx
    simpa [hnn] using this

theorem rel_chain (steps : List Step) (hne : steps ≠ []) (htags : ∀ s ∈ steps, ¬ (100 ∈ s.accepts) ∧ ¬ (101 ∈ s.accepts)) :
    ∀ (pv : PV) (v : Option Val), ((v = none ∧ pv = .none) ∨ (∃ x, v = some x ∧ Rel pv x)) →
      Rel (chainR (steps.map embedStep) pv) (callChain steps v) := by
  induction steps with
  | nil => exact absurd rfl hne
  | cons s rest ih =>
    intro pv v hv
    have hs := htags s List.mem_cons_self
    have hrest : ∀ t ∈ rest, ¬ (100 ∈ t.accepts) ∧ ¬ (101 ∈ t.accepts) := fun t ht => htags t (List.mem_cons_of_mem _ ht)
    have := rel_layer s hs (if (rest.map embedStep).isEmpty then none else some (chainR (rest.map embedStep)))
      (fun x => callChain rest (some x))
      (by
        intro hi pv1 v1 h1
        have hr : rest ≠ [] := by intro e; subst e; simp at hi
        have hi' : (rest.map embedStep).isEmpty = false := by cases rest <;> simp_all
        simp only [hi', applyInput]
        exact ih hr hrest pv1 (some v1) (Or.inr ⟨v1, rfl, h1⟩))
      pv v hv
    have hsome : (if (rest.map embedStep).isEmpty then none else some (chainR (rest.map embedStep))).isSome = !rest.isEmpty := by
      cases rest <;> simp
    rw [hsome] at this
    cases v <;> simpa [chainR, callChain, afterInput] using this

end CogentModel.CallRich
