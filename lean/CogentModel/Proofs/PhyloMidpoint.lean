import CogentModel.Model.PhyloMidpoint
import CogentModel.Proofs.PhyloReroot
import CogentModel.Proofs.PhyloUnrooted
import CogentModel.Proofs.PhyloPhi
import CogentModel.Proofs.PhyloDist
import Mathlib.Algebra.Ring.Rat
import Mathlib.Tactic.Ring
import Mathlib.Tactic.Linarith
set_option linter.unusedSimpArgs false
set_option linter.unusedVariables false
/-! C09: midpoint rooting = (optionally) split one edge, then re-root. -/
namespace CogentModel.Phylo
open PTree

theorem phi_perm {T : List String} {φ : List String → Bool} (hφ : BipPred T φ) {A B : List String}
    (h : A.Perm B) : φ A = φ B := hφ.congr A B fun x _ => h.mem_iff

/-- splitting the edge above one child: same tips, same bipartition functionals -/
theorem splitEdge_ok (d : Rat) (idx : Nat) (y : Rat) (cs cs' : List RT) (h : splitEdge idx y cs = some cs') :
    cs ≠ [] ∧ cs' ≠ [] ∧ cs'.length = cs.length ∧ (tipsL cs').Perm (tipsL cs) ∧
      ∀ (T : List String) (φ : List String → Bool), BipPred T φ →
        sumBy (phiW d φ) (splitsL cs') = sumBy (phiW d φ) (splitsL cs) := by
  unfold splitEdge at h
  cases hp : pick cs idx with
  | none => simp [hp] at h
  | some v =>
    obtain ⟨pre, v, post⟩ := v
    simp only [hp] at h
    have hcs := pick_eq cs idx pre v post hp
    cases hl : v.len with
    | none => simp [hl] at h
    | some x =>
      simp only [hl, Option.some.injEq] at h
      subst h; subst hcs
      refine ⟨by simp, by simp, (by simp <;> omega), ?_, ?_⟩
      · simp only [tipsL_append, tipsL, List.append_nil, tips_node_ne_nil _ _ _ (List.cons_ne_nil _ _),
          tips_rename, List.append_assoc]
        exact List.Perm.append_left _ List.perm_append_comm
      · intro T φ hφ
        have e1 : edgeSplit v = ⟨v.name, some x, tips v⟩ := by simp [edgeSplit, hl]
        simp only [splitsL_append, splitsL, sumBy_append, sumBy, splits, List.append_nil, List.cons_append,
          splits_rename, e1, List.nil_append, add_zero]
        simp only [phiW, edgeSplit, name_node, len_node, tips_node_ne_nil _ _ _ (List.cons_ne_nil _ _),
          tipsL, List.append_nil, tips_rename, lenOr]
        rw [splits_eq_children v]
        by_cases hv : φ (tips v) = true
        · simp only [hv, if_true]; ring
        · simp only [hv]; simp; ring

theorem updateAt_ok (d : Rat) (idx : Nat) (y : Rat) : ∀ (path : List Nat) (t t' : RT),
    updateAt (splitEdge idx y) t path = some t' →
    t'.name = t.name ∧ t'.len = t.len ∧ t.children ≠ [] ∧ t'.children ≠ [] ∧
      t'.children.length = t.children.length ∧ (tips t').Perm (tips t) ∧
      ∀ (T : List String) (φ : List String → Bool), BipPred T φ →
        sumBy (phiW d φ) (splits t') = sumBy (phiW d φ) (splits t)
  | [], .node n l cs, t', h => by
    simp only [updateAt] at h
    cases hs : splitEdge idx y cs with
    | none => simp [hs] at h
    | some cs' =>
      simp only [hs, Option.map_some, Option.some.injEq] at h
      subst h
      obtain ⟨h1, h2, h3, h4, h5⟩ := splitEdge_ok d idx y cs cs' hs
      refine ⟨rfl, rfl, h1, h2, h3, ?_, fun T φ hφ => ?_⟩
      · simpa [tips_node_ne_nil _ _ _ h1, tips_node_ne_nil _ _ _ h2] using h4
      · simpa [splits] using h5 T φ hφ
  | i :: p, .node n l cs, t', h => by
    simp only [updateAt] at h
    cases hp : pick cs i with
    | none => simp [hp] at h
    | some v =>
      obtain ⟨pre, x, post⟩ := v
      simp only [hp] at h
      have hcs := pick_eq cs i pre x post hp
      cases hu : updateAt (splitEdge idx y) x p with
      | none => simp [hu] at h
      | some x' =>
        simp only [hu, Option.map_some, Option.some.injEq] at h
        subst h; subst hcs
        obtain ⟨hn, hl, _, _, _, ht, hφs⟩ := updateAt_ok d idx y p x x' hu
        refine ⟨rfl, rfl, by simp, by simp, by simp, ?_, fun T φ hφ => ?_⟩
        · simp only [tips_node_ne_nil _ _ _ (show pre ++ x' :: post ≠ [] by simp),
            tips_node_ne_nil _ _ _ (show pre ++ x :: post ≠ [] by simp), tipsL_append, tipsL]
          exact List.Perm.append_left _ (List.Perm.append_right _ ht)
        · have e : phiW d φ (edgeSplit x') = phiW d φ (edgeSplit x) := by
            have e1 : edgeSplit x' = ⟨x.name, x.len, tips x'⟩ := by simp [edgeSplit, hn, hl]
            have e2 : edgeSplit x = ⟨x.name, x.len, tips x⟩ := rfl
            rw [e1, e2]
            simp only [phiW]
            rw [phi_perm hφ ht]
          simp only [splits, splitsL_append, splitsL, sumBy_append, sumBy, List.cons_append, e, hφs T φ hφ]

theorem topoWeight_of_splitsEquiv (d : Rat) (T : List String) (t r : RT) (φ : List String → Bool)
    (hφ : BipPred T φ) (h : SplitsEquiv T (splits t) (splits r)) : topoWeight d φ r = topoWeight d φ t :=
  (SplitsEquiv.phi_sum_eq d hφ h).symm

/-- executing any plan keeps the tips and every bipartition functional (weighted unrooted topology,
in particular every tip-to-tip distance) -/
theorem execPlan_ok (d : Rat) (t r : RT) (plan : MidPlan) (h : execPlan t plan = .ok r)
    (hdeg : 2 ≤ t.children.length) (hnd : (tips t).Nodup) :
    (tips r).Perm (tips t) ∧ ∀ φ, BipPred (tips t) φ → topoWeight d φ r = topoWeight d φ t := by
  cases plan with
  | «at» p =>
    simp only [execPlan, reroot?] at h
    cases hr : rerootAt t p with
    | none => simp [hr] at h
    | some r' =>
      simp only [hr, Except.ok.injEq] at h; subst h
      have hs := rerootAt_spec t r' p hr (Or.inr hdeg)
      exact ⟨hs.1, fun φ hφ => topoWeight_of_splitsEquiv d _ t r' φ hφ (hs.2 hnd)⟩
  | split pp idx y =>
    simp only [execPlan] at h
    cases hu : updateAt (splitEdge idx y) t pp with
    | none => simp [hu] at h
    | some t' =>
      simp only [hu] at h
      cases hn : nodeAt t' pp with
      | none => simp [hn] at h
      | some par =>
        simp only [hn, reroot?] at h
        cases hr : rerootAt t' (pp ++ [par.children.length - 1]) with
        | none => simp [hr] at h
        | some r' =>
          simp only [hr, Except.ok.injEq] at h; subst h
          obtain ⟨_, _, _, _, hlen, ht, hφs⟩ := updateAt_ok d idx y pp t t' hu
          have hdeg' : 2 ≤ t'.children.length := by omega
          have hnd' : (tips t').Nodup := (ht.nodup_iff).2 hnd
          have hs := rerootAt_spec t' r' _ hr (Or.inr hdeg')
          refine ⟨hs.1.trans ht, fun φ hφ => ?_⟩
          have hφ' : BipPred (tips t') φ := hφ.of_mem_iff fun x => ht.mem_iff.symm
          rw [topoWeight_of_splitsEquiv d _ t' r' φ hφ' (hs.2 hnd')]
          exact hφs _ φ hφ

theorem rootAtMidpoint_ok (d : Rat) (t r : RT) (h : rootAtMidpoint t = .ok r)
    (hdeg : 2 ≤ t.children.length) (hnd : (tips t).Nodup) :
    (tips r).Perm (tips t) ∧ ∀ φ, BipPred (tips t) φ → topoWeight d φ r = topoWeight d φ t := by
  unfold rootAtMidpoint at h
  cases hp : midPlan t with
  | error e => simp [hp] at h
  | ok plan =>
    simp only [hp] at h
    exact execPlan_ok d t r plan h hdeg hnd

/-! ### the shape of the re-rooted tree -/
/-- the walk of `rerootGo` down to the node at a path: what hangs above it, and the node -/
def walk {K : Type} : List (PTree K) → PTree K → List Nat → Option (List (PTree K) × PTree K)
  | above, t, [] => some (above, t)
  | above, .node _ _ cs, i :: p =>
    match pick cs i with
    | none => none
    | some (pre, x, post) => walk [.node x.name x.len (pre ++ post ++ above)] x p

theorem rerootGo_append {K : Type} : ∀ (p1 p2 : List Nat) (above : List (PTree K)) (t : PTree K),
    rerootGo above t (p1 ++ p2) = match walk above t p1 with
      | some (a, u) => rerootGo a u p2
      | none => none
  | [], p2, above, t => by simp [walk]
  | i :: p1, p2, above, .node n l cs => by
    simp only [List.cons_append, walk]
    cases hp : pick cs i with
    | none => cases p1 <;> simp [rerootGo, hp]
    | some v =>
      obtain ⟨pre, x, post⟩ := v
      simp only [rerootGo, hp]
      exact rerootGo_append p1 p2 _ x

theorem walk_nodeAt {K : Type} : ∀ (p : List Nat) (above : List (PTree K)) (t : PTree K) (a : List (PTree K))
    (u : PTree K), walk above t p = some (a, u) → nodeAt t p = some u
  | [], above, t, a, u, h => by simp [walk] at h; simp [nodeAt, h.2]
  | i :: p, above, .node n l cs, a, u, h => by
    simp only [walk] at h
    cases hp : pick cs i with
    | none => simp [hp] at h
    | some v =>
      obtain ⟨pre, x, post⟩ := v
      simp only [hp] at h
      simp only [nodeAt, hp]
      exact walk_nodeAt p _ x a u h

theorem nodeAt_updateAt (f : List RT → Option (List RT)) : ∀ (pp : List Nat) (t t' par : RT),
    nodeAt t pp = some par → updateAt f t pp = some t' →
    ∃ cs', f par.children = some cs' ∧ nodeAt t' pp = some (PTree.node par.name par.len cs')
  | [], .node n l cs, t', par, hn, hu => by
    simp only [nodeAt, Option.some.injEq] at hn; subst hn
    simp only [updateAt] at hu
    cases hf : f cs with
    | none => simp [hf] at hu
    | some cs' =>
      simp only [hf, Option.map_some, Option.some.injEq] at hu; subst hu
      exact ⟨cs', by simpa using hf, by simp [nodeAt]⟩
  | i :: p, .node n l cs, t', par, hn, hu => by
    simp only [nodeAt, updateAt] at hn hu
    cases hp : pick cs i with
    | none => simp [hp] at hn
    | some v =>
      obtain ⟨pre, x, post⟩ := v
      simp only [hp] at hn hu
      cases hx : updateAt f x p with
      | none => simp [hx] at hu
      | some x' =>
        simp only [hx, Option.map_some, Option.some.injEq] at hu; subst hu
        obtain ⟨cs', h1, h2⟩ := nodeAt_updateAt f p x x' par hn hx
        refine ⟨cs', h1, ?_⟩
        have hpk : pick (pre ++ x' :: post) i = some (pre, x', post) := by
          have hcs := pick_eq cs i pre x post hp
          -- same position: the prefix has the same length
          have : ∀ (l : List RT) (j : Nat) (a b c : List RT) (y z : RT), pick l j = some (a, y, c) →
              pick (a ++ z :: c) j = some (a, z, c) := by
            intro l
            induction l with
            | nil => intro j a b c y z h; simp [pick] at h
            | cons w ws ih =>
              intro j a b c y z h
              cases j with
              | zero => simp [pick] at h; obtain ⟨rfl, _, rfl⟩ := h; simp [pick]
              | succ j =>
                simp only [pick] at h
                cases hq : pick ws j with
                | none => simp [hq] at h
                | some u =>
                  obtain ⟨a', y', c'⟩ := u
                  simp [hq] at h
                  obtain ⟨rfl, _, rfl⟩ := h
                  have := ih j a' b c' y' z hq
                  simp [pick, this]
          exact this cs i pre [] post x x' hp
        simp only [nodeAt, hpk]
        exact h2

theorem pick_last {α : Type} (l : List α) (z : α) : pick (l ++ [z]) l.length = some (l, z, []) := by
  induction l with
  | nil => simp [pick]
  | cons x xs ih => simp [pick, ih]

/-- depth of a tip = root-to-tip distance (sum over the edges above it) -/
abbrev depthR (a : String) (t : RT) : Rat := depthSpec (1 : Rat) a t

/-- Re-rooting at the node at `pp` puts a tip `p` below child `v` of that node at depth
`len v + depth of p in v`, and any tip `q` not below `v` at depth `d(p,q) - that`. -/
theorem reroot_depths (t r w : RT) (pp : List Nat) (idx : Nat) (pre post : List RT) (v : RT)
    (hdeg : 2 ≤ t.children.length) (hnd : (tips t).Nodup)
    (hr : rerootAt t pp = some r) (hw : nodeAt t pp = some w) (hv : pick w.children idx = some (pre, v, post))
    (p q : String) (hp : p ∈ tips v) (hq : q ∈ tips t) (hqv : q ∉ tips v) :
    depthR p r = lenOr 1 v.len + depthR p v ∧ distSpec 1 p q t = depthR p r + depthR q r := by
  have hs := rerootAt_spec t r pp hr (Or.inr hdeg)
  have hndr : (tips r).Nodup := (hs.1.nodup_iff).2 hnd
  -- the shape of r
  have hshape : ∃ a', r = PTree.node "" none (w.children ++ a') := by
    have := rerootGo_append pp [] [] t
    simp only [List.append_nil] at this
    unfold rerootAt at hr
    rw [this] at hr
    cases hwk : walk [] t pp with
    | none => simp [hwk] at hr
    | some au =>
      obtain ⟨a', u⟩ := au
      simp only [hwk] at hr
      have hu := walk_nodeAt pp [] t a' u hwk
      rw [hw] at hu; injection hu with hu; subst hu
      cases w with
      | node wn wl wcs =>
        simp only [rerootGo] at hr
        split at hr
        · cases hr
        · injection hr with hr; exact ⟨a', hr.symm⟩
  obtain ⟨a', rfl⟩ := hshape
  have hwc := pick_eq w.children idx pre v post hv
  have hne : w.children ++ a' ≠ [] := by rw [hwc]; simp
  have hdist : distSpec 1 p q (PTree.node "" none (w.children ++ a')) = distSpec 1 p q t := by
    have hpt : p ∈ tips t := by
      have : p ∈ tips (PTree.node "" none (w.children ++ a')) := by
        rw [tips_node_ne_nil _ _ _ hne, hwc]; simp [tipsL_append, tipsL, hp]
      exact (hs.1.mem_iff).1 this
    exact topoWeight_of_splitsEquiv 1 _ t _ (sep p q) (bipPred_sep _ p q hpt hq) (hs.2 hnd)
  rw [tips_node_ne_nil _ _ _ hne] at hndr
  have hqr : q ∈ tipsL (w.children ++ a') := by
    have := (hs.1.mem_iff (a := q)).2 hq
    rwa [tips_node_ne_nil _ _ _ hne] at this
  rw [hwc, List.append_assoc, List.cons_append] at hndr hqr
  obtain ⟨e1, e2⟩ := depth_dist_at_node (1 : Rat) pre (post ++ a') v hndr p q hp hqr hqv
  have hsp : splits (PTree.node "" none (w.children ++ a')) = splitsL (pre ++ v :: (post ++ a')) := by
    simp [splits, hwc]
  refine ⟨?_, ?_⟩
  · simp only [depthR, depthSpec, hsp]; exact e1
  · rw [← hdist]
    simp only [depthR, depthSpec, distSpec, hsp]; exact e2

theorem tips_nodeAt_subset {K : Type} : ∀ (pth : List Nat) (t u : PTree K), nodeAt t pth = some u →
    ∀ z ∈ tips u, z ∈ tips t
  | [], t, u, h, z, hz => by simp [nodeAt] at h; rw [h]; exact hz
  | i :: p, .node n l cs, u, h, z, hz => by
    simp only [nodeAt] at h
    cases hp : pick cs i with
    | none => simp [hp] at h
    | some v =>
      obtain ⟨pre, x, post⟩ := v
      simp only [hp] at h
      have hcs := pick_eq cs i pre x post hp
      have := tips_nodeAt_subset p x u h z hz
      rw [tips_node_ne_nil _ _ _ (by rw [hcs]; simp), hcs]
      simp [tipsL_append, tipsL, this]

theorem nodeAt_append {K : Type} : ∀ (p1 p2 : List Nat) (t u : PTree K), nodeAt t p1 = some u →
    nodeAt t (p1 ++ p2) = nodeAt u p2
  | [], p2, t, u, h => by simp [nodeAt] at h; simp [h]
  | i :: p1, p2, .node n l cs, u, h => by
    simp only [nodeAt, List.cons_append] at h ⊢
    cases hp : pick cs i with
    | none => simp [hp] at h
    | some v =>
      obtain ⟨pre, x, post⟩ := v
      simp only [hp] at h ⊢
      exact nodeAt_append p1 p2 x u h

/-- the plan "re-root at the node at `pp`": if the climbed tip `p` sits below child `v` of that node
with `len v + depth = d(p,q)/2` and `q` is not below `v`, both are at distance `d(p,q)/2` from the
new root -/
theorem equidistant_at (t r w : RT) (pp : List Nat) (idx : Nat) (pre post : List RT) (v : RT)
    (hdeg : 2 ≤ t.children.length) (hnd : (tips t).Nodup)
    (h : execPlan t (.at pp) = .ok r) (hw : nodeAt t pp = some w)
    (hv : pick w.children idx = some (pre, v, post))
    (p q : String) (hp : p ∈ tips v) (hq : q ∈ tips t) (hqv : q ∉ tips v)
    (hhalf : lenOr 1 v.len + depthR p v = distSpec 1 p q t / 2) :
    depthR p r = distSpec 1 p q t / 2 ∧ depthR q r = distSpec 1 p q t / 2 := by
  simp only [execPlan, reroot?] at h
  cases hr : rerootAt t pp with
  | none => simp [hr] at h
  | some r' =>
    simp only [hr, Except.ok.injEq] at h; subst h
    obtain ⟨e1, e2⟩ := reroot_depths t r' w pp idx pre post v hdeg hnd hr hw hv p q hp hq hqv
    constructor <;> linarith

/-- the plan "split the edge above child `v` of the node at `pp`, leaving `y` below the new root" -/
theorem equidistant_split (t r par : RT) (pp : List Nat) (idx : Nat) (y : Rat) (pre post : List RT) (v : RT)
    (hdeg : 2 ≤ t.children.length) (hnd : (tips t).Nodup)
    (h : execPlan t (.split pp idx y) = .ok r) (hpar : nodeAt t pp = some par)
    (hv : pick par.children idx = some (pre, v, post))
    (p q : String) (hp : p ∈ tips v) (hq : q ∈ tips t) (hqv : q ∉ tips v)
    (hhalf : y + depthR p v = distSpec 1 p q t / 2) :
    depthR p r = distSpec 1 p q t / 2 ∧ depthR q r = distSpec 1 p q t / 2 := by
  simp only [execPlan] at h
  cases hu : updateAt (splitEdge idx y) t pp with
  | none => simp [hu] at h
  | some t' =>
    simp only [hu] at h
    obtain ⟨cs', hcs', hn'⟩ := nodeAt_updateAt _ pp t t' par hpar hu
    simp only [hn', reroot?, children_node] at h
    cases hr : rerootAt t' (pp ++ [cs'.length - 1]) with
    | none => simp [hr] at h
    | some r' =>
      simp only [hr, Except.ok.injEq] at h; subst h
      -- the new node
      unfold splitEdge at hcs'
      simp only [hv] at hcs'
      cases hl : v.len with
      | none => simp [hl] at hcs'
      | some x =>
        simp only [hl, Option.some.injEq] at hcs'
        subst hcs'
        obtain ⟨_, _, _, _, hlen, ht, hφs⟩ := updateAt_ok 1 idx y pp t t' hu
        have hdeg' : 2 ≤ t'.children.length := by omega
        have hnd' : (tips t').Nodup := (ht.nodup_iff).2 hnd
        have hpt : p ∈ tips t := by
          have h1 : nodeAt t (pp ++ [idx]) = some v := by
            rw [nodeAt_append pp [idx] t par hpar]
            cases par with
            | node pn pl pcs => simp only [children_node] at hv; simp [nodeAt, hv]
          exact tips_nodeAt_subset _ t v h1 p hp
        -- the node to re-root at
        have hlast : (pre ++ post ++ [PTree.node "" (some (x - y)) [PTree.node v.name (some y) v.children]]).length - 1
            = (pre ++ post).length := by simp
        rw [hlast] at hr
        have hw' : nodeAt t' (pp ++ [(pre ++ post).length]) =
            some (PTree.node "" (some (x - y)) [PTree.node v.name (some y) v.children]) := by
          rw [nodeAt_append pp _ t' _ hn']
          simp only [nodeAt, pick_last]
        have hp' : p ∈ tips (PTree.node v.name (some y) v.children) := by rw [tips_rename]; exact hp
        have hqv' : q ∉ tips (PTree.node v.name (some y) v.children) := by rw [tips_rename]; exact hqv
        have hq' : q ∈ tips t' := (ht.mem_iff).2 hq
        obtain ⟨e1, e2⟩ := reroot_depths t' r' _ _ 0 [] [] (PTree.node v.name (some y) v.children) hdeg' hnd' hr hw'
          (by simp [pick]) p q hp' hq' hqv'
        have e3 : depthR p (PTree.node v.name (some y) v.children) = depthR p v := by
          simp only [depthR, depthSpec, splits_rename]
        have e4 : distSpec 1 p q t' = distSpec 1 p q t :=
          hφs (tips t) (sep p q) (bipPred_sep _ p q hpt hq)
        simp only [len_node, lenOr] at e1
        rw [e3] at e1
        rw [e4] at e2
        constructor <;> linarith

end CogentModel.Phylo
