import CogentModel.Model.SeqWrap
import CogentModel.Proofs.SliceList
import CogentModel.Proofs.ViewStep
/-! String-level semantics of the `Sequence` wrapper: reading a sliced / indexed /
reverse-complemented sequence equals doing the same to the plain string. -/
namespace CogentModel.SeqWrap
open CogentModel CogentModel.View

/-- well-formed wrapper: the view satisfies the representation invariant and its `seq_len`
is the length of the parent string (the `SeqView` constructor asserts this) -/
def WF (s : Seq) : Prop := Inv s.v ∧ s.v.seqLen = s.parent.length

theorem wf_ofString (t : List Char) (nucleic : Bool) : WF (ofString t nucleic) := by
  refine ⟨⟨?_, Or.inl ⟨?_, ?_, ?_, ?_⟩⟩, rfl⟩ <;> simp [ofString]

theorem value_eq_elems' (s : Seq) (h : WF s) :
    value s = (elems s.v).map (fun i => s.parent[i.toNat]!) := by
  unfold value PySlice.slice
  have e : s.parent.length = s.v.seqLen.toNat := by rw [h.2]; simp
  rw [e, realise_eq' s.v h.1]

theorem value_length (s : Seq) (h : WF s) : (value s).length = (len s.v).toNat := by
  rw [value_eq_elems' s h, List.length_map, elems_length]

theorem str_length (comp : Char → Char) (s : Seq) (h : WF s) :
    (str comp s).length = (len s.v).toNat := by
  unfold str
  split
  · rw [List.length_map, value_length s h]
  · exact value_length s h

theorem elems_zeroSlice : elems zeroSlice = [] := rfl

/-- wrapping a result view: well-formed, and read through the *old* parent string -/
theorem wrap_spec (s : Seq) (w : View) (h : WF s) (hI : Inv w)
    (hl : w.seqLen = s.v.seqLen ∨ w = zeroSlice) :
    WF (wrap s w) ∧ value (wrap s w) = (elems w).map (fun i => s.parent[i.toNat]!) := by
  by_cases hq : w.seqLen = s.v.seqLen
  · have hwf : WF (wrap s w) := by
      refine ⟨hI, ?_⟩
      show w.seqLen = ((if w.seqLen = s.v.seqLen then s.parent else []).length : Int)
      rw [if_pos hq, hq, h.2]
    refine ⟨hwf, ?_⟩
    rw [value_eq_elems' _ hwf]
    show (elems w).map (fun i => (if w.seqLen = s.v.seqLen then s.parent else [])[i.toNat]!) = _
    rw [if_pos hq]
  · have hz : w = zeroSlice := by rcases hl with h1 | h1; exact absurd h1 hq; exact h1
    have hwf : WF (wrap s w) := by
      refine ⟨hI, ?_⟩
      show w.seqLen = ((if w.seqLen = s.v.seqLen then s.parent else []).length : Int)
      rw [if_neg hq, hz]; rfl
    refine ⟨hwf, ?_⟩
    rw [value_eq_elems' _ hwf]
    show (elems w).map _ = (elems w).map _
    rw [hz, elems_zeroSlice]; rfl

theorem getitem_inv_ok (s s' : Seq) (a b c : Option Int) (hw : getitem s a b c = .ok s') :
    ∃ w, getitemSlice .seqView s.v a b c = .ok w ∧ s' = wrap s w := by
  unfold getitem at hw
  cases hg : getitemSlice .seqView s.v a b c with
  | error e => rw [hg] at hw; cases hw
  | ok w => rw [hg] at hw; exact ⟨w, rfl, (Except.ok.inj hw).symm⟩

theorem getitemI_inv_ok (s s' : Seq) (i : Int) (hw : getitemI s i = .ok s') :
    ∃ w, getitemInt s.v i = .ok w ∧ s' = wrap s w := by
  unfold getitemI at hw
  cases hg : getitemInt s.v i with
  | error e => rw [hg] at hw; cases hw
  | ok w => rw [hg] at hw; exact ⟨w, rfl, (Except.ok.inj hw).symm⟩

theorem wf_getitem (s s' : Seq) (a b c : Option Int) (h : WF s) (hw : getitem s a b c = .ok s') :
    WF s' ∧ s'.nucleic = s.nucleic := by
  obtain ⟨w, hg, rfl⟩ := getitem_inv_ok s s' a b c hw
  exact ⟨(wrap_spec s w h (getitemSlice_inv _ s.v h.1 a b c w hg) (getitemSlice_seqLen s.v w a b c hg)).1, rfl⟩

theorem wf_getitemI (s s' : Seq) (i : Int) (h : WF s) (hw : getitemI s i = .ok s') :
    WF s' ∧ s'.nucleic = s.nucleic := by
  obtain ⟨w, hg, rfl⟩ := getitemI_inv_ok s s' i hw
  exact ⟨(wrap_spec s w h (getitemInt_inv s.v h.1 i w hg) (Or.inl (getitemInt_seqLen s.v w i hg))).1, rfl⟩

/-- the raw string of a sliced sequence is the Python slice of the raw string -/
theorem value_getitem (s s' : Seq) (a b c : Option Int) (h : WF s) (hc : c ≠ some 0)
    (hw : getitem s a b c = .ok s') :
    value s' = PySlice.slice (value s) a b (c.getD 1) := by
  have hc0 : c.getD 1 ≠ 0 := by
    cases c with
    | none => simp
    | some x => simp at hc ⊢; exact hc
  obtain ⟨w, hg, rfl⟩ := getitem_inv_ok s s' a b c hw
  rw [(wrap_spec s w h (getitemSlice_inv _ s.v h.1 a b c w hg) (getitemSlice_seqLen s.v w a b c hg)).2,
    value_eq_elems' s h, slice_map _ _ _ _ _ hc0, slice_elems s.v a b _ hc0,
    getitemSlice_spec _ s.v w a b c h.1 hc hg]

theorem value_ne_nil_len (s : Seq) (h : WF s) (hne : value s ≠ []) : len s.v ≠ 0 := by
  intro h0
  apply hne
  rw [value_eq_elems' s h, elems_nil_of_len s.v h0]; rfl

/-- complement bookkeeping: who is reversed after an operation with stride sign `cc` -/
theorem str_core (comp : Char → Char) (hcomp : ∀ x, comp (comp x) = x) (s s' : Seq)
    (a b : Option Int) (cc : Int) (hcc : cc ≠ 0) (hs : s.v.step ≠ 0)
    (hn : s'.nucleic = s.nucleic) (hv : value s' = PySlice.slice (value s) a b cc)
    (hstep : value s' ≠ [] → s'.v.step = s.v.step * cc) :
    str comp s' = specSlice comp s.nucleic (str comp s) a b cc := by
  unfold str specSlice
  simp only []
  rw [hn]
  cases hnuc : s.nucleic
  · simp [hv]
  · simp only [and_true]
    by_cases he : value s' = []
    · have hr : PySlice.slice (value s) a b cc = [] := by rw [← hv]; exact he
      have hr' : PySlice.slice ((value s).map comp) a b cc = [] := by
        rw [slice_map _ _ _ _ _ hcc, hr]; rfl
      rw [he]
      have l : (if s'.v.step < 0 then ([] : List Char).map comp else []) = [] := by split <;> rfl
      rw [l]
      split <;> split <;> simp [hr, hr']
    · have hst := hstep he
      rcases Int.lt_or_lt_of_ne hs with hk | hk <;> rcases Int.lt_or_lt_of_ne hcc with hc | hc
      · have : ¬ s'.v.step < 0 := by rw [hst]; have := Int.mul_pos_of_neg_of_neg hk hc; omega
        rw [if_neg this, if_pos hk, if_pos hc, slice_map _ _ _ _ _ hcc, List.map_map, hv]
        have : comp ∘ comp = id := funext hcomp
        rw [this, List.map_id]
      · have : s'.v.step < 0 := by rw [hst]; exact Int.mul_neg_of_neg_of_pos hk hc
        rw [if_pos this, if_pos hk, if_neg (show ¬ cc < 0 by omega), slice_map _ _ _ _ _ hcc, hv]
      · have : s'.v.step < 0 := by rw [hst]; exact Int.mul_neg_of_pos_of_neg hk hc
        rw [if_pos this, if_neg (show ¬ s.v.step < 0 by omega), if_pos hc, hv]
      · have : ¬ s'.v.step < 0 := by rw [hst]; have := Int.mul_pos hk hc; omega
        rw [if_neg this, if_neg (show ¬ s.v.step < 0 by omega), if_neg (show ¬ cc < 0 by omega), hv]

theorem step_ne_zero (s : Seq) (h : WF s) : s.v.step ≠ 0 := by
  rcases h.1 with ⟨_, hI | hI⟩ <;> omega

theorem str_getitem' (comp : Char → Char) (hcomp : ∀ x, comp (comp x) = x) (s s' : Seq)
    (a b c : Option Int) (h : WF s) (hc : c ≠ some 0) (hw : getitem s a b c = .ok s') :
    str comp s' = specSlice comp s.nucleic (str comp s) a b (c.getD 1) := by
  have hc0 : c.getD 1 ≠ 0 := by
    cases c with
    | none => simp
    | some x => simp at hc ⊢; exact hc
  have hwf := wf_getitem s s' a b c h hw
  apply str_core comp hcomp s s' a b _ hc0 (step_ne_zero s h) hwf.2 (value_getitem s s' a b c h hc hw)
  intro hne
  obtain ⟨w, hg, rfl⟩ := getitem_inv_ok s s' a b c hw
  rcases getitemSlice_step _ s.v w a b c hg with e | e
  · exact e
  · exact absurd e (value_ne_nil_len _ hwf.1 hne)

theorem str_getitemI' (comp : Char → Char) (s : Seq) (i : Int) (h : WF s) :
    (∀ s', getitemI s i = .ok s' → ∃ ch, PySlice.index (str comp s) i = some ch ∧ str comp s' = [ch]) ∧
    (∀ e, getitemI s i = .error e → PySlice.index (str comp s) i = none) := by
  obtain ⟨hok, herr⟩ := getitemInt_spec s.v h.1 i
  have hstr : ∀ g : Char → Char, PySlice.index ((value s).map g) i
      = (PySlice.index (elems s.v) i).map (fun x => g (s.parent[x.toNat]!)) := by
    intro g
    rw [value_eq_elems' s h, List.map_map, index_map]; rfl
  have hstr0 : PySlice.index (value s) i
      = (PySlice.index (elems s.v) i).map (fun x => s.parent[x.toNat]!) := by
    rw [value_eq_elems' s h, index_map]
  constructor
  · intro s' hw
    obtain ⟨w, hg, rfl⟩ := getitemI_inv_ok s s' i hw
    obtain ⟨x, hx, hwx⟩ := hok w hg
    have hv : value (wrap s w) = [s.parent[x.toNat]!] := by
      rw [(wrap_spec s w h (getitemInt_inv s.v h.1 i w hg) (Or.inl (getitemInt_seqLen s.v w i hg))).2, hwx]; rfl
    have hsgn : (w.step < 0 ↔ s.v.step < 0) := by
      rcases getitemInt_step s.v w h.1 i hg with e | e
      · exact e
      · rw [elems_nil_of_len w e] at hwx; cases hwx
    unfold str
    rw [hv]
    show ∃ ch, PySlice.index (if s.v.step < 0 ∧ s.nucleic = true then _ else _) i = some ch ∧
      (if w.step < 0 ∧ s.nucleic = true then _ else _) = [ch]
    by_cases hcnd : s.v.step < 0 ∧ s.nucleic = true
    · rw [if_pos hcnd, if_pos ⟨hsgn.2 hcnd.1, hcnd.2⟩, hstr, hx]
      exact ⟨_, rfl, rfl⟩
    · have : ¬ (w.step < 0 ∧ s.nucleic = true) := fun hh => hcnd ⟨hsgn.1 hh.1, hh.2⟩
      rw [if_neg hcnd, if_neg this, hstr0, hx]
      exact ⟨_, rfl, rfl⟩
  · intro e hw
    have hg : getitemInt s.v i = .error e := by
      unfold getitemI at hw
      cases hg : getitemInt s.v i with
      | error e' => rw [hg] at hw; rw [Except.error.inj hw]
      | ok w => rw [hg] at hw; cases hw
    have hnone := herr e hg
    unfold str
    split
    · rw [hstr, hnone]; rfl
    · rw [hstr0, hnone]; rfl

theorem rcE_ok (s : Seq) (h : WF s) : ∃ r, rcE s = .ok r := by
  obtain ⟨w, hw⟩ := getitemSlice_isOk .seqView s.v none none (some (-1)) h.1 (by simp)
  exact ⟨wrap s w, by unfold rcE getitem; rw [hw]⟩

theorem rc_eq (s r : Seq) (hr : rcE s = .ok r) : rc s = r := by
  unfold rc; rw [hr]

theorem str_rcE (comp : Char → Char) (hcomp : ∀ x, comp (comp x) = x) (s r : Seq) (h : WF s)
    (hn : s.nucleic = true) (hr : rcE s = .ok r) : str comp r = specRc comp (str comp s) := by
  have := str_getitem' comp hcomp s r none none (some (-1)) h (by simp) hr
  rw [this]
  unfold specSlice specRc
  simp only [Option.getD_some, hn, and_true]
  rw [if_pos (by omega), slice_rev]

theorem wf_rc (s : Seq) (h : WF s) : WF (rc s) ∧ (rc s).nucleic = s.nucleic := by
  obtain ⟨r, hr⟩ := rcE_ok s h
  rw [rc_eq s r hr]
  exact wf_getitem s r _ _ _ h hr

theorem str_rc' (comp : Char → Char) (hcomp : ∀ x, comp (comp x) = x) (s : Seq) (h : WF s)
    (hn : s.nucleic = true) : str comp (rc s) = specRc comp (str comp s) := by
  obtain ⟨r, hr⟩ := rcE_ok s h
  rw [rc_eq s r hr]
  exact str_rcE comp hcomp s r h hn hr

theorem specRc_specRc (comp : Char → Char) (hcomp : ∀ x, comp (comp x) = x) (t : List Char) :
    specRc comp (specRc comp t) = t := by
  unfold specRc
  have : comp ∘ comp = id := funext hcomp
  rw [List.map_reverse, List.map_map, this, List.map_id, List.reverse_reverse]

theorem rc_rc' (comp : Char → Char) (hcomp : ∀ x, comp (comp x) = x) (s : Seq) (h : WF s)
    (hn : s.nucleic = true) : str comp (rc (rc s)) = str comp s := by
  obtain ⟨h1, n1⟩ := wf_rc s h
  rw [str_rc' comp hcomp (rc s) h1 (by rw [n1, hn]), str_rc' comp hcomp s h hn, specRc_specRc comp hcomp]

/-- an op is admissible: no zero slice step; `rc` only exists on nucleic acids -/
def SOp.ok (nucleic : Bool) : SOp → Prop
  | .slice _ _ c => c ≠ some 0
  | .index _ => True
  | .rc => nucleic = true

theorem step1_spec (comp : Char → Char) (hcomp : ∀ x, comp (comp x) = x) (s : Seq) (op : SOp)
    (h : WF s) (hop : op.ok s.nucleic) :
    (∀ s', step1 s op = .ok s' →
      specStep comp s.nucleic (str comp s) op = some (str comp s') ∧ WF s' ∧ s'.nucleic = s.nucleic) ∧
    (∀ e, step1 s op = .error e → specStep comp s.nucleic (str comp s) op = none) := by
  cases op with
  | slice a b c =>
    constructor
    · intro s' hw
      refine ⟨?_, wf_getitem s s' a b c h hw⟩
      simp only [specStep, Option.some.injEq]
      exact (str_getitem' comp hcomp s s' a b c h hop hw).symm
    · intro e hw
      obtain ⟨w, hg⟩ := getitemSlice_isOk .seqView s.v a b c h.1 hop
      simp only [step1, getitem, hg] at hw
      cases hw
  | index i =>
    obtain ⟨hok, herr⟩ := str_getitemI' comp s i h
    constructor
    · intro s' hw
      obtain ⟨ch, h1, h2⟩ := hok s' hw
      refine ⟨?_, wf_getitemI s s' i h hw⟩
      simp only [specStep, h1, Option.map_some, h2]
    · intro e hw
      simp only [specStep, herr e hw, Option.map_none]
  | rc =>
    constructor
    · intro s' hw
      refine ⟨?_, wf_getitem s s' _ _ _ h hw⟩
      simp only [specStep, Option.some.injEq]
      exact (str_rcE comp hcomp s s' h hop hw).symm
    · intro e hw
      obtain ⟨r, hr⟩ := rcE_ok s h
      simp only [step1, hr] at hw
      cases hw

theorem runOps_spec (comp : Char → Char) (hcomp : ∀ x, comp (comp x) = x) (ops : List SOp) (s : Seq)
    (h : WF s) (hops : ∀ op ∈ ops, op.ok s.nucleic) :
    (∀ s', runOps s ops = .ok s' → specRun comp s.nucleic (str comp s) ops = some (str comp s') ∧ WF s') ∧
    (∀ e, runOps s ops = .error e → specRun comp s.nucleic (str comp s) ops = none) := by
  induction ops generalizing s with
  | nil =>
    constructor
    · intro s' hw; simp only [runOps, Except.ok.injEq] at hw; subst hw; exact ⟨rfl, h⟩
    · intro e hw; simp [runOps] at hw
  | cons op ops ih =>
    obtain ⟨hok, herr⟩ := step1_spec comp hcomp s op h (hops op (by simp))
    unfold runOps specRun
    cases hs : step1 s op with
    | error e' =>
      constructor
      · intro s' hw; simp at hw
      · intro e _; rw [herr e' hs]; rfl
    | ok u =>
      obtain ⟨h1, hu, hn⟩ := hok u hs
      rw [h1]
      simp only [Option.bind_some]
      rw [← hn]
      exact ih u hu (fun o ho => by rw [hn]; exact hops o (by simp [ho]))

end CogentModel.SeqWrap
