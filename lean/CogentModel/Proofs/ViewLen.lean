import CogentModel.Proofs.ViewSem
import Mathlib.Tactic.Linarith
import Mathlib.Tactic.Ring
/-! Length kit for slice records: `len v` is the ceiling of `|stop - start| / |step|`,
characterised by two linear-looking bounds, plus the matching facts for Python's
`len(range(a, b, c))` and the "(first, length, stride)" description of `elems`. -/
namespace CogentModel.View
open CogentModel

/-- ceiling-division characterisation: `L = -((-d) / k)` -/
theorem ceil_kit (d k : Int) (hk : 0 < k) (hd : 0 ≤ d) :
    0 ≤ -((-d) / k) ∧ d ≤ -((-d) / k) * k ∧ -((-d) / k) * k < d + k := by
  have h1 := Int.mul_ediv_add_emod (-d) k
  have h2 := Int.emod_nonneg (-d) (show k ≠ 0 by omega)
  have h3 := Int.emod_lt_of_pos (-d) hk
  generalize (-d) / k = q at *
  generalize (-d) % k = r at *
  refine ⟨?_, ?_, ?_⟩
  · nlinarith
  · nlinarith
  · nlinarith

/-- the `L` with `(L-1)*k < d ≤ L*k` is unique -/
theorem ceil_unique (d k L L' : Int) (hk : 0 < k)
    (h1 : d ≤ L * k) (h2 : L * k < d + k) (h1' : d ≤ L' * k) (h2' : L' * k < d + k) : L = L' := by
  have a : (L - L') * k < k := by nlinarith
  have b : (L' - L) * k < k := by nlinarith
  have : L - L' < 1 := by nlinarith
  have : L' - L < 1 := by nlinarith
  omega

theorem len_fwd_eq (v : View) (hs : 0 < v.step) (h : v.start ≤ v.stop) :
    len v = -((-(v.stop - v.start)) / v.step) := by
  unfold len pyabs
  rw [Int.fdiv_eq_ediv_of_nonneg _ (le_of_lt hs)]
  have e : v.start - v.stop = -(v.stop - v.start) := by ring
  rw [e]
  have := (ceil_kit (v.stop - v.start) v.step hs (by omega)).1
  split <;> omega

theorem len_rev_eq (v : View) (hs : v.step < 0) (h : v.stop ≤ v.start) :
    len v = -((-(v.start - v.stop)) / (-v.step)) := by
  unfold len pyabs
  rw [← Int.neg_fdiv_neg, Int.fdiv_eq_ediv_of_nonneg _ (by omega : (0:Int) ≤ -v.step)]
  have := (ceil_kit (v.start - v.stop) (-v.step) (by omega) (by omega)).1
  split <;> omega

/-- length kit, forward views (only needs `start ≤ stop`) -/
theorem len_fwd' (v : View) (hs : 0 < v.step) (hh : v.start ≤ v.stop) :
    0 ≤ len v ∧ v.stop - v.start ≤ len v * v.step ∧ len v * v.step < v.stop - v.start + v.step := by
  rw [len_fwd_eq v hs hh]
  exact ceil_kit _ _ hs (by omega)

/-- length kit, reversed views (only needs `stop ≤ start`) -/
theorem len_rev' (v : View) (hs : v.step < 0) (hh : v.stop ≤ v.start) :
    0 ≤ len v ∧ v.start - v.stop ≤ len v * (-v.step) ∧
      len v * (-v.step) < v.start - v.stop + (-v.step) := by
  rw [len_rev_eq v hs hh]
  exact ceil_kit _ _ (by omega) (by omega)

theorem len_fwd (v : View) (h : Inv v) (hs : 0 < v.step) :
    0 ≤ len v ∧ v.stop - v.start ≤ len v * v.step ∧ len v * v.step < v.stop - v.start + v.step :=
  len_fwd' v hs (by rcases h with ⟨_, h | h⟩ <;> omega)

theorem len_rev (v : View) (h : Inv v) (hs : v.step < 0) :
    0 ≤ len v ∧ v.start - v.stop ≤ len v * (-v.step) ∧
      len v * (-v.step) < v.start - v.stop + (-v.step) :=
  len_rev' v hs (by rcases h with ⟨_, h | h⟩ <;> omega)

theorem len_nonneg (v : View) : 0 ≤ len v := by
  unfold len pyabs; split <;> omega

/-- a forward record whose bounds satisfy the ceiling inequalities for `L` has length `L` -/
theorem len_eq_of_bounds_fwd (w : View) (L : Int) (hs : 0 < w.step) (hle : w.start ≤ w.stop)
    (h1 : w.stop - w.start ≤ L * w.step) (h2 : L * w.step < w.stop - w.start + w.step) :
    len w = L := by
  obtain ⟨_, a, b⟩ := len_fwd' w hs hle
  exact ceil_unique _ _ _ _ hs a b h1 h2

theorem len_eq_of_bounds_rev (w : View) (L : Int) (hs : w.step < 0) (hle : w.stop ≤ w.start)
    (h1 : w.start - w.stop ≤ L * (-w.step)) (h2 : L * (-w.step) < w.start - w.stop + (-w.step)) :
    len w = L := by
  obtain ⟨_, a, b⟩ := len_rev' w hs hle
  exact ceil_unique _ _ _ _ (by omega) a b h1 h2

/-- `(d - 1) / c + 1` is the ceiling of `d / c` -/
theorem ceil_kit' (d c : Int) (hc : 0 < c) (hd : 0 < d) :
    0 < (d - 1) / c + 1 ∧ d ≤ ((d - 1) / c + 1) * c ∧ ((d - 1) / c + 1) * c < d + c := by
  have h1 := Int.mul_ediv_add_emod (d - 1) c
  have h2 := Int.emod_nonneg (d - 1) (show c ≠ 0 by omega)
  have h3 := Int.emod_lt_of_pos (d - 1) hc
  generalize (d - 1) / c = q at *
  generalize (d - 1) % c = r at *
  refine ⟨?_, ?_, ?_⟩
  · nlinarith
  · nlinarith
  · nlinarith

/-- `len(range(a, b, c))`, ascending -/
theorem rangeLen_pos (a b c : Int) (hc : 0 < c) (h : a < b) :
    ∃ L : Int, 0 < L ∧ PySlice.rangeLen a b c = L.toNat ∧ b - a ≤ L * c ∧ L * c < b - a + c := by
  refine ⟨(b - a - 1) / c + 1, ?_, ?_, ?_, ?_⟩
  · exact (ceil_kit' (b - a) c hc (by omega)).1
  · simp [PySlice.rangeLen, hc, h]
  · exact (ceil_kit' (b - a) c hc (by omega)).2.1
  · exact (ceil_kit' (b - a) c hc (by omega)).2.2

/-- `len(range(a, b, c))`, descending -/
theorem rangeLen_neg (a b c : Int) (hc : c < 0) (h : b < a) :
    ∃ L : Int, 0 < L ∧ PySlice.rangeLen a b c = L.toNat ∧ a - b ≤ L * (-c) ∧ L * (-c) < a - b + (-c) := by
  have hc' : ¬ (c > 0) := by omega
  refine ⟨(a - b - 1) / (-c) + 1, ?_, ?_, ?_, ?_⟩
  · exact (ceil_kit' (a - b) (-c) (by omega) (by omega)).1
  · simp [PySlice.rangeLen, hc', hc, h]
  · exact (ceil_kit' (a - b) (-c) (by omega) (by omega)).2.1
  · exact (ceil_kit' (a - b) (-c) (by omega) (by omega)).2.2

theorem rangeLen_pos_empty (a b c : Int) (hc : 0 < c) (h : b ≤ a) : PySlice.rangeLen a b c = 0 := by
  have : ¬ a < b := by omega
  simp [PySlice.rangeLen, hc, this]

theorem rangeLen_neg_empty (a b c : Int) (hc : c < 0) (h : a ≤ b) : PySlice.rangeLen a b c = 0 := by
  have : ¬ b < a := by omega
  have hc' : ¬ (c > 0) := by omega
  simp [PySlice.rangeLen, hc, hc', this]

/-- scaling a ceiling: if `D` lies in the last `kk`-block below `m*kk`, then
`⌈D / (kk*cc)⌉ = ⌈m / cc⌉` -/
theorem ceil_scale (m kk cc D L : Int) (hk : 0 < kk)
    (hlo : (m - 1) * kk < D) (hhi : D ≤ m * kk) (h1 : m ≤ L * cc) (h2 : L * cc < m + cc) :
    D ≤ L * (kk * cc) ∧ L * (kk * cc) < D + kk * cc := by
  have a : m * kk ≤ (L * cc) * kk := Int.mul_le_mul_of_nonneg_right h1 (le_of_lt hk)
  have b : (L * cc - cc) * kk ≤ (m - 1) * kk :=
    Int.mul_le_mul_of_nonneg_right (by omega) (le_of_lt hk)
  have e1 : L * (kk * cc) = (L * cc) * kk := by ring
  have e2 : (L * cc - cc) * kk = (L * cc) * kk - kk * cc := by ring
  rw [e1]
  constructor
  · omega
  · omega

/-- "(length, first, stride)" description of what a record displays -/
def Sem (w : View) (L : Nat) (f s : Int) : Prop :=
  (len w).toNat = L ∧ (0 < L → first w = f ∧ w.step = s)

theorem elems_of_sem (w : View) (L : Nat) (f s : Int) (h : Sem w L f s) :
    elems w = (List.range L).map fun (i : Nat) => f + (i : Int) * s := by
  unfold elems
  rw [h.1]
  rcases Nat.eq_zero_or_pos L with h0 | hp
  · subst h0; rfl
  · obtain ⟨a, b⟩ := h.2 hp
    rw [a, b]

theorem sem_empty (w : View) (f s : Int) (h : len w = 0) : Sem w 0 f s :=
  ⟨by rw [h]; rfl, fun h => absurd h (by omega)⟩

theorem len_zero (fl : Flavour) (v : View) : len (zero fl v) = 0 := by
  cases fl <;> rfl

theorem len_eq_zero_of_eq (w : View) (h : w.start = w.stop) : len w = 0 := by
  unfold len pyabs
  rw [h, Int.sub_self]
  cases hs : w.step <;> simp [Int.fdiv]

end CogentModel.View
