import CogentModel.Model.UPGMA
import CogentModel.Proofs.NJLemmas
import Mathlib.Order.Lattice
/-! Helper lemmas for C15 (UPGMA): the minimum pair of an ultrametric, the realisation invariant of one
clustering pass, the loop, the initial state. -/
namespace CogentModel.UPGMA
open CogentModel.NJ (Mat get tab get_tab)

theorem getD_set2 (l : List (Option Entry)) (i j a : Nat) (v : Option Entry) (hi : i < l.length) (hj : j < l.length)
    (hij : i ≠ j) :
    ((l.set i v).set j none).getD a none = if a = j then none else if a = i then v else l.getD a none := by
  simp only [List.getD_eq_getElem?_getD, List.getElem?_set, List.length_set]
  by_cases haj : a = j
  · subst haj; simp [hj]
  · by_cases hai : a = i
    · subst hai; simp [haj, hi, Ne.symm haj]
    · simp [haj, hai, Ne.symm haj, Ne.symm hai]

/-- three-point (ultrametric) condition on the live indices -/
def Ultra (S : Nat → Prop) (d : Nat → Nat → Rat) : Prop :=
  ∀ x y z, S x → S y → S z → x ≠ y → y ≠ z → x ≠ z → d x z ≤ max (d x y) (d y z)

theorem min_pair_rows_equal (S : Nat → Prop) (d : Nat → Nat → Rat) (i j : Nat)
    (hsym : ∀ a b, S a → S b → d a b = d b a) (hu : Ultra S d) (hi : S i) (hj : S j)
    (hij : i ≠ j) (hmin : ∀ a b, S a → S b → a ≠ b → d i j ≤ d a b) (k : Nat) (hk : S k) (hki : k ≠ i) (hkj : k ≠ j) :
    d i k = d j k := by
  have h1 : d i k ≤ d j k := by
    have := hu i j k hi hj hk hij (Ne.symm hkj) (Ne.symm hki)
    have hm := hmin j k hj hk (Ne.symm hkj)
    rw [max_eq_right hm] at this; exact this
  have h2 : d j k ≤ d i k := by
    have := hu j i k hj hi hk (Ne.symm hij) (Ne.symm hki) (Ne.symm hkj)
    have hm := hmin i k hi hk (Ne.symm hki)
    rw [hsym j i hj hi, max_eq_right hm] at this; exact this
  exact le_antisymm h1 h2

/-- all tip pairs inside the subtree have path length `D` -/
def UReal (D : Nat → Nat → Rat) : U → Prop
  | .tip _ => True
  | .node c1 l1 c2 l2 => UReal D c1 ∧ UReal D c2 ∧
      ∀ p ∈ c1.depths, ∀ q ∈ c2.depths, D p.1 q.1 = p.2 + l1 + l2 + q.2

/-- all branch lengths are non-negative -/
def NonNeg : U → Prop
  | .tip _ => True
  | .node c1 l1 c2 l2 => NonNeg c1 ∧ NonNeg c2 ∧ 0 ≤ l1 ∧ 0 ≤ l2

def Live (order : List (Option Entry)) (a : Nat) : Prop := ∃ e, order.getD a none = some e

/-- the clustering state realises `D`: every live node is an ultrametric subtree of the right height
realising `D` inside, different live nodes are at matrix distance, the live part of the matrix is symmetric,
ultrametric and not below twice any node height -/
structure UInv (D : Nat → Nat → Rat) (n : Nat) (m : Mat) (order : List (Option Entry)) : Prop where
  len : order.length = n
  sym : ∀ a b, Live order a → Live order b → get m a b = get m b a
  ultra : Ultra (Live order) (get m)
  node : ∀ a e, order.getD a none = some e →
    (∀ p ∈ e.tree.depths, p.2 = e.height) ∧ UReal D e.tree ∧ NonNeg e.tree ∧ (e.isTip = true → e.height = 0)
  cross : ∀ a b ea eb, a ≠ b → order.getD a none = some ea → order.getD b none = some eb →
    ∀ p ∈ ea.tree.depths, ∀ q ∈ eb.tree.depths, D p.1 q.1 = get m a b
  low : ∀ a b ea, a ≠ b → order.getD a none = some ea → Live order b → 2 * ea.height ≤ get m a b

theorem live_lt (order : List (Option Entry)) (a : Nat) (h : Live order a) : a < order.length := by
  obtain ⟨e, he⟩ := h
  by_contra hlt
  rw [List.getD_eq_getElem?_getD, List.getElem?_eq_none (by omega)] at he
  simp at he

theorem udepths_node (c1 c2 : U) (l1 l2 : Rat) (p : Nat × Rat) (hp : p ∈ (U.node c1 l1 c2 l2).depths) :
    (∃ p0 ∈ c1.depths, p = (p0.1, p0.2 + l1)) ∨ (∃ p0 ∈ c2.depths, p = (p0.1, p0.2 + l2)) := by
  simp only [U.depths, List.mem_append, List.mem_map] at hp
  rcases hp with ⟨p0, h0, rfl⟩ | ⟨p0, h0, rfl⟩
  · exact Or.inl ⟨p0, h0, rfl⟩
  · exact Or.inr ⟨p0, h0, rfl⟩

theorem branch_add (e : Entry) (d : Rat) (h : e.isTip = true → e.height = 0) : e.height + branch e d = d := by
  unfold branch
  by_cases ht : e.isTip = true
  · rw [if_pos ht, h ht]; ring
  · rw [if_neg ht]; ring

theorem branch_nonneg (e : Entry) (d : Rat) (h : e.isTip = true → e.height = 0) (hd : e.height ≤ d) : 0 ≤ branch e d := by
  have := branch_add e d h
  linarith

theorem stepWith_inv (D : Nat → Nat → Rat) (n : Nat) (big : Rat) (m : Mat) (order : List (Option Entry))
    (i j : Nat) (hI : UInv D n m order) (hi : Live order i) (hj : Live order j) (hij : i ≠ j)
    (hmin : ∀ a b, Live order a → Live order b → a ≠ b → get m i j ≤ get m a b) :
    UInv D n (stepWith n big order m (i, j)).m (stepWith n big order m (i, j)).order := by
  obtain ⟨ei, hei⟩ := hi
  obtain ⟨ej, hej⟩ := hj
  have hi : Live order i := ⟨ei, hei⟩
  have hj : Live order j := ⟨ej, hej⟩
  have hin : i < n := hI.len ▸ live_lt order i hi
  have hjn : j < n := hI.len ▸ live_lt order j hj
  have hrows : ∀ k, Live order k → k ≠ i → k ≠ j → get m i k = get m j k :=
    fun k hk hki hkj => min_pair_rows_equal (Live order) (get m) i j hI.sym hI.ultra hi hj hij hmin k hk hki hkj
  obtain ⟨hdi, hri, hni, hti⟩ := hI.node i ei hei
  obtain ⟨hdj, hrj, hnj, htj⟩ := hI.node j ej hej
  -- the new entry
  let d : Rat := get m i j / 2
  let new : Entry := { tree := .node ei.tree (branch ei d) ej.tree (branch ej d), isTip := false, height := d }
  have hord : ∀ a, (stepWith n big order m (i, j)).order.getD a none
      = if a = j then none else if a = i then some new else order.getD a none := by
    intro a
    show (condenseNodes m i j order).getD a none = _
    unfold condenseNodes
    simp only [hei, hej, Option.getD_some]
    exact getD_set2 order i j a _ (hI.len ▸ hin) (hI.len ▸ hjn) hij
  have hlive : ∀ a, Live (stepWith n big order m (i, j)).order a → a ≠ j ∧ Live order a := by
    intro a ⟨e, he⟩
    rw [hord a] at he
    by_cases haj : a = j
    · rw [if_pos haj] at he; cases he
    · refine ⟨haj, ?_⟩
      by_cases hai : a = i
      · exact hai ▸ hi
      · rw [if_neg haj, if_neg hai] at he; exact ⟨e, he⟩
  have hmat : ∀ a b, Live order a → Live order b → a ≠ j → b ≠ j → a ≠ b →
      get (stepWith n big order m (i, j)).m a b = get m a b := by
    intro a b ha hb haj hbj hab
    have han : a < n := hI.len ▸ live_lt order a ha
    have hbn : b < n := hI.len ▸ live_lt order b hb
    show get (condenseMatrix m n i j big) a b = _
    unfold condenseMatrix
    rw [get_tab _ _ _ _ han hbn, if_neg (by omega)]
    by_cases hai : a = i
    · subst hai
      rw [if_pos rfl]; unfold newVec
      rw [← hrows b hb (Ne.symm hab) hbj]; ring
    · rw [if_neg hai]
      by_cases hbi : b = i
      · subst hbi
        rw [if_pos rfl]; unfold newVec
        rw [← hrows a ha hai haj, hI.sym b a hb ha]; ring
      · rw [if_neg hbi]
  have h2d : 2 * d = get m i j := by show 2 * (get m i j / 2) = _; ring
  have hdi_le : ei.height ≤ d := by
    have := hI.low i j ei hij hei hj; linarith
  have hdj_le : ej.height ≤ d := by
    have := hI.low j i ej (Ne.symm hij) hej hi
    rw [hI.sym j i hj hi] at this; linarith
  have hnewdepth : ∀ p ∈ new.tree.depths, p.2 = d := by
    intro p hp
    rcases udepths_node _ _ _ _ p hp with ⟨p0, h0, rfl⟩ | ⟨p0, h0, rfl⟩
    · show p0.2 + branch ei d = d
      rw [hdi p0 h0]; exact branch_add ei d hti
    · show p0.2 + branch ej d = d
      rw [hdj p0 h0]; exact branch_add ej d htj
  have hnewreal : UReal D new.tree := by
    refine ⟨hri, hrj, ?_⟩
    intro p hp q hq
    rw [hI.cross i j ei ej hij hei hej p hp q hq, hdi p hp, hdj q hq, ← h2d]
    have := branch_add ei d hti; have := branch_add ej d htj
    linarith
  have hnewnn : NonNeg new.tree :=
    ⟨hni, hnj, branch_nonneg ei d hti hdi_le, branch_nonneg ej d htj hdj_le⟩
  -- entries seen from the new node
  have hnewcross : ∀ b eb, b ≠ i → b ≠ j → order.getD b none = some eb →
      ∀ p ∈ new.tree.depths, ∀ q ∈ eb.tree.depths, D p.1 q.1 = get m i b := by
    intro b eb hbi hbj heb p hp q hq
    rcases udepths_node _ _ _ _ p hp with ⟨p0, h0, rfl⟩ | ⟨p0, h0, rfl⟩
    · exact hI.cross i b ei eb (Ne.symm hbi) hei heb p0 h0 q hq
    · show D p0.1 q.1 = get m i b
      rw [hI.cross j b ej eb (Ne.symm hbj) hej heb p0 h0 q hq, hrows b ⟨eb, heb⟩ hbi hbj]
  refine ⟨?_, ?_, ?_, ?_, ?_, ?_⟩
  · show (condenseNodes m i j order).length = n
    unfold condenseNodes; simp [hI.len]
  · intro a b ha hb
    obtain ⟨haj, ha'⟩ := hlive a ha
    obtain ⟨hbj, hb'⟩ := hlive b hb
    by_cases hab : a = b
    · rw [hab]
    · rw [hmat a b ha' hb' haj hbj hab, hmat b a hb' ha' hbj haj (Ne.symm hab)]
      exact hI.sym a b ha' hb'
  · intro x y z hx hy hz hxy hyz hxz
    obtain ⟨hxj, hx'⟩ := hlive x hx
    obtain ⟨hyj, hy'⟩ := hlive y hy
    obtain ⟨hzj, hz'⟩ := hlive z hz
    rw [hmat x z hx' hz' hxj hzj hxz, hmat x y hx' hy' hxj hyj hxy, hmat y z hy' hz' hyj hzj hyz]
    exact hI.ultra x y z hx' hy' hz' hxy hyz hxz
  · intro a e he
    rw [hord a] at he
    by_cases haj : a = j
    · rw [if_pos haj] at he; cases he
    · rw [if_neg haj] at he
      by_cases hai : a = i
      · rw [if_pos hai] at he
        cases he
        exact ⟨hnewdepth, hnewreal, hnewnn, fun h => by cases h⟩
      · rw [if_neg hai] at he
        exact hI.node a e he
  · intro a b ea eb hab hea heb p hp q hq
    obtain ⟨haj, ha'⟩ := hlive a ⟨ea, hea⟩
    obtain ⟨hbj, hb'⟩ := hlive b ⟨eb, heb⟩
    rw [hmat a b ha' hb' haj hbj hab]
    rw [hord a, if_neg haj] at hea
    rw [hord b, if_neg hbj] at heb
    by_cases hai : a = i
    · rw [if_pos hai] at hea; cases hea
      have hbi : b ≠ i := fun h => hab (hai.trans h.symm)
      rw [if_neg hbi] at heb
      rw [hai]
      exact hnewcross b eb hbi hbj heb p hp q hq
    · rw [if_neg hai] at hea
      by_cases hbi : b = i
      · rw [if_pos hbi] at heb; cases heb
        rw [hbi, hI.sym a i ha' hi]
        rcases udepths_node _ _ _ _ q hq with ⟨q0, h0, rfl⟩ | ⟨q0, h0, rfl⟩
        · show D p.1 q0.1 = get m i a
          rw [hI.cross a i ea ei hai hea hei p hp q0 h0, hI.sym a i ha' hi]
        · show D p.1 q0.1 = get m i a
          rw [hI.cross a j ea ej haj hea hej p hp q0 h0, hI.sym a j ha' hj, hrows a ha' hai haj]
      · rw [if_neg hbi] at heb
        exact hI.cross a b ea eb hab hea heb p hp q hq
  · intro a b ea hab hea hb
    obtain ⟨haj, ha'⟩ := hlive a ⟨ea, hea⟩
    obtain ⟨hbj, hb'⟩ := hlive b hb
    rw [hmat a b ha' hb' haj hbj hab]
    rw [hord a, if_neg haj] at hea
    by_cases hai : a = i
    · rw [if_pos hai] at hea; cases hea
      show 2 * d ≤ get m a b
      rw [h2d, hai]
      exact hmin i b hi hb' (hai ▸ hab)
    · rw [if_neg hai] at hea
      exact hI.low a b ea hab hea hb'

/-! ### the selected pair, the loop -/

theorem uinv_congr (D : Nat → Nat → Rat) (n : Nat) (m m1 : Mat) (order : List (Option Entry))
    (h : ∀ a b, Live order a → Live order b → a ≠ b → get m1 a b = get m a b) (hI : UInv D n m order) :
    UInv D n m1 order := by
  refine ⟨hI.len, ?_, ?_, hI.node, ?_, ?_⟩
  · intro a b ha hb
    by_cases hab : a = b
    · rw [hab]
    · rw [h a b ha hb hab, h b a hb ha (Ne.symm hab)]; exact hI.sym a b ha hb
  · intro x y z hx hy hz hxy hyz hxz
    rw [h x z hx hz hxz, h x y hx hy hxy, h y z hy hz hyz]
    exact hI.ultra x y z hx hy hz hxy hyz hxz
  · intro a b ea eb hab hea heb p hp q hq
    rw [h a b ⟨ea, hea⟩ ⟨eb, heb⟩ hab]; exact hI.cross a b ea eb hab hea heb p hp q hq
  · intro a b ea hab hea hb
    rw [h a b ⟨ea, hea⟩ hb hab]; exact hI.low a b ea hab hea hb

theorem select_offdiag (n : Nat) (big : Rat) (m : Mat) (a b : Nat) (ha : a < n) (hb : b < n) (hab : a ≠ b) :
    get (select n big m).1 a b = get m a b := by
  unfold select
  by_cases h : (findSmallest m n).1 = (findSmallest m n).2
  · rw [if_pos h]
    show get (resetDiag m n big) a b = _
    unfold resetDiag
    rw [get_tab _ _ _ _ ha hb, if_neg hab]
  · rw [if_neg h]

/-- the pair chosen by `find_smallest_index` (after the possible diagonal reset) is a pair of distinct live
clusters at globally minimal distance among live clusters -/
def GoodSel (n : Nat) (big : Rat) (st : State) : Prop :=
  Live st.order (select n big st.m).2.1 ∧ Live st.order (select n big st.m).2.2 ∧
  (select n big st.m).2.1 ≠ (select n big st.m).2.2 ∧
  ∀ a b, Live st.order a → Live st.order b → a ≠ b →
    get (select n big st.m).1 (select n big st.m).2.1 (select n big st.m).2.2 ≤ get (select n big st.m).1 a b

theorem step_inv (D : Nat → Nat → Rat) (n : Nat) (big : Rat) (st : State) (hI : UInv D n st.m st.order)
    (hg : GoodSel n big st) : UInv D n (step n big st).m (step n big st).order := by
  obtain ⟨h1, h2, h3, h4⟩ := hg
  have hI1 : UInv D n (select n big st.m).1 st.order :=
    uinv_congr D n st.m _ st.order
      (fun a b ha hb hab => select_offdiag n big st.m a b (hI.len ▸ live_lt _ a ha) (hI.len ▸ live_lt _ b hb) hab) hI
  exact stepWith_inv D n big _ st.order _ _ hI1 h1 h2 h3 h4

theorem iter_inv (D : Nat → Nat → Rat) (n : Nat) (big : Rat) (k : Nat) (st : State)
    (hI : UInv D n st.m st.order) (hg : ∀ t, t < k → GoodSel n big (iter n big t st)) :
    UInv D n (iter n big k st).m (iter n big k st).order := by
  induction k generalizing st with
  | zero => exact hI
  | succ k ih =>
    show UInv D n (iter n big k (step n big st)).m (iter n big k (step n big st)).order
    apply ih _ (step_inv D n big st hI (hg 0 (by omega)))
    intro t ht
    exact hg (t + 1) (by omega)

/-! ### the result -/

theorem stepWith_tree (n : Nat) (big : Rat) (order : List (Option Entry)) (m : Mat) (i j : Nat)
    (hi : i < order.length) (hj : j < order.length) (hij : i ≠ j) :
    ∃ e, (stepWith n big order m (i, j)).tree = some e ∧ (stepWith n big order m (i, j)).order.getD i none = some e := by
  show ∃ e, (condenseNodes m i j order).getD i none = some e ∧ (condenseNodes m i j order).getD i none = some e
  unfold condenseNodes
  rw [getD_set2 order i j i _ hi hj hij, if_neg hij, if_pos rfl]
  exact ⟨_, rfl, rfl⟩

/-- after at least one pass the tree handed back by `UPGMA_cluster` is a live node of the final state -/
theorem iter_tree (D : Nat → Nat → Rat) (n : Nat) (big : Rat) (k : Nat) (st : State)
    (hI : UInv D n st.m st.order) (hg : ∀ t, t < k + 1 → GoodSel n big (iter n big t st)) :
    ∃ a e, (iter n big (k + 1) st).tree = some e ∧ (iter n big (k + 1) st).order.getD a none = some e := by
  induction k generalizing st with
  | zero =>
    obtain ⟨h1, h2, h3, _⟩ := hg 0 (by omega)
    show ∃ a e, (step n big st).tree = some e ∧ (step n big st).order.getD a none = some e
    obtain ⟨e, he1, he2⟩ := stepWith_tree n big st.order (select n big st.m).1 _ _ (live_lt _ _ h1) (live_lt _ _ h2) h3
    exact ⟨_, e, he1, he2⟩
  | succ k ih =>
    show ∃ a e, (iter n big (k + 1) (step n big st)).tree = some e ∧ _
    exact ih _ (step_inv D n big st hI (hg 0 (by omega))) (fun t ht => hg (t + 1) (by omega))

theorem upgma_eq (n : Nat) (d : Mat) (big : Rat) :
    upgma n d big = ((iter n big (n - 1) (init n d big)).tree).map (·.tree) := rfl

theorem init_order (n : Nat) (d : Mat) (big : Rat) (a : Nat) :
    (init n d big).order.getD a none
      = if a < n then some ({ tree := .tip a, isTip := true, height := 0 } : Entry) else none := by
  by_cases h : a < n
  · simp [init, List.getD_eq_getElem?_getD, h]
  · simp [init, List.getD_eq_getElem?_getD, h]

theorem init_inv (D : Nat → Nat → Rat) (n : Nat) (big : Rat)
    (hDs : ∀ a b, D a b = D b a) (hDn : ∀ a b, 0 ≤ D a b)
    (hDu : ∀ x y z, x < n → y < n → z < n → x ≠ y → y ≠ z → x ≠ z → D x z ≤ max (D x y) (D y z)) :
    UInv D n (init n (tab n D) big).m (init n (tab n D) big).order := by
  have hlive : ∀ a, Live (init n (tab n D) big).order a → a < n := by
    intro a ⟨e, he⟩
    rw [init_order] at he
    by_contra h; rw [if_neg h] at he; cases he
  have hm : ∀ a b, a < n → b < n → a ≠ b → get (init n (tab n D) big).m a b = D a b := by
    intro a b ha hb hab
    show get (tab n _) a b = _
    rw [get_tab _ _ _ _ ha hb, if_neg hab, get_tab _ _ _ _ ha hb]
  have hent : ∀ a e, (init n (tab n D) big).order.getD a none = some e →
      a < n ∧ e = { tree := .tip a, isTip := true, height := 0 } := by
    intro a e he
    rw [init_order] at he
    by_cases h : a < n
    · rw [if_pos h] at he; cases he; exact ⟨h, rfl⟩
    · rw [if_neg h] at he; cases he
  refine ⟨by simp [init], ?_, ?_, ?_, ?_, ?_⟩
  · intro a b ha hb
    by_cases hab : a = b
    · rw [hab]
    · rw [hm a b (hlive a ha) (hlive b hb) hab, hm b a (hlive b hb) (hlive a ha) (Ne.symm hab), hDs]
  · intro x y z hx hy hz hxy hyz hxz
    rw [hm x z (hlive x hx) (hlive z hz) hxz, hm x y (hlive x hx) (hlive y hy) hxy, hm y z (hlive y hy) (hlive z hz) hyz]
    exact hDu x y z (hlive x hx) (hlive y hy) (hlive z hz) hxy hyz hxz
  · intro a e he
    obtain ⟨_, rfl⟩ := hent a e he
    refine ⟨?_, trivial, trivial, fun _ => rfl⟩
    intro p hp
    simp only [U.depths, List.mem_singleton] at hp
    rw [hp]
  · intro a b ea eb hab hea heb p hp q hq
    obtain ⟨ha, rfl⟩ := hent a ea hea
    obtain ⟨hb, rfl⟩ := hent b eb heb
    simp only [U.depths, List.mem_singleton] at hp hq
    rw [hp, hq, hm a b ha hb hab]
  · intro a b ea hab hea hb
    obtain ⟨ha, rfl⟩ := hent a ea hea
    rw [hm a b ha (hlive b hb) hab]
    show 2 * (0 : Rat) ≤ D a b
    have := hDn a b; linarith
/-! ### soundness of the computable certificate -/

theorem liveB_iff (order : List (Option Entry)) (a : Nat) : liveB order a = true ↔ Live order a := by
  unfold liveB Live
  cases h : order.getD a none with
  | none => simp
  | some e => simp

theorem goodSelB_sound (n : Nat) (big : Rat) (st : State) (hlen : st.order.length = n)
    (h : goodSelB n big st = true) : GoodSel n big st := by
  unfold goodSelB at h
  simp only [Bool.and_eq_true, Bool.or_eq_true, Bool.not_eq_true', decide_eq_true_eq, List.all_eq_true,
    List.mem_range] at h
  obtain ⟨⟨⟨h1, h2⟩, h3⟩, h4⟩ := h
  refine ⟨(liveB_iff _ _).1 h1, (liveB_iff _ _).1 h2, h3, ?_⟩
  intro a b ha hb hab
  have han : a < n := hlen ▸ live_lt _ a ha
  have hbn : b < n := hlen ▸ live_lt _ b hb
  rcases h4 a han b hbn with h | h
  · have : (liveB st.order a && liveB st.order b && decide (a ≠ b)) = true := by
      simp [(liveB_iff _ _).2 ha, (liveB_iff _ _).2 hb, hab]
    rw [this] at h; cases h
  · exact h

theorem allGood_sound (D : Nat → Nat → Rat) (n : Nat) (big : Rat) (k : Nat) (st : State)
    (hI : UInv D n st.m st.order) (h : allGood n big k st = true) :
    ∀ t, t < k → GoodSel n big (iter n big t st) := by
  induction k generalizing st with
  | zero => intro t ht; omega
  | succ k ih =>
    unfold allGood at h
    rw [Bool.and_eq_true] at h
    have hg := goodSelB_sound n big st hI.len h.1
    intro t ht
    cases t with
    | zero => exact hg
    | succ t =>
      show GoodSel n big (iter n big t (step n big st))
      exact ih _ (step_inv D n big st hI hg) h.2 t (by omega)

end CogentModel.UPGMA
