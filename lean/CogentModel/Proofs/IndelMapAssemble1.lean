import CogentModel.Proofs.IndelMapResult
namespace CogentModel.IndelMap
open CogentModel.Gapped List

theorem getN_of_ge (xs : List Int) (k : Nat) (h : xs.length ≤ k) : getN xs k = 0 := by
  simp [getN, List.getD, List.getElem?_eq_none h]

theorem getN_gapEnds (gp : List Int) : ∀ (cum : List Int) (k : Nat), gp.length = cum.length →
    getN (gapEnds gp cum) k = getN gp k + getN cum k := by
  induction gp with
  | nil => intro cum k hl; cases cum with
    | nil => simp [gapEnds, getN_nil]
    | cons _ _ => simp at hl
  | cons p ps ih =>
    intro cum k hl
    cases cum with
    | nil => simp at hl
    | cons c cs =>
      cases k with
      | zero => simp [gapEnds, getN_cons_zero]
      | succ k => simp only [gapEnds, getN_cons_succ]; exact ih cs k (by simpa using hl)

theorem getN_startsFrom_succ (gp : List Int) : ∀ (cum : List Int) (pc : Int) (k : Nat), gp.length = cum.length →
    k + 1 < gp.length → getN (startsFrom pc gp cum) (k + 1) = getN gp (k + 1) + getN cum k := by
  induction gp with
  | nil => intro cum pc k _ h; simp at h
  | cons p ps ih =>
    intro cum pc k hl h
    cases cum with
    | nil => simp at hl
    | cons c cs =>
      simp only [startsFrom, getN_cons_succ]
      cases k with
      | zero =>
        cases ps with
        | nil => simp at h
        | cons p' ps' =>
          cases cs with
          | nil => simp at hl
          | cons c' cs' => simp [startsFrom, getN_cons_zero]
      | succ k =>
        rw [getN_cons_succ]
        exact ih cs c k (by simpa using hl) (by simpa using h)

theorem starts_le_ends (gp : List Int) : ∀ (cum : List Int) (pp pc : Int) (k : Nat), Inc pp pc gp cum →
    getN (startsFrom pc gp cum) k ≤ getN (gapEnds gp cum) k := by
  induction gp with
  | nil => intro cum pp pc k _; cases cum <;> simp [startsFrom, gapEnds, getN_nil]
  | cons p ps ih =>
    intro cum pp pc k h
    cases cum with
    | nil => simp [startsFrom, gapEnds, getN_nil]
    | cons c cs =>
      obtain ⟨h1, h2, h3⟩ := h
      cases k with
      | zero => simp only [startsFrom, gapEnds, getN_cons_zero]; omega
      | succ k => simp only [startsFrom, gapEnds, getN_cons_succ]; exact ih cs p c k h3

theorem ssLeft_le (xs : List Int) (v : Int) : ssLeft xs v ≤ xs.length := by
  induction xs with
  | nil => simp [ssLeft]
  | cons x r ih => simp only [ssLeft]; split <;> simp <;> omega

theorem ssLeft_lt_spec (xs : List Int) (v : Int) (h : ssLeft xs v < xs.length) : v ≤ getN xs (ssLeft xs v) := by
  induction xs with
  | nil => simp at h
  | cons x r ih =>
    simp only [ssLeft] at h ⊢
    by_cases c : x < v
    · simp only [c, if_true, length_cons, Nat.add_lt_add_iff_right] at h ⊢
      rw [getN_cons_succ]; exact ih h
    · simp only [c, if_false, getN_cons_zero]; omega

theorem ssLeft_eq_spec (xs : List Int) (v : Int) (h : ssLeft xs v = xs.length) : ∀ x ∈ xs, x < v := by
  induction xs with
  | nil => intro x hx; simp at hx
  | cons y r ih =>
    simp only [ssLeft] at h
    by_cases c : y < v
    · simp only [c, if_true, length_cons, Nat.add_right_cancel_iff] at h
      intro x hx
      rcases mem_cons.mp hx with rfl | h'
      · exact c
      · exact ih h x h'
    · simp [c] at h

theorem lastD_gapEnds (gp : List Int) : ∀ (cum : List Int), gp.length = cum.length → gp ≠ [] →
    lastD (gapEnds gp cum) = lastD gp + lastD cum := by
  induction gp with
  | nil => intro _ _ h; exact absurd rfl h
  | cons p ps ih =>
    intro cum hl _
    cases cum with
    | nil => simp at hl
    | cons c cs =>
      cases ps with
      | nil =>
        cases cs with
        | nil => simp [gapEnds, lastD]
        | cons _ _ => simp at hl
      | cons p' ps' =>
        cases cs with
        | nil => simp at hl
        | cons c' cs' =>
          simp only [gapEnds, lastD_cons_cons]
          have := ih (c' :: cs') (by simpa using hl) (by simp)
          simpa [gapEnds] using this

theorem gapEnds_length (gp : List Int) : ∀ (cum : List Int), gp.length = cum.length →
    (gapEnds gp cum).length = gp.length := by
  induction gp with
  | nil => intro cum hl; cases cum <;> simp [gapEnds]
  | cons p ps ih => intro cum hl; cases cum with
    | nil => simp at hl
    | cons c cs => simp [gapEnds, ih cs (by simpa using hl)]

/-- the `shift` computed by the `start` case analysis is the sequence index of `start` -/
theorem sliceBegin_shift (m : IMap) (h : WF m) (hne : m.gapPos ≠ []) (start : Int) (h0 : 0 ≤ start)
    (hlast : ¬ start ≥ lastD m.gapPos + lastD m.cumLens) (L : List Int) :
    (sliceBegin m start (ssLeft (gapEnds m.gapPos m.cumLens) start) (gapStarts m.gapPos m.cumLens)
        (gapEnds m.gapPos m.cumLens) L).2.1 = seqIndexNN m start := by
  have hl := h.len_eq
  have hinc := h.inc
  obtain ⟨p, ps, hg⟩ : ∃ p ps, m.gapPos = p :: ps := by
    cases hh : m.gapPos with
    | nil => exact absurd hh hne
    | cons p ps => exact ⟨p, ps, rfl⟩
  obtain ⟨c, cs, hc⟩ : ∃ c cs, m.cumLens = c :: cs := by
    cases hh : m.cumLens with
    | nil => rw [hg, hh] at hl; simp at hl
    | cons c cs => exact ⟨c, cs, rfl⟩
  have hlastE : lastD (gapEnds m.gapPos m.cumLens) = lastD m.gapPos + lastD m.cumLens :=
    lastD_gapEnds _ _ hl hne
  have hElen := gapEnds_length m.gapPos m.cumLens hl
  generalize hld : ssLeft (gapEnds m.gapPos m.cumLens) start = l
  have hlt : l < m.gapPos.length := by
    rcases Nat.lt_or_ge l m.gapPos.length with h' | h'
    · exact h'
    · exfalso
      have hle := ssLeft_le (gapEnds m.gapPos m.cumLens) start
      have heq : ssLeft (gapEnds m.gapPos m.cumLens) start = (gapEnds m.gapPos m.cumLens).length := by omega
      have := ssLeft_eq_spec _ _ heq (lastD (gapEnds m.gapPos m.cumLens))
        (lastD_mem _ (by intro hn; rw [hn] at hElen; rw [hg] at hElen; simp at hElen))
      omega
  have hF3 : start ≤ getN (gapEnds m.gapPos m.cumLens) l := by
    rw [← hld]; exact ssLeft_lt_spec _ _ (by rw [hld, hElen]; exact hlt)
  have hF1 : getN (gapStarts m.gapPos m.cumLens) l ≤ getN (gapEnds m.gapPos m.cumLens) l :=
    starts_le_ends _ _ _ _ l hinc
  have hE : getN (gapEnds m.gapPos m.cumLens) l = getN m.gapPos l + getN m.cumLens l := getN_gapEnds _ _ l hl
  have hS0 : getN (gapStarts m.gapPos m.cumLens) 0 = p := by
    rw [hg, hc]; simp [gapStarts, startsFrom, getN_cons_zero]
  have hhead : m.gapPos.headD 0 = p := by rw [hg]; rfl
  have hg0 : getN m.gapPos 0 = p := by rw [hg]; exact getN_cons_zero _ _
  unfold sliceBegin seqIndexNN
  simp only [hne, false_or, hhead, hlastE, hld]
  by_cases b1 : start < p
  · simp [b1]
  · simp only [b1, if_false, hlast]
    by_cases hl0 : l = 0
    · subst hl0
      rw [hS0] at hF1 ⊢
      simp only [hS0, ne_eq, not_true_eq_false, if_false, if_true]
      by_cases b2 : p ≤ start ∧ start < getN (gapEnds m.gapPos m.cumLens) 0
      · simp only [b2, and_self, if_true]
        rw [if_neg (by omega), if_neg (by omega), hg0]
      · simp only [b2, if_false]
        have : start = getN (gapEnds m.gapPos m.cumLens) 0 := by omega
        rw [if_pos this, if_neg (by omega), if_pos this]
    · obtain ⟨k, rfl⟩ : ∃ k, l = k + 1 := ⟨l - 1, by omega⟩
      have hS : getN (gapStarts m.gapPos m.cumLens) (k + 1) = getN m.gapPos (k + 1) + getN m.cumLens k :=
        getN_startsFrom_succ _ _ 0 k hl hlt
      simp only [ne_eq, Nat.succ_ne_zero, not_false_eq_true, if_true, if_false, Nat.add_sub_cancel]
      by_cases b2 : getN (gapStarts m.gapPos m.cumLens) (k + 1) ≤ start ∧ start < getN (gapEnds m.gapPos m.cumLens) (k + 1)
      · simp only [b2, and_self, if_true]
        rw [if_neg (by omega), if_neg (by omega)]; omega
      · simp only [b2, if_false]
        by_cases b3 : start = getN (gapEnds m.gapPos m.cumLens) (k + 1)
        · rw [if_pos b3, if_neg (by omega), if_pos b3]
        · rw [if_neg b3, if_pos (by omega)]

end CogentModel.IndelMap
