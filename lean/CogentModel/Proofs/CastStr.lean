/-  C20 — `int(str(n)) = n` for the model's parser / printer, and restoration of numeric columns on load. -/
import CogentModel.Model.CastStr
namespace CogentModel.CastStr

theorem charDigit_digitChar : ∀ d, d < 10 → charDigit (digitChar d) = some d := by decide

theorem digit_not_space : ∀ d, d < 10 → isSpace (digitChar d) = false := by decide

theorem digit_ne_sign : ∀ d, d < 10 → digitChar d ≠ '-' ∧ digitChar d ≠ '+' := by decide

theorem natDigits_lt (n : Nat) : ∀ d ∈ natDigits n, d < 10 := by
  induction n using Nat.strongRecOn with
  | _ n ih =>
    rw [natDigits]
    split
    · intro d hd; simp at hd; omega
    · intro d hd
      simp only [List.mem_append, List.mem_cons, List.mem_nil_iff, or_false] at hd
      rcases hd with hd | hd
      · exact ih (n / 10) (by omega) d hd
      · omega

theorem natDigits_ne_nil (n : Nat) : natDigits n ≠ [] := by
  rw [natDigits]; split <;> simp

theorem natDigits_foldl (n : Nat) : (natDigits n).foldl (fun a d => a * 10 + d) 0 = n := by
  induction n using Nat.strongRecOn with
  | _ n ih =>
    rw [natDigits]
    split
    · simp
    · rw [List.foldl_append, ih (n / 10) (by omega)]
      simp only [List.foldl_cons, List.foldl_nil]
      omega

theorem parseBody_digits (ds : List Nat) (hd : ∀ d ∈ ds, d < 10) (acc : Nat) (prev : Bool)
    (h : ds ≠ [] ∨ prev = true) :
    parseBody (ds.map digitChar) acc prev = some (ds.foldl (fun a d => a * 10 + d) acc) := by
  induction ds generalizing acc prev with
  | nil =>
    rcases h with h | h
    · exact absurd rfl h
    · simp [parseBody, h]
  | cons d ds ih =>
    simp only [List.map_cons, parseBody, charDigit_digitChar d (hd d (by simp)), List.foldl_cons]
    exact ih (fun x hx => hd x (by simp [hx])) _ true (Or.inr rfl)

theorem parseBody_showNat (n : Nat) : parseBody (showNat n) 0 false = some n := by
  unfold showNat
  rw [parseBody_digits (natDigits n) (natDigits_lt n) 0 false (Or.inl (natDigits_ne_nil n)), natDigits_foldl]

theorem dropWhile_noop (s : Str) (h : ∀ c ∈ s, isSpace c = false) : s.dropWhile isSpace = s := by
  cases s with
  | nil => rfl
  | cons c cs => simp [List.dropWhile_cons, h c (by simp)]

theorem strip_noop (s : Str) (h : ∀ c ∈ s, isSpace c = false) : strip s = s := by
  unfold strip
  rw [dropWhile_noop s h, dropWhile_noop s.reverse (fun c hc => h c (by simpa using hc))]
  simp

theorem showNat_no_space (n : Nat) : ∀ c ∈ showNat n, isSpace c = false := by
  intro c hc
  simp only [showNat, List.mem_map] at hc
  obtain ⟨d, hd, rfl⟩ := hc
  exact digit_not_space d (natDigits_lt n d hd)

theorem showNat_head (n : Nat) : ∃ d ds, d < 10 ∧ showNat n = digitChar d :: ds := by
  unfold showNat
  cases h : natDigits n with
  | nil => exact absurd h (natDigits_ne_nil n)
  | cons d ds => exact ⟨d, ds.map digitChar, natDigits_lt n d (by simp [h]), by simp⟩

/-- `int(str(z)) == z` -/
theorem parseInt_showInt (z : Int) : parseInt (showInt z) = some z := by
  unfold showInt parseInt
  by_cases hz : z < 0
  · simp only [hz, if_true]
    rw [strip_noop]
    · have hh := Int.ofNat_natAbs_of_nonpos (a := z) (by omega)
      show (Option.map (fun n => -n) (do let a ← parseBody (showNat z.natAbs) 0 false; pure (a : Int))) = some z
      rw [parseBody_showNat]
      show some (-((z.natAbs : Nat) : Int)) = some z
      rw [hh]; simp
    · intro c hc
      simp only [List.mem_cons] at hc
      rcases hc with rfl | hc
      · decide
      · exact showNat_no_space _ c hc
  · simp only [hz, if_false]
    rw [strip_noop _ (showNat_no_space _)]
    obtain ⟨d, ds, hd, e⟩ := showNat_head z.natAbs
    have := parseBody_showNat z.natAbs
    rw [e] at this ⊢
    obtain ⟨h1, h2⟩ := digit_ne_sign d hd
    split
    · rename_i heq; injection heq with heq _; exact absurd heq h1
    · rename_i heq; injection heq with heq _; exact absurd heq h2
    · have hz' : 0 ≤ z := by omega
      have hh := Int.natAbs_of_nonneg hz'
      rw [this]
      show some ((z.natAbs : Nat) : Int) = some z
      rw [hh]

theorem mapM_parseInt_showInt (ns : List Int) : (ns.map showInt).mapM parseInt = some ns := by
  induction ns with
  | nil => rfl
  | cons n ns ih => simp [List.mapM_cons, parseInt_showInt, ih]

/-- a column of integers written as `str(n)` is loaded back as exactly those integers -/
theorem castColumn_ints {F : Type} (parseFloat : Str → Option F) (ns : List Int) (hne : ns ≠ []) :
    castColumn parseFloat (ns.map showInt) = .ints ns := by
  unfold castColumn
  have h := mapM_parseInt_showInt ns
  simp only [List.map_eq_nil_iff, hne, if_false, h]

/-- a column of floats written as `repr(x)` is loaded back as exactly those floats — GIVEN the two facts about
float64 text that are trusted, not modelled: `float(repr(x)) == x` and `repr(x)` is never an integer literal
(it always contains '.', 'e', 'inf' or 'nan') -/
theorem castColumn_floats {F : Type} (parseFloat : Str → Option F) (reprF : F → Str)
    (hrt : ∀ x, parseFloat (reprF x) = some x) (hni : ∀ x, parseInt (reprF x) = none)
    (xs : List F) (hne : xs ≠ []) :
    castColumn parseFloat (xs.map reprF) = .floats xs := by
  unfold castColumn
  have h1 : (xs.map reprF).mapM parseInt = none := by
    cases xs with
    | nil => exact absurd rfl hne
    | cons x xs => simp [List.mapM_cons, hni x]
  have h2 : (xs.map reprF).mapM parseFloat = some xs := by
    clear h1 hne
    induction xs with
    | nil => rfl
    | cons x xs ih => simp [List.mapM_cons, hrt x, ih]
  simp only [List.map_eq_nil_iff, hne, if_false, h1, h2]

/-- a column with a cell that is neither an int nor a float text keeps its text (before the `eval()` pass of
the open finding) -/
theorem castColumn_text {F : Type} (parseFloat : Str → Option F) (cells : List Str)
    (h1 : cells.mapM parseInt = none) (h2 : cells.mapM parseFloat = none) :
    castColumn parseFloat cells = .text cells := by
  unfold castColumn
  by_cases hc : cells = []
  · simp [hc]
  · simp [hc, h1, h2]

end CogentModel.CastStr
