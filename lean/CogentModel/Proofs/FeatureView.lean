import CogentModel.Model.View
import CogentModel.Model.FeatureView
import CogentModel.Spec.FeatureView
import CogentModel.Proofs.ViewInv
/-! Helper lemmas for C04 (features on |step| = 1 views). -/
namespace CogentModel.FeatureView
open CogentModel.View

instance instDecEqExcept {ε α} [DecidableEq ε] [DecidableEq α] : DecidableEq (Except ε α) := fun a b =>
  match a, b with
  | .ok x, .ok y => if h : x = y then isTrue (by rw [h]) else isFalse (by intro h'; cases h'; exact h rfl)
  | .error x, .error y => if h : x = y then isTrue (by rw [h]) else isFalse (by intro h'; cases h'; exact h rfl)
  | .ok _, .error _ => isFalse (by intro h; cases h)
  | .error _, .ok _ => isFalse (by intro h; cases h)

theorem fdiv_one' (x : Int) : Int.fdiv x 1 = x := by
  rw [Int.fdiv_eq_ediv_of_nonneg _ (by omega)]; simp

theorem fdiv_neg_one (x : Int) : Int.fdiv x (-1) = -x := by
  rw [Int.fdiv_eq_ediv]
  have : (-1 : Int) ∣ x := ⟨-x, by omega⟩
  simp [this]

theorem fmod_one' (x : Int) : Int.fmod x 1 = 0 := by
  have := Int.fmod_eq_emod_of_nonneg x (show (0:Int) ≤ 1 by omega)
  simp [this]

theorem fmod_neg_one (x : Int) : Int.fmod x (-1) = 0 := by
  have := Int.fmod_def x (-1)
  rw [fdiv_neg_one] at this
  omega

/-- absolute plus-strand start of the parent segment a |step| = 1 view retains -/
def segStart (v : View) : Int :=
  if v.step < 0 then v.offset + v.stop + v.seqLen + 1 else v.offset + v.start

/-- a view as C01's invariant describes it, with unit stride -/
def UnitView (v : View) : Prop := Inv v ∧ (v.step = 1 ∨ v.step = -1)

instance (v : View) : Decidable (UnitView v) := by unfold UnitView; infer_instance

theorem len_unit (v : View) (h : UnitView v) :
    len v = if v.step < 0 then v.start - v.stop else v.stop - v.start := by
  obtain ⟨⟨_, hinv⟩, hs⟩ := h
  unfold len pyabs
  rcases hs with hs | hs <;> rw [hs] at hinv ⊢
  · rw [fdiv_one']; split <;> split <;> omega
  · rw [fdiv_neg_one]; split <;> split <;> omega

theorem relCoord_exact (v : View) (h : UnitView v) (hl : 0 < len v) (c : Int) (hc : 0 ≤ c) :
    relCoord v c = .ok (c - segStart v) := by
  have hlen := len_unit v h
  obtain ⟨⟨_, hinv⟩, hs⟩ := h
  unfold relCoord relativePosition segStart
  rcases hs with hs | hs
  · rw [hs] at hinv hlen
    simp only [hs, fmod_one', fdiv_one', liftErr] at hlen ⊢
    have h1 : ¬ (len v = 0) := by omega
    have h2 : ¬ (c < 0) := by omega
    simp [h1, h2, liftErr]
  · rw [hs] at hinv hlen
    have h1 : ¬ (len v = 0) := by omega
    have h2 : ¬ (c < 0) := by omega
    simp only [hs, h1, h2, if_false, if_true, fmod_neg_one, pyabs, liftErr, true_or]
    simp [liftErr, fdiv_one'] at hlen ⊢
    omega

/-- clip then locate one span -/
def clipLocate (L : Int) (sp : Int × Int) : Except FErr (List MSpan) :=
  match clipSpan L sp with
  | none => .ok []
  | some c => locate L c

def realSpans (m : List MSpan) : List (Int × Int) :=
  m.filterMap fun | .span s e => some (s, e) | .lost _ => none

/-- what one view-relative span contributes: its intersection with `[0, L)`, if non-empty -/
def clipped (L : Int) (sp : Int × Int) : Option (Int × Int) :=
  if max sp.1 0 < min sp.2 L then some (max sp.1 0, min sp.2 L) else none

/-- `locate` on a span that came out of `clipSpan` (total) -/
def locOk (L : Int) (c : Int × Int) : List MSpan :=
  if c.2 > L then [.span c.1 (min c.2 L), .lost (c.2 - L)] else [.span c.1 c.2]

theorem clip_some (L s e : Int) (hL : 0 < L) (hse : s ≤ e) (c : Int × Int)
    (h : clipSpan L (s, e) = some c) :
    0 ≤ c.1 ∧ c.1 ≤ c.2 ∧ c.1 ≤ L ∧ c.1 = max s 0 ∧ min c.2 L = min e L ∧ max s 0 < min e L := by
  unfold clipSpan at h
  simp only [] at h
  rw [show min s e = s by omega, show max s e = e by omega] at h
  obtain ⟨c1, c2⟩ := c
  (repeat' split at h) <;> simp only [Option.some.injEq, reduceCtorEq, Prod.mk.injEq] at h <;> simp only [] <;> omega

theorem clip_none (L s e : Int) (hse : s ≤ e) (h : clipSpan L (s, e) = none) :
    ¬ (max s 0 < min e L) := by
  unfold clipSpan at h
  simp only [] at h
  rw [show min s e = s by omega, show max s e = e by omega] at h
  (repeat' split at h) <;> simp only [reduceCtorEq] at h
  omega

theorem clipSpan_clipped (L : Int) (hL : 0 < L) (sp : Int × Int) (hse : sp.1 ≤ sp.2) :
    (clipSpan L sp).map (fun c => (c.1, min c.2 L)) = clipped L sp := by
  obtain ⟨s, e⟩ := sp
  simp only [] at hse
  unfold clipped
  cases hc : clipSpan L (s, e) with
  | none => have := clip_none L s e hse hc; simp [this]
  | some c =>
    obtain ⟨_, _, _, h3, h4, h5⟩ := clip_some L s e hL hse c hc
    simp only [Option.map_some, h5, if_true, Option.some.injEq, Prod.mk.injEq]
    exact ⟨h3, h4⟩

theorem locate_clip (L s e : Int) (hL : 0 < L) (hse : s ≤ e) (c : Int × Int)
    (hc : clipSpan L (s, e) = some c) : locate L c = .ok (locOk L c) := by
  obtain ⟨h0, h1, h2, _, _, _⟩ := clip_some L s e hL hse c hc
  unfold locate locOk
  have n1 : ¬ (c.1 > c.2 ∨ min c.1 c.2 < 0) := by omega
  have n2 : ¬ (c.1 > L) := by omega
  simp only [n1, n2, if_false]
  split <;> rfl

theorem realSpans_locOk (L : Int) (c : Int × Int) : realSpans (locOk L c) = [(c.1, min c.2 L)] := by
  unfold locOk realSpans
  split
  · simp
  · simp only [List.filterMap_cons, List.filterMap_nil, List.cons.injEq, Prod.mk.injEq, true_and, and_true]
    omega

/-- one span, full strength: the real part is exactly span ∩ view; never an error -/
theorem clipLocate_exact (L s e : Int) (hL : 0 < L) (hse : s ≤ e) :
    ∃ m, clipLocate L (s, e) = .ok m ∧
      realSpans m = (if max s 0 < min e L then [(max s 0, min e L)] else []) ∧
      (∀ a b, MSpan.span a b ∈ m → 0 ≤ a ∧ a ≤ b ∧ b ≤ L) := by
  unfold clipLocate
  cases hc : clipSpan L (s, e) with
  | none =>
    have := clip_none L s e hse hc
    exact ⟨[], rfl, by simp [this, realSpans], by simp⟩
  | some c =>
    obtain ⟨h0, h1, h2, h3, h4, h5⟩ := clip_some L s e hL hse c hc
    refine ⟨locOk L c, locate_clip L s e hL hse c hc, ?_, ?_⟩
    · rw [realSpans_locOk L c, h3, h4]; simp [h5]
    · intro a b hm
      unfold locOk at hm
      split at hm <;> simp only [List.mem_cons, MSpan.span.injEq, reduceCtorEq, List.not_mem_nil, or_false] at hm <;> omega

theorem queryWindow_exact (v : View) (h : UnitView v) (a b : Int) (ha : 0 ≤ a) (hab : a < b) (hb : b ≤ len v)
    (hoff : 0 ≤ v.offset) :
    queryWindow v (some a) (some b) =
      .ok (if v.step < 0 then (segStart v + (len v - b), segStart v + (len v - a))
           else (segStart v + a, segStart v + b)) := by
  have hlen := len_unit v h
  obtain ⟨⟨hn, hinv⟩, hs⟩ := h
  generalize hL : len v = L at hlen hb
  unfold queryWindow orDefault absolutePosition getIndex segStart
  simp only [hL]
  have e1 : (if a = 0 then (0:Int) else a) = a := by split <;> omega
  have e2 : (if b = 0 then L else b) = b := by split <;> omega
  have e3 : ¬ (a < 0) := by omega
  have e4 : ¬ (b < 0) := by omega
  have e5 : ¬ (L = 0) := by omega
  have e6 : ¬ (b > L) := by omega
  have e7 : ¬ (a ≥ L) := by omega
  have e8 : ¬ (a > L) := by omega
  simp only [e1, e2, e3, e4, e5, e6, e7, e8, hab, if_true, if_false, and_false, false_and, and_true, true_and,
    Bool.false_eq_true, not_true_eq_false, not_false_eq_true, decide_true, decide_false]
  rcases hs with hs | hs
  · rw [hs] at hinv hlen
    have hb0 : 0 ≤ b := by omega
    simp [hs, liftErr, Functor.map, Except.map, ha, hb0]
    omega
  · rw [hs] at hinv hlen
    have hb0 : 0 ≤ b := by omega
    simp [hs, liftErr, Functor.map, Except.map, ha, hb0]
    omega

theorem mapExcept_eq_map {α β ε} (f : α → Except ε β) (g : α → β) (l : List α)
    (h : ∀ x ∈ l, f x = .ok (g x)) : mapExcept f l = .ok (l.map g) := by
  induction l with
  | nil => rfl
  | cons x xs ih =>
    simp [mapExcept, h x List.mem_cons_self, ih (fun z hz => h z (List.mem_cons_of_mem _ hz))]

/-- all real spans of a map lie inside `[0, L]` -/
def InView (L : Int) (m : List MSpan) : Prop := ∀ a b, MSpan.span a b ∈ m → 0 ≤ a ∧ a ≤ b ∧ b ≤ L

theorem realSpans_append (a b : List MSpan) : realSpans (a ++ b) = realSpans a ++ realSpans b := by
  simp [realSpans, List.filterMap_append]

theorem realSpans_flatten (ms : List (List MSpan)) : realSpans ms.flatten = ms.flatMap realSpans := by
  induction ms with
  | nil => rfl
  | cons m ms ih => simp [realSpans_append, ih, List.flatMap_cons]

theorem mem_realSpans {m : List MSpan} {a b : Int} : (a, b) ∈ realSpans m ↔ MSpan.span a b ∈ m := by
  unfold realSpans
  rw [List.mem_filterMap]
  constructor
  · rintro ⟨x, hx, hx2⟩
    cases x with
    | lost n => simp at hx2
    | span s e => simp only [Option.some.injEq, Prod.mk.injEq] at hx2; rw [← hx2.1, ← hx2.2]; exact hx
  · intro h; exact ⟨_, h, rfl⟩

/-- the kept spans are located without error -/
theorem kept_locate (L : Int) (hL : 0 < L) (rel : List (Int × Int)) (hrel : ∀ sp ∈ rel, sp.1 ≤ sp.2) :
    mapExcept (locate L) (rel.filterMap (clipSpan L)) = .ok ((rel.filterMap (clipSpan L)).map (locOk L)) := by
  apply mapExcept_eq_map
  intro c hc
  obtain ⟨sp, h1, h2⟩ := List.mem_filterMap.mp hc
  obtain ⟨s, e⟩ := sp
  exact locate_clip L s e hL (hrel _ h1) c h2

theorem realSpans_kept (L : Int) (hL : 0 < L) (rel : List (Int × Int)) (hrel : ∀ sp ∈ rel, sp.1 ≤ sp.2) :
    realSpans ((rel.filterMap (clipSpan L)).map (locOk L)).flatten = rel.filterMap (clipped L) := by
  rw [realSpans_flatten]
  induction rel with
  | nil => rfl
  | cons sp rest ih =>
    have hsp := hrel sp List.mem_cons_self
    have ih' := ih (fun z hz => hrel z (List.mem_cons_of_mem _ hz))
    have hc := clipSpan_clipped L hL sp hsp
    simp only [List.filterMap_cons]
    cases h1 : clipSpan L sp with
    | none =>
      rw [h1] at hc; simp only [Option.map_none] at hc
      simp only [← hc]; exact ih'
    | some c =>
      rw [h1] at hc; simp only [Option.map_some] at hc
      simp only [← hc, List.map_cons, List.flatMap_cons, realSpans_locOk, ih']
      rfl

theorem inView_of_clipped (L : Int) (rel : List (Int × Int)) (m : List MSpan)
    (h : realSpans m = rel.filterMap (clipped L)) : InView L m := by
  intro a b hm
  have : (a, b) ∈ rel.filterMap (clipped L) := by rw [← h]; exact mem_realSpans.mpr hm
  obtain ⟨sp, _, h2⟩ := List.mem_filterMap.mp this
  unfold clipped at h2
  split at h2
  · simp only [Option.some.injEq, Prod.mk.injEq] at h2; omega
  · cases h2

/-- `FeatureMap.nucleic_reversed` on one span known to lie in the view (total) -/
def revOk (L : Int) : MSpan → MSpan
  | .lost n => .lost n
  | .span s e => .span (L - e) (L - e + (e - s))

theorem revSpan_eq (L : Int) (m : List MSpan) (h : InView L m) :
    mapExcept (revSpan L) m = .ok (m.map (revOk L)) := by
  apply mapExcept_eq_map
  intro x hx
  cases x with
  | lost n => rfl
  | span a b =>
    have := h a b hx
    unfold revSpan revOk
    have : ¬ (L - b < 0) := by omega
    simp [this]

theorem realSpans_map_revOk (L : Int) (m : List MSpan) :
    realSpans (m.map (revOk L)) = (realSpans m).map (fun p => (L - p.2, L - p.1)) := by
  induction m with
  | nil => rfl
  | cons x xs ih =>
    cases x with
    | lost n => simpa [realSpans, revOk] using ih
    | span a b =>
      simp only [realSpans, List.map_cons, revOk, List.filterMap_cons] at ih ⊢
      rw [ih]
      simp only [List.map_cons, List.cons.injEq, Prod.mk.injEq, true_and, and_true]
      omega

theorem realSpans_reverse (m : List MSpan) : realSpans m.reverse = (realSpans m).reverse := by
  simp [realSpans, List.filterMap_reverse]

theorem realSpans_pad (m : List MSpan) (p q : Int) (c : Prop) [Decidable c] :
    realSpans (if c then (if p ≠ 0 then [MSpan.lost p] else []) ++ m ++ (if q ≠ 0 then [MSpan.lost q] else []) else m)
      = realSpans m := by
  by_cases hc : c <;> by_cases hp : p = 0 <;> by_cases hq : q = 0 <;>
    simp [hc, hp, hq, realSpans_append, realSpans]

/-- head ≤ last under a pairwise relation -/
theorem head_getLast_pairwise {α} (R : α → α → Prop) (l : List α) (h : l.Pairwise R) (f x : α)
    (hf : l.head? = some f) (hx : l.getLast? = some x) : f = x ∨ R f x := by
  cases l with
  | nil => cases hf
  | cons a t =>
    simp only [List.head?_cons, Option.some.injEq] at hf
    subst hf
    cases t with
    | nil => simp at hx; exact Or.inl hx
    | cons b t' =>
      right
      have hmem : x ∈ b :: t' := by
        rw [List.getLast?_cons_cons] at hx
        exact List.mem_of_getLast? hx
      exact (List.pairwise_cons.mp h).1 x hmem

theorem firstLastOk_kept (L : Int) (hL : 0 < L) (rel : List (Int × Int)) (hrel : ∀ sp ∈ rel, sp.1 ≤ sp.2)
    (hsorted : rel.Pairwise (fun a b => a.1 ≤ b.1)) :
    firstLastOk (rel.filterMap (clipSpan L)) = true := by
  have hp : (rel.filterMap (clipSpan L)).Pairwise (fun a b => a.1 ≤ b.1 ∧ b.1 ≤ b.2) := by
    have hs2 : rel.Pairwise (fun a b => a.1 ≤ b.1 ∧ a.1 ≤ a.2 ∧ b.1 ≤ b.2) := by
      have := List.Pairwise.and_mem.mp hsorted
      exact this.imp (fun ⟨ha, hb, hab⟩ => ⟨hab, hrel _ ha, hrel _ hb⟩)
    refine List.Pairwise.filterMap (clipSpan L) ?_ hs2
    intro a a' ⟨h1, h2, h3⟩ c hc c' hc'
    obtain ⟨s, e⟩ := a
    obtain ⟨s', e'⟩ := a'
    have b1 := clip_some L s e hL h2 c hc
    have b2 := clip_some L s' e' hL h3 c' hc'
    simp only [] at h1
    omega
  unfold firstLastOk
  cases hf : (rel.filterMap (clipSpan L)).head? with
  | none => rfl
  | some f =>
    cases hx : (rel.filterMap (clipSpan L)).getLast? with
    | none => rfl
    | some x =>
      have hx1 : x.1 ≤ x.2 := by
        obtain ⟨sp, h1, h2⟩ := List.mem_filterMap.mp (List.mem_of_getLast? hx)
        obtain ⟨s, e⟩ := sp
        have := clip_some L s e hL (hrel _ h1) x h2
        omega
      rcases head_getLast_pairwise _ _ hp f x hf hx with h | h
      · subst h; simp only [Bool.not_eq_true', decide_eq_false_iff_not]; omega
      · simp only [Bool.not_eq_true', decide_eq_false_iff_not]; omega

/-- `make_feature`, full strength: no exception, and the real spans of the map are exactly the
intersections of the spans with the view (mirrored and in reverse order on an rc'd view) -/
theorem makeFeature_spec (L : Int) (rced minus : Bool) (rel : List (Int × Int)) (hL : 0 < L)
    (hrel : ∀ sp ∈ rel, sp.1 ≤ sp.2) (hsorted : rel.Pairwise (fun a b => a.1 ≤ b.1)) :
    ∃ f, makeFeature L rced minus rel = .ok f ∧ f.reversed = (minus != rced) ∧
      realSpans f.spans =
        (if rced then ((rel.filterMap (clipped L)).map (fun p => (L - p.2, L - p.1))).reverse
         else rel.filterMap (clipped L)) := by
  have hord := firstLastOk_kept L hL rel hrel hsorted
  have hloc := kept_locate L hL rel hrel
  have hreal := realSpans_kept L hL rel hrel
  unfold makeFeature spansFromLocations
  simp only [hord, Bool.not_true, Bool.false_eq_true, if_false, hloc]
  generalize hm' : (if (if minOfSpans rel < 0 then -minOfSpans rel else 0) ≠ 0 ∨
      (if maxOfSpans rel > L then maxOfSpans rel - L else 0) ≠ 0 then _ else
        ((rel.filterMap (clipSpan L)).map (locOk L)).flatten) = m'
  have hreal' : realSpans m' = rel.filterMap (clipped L) := by
    subst hm'; rw [realSpans_pad]; exact hreal
  have hin' : InView L m' := inView_of_clipped L rel m' hreal'
  cases rced with
  | false => exact ⟨_, rfl, rfl, by simpa using hreal'⟩
  | true =>
    simp only [if_true, revSpan_eq L m' hin']
    refine ⟨_, rfl, rfl, ?_⟩
    simp only [realSpans_reverse, realSpans_map_revOk, hreal']

end CogentModel.FeatureView
