import CogentModel.Model.View
import CogentModel.Model.FeatureView
import CogentModel.Spec.FeatureView
import CogentModel.Proofs.ViewInv
/-! Helper lemmas for C04 (features on |step| = 1 views). -/
namespace CogentModel.FeatureView
open CogentModel.View

instance instDecEqExcept {ε α} [DecidableEq ε] [DecidableEq α] : DecidableEq (Except ε α) := fun a b =>
  match a, b with
  | .ok x, .ok y => if h : x = y then isTrue (by rw [h]) else isFalse (by intro h'; cases h'; exact h rfl)
  | .error x, .error y => if h : x = y then isTrue (by rw [h]) else isFalse (by intro h'; cases h'; exact h rfl)
  | .ok _, .error _ => isFalse (by intro h; cases h)
  | .error _, .ok _ => isFalse (by intro h; cases h)

theorem fdiv_one' (x : Int) : Int.fdiv x 1 = x := by
  rw [Int.fdiv_eq_ediv_of_nonneg _ (by omega)]; simp

theorem fdiv_neg_one (x : Int) : Int.fdiv x (-1) = -x := by
  rw [Int.fdiv_eq_ediv]
  have : (-1 : Int) ∣ x := ⟨-x, by omega⟩
  simp [this]

theorem fmod_one' (x : Int) : Int.fmod x 1 = 0 := by
  have := Int.fmod_eq_emod_of_nonneg x (show (0:Int) ≤ 1 by omega)
  simp [this]

theorem fmod_neg_one (x : Int) : Int.fmod x (-1) = 0 := by
  have := Int.fmod_def x (-1)
  rw [fdiv_neg_one] at this
  omega

/-- absolute plus-strand start of the parent segment a |step| = 1 view retains -/
def segStart (v : View) : Int :=
  if v.step < 0 then v.offset + v.stop + v.seqLen + 1 else v.offset + v.start

/-- a view as C01's invariant describes it, with unit stride -/
def UnitView (v : View) : Prop := Inv v ∧ (v.step = 1 ∨ v.step = -1)

instance (v : View) : Decidable (UnitView v) := by unfold UnitView; infer_instance

theorem len_unit (v : View) (h : UnitView v) :
    len v = if v.step < 0 then v.start - v.stop else v.stop - v.start := by
  obtain ⟨⟨_, hinv⟩, hs⟩ := h
  unfold len pyabs
  rcases hs with hs | hs <;> rw [hs] at hinv ⊢
  · rw [fdiv_one']; split <;> split <;> omega
  · rw [fdiv_neg_one]; split <;> split <;> omega

theorem relCoord_exact (v : View) (h : UnitView v) (hl : 0 < len v) (c : Int) (hc : 0 ≤ c) :
    relCoord v c = .ok (c - segStart v) := by
  have hlen := len_unit v h
  obtain ⟨⟨_, hinv⟩, hs⟩ := h
  unfold relCoord relativePosition segStart
  rcases hs with hs | hs
  · rw [hs] at hinv hlen
    simp only [hs, fmod_one', fdiv_one', liftErr] at hlen ⊢
    have h1 : ¬ (len v = 0) := by omega
    have h2 : ¬ (c < 0) := by omega
    simp [h1, h2, liftErr]
  · rw [hs] at hinv hlen
    have h1 : ¬ (len v = 0) := by omega
    have h2 : ¬ (c < 0) := by omega
    simp only [hs, h1, h2, if_false, if_true, fmod_neg_one, pyabs, liftErr, true_or]
    simp [liftErr, fdiv_one'] at hlen ⊢
    omega

/-- clip then locate one span -/
def clipLocate (L : Int) (sp : Int × Int) : Except FErr (List MSpan) :=
  match clipSpan L sp with
  | none => .ok []
  | some c => locate L c

def realSpans (m : List MSpan) : List (Int × Int) :=
  m.filterMap fun | .span s e => some (s, e) | .lost _ => none

theorem clip_bounds (L s e : Int) (hL : 0 < L) (hse : s < e) (he : e ≠ 0) (c : Int × Int)
    (h : clipSpan L (s, e) = some c) :
    0 ≤ c.1 ∧ c.1 ≤ c.2 ∧ c.1 ≤ L ∧ c.1 = max s 0 ∧ min c.2 L = min e L ∧ (max s 0 < min e L ∨ s = L) := by
  unfold clipSpan at h
  simp only [] at h
  rw [show min s e = s by omega, show max s e = e by omega] at h
  obtain ⟨c1, c2⟩ := c
  (repeat' split at h) <;> simp only [Option.some.injEq, reduceCtorEq, Prod.mk.injEq] at h <;> simp only [] <;> omega

theorem clipLocate_exact (L s e : Int) (hL : 0 < L) (hse : s < e) (he : e ≠ 0) :
    ∃ m, clipLocate L (s, e) = .ok m ∧
      realSpans m = (if max s 0 < min e L ∨ s = L then [(max s 0, min e L)] else []) ∧
      (∀ a b, MSpan.span a b ∈ m → 0 ≤ a ∧ a ≤ b ∧ b ≤ L) := by
  unfold clipLocate
  cases hc : clipSpan L (s, e) with
  | none =>
    unfold clipSpan at hc
    simp only [] at hc
    rw [show min s e = s by omega, show max s e = e by omega] at hc
    (repeat' split at hc) <;> simp only [reduceCtorEq] at hc
    have : ¬ (max s 0 < min e L ∨ s = L) := by omega
    exact ⟨[], rfl, by simp [this, realSpans], by simp⟩
  | some c =>
    have hb := clip_bounds L s e hL hse he c hc
    obtain ⟨c1, c2⟩ := c
    simp only [] at hb
    obtain ⟨h0, h1, h2, h3, h4, hk⟩ := hb
    unfold locate
    simp only [hk, if_true]
    have n1 : ¬ (c1 > c2 ∨ min c1 c2 < 0) := by omega
    have n2 : ¬ (c1 > L) := by omega
    simp only [n1, n2, if_false]
    split
    · refine ⟨_, rfl, ?_, ?_⟩
      · simp only [realSpans, List.filterMap_cons, List.filterMap_nil]
        rw [h3, h4]
      · intro a b hm
        simp only [List.mem_cons, MSpan.span.injEq, reduceCtorEq, List.not_mem_nil, or_false] at hm
        omega
    · refine ⟨_, rfl, ?_, ?_⟩
      · simp only [realSpans, List.filterMap_cons, List.filterMap_nil]
        rw [h3, ← h4, show min c2 L = c2 by omega]
      · intro a b hm
        simp only [List.mem_cons, MSpan.span.injEq, List.not_mem_nil, or_false] at hm
        omega

theorem queryWindow_exact (v : View) (h : UnitView v) (a b : Int) (ha : 0 ≤ a) (hab : a < b) (hb : b ≤ len v)
    (hoff : 0 ≤ v.offset) :
    queryWindow v (some a) (some b) =
      .ok (if v.step < 0 then (segStart v + (len v - b), segStart v + (len v - a))
           else (segStart v + a, segStart v + b)) := by
  have hlen := len_unit v h
  obtain ⟨⟨hn, hinv⟩, hs⟩ := h
  generalize hL : len v = L at hlen hb
  unfold queryWindow orDefault absolutePosition getIndex segStart
  simp only [hL]
  have e1 : (if a = 0 then (0:Int) else a) = a := by split <;> omega
  have e2 : (if b = 0 then L else b) = b := by split <;> omega
  have e3 : ¬ (a < 0) := by omega
  have e4 : ¬ (b < 0) := by omega
  have e5 : ¬ (L = 0) := by omega
  have e6 : ¬ (b > L) := by omega
  have e7 : ¬ (a ≥ L) := by omega
  have e8 : ¬ (a > L) := by omega
  simp only [e1, e2, e3, e4, e5, e6, e7, e8, hab, if_true, if_false, and_false, false_and, and_true, true_and,
    Bool.false_eq_true, not_true_eq_false, not_false_eq_true, decide_true, decide_false]
  rcases hs with hs | hs
  · rw [hs] at hinv hlen
    have hb0 : 0 ≤ b := by omega
    simp [hs, liftErr, Functor.map, Except.map, ha, hb0]
    omega
  · rw [hs] at hinv hlen
    have hb0 : 0 ≤ b := by omega
    simp [hs, liftErr, Functor.map, Except.map, ha, hb0]
    omega

theorem mapExcept_ok {α β ε} (f : α → Except ε β) (P : β → Prop) (l : List α)
    (h : ∀ x ∈ l, ∃ y, f x = .ok y ∧ P y) : ∃ ys, mapExcept f l = .ok ys ∧ ∀ y ∈ ys, P y := by
  induction l with
  | nil => exact ⟨[], rfl, by simp⟩
  | cons x xs ih =>
    obtain ⟨y, hy, py⟩ := h x List.mem_cons_self
    obtain ⟨ys, hys, pys⟩ := ih (fun z hz => h z (List.mem_cons_of_mem _ hz))
    refine ⟨y :: ys, ?_, ?_⟩
    · simp [mapExcept, hy, hys]
    · intro z hz
      rcases List.mem_cons.mp hz with rfl | hz
      · exact py
      · exact pys z hz

/-- all real spans of a map lie inside `[0, L]` -/
def InView (L : Int) (m : List MSpan) : Prop := ∀ a b, MSpan.span a b ∈ m → 0 ≤ a ∧ a ≤ b ∧ b ≤ L

theorem locate_of_clip (L s e : Int) (hL : 0 < L) (hse : s < e) (he : e ≠ 0) (c : Int × Int)
    (hc : clipSpan L (s, e) = some c) : ∃ m, locate L c = .ok m ∧ InView L m := by
  obtain ⟨m, hm, _, hin⟩ := clipLocate_exact L s e hL hse he
  unfold clipLocate at hm
  rw [hc] at hm
  exact ⟨m, hm, hin⟩

theorem revSpan_ok (L : Int) (m : List MSpan) (h : InView L m) : ∃ r, mapExcept (revSpan L) m = .ok r := by
  have := mapExcept_ok (revSpan L) (fun _ => True) m (by
    intro x hx
    cases x with
    | lost n => exact ⟨_, rfl, trivial⟩
    | span a b =>
      have := h a b hx
      refine ⟨.span (L - b) (L - b + (b - a)), ?_, trivial⟩
      unfold revSpan
      have : ¬ (L - b < 0) := by omega
      simp [this])
  obtain ⟨r, hr, _⟩ := this
  exact ⟨r, hr⟩

theorem inView_pad (L : Int) (m : List MSpan) (h : InView L m) (p q : Int) (c : Prop) [Decidable c] :
    InView L (if c then (if p ≠ 0 then [MSpan.lost p] else []) ++ m ++ (if q ≠ 0 then [MSpan.lost q] else []) else m) := by
  intro a b hm
  by_cases hc : c <;> by_cases hp : p = 0 <;> by_cases hq : q = 0 <;>
    simp [hc, hp, hq] at hm <;> exact h a b hm

theorem makeFeature_ok (L : Int) (rced minus : Bool) (spans : List (Int × Int)) (hL : 0 < L)
    (hsp : ∀ sp ∈ spans, sp.1 < sp.2 ∧ sp.2 ≠ 0)
    (hord : firstLastOk (spans.filterMap (clipSpan L)) = true) :
    ∃ f, makeFeature L rced minus spans = .ok f := by
  have hloc := mapExcept_ok (locate L) (InView L) (spans.filterMap (clipSpan L)) (by
    intro c hc
    obtain ⟨sp, hsp1, hsp2⟩ := List.mem_filterMap.mp hc
    obtain ⟨s, e⟩ := sp
    have := hsp (s, e) hsp1
    exact locate_of_clip L s e hL this.1 this.2 c hsp2)
  obtain ⟨ms, hms, hin⟩ := hloc
  have hflat : InView L ms.flatten := by
    intro a b hm
    obtain ⟨m, hm1, hm2⟩ := List.mem_flatten.mp hm
    exact hin m hm1 a b hm2
  unfold makeFeature spansFromLocations
  simp only [hord, Bool.not_true, Bool.false_eq_true, if_false, hms]
  generalize hm' : (if (if minOfSpans spans < 0 then -minOfSpans spans else 0) ≠ 0 ∨
      (if maxOfSpans spans > L then maxOfSpans spans - L else 0) ≠ 0 then _ else ms.flatten) = m'
  have hin' : InView L m' := by
    subst hm'
    exact inView_pad L _ hflat _ _ _
  cases rced with
  | false => exact ⟨_, rfl⟩
  | true =>
    obtain ⟨r, hr⟩ := revSpan_ok L m' hin'
    simp only [if_true, hr]
    exact ⟨_, rfl⟩

end CogentModel.FeatureView
