import CogentModel.Model.KV
namespace CogentModel.KV
variable {D : Type}

theorem get_del (m : KV D) (k x : Str) : get (del m k) x = if x = k then none else get m x := by
  induction m with
  | nil => simp [del, get]
  | cons p m ih =>
    obtain ⟨a, v⟩ := p
    by_cases h : k = a
    · subst h; simp only [del, if_true]; rw [ih]; by_cases hx : x = k <;> simp [get, hx]
    · simp only [del, h, if_false, get]; rw [ih]
      by_cases hx : x = k
      · subst hx; simp [h]
      · simp [hx]

theorem get_put (m : KV D) (k x : Str) (v : D) : get (put m k v) x = if x = k then some v else get m x := by
  simp only [put, get, get_del]; by_cases h : x = k <;> simp [h]

theorem mem_keys_iff (m : KV D) (x : Str) : x ∈ keys m ↔ (get m x).isSome = true := by
  induction m with
  | nil => simp [keys, get]
  | cons p m ih =>
    obtain ⟨a, v⟩ := p
    simp only [keys, List.map_cons, List.mem_cons, get] at *
    by_cases h : x = a <;> simp [h, ih]

theorem keys_del (m : KV D) (k : Str) : keys (del m k) = (keys m).filter (fun x => x != k) := by
  induction m with
  | nil => simp [del, keys]
  | cons p m ih =>
    obtain ⟨a, v⟩ := p
    simp only [keys] at *
    by_cases h : k = a
    · subst h; simp [del, ih]
    · have h' : ¬ a = k := fun e => h e.symm
      simp [del, h, h', ih]

theorem nodup_del (m : KV D) (k : Str) (h : (keys m).Nodup) : (keys (del m k)).Nodup := by
  rw [keys_del]; exact h.filter _

theorem not_mem_keys_del (m : KV D) (k : Str) : k ∉ keys (del m k) := by
  rw [keys_del]; simp

theorem nodup_put (m : KV D) (k : Str) (v : D) (h : (keys m).Nodup) : (keys (put m k v)).Nodup := by
  simp only [put, keys, List.map_cons]
  exact List.nodup_cons.mpr ⟨not_mem_keys_del m k, nodup_del m k h⟩

theorem del_of_not_mem (m : KV D) (k : Str) (h : k ∉ keys m) : del m k = m := by
  induction m with
  | nil => rfl
  | cons p m ih =>
    obtain ⟨a, v⟩ := p
    simp only [keys, List.map_cons, List.mem_cons, not_or] at h
    simp only [del, h.1, if_false]; rw [ih h.2]

theorem eq_nil_of_keys (m : KV D) (h : ∀ x, x ∉ keys m) : m = [] := by
  cases m with
  | nil => rfl
  | cons p m => exact absurd (by simp [keys]) (h p.1)

theorem mem_keys_put (m : KV D) (k x : Str) (v : D) : x ∈ keys (put m k v) ↔ x = k ∨ x ∈ keys m := by
  rw [mem_keys_iff, get_put, mem_keys_iff]; by_cases h : x = k <;> simp [h]

theorem mem_keys_del (m : KV D) (k x : Str) : x ∈ keys (del m k) ↔ x ≠ k ∧ x ∈ keys m := by
  rw [mem_keys_iff, get_del, mem_keys_iff]; by_cases h : x = k <;> simp [h]

end CogentModel.KV
