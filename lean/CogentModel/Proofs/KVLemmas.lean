import CogentModel.Model.KV
namespace CogentModel.KV
variable {D : Type}

theorem get_del (m : KV D) (k x : Str) : get (del m k) x = if x = k then none else get m x := by
  induction m with
  | nil => simp [del, get]
  | cons p m ih =>
    obtain ⟨a, v⟩ := p
    by_cases h : k = a
    · subst h; simp only [del, if_true]; rw [ih]; by_cases hx : x = k <;> simp [get, hx]
    · simp only [del, h, if_false, get]; rw [ih]
      by_cases hx : x = k
      · subst hx; simp [h]
      · simp [hx]

theorem get_put (m : KV D) (k x : Str) (v : D) : get (put m k v) x = if x = k then some v else get m x := by
  simp only [put, get, get_del]; by_cases h : x = k <;> simp [h]

theorem mem_keys_iff (m : KV D) (x : Str) : x ∈ keys m ↔ (get m x).isSome = true := by
  induction m with
  | nil => simp [keys, get]
  | cons p m ih =>
    obtain ⟨a, v⟩ := p
    simp only [keys, List.map_cons, List.mem_cons, get] at *
    by_cases h : x = a <;> simp [h, ih]

theorem keys_del (m : KV D) (k : Str) : keys (del m k) = (keys m).filter (fun x => x != k) := by
  induction m with
  | nil => simp [del, keys]
  | cons p m ih =>
    obtain ⟨a, v⟩ := p
    simp only [keys] at *
    by_cases h : k = a
    · subst h; simp [del, ih]
    · have h' : ¬ a = k := fun e => h e.symm
      simp [del, h, h', ih]

theorem nodup_del (m : KV D) (k : Str) (h : (keys m).Nodup) : (keys (del m k)).Nodup := by
  rw [keys_del]; exact h.filter _

theorem not_mem_keys_del (m : KV D) (k : Str) : k ∉ keys (del m k) := by
  rw [keys_del]; simp

theorem nodup_put (m : KV D) (k : Str) (v : D) (h : (keys m).Nodup) : (keys (put m k v)).Nodup := by
  simp only [put, keys, List.map_cons]
  exact List.nodup_cons.mpr ⟨not_mem_keys_del m k, nodup_del m k h⟩

theorem del_of_not_mem (m : KV D) (k : Str) (h : k ∉ keys m) : del m k = m := by
  induction m with
  | nil => rfl
  | cons p m ih =>
    obtain ⟨a, v⟩ := p
    simp only [keys, List.map_cons, List.mem_cons, not_or] at h
    simp only [del, h.1, if_false]; rw [ih h.2]

theorem eq_nil_of_keys (m : KV D) (h : ∀ x, x ∉ keys m) : m = [] := by
  cases m with
  | nil => rfl
  | cons p m => exact absurd (by simp [keys]) (h p.1)

theorem mem_keys_put (m : KV D) (k x : Str) (v : D) : x ∈ keys (put m k v) ↔ x = k ∨ x ∈ keys m := by
  rw [mem_keys_iff, get_put, mem_keys_iff]; by_cases h : x = k <;> simp [h]

theorem mem_keys_del (m : KV D) (k x : Str) : x ∈ keys (del m k) ↔ x ≠ k ∧ x ∈ keys m := by
  rw [mem_keys_iff, get_del, mem_keys_iff]; by_cases h : x = k <;> simp [h]

/-! ### association lists under `filter` / `map` / `++` (the SQL statements of the SQLite model) -/

variable {V : Type}

theorem get_none_of_not_mem {m : KV V} {n : Str} (h : n ∉ keys m) : get m n = none := by
  cases hg : get m n with
  | none => rfl
  | some v => exact absurd ((mem_keys_iff m n).mpr (by simp [hg])) h

/-- `filter` on an association list with distinct keys -/
theorem get_filter (p : Str × V → Bool) : ∀ (m : KV V), (keys m).Nodup → ∀ n,
    get (m.filter p) n = match get m n with
      | some v => if p (n, v) then some v else none
      | none => none := by
  intro m
  induction m with
  | nil => intro _ n; simp [get]
  | cons a m ih =>
    obtain ⟨k, v⟩ := a
    intro hnd n
    simp only [keys, List.map_cons] at hnd
    obtain ⟨hk, hnd'⟩ := List.nodup_cons.mp hnd
    have ih' := ih hnd' n
    by_cases hp : p (k, v) = true
    · simp only [List.filter_cons, hp, if_true, get]
      by_cases hn : n = k
      · subst hn; simp [hp]
      · simp only [hn, if_false]; exact ih'
    · have hp' : p (k, v) = false := by simpa using hp
      simp only [List.filter_cons, hp', Bool.false_eq_true, if_false, get]
      by_cases hn : n = k
      · subst hn
        have hnone : get m n = none := get_none_of_not_mem hk
        rw [ih', hnone]; simp [hp']
      · simp only [hn, if_false]; exact ih'

theorem keys_filter_sublist (p : Str × V → Bool) (m : KV V) : (keys (m.filter p)).Sublist (keys m) := by
  unfold keys
  exact (List.filter_sublist).map _

theorem nodup_filter (p : Str × V → Bool) (m : KV V) (h : (keys m).Nodup) : (keys (m.filter p)).Nodup :=
  (keys_filter_sublist p m).nodup h

/-- update the value stored under one key (SQL `UPDATE … WHERE record_id = id`) -/
theorem get_mapval (g : V → V) (id : Str) : ∀ (m : KV V) (n : Str),
    get (m.map fun q => if q.1 = id then (q.1, g q.2) else q) n = if n = id then (get m n).map g else get m n := by
  intro m
  induction m with
  | nil => intro n; simp [get]
  | cons a m ih =>
    obtain ⟨k, v⟩ := a
    intro n
    simp only [List.map_cons, get]
    by_cases hk : k = id
    · subst hk
      simp only [if_true]
      by_cases hn : n = k
      · simp [hn]
      · simp only [hn, if_false]; rw [ih n]; simp [hn]
    · simp only [hk, if_false]
      by_cases hn : n = k
      · subst hn; simp [hk]
      · simp only [hn, if_false]; exact ih n

theorem keys_mapval (g : V → V) (id : Str) (m : KV V) :
    keys (m.map fun q => if q.1 = id then (q.1, g q.2) else q) = keys m := by
  unfold keys
  rw [List.map_map]
  apply List.map_congr_left
  intro q _
  by_cases h : q.1 = id <;> simp [h]

theorem get_append_single (m : KV V) (k : Str) (v : V) (n : Str) :
    get (m ++ [(k, v)]) n = match get m n with
      | some x => some x
      | none => if n = k then some v else none := by
  induction m with
  | nil => simp [get]
  | cons a m ih =>
    obtain ⟨k', v'⟩ := a
    simp only [List.cons_append, get]
    by_cases hn : n = k'
    · simp [hn]
    · simp only [hn, if_false]; exact ih

theorem keys_append_single (m : KV V) (k : Str) (v : V) : keys (m ++ [(k, v)]) = keys m ++ [k] := by
  simp [keys]

/-- with distinct keys, membership of a pair is `get` -/
theorem mem_iff_get {m : KV V} (h : (keys m).Nodup) (n : Str) (v : V) : (n, v) ∈ m ↔ get m n = some v := by
  induction m with
  | nil => simp [get]
  | cons a m ih =>
    obtain ⟨k, v'⟩ := a
    simp only [keys, List.map_cons] at h
    obtain ⟨hk, hnd'⟩ := List.nodup_cons.mp h
    simp only [List.mem_cons, get, Prod.mk.injEq]
    by_cases hn : n = k
    · subst hn
      simp only [true_and, if_true, Option.some.injEq]
      constructor
      · rintro (e | hm)
        · exact e.symm
        · exact absurd (List.mem_map_of_mem (f := Prod.fst) hm) hk
      · intro e; exact Or.inl e.symm
    · simp only [hn, false_and, false_or, if_false]
      exact ih hnd'

end CogentModel.KV
