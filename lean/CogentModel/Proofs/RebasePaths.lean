import CogentModel.Proofs.RebaseView
/-! Helper lemmas for C10: the export→import paths evaluated on an `Inv` view. -/
namespace CogentModel.RichDict
open CogentModel.View CogentModel.PySlice

theorem toRich_seq {α} [Inhabited α] (parent : List α) (v : View) :
    (toRich parent v).seq = trunc parent v := rfl
theorem toRich_step {α} [Inhabited α] (parent : List α) (v : View) :
    (toRich parent v).step = v.step := rfl
theorem toRich_offset {α} [Inhabited α] (parent : List α) (v : View) :
    (toRich parent v).offset = none := rfl

/-- old path (`deserialise_seq`, and old `Sequence.copy(sliced=True)`) -/
theorem old_path {α} [Inhabited α] (parent : List α) (v : View) (hinv : Inv v)
    (hlen : v.seqLen = parent.length) :
    ∃ r, seqRoundtripOld parent v = .ok r ∧ RebaseOK parent v r := by
  obtain ⟨hn, ⟨hc, h0, hse, he⟩ | ⟨hc, he, hes, hs⟩⟩ := id hinv
  · have hns : ¬ v.step < 0 := by omega
    have hps : parentStart v = .ok (v.offset + v.start) := by simp [parentStart, hns]
    have htl := trunc_len_fwd parent v hlen hc h0 hse he
    by_cases hm : v.start = v.stop
    · refine ⟨_, ?_, ok_empty parent v hlen hinv hm _ hps, ?_⟩
      · have hz : ((trunc parent v).length : Int) = 0 := by omega
        simp only [seqRoundtripOld, hps, fromRich, toRich_seq, toRich_step, toRich_offset, hz,
          Option.getD_none, mk_fwd_empty _ _ hc]
        rw [coerce_zero _ _ rfl]
      · simp [isReversed, hns]
    · refine ⟨_, ?_, ok_fwd_nonempty parent v hlen hc h0 (by omega) he⟩
      simp only [seqRoundtripOld, hps, fromRich, toRich_seq, toRich_step, toRich_offset, htl,
        Option.getD_none, mk_fwd_full _ _ _ (by omega : 0 < v.stop - v.start) hc]
      rw [coerce_zero _ _ rfl]
  · have hps : parentStart v = .ok (v.offset + (v.stop + v.seqLen + 1)) := by
      simp [parentStart, hc]; omega
    have htl := trunc_len_rev parent v hlen hc he hes hs
    refine ⟨_, ?_, ok_rev parent v hlen hc he hes hs⟩
    simp only [seqRoundtripOld, hps, fromRich, toRich_seq, toRich_step, toRich_offset, htl,
      Option.getD_none, mk_rev_full _ _ _ (by omega : 0 ≤ v.start - v.stop) hc]
    rw [coerce_zero _ _ rfl]

/-- new path (`_moltype_seq_from_rich_dict`) -/
theorem new_path {α} [Inhabited α] (parent : List α) (v : View) (hinv : Inv v)
    (hlen : v.seqLen = parent.length) :
    ∃ r, seqRoundtripNew parent v = .ok r ∧ RebaseObs parent v r ∧
      (v.start ≠ v.stop → isReversed r.2 = isReversed v) := by
  obtain ⟨hn, ⟨hc, h0, hse, he⟩ | ⟨hc, he, hes, hs⟩⟩ := id hinv
  · have hns : ¬ v.step < 0 := by omega
    have hps : parentStart v = .ok (v.offset + v.start) := by simp [parentStart, hns]
    have htl := trunc_len_fwd parent v hlen hc h0 hse he
    by_cases hm : v.start = v.stop
    · refine ⟨_, ?_, ok_empty parent v hlen hinv hm _ hps, fun h => absurd hm h⟩
      have hz : ((trunc parent v).length : Int) = 0 := by omega
      simp only [seqRoundtripNew, hps, toRich_seq, toRich_step, hz, mk_none_empty, getitem_empty]
    · have hpos : 0 < v.stop - v.start := by omega
      have := ok_fwd_nonempty parent v hlen hc h0 (by omega) he
      refine ⟨_, ?_, this.1, fun _ => this.2⟩
      simp only [seqRoundtripNew, hps, toRich_seq, toRich_step, htl, mk_none_full _ _ hpos,
        getitem_full_fwd _ _ _ hpos hc]
  · have hps : parentStart v = .ok (v.offset + (v.stop + v.seqLen + 1)) := by
      simp [parentStart, hc]; omega
    have htl := trunc_len_rev parent v hlen hc he hes hs
    by_cases hm : v.start = v.stop
    · refine ⟨_, ?_, ok_empty parent v hlen hinv hm _ hps, fun h => absurd hm h⟩
      have hz : ((trunc parent v).length : Int) = 0 := by omega
      simp only [seqRoundtripNew, hps, toRich_seq, toRich_step, hz, mk_none_empty, getitem_empty]
    · have hpos : 0 < v.start - v.stop := by omega
      have := ok_rev parent v hlen hc he hes hs
      refine ⟨_, ?_, this.1, fun _ => this.2⟩
      simp only [seqRoundtripNew, hps, toRich_seq, toRich_step, htl, mk_none_full _ _ hpos,
        getitem_full_rev _ _ _ hpos hc]

/-- new `Sequence.copy(sliced=True)`: same function as the old path (the view copy drops the offset,
the Sequence re-attaches `parent_start`) -/
theorem copy_new_path {α} [Inhabited α] (parent : List α) (v : View) (hinv : Inv v)
    (hlen : v.seqLen = parent.length) :
    ∃ r, seqCopyNew parent v = .ok r ∧ RebaseOK parent v r := by
  obtain ⟨r, hr, hok⟩ := old_path parent v hinv hlen
  refine ⟨r, ?_, hok⟩
  rw [← hr]
  simp only [seqCopyNew, viewCopyNew, seqRoundtripOld, fromRich, toRich_offset, Option.getD_none,
    toRich_step]

/-- `SeqDataView.to_rich_dict` is right when the view is an unsliced forward prefix -/
theorem dataview_prefix {α} [Inhabited α] (parent : List α) (v : View)
    (hs : v.start = 0) (hc : v.step = 1) (h0 : 0 ≤ v.stop) (he : v.stop ≤ parent.length) :
    (toRichDataView parent v).seq = realise parent v := by
  have hb : richDictBounds v = (0, v.stop) := by
    have hns : ¬ v.step < 0 := by omega
    simp [richDictBounds, hns, hs]
  simp only [toRichDataView, hb, realise, hs, hc]
  by_cases hz : v.stop = 0
  · rw [hz, slice_same, slice_same]
  · have := fwd_rebase parent 0 v.stop 1 (by omega) (by omega) he (by omega)
    simpa using this

/-- `Sequence(SeqDataView).to_rich_dict → _moltype_seq_from_rich_dict` coincides with the stand-alone new-style path
whenever the view is an unsliced forward prefix (the only states in which `SeqDataView.to_rich_dict` exports the
right string), hence round-trips there. -/
theorem dataview_path_prefix {α} [Inhabited α] (parent : List α) (v : View) (hinv : Inv v)
    (hlen : v.seqLen = parent.length) (hs : v.start = 0) (hc : v.step = 1) :
    ∃ r, seqRoundtripDataView parent v = .ok r ∧ RebaseObs parent v r ∧
      (v.start ≠ v.stop → isReversed r.2 = isReversed v) := by
  obtain ⟨hn, ⟨_, h0, hse, he⟩ | ⟨hneg, _⟩⟩ := id hinv
  · have hseq : (toRichDataView parent v).seq = (toRich parent v).seq := by
      rw [dataview_prefix parent v hs hc (by omega) (by omega)]
      have hns : ¬ v.step < 0 := by omega
      have hb : richDictBounds v = (0, v.stop) := by simp [richDictBounds, hns, hs]
      simp only [toRich, realise, hb, hs, hc]
    have hstep : (toRichDataView parent v).step = (toRich parent v).step := rfl
    have heq : seqRoundtripDataView parent v = seqRoundtripNew parent v := by
      simp only [seqRoundtripDataView, seqRoundtripNew, hseq, hstep]
    rw [heq]
    exact new_path parent v hinv hlen
  · omega

end CogentModel.RichDict
