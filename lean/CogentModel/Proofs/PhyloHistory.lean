import CogentModel.Model.PhyloHistory
import CogentModel.Proofs.PhyloReroot
import CogentModel.Proofs.PhyloSorted
import CogentModel.Proofs.PhyloOps
import CogentModel.Proofs.PhyloSubtree
import CogentModel.Proofs.PhyloNewick
set_option linter.unusedSimpArgs false
set_option linter.unusedVariables false
/-! C09: one induction over histories built from ALL the transformations. -/
namespace CogentModel.Phylo
open PTree
variable {K : Type}

/-! ### lengths stay in `P` -/
theorem rerootGo_good (P : K → Prop) : ∀ (p : List Nat) (above : List (PTree K)) (t r : PTree K),
    rerootGo above t p = some r → GoodLensL P (t.children ++ above) → GoodLensL P r.children
  | [], above, .node n l cs, r, h, hg => by
    simp only [rerootGo] at h
    split at h
    · cases h
    · injection h with h; subst h; simpa using hg
  | i :: p, above, .node n l cs, r, h, hg => by
    simp only [rerootGo] at h
    cases hp : pick cs i with
    | none => simp [hp] at h
    | some v =>
      obtain ⟨pre, x, post⟩ := v
      simp only [hp] at h
      have hcs := pick_eq cs i pre x post hp
      subst hcs
      simp only [children_node] at hg
      rw [goodLensL_iff] at hg
      have hx : GoodLens P x := hg x (by simp)
      apply rerootGo_good P p _ x r h
      rw [goodLensL_iff]
      intro c hc
      simp only [List.mem_append, List.mem_singleton] at hc
      rcases hc with hc | rfl
      · exact (goodLensL_iff P _).1 (goodLens_children P x hx) c hc
      · obtain ⟨xl, hxl, hPx⟩ := goodLens_len P x hx
        cases x with
        | node xn xl' xcs =>
          simp only [name_node, len_node, GoodLens]
          simp only [len_node] at hxl
          refine ⟨⟨xl, hxl, hPx⟩, ?_⟩
          rw [goodLensL_iff]
          intro c hc
          simp only [List.mem_append] at hc
          rcases hc with (hc | hc) | hc
          · exact hg c (by simp [hc])
          · exact hg c (by simp [hc])
          · exact hg c (by simp [hc])

mutual
theorem sortedGo_good (P : K → Prop) (o : List String) : ∀ (t : PTree K), GoodLens P t → GoodLens P (sortedGo o t).2
  | .node n l cs, hg => by
    rw [sortedGo_snd]
    exact ⟨hg.1, (goodLensL_iff P _).2 (sortedL_good P o cs hg.2)⟩
theorem sortedL_good (P : K → Prop) (o : List String) : ∀ (cs : List (PTree K)), GoodLensL P cs →
    ∀ c ∈ (sortedL o cs).map (·.2), GoodLens P c
  | [], _ => by simp [sortedL]
  | c :: cs, hg => by
    intro c' hc'
    simp only [sortedL] at hc'
    have hp := (insertScored_perm (sortedGo o c) (sortedL o cs)).map (·.2)
    rw [hp.mem_iff] at hc'
    simp only [List.map_cons, List.mem_cons] at hc'
    rcases hc' with rfl | hc'
    · exact sortedGo_good P o c hg.1
    · exact sortedL_good P o cs hg.2 c' hc'
end

theorem sorted_good (P : K → Prop) (o : List String) (t : PTree K) (hg : GoodLensL P t.children) :
    GoodLensL P (sorted t o).children := by
  cases t with
  | node n l cs =>
    simp only [sorted, sortedGo_snd, children_node] at hg ⊢
    exact (goodLensL_iff P _).2 (sortedL_good P _ cs hg)

section
variable [AddCommMonoid K]

/-- what one step of a history guarantees -/
structure StepOK (P : K → Prop) (d : K) (t r : PTree K) (kept : String → Bool) : Prop where
  tips : (tips r).Perm ((tips t).filter kept)
  good : GoodLensL P r.children
  topo : ∀ φ, BipPred (Phylo.tips r) φ → topoWeight d φ r = topoWeight d φ t

theorem filter_true_eq (l : List String) : l.filter (fun _ => true) = l := by simp

theorem applyX_ok (P : K → Prop) (hadd : ∀ x y, P x → P y → P (x + y)) (d : K)
    (t r : PTree K) (op : XOp) (h : applyX t op = some r) (hdeg : 2 ≤ t.children.length)
    (hnd : (tips t).Nodup) (hg : GoodLensL P t.children) : StepOK P d t r (keptX op) := by
  -- operations that keep all tips and the split multiset
  have viaSplits : ∀ r', (Phylo.tips r').Perm (Phylo.tips t) → SplitsEquiv (Phylo.tips t) (splits t) (splits r') →
      GoodLensL P r'.children → StepOK P d t r' (fun _ => true) := by
    intro r' hp hs hgood
    refine ⟨by rw [filter_true_eq]; exact hp, hgood, fun φ hφ => ?_⟩
    have hφ' : BipPred (Phylo.tips t) φ := hφ.of_mem_iff fun x => hp.mem_iff
    exact (SplitsEquiv.phi_sum_eq d hφ' hs).symm
  cases op with
  | reroot p =>
    have hs := rerootAt_spec t r p h (Or.inr hdeg)
    exact viaSplits r hs.1 (hs.2 hnd) (rerootGo_good P p [] t r h (by simpa using hg))
  | sorted o =>
    simp only [applyX, Option.some.injEq] at h; subst h
    have hs := sorted_ok t o
    exact viaSplits _ hs.2.2.1 (hs.2.2.2 _) (sorted_good P o t hg)
  | copy =>
    simp only [applyX, Option.some.injEq] at h; subst h
    exact viaSplits _ (.refl _) (SplitsEquiv.refl _ _) hg
  | newick =>
    simp only [applyX] at h
    rw [parse_newickToks, stripLens_true] at h
    injection h with h; subst h
    exact viaSplits _ (.refl _) (SplitsEquiv.refl _ _) hg
  | unrooted =>
    simp only [applyX, Option.some.injEq] at h; subst h
    have hlen : ∀ c ∈ t.children, ∃ l, c.len = some l := by
      intro c hc
      obtain ⟨x, hx, _⟩ := goodLens_len P c (goodLensL_mem P _ hg c hc)
      exact ⟨x, hx⟩
    refine ⟨by simp only [keptX]; rw [filter_true_eq, tips_unrooted], goodLensL_unrooted P hadd t hg, fun φ hφ => ?_⟩
    rw [tips_unrooted] at hφ
    exact unrooted_phi d t hnd hlen φ hφ
  | subtree ns im kr =>
    simp only [applyX] at h
    cases hs : getSubTree t ns im kr true with
    | error e => simp [hs] at h
    | ok r' =>
      simp only [hs, Option.some.injEq] at h; subst h
      obtain ⟨ht, hgd, hφ⟩ := getSubTree_phi P hadd d t ns im kr r' hs hg hnd
      exact ⟨by rw [ht]; exact .refl _, hgd, hφ⟩

/-- Induction over histories of ALL the transformations. -/
theorem applyXs_ok (P : K → Prop) (hadd : ∀ x y, P x → P y → P (x + y)) (d : K) :
    ∀ (ops : List XOp) (t r : PTree K), applyXs t ops = some r → 2 ≤ t.children.length →
      (tips t).Nodup → GoodLensL P t.children → StepOK P d t r (keptAll ops)
  | [], t, r, h, _, _, hg => by
    simp only [applyXs, Option.some.injEq] at h; subst h
    exact ⟨by simp only [keptAll]; rw [filter_true_eq], hg, fun _ _ => rfl⟩
  | op :: ops, t, r, h, hdeg, hnd, hg => by
    simp only [applyXs] at h
    cases h1 : applyX t op with
    | none => simp [h1] at h
    | some m =>
      simp only [h1] at h
      split at h
      · cases h
      · rename_i hd
        have hdm : 2 ≤ m.children.length := by omega
        have s1 := applyX_ok P hadd d t m op h1 hdeg hnd hg
        have hndm : (tips m).Nodup := (s1.tips.nodup_iff).2 (hnd.filter _)
        have s2 := applyXs_ok P hadd d ops m r h hdm hndm s1.good
        refine ⟨?_, s2.good, fun φ hφ => ?_⟩
        · have := s2.tips.trans (s1.tips.filter (keptAll ops))
          simpa [keptAll, List.filter_filter, Bool.and_comm] using this
        · rw [s2.topo φ hφ]
          apply s1.topo φ
          apply hφ.mono
          intro x hx
          have := (s2.tips.mem_iff (a := x)).1 hx
          exact (List.mem_filter.1 this).1

end
end CogentModel.Phylo
