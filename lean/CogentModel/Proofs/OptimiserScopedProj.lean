import CogentModel.Model.OptimiserScopedProj
import CogentModel.Proofs.OptimiserProj
import CogentModel.Proofs.OptimiserScoped
import Mathlib.Data.List.Nodup
/-! Helper lemmas for C16 `projection_exact_scoped` / `initialise_rules_exact`. -/
namespace CogentModel.ScopedProj
open CogentModel.Optimiser CogentModel.ScopedRules

variable {S V : Type} [DecidableEq S]

theorem nestedPairs_append (pass : S → Bool) (a b : List (PRule S V)) (e : S) :
    nestedPairs pass (a ++ b) e = nestedPairs pass a e ++ nestedPairs pass b e := by
  simp [nestedPairs, List.filter_append, List.filterMap_append]

theorem projectedPairs_append (pass : S → Bool) (a b : List (PRule S V)) (e : S) :
    projectedPairs pass (a ++ b) e = projectedPairs pass a e ++ projectedPairs pass b e := by
  simp [projectedPairs, List.filter_append, List.filterMap_append]

/-- rich parameters that receive a term are not pass-through names -/
theorem targets_not_pass (ref : S) (pass : S → Bool) (rich : Coords S) (ch : List (S × Option S))
    (hpass : ∀ n, pass n = true → coordsOf rich n = []) (sp rp : S) (h : rp ∈ targets ref rich ch sp) :
    pass rp = false := by
  unfold targets at h
  rw [List.mem_filter] at h
  cases hp : pass rp with
  | false => rfl
  | true =>
    have := hpass rp hp
    rw [this] at h
    simp at h

/-- the projected rate rules on edge `e` are the `(name, value)` projection of the nested rate
rules on edge `e` -/
theorem projectedPairs_emitted (ref : S) (pass : S → Bool) (rich : Coords S) (ch : List (S × Option S))
    (hpass : ∀ n, pass n = true → coordsOf rich n = []) (r : PRule S V) (v : V) (e : S) :
    projectedPairs pass ((targets ref rich ch r.par).map (fun rp => { r with par := rp, init := some v })) e
      = if coversP r e then (targets ref rich ch r.par).map (fun rp => (rp, v)) else [] := by
  have hnp := targets_not_pass ref pass rich ch hpass r.par
  generalize targets ref rich ch r.par = ts at hnp ⊢
  induction ts with
  | nil => simp [projectedPairs]
  | cons t ts ih =>
    have ht : pass t = false := hnp t List.mem_cons_self
    have ih' := ih (fun rp h => hnp rp (List.mem_cons_of_mem _ h))
    by_cases hc : coversP r e = true
    · have hc' : coversP { r with par := t, init := some v } e = true := by simpa [coversP] using hc
      rw [if_pos hc] at ih' ⊢
      simp only [List.map_cons, projectedPairs, List.filter_cons, hc', ht, Bool.not_false, Bool.and_self,
        if_true, List.filterMap_cons, Option.map_some]
      simp only [projectedPairs] at ih'
      rw [ih']
    · have hc' : coversP { r with par := t, init := some v } e = false := by simpa [coversP] using hc
      rw [if_neg hc] at ih' ⊢
      simp only [List.map_cons, projectedPairs, List.filter_cons, hc', Bool.false_and, Bool.false_eq_true, if_false]
      simp only [projectedPairs] at ih'
      exact ih'

theorem pairs_of_update (ref : S) (pass : S → Bool) (rich : Coords S) (ch : List (S × Option S))
    (hpass : ∀ n, pass n = true → coordsOf rich n = []) :
    ∀ (rules out : List (PRule S V)), updateParamRulesSame ref pass rich ch rules = .ok out →
      ∀ e, projectedPairs pass out e
        = projectSame ref (fun _ => false) rich ch (nestedPairs pass rules e) := by
  intro rules
  induction rules with
  | nil =>
    intro out h e
    simp [updateParamRulesSame, emitAll] at h
    subst h
    rfl
  | cons r rs ih =>
    intro out h e
    unfold updateParamRulesSame emitAll at h
    split at h
    · cases h
    · rename_i a ha
      split at h
      · cases h
      · rename_i b hb
        cases h
        have ihb := ih b hb e
        have hcons : nestedPairs pass (r :: rs) e = nestedPairs pass [r] e ++ nestedPairs pass rs e :=
          nestedPairs_append pass [r] rs e
        rw [projectedPairs_append, hcons, ihb]
        have hproj : ∀ (l1 l2 : List (S × V)), projectSame ref (fun _ => false) rich ch (l1 ++ l2)
            = projectSame ref (fun _ => false) rich ch l1 ++ projectSame ref (fun _ => false) rich ch l2 := by
          intro l1 l2; simp [projectSame, List.flatMap_append]
        rw [hproj]
        congr 1
        unfold emitSame at ha
        by_cases hp : pass r.par = true
        · rw [if_pos hp] at ha
          cases ha
          simp [projectedPairs, nestedPairs, hp, projectSame]
        · rw [if_neg hp] at ha
          have hpf : pass r.par = false := by simpa using hp
          cases hm : mleOf r with
          | none => rw [hm] at ha; cases ha
          | some v =>
            rw [hm] at ha
            cases ha
            rw [projectedPairs_emitted ref pass rich ch hpass r v e]
            by_cases hc : coversP r e = true
            · simp [nestedPairs, hc, hpf, hm, projectSame]
            · have hcf : coversP r e = false := by simpa using hc
              simp [nestedPairs, hcf, projectSame]

/-- where every projected rule comes from: scope, spelling and value -/
theorem emitted_provenance (ref : S) (pass : S → Bool) (rich : Coords S) (ch : List (S × Option S)) :
    ∀ (rules out : List (PRule S V)), updateParamRulesSame ref pass rich ch rules = .ok out →
      ∀ p ∈ out, (pass p.par = true ∧ p ∈ rules) ∨
        ∃ r ∈ rules, pass r.par = false ∧ p.par ∈ targets ref rich ch r.par ∧ p.edges = r.edges ∧
          p.single = r.single ∧ ∃ v, mleOf r = some v ∧ p.init = some v := by
  intro rules
  induction rules with
  | nil =>
    intro out h p hp
    simp [updateParamRulesSame, emitAll] at h
    subst h
    cases hp
  | cons r rs ih =>
    intro out h p hp
    unfold updateParamRulesSame emitAll at h
    split at h
    · cases h
    · rename_i a ha
      split at h
      · cases h
      · rename_i b hb
        cases h
        rcases List.mem_append.mp hp with h1 | h2
        · unfold emitSame at ha
          by_cases hpass : pass r.par = true
          · rw [if_pos hpass] at ha
            cases ha
            simp only [List.mem_singleton] at h1
            subst h1
            exact Or.inl ⟨hpass, List.mem_cons_self⟩
          · rw [if_neg hpass] at ha
            cases hm : mleOf r with
            | none => rw [hm] at ha; cases ha
            | some v =>
              rw [hm] at ha
              cases ha
              rw [List.mem_map] at h1
              obtain ⟨rp, hrp, rfl⟩ := h1
              exact Or.inr ⟨r, List.mem_cons_self, by simpa using hpass, hrp, rfl, rfl, v, hm, rfl⟩
        · rcases ih b hb p h2 with ⟨q1, q2⟩ | ⟨r', hr', rest⟩
          · exact Or.inl ⟨q1, List.mem_cons_of_mem _ q2⟩
          · exact Or.inr ⟨r', List.mem_cons_of_mem _ hr', rest⟩

theorem keyed_subset {W : Type} : ∀ (l : List (Rule S W)), ∀ x ∈ keyed l, x ∈ l := by
  intro l
  induction l with
  | nil => intro x hx; simp [keyed] at hx
  | cons r rs ih =>
    intro x hx
    unfold keyed at hx
    split at hx
    · exact List.mem_cons_of_mem _ (ih x hx)
    · rcases List.mem_cons.mp hx with rfl | h
      · exact List.mem_cons_self
      · exact List.mem_cons_of_mem _ (ih x h)

/-! ### at most one rule per parameter and edge is preserved -/

theorem mappedTo_mem {ch : List (S × Option S)} {sp rp : S} (h : rp ∈ mappedTo ch sp) : (rp, some sp) ∈ ch := by
  unfold mappedTo at h
  rw [List.mem_map] at h
  obtain ⟨x, hx, rfl⟩ := h
  rw [List.mem_filter] at hx
  have : x.2 = some sp := by simpa using hx.2
  rw [← this]
  exact hx.1

theorem targets_nodup (ref : S) (rich : Coords S) (ch : List (S × Option S)) (hch : (ch.map (·.1)).Nodup) (sp : S) :
    (targets ref rich ch sp).Nodup := by
  unfold targets mappedTo
  apply List.Nodup.filter
  exact List.Nodup.sublist (List.Sublist.map _ List.filter_sublist) hch

omit [DecidableEq S] in
theorem fst_inj_of_nodup {ch : List (S × Option S)} (hch : (ch.map (·.1)).Nodup) {a : S} {b c : Option S}
    (h1 : (a, b) ∈ ch) (h2 : (a, c) ∈ ch) : b = c := by
  have := List.inj_on_of_nodup_map hch h1 h2 rfl
  exact (Prod.mk.injEq _ _ _ _ ▸ this).2

theorem projectSame_names_nodup (ref : S) (rich : Coords S) (ch : List (S × Option S))
    (hch : (ch.map (·.1)).Nodup) (pairs : List (S × V)) (hp : (pairs.map (·.1)).Nodup) :
    ((projectSame ref (fun _ => false) rich ch pairs).map (·.1)).Nodup := by
  induction pairs with
  | nil => simp [projectSame]
  | cons r rs ih =>
    have hr : r.1 ∉ rs.map (·.1) := (List.nodup_cons.mp hp).1
    have ih' := ih (List.nodup_cons.mp hp).2
    have e : projectSame ref (fun _ => false) rich ch (r :: rs)
        = (targets ref rich ch r.1).map (fun rp => (rp, r.2)) ++ projectSame ref (fun _ => false) rich ch rs := by
      simp [projectSame]
    rw [e, List.map_append, List.map_map]
    have e2 : ((fun x : S × V => x.1) ∘ fun rp => (rp, r.2)) = id := by funext x; rfl
    rw [e2, List.map_id]
    rw [List.nodup_append]
    refine ⟨targets_nodup ref rich ch hch r.1, ih', ?_⟩
    intro a ha b hb hab
    subst hab
    -- a is a target of r.1 and of some r' in rs
    rw [List.mem_map] at hb
    obtain ⟨x, hx, hxa⟩ := hb
    unfold projectSame at hx
    rw [List.mem_flatMap] at hx
    obtain ⟨r', hr', hx'⟩ := hx
    simp only [Bool.false_eq_true, if_false, List.mem_map] at hx'
    obtain ⟨rp, hrp, rfl⟩ := hx'
    simp only at hxa
    subst hxa
    have m1 := mappedTo_mem (List.mem_filter.mp ha).1
    have m2 := mappedTo_mem (List.mem_filter.mp hrp).1
    have := fst_inj_of_nodup hch m1 m2
    have : r.1 = r'.1 := by simpa using this
    exact hr (this ▸ List.mem_map_of_mem hr')

theorem nestedPairs_names (pass : S → Bool) (rules : List (PRule S V)) (e : S)
    (hm : rules.all (fun r => pass r.par || (mleOf r).isSome) = true) :
    (nestedPairs pass rules e).map (·.1)
      = (rules.filter (fun r => coversP r e && !(pass r.par))).map (·.par) := by
  induction rules with
  | nil => rfl
  | cons r rs ih =>
    rw [List.all_cons, Bool.and_eq_true] at hm
    have ih' := ih hm.2
    unfold nestedPairs at ih' ⊢
    rw [List.filter_cons]
    split
    · rename_i hc
      simp only [Bool.and_eq_true, Bool.not_eq_true'] at hc
      have : (mleOf r).isSome = true := by
        have := hm.1
        simpa [hc.2] using this
      obtain ⟨v, hv⟩ := Option.isSome_iff_exists.mp this
      simp only [List.filterMap_cons, hv, Option.map_some, List.map_cons]
      rw [ih']
    · exact ih'

theorem onePerEdge_nodup (pass : S → Bool) (rules : List (PRule S V)) (edgeNames : List S)
    (h : onePerEdgeB pass rules edgeNames = true) (e : S) (he : e ∈ edgeNames) :
    ((nestedPairs pass rules e).map (·.1)).Nodup := by
  unfold onePerEdgeB at h
  rw [Bool.and_eq_true] at h
  rw [nestedPairs_names pass rules e h.1]
  have h2 := List.all_eq_true.mp h.2 e he
  rw [List.nodup_iff_count_eq_one]
  intro a ha
  have := List.all_eq_true.mp h2 a ha
  simpa using this

end CogentModel.ScopedProj
