import CogentModel.Proofs.KVLemmas
import CogentModel.Proofs.DataStoreSim
import CogentModel.Model.DataStoreSqlite
import CogentModel.Spec.DataStoreSqlSafe
/-! C13 — simulation between the SQLite store model and the dictionary spec -/
namespace CogentModel.DataStoreSqlite
open CogentModel.KV CogentModel.DataStore CogentModel.DataStoreDict

variable {D : Type} {H : D → D} {s : Sql D} {d : Dict D}

theorem stripTable_eq (i : Str) : stripTable sResults i = sN i := rfl

/-- the row the dictionary state prescribes for record id `n` -/
def rowOf (H : D → D) (d : Dict D) (n : Str) : Option (Row D) :=
  match get d.completed n with
  | some v => some ⟨v, H v, true⟩
  | none => (get d.notCompleted n).map fun v => ⟨v, H v, false⟩

structure SimS (H : D → D) (s : Sql D) (d : Dict D) : Prop where
  hmode : s.mode = d.mode
  rowsNd : (keys s.rows).Nodup
  rows : ∀ n, get s.rows n = rowOf H d n
  disj : ∀ n, n ∈ keys d.completed → n ∉ keys d.notCompleted
  ndC : (keys d.completed).Nodup
  ndN : (keys d.notCompleted).Nodup
  cacheC : s.cCache = [] ∨ (s.cCache.Nodup ∧ ∀ n, n ∈ s.cCache ↔ n ∈ keys d.completed)
  cacheN : s.ncCache = [] ∨ (s.ncCache.Nodup ∧ ∀ n, n ∈ s.ncCache ↔ n ∈ keys d.notCompleted)

structure FullS (s : Sql D) (d : Dict D) : Prop where
  cnd : s.cCache.Nodup
  cmem : ∀ n, n ∈ s.cCache ↔ n ∈ keys d.completed
  nnd : s.ncCache.Nodup
  nmem : ∀ n, n ∈ s.ncCache ↔ n ∈ keys d.notCompleted

theorem simS_congr {s' : Sql D} (h : SimS H s d) (e1 : s'.mode = s.mode) (e2 : s'.rows = s.rows)
    (cC : s'.cCache = [] ∨ (s'.cCache.Nodup ∧ ∀ n, n ∈ s'.cCache ↔ n ∈ keys d.completed))
    (cN : s'.ncCache = [] ∨ (s'.ncCache.Nodup ∧ ∀ n, n ∈ s'.ncCache ↔ n ∈ keys d.notCompleted)) :
    SimS H s' d :=
  ⟨e1 ▸ h.hmode, e2 ▸ h.rowsNd, e2 ▸ h.rows, h.disj, h.ndC, h.ndN, cC, cN⟩

theorem rowOf_completed_iff (h : SimS H s d) (n : Str) :
    (∃ r, get s.rows n = some r ∧ r.completed = true) ↔ n ∈ keys d.completed := by
  rw [h.rows n, mem_keys_iff]
  unfold rowOf
  cases hc : get d.completed n with
  | some v => simp
  | none =>
    cases hn : get d.notCompleted n with
    | some v => simp
    | none => simp

theorem rowOf_nc_iff (h : SimS H s d) (n : Str) :
    (∃ r, get s.rows n = some r ∧ r.completed = false) ↔ n ∈ keys d.notCompleted := by
  rw [h.rows n]
  unfold rowOf
  cases hc : get d.completed n with
  | some v =>
    have hmem : n ∈ keys d.completed := mem_of_get_some hc
    simp only [Option.some.injEq, exists_eq_left', Bool.true_eq_false, false_iff]
    exact h.disj n hmem
  | none =>
    rw [mem_keys_iff]
    cases hn : get d.notCompleted n with
    | some v => simp
    | none => simp

theorem selectMembers_spec (h : SimS H s d) (b : Bool) :
    (selectMembers s b).Nodup ∧ ∀ n, n ∈ selectMembers s b ↔ ∃ r, get s.rows n = some r ∧ r.completed = b := by
  unfold selectMembers
  constructor
  · exact nodup_filter _ _ h.rowsNd
  · intro n
    rw [List.mem_map]
    constructor
    · rintro ⟨⟨k, r⟩, hm, rfl⟩
      obtain ⟨hm1, hp⟩ := List.mem_filter.mp hm
      exact ⟨r, (mem_iff_get h.rowsNd _ _).mp hm1, by simpa using hp⟩
    · rintro ⟨r, hg, hb⟩
      exact ⟨(n, r), List.mem_filter.mpr ⟨(mem_iff_get h.rowsNd _ _).mpr hg, by simp [hb]⟩, rfl⟩

theorem simS_populate (h : SimS H s d) : SimS H (populate s) d ∧ FullS (populate s) d := by
  obtain ⟨hcn, hcm⟩ := selectMembers_spec h true
  have hcm' : ∀ n, n ∈ selectMembers s true ↔ n ∈ keys d.completed := fun n => (hcm n).trans (rowOf_completed_iff h n)
  unfold populate
  by_cases he : s.cCache.isEmpty = true
  · -- completed cache rebuilt
    simp only [he, if_true]
    have h1 : SimS H { s with cCache := selectMembers s true } d := simS_congr h rfl rfl (Or.inr ⟨hcn, hcm'⟩) h.cacheN
    obtain ⟨hnn, hnm⟩ := selectMembers_spec h1 false
    have hnm' : ∀ n, n ∈ selectMembers { s with cCache := selectMembers s true } false ↔ n ∈ keys d.notCompleted :=
      fun n => (hnm n).trans (rowOf_nc_iff h1 n)
    by_cases he2 : s.ncCache.isEmpty = true
    · simp only [he2, if_true]
      exact ⟨simS_congr h1 rfl rfl (Or.inr ⟨hcn, hcm'⟩) (Or.inr ⟨hnn, hnm'⟩), ⟨hcn, hcm', hnn, hnm'⟩⟩
    · simp only [he2, Bool.false_eq_true, if_false]
      have hne : s.ncCache ≠ [] := by simpa using he2
      rcases h.cacheN with h0 | h0
      · exact absurd h0 hne
      · exact ⟨h1, ⟨hcn, hcm', h0.1, h0.2⟩⟩
  · simp only [he, Bool.false_eq_true, if_false]
    have hne : s.cCache ≠ [] := by simpa using he
    have hc0 : s.cCache.Nodup ∧ ∀ n, n ∈ s.cCache ↔ n ∈ keys d.completed := by
      rcases h.cacheC with h0 | h0
      · exact absurd h0 hne
      · exact h0
    obtain ⟨hnn, hnm⟩ := selectMembers_spec h false
    have hnm' : ∀ n, n ∈ selectMembers s false ↔ n ∈ keys d.notCompleted := fun n => (hnm n).trans (rowOf_nc_iff h n)
    by_cases he2 : s.ncCache.isEmpty = true
    · simp only [he2, if_true]
      exact ⟨simS_congr h rfl rfl h.cacheC (Or.inr ⟨hnn, hnm'⟩), ⟨hc0.1, hc0.2, hnn, hnm'⟩⟩
    · simp only [he2, Bool.false_eq_true, if_false]
      have hne2 : s.ncCache ≠ [] := by simpa using he2
      rcases h.cacheN with h0 | h0
      · exact absurd h0 hne2
      · exact ⟨h, ⟨hc0.1, hc0.2, h0.1, h0.2⟩⟩


/-! ### connection, membership test -/

theorem connect_fields (s : Sql D) :
    (connect s).1.rows = s.rows ∧ (connect s).1.mode = s.mode ∧ (connect s).1.cCache = s.cCache ∧
    (connect s).1.ncCache = s.ncCache := by
  unfold connect
  split
  · exact ⟨rfl, rfl, rfl, rfl⟩
  · split
    · split <;> exact ⟨rfl, rfl, rfl, rfl⟩
    · dsimp only
      split <;> exact ⟨rfl, rfl, rfl, rfl⟩

theorem simS_connect (h : SimS H s d) : SimS H (connect s).1 d := by
  obtain ⟨e1, e2, e3, e4⟩ := connect_fields s
  exact simS_congr h e2 e1 (e3 ▸ h.cacheC) (e4 ▸ h.cacheN)

theorem connect_ok (hc : connOk s = true) (hr : s.mode ≠ .r) : (connect s).2 = none := by
  unfold connect
  by_cases h1 : s.connected = true
  · simp [h1]
  · have h1' : s.connected = false := by simpa using h1
    simp only [h1', Bool.false_eq_true, if_false, hr]
    simp only [connOk, h1', Bool.false_or, Bool.or_eq_true, bne_iff_ne, ne_eq, Bool.not_eq_true'] at hc
    rcases hc with hc | hc
    · simp [hc]
    · simp [hc]

theorem containsS_iff (hf : FullS s d) (id : Str) :
    contains s id = true ↔ id ∈ keys d.completed ∨ id ∈ keys d.notCompleted := by
  unfold contains
  rw [Bool.or_eq_true, List.contains_iff_mem, List.contains_iff_mem, hf.cmem, hf.nmem]

theorem rowOf_put_completed (d : Dict D) (id : Str) (data : D) (n : Str) :
    rowOf H { d with completed := put d.completed id data } n =
      if n = id then some ⟨data, H data, true⟩ else rowOf H d n := by
  unfold rowOf
  simp only [get_put]
  by_cases h : n = id <;> simp [h]

theorem rowOf_put_nc (d : Dict D) (id : Str) (data : D) (n : Str) (hc : get d.completed id = none) :
    rowOf H { d with notCompleted := put d.notCompleted id data } n =
      if n = id then some ⟨data, H data, false⟩ else rowOf H d n := by
  unfold rowOf
  simp only [get_put]
  by_cases h : n = id
  · subst h; simp [hc]
  · simp [h]

/-! ### the SQL of `drop_not_completed` -/

theorem dropRows_sim (h : SimS H s d) (id : Str) :
    SimS H (dropRows s id) { d with notCompleted := if id.isEmpty then [] else del d.notCompleted id } := by
  refine ⟨h.hmode, nodup_filter _ _ h.rowsNd, ?_, ?_, h.ndC, ?_, h.cacheC, Or.inl rfl⟩
  · intro n
    show get (s.rows.filter _) n = _
    rw [get_filter _ _ h.rowsNd n, h.rows n]
    unfold rowOf
    cases hc : get d.completed n with
    | some v => simp
    | none =>
      cases hn : get d.notCompleted n with
      | none =>
        by_cases he : id.isEmpty = true
        · simp [he, KV.get]
        · simp [he, get_del, hn]
      | some v =>
        by_cases he : id.isEmpty = true
        · simp [he, KV.get]
        · have he' : id.isEmpty = false := by simpa using he
          by_cases hid : n = id
          · simp [he', hid, get_del]
          · simp [he', hid, get_del, hn]
  · intro n hn hn'
    apply h.disj n hn
    by_cases he : id.isEmpty = true
    · simp [he, keys] at hn'
    · simp only [he, if_false] at hn'
      exact ((mem_keys_del _ _ _).mp hn').2
  · show (keys (if id.isEmpty then [] else del d.notCompleted id)).Nodup
    by_cases he : id.isEmpty = true
    · simp [he, keys]
    · simp only [he, if_false]; exact nodup_del _ _ h.ndN

/-! ### `_write` on the results table -/

theorem initLog_fields (s : Sql D) :
    (initLog s).rows = s.rows ∧ (initLog s).mode = s.mode ∧ (initLog s).cCache = s.cCache ∧
    (initLog s).ncCache = s.ncCache := by
  unfold initLog; split <;> exact ⟨rfl, rfl, rfl, rfl⟩

theorem simS_initLog (h : SimS H s d) : SimS H (initLog s) d := by
  obtain ⟨e1, e2, e3, e4⟩ := initLog_fields s
  exact simS_congr h e2 e1 (e3 ▸ h.cacheC) (e4 ▸ h.cacheN)

theorem populate_mode (s : Sql D) : (populate s).mode = s.mode := by
  unfold populate; dsimp only; split <;> split <;> rfl

theorem populate_rows (s : Sql D) : (populate s).rows = s.rows := by
  unfold populate; dsimp only; split <;> split <;> rfl

/-- a completed record is written: UPDATE when it is listed (never in append mode), else INSERT -/
theorem writeRow_completed (h : SimS H s d) (id : Str) (data : D)
    (hn : id ∉ keys d.notCompleted) (ha : d.mode = .a → id ∉ keys d.completed) :
    (writeRow H s id data true).2 = .done (some id) ∧
    (writeRow H s id data true).1.mode = s.mode ∧
    (keys (writeRow H s id data true).1.rows).Nodup ∧
    (∀ n, get (writeRow H s id data true).1.rows n = rowOf H { d with completed := put d.completed id data } n) ∧
    FullS (writeRow H s id data true).1 d := by
  obtain ⟨hp, hf⟩ := simS_populate (simS_initLog h)
  have hmode : (populate (initLog s)).mode = s.mode := by rw [populate_mode]; exact (initLog_fields s).2.1
  unfold writeRow
  by_cases hc : id ∈ keys d.completed
  · have hcont : contains (populate (initLog s)) id = true := (containsS_iff hf id).mpr (Or.inl hc)
    have hna : ((populate (initLog s)).mode != Mode.a) = true := by
      rw [hmode, h.hmode]
      exact bne_iff_ne.mpr (fun e => ha e hc)
    simp only [hcont, hna, Bool.and_self, if_true]
    refine ⟨by first | rfl | trivial, hmode, ?_, ?_, ⟨hf.cnd, hf.cmem, hf.nnd, hf.nmem⟩⟩
    · show (keys ((populate (initLog s)).rows.map _)).Nodup
      rw [keys_mapval (fun r : Row D => ({ r with data := data, md5 := H data } : Row D)) id]
      exact hp.rowsNd
    · intro n
      show get ((populate (initLog s)).rows.map _) n = _
      rw [get_mapval (fun r : Row D => ({ r with data := data, md5 := H data } : Row D)) id, rowOf_put_completed, hp.rows n]
      by_cases hid : n = id
      · subst hid
        simp only [if_true]
        obtain ⟨v, hv⟩ : ∃ v, get d.completed n = some v := by
          have := (mem_keys_iff _ _).mp hc
          cases hg : get d.completed n with
          | none => simp [hg] at this
          | some v => exact ⟨v, rfl⟩
        simp [rowOf, hv]
      · simp [hid]
  · have hcont : contains (populate (initLog s)) id = false := by
      cases hb : contains (populate (initLog s)) id with
      | false => rfl
      | true =>
        rcases (containsS_iff hf id).mp hb with e | e
        · exact absurd e hc
        · exact absurd e hn
    have hrow : get (populate (initLog s)).rows id = none := by
      rw [hp.rows id]
      simp [rowOf, get_none_of_not_mem hc, get_none_of_not_mem hn]
    have hhas : has (populate (initLog s)).rows id = false := by simp [has, hrow]
    simp only [hcont, Bool.false_and, Bool.false_eq_true, if_false, hhas]
    refine ⟨by first | rfl | trivial, hmode, ?_, ?_, ⟨hf.cnd, hf.cmem, hf.nnd, hf.nmem⟩⟩
    · show (keys ((populate (initLog s)).rows ++ [(id, _)])).Nodup
      rw [keys_append_single]
      apply List.nodup_append.mpr
      refine ⟨hp.rowsNd, by simp, ?_⟩
      intro a ha' b hb
      simp only [List.mem_singleton] at hb
      subst hb
      intro e; subst e
      have := (mem_keys_iff _ _).mp ha'
      simp [hrow] at this
    · intro n
      show get ((populate (initLog s)).rows ++ [(id, _)]) n = _
      rw [get_append_single, rowOf_put_completed]
      by_cases hid : n = id
      · subst hid; simp [hrow]
      · simp only [hid, if_false]
        rw [hp.rows n]
        cases hr : rowOf H d n <;> simp

/-- a not-completed record for an identifier that has no record: INSERT -/
theorem writeRow_nc (h : SimS H s d) (id : Str) (data : D)
    (hn : id ∉ keys d.notCompleted) (hc : id ∉ keys d.completed) :
    (writeRow H s id data false).2 = .done (some id) ∧
    (writeRow H s id data false).1.mode = s.mode ∧
    (keys (writeRow H s id data false).1.rows).Nodup ∧
    (∀ n, get (writeRow H s id data false).1.rows n = rowOf H { d with notCompleted := put d.notCompleted id data } n) ∧
    FullS (writeRow H s id data false).1 d := by
  obtain ⟨hp, hf⟩ := simS_populate (simS_initLog h)
  have hmode : (populate (initLog s)).mode = s.mode := by rw [populate_mode]; exact (initLog_fields s).2.1
  unfold writeRow
  have hcont : contains (populate (initLog s)) id = false := by
    cases hb : contains (populate (initLog s)) id with
    | false => rfl
    | true =>
      rcases (containsS_iff hf id).mp hb with e | e
      · exact absurd e hc
      · exact absurd e hn
  have hrow : get (populate (initLog s)).rows id = none := by
    rw [hp.rows id]
    simp [rowOf, get_none_of_not_mem hc, get_none_of_not_mem hn]
  have hhas : has (populate (initLog s)).rows id = false := by simp [has, hrow]
  simp only [hcont, Bool.false_and, Bool.false_eq_true, if_false, hhas]
  refine ⟨by first | rfl | trivial, hmode, ?_, ?_, ⟨hf.cnd, hf.cmem, hf.nnd, hf.nmem⟩⟩
  · show (keys ((populate (initLog s)).rows ++ [(id, _)])).Nodup
    rw [keys_append_single]
    apply List.nodup_append.mpr
    refine ⟨hp.rowsNd, by simp, ?_⟩
    intro a ha' b hb
    simp only [List.mem_singleton] at hb
    subst hb
    intro e; subst e
    have := (mem_keys_iff _ _).mp ha'
    simp [hrow] at this
  · intro n
    show get ((populate (initLog s)).rows ++ [(id, _)]) n = _
    rw [get_append_single, rowOf_put_nc d id data n (get_none_of_not_mem hc)]
    by_cases hid : n = id
    · subst hid; simp [hrow]
    · simp only [hid, if_false]
      rw [hp.rows n]
      cases hr : rowOf H d n <;> simp


/-! ### the operations -/

theorem checkWritable_ro {id : Str} (hr : s.mode = .r) : checkWritable s id = (s, some .ioError) := by
  unfold checkWritable; rw [if_pos hr]

theorem checkWritable_eq {id : Str} (hc : connOk s = true) (hr : s.mode ≠ .r) :
    checkWritable s id =
      if contains (populate (connect s).1) id && decide ((populate (connect s).1).mode = .a)
      then (populate (connect s).1, some .ioError) else (populate (connect s).1, none) := by
  unfold checkWritable
  rw [if_neg hr]
  have hok := connect_ok hc hr
  generalize connect s = x at hok ⊢
  obtain ⟨s1, e⟩ := x
  simp only at hok
  subst hok
  rfl

theorem dropRows_sim_ne (h : SimS H s d) {id : Str} (hid : id ≠ []) :
    SimS H (dropRows s id) { d with notCompleted := del d.notCompleted id } := by
  have := dropRows_sim h id
  rwa [if_neg (by simp [isEmpty_false_of_ne hid])] at this

theorem rejS_write (sfx : Str) (i : Str) (data : D) :
    rejects .sqlite sfx d (.write i data) =
      (decide (d.mode = .r) || (decide (d.mode = .a) && (has d.completed (sN i) || has d.notCompleted (sN i)))) := by
  simp [rejects, cName, ncName]

theorem rejS_writeNc (sfx : Str) (i : Str) (data : D) :
    rejects .sqlite sfx d (.writeNc i data) =
      (decide (d.mode = .r) || (decide (d.mode = .a) && (has d.completed (sN i) || has d.notCompleted (sN i)))) := by
  simp [rejects, cName, ncName]

theorem has_or_iff (id : Str) :
    (has d.completed id || has d.notCompleted id) = true ↔ id ∈ keys d.completed ∨ id ∈ keys d.notCompleted := by
  simp [has, mem_keys_iff]

theorem write_simS (h : SimS H s d) (hc : connOk s = true) (i : Str) (data : D) (hne : sN i ≠ []) :
    SimS H (write H s i data).1 (specStep .sqlite [] d (.write i data)) := by
  unfold write
  simp only [stripTable_eq]
  by_cases hr : s.mode = .r
  · rw [checkWritable_ro hr]
    have : rejects .sqlite [] d (.write i data) = true := by rw [rejS_write]; simp [← h.hmode, hr]
    simp only [specStep, this, if_true]
    exact h
  · rw [checkWritable_eq hc hr]
    obtain ⟨hs2, hf2⟩ := simS_populate (simS_connect h)
    have hm2 : (populate (connect s).1).mode = s.mode := by rw [populate_mode]; exact (connect_fields s).2.1
    have hdm : d.mode ≠ .r := h.hmode ▸ hr
    by_cases hin : (sN i ∈ keys d.completed ∨ sN i ∈ keys d.notCompleted) ∧ s.mode = .a
    · have hcnt : contains (populate (connect s).1) (sN i) = true := (containsS_iff hf2 _).mpr hin.1
      have hrej : rejects .sqlite [] d (.write i data) = true := by
        rw [rejS_write]
        have := (has_or_iff (d := d) (sN i)).mpr hin.1
        simp [← h.hmode, hin.2, this]
      simp only [hcnt, hm2, hin.2, decide_true, Bool.and_self, if_true, specStep, hrej]
      exact hs2
    · have hcond : (contains (populate (connect s).1) (sN i) && decide ((populate (connect s).1).mode = .a)) = false := by
        cases hb : contains (populate (connect s).1) (sN i) with
        | false => rfl
        | true =>
          have hna : ¬ s.mode = .a := fun e => hin ⟨(containsS_iff hf2 _).mp hb, e⟩
          simp [hm2, hna]
      have hrej : rejects .sqlite [] d (.write i data) = false := by
        rw [rejS_write]
        cases hmode : d.mode with
        | r => exact absurd hmode hdm
        | w => simp
        | a =>
          have hsa : s.mode = .a := h.hmode ▸ hmode
          have : ¬ (sN i ∈ keys d.completed ∨ sN i ∈ keys d.notCompleted) := fun e => hin ⟨e, hsa⟩
          have hb : (has d.completed (sN i) || has d.notCompleted (sN i)) = false := by
            cases hx : (has d.completed (sN i) || has d.notCompleted (sN i)) with
            | false => rfl
            | true => exact absurd ((has_or_iff (sN i)).mp hx) this
          simp [hb]
      simp only [hcond, Bool.false_eq_true, if_false]
      have hd1 := dropRows_sim_ne hs2 hne
      have ha : ({ d with notCompleted := del d.notCompleted (sN i) } : Dict D).mode = .a →
          sN i ∉ keys ({ d with notCompleted := del d.notCompleted (sN i) } : Dict D).completed := by
        intro hmode hc'
        exact hin ⟨Or.inl hc', h.hmode ▸ hmode⟩
      obtain ⟨er, em, end_, erows, efull⟩ :=
        writeRow_completed hd1 (sN i) data (not_mem_keys_del _ _) ha
      have hacc : specStep .sqlite [] d (.write i data) =
          { d with completed := put d.completed (sN i) data, notCompleted := del d.notCompleted (sN i) } := by
        simp [specStep, hrej, DataStoreDict.apply, cName, ncName]
      rw [hacc]
      generalize writeRow H (dropRows (populate (connect s).1) (sN i)) (sN i) data true = x at er em end_ erows efull ⊢
      obtain ⟨s3, r⟩ := x
      simp only at er em end_ erows efull
      subst er
      simp only
      have hmode3 : s3.mode = d.mode := by
        rw [em]; show (populate (connect s).1).mode = _; rw [hm2, h.hmode]
      have hdisj : ∀ n, n ∈ keys (put d.completed (sN i) data) → n ∉ keys (del d.notCompleted (sN i)) := by
        intro n hn hn'
        obtain ⟨hne', hmem⟩ := (mem_keys_del _ _ _).mp hn'
        rcases (mem_keys_put _ _ _ _).mp hn with e | e
        · exact hne' e
        · exact h.disj n e hmem
      by_cases hcc : s3.cCache.contains (sN i) = true
      · simp only [hcc, if_true]
        have hin' : sN i ∈ keys d.completed := (efull.cmem _).mp (List.contains_iff_mem.mp hcc)
        refine ⟨hmode3, end_, erows, hdisj, nodup_put _ _ _ h.ndC, nodup_del _ _ h.ndN, Or.inr ⟨efull.cnd, ?_⟩,
          Or.inr ⟨efull.nnd, efull.nmem⟩⟩
        intro n
        rw [efull.cmem n, mem_keys_put]
        constructor
        · exact Or.inr
        · rintro (e | e)
          · exact e ▸ hin'
          · exact e
      · have hnin : sN i ∉ keys d.completed := fun e => hcc (List.contains_iff_mem.mpr ((efull.cmem _).mpr e))
        have hcc' : s3.cCache.contains (sN i) = false := by simpa using hcc
        simp only [hcc', Bool.false_eq_true, if_false]
        refine ⟨hmode3, end_, erows, hdisj, nodup_put _ _ _ h.ndC, nodup_del _ _ h.ndN, Or.inr ⟨?_, ?_⟩,
          Or.inr ⟨efull.nnd, efull.nmem⟩⟩
        · show (s3.cCache ++ [sN i]).Nodup
          apply List.nodup_append.mpr
          refine ⟨efull.cnd, by simp, ?_⟩
          intro a ha' b hb
          simp only [List.mem_singleton] at hb
          subst hb
          intro e; subst e
          exact hnin ((efull.cmem _).mp ha')
        · intro n
          show n ∈ s3.cCache ++ [sN i] ↔ _
          rw [List.mem_append, List.mem_singleton, mem_keys_put, efull.cmem n]
          exact Or.comm


theorem writeNc_simS (h : SimS H s d) (hc : connOk s = true) (i : Str) (data : D)
    (hw : d.mode = .w → sN i ∉ keys d.completed ∧ sN i ∉ keys d.notCompleted) :
    SimS H (writeNc H s i data).1 (specStep .sqlite [] d (.writeNc i data)) := by
  unfold writeNc
  simp only [stripTable_eq]
  by_cases hr : s.mode = .r
  · rw [checkWritable_ro hr]
    have : rejects .sqlite [] d (.writeNc i data) = true := by rw [rejS_writeNc]; simp [← h.hmode, hr]
    simp only [specStep, this, if_true]
    exact h
  · rw [checkWritable_eq hc hr]
    obtain ⟨hs2, hf2⟩ := simS_populate (simS_connect h)
    have hm2 : (populate (connect s).1).mode = s.mode := by rw [populate_mode]; exact (connect_fields s).2.1
    have hdm : d.mode ≠ .r := h.hmode ▸ hr
    by_cases hin : (sN i ∈ keys d.completed ∨ sN i ∈ keys d.notCompleted) ∧ s.mode = .a
    · have hcnt : contains (populate (connect s).1) (sN i) = true := (containsS_iff hf2 _).mpr hin.1
      have hrej : rejects .sqlite [] d (.writeNc i data) = true := by
        rw [rejS_writeNc]
        have := (has_or_iff (d := d) (sN i)).mpr hin.1
        simp [← h.hmode, hin.2, this]
      simp only [hcnt, hm2, hin.2, decide_true, Bool.and_self, if_true, specStep, hrej]
      exact hs2
    · -- accepted: the identifier has no record of either kind
      have hfresh : sN i ∉ keys d.completed ∧ sN i ∉ keys d.notCompleted := by
        cases hmode : d.mode with
        | r => exact absurd hmode hdm
        | w => exact hw hmode
        | a =>
          have hsa : s.mode = .a := h.hmode ▸ hmode
          exact ⟨fun e => hin ⟨Or.inl e, hsa⟩, fun e => hin ⟨Or.inr e, hsa⟩⟩
      have hcnt : contains (populate (connect s).1) (sN i) = false := by
        cases hb : contains (populate (connect s).1) (sN i) with
        | false => rfl
        | true =>
          rcases (containsS_iff hf2 _).mp hb with e | e
          · exact absurd e hfresh.1
          · exact absurd e hfresh.2
      have hrej : rejects .sqlite [] d (.writeNc i data) = false := by
        rw [rejS_writeNc]
        have hb : (has d.completed (sN i) || has d.notCompleted (sN i)) = false := by
          cases hx : (has d.completed (sN i) || has d.notCompleted (sN i)) with
          | false => rfl
          | true =>
            rcases (has_or_iff (sN i)).mp hx with e | e
            · exact absurd e hfresh.1
            · exact absurd e hfresh.2
        simp [hb, hdm]
      simp only [hcnt, Bool.false_and, Bool.false_eq_true, if_false]
      obtain ⟨er, em, end_, erows, efull⟩ := writeRow_nc hs2 (sN i) data hfresh.2 hfresh.1
      have hacc : specStep .sqlite [] d (.writeNc i data) = { d with notCompleted := put d.notCompleted (sN i) data } := by
        simp [specStep, hrej, DataStoreDict.apply, ncName]
      rw [hacc]
      generalize writeRow H (populate (connect s).1) (sN i) data false = x at er em end_ erows efull ⊢
      obtain ⟨s3, r⟩ := x
      simp only at er em end_ erows efull
      subst er
      simp only
      refine ⟨?_, end_, erows, ?_, h.ndC, nodup_put _ _ _ h.ndN, Or.inr ⟨efull.cnd, efull.cmem⟩, Or.inr ⟨?_, ?_⟩⟩
      · show s3.mode = d.mode
        rw [em, hm2, h.hmode]
      · intro n hn hn'
        rcases (mem_keys_put _ _ _ _).mp hn' with e | e
        · exact hfresh.1 (e ▸ hn)
        · exact h.disj n hn e
      · show (s3.ncCache ++ [sN i]).Nodup
        apply List.nodup_append.mpr
        refine ⟨efull.nnd, by simp, ?_⟩
        intro a ha' b hb
        simp only [List.mem_singleton] at hb
        subst hb
        intro e; subst e
        exact hfresh.2 ((efull.nmem _).mp ha')
      · intro n
        show n ∈ s3.ncCache ++ [sN i] ↔ _
        rw [List.mem_append, List.mem_singleton, mem_keys_put, efull.nmem n]
        exact Or.comm

theorem simS_dlogs (h : SimS H s d) (l : KV D) : SimS H s { d with logs := l } :=
  ⟨h.hmode, h.rowsNd, h.rows, h.disj, h.ndC, h.ndN, h.cacheC, h.cacheN⟩

theorem drop_simS (h : SimS H s d) (hc : connOk s = true) (i : Str) (hi : sN i = i) :
    SimS H (dropNc s i).1 (specStep .sqlite [] d (.drop i)) := by
  unfold dropNc
  have hrejv : rejects .sqlite [] d (.drop i : Op D) = decide (d.mode = .r) := by simp [rejects]
  by_cases hr : s.mode = .r
  · have hrej : rejects .sqlite [] d (.drop i : Op D) = true := by rw [hrejv]; simp [← h.hmode, hr]
    simp only [specStep, hrej, if_true]
    have hs1 := simS_connect h
    have hm1 : (connect s).1.mode = .r := by rw [(connect_fields s).2.1]; exact hr
    generalize connect s = x at hs1 hm1 ⊢
    obtain ⟨s1, e⟩ := x
    cases e with
    | some e => exact hs1
    | none =>
      simp only at hm1 hs1 ⊢
      simp only [hm1, if_true]
      exact hs1
  · have hdm : d.mode ≠ .r := h.hmode ▸ hr
    have hrej : rejects .sqlite [] d (.drop i : Op D) = false := by rw [hrejv]; simp [hdm]
    have hok := connect_ok hc hr
    have hs1 := simS_connect h
    have hm1 : (connect s).1.mode ≠ .r := by rw [(connect_fields s).2.1]; exact hr
    generalize connect s = x at hok hs1 hm1 ⊢
    obtain ⟨s1, e⟩ := x
    simp only at hok hs1 hm1
    subst hok
    simp only [hm1, if_false]
    have := dropRows_sim hs1 i
    have hacc : specStep .sqlite [] d (.drop i : Op D) =
        { d with notCompleted := if i.isEmpty then [] else del d.notCompleted i } := by
      simp only [specStep, hrej, Bool.false_eq_true, if_false, DataStoreDict.apply, ncName]
      split
      · rfl
      · show _ = { d with notCompleted := del d.notCompleted i }
        rw [show sqlNorm sResults i = i from hi]
    rw [hacc]
    exact this

theorem reopen_simS (h : SimS H s d) (m : Mode) :
    SimS H (reopen s m) (specStep .sqlite [] d (.reopen m)) := by
  have : specStep .sqlite [] d (.reopen m : Op D) = { d with mode := m } := by
    simp [specStep, rejects, DataStoreDict.apply]
  rw [this]
  have hs1 := simS_connect h
  exact ⟨rfl, hs1.rowsNd, hs1.rows, h.disj, h.ndC, h.ndN, Or.inl rfl, Or.inl rfl⟩

theorem observe_simS (h : SimS H s d) : SimS H (observe s).1 d := by
  unfold observe
  have hs1 := simS_connect h
  generalize connect s = x at hs1 ⊢
  obtain ⟨s1, e⟩ := x
  cases e with
  | some e => exact hs1
  | none => exact (simS_populate hs1).1

theorem unlock_simS (h : SimS H s d) : SimS H (unlock s).1 d := by
  unfold unlock
  split
  · exact h
  · have hs1 := simS_connect h
    generalize connect s = x at hs1 ⊢
    obtain ⟨s1, e⟩ := x
    cases e with
    | some e => exact hs1
    | none => exact simS_congr hs1 rfl rfl hs1.cacheC hs1.cacheN

theorem checkWritable_simS (h : SimS H s d) (id : Str) : SimS H (checkWritable s id).1 d := by
  unfold checkWritable
  split
  · exact h
  · have hs1 := simS_connect h
    generalize connect s = x at hs1 ⊢
    obtain ⟨s1, e⟩ := x
    cases e with
    | some e => exact hs1
    | none =>
      simp only
      split <;> exact (simS_populate hs1).1

theorem writeLog_simS (h : SimS H s d) (i : Str) (data : D) :
    SimS H (writeLog s i data).1 (specStep .sqlite [] d (.writeLog i data)) := by
  have key : ∀ d', SimS H s d' → SimS H (writeLog s i data).1 d' := by
    intro d' h'
    unfold writeLog
    dsimp only
    have hcw := checkWritable_simS h' (stripTable sLogs i)
    generalize checkWritable s (stripTable sLogs i) = x at hcw ⊢
    obtain ⟨s1, e⟩ := x
    cases e with
    | some e => exact hcw
    | none =>
      simp only at hcw ⊢
      have hl := simS_initLog hcw
      exact simS_congr hl rfl rfl hl.cacheC hl.cacheN
  unfold specStep
  split
  · exact key d h
  · exact key _ (simS_dlogs h _)

/-- one operation preserves the SQLite simulation -/
theorem step_simS (h : SimS H s d) (op : Op D) (hc : connOk s = true) (hs : safeS d op = true) :
    SimS H (step H s op).1 (specStep .sqlite [] d op) := by
  cases op with
  | write i data =>
    simp only [safeS, Bool.not_eq_true', List.isEmpty_eq_false_iff] at hs
    exact write_simS h hc i data hs
  | writeNc i data =>
    simp only [safeS, Bool.and_eq_true, Bool.or_eq_true, bne_iff_ne, ne_eq, Bool.not_eq_true',
      List.isEmpty_eq_false_iff] at hs
    apply writeNc_simS h hc i data
    intro hw
    rcases hs.2 with h1 | h1
    · exact absurd hw h1
    · exact ⟨not_mem_of_has_false h1.1, not_mem_of_has_false h1.2⟩
  | writeLog i data => exact writeLog_simS h i data
  | drop i =>
    simp only [safeS, decide_eq_true_eq] at hs
    exact drop_simS h hc i hs
  | reopen m => exact reopen_simS h m
  | observe =>
    have : specStep .sqlite [] d (.observe : Op D) = d := by simp [specStep, rejects, DataStoreDict.apply]
    rw [this]; exact observe_simS h
  | unlock =>
    have : specStep .sqlite [] d (.unlock : Op D) = d := by simp [specStep, rejects, DataStoreDict.apply]
    rw [this]; exact unlock_simS h

theorem run_simS (ops : List (Op D)) : ∀ (s : Sql D) (d : Dict D), SimS H s d → safeHistS H s d ops = true →
    SimS H (run H s ops) (specRun .sqlite [] d ops) := by
  induction ops with
  | nil => intro s d h _; exact h
  | cons op ops ih =>
    intro s d h hs
    simp only [safeHistS, Bool.and_eq_true] at hs
    exact ih _ _ (step_simS h op hs.1.1 hs.1.2) hs.2

theorem simS_create (mode : Mode) : SimS H (Sql.create mode : Sql D) (Dict.empty mode) := by
  refine ⟨rfl, ?_, ?_, ?_, ?_, ?_, Or.inl rfl, Or.inl rfl⟩
  all_goals simp [Sql.create, Dict.empty, keys, KV.get, rowOf]

end CogentModel.DataStoreSqlite
