import CogentModel.Proofs.GffBlocksAB
namespace CogentModel.AnnotDb

/-! ### Part C: the block loader -/

theorem eq_of_name_eq : ∀ (a : List Merged), (names a).Nodup → ∀ x ∈ a, ∀ y ∈ a, x.name = y.name → x = y
  | [], _, _, hx, _, _, _ => by cases hx
  | z :: zs, hnd, x, hx, y, hy, hxy => by
    simp only [names, List.map_cons, List.nodup_cons] at hnd
    rcases List.mem_cons.mp hx with rfl | hx' <;> rcases List.mem_cons.mp hy with rfl | hy'
    · rfl
    · exact absurd (List.mem_map.mpr ⟨y, hy', hxy.symm⟩) hnd.1
    · exact absurd (List.mem_map.mpr ⟨x, hx', hxy⟩) hnd.1
    · exact eq_of_name_eq zs hnd.2 x hx' y hy' hxy

def Wf (m : Merged) : Prop := m.spans ≠ [] ∧ ∀ p ∈ m.spans, p.1 ≤ p.2

theorem wf_extend (m x : Merged) (hm : Wf m) (hx : Wf x) : Wf (extend m x) := by
  unfold extend; split
  · refine ⟨by simp [hx.1], ?_⟩
    intro p hp
    simp only [List.mem_append] at hp
    rcases hp with h | h
    · exact hx.2 p h
    · exact hm.2 p h
  · exact hx

theorem wf_absorb (acc : List Merged) (m : Merged) (hm : Wf m) (h : ∀ x ∈ acc, Wf x) : ∀ x ∈ absorb acc m, Wf x := by
  unfold absorb; split
  · intro x hx
    obtain ⟨y, hy, rfl⟩ := List.mem_map.mp hx
    exact wf_extend m y hm (h y hy)
  · intro x hx
    rcases List.mem_append.mp hx with h1 | h1
    · exact h x h1
    · simp at h1; subst h1; exact hm

theorem wf_combine (ms acc : List Merged) (hms : ∀ m ∈ ms, Wf m) (h : ∀ x ∈ acc, Wf x) : ∀ x ∈ combine acc ms, Wf x := by
  induction ms generalizing acc with
  | nil => exact h
  | cons m ms ih =>
    rw [combine_cons]
    exact ih _ (fun z hz => hms z (List.mem_cons_of_mem _ hz)) (wf_absorb acc m (hms m List.mem_cons_self) h)

theorem wf_singles (rows : List GffRow) (n : Nat) : ∀ m ∈ (singles rows n).1, Wf m := by
  induction rows generalizing n with
  | nil => intro m hm; cases hm
  | cons row rows ih =>
    intro m hm
    have hw : ∀ nm, Wf { name := nm, row := row, spans := [gffCoords row.start row.stop] } := by
      intro nm
      refine ⟨by simp, ?_⟩
      intro p hp; simp at hp; subst hp; exact gffCoords_le _ _
    cases h : row.id with
    | some i =>
      rw [singles_some _ _ _ i h] at hm
      rcases List.mem_cons.mp hm with rfl | hm'
      · exact hw _
      · exact ih n m hm'
    | none =>
      rw [singles_none _ _ _ h] at hm
      rcases List.mem_cons.mp hm with rfl | hm'
      · exact hw _
      · exact ih (n + 1) m hm'

/-- spans only grow by appending -/
theorem absorb_mono (acc : List Merged) (m x : Merged) (hx : x ∈ acc) :
    ∃ y ∈ absorb acc m, y.name = x.name ∧ x.spans <+: y.spans := by
  unfold absorb; split
  · refine ⟨extend m x, List.mem_map.mpr ⟨x, hx, rfl⟩, extend_name m x, ?_⟩
    unfold extend; split
    · exact List.prefix_append _ _
    · exact List.prefix_refl _
  · exact ⟨x, List.mem_append_left _ hx, rfl, List.prefix_refl _⟩

theorem combine_mono (ms acc : List Merged) (x : Merged) (hx : x ∈ acc) :
    ∃ y ∈ combine acc ms, y.name = x.name ∧ x.spans <+: y.spans := by
  induction ms generalizing acc x with
  | nil => exact ⟨x, hx, rfl, List.prefix_refl _⟩
  | cons m ms ih =>
    obtain ⟨y, hy, hn, hp⟩ := absorb_mono acc m x hx
    obtain ⟨z, hz, hn2, hp2⟩ := ih (absorb acc m) y hy
    exact ⟨z, hz, hn2.trans hn, hp.trans hp2⟩

/-- one step of the update loop on merged records -/
def stepExt (a : List Merged) (m : Merged) : List Merged := if m.name ∈ names a then a.map (extend m) else a

theorem names_stepExt (a : List Merged) (m : Merged) : names (stepExt a m) = names a := by
  unfold stepExt; split
  · exact names_map_extend m a
  · rfl

theorem names_foldl_stepExt (ms a : List Merged) : names (ms.foldl stepExt a) = names a := by
  induction ms generalizing a with
  | nil => rfl
  | cons m ms ih => simp only [List.foldl_cons]; rw [ih, names_stepExt]

/-- G: with distinct names in `ms`, combining = extending the seen ones in place, then appending the rest -/
theorem combine_decomp (ms a F : List Merged) (hnd : (names ms).Nodup) (hF : ∀ n ∈ names ms, n ∉ names F) :
    combine (a ++ F) ms = ms.foldl stepExt a ++ F ++ ms.filter (fun m => decide (m.name ∉ names a)) := by
  induction ms generalizing a F with
  | nil => simp [combine]
  | cons m ms ih =>
    simp only [names, List.map_cons, List.nodup_cons] at hnd
    have hmF : m.name ∉ names F := hF m.name (by simp [names])
    have hF' : ∀ n ∈ names ms, n ∉ names F := fun n hn => hF n (by simp only [names, List.map_cons, List.mem_cons]; exact Or.inr hn)
    rw [combine_cons]
    simp only [List.foldl_cons, List.filter_cons]
    by_cases hma : m.name ∈ names a
    · have habs : absorb (a ++ F) m = a.map (extend m) ++ F := by
        unfold absorb
        have : (a ++ F).any (fun x => x.name = m.name) = true :=
          (any_name_iff _ _).mpr (by simp only [names, List.map_append, List.mem_append]; exact Or.inl hma)
        rw [if_pos this, List.map_append, map_extend_id m F hmF]
      rw [habs, ih (a.map (extend m)) F hnd.2 hF']
      have hst : stepExt a m = a.map (extend m) := by unfold stepExt; rw [if_pos hma]
      rw [hst, names_map_extend]
      simp [hma]
    · have habs : absorb (a ++ F) m = a ++ (F ++ [m]) := by
        unfold absorb
        have : ¬ ((a ++ F).any (fun x => x.name = m.name) = true) := by
          intro e
          have := (any_name_iff _ _).mp e
          simp only [names, List.map_append, List.mem_append] at this
          rcases this with h | h
          · exact hma h
          · exact hmF h
        rw [if_neg this, List.append_assoc]
      have hF2 : ∀ n ∈ names ms, n ∉ names (F ++ [m]) := by
        intro n hn hmem
        simp only [names, List.map_append, List.map_cons, List.map_nil, List.mem_append, List.mem_singleton] at hmem
        rcases hmem with h | h
        · exact hF' n hn h
        · exact hnd.1 (h ▸ hn)
      rw [habs, ih a (F ++ [m]) hnd.2 hF2]
      have hst : stepExt a m = a := by unfold stepExt; rw [if_neg hma]
      rw [hst]
      simp [hma]
end CogentModel.AnnotDb
