/-
  Helper lemmas for Props/C04Gen.lean about the shapes the translator emits: loops written as `mapExcept body xs` +
  `flatten`, elementwise maps (`mapCoords`), first/last element tests.  Nothing here mentions generated text.
-/
import CogentModel.Model.FeatureGenPrelude
import CogentModel.Model.FeatureAdd
import Mathlib.Tactic.SplitIfs
namespace CogentModel.C04Gen
open CogentModel.View CogentModel.FeatureView

theorem mapExcept_congr {α β ε} {f g : α → Except ε β} (h : ∀ x, f x = g x) (xs : List α) :
    mapExcept f xs = mapExcept g xs := by
  have : f = g := funext h
  rw [this]

theorem firstLast_cons (p : Int × Int) (ps : List (Int × Int)) :
    (((p :: ps).headD (0, 0)).1 > ((p :: ps).getLastD (0, 0)).2) ↔ firstLastOk (p :: ps) = false := by
  simp only [firstLastOk, List.head?_cons, List.headD_cons]
  rw [List.getLast?_eq_some_getLast (List.cons_ne_nil p ps)]
  simp [List.getLastD_eq_getLast?, List.getLast?_eq_some_getLast (List.cons_ne_nil p ps)]

def okSingle {β ε} : Except ε β → Except ε (List β)
  | .error e => .error e
  | .ok y => .ok [y]

theorem mapExcept_single {α β ε} (f : α → Except ε β) (xs : List α) :
    mapExcept (fun x => okSingle (f x)) xs =
      (match mapExcept f xs with
       | .error e => (.error e : Except ε (List (List β)))
       | .ok ys => .ok (ys.map fun y => [y])) := by
  induction xs with
  | nil => simp [mapExcept]
  | cons x xs ih =>
    simp only [mapExcept, ih]
    cases hx : f x <;> cases hxs : mapExcept f xs <;> simp [okSingle]

theorem flatten_map_single {β} (ys : List β) : (ys.map fun y => [y]).flatten = ys := by
  induction ys with
  | nil => rfl
  | cons y ys ih => simp [ih]

theorem mapExcept_pure {α β ε} (g : α → β) (xs : List α) :
    mapExcept (fun x => (.ok (g x) : Except ε β)) xs = .ok (xs.map g) := by
  induction xs with
  | nil => rfl
  | cons x xs ih => simp [mapExcept, ih]

theorem flatten_map_toList {α β} (g : α → Option β) (xs : List α) :
    (xs.map fun x => (g x).toList).flatten = xs.filterMap g := by
  induction xs with
  | nil => rfl
  | cons x xs ih => cases h : g x <;> simp [h, ih]

theorem relSpans_mapCoords_eq (v : View) (xs : List (Int × Int)) :
    mapExcept (relSpan v) xs =
      (match mapCoords (fun c => liftErr (relativePosition v c false)) xs with
       | .error e => .error e
       | .ok ys => .ok (if v.step < 0 then ys.map (fun p => (len v - p.1, len v - p.2)) else ys)) := by
  induction xs with
  | nil => simp [mapExcept, mapCoords]
  | cons x xs ih =>
    simp only [mapCoords] at ih ⊢
    simp only [mapExcept, ih, relSpan, relCoord]
    cases h1 : liftErr (relativePosition v x.1 false) <;> cases h2 : liftErr (relativePosition v x.2 false) <;>
      cases h3 : mapExcept _ xs <;> simp <;> split_ifs <;> simp

theorem mapCoords_congr {f g : Int → Except FErr Int} (h : ∀ x, f x = g x) (xs : List (Int × Int)) :
    mapCoords f xs = mapCoords g xs := by
  have : f = g := funext h
  rw [this]

/-- the prelude's `sorted(rows)` is C17's `sortSpans` (same insertion sort on the same order) -/
theorem sortRows_eq (l : List (Int × Int)) : sortRows l = AnnotDb.sortSpans l := by
  induction l with
  | nil => rfl
  | cons p ps ih =>
    simp only [sortRows, AnnotDb.sortSpans, ih]
    generalize AnnotDb.sortSpans ps = m
    induction m with
    | nil => rfl
    | cons q qs ih2 => simp only [insertRow, AnnotDb.insertSorted, rowLe, AnnotDb.pairLe, ih2]; rfl

end CogentModel.C04Gen
