import CogentModel.Proofs.IndelMapSeqSpec
/-! Gaps as triples (sequence position, first column, one-past-last column): the recursive
"scan" view of an `IndelMap`, with dropping / taking of columns.  Pure list reasoning. -/
namespace CogentModel.IndelMap
open CogentModel.Gapped List

abbrev Trip := Int × Int × Int

def trips (prevCum : Int) : List Int → List Int → List Trip
  | p :: ps, c :: cs => (p, p + prevCum, p + c) :: trips c ps cs
  | _, _ => []

def tlen (t : Trip) : Int := t.2.2 - t.2.1

/-- gaps in increasing column order from column `lo` on, each non-empty, separated by ≥ 1 residue -/
def TSorted (lo : Int) : List Trip → Prop
  | (_, s, e) :: r => lo ≤ s ∧ s < e ∧ TSorted (e + 1) r
  | [] => True

/-- consistent bookkeeping: the cursor at column `col` shows residue `next` -/
def TRel (col next : Int) : List Trip → Prop
  | (p, s, e) :: r => s - col = p - next ∧ TRel e p r
  | [] => True

def dropT (start : Int) : List Trip → List Trip
  | (p, s, e) :: r => if e ≤ start then dropT start r else if s ≤ start then (p, start, e) :: r else (p, s, e) :: r
  | [] => []

def takeT (stop : Int) : List Trip → List Trip
  | (p, s, e) :: r => if e ≤ stop then (p, s, e) :: takeT stop r else if s < stop then [(p, s, stop)] else []
  | [] => []

def seqIdxT (col next : Int) : List Trip → Int → Int
  | (p, s, e) :: r, ai => if ai < s then next + (ai - col) else if ai ≤ e then p else seqIdxT e p r ai
  | [], ai => next + (ai - col)

def patT (col next : Int) : List Trip → Int → List Bool
  | (p, s, e) :: r, pl => replicate (s - col).toNat false ++ (replicate (e - s).toNat true ++ patT e p r pl)
  | [], pl => replicate (pl - next).toNat false

theorem trips_sorted (gp : List Int) : ∀ (cum : List Int) (pp pc : Int), Inc pp pc gp cum →
    TSorted (pp + pc + 1) (trips pc gp cum) := by
  induction gp with
  | nil => intro cum pp pc _; cases cum <;> trivial
  | cons p ps ih =>
    intro cum pp pc h
    cases cum with
    | nil => trivial
    | cons c cs =>
      obtain ⟨h1, h2, h3⟩ := h
      refine ⟨by omega, by omega, ?_⟩
      have := ih cs p c h3
      simpa using this

theorem trips_rel (gp : List Int) : ∀ (cum : List Int) (next prevCum : Int),
    TRel (next + prevCum) next (trips prevCum gp cum) := by
  induction gp with
  | nil => intro cum _ _; cases cum <;> trivial
  | cons p ps ih =>
    intro cum next prevCum
    cases cum with
    | nil => trivial
    | cons c cs => exact ⟨by omega, ih cs p c⟩

theorem trips_map_pos (gp : List Int) : ∀ (cum : List Int) (pc : Int), gp.length = cum.length →
    (trips pc gp cum).map (·.1) = gp := by
  induction gp with
  | nil => intro cum pc _; cases cum <;> rfl
  | cons p ps ih =>
    intro cum pc hl
    cases cum with
    | nil => simp at hl
    | cons c cs => simp [trips, ih cs c (by simpa using hl)]

theorem trips_map_start (gp : List Int) : ∀ (cum : List Int) (pc : Int),
    (trips pc gp cum).map (·.2.1) = startsFrom pc gp cum := by
  induction gp with
  | nil => intro cum pc; cases cum <;> rfl
  | cons p ps ih => intro cum pc; cases cum with
    | nil => rfl
    | cons c cs => simp [trips, startsFrom, ih cs c]

theorem trips_map_end (gp : List Int) : ∀ (cum : List Int) (pc : Int),
    (trips pc gp cum).map (·.2.2) = gapEnds gp cum := by
  induction gp with
  | nil => intro cum pc; cases cum <;> rfl
  | cons p ps ih => intro cum pc; cases cum with
    | nil => rfl
    | cons c cs => simp [trips, gapEnds, ih cs c]

theorem trips_map_len (gp : List Int) : ∀ (cum : List Int) (pc : Int), gp.length = cum.length →
    (trips pc gp cum).map tlen = diffsFrom pc cum := by
  induction gp with
  | nil => intro cum pc hl; cases cum with | nil => rfl | cons c cs => simp at hl
  | cons p ps ih =>
    intro cum pc hl
    cases cum with
    | nil => simp at hl
    | cons c cs =>
      simp only [trips, map_cons, diffsFrom, tlen, ih cs c (by simpa using hl)]
      congr 1; omega

theorem trips_length (gp : List Int) : ∀ (cum : List Int) (pc : Int), gp.length = cum.length →
    (trips pc gp cum).length = gp.length := by
  intro cum pc hl
  rw [← List.length_map (f := (·.1)), trips_map_pos gp cum pc hl]

theorem seqIdxT_trips (gp : List Int) : ∀ (cum : List Int) (next prevCum ai : Int),
    seqIdxT (next + prevCum) next (trips prevCum gp cum) ai = seqIdxRec prevCum gp cum ai := by
  induction gp with
  | nil => intro cum next prevCum ai; cases cum <;> simp [trips, seqIdxT, seqIdxRec] <;> omega
  | cons p ps ih =>
    intro cum next prevCum ai
    cases cum with
    | nil => simp [trips, seqIdxT, seqIdxRec]; omega
    | cons c cs =>
      simp only [trips, seqIdxT, seqIdxRec, ih cs p c ai]
      split
      · omega
      · rfl

theorem pattern_seg (a b : Int) : pattern (seg a b) = replicate (b - a).toNat false := by
  simp [pattern, seg, Function.comp_def, List.map_const']

theorem pattern_gapCols (n : Int) : pattern (gapCols n) = replicate n.toNat true := by
  simp [pattern, gapCols]

theorem pattern_absFrom (gp : List Int) : ∀ (cum : List Int) (next prevCum pl : Int),
    pattern (absFrom next prevCum gp cum pl) = patT (next + prevCum) next (trips prevCum gp cum) pl := by
  induction gp with
  | nil => intro cum next prevCum pl; cases cum <;> simp [absFrom, trips, patT, pattern_seg]
  | cons p ps ih =>
    intro cum next prevCum pl
    cases cum with
    | nil => simp [absFrom, trips, patT, pattern_seg]
    | cons c cs =>
      have := ih cs p c pl
      simp only [pattern] at this ⊢
      simp only [absFrom, trips, patT, map_append, this]
      have e1 := pattern_seg next p
      have e2 := pattern_gapCols (c - prevCum)
      simp only [pattern] at e1 e2
      rw [e1, e2, List.append_assoc]
      have a1 : p + prevCum - (next + prevCum) = p - next := by omega
      have a2 : p + c - (p + prevCum) = c - prevCum := by omega
      rw [a1, a2]

theorem drop_rep_append {α} (k n : Nat) (a : α) (l : List α) :
    drop k (replicate n a ++ l) = replicate (n - k) a ++ drop (k - n) l := by
  rw [drop_append, drop_replicate, length_replicate]

theorem take_rep_append {α} (k n : Nat) (a : α) (l : List α) :
    take k (replicate n a ++ l) = replicate (min k n) a ++ take (k - n) l := by
  rw [take_append, take_replicate, length_replicate]

theorem tsorted_mono : ∀ (T : List Trip) (lo lo' : Int), lo' ≤ lo → TSorted lo T → TSorted lo' T := by
  intro T lo lo' h hs
  cases T with
  | nil => trivial
  | cons t r => obtain ⟨p, s, e⟩ := t; exact ⟨by have := hs.1; omega, hs.2.1, hs.2.2⟩

theorem seqIdxT_at_col (T : List Trip) (col next : Int) (h : TSorted (col + 1) T) :
    seqIdxT col next T col = next := by
  cases T with
  | nil => simp [seqIdxT]
  | cons t r =>
    obtain ⟨p, s, e⟩ := t
    have := h.1
    simp only [seqIdxT]
    rw [if_pos (by omega)]; omega

theorem drop_patT (T : List Trip) : ∀ (col next pl start : Int), TSorted col T → col ≤ start →
    drop (start - col).toNat (patT col next T pl) =
      patT start (seqIdxT col next T start) (dropT start T) pl := by
  induction T with
  | nil =>
    intro col next pl start _ h
    simp only [patT, dropT, seqIdxT, drop_replicate]
    congr 1; omega
  | cons t r ih =>
    intro col next pl start hs h
    obtain ⟨p, s, e⟩ := t
    obtain ⟨h1, h2, h3⟩ := hs
    simp only [patT, dropT, seqIdxT]
    rw [drop_rep_append, drop_rep_append]
    by_cases c1 : e ≤ start
    · have ihh := ih e p pl start (tsorted_mono _ _ _ (by omega) h3) c1
      rw [if_pos c1, if_neg (by omega)]
      have a1 : (s - col).toNat - (start - col).toNat = 0 := by omega
      have a2 : (e - s).toNat - ((start - col).toNat - (s - col).toNat) = 0 := by omega
      have a3 : (start - col).toNat - (s - col).toNat - (e - s).toNat = (start - e).toNat := by omega
      rw [a1, a2, a3, ihh]
      simp only [replicate_zero, nil_append]
      by_cases c2 : start ≤ e
      · have : start = e := by omega
        subst this
        rw [if_pos c2, seqIdxT_at_col r start p h3]
      · rw [if_neg c2]
    · rw [if_neg c1]
      by_cases c2 : s ≤ start
      · rw [if_pos c2, if_neg (by omega), if_pos (by omega)]
        simp only [patT]
        have a1 : (s - col).toNat - (start - col).toNat = 0 := by omega
        have a2 : (e - s).toNat - ((start - col).toNat - (s - col).toNat) = (e - start).toNat := by omega
        have a3 : (start - col).toNat - (s - col).toNat - (e - s).toNat = 0 := by omega
        have a4 : (start - start).toNat = 0 := by omega
        rw [a1, a2, a3, a4]; simp
      · rw [if_neg c2, if_pos (by omega)]
        simp only [patT]
        have a1 : (s - col).toNat - (start - col).toNat = (s - start).toNat := by omega
        have a2 : (start - col).toNat - (s - col).toNat = 0 := by omega
        rw [a1, a2]; simp

/-- last column of the string: cursor at `col` shows `next`, parent has `pl` residues -/
def endColT (col next : Int) : List Trip → Int → Int
  | (p, _, e) :: r, pl => endColT e p r pl
  | [], pl => col + (pl - next)

theorem take_patT (T : List Trip) : ∀ (col next pl stop : Int), TSorted col T → TRel col next T →
    col ≤ stop → stop ≤ endColT col next T pl →
    take (stop - col).toNat (patT col next T pl) =
      patT col next (takeT stop T) (seqIdxT col next T stop) := by
  induction T with
  | nil =>
    intro col next pl stop _ _ h he
    simp only [patT, takeT, seqIdxT, take_replicate, endColT] at *
    congr 1; omega
  | cons t r ih =>
    intro col next pl stop hs hr h he
    obtain ⟨p, s, e⟩ := t
    obtain ⟨h1, h2, h3⟩ := hs
    obtain ⟨r1, r2⟩ := hr
    simp only [endColT] at he
    simp only [patT, takeT, seqIdxT]
    rw [take_rep_append, take_rep_append]
    by_cases c1 : e ≤ stop
    · have ihh := ih e p pl stop (tsorted_mono _ _ _ (by omega) h3) r2 c1 he
      rw [if_pos c1, if_neg (by omega)]
      simp only [patT]
      have a1 : min (stop - col).toNat (s - col).toNat = (s - col).toNat := by omega
      have a2 : min ((stop - col).toNat - (s - col).toNat) (e - s).toNat = (e - s).toNat := by omega
      have a3 : (stop - col).toNat - (s - col).toNat - (e - s).toNat = (stop - e).toNat := by omega
      rw [a1, a2, a3, ihh]
      by_cases c2 : stop ≤ e
      · have : stop = e := by omega
        subst this
        rw [if_pos c2, seqIdxT_at_col r stop p h3]
      · rw [if_neg c2]
    · rw [if_neg c1]
      by_cases c2 : s < stop
      · rw [if_pos c2, if_neg (by omega), if_pos (by omega)]
        simp only [patT]
        have a1 : min (stop - col).toNat (s - col).toNat = (s - col).toNat := by omega
        have a2 : min ((stop - col).toNat - (s - col).toNat) (e - s).toNat = (stop - s).toNat := by omega
        have a3 : (stop - col).toNat - (s - col).toNat - (e - s).toNat = 0 := by omega
        have a4 : (p - p).toNat = 0 := by omega
        rw [a1, a2, a3, a4]; simp
      · rw [if_neg c2]
        simp only [patT]
        have a1 : min (stop - col).toNat (s - col).toNat = (stop - col).toNat := by omega
        have a2 : min ((stop - col).toNat - (s - col).toNat) (e - s).toNat = 0 := by omega
        have a3 : (stop - col).toNat - (s - col).toNat - (e - s).toNat = 0 := by omega
        rw [a1, a2, a3]
        simp only [replicate_zero, nil_append, take_zero, append_nil]
        congr 1
        by_cases c3 : stop < s
        · rw [if_pos c3]; omega
        · rw [if_neg c3, if_pos (by omega)]; omega

theorem seqIdxT_comp (T : List Trip) : ∀ (col next start stop : Int), TSorted col T →
    col ≤ start → start ≤ stop →
    seqIdxT start (seqIdxT col next T start) (dropT start T) stop = seqIdxT col next T stop := by
  induction T with
  | nil => intro col next start stop _ _ _; simp only [seqIdxT, dropT]; omega
  | cons t r ih =>
    intro col next start stop hs h hle
    obtain ⟨p, s, e⟩ := t
    obtain ⟨h1, h2, h3⟩ := hs
    by_cases c1 : e ≤ start
    · have ihh := ih e p start stop (tsorted_mono _ _ _ (by omega) h3) c1 hle
      have e1 : seqIdxT col next ((p, s, e) :: r) start = seqIdxT e p r start := by
        simp only [seqIdxT]
        rw [if_neg (by omega)]
        by_cases c2 : start ≤ e
        · have : start = e := by omega
          subst this; rw [if_pos c2, seqIdxT_at_col r start p h3]
        · rw [if_neg c2]
      have e2 : seqIdxT col next ((p, s, e) :: r) stop = seqIdxT e p r stop := by
        simp only [seqIdxT]
        rw [if_neg (by omega)]
        by_cases c2 : stop ≤ e
        · have : stop = e := by omega
          subst this; rw [if_pos c2, seqIdxT_at_col r stop p h3]
        · rw [if_neg c2]
      rw [e1, e2]
      simp only [dropT, if_pos c1]
      exact ihh
    · by_cases c2 : s ≤ start
      · simp only [dropT, if_neg c1, if_pos c2, seqIdxT]
        rw [if_neg (show ¬ start < s by omega), if_pos (show start ≤ e by omega)]
        rw [if_neg (show ¬ stop < start by omega), if_neg (show ¬ stop < s by omega)]
      · simp only [dropT, if_neg c1, if_neg c2, seqIdxT]
        rw [if_pos (show start < s by omega)]
        by_cases c3 : stop < s
        · rw [if_pos c3, if_pos c3]; omega
        · rw [if_neg c3, if_neg c3]

theorem dropT_sorted (T : List Trip) : ∀ (col start : Int), TSorted col T → col ≤ start →
    TSorted start (dropT start T) := by
  induction T with
  | nil => intro _ _ _ _; trivial
  | cons t r ih =>
    intro col start hs h
    obtain ⟨p, s, e⟩ := t
    obtain ⟨h1, h2, h3⟩ := hs
    simp only [dropT]
    by_cases c1 : e ≤ start
    · rw [if_pos c1]; exact ih (e + 1) start h3 |> fun f => by
        by_cases c : e + 1 ≤ start
        · exact f c
        · have : start = e := by omega
          subst this
          cases r with
          | nil => trivial
          | cons t' r' =>
            obtain ⟨p', s', e'⟩ := t'
            simp only [dropT]
            rw [if_neg (by have := h3.1; have := h3.2.1; omega), if_neg (by have := h3.1; omega)]
            exact ⟨by have := h3.1; omega, h3.2.1, h3.2.2⟩
    · rw [if_neg c1]
      by_cases c2 : s ≤ start
      · rw [if_pos c2]; exact ⟨by omega, by omega, h3⟩
      · rw [if_neg c2]; exact ⟨by omega, h2, h3⟩

theorem takeT_sorted (T : List Trip) : ∀ (col stop : Int), TSorted col T → TSorted col (takeT stop T) := by
  induction T with
  | nil => intro _ _ _; trivial
  | cons t r ih =>
    intro col stop hs
    obtain ⟨p, s, e⟩ := t
    obtain ⟨h1, h2, h3⟩ := hs
    simp only [takeT]
    by_cases c1 : e ≤ stop
    · rw [if_pos c1]; exact ⟨h1, h2, ih _ _ h3⟩
    · rw [if_neg c1]
      by_cases c2 : s < stop
      · rw [if_pos c2]; exact ⟨h1, c2, trivial⟩
      · rw [if_neg c2]; trivial

theorem takeT_rel (T : List Trip) : ∀ (col next stop : Int), TRel col next T → TRel col next (takeT stop T) := by
  induction T with
  | nil => intro _ _ _ _; trivial
  | cons t r ih =>
    intro col next stop hr
    obtain ⟨p, s, e⟩ := t
    obtain ⟨r1, r2⟩ := hr
    simp only [takeT]
    by_cases c1 : e ≤ stop
    · rw [if_pos c1]; exact ⟨r1, ih _ _ _ r2⟩
    · rw [if_neg c1]
      by_cases c2 : s < stop
      · rw [if_pos c2]; exact ⟨r1, trivial⟩
      · rw [if_neg c2]; trivial

theorem dropT_rel (T : List Trip) : ∀ (col next start : Int), TSorted col T → TRel col next T → col ≤ start →
    TRel start (seqIdxT col next T start) (dropT start T) := by
  induction T with
  | nil => intro _ _ _ _ _ _; trivial
  | cons t r ih =>
    intro col next start hs hr h
    obtain ⟨p, s, e⟩ := t
    obtain ⟨h1, h2, h3⟩ := hs
    obtain ⟨r1, r2⟩ := hr
    simp only [dropT, seqIdxT]
    by_cases c1 : e ≤ start
    · rw [if_pos c1, if_neg (by omega)]
      have ihh := ih e p start (tsorted_mono _ _ _ (by omega) h3) r2 c1
      by_cases c2 : start ≤ e
      · have : start = e := by omega
        subst this
        rw [if_pos c2]
        rw [seqIdxT_at_col r start p h3] at ihh; exact ihh
      · rw [if_neg c2]; exact ihh
    · rw [if_neg c1]
      by_cases c2 : s ≤ start
      · rw [if_pos c2, if_neg (by omega), if_pos (by omega)]
        exact ⟨by omega, r2⟩
      · rw [if_neg c2, if_pos (by omega)]
        exact ⟨by omega, r2⟩

def shiftT (a b : Int) (t : Trip) : Trip := (t.1 - b, t.2.1 - a, t.2.2 - a)

theorem patT_shift (T : List Trip) : ∀ (col next pl a b : Int),
    patT (col - a) (next - b) (T.map (shiftT a b)) (pl - b) = patT col next T pl := by
  induction T with
  | nil => intro col next pl a b; simp only [map_nil, patT]; congr 1; omega
  | cons t r ih =>
    intro col next pl a b
    obtain ⟨p, s, e⟩ := t
    simp only [map_cons, shiftT, patT, ih]
    have a1 : s - a - (col - a) = s - col := by omega
    have a2 : e - a - (s - a) = e - s := by omega
    rw [a1, a2]

/-- the arrays `IndelMap.__getitem__` builds (shifted positions, cumulative sum of the lengths)
denote the shifted triples -/
theorem trips_of_result (T : List Trip) : ∀ (col next pc a b : Int), TRel col next T →
    col - a = next - b + pc →
    trips pc (T.map (·.1 - b)) (cumsumFrom pc (T.map tlen)) = T.map (shiftT a b) := by
  induction T with
  | nil => intro _ _ _ _ _ _ _; rfl
  | cons t r ih =>
    intro col next pc a b hr h
    obtain ⟨p, s, e⟩ := t
    obtain ⟨r1, r2⟩ := hr
    simp only [map_cons, cumsumFrom, trips, shiftT, tlen]
    rw [ih e p (pc + (e - s)) a b r2 (by omega)]
    congr 1
    · simp only [Prod.mk.injEq, true_and]; constructor <;> omega

theorem dropT_of_lt (T : List Trip) (start : Int) (h : TSorted (start + 1) T) : dropT start T = T := by
  cases T with
  | nil => rfl
  | cons t r =>
    obtain ⟨p, s, e⟩ := t
    obtain ⟨h1, h2, _⟩ := h
    simp only [dropT]
    rw [if_neg (by omega), if_neg (by omega)]

/-- every gap that survives dropping then taking comes from an original gap that overlaps the window -/
theorem mem_take_drop (T : List Trip) : ∀ (col start stop : Int) (t : Trip), TSorted col T → start < stop →
    t ∈ takeT stop (dropT start T) →
    ∃ t0 ∈ T, t0.1 = t.1 ∧ start < t0.2.2 ∧ t0.2.1 < stop ∧ start ≤ t.2.1 ∧ t.2.1 < t.2.2 ∧ t.2.2 ≤ stop := by
  induction T with
  | nil => intro _ _ _ t _ _ h; simp [dropT, takeT] at h
  | cons t0 r ih =>
    intro col start stop t hs hlt hm
    obtain ⟨p, s, e⟩ := t0
    obtain ⟨h1, h2, h3⟩ := hs
    simp only [dropT] at hm
    by_cases c1 : e ≤ start
    · rw [if_pos c1] at hm
      obtain ⟨t0, ht0, hh⟩ := ih (e + 1) start stop t h3 hlt hm
      exact ⟨t0, mem_cons_of_mem _ ht0, hh⟩
    · rw [if_neg c1] at hm
      -- the remaining list is (p, s', e) :: r with s' = max s start; all later gaps are whole
      have key : ∀ (s' : Int), start ≤ s' → s ≤ s' → s' < e → t ∈ takeT stop ((p, s', e) :: r) →
          ∃ t0 ∈ (p, s, e) :: r, t0.1 = t.1 ∧ start < t0.2.2 ∧ t0.2.1 < stop ∧ start ≤ t.2.1 ∧ t.2.1 < t.2.2 ∧ t.2.2 ≤ stop := by
        intro s' hs1 hs2 hs3 hm'
        simp only [takeT] at hm'
        by_cases d1 : e ≤ stop
        · rw [if_pos d1] at hm'
          rcases mem_cons.mp hm' with rfl | hm''
          · exact ⟨(p, s, e), by simp, rfl, by simp only; omega, by simp only; omega, hs1, hs3, d1⟩
          · -- later gaps: untouched by dropT because they start after e > start
            have hr : dropT start r = r := dropT_of_lt r start (tsorted_mono _ _ _ (by omega) h3)
            rw [← hr] at hm''
            obtain ⟨t0, ht0, hh⟩ := ih (e + 1) start stop t h3 hlt hm''
            exact ⟨t0, mem_cons_of_mem _ ht0, hh⟩
        · rw [if_neg d1] at hm'
          by_cases d2 : s' < stop
          · rw [if_pos d2] at hm'
            simp only [mem_singleton] at hm'
            subst hm'
            exact ⟨(p, s, e), by simp, rfl, by simp only; omega, by simp only; omega, hs1, d2, by simp⟩
          · rw [if_neg d2] at hm'; simp at hm'
      by_cases c2 : s ≤ start
      · rw [if_pos c2] at hm; exact key start (by omega) c2 (by omega) hm
      · rw [if_neg c2] at hm; exact key s (by omega) (by omega) h2 hm

/-- positions strictly increase along sorted, consistent triples -/
theorem trel_pos_lt (T : List Trip) : ∀ (col next : Int), TSorted (col + 1) T → TRel col next T →
    (T.map (·.1)).Pairwise (· < ·) ∧ ∀ t ∈ T, next < t.1 := by
  induction T with
  | nil => intro _ _ _ _; simp
  | cons t r ih =>
    intro col next hs hr
    obtain ⟨p, s, e⟩ := t
    obtain ⟨h1, h2, h3⟩ := hs
    obtain ⟨r1, r2⟩ := hr
    obtain ⟨i1, i2⟩ := ih e p h3 r2
    refine ⟨?_, ?_⟩
    · simp only [map_cons, pairwise_cons]
      refine ⟨?_, i1⟩
      intro q hq
      obtain ⟨t', ht', rfl⟩ := mem_map.mp hq
      exact i2 t' ht'
    · intro t' ht'
      rcases mem_cons.mp ht' with rfl | h'
      · simp only; omega
      · have := i2 t' h'; omega

end CogentModel.IndelMap
