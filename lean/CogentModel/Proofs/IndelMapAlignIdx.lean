import CogentModel.Proofs.IndelMapSliceSpec
namespace CogentModel.IndelMap
open CogentModel.Gapped List CogentModel

/-- recursive scan: alignment column of residue `k` (a gap inserted at `k` comes before it) -/
def alignRec (prevCum : Int) : List Int → List Int → Int → Int
  | p :: ps, c :: cs, k => if k < p then k + prevCum else alignRec c ps cs k
  | _, _, k => k + prevCum

/-- the same for a slice stop: a gap inserted at `k` is not included -/
def alignRecStop (prevCum : Int) : List Int → List Int → Int → Int
  | p :: ps, c :: cs, k => if k ≤ p then k + prevCum else alignRecStop c ps cs k
  | _, _, k => k + prevCum

theorem alignRecStop_eq (gp : List Int) : ∀ (cum : List Int) (pc k : Int),
    alignRecStop pc gp cum k = alignRec pc gp cum (k - 1) + 1 := by
  induction gp with
  | nil => intro cum pc k; cases cum <;> simp [alignRecStop, alignRec] <;> omega
  | cons p ps ih =>
    intro cum pc k
    cases cum with
    | nil => simp [alignRecStop, alignRec]; omega
    | cons c cs =>
      simp only [alignRecStop, alignRec, ih cs c k]
      by_cases h : k ≤ p
      · rw [if_pos h, if_pos (by omega)]; omega
      · rw [if_neg h, if_neg (by omega)]

/-- the index-arithmetic body of `get_align_index` (no `slice_stop` match), generalised -/
def aiCore (prevCum : Int) (gp cum : List Int) (k : Int) : Int :=
  if k ≥ lastD gp then k + lastD cum else
  if k < getN gp (ssLeft gp k) then k + (if ssLeft gp k = 0 then prevCum else getN cum (ssLeft gp k - 1))
  else k + getN cum (ssLeft gp k)

theorem aiCore_eq_rec (ps : List Int) : ∀ (p c : Int) (cs : List Int) (pp prevCum k : Int),
    Inc pp prevCum (p :: ps) (c :: cs) →
    aiCore prevCum (p :: ps) (c :: cs) k = alignRec prevCum (p :: ps) (c :: cs) k := by
  induction ps with
  | nil =>
    intro p c cs pp prevCum k h
    obtain ⟨h1, h2, h3⟩ := h
    cases cs with
    | cons _ _ => simp [Inc] at h3
    | nil =>
      simp only [aiCore, lastD, ssLeft, alignRec]
      by_cases c1 : k ≥ p
      · have a1 : ¬ k < p := by omega
        simp only [c1, if_true, a1, if_false]
      · have a1 : k < p := by omega
        have a2 : ¬ p < k := by omega
        simp only [c1, if_false, a2, getN_cons_zero, a1, if_true]
  | cons p' ps ih =>
    intro p c cs pp prevCum k h
    obtain ⟨h1, h2, h3⟩ := h
    cases cs with
    | nil => simp [Inc] at h3
    | cons c' cs =>
      have ihh := ih p' c' cs p c k h3
      have hp' : p < p' := h3.1
      have hlast : p' ≤ lastD (p' :: ps) := by
        have hpw : (p' :: ps).Pairwise (· < ·) := by
          -- positions of an `Inc` list increase
          have : ∀ (gp cum : List Int) (a b : Int), Inc a b gp cum → gp.Pairwise (· < ·) ∧ ∀ x ∈ gp, a < x := by
            intro gp
            induction gp with
            | nil => intro cum a b _; simp
            | cons q qs ihq =>
              intro cum a b hh
              cases cum with
              | nil => simp [Inc] at hh
              | cons d ds =>
                obtain ⟨g1, g2, g3⟩ := hh
                obtain ⟨j1, j2⟩ := ihq ds q d g3
                refine ⟨pairwise_cons.mpr ⟨j2, j1⟩, ?_⟩
                intro x hx
                rcases mem_cons.mp hx with rfl | hx'
                · exact g1
                · have := j2 x hx'; omega
          exact (this _ _ _ _ h3).1
        exact pairwise_le_lastD _ hpw p' (by simp)
      simp only [alignRec] at ihh ⊢
      simp only [aiCore, lastD_cons_cons, ssLeft] at ihh ⊢
      by_cases hbig : k ≥ lastD (p' :: ps)
      · have a1 : ¬ k < p := by omega
        simp only [hbig, if_true, a1, if_false] at ihh ⊢
        exact ihh
      · simp only [hbig, if_false] at ihh ⊢
        by_cases hlt : p < k
        · have a1 : ¬ k < p := by omega
          simp only [hlt, if_true, getN_cons_succ, Nat.add_sub_cancel, Nat.succ_ne_zero, if_false, a1]
          rw [← ihh]
          by_cases hk : (if p' < k then ssLeft ps k + 1 else 0) = 0
          · simp only [hk, getN_cons_zero, if_true]
          · obtain ⟨j, hj⟩ : ∃ j, (if p' < k then ssLeft ps k + 1 else 0) = j + 1 :=
              ⟨_, (Nat.succ_pred_eq_of_ne_zero hk).symm⟩
            simp only [hj, getN_cons_succ, Nat.succ_ne_zero, if_false, Nat.add_sub_cancel]
        · simp only [hlt, if_false, getN_cons_zero, if_true]
          by_cases hkp : k < p
          · simp only [hkp, if_true]
          · have : k = p := by omega
            subst this
            have a2 : k < p' := hp'
            simp only [hkp, if_false, a2, if_true]

end CogentModel.IndelMap
