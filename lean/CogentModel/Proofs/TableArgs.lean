import CogentModel.Gen.C20Args
import CogentModel.Model.TableArgs
import CogentModel.Model.TableOps
/-! # C20 — the TRANSLATED argument resolution of `Table.sorted` / `inner_join` / `joined` equals the hand model

`Gen/C20Args.lean` is rewritten from cogent3's current source text on every run; the theorems below are
re-checked against it, so a semantic edit of the translated statements breaks a proof. -/
set_option linter.unusedSimpArgs false
namespace CogentModel.TableArgs
open CogentModel.Gen

theorem ite_ok {ε α : Type} (p : Prop) [Decidable p] (a b : α) :
    (if p then (Except.ok a : Except ε α) else .ok b) = .ok (if p then a else b) := by split <;> rfl
theorem map_ite {ε α β : Type} (f : α → β) (p : Prop) [Decidable p] (x y : Except ε α) :
    Except.map f (if p then x else y) = if p then Except.map f x else Except.map f y := by split <;> rfl
theorem map_ok' {ε α β : Type} (f : α → β) (a : α) : Except.map f (Except.ok a : Except ε α) = .ok (f a) := rfl
theorem map_err' {ε α β : Type} (f : α → β) (e : ε) : Except.map f (Except.error e : Except ε α) = .error e := rfl

/-- the loop body of `sorted` (`for c in reverse: if c in columns: continue; columns.append(c)`) as the
translator emits it -/
def loopStep (columns : PV) (c : String) : Except String PV := do
          if PV.isNone columns then throw "TypeError" else
          if (PV.contains columns c) then
            pure columns
          else
            let columns : PV := PV.append columns c
            pure columns

theorem loopStep_list (cols : List String) (c : String) :
    loopStep (.list cols) c = .ok (.list (if cols.contains c then cols else cols ++ [c])) := by
  by_cases h : c ∈ cols <;> simp [loopStep, PV.isNone, PV.contains, PV.append, h, pure, Except.pure]

theorem foldl_appendMissing (rev : List String) (cols : List String) :
    List.foldlM loopStep (PV.list cols) rev = .ok (PV.list (appendMissing cols rev)) := by
  induction rev generalizing cols with
  | nil => rfl
  | cons c rest ih =>
    rw [List.foldlM_cons, loopStep_list, appendMissing]
    exact ih _

/-- generated `sorted` prefix = hand model, for ALL headers, keyword names and arguments -/
theorem gen_sortedColumns_eq (h kw : List String) (c r : PV) :
    C20Args.sortedColumns h kw c r =
      if kw.contains "reversed" then .error "TypeError"
      else .ok (PV.list (sortArgs h c r).1, (sortArgs h c r).2) := by
  unfold C20Args.sortedColumns
  rw [show (fun (columns : PV) c => (do
          if PV.isNone columns then throw "TypeError" else
          if (PV.contains columns c) then
            pure columns
          else
            let columns : PV := PV.append columns c
            pure columns : Except String PV)) = loopStep from rfl]
  by_cases hk : "reversed" ∈ kw
  · simp [hk, throw, throwThe, MonadExceptOf.throw]
  · cases c <;> cases r
    all_goals (try (rename_i l; by_cases hl : l = []))
    all_goals simp [*, sortArgs, PV.isNone, PV.isStr, PV.single, PV.toList, PV.iter, PV.truthy, PV.names?, setInter,
      foldl_appendMissing, loopStep_list, pure, Except.pure, bind, Except.bind, ite_ok]
    all_goals (try (split <;> simp_all [appendMissing]))

/-- generated `inner_join` prefix = hand model (names of the key columns, `output_mask`, the exception) -/
theorem gen_joinKeys_eq (sc oc : List String) (si oi : Option String) (cs co : PV) (ui : Bool) :
    (C20Args.joinKeys sc oc si oi cs co ui).map (fun r => (r.1.iter, r.2.1.iter, r.2.2))
      = joinKeysH sc oc si oi cs co ui := by
  unfold C20Args.joinKeys joinKeysH
  have hf : List.filter (fun c => decide (c ∈ sc) && decide (c ∈ oc)) sc = List.filter (fun x => decide (x ∈ oc)) sc := by
    apply List.filter_congr; intro x hx; simp [hx]
  rcases cs with _ | s | l | l <;> rcases co with _ | s' | l' | l' <;> cases ui
  case none.none.true =>
    rcases si with _ | si <;> rcases oi with _ | oi
    all_goals (try (by_cases h1 : si = ""))
    all_goals (try (by_cases h2 : oi = ""))
    all_goals simp [*, optTruthy, PV.isNone, PV.isStr, PV.single, PV.toList, PV.iter, PV.truthy, PV.names?, PV.getKeys,
      PV.or, PV.len, PV.contains, PV.singleOpt, setInter, pure, Except.pure, bind, Except.bind, ite_ok, map_ite, map_ok',
      map_err', throw, throwThe, MonadExceptOf.throw]
  all_goals (try (rcases l with _ | ⟨a, l⟩))
  all_goals (try (rcases l' with _ | ⟨a', l'⟩))
  all_goals (try (by_cases hs : s = ""))
  all_goals (try (by_cases hs' : s' = ""))
  all_goals simp [*, optTruthy, PV.isNone, PV.isStr, PV.single, PV.toList, PV.iter, PV.truthy, PV.names?, PV.getKeys,
    PV.or, PV.len, PV.contains, PV.singleOpt, setInter, pure, Except.pure, bind, Except.bind, ite_ok, map_ite, map_ok',
    map_err', throw, throwThe, MonadExceptOf.throw]
  all_goals (try (split <;> simp_all [PV.iter]))

/-- generated `joined` = hand model -/
theorem gen_joinedCall_eq (cs co : PV) (ij : Bool) (p : String) :
    C20Args.joinedCall cs co ij p = joinedCallH cs co ij p := by
  unfold C20Args.joinedCall joinedCallH
  cases ij <;> cases cs <;> cases co <;> simp [PV.isNone, pure, Except.pure, throw, throwThe, MonadExceptOf.throw]

/-! ## the hand model against the column-list logic of `Model/TableOps.lean` (`sortColumns`, `naturalKeys`) -/

theorem appendMissing_eq_filter (cols rev : List String) (hn : rev.Nodup) :
    appendMissing cols rev = cols ++ rev.filter (fun c => !cols.contains c) := by
  induction rev generalizing cols with
  | nil => simp [appendMissing]
  | cons c rest ih =>
    have hc : c ∉ rest := (List.nodup_cons.1 hn).1
    have hr := (List.nodup_cons.1 hn).2
    rw [appendMissing, ih _ hr]
    by_cases h : c ∈ cols
    · simp [h]
    · simp only [List.contains_eq_mem, h, decide_false, Bool.false_eq_true, ↓reduceIte, Bool.not_false,
        List.filter_cons_of_pos, List.append_assoc, List.singleton_append, List.mem_append, List.mem_singleton]
      congr 2
      apply List.filter_congr
      intro x hx
      have : x ≠ c := fun e => hc (e ▸ hx)
      simp [this]

/-- the hand model of the `sorted` arguments is the `sortColumns` of the table model, whenever `reverse` names no
column twice and is not the empty TUPLE together with `columns=None` (`() != []` in python: see `sort_args_empty_tuple`) -/
theorem sortArgs_eq_sortColumns (h : List String) (c r : PV) (hn : ((r.names?).getD []).Nodup)
    (ht : ¬ (c = .none ∧ r = .tup [])) :
    (sortArgs h c r).1 = TableOps.sortColumns h c.names? ((r.names?).getD []) := by
  unfold sortArgs TableOps.sortColumns
  cases c <;> cases r
  all_goals (try (rename_i l; by_cases hl : l = []))
  all_goals simp_all [PV.names?, PV.isStr, PV.single, PV.truthy, PV.iter, appendMissing_eq_filter]
  all_goals (try (split <;> simp_all))

end CogentModel.TableArgs
