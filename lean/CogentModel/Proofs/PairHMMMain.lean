/-
  C18 helper lemmas, part 5: the statements about `viterbiGlobal` itself and about the gapped rows.
-/
import CogentModel.Proofs.PairHMMTrace
namespace CogentModel.PairHMM
set_option linter.unusedSectionVars false
set_option linter.unusedVariables false

variable {S : Type} [Add S] [LT S] [DecidableLT S]

/-- `traceFrom` only reads rows `≤ i` of the table -/
theorem traceFrom_congr (h : HMM S) (t1 t2 : Nat → Nat → Cell S) (f : Nat) :
    ∀ (i j s : Nat) (acc : List (Nat × Nat × Nat)), (∀ a b, a ≤ i → t1 a b = t2 a b) →
      traceFrom h t1 f i j s acc = traceFrom h t2 f i j s acc := by
  induction f with
  | zero => intros; rfl
  | succ f ih =>
    intro i j s acc hagree
    simp only [traceFrom]
    split
    · rfl
    · split
      · rfl
      · rw [hagree i j (Nat.le_refl _)]
        exact ih _ _ _ _ (fun a b ha => hagree a b (by omega))

variable [ScoreLaws S]

/-- the global traceback: a finite DP value comes with a returned path that is a global path of the two
sequences and whose spec score is that value -/
theorem global_attained (h : HMM S) (hns : NoSilent h) (n m : Nat) (v : S)
    (hv : (viterbiGlobal h n m).score = some v) :
    ∃ p, (viterbiGlobal h n m).path = some (annotate h 0 0 p) ∧ IsGlobalPath h n m p ∧
      globalScore h p = some v := by
  simp only [viterbiGlobal] at hv ⊢
  rw [traceFrom_congr h (look (tableOf h false n m)) (V h false m) (n + m + 1) n m _ []
    (fun a b ha => look_tableOf h false n m a b ha)]
  rw [look_tableOf h false n m n m (Nat.le_refl _)] at hv ⊢
  simp only [globalEnd] at hv ⊢
  rcases bestPrev_cases h.T h.endId (V h false m n m) 1
      (if (n == 0 && m == 0) = true then (h.T 0 h.endId, 0) else (none, h.errId)) with hr | ⟨q, hq, hr⟩
  · rw [hr] at hv ⊢
    by_cases h0 : (n == 0 && m == 0) = true
    · simp only [if_pos h0] at hv ⊢
      have hn : n = 0 := by simp at h0; exact h0.1
      have hm : m = 0 := by simp at h0; exact h0.2
      subst hn; subst hm
      exact ⟨[], by simp [traceFrom, annotate], ⟨by intro x hx; simp at hx, rfl⟩, hv⟩
    · simp only [if_neg h0] at hv; simp at hv
  · rw [hr] at hv ⊢
    simp only at hv ⊢
    obtain ⟨w, hw⟩ := eadd_some_left hv
    have hlen := V_length h false m n m (Nat.le_refl _)
    have hq1 : 1 ≤ 1 + q := by omega
    have hqk : 1 + q ≤ h.k := by omega
    have hvq : val h false m n m (1 + q) = some w := by
      rw [← val_getElem h false m n m (1 + q) (Nat.le_refl _) hq1 hqk (by simpa using hq)]
      simpa using hw
    obtain ⟨p, i0, j0, htr, sp⟩ := trace_ok h false m hns (n + m) n m (1 + q) w [] (n + m + 1) rfl
      (Nat.le_refl _) hq1 hqk hvq (Nat.le_refl _)
    have hstart := sp.start
    simp [canStart] at hstart
    obtain ⟨rfl, rfl⟩ := hstart
    refine ⟨p, by simpa using htr, ⟨sp.states, sp.consumed⟩, ?_⟩
    obtain ⟨a, p', rfl⟩ : ∃ a p', p = a :: p' := by
      cases p with
      | nil => exact absurd rfl sp.nonempty
      | cons a p' => exact ⟨a, p', rfl⟩
    simp only [globalScore, sp.score, sp.last]
    have : (V h false m n m)[q].1 = some w := by simpa using hw
    rw [this] at hv
    exact hv

/-! ### rows -/

theorem rows_len (h : HMM S) {α : Type} (s1 s2 : List α) (steps : List (Nat × Nat × Nat)) :
    (rowsOfPath h s1 s2 steps).1.length = steps.length ∧ (rowsOfPath h s1 s2 steps).2.length = steps.length := by
  induction steps with
  | nil => exact ⟨rfl, rfl⟩
  | cons x r ih => obtain ⟨s, i, j⟩ := x; simp [rowsOfPath, ih.1, ih.2]

theorem drop_take_succ {α : Type} (l : List α) (i n : Nat) (hi : i < l.length) :
    (l.drop i).take (n + 1) = l[i] :: (l.drop (i + 1)).take n := by
  rw [List.drop_eq_getElem_cons hi]; rfl

theorem rows_degap (h : HMM S) {α : Type} (s1 s2 : List α) (p : List Nat) :
    ∀ (i0 j0 : Nat), (consumedFrom h i0 j0 p).1 ≤ s1.length → (consumedFrom h i0 j0 p).2 ≤ s2.length →
      (rowsOfPath h s1 s2 (annotate h i0 j0 p)).1.filterMap id = (s1.drop i0).take ((consumedFrom h i0 j0 p).1 - i0) ∧
      (rowsOfPath h s1 s2 (annotate h i0 j0 p)).2.filterMap id = (s2.drop j0).take ((consumedFrom h i0 j0 p).2 - j0) := by
  induction p with
  | nil => intro i0 j0 _ _; simp [annotate, rowsOfPath, consumedFrom]
  | cons s p ih =>
    intro i0 j0 h1 h2
    simp only [consumedFrom] at h1 h2 ⊢
    have hm := consumed_mono h (i0 + (h.dir s).1.toNat) (j0 + (h.dir s).2.toNat) p
    have ih' := ih (i0 + (h.dir s).1.toNat) (j0 + (h.dir s).2.toNat) h1 h2
    simp only [annotate, rowsOfPath]
    constructor
    · cases hdx : (h.dir s).1
      · simp only [hdx, Bool.toNat_false, Nat.add_zero] at ih' hm ⊢
        simp [ih'.1]
      · simp only [hdx, Bool.toNat_true] at ih' hm h1 ⊢
        have hi : i0 < s1.length := by omega
        have e : (consumedFrom h (i0 + 1) (j0 + (h.dir s).2.toNat) p).1 - i0 =
            ((consumedFrom h (i0 + 1) (j0 + (h.dir s).2.toNat) p).1 - (i0 + 1)) + 1 := by omega
        rw [e, drop_take_succ s1 i0 _ hi, ← ih'.1]
        simp [hi]
    · cases hdy : (h.dir s).2
      · simp only [hdy, Bool.toNat_false, Nat.add_zero] at ih' hm ⊢
        simp [ih'.2]
      · simp only [hdy, Bool.toNat_true] at ih' hm h2 ⊢
        have hj : j0 < s2.length := by omega
        have e : (consumedFrom h (i0 + (h.dir s).1.toNat) (j0 + 1) p).2 - j0 =
            ((consumedFrom h (i0 + (h.dir s).1.toNat) (j0 + 1) p).2 - (j0 + 1)) + 1 := by omega
        rw [e, drop_take_succ s2 j0 _ hj, ← ih'.2]
        simp [hj]

end CogentModel.PairHMM
