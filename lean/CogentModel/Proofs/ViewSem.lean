import CogentModel.Proofs.ViewInv
import CogentModel.Spec.PySlice
/-! Semantics of a slice record: the list of parent positions it displays. -/
namespace CogentModel.View

/-- parent position (0-based, non-negative under `Inv`) of the first displayed element -/
def first (v : View) : Int := if v.step > 0 then v.start else v.start + v.seqLen

/-- the parent positions displayed by the view, in display order -/
def elems (v : View) : List Int :=
  (List.range (len v).toNat).map fun (i : Nat) => first v + (i : Int) * v.step

theorem remk_inv (v : View) (h : Inv v) (a b c : Int) (w : View) (hw : remk v a b c = .ok w) : Inv w :=
  mk_inv' v.seqLen h.1 _ _ _ _ w hw

theorem remk_seqLen (v : View) (a b c : Int) (w : View) (hw : remk v a b c = .ok w) :
    w.seqLen = v.seqLen ∧ w.offset = v.offset := by
  unfold remk mk at hw
  split at hw
  · cases hw
  · have h := Except.ok.inj hw
    rw [← h]
    exact ⟨rfl, rfl⟩

/-- every successful result satisfies the invariant -/
def Good (r : Except Err View) : Prop := ∀ w, r = .ok w → Inv w

theorem good_ite {c : Prop} [Decidable c] {x y : Except Err View} (hx : Good x) (hy : Good y) :
    Good (if c then x else y) := by
  split <;> assumption

theorem good_ok {v : View} (h : Inv v) : Good (.ok v) := by
  intro w hw; cases hw; exact h

theorem good_err {e : Err} : Good (.error e) := by
  intro w hw; cases hw

theorem good_remk (v : View) (h : Inv v) (a b c : Int) : Good (remk v a b c) :=
  fun w hw => remk_inv v h a b c w hw

theorem fwdFromFwd_good (fl : Flavour) (v : View) (h : Inv v) (a b c : Int) : Good (fwdFromFwd fl v a b c) := by
  unfold fwdFromFwd
  repeat (first | exact good_ok (zero_inv fl v h) | exact good_remk v h _ _ _ | apply good_ite)

theorem fwdFromRev_good (fl : Flavour) (v : View) (h : Inv v) (a b c : Int) : Good (fwdFromRev fl v a b c) := by
  unfold fwdFromRev
  repeat (first | exact good_ok (zero_inv fl v h) | exact good_remk v h _ _ _ | apply good_ite)

theorem revFromFwd_good (fl : Flavour) (v : View) (h : Inv v) (a b c : Int) : Good (revFromFwd fl v a b c) := by
  unfold revFromFwd
  repeat (first | exact good_ok (zero_inv fl v h) | exact good_remk v h _ _ _ | apply good_ite)

theorem revFromRevTail_good (fl : Flavour) (v : View) (h : Inv v) (a b c : Int) : Good (revFromRevTail fl v a b c) := by
  unfold revFromRevTail
  repeat (first | exact good_ok (zero_inv fl v h) | exact good_remk v h _ _ _ | apply good_ite)

theorem revFromRev_good (fl : Flavour) (v : View) (h : Inv v) (a b c : Int) : Good (revFromRev fl v a b c) := by
  unfold revFromRev
  repeat (first | exact good_ok (zero_inv fl v h) | exact revFromRevTail_good fl v h _ _ _ | apply good_ite)

theorem getitemSlice_inv (fl : Flavour) (v : View) (h : Inv v) (a b c : Option Int) (w : View)
    (hw : getitemSlice fl v a b c = .ok w) : Inv w := by
  have key : Good (getitemSlice fl v a b c) := by
    unfold getitemSlice
    apply good_ite
    · cases fl
      · exact good_remk v h _ _ _
      · exact good_ok h
    repeat (first
      | exact good_ok (zero_inv fl v h) | exact good_ok h | exact good_err
      | exact fwdFromFwd_good fl v h _ _ _ | exact fwdFromRev_good fl v h _ _ _
      | exact revFromFwd_good fl v h _ _ _ | exact revFromRev_good fl v h _ _ _
      | apply good_ite)
  exact key w hw

theorem getitemInt_inv (v : View) (h : Inv v) (i : Int) (w : View)
    (hw : getitemInt v i = .ok w) : Inv w := by
  unfold getitemInt at hw
  cases hg : getIndex v i with
  | error e => simp [hg, bind, Except.bind] at hw
  | ok r =>
    obtain ⟨a, b, c⟩ := r
    simp [hg, bind, Except.bind] at hw
    exact remk_inv v h _ _ _ w hw

end CogentModel.View
