import CogentModel.Proofs.FeatureView
import CogentModel.Model.FeatureSeq
import CogentModel.Proofs.SeqWrap
/-! C04: list-level `feature_on_view` (positions, then residues) and the inverse pair
`absolute_position` / `relative_position` on |step| = 1 views. -/
namespace CogentModel.FeatureView
open CogentModel.View CogentModel.FeatureSpec CogentModel.SeqWrap

theorem relSpans_eq (v : View) (h : UnitView v) (hl : 0 < len v) (spans : List (Int × Int))
    (hnn : ∀ sp ∈ spans, 0 ≤ sp.1 ∧ 0 ≤ sp.2) :
    mapExcept (relSpan v) spans = .ok (spans.map (fun sp => (sp.1 - segStart v, sp.2 - segStart v))) := by
  apply mapExcept_eq_map
  intro sp hsp
  have := hnn sp hsp
  unfold relSpan
  rw [relCoord_exact v h hl sp.1 this.1, relCoord_exact v h hl sp.2 this.2]

theorem irange_eq_seg (a b : Int) : irange a b = seg a b := rfl

theorem seg_nil (a b : Int) (h : b ≤ a) : seg a b = [] := by
  unfold seg
  have : (b - a).toNat = 0 := by omega
  simp [this]

theorem seg_map_add (a b p : Int) : (seg a b).map (fun i => p + i) = seg (p + a) (p + b) := by
  unfold seg
  rw [List.map_map, show (p + b - (p + a)) = b - a by omega]
  apply List.map_congr_left
  intro i _
  simp only [Function.comp]
  omega

theorem seg_map_rev (a b p : Int) : (seg a b).map (fun i => p - i) = (seg (p - b + 1) (p - a + 1)).reverse := by
  apply List.ext_getElem
  · simp [seg] <;> omega
  · intro i h1 h2
    simp only [seg, List.length_map, List.length_range] at h1
    simp only [seg, List.getElem_map, List.getElem_range, List.getElem_reverse, List.length_map, List.length_range]
    omega

theorem flatMap_reverse {α β} (l : List α) (g : α → List β) :
    l.reverse.flatMap g = (l.flatMap (fun x => (g x).reverse)).reverse := by
  induction l with
  | nil => rfl
  | cons x xs ih => simp [List.flatMap_cons, List.flatMap_append, ih]

theorem sliceIdx_eq (f : Feat) : sliceIdx f = (realSpans f.spans).flatMap (fun p => seg p.1 p.2) := by
  unfold sliceIdx realSpans
  induction f.spans with
  | nil => rfl
  | cons x xs ih =>
    cases x with
    | lost n => simpa [List.flatMap_cons] using ih
    | span a b => simp only [List.flatMap_cons, List.filterMap_cons, ih]; rfl

theorem flatMap_clipped (L p0 : Int) (rel : List (Int × Int)) :
    (rel.filterMap (clipped L)).flatMap (fun p => seg (p0 + p.1) (p0 + p.2)) =
      rel.flatMap (fun sp => seg (p0 + max sp.1 0) (p0 + min sp.2 L)) := by
  induction rel with
  | nil => rfl
  | cons sp rest ih =>
    simp only [List.filterMap_cons, List.flatMap_cons]
    by_cases hc : max sp.1 0 < min sp.2 L
    · have : clipped L sp = some (max sp.1 0, min sp.2 L) := by simp [clipped, hc]
      simp only [this, List.flatMap_cons, ih]
    · have : clipped L sp = none := by simp [clipped, hc]
      simp only [this, ih]
      rw [seg_nil _ _ (by omega)]; rfl

theorem flatMap_congr' {α β} (l : List α) (f g : α → List β) (h : ∀ x ∈ l, f x = g x) :
    l.flatMap f = l.flatMap g := by
  induction l with
  | nil => rfl
  | cons x xs ih =>
    simp only [List.flatMap_cons, h x List.mem_cons_self, ih (fun z hz => h z (List.mem_cons_of_mem _ hz))]

theorem positions_core (p0 L : Int) (spans : List (Int × Int)) :
    ((spans.map (fun sp => (sp.1 - p0, sp.2 - p0))).filterMap (clipped L)).flatMap
        (fun p => seg (p0 + p.1) (p0 + p.2)) =
      spans.flatMap (fun sp => seg (max sp.1 p0) (min sp.2 (p0 + L))) := by
  rw [flatMap_clipped, List.flatMap_map]
  apply flatMap_congr'
  intro sp _
  simp only [Function.comp]
  congr 1 <;> omega

theorem featureOnView_spec (v : View) (h : UnitView v) (hl : 0 < len v) (minus : Bool) (spans : List (Int × Int))
    (hsp : ∀ sp ∈ spans, 0 ≤ sp.1 ∧ sp.1 < sp.2) (hsorted : spans.Pairwise (fun a b => a.1 ≤ b.1)) :
    ∃ f, featureOnView v minus spans = .ok f ∧
      slicePositions v f = denote spans minus (segStart v) (segStart v + len v) := by
  have hrel1 : ∀ sp ∈ spans.map (fun sp => (sp.1 - segStart v, sp.2 - segStart v)), sp.1 < sp.2 := by
    intro sp hm
    obtain ⟨x, hx, rfl⟩ := List.mem_map.mp hm
    have := hsp x hx
    simp only []; omega
  have hrel2 : (spans.map (fun sp => (sp.1 - segStart v, sp.2 - segStart v))).Pairwise (fun a b => a.1 ≤ b.1) := by
    rw [List.pairwise_map]
    exact hsorted.imp (fun hab => by simp only []; omega)
  obtain ⟨f, hf, hrev, hreal⟩ := makeFeature_spec (len v) (decide (v.step < 0)) minus _ hl (fun sp h => Int.le_of_lt (hrel1 sp h)) hrel2
  have hlen := len_unit v h
  refine ⟨f, ?_, ?_⟩
  · unfold featureOnView
    rw [relSpans_eq v h hl spans (fun sp hx => by have := hsp sp hx; omega)]
    exact hf
  · unfold slicePositions denote
    rw [sliceIdx_eq, hreal, hrev]
    have hcore := positions_core (segStart v) (len v) spans
    rcases h.2 with hs | hs
    · have e1 : decide (v.step < 0) = false := by rw [hs]; rfl
      have hvp : viewPos v = fun i => segStart v + i := by
        funext i; unfold viewPos segStart; rw [hs]; simp
      simp only [e1, Bool.false_eq_true, if_false, hvp, List.map_flatMap, seg_map_add, hcore]
      cases minus <;> simp
    · have e1 : decide (v.step < 0) = true := by rw [hs]; rfl
      have hvp : viewPos v = fun i => (segStart v + len v - 1) - i := by
        funext i; unfold viewPos segStart; rw [hlen]; rw [hs]; simp; omega
      have hps : ((List.map (fun p : Int × Int => (len v - p.2, len v - p.1))
            ((spans.map (fun sp => (sp.1 - segStart v, sp.2 - segStart v))).filterMap (clipped (len v)))).reverse.flatMap
              (fun p => seg p.1 p.2)).map (viewPos v) =
          (spans.flatMap (fun sp => seg (max sp.1 (segStart v)) (min sp.2 (segStart v + len v)))).reverse := by
        rw [hvp, flatMap_reverse, List.map_reverse, List.flatMap_map, List.map_flatMap]
        congr 1
        rw [← hcore]
        apply flatMap_congr'
        intro p _
        simp only [Function.comp, List.map_reverse, seg_map_rev, List.reverse_reverse]
        congr 1 <;> omega
      simp only [e1, if_true]
      rw [hps]
      cases minus <;> simp

instance (s : Seq) : Decidable (WF s) := by unfold WF; infer_instance

theorem mem_seg (a b x : Int) : x ∈ seg a b ↔ a ≤ x ∧ x < b := by
  unfold seg
  simp only [List.mem_map, List.mem_range]
  constructor
  · rintro ⟨i, hi, rfl⟩; omega
  · intro h; exact ⟨(x - a).toNat, by omega, by omega⟩

theorem denote_bounds (spans : List (Int × Int)) (minus : Bool) (p0 p1 x : Int)
    (h : x ∈ (denote spans minus p0 p1).1) : p0 ≤ x ∧ x < p1 := by
  unfold denote at h
  simp only [] at h
  have : x ∈ spans.flatMap (fun sp => seg (max sp.1 p0) (min sp.2 p1)) := by
    cases minus <;> simpa using h
  obtain ⟨sp, _, hx⟩ := List.mem_flatMap.mp this
  have := (mem_seg _ _ _).mp hx
  omega

/-- parent index shown at view index `i` -/
theorem elems_getElem (v : View) (i : Nat) (hi : (i : Int) < len v) :
    (elems v)[i]! = first v + (i : Int) * v.step := by
  unfold elems
  have : i < (len v).toNat := by omega
  simp [this]

theorem viewPos_eq (v : View) (h : UnitView v) (i : Int) : viewPos v i = v.offset + (first v + i * v.step) := by
  unfold viewPos first
  rcases h.2 with hs | hs <;> rw [hs] <;> simp <;> omega

theorem str_getElem (comp : Char → Char) (s : Seq) (hw : WF s) (hu : UnitView s.v) (i : Int) (h0 : 0 ≤ i)
    (h1 : i < len s.v) :
    (str comp s)[i.toNat]! =
      (if s.v.step < 0 ∧ s.nucleic then comp else id) (s.parent[(viewPos s.v i - s.v.offset).toNat]!) := by
  have hv := value_eq_elems' s hw
  have hlen : (elems s.v).length = (len s.v).toNat := elems_length s.v
  have hi : i.toNat < (elems s.v).length := by omega
  have he := elems_getElem s.v i.toNat (by omega)
  have hvp := viewPos_eq s.v hu i
  have hcast : ((i.toNat : Nat) : Int) = i := by omega
  rw [hcast] at he
  unfold str
  rw [hv]
  split
  · simp only [List.map_map]
    rw [getElem!_pos _ _ (by simpa using hi)]
    simp only [List.getElem_map, Function.comp]
    congr 2
    have : (elems s.v)[i.toNat] = (elems s.v)[i.toNat]! := (getElem!_pos (elems s.v) i.toNat hi).symm
    rw [this, he, hvp]; congr 1; omega
  · rw [getElem!_pos _ _ (by simpa using hi)]
    simp only [List.getElem_map, id]
    congr 1
    have : (elems s.v)[i.toNat] = (elems s.v)[i.toNat]! := (getElem!_pos (elems s.v) i.toNat hi).symm
    rw [this, he, hvp]; congr 1; omega

theorem viewPos_seg (v : View) (h : UnitView v) (i : Int) :
    viewPos v i = if v.step < 0 then segStart v + len v - 1 - i else segStart v + i := by
  have hlen := len_unit v h
  unfold viewPos segStart
  rcases h.2 with hs | hs <;> rw [hs] at hlen ⊢ <;> simp at hlen ⊢ <;> omega

theorem getSlice_spec (comp : Char → Char) (hcomp : ∀ x, comp (comp x) = x) (s : Seq) (hw : WF s)
    (hn : s.nucleic = true) (hu : UnitView s.v) (hl : 0 < len s.v) (minus : Bool) (spans : List (Int × Int))
    (hsp : ∀ sp ∈ spans, 0 ≤ sp.1 ∧ sp.1 < sp.2) (hsorted : spans.Pairwise (fun a b => a.1 ≤ b.1)) :
    ∃ f, featureOnView s.v minus spans = .ok f ∧
      getSlice comp s f =
        (denote spans minus (segStart s.v) (segStart s.v + len s.v)).1.map
          (fun p => (if minus then comp else id) (s.parent[(p - s.v.offset).toNat]!)) := by
  obtain ⟨f, hf, hpos⟩ := featureOnView_spec s.v hu hl minus spans hsp hsorted
  refine ⟨f, hf, ?_⟩
  have hidx : ∀ i ∈ sliceIdx f, 0 ≤ i ∧ i < len s.v := by
    intro i hi
    have hm : viewPos s.v i ∈ (slicePositions s.v f).1 := by
      unfold slicePositions
      simp only []
      split
      · rw [List.mem_reverse]; exact List.mem_map.mpr ⟨i, hi, rfl⟩
      · exact List.mem_map.mpr ⟨i, hi, rfl⟩
    rw [hpos] at hm
    have hb := denote_bounds _ _ _ _ _ hm
    rw [viewPos_seg s.v hu i] at hb
    split at hb <;> omega
  have hjoin : (sliceIdx f).map (fun i => (str comp s)[i.toNat]!) =
      ((sliceIdx f).map (viewPos s.v)).map
        (fun p => (if s.v.step < 0 ∧ s.nucleic then comp else id) (s.parent[(p - s.v.offset).toNat]!)) := by
    rw [List.map_map]
    apply List.map_congr_left
    intro i hi
    have := hidx i hi
    exact str_getElem comp s hw hu i this.1 this.2
  unfold getSlice
  simp only [hjoin]
  unfold slicePositions at hpos
  generalize hD : denote spans minus (segStart s.v) (segStart s.v + len s.v) = D at hpos
  obtain ⟨D1, D2⟩ := D
  have hD2 : D2 = minus := by
    have : (denote spans minus (segStart s.v) (segStart s.v + len s.v)).2 = minus := rfl
    rw [hD] at this; exact this
  simp only [Prod.mk.injEq] at hpos
  obtain ⟨h1, h2⟩ := hpos
  subst hD2
  rw [← h1, ← h2]
  by_cases hstep : s.v.step < 0 <;> cases hr : f.reversed <;>
    simp [hstep, hn, hr, List.map_reverse, List.map_map, Function.comp, hcomp]
/-- the coordinate `absolute_position` assigns to view index `i` on a |step| = 1 view: the plus-strand
position itself on a forward view, the plus-strand *boundary* `p1 - i` on a reversed one -/
def absOf (v : View) (i : Int) : Int :=
  if v.step < 0 then segStart v + len v - i else segStart v + i

theorem absolutePosition_unit (v : View) (h : UnitView v) (i : Int) (b : Bool) (h0 : 0 ≤ i)
    (h1 : i < len v ∨ (i = len v ∧ b = true)) (hl : 0 < len v) :
    absolutePosition v i b = .ok (absOf v i) := by
  have hlen := len_unit v h
  obtain ⟨⟨hn, hinv⟩, hs⟩ := h
  generalize hL : len v = L at hlen h1 hl
  unfold absolutePosition getIndex absOf segStart
  simp only [hL]
  have e5 : ¬ (L = 0) := by omega
  have e3 : ¬ (i < 0) := by omega
  rcases hs with hs | hs
  · rw [hs] at hinv hlen
    cases b
    · have n1 : ¬ (0 < i ∧ L ≤ i) := by simp at h1; omega
      simp [hs, e3, e5, Functor.map, Except.map, h0, n1]; omega
    · have n1 : ¬ (0 < i ∧ L < i) := by omega
      simp [hs, e3, e5, Functor.map, Except.map, h0, n1]; omega
  · rw [hs] at hinv hlen
    cases b
    · have n1 : ¬ (0 < i ∧ L ≤ i) := by simp at h1; omega
      simp [hs, e3, e5, Functor.map, Except.map, h0, n1]; omega
    · have n1 : ¬ (0 < i ∧ L < i) := by omega
      simp [hs, e3, e5, Functor.map, Except.map, h0, n1]; omega

/-- the coordinate `relative_position` assigns to an absolute position (the inverse of `absOf`) -/
def relOf (v : View) (a : Int) : Int :=
  if v.step < 0 then segStart v + len v - a else a - segStart v

theorem relativePosition_unit (v : View) (h : UnitView v) (hl : 0 < len v) (a : Int) (ha : 0 ≤ a) (b : Bool) :
    relativePosition v a b = .ok (relOf v a) := by
  have hlen := len_unit v h
  obtain ⟨⟨_, hinv⟩, hs⟩ := h
  unfold relativePosition relOf segStart
  have h1 : ¬ (len v = 0) := by omega
  have h2 : ¬ (a < 0) := by omega
  rcases hs with hs | hs
  · rw [hs] at hinv hlen
    simp [hs, h1, h2, fmod_one', fdiv_one']
  · rw [hs] at hinv hlen
    simp only [hs, h1, h2, if_false, if_true, fmod_neg_one, pyabs, true_or]
    simp [fdiv_one'] at hlen ⊢
    omega

/-- `relative_position(absolute_position(i)) = i` for every index (and the end boundary) of a
non-empty |step| = 1 view -/
theorem rel_abs (v : View) (h : UnitView v) (hl : 0 < len v) (hoff : 0 ≤ v.offset) (i : Int) (b : Bool)
    (h0 : 0 ≤ i) (h1 : i < len v ∨ (i = len v ∧ b = true)) :
    ∃ a, absolutePosition v i b = .ok a ∧ relativePosition v a false = .ok i := by
  refine ⟨absOf v i, absolutePosition_unit v h i b h0 h1 hl, ?_⟩
  have hlen := len_unit v h
  have hpos : 0 ≤ absOf v i := by
    unfold absOf segStart
    obtain ⟨⟨_, hinv⟩, hs⟩ := h
    rcases hs with hs | hs <;> rw [hs] at hinv hlen ⊢ <;> simp at hlen hinv ⊢ <;> omega
  rw [relativePosition_unit v h hl _ hpos]
  unfold relOf absOf
  split <;> congr 1 <;> omega

/-- `absolute_position(relative_position(a)) = a` for every absolute coordinate of the retained
segment (boundaries included) -/
theorem abs_rel (v : View) (h : UnitView v) (hl : 0 < len v) (a : Int) (ha : 0 ≤ a)
    (h0 : segStart v ≤ a) (h1 : a ≤ segStart v + len v) :
    ∃ r, relativePosition v a false = .ok r ∧ absolutePosition v r true = .ok a := by
  refine ⟨relOf v a, relativePosition_unit v h hl a ha false, ?_⟩
  have hr0 : 0 ≤ relOf v a := by unfold relOf; split <;> omega
  have hr1 : relOf v a < len v ∨ (relOf v a = len v ∧ true = true) := by
    unfold relOf; simp only [and_true]; split <;> omega
  rw [absolutePosition_unit v h _ true hr0 hr1 hl]
  unfold absOf relOf
  split <;> congr 1 <;> omega

end CogentModel.FeatureView
