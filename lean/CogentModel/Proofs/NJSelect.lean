import CogentModel.Proofs.SplitMetric
/-! Studier–Keppler for the Q-criterion of the code, the reduced matrix as a tree metric, the selection rule. -/
namespace CogentModel.NJ

/-- a positive split separates `i, j` and has at least two leaves on both sides -/
def SepNontrivial (L : Nat) (S : Rat × Side) (i j : Nat) : Prop :=
  0 < S.1 ∧ S.2 i ≠ S.2 j ∧ 2 ≤ (sideSet L S.2 (S.2 i)).card ∧ 2 ≤ (sideSet L S.2 (S.2 j)).card

/-- if some positive internal branch separates `i` and `j`, another pair has strictly larger `F` -/
theorem better_pair (L : Nat) (Sg : WSplits) (hS : SplitSystem L Sg) (i j : Nat) (hi : i < L) (hj : j < L)
    (S0 : Rat × Side) (h0 : S0 ∈ Sg) (hs : SepNontrivial L S0 i j) :
    ∃ m n, m < L ∧ n < L ∧ m ≠ n ∧ FS L Sg i j < FS L Sg m n := by
  obtain ⟨hw, hsep, hA2, hB2⟩ := hs
  have hsum : (sideSet L S0.2 (S0.2 i)).card + (sideSet L S0.2 (S0.2 j)).card = L := by
    have := card_side_not L S0.2 (S0.2 i)
    rwa [← (bool_ne_iff _ _).1 (fun e => hsep e.symm)] at this
  by_cases hle : (sideSet L S0.2 (S0.2 i)).card ≤ (sideSet L S0.2 (S0.2 j)).card
  · exact better_pair_core L Sg hS i j hi hj S0 h0 hw hsep hA2 hB2 (by omega)
  · obtain ⟨m, n, hm, hn, hmn, hlt⟩ :=
      better_pair_core L Sg hS j i hj hi S0 h0 hw (fun e => hsep e.symm) hB2 hA2 (by omega)
    exact ⟨m, n, hm, hn, hmn, by rw [FS_symm L Sg i j]; exact hlt⟩

/-- no positive internal branch separates `i` and `j` (they hang off the same node) -/
def NotSep (L : Nat) (Sg : WSplits) (i j : Nat) : Prop := ∀ S ∈ Sg, ¬ SepNontrivial L S i j

/-- **Studier–Keppler, combinatorial form**: a pair maximising `F` is not separated by a positive internal branch -/
theorem argmax_notSep (L : Nat) (Sg : WSplits) (hS : SplitSystem L Sg) (i j : Nat) (hi : i < L) (hj : j < L)
    (hmax : ∀ m n, m < L → n < L → m ≠ n → FS L Sg m n ≤ FS L Sg i j) : NotSep L Sg i j := by
  intro S hS0 hs
  obtain ⟨m, n, hm, hn, hmn, hlt⟩ := better_pair L Sg hS i j hi hj S hS0 hs
  have := hmax m n hm hn hmn
  linarith

/-- `x` is alone on its side of the split -/
def Alone (L : Nat) (s : Side) (x : Nat) : Prop := ∀ y, y < L → y ≠ x → s y ≠ s x

/-- a side with at most one leaf that contains `x` is `{x}` -/
theorem alone_of_card_le_one (L : Nat) (s : Side) (x : Nat) (hx : x < L)
    (h : (sideSet L s (s x)).card ≤ 1) : Alone L s x := by
  intro y hy hyx hs
  have h1 : x ∈ sideSet L s (s x) := (mem_sideSet _ _ _ _).2 ⟨hx, rfl⟩
  have h2 : y ∈ sideSet L s (s x) := (mem_sideSet _ _ _ _).2 ⟨hy, hs⟩
  exact hyx (Finset.card_le_one.1 h y h2 x h1)

open Classical in
/-- pendant length of `i` seen from the pair `(i,j)`: total weight of the splits `{i} | rest` -/
noncomputable def pend (L : Nat) (Sg : WSplits) (i j : Nat) : Rat :=
  wsum Sg (fun s => if s i ≠ s j ∧ Alone L s i then 1 else 0)

theorem notSep_cases (L : Nat) (Sg : WSplits) (i j : Nat) (hi : i < L) (hj : j < L) (hns : NotSep L Sg i j)
    (S : Rat × Side) (hS : S ∈ Sg) (hw : 0 < S.1) (hsep : S.2 i ≠ S.2 j) : Alone L S.2 i ∨ Alone L S.2 j := by
  by_contra hcon
  rw [not_or] at hcon
  apply hns S hS
  refine ⟨hw, hsep, ?_, ?_⟩
  · by_contra h
    exact hcon.1 (alone_of_card_le_one L S.2 i hi (by omega))
  · by_contra h
    exact hcon.2 (alone_of_card_le_one L S.2 j hj (by omega))

open Classical in
/-- **Studier–Keppler, metric form**: if no positive internal branch separates `i, j` (and there is a third leaf),
`(i, j)` is a cherry of the split metric, with pendant lengths `pend i j`, `pend j i` -/
theorem cherry_of_notSep (L : Nat) (Sg : WSplits) (hS : SplitSystem L Sg) (d : Mat)
    (hd : ∀ a b, a < L → b < L → get d a b = splitDist Sg a b)
    (i j : Nat) (hi : i < L) (hj : j < L) (hij : i ≠ j) (hL : 3 ≤ L) (hns : NotSep L Sg i j) :
    Cherry d L i j (pend L Sg i j) (pend L Sg j i) (fun k => splitDist Sg i k - pend L Sg i j) := by
  -- a third leaf
  obtain ⟨z, hz, hzi, hzj⟩ : ∃ z, z < L ∧ z ≠ i ∧ z ≠ j := by
    by_cases h0 : 0 ≠ i ∧ 0 ≠ j
    · exact ⟨0, by omega, h0.1, h0.2⟩
    · by_cases h1 : 1 ≠ i ∧ 1 ≠ j
      · exact ⟨1, by omega, h1.1, h1.2⟩
      · exact ⟨2, by omega, by omega, by omega⟩
  have hnot_both : ∀ s : Side, s i ≠ s j → ¬ (Alone L s i ∧ Alone L s j) := by
    intro s hs ⟨h1, h2⟩
    have a := h1 z hz hzi
    have b := h2 z hz hzj
    revert hs a b; cases s z <;> cases s i <;> cases s j <;> simp
  have hdiff : ∀ k, k < L → k ≠ i → k ≠ j →
      splitDist Sg i k - splitDist Sg j k = pend L Sg i j - pend L Sg j i := by
    intro k hk hki hkj
    unfold splitDist pend
    rw [← wsum_sub, ← wsum_sub]
    apply wsum_congr_pos Sg _ _ hS.nonneg
    intro S hSm hw
    show sep S.2 i k - sep S.2 j k = (if S.2 i ≠ S.2 j ∧ Alone L S.2 i then (1 : Rat) else 0) -
      (if S.2 j ≠ S.2 i ∧ Alone L S.2 j then 1 else 0)
    by_cases hsep : S.2 i = S.2 j
    · rw [if_neg (fun h => h.1 hsep), if_neg (fun h => h.1 hsep.symm)]
      unfold sep; rw [hsep]; ring
    · rcases notSep_cases L Sg i j hi hj hns S hSm hw hsep with ha | ha
      · have hnb : ¬ Alone L S.2 j := fun hb => hnot_both S.2 hsep ⟨ha, hb⟩
        rw [if_pos ⟨hsep, ha⟩, if_neg (fun h => hnb h.2)]
        have hk1 : S.2 k ≠ S.2 i := ha k hk hki
        have hk2 : S.2 k = S.2 j := by revert hk1 hsep; cases S.2 k <;> cases S.2 i <;> cases S.2 j <;> simp
        unfold sep
        rw [if_neg (fun e => hk1 e.symm), if_pos hk2.symm]
      · have hnb : ¬ Alone L S.2 i := fun hb => hnot_both S.2 hsep ⟨hb, ha⟩
        rw [if_neg (fun h => hnb h.2), if_pos ⟨fun e => hsep e.symm, ha⟩]
        have hk1 : S.2 k ≠ S.2 j := ha k hk hkj
        have hk2 : S.2 k = S.2 i := by revert hk1 hsep; cases S.2 k <;> cases S.2 i <;> cases S.2 j <;> simp
        unfold sep
        rw [if_pos hk2.symm, if_neg (fun e => hk1 e.symm)]
  have hsum : splitDist Sg i j = pend L Sg i j + pend L Sg j i := by
    unfold splitDist pend
    rw [← wsum_add]
    apply wsum_congr_pos Sg _ _ hS.nonneg
    intro S hSm hw
    show sep S.2 i j = (if S.2 i ≠ S.2 j ∧ Alone L S.2 i then (1 : Rat) else 0) +
      (if S.2 j ≠ S.2 i ∧ Alone L S.2 j then 1 else 0)
    by_cases hsep : S.2 i = S.2 j
    · rw [if_neg (fun h => h.1 hsep), if_neg (fun h => h.1 hsep.symm)]
      unfold sep; rw [if_pos hsep]; ring
    · unfold sep; rw [if_neg hsep]
      rcases notSep_cases L Sg i j hi hj hns S hSm hw hsep with ha | ha
      · have hnb : ¬ Alone L S.2 j := fun hb => hnot_both S.2 hsep ⟨ha, hb⟩
        rw [if_pos ⟨hsep, ha⟩, if_neg (fun h => hnb h.2)]; ring
      · have hnb : ¬ Alone L S.2 i := fun hb => hnot_both S.2 hsep ⟨hb, ha⟩
        rw [if_neg (fun h => hnb h.2), if_pos ⟨fun e => hsep e.symm, ha⟩]; ring
  have hpn : ∀ a b, 0 ≤ pend L Sg a b := by
    intro a b
    unfold pend
    apply wsum_nonneg Sg _ hS.nonneg
    intro S _ _
    show (0 : Rat) ≤ if S.2 a ≠ S.2 b ∧ Alone L S.2 a then 1 else 0
    split <;> norm_num
  refine ⟨hij, hi, hj, hpn i j, hpn j i, ?_, ?_, ?_⟩
  · rw [hd i j hi hj, hsum]
  · intro k hk hki hkj
    rw [hd i k hi hk]; ring
  · intro k hk hki hkj
    rw [hd j k hj hk]
    have := hdiff k hk hki hkj
    linarith

theorem wsum_zero (Sg : WSplits) : wsum Sg (fun _ => 0) = 0 := by
  induction Sg with
  | nil => rfl
  | cons S r ih => simp only [wsum]; rw [ih]; ring

/-! ### the reduced matrix is again a tree metric -/

/-- the matrix is the path metric of a tree (weighted compatible split system) on the leaves `0..L-1` -/
def IsSplitMetric (L : Nat) (d : Mat) : Prop :=
  ∃ Sg, SplitSystem L Sg ∧ ∀ a b, a < L → b < L → get d a b = splitDist Sg a b

/-- the tree after collapsing the cherry `(i, j)` into its parent, re-indexed as `join` does (`src`): branches
separating `i` from `j` (their pendant branches) get length 0, every other split is read through `src`
(the new node stands where `src · = i`) -/
def joinSplits (Sg : WSplits) (L i j : Nat) : WSplits :=
  Sg.map fun S => (if S.2 i = S.2 j then S.1 else 0, fun a => S.2 (src L j a))

theorem wsum_joinSplits (Sg : WSplits) (L i j : Nat) (g : Side → Rat) :
    wsum (joinSplits Sg L i j) g
      = wsum Sg (fun s => (if s i = s j then (1 : Rat) else 0) * g (fun a => s (src L j a))) := by
  induction Sg with
  | nil => rfl
  | cons S r ih =>
    show (if S.2 i = S.2 j then S.1 else 0) * g (fun a => S.2 (src L j a)) + wsum (joinSplits r L i j) g = _
    rw [ih]
    simp only [wsum]
    by_cases h : S.2 i = S.2 j
    · rw [if_pos h, if_pos h]; ring
    · rw [if_neg h, if_neg h]; ring

theorem joinSplits_system (Sg : WSplits) (L i j : Nat) (hS : SplitSystem L Sg) :
    SplitSystem (L - 1) (joinSplits Sg L i j) := by
  constructor
  · intro S' hS'
    obtain ⟨S, hSm, rfl⟩ := List.mem_map.1 hS'
    show 0 ≤ if S.2 i = S.2 j then S.1 else 0
    split
    · exact hS.nonneg S hSm
    · exact le_refl _
  · intro S' hS' T' hT'
    obtain ⟨S, hSm, rfl⟩ := List.mem_map.1 hS'
    obtain ⟨T, hTm, rfl⟩ := List.mem_map.1 hT'
    obtain ⟨a, b, hab⟩ := hS.compat S hSm T hTm
    exact ⟨a, b, fun x hx => hab (src L j x) (src_lt L j x hx)⟩

theorem join_splitMetric (L : Nat) (Sg : WSplits) (hS : SplitSystem L Sg) (d : Mat)
    (hd : ∀ a b, a < L → b < L → get d a b = splitDist Sg a b)
    (i j : Nat) (hi : i < L) (hj : j < L) (hns : NotSep L Sg i j)
    (a b : Nat) (ha : a < L - 1) (hb : b < L - 1) :
    get (joinMat d L i j) a b = splitDist (joinSplits Sg L i j) a b := by
  have hxL := src_lt L j a ha
  have hyL := src_lt L j b hb
  have hxj := src_ne_j L j a ha
  have hyj := src_ne_j L j b hb
  unfold joinMat
  rw [get_tab _ _ _ _ ha hb]
  unfold splitDist
  rw [wsum_joinSplits]
  have hsepsrc : ∀ s : Side, sep (fun a => s (src L j a)) a b = sep s (src L j a) (src L j b) := fun s => rfl
  simp only [hsepsrc]
  generalize src L j a = x at hxL hxj
  generalize src L j b = y at hyL hyj
  -- the identity for the distances from the new node
  have hnew : ∀ y, y < L → newDist d i j y
      = wsum Sg (fun s => (if s i = s j then (1 : Rat) else 0) * sep s i y) := by
    intro y hy
    unfold newDist
    rw [hd i y hi hy, hd j y hj hy, hd i j hi hj]
    unfold splitDist
    rw [← wsum_add, ← wsum_sub, ← wsum_smul]
    congr 1; funext s
    unfold sep
    cases s i <;> cases s j <;> cases s y <;> norm_num
  unfold base
  by_cases hx : x = i
  · by_cases hy : y = i
    · rw [if_pos ⟨hx, hy⟩, hx, hy]
      have : (fun s : Side => (if s i = s j then (1 : Rat) else 0) * sep s i i) = fun _ => 0 := by
        funext s; rw [sep_self]; ring
      rw [this, wsum_zero]
    · rw [if_neg (fun h => hy h.2), if_pos hx, hnew y hyL, hx]
  · rw [if_neg (fun h => hx h.1), if_neg hx]
    by_cases hy : y = i
    · rw [if_pos hy, hnew x hxL, hy]
      congr 1; funext s; rw [sep_symm]
    · rw [if_neg hy, hd x y hxL hyL]
      unfold splitDist
      apply wsum_congr_pos Sg _ _ hS.nonneg
      intro S hSm hw
      show sep S.2 x y = (if S.2 i = S.2 j then (1 : Rat) else 0) * sep S.2 x y
      by_cases hsep : S.2 i = S.2 j
      · rw [if_pos hsep]; ring
      · rw [if_neg hsep]
        have : sep S.2 x y = 0 := by
          rcases notSep_cases L Sg i j hi hj hns S hSm hw hsep with h | h
          · have h1 := h x hxL hx
            have h2 := h y hyL hy
            unfold sep; rw [if_pos]
            revert h1 h2; cases S.2 x <;> cases S.2 y <;> cases S.2 i <;> simp
          · have h1 := h x hxL hxj
            have h2 := h y hyL hyj
            unfold sep; rw [if_pos]
            revert h1 h2; cases S.2 x <;> cases S.2 y <;> cases S.2 j <;> simp
        rw [this]; ring

/-! ### the selection rule of the code: first minimum of the score matrix -/

/-- the fold inside `argminOff` -/
def amFold (L : Nat) (f : Nat → Nat → Rat) (acc : Option (Nat × Nat)) (l : List Nat) : Option (Nat × Nat) :=
  l.foldl
    (fun (best : Option (Nat × Nat)) idx =>
      let a := idx / L
      let b := idx % L
      if a = b then best
      else match best with
        | none => some (a, b)
        | some (x, y) => if f a b < f x y then some (a, b) else best)
    acc

theorem argminOff_eq (L : Nat) (f : Nat → Nat → Rat) :
    argminOff L f = (amFold L f none (List.range (L * L))).getD (0, 1) := rfl

theorem amFold_spec (L : Nat) (f : Nat → Nat → Rat) : ∀ (l : List Nat) (acc : Option (Nat × Nat)),
    (∀ p, amFold L f acc l = some p →
      (acc = some p ∨ ∃ idx ∈ l, idx / L ≠ idx % L ∧ p = (idx / L, idx % L)) ∧
      (∀ q, acc = some q → f p.1 p.2 ≤ f q.1 q.2) ∧
      (∀ idx ∈ l, idx / L ≠ idx % L → f p.1 p.2 ≤ f (idx / L) (idx % L))) ∧
    (amFold L f acc l = none → acc = none ∧ ∀ idx ∈ l, idx / L = idx % L) := by
  intro l
  induction l with
  | nil =>
    intro acc
    refine ⟨fun p hp => ⟨Or.inl hp, ?_, fun idx h => absurd h List.not_mem_nil⟩, fun h => ⟨h, fun idx h => absurd h List.not_mem_nil⟩⟩
    intro q hq
    have hp' : acc = some p := hp
    rw [hp'] at hq; cases hq; exact le_refl _
  | cons idx l ih =>
    intro acc
    -- one step
    have hstep : amFold L f acc (idx :: l) = amFold L f
        (if idx / L = idx % L then acc
         else match acc with
          | none => some (idx / L, idx % L)
          | some (x, y) => if f (idx / L) (idx % L) < f x y then some (idx / L, idx % L) else acc) l := rfl
    rw [hstep]
    by_cases hd : idx / L = idx % L
    · rw [if_pos hd]
      obtain ⟨h1, h2⟩ := ih acc
      refine ⟨fun p hp => ?_, fun h => ?_⟩
      · obtain ⟨a1, a2, a3⟩ := h1 p hp
        refine ⟨?_, a2, ?_⟩
        · rcases a1 with a1 | ⟨k, hk, hk2, hk3⟩
          · exact Or.inl a1
          · exact Or.inr ⟨k, List.mem_cons_of_mem _ hk, hk2, hk3⟩
        · intro k hk hk2
          rw [List.mem_cons] at hk
          rcases hk with rfl | hk
          · exact absurd hd hk2
          · exact a3 k hk hk2
      · obtain ⟨b1, b2⟩ := h2 h
        refine ⟨b1, fun k hk => ?_⟩
        rw [List.mem_cons] at hk
        rcases hk with rfl | hk
        · exact hd
        · exact b2 k hk
    · rw [if_neg hd]
      cases hacc : acc with
      | none =>
        simp only []
        obtain ⟨h1, h2⟩ := ih (some (idx / L, idx % L))
        refine ⟨fun p hp => ?_, fun h => ?_⟩
        · obtain ⟨a1, a2, a3⟩ := h1 p hp
          refine ⟨?_, ?_, ?_⟩
          · rcases a1 with a1 | ⟨k, hk, hk2, hk3⟩
            · cases a1
              exact Or.inr ⟨idx, List.mem_cons_self, hd, rfl⟩
            · exact Or.inr ⟨k, List.mem_cons_of_mem _ hk, hk2, hk3⟩
          · intro q hq; cases hq
          · intro k hk hk2
            rw [List.mem_cons] at hk
            rcases hk with rfl | hk
            · exact a2 _ rfl
            · exact a3 k hk hk2
        · obtain ⟨b1, _⟩ := h2 h
          cases b1
      | some q =>
        obtain ⟨x, y⟩ := q
        simp only []
        by_cases hlt : f (idx / L) (idx % L) < f x y
        · rw [if_pos hlt]
          obtain ⟨h1, h2⟩ := ih (some (idx / L, idx % L))
          refine ⟨fun p hp => ?_, fun h => ?_⟩
          · obtain ⟨a1, a2, a3⟩ := h1 p hp
            refine ⟨?_, ?_, ?_⟩
            · rcases a1 with a1 | ⟨k, hk, hk2, hk3⟩
              · cases a1
                exact Or.inr ⟨idx, List.mem_cons_self, hd, rfl⟩
              · exact Or.inr ⟨k, List.mem_cons_of_mem _ hk, hk2, hk3⟩
            · intro q hq
              cases hq
              have := a2 _ rfl
              exact le_trans this (le_of_lt hlt)
            · intro k hk hk2
              rw [List.mem_cons] at hk
              rcases hk with rfl | hk
              · exact a2 _ rfl
              · exact a3 k hk hk2
          · obtain ⟨b1, _⟩ := h2 h
            cases b1
        · rw [if_neg hlt]
          obtain ⟨h1, h2⟩ := ih (some (x, y))
          refine ⟨fun p hp => ?_, fun h => ?_⟩
          · obtain ⟨a1, a2, a3⟩ := h1 p hp
            refine ⟨?_, a2, ?_⟩
            · rcases a1 with a1 | ⟨k, hk, hk2, hk3⟩
              · exact Or.inl a1
              · exact Or.inr ⟨k, List.mem_cons_of_mem _ hk, hk2, hk3⟩
            · intro k hk hk2
              rw [List.mem_cons] at hk
              rcases hk with rfl | hk
              · have := a2 _ rfl
                exact le_trans this (not_lt.1 hlt)
              · exact a3 k hk hk2
          · obtain ⟨b1, _⟩ := h2 h
            cases b1

/-- `argminOff` returns an off-diagonal position `< L` carrying a minimum over all off-diagonal positions -/
theorem argminOff_spec (L : Nat) (hL : 2 ≤ L) (f : Nat → Nat → Rat) :
    (argminOff L f).1 < L ∧ (argminOff L f).2 < L ∧ (argminOff L f).1 ≠ (argminOff L f).2 ∧
    ∀ a b, a < L → b < L → a ≠ b → f (argminOff L f).1 (argminOff L f).2 ≤ f a b := by
  rw [argminOff_eq]
  obtain ⟨h1, h2⟩ := amFold_spec L f (List.range (L * L)) none
  have hpos : 0 < L := by omega
  cases hr : amFold L f none (List.range (L * L)) with
  | none =>
    exfalso
    obtain ⟨_, hall⟩ := h2 hr
    have h1L : 1 < L * L := by nlinarith
    have := hall 1 (List.mem_range.2 h1L)
    rw [Nat.div_eq_of_lt (by omega), Nat.mod_eq_of_lt (by omega)] at this
    omega
  | some p =>
    obtain ⟨a1, _, a3⟩ := h1 p hr
    rcases a1 with a1 | ⟨k, hk, hk2, hk3⟩
    · cases a1
    · rw [List.mem_range] at hk
      show p.1 < L ∧ p.2 < L ∧ p.1 ≠ p.2 ∧ _
      rw [hk3]
      refine ⟨Nat.div_lt_of_lt_mul (by rw [Nat.mul_comm]; exact hk), Nat.mod_lt _ hpos, hk2, ?_⟩
      intro a b ha hb hab
      have hidx : a * L + b < L * L := by nlinarith
      have e1 : (a * L + b) / L = a := by
        rw [Nat.add_comm, Nat.add_mul_div_right _ _ hpos, Nat.div_eq_of_lt hb]; omega
      have e2 : (a * L + b) % L = b := by
        rw [Nat.add_comm, Nat.add_mul_mod_self_right, Nat.mod_eq_of_lt hb]
      have := a3 (a * L + b) (List.mem_range.2 hidx) (by rw [e1, e2]; exact hab)
      rw [e1, e2] at this
      rw [← hk3]; exact this

/-- the Q-criterion as the code computes it (up to the pair-independent terms of the score matrix):
`d[a,b] − (r[a] + r[b]) / (L − 2)` -/
def qCrit (d : Mat) (L a b : Nat) : Rat := get d a b - (colSum d L a + colSum d L b) / ((L : Rat) - 2)

/-- a selection rule that always returns an off-diagonal minimiser of the Q-criterion (whichever one) -/
def MinQ (sel : PT → Nat × Nat) : Prop :=
  ∀ pt : PT, 3 < pt.L → (sel pt).1 < pt.L ∧ (sel pt).2 < pt.L ∧ (sel pt).1 ≠ (sel pt).2 ∧
    ∀ x y, x < pt.L → y < pt.L → x ≠ y → qCrit pt.d pt.L (sel pt).1 (sel pt).2 ≤ qCrit pt.d pt.L x y

theorem scoreAt_eq (d : Mat) (L : Nat) (r : Nat → Rat) (score : Rat) (a b : Nat)
    (ha : r a = colSum d L a) (hb : r b = colSum d L b) :
    scoreAt d L r score a b = qCrit d L a b / 2 + (sumTo L r / ((L : Rat) - 2) / 2 + score) := by
  unfold scoreAt qCrit; rw [ha, hb]; ring

/-- the model of `gnj(keep=1)`'s choice is such a rule -/
theorem pickPair_minQ : MinQ pickPair := by
  intro pt hL
  have hr : ∀ a, a < pt.L → ((List.range pt.L).map (colSum pt.d pt.L)).getD a 0 = colSum pt.d pt.L a := by
    intro a ha
    simp [List.getD_eq_getElem?_getD, ha]
  obtain ⟨h1, h2, h3, h4⟩ := argminOff_spec pt.L (by omega)
    (get (tab pt.L (scoreAt pt.d pt.L (fun a => ((List.range pt.L).map (colSum pt.d pt.L)).getD a 0) pt.score)))
  refine ⟨h1, h2, h3, ?_⟩
  intro x y hx hy hxy
  have := h4 x y hx hy hxy
  rw [get_tab _ _ _ _ h1 h2, get_tab _ _ _ _ hx hy,
    scoreAt_eq _ _ _ _ _ _ (hr _ h1) (hr _ h2), scoreAt_eq _ _ _ _ _ _ (hr _ hx) (hr _ hy)] at this
  show qCrit pt.d pt.L (pickPair pt).1 (pickPair pt).2 ≤ qCrit pt.d pt.L x y
  have e : pickPair pt = argminOff pt.L
      (get (tab pt.L (scoreAt pt.d pt.L (fun a => ((List.range pt.L).map (colSum pt.d pt.L)).getD a 0) pt.score))) := rfl
  rw [e]
  linarith

theorem qCrit_eq (L : Nat) (hL : 2 < L) (Sg : WSplits) (d : Mat)
    (hd : ∀ a b, a < L → b < L → get d a b = splitDist Sg a b) (i j : Nat) (hi : i < L) (hj : j < L) :
    qCrit d L i j = -2 * FS L Sg i j / ((L : Rat) - 2) := by
  have h := qn_eq L Sg d hd i j hi hj
  have hne : ((L : Rat) - 2) ≠ 0 := by
    have : (2 : Rat) < (L : Rat) := by exact_mod_cast hL
    linarith
  unfold qCrit
  rw [← h]
  field_simp
  ring

/-- **`nj_selects_cherry` (Studier–Keppler)**: on the path metric of a tree with non-negative branch lengths on
`L ≥ 4` leaves, EVERY off-diagonal minimiser of the Q-criterion is a pair of neighbours: it is not separated by
any positive internal branch, hence a cherry of the metric -/
theorem minQ_notSep (L : Nat) (hL : 3 < L) (Sg : WSplits) (hS : SplitSystem L Sg) (d : Mat)
    (hd : ∀ a b, a < L → b < L → get d a b = splitDist Sg a b) (i j : Nat) (hi : i < L) (hj : j < L)
    (hmin : ∀ x y, x < L → y < L → x ≠ y → qCrit d L i j ≤ qCrit d L x y) : NotSep L Sg i j := by
  apply argmax_notSep L Sg hS i j hi hj
  intro m n hm hn hmn
  have h := hmin m n hm hn hmn
  rw [qCrit_eq L (by omega) Sg d hd i j hi hj, qCrit_eq L (by omega) Sg d hd m n hm hn] at h
  have hpos : (0 : Rat) < (L : Rat) - 2 := by
    have : (3 : Rat) < (L : Rat) := by exact_mod_cast hL
    linarith
  rw [div_le_div_iff_of_pos_right hpos] at h
  linarith

theorem join_isSplitMetric (sel : PT → Nat × Nat) (hsel : MinQ sel) (pt : PT) (hL : 3 < pt.L)
    (hm : IsSplitMetric pt.L pt.d) :
    IsSplitMetric (join pt (sel pt).1 (sel pt).2).L (join pt (sel pt).1 (sel pt).2).d := by
  obtain ⟨Sg, hS, hd⟩ := hm
  obtain ⟨h1, h2, _, h4⟩ := hsel pt hL
  have hns := minQ_notSep pt.L hL Sg hS pt.d hd _ _ h1 h2 h4
  exact ⟨joinSplits Sg pt.L (sel pt).1 (sel pt).2, joinSplits_system Sg pt.L _ _ hS,
    fun a b ha hb => join_splitMetric pt.L Sg hS pt.d hd _ _ h1 h2 hns a b ha hb⟩

theorem njLoop_isSplitMetric (sel : PT → Nat × Nat) (hsel : MinQ sel) :
    ∀ (k : Nat) (pt : PT), IsSplitMetric pt.L pt.d → IsSplitMetric (njLoop sel k pt).L (njLoop sel k pt).d := by
  intro k
  induction k with
  | zero => intro pt h; exact h
  | succ k ih =>
    intro pt h
    unfold njLoop
    by_cases h3 : pt.L ≤ 3
    · rw [if_pos h3]; exact h
    · rw [if_neg h3]
      exact ih _ (join_isSplitMetric sel hsel pt (by omega) h)

theorem isSplitMetric_sym (L : Nat) (d : Mat) (h : IsSplitMetric L d) : Sym d L := by
  obtain ⟨Sg, _, hd⟩ := h
  intro a b ha hb; rw [hd a b ha hb, hd b a hb ha, splitDist_symm]

theorem isSplitMetric_tri3 (d : Mat) (h : IsSplitMetric 3 d) : Tri3 d := by
  obtain ⟨Sg, hS, hd⟩ := h
  have t := splitDist_triangle Sg hS.nonneg
  have s := splitDist_symm Sg
  refine ⟨?_, ?_, ?_⟩
  · rw [hd 1 2 (by omega) (by omega), hd 0 1 (by omega) (by omega), hd 0 2 (by omega) (by omega)]
    have := t 1 0 2; rw [s 1 0] at this; exact this
  · rw [hd 0 2 (by omega) (by omega), hd 0 1 (by omega) (by omega), hd 1 2 (by omega) (by omega)]
    exact t 0 1 2
  · rw [hd 0 1 (by omega) (by omega), hd 0 2 (by omega) (by omega), hd 1 2 (by omega) (by omega)]
    have := t 0 2 1; rw [s 2 1] at this; exact this

/-- every pair selected on the way is a cherry of the current matrix -/
theorem minQ_cherries (sel : PT → Nat × Nat) (hsel : MinQ sel) (pt : PT) (hm : IsSplitMetric pt.L pt.d) :
    ∀ k, 3 < (njLoop sel k pt).L →
      ∃ ai aj e, Cherry (njLoop sel k pt).d (njLoop sel k pt).L (sel (njLoop sel k pt)).1 (sel (njLoop sel k pt)).2 ai aj e := by
  intro k hk
  obtain ⟨Sg, hS, hd⟩ := njLoop_isSplitMetric sel hsel k pt hm
  obtain ⟨h1, h2, h3, h4⟩ := hsel _ hk
  have hns := minQ_notSep _ hk Sg hS _ hd _ _ h1 h2 h4
  exact ⟨_, _, _, cherry_of_notSep _ Sg hS _ hd _ _ h1 h2 h3 (by omega) hns⟩

theorem star_isSplitMetric (n : Nat) (Sg : WSplits) (hS : SplitSystem n Sg) :
    IsSplitMetric (star n (tab n (splitDist Sg))).L (star n (tab n (splitDist Sg))).d :=
  ⟨Sg, hS, fun _ _ ha hb => get_tab _ _ _ _ ha hb⟩
end CogentModel.NJ
