import CogentModel.Model.AnnotDbHist
import CogentModel.Proofs.AnnotDb
import CogentModel.Proofs.AnnotDbRoundTrip
/-! Helper lemmas for whole operation histories (`Model/AnnotDbHist.lean`): the register invariant and its
preservation by every call. -/
namespace CogentModel.AnnotDb
open CogentModel.AnnotDbSpec

theorem addToTable_wf (d : Db) (t : String) (rs : List Rec) (h : d.WF) : (addToTable d t rs).WF := by
  unfold Db.WF addToTable at *
  simp only [List.map_map]
  rw [← h]
  apply List.map_congr_left
  intro x _
  simp only [Function.comp]
  split <;> rfl

theorem addToTable_records (d : Db) (t : String) (rs : List Rec) (h : d.WF) (ht : (tableNames d.kind).contains t = true) :
    (addToTable d t rs).records.Perm (d.records ++ rs) := by
  cases hk : d.kind
  · obtain ⟨u, hu⟩ := wf_basic h hk
    simp [hk, tableNames] at ht
    simp [addToTable, Db.records, hu, ht]
  · obtain ⟨g, u, hu⟩ := wf_gff h hk
    simp [hk, tableNames] at ht
    rcases ht with ht | ht <;> simp [addToTable, Db.records, hu, ht]
    exact List.perm_append_comm.append_left g |>.trans (by simp) |>.symm
  · obtain ⟨g, u, hu⟩ := wf_gb h hk
    simp [hk, tableNames] at ht
    rcases ht with ht | ht <;> simp [addToTable, Db.records, hu, ht]
    exact List.perm_append_comm.append_left g |>.trans (by simp) |>.symm

theorem subset_wf (d d' : Db) (q : Query) (h : d.WF) (hs : subset d q = .ok d') : d'.WF := by
  unfold subset at hs
  split at hs
  · cases hs; exact empty_wf _
  · cases hs
    unfold Db.WF at *
    simp only [List.map_map]
    rw [← h]
    apply List.map_congr_left
    intro x _
    rfl

/-- what the spec's record list `m` must be for the model db `d` -/
def Holds (d : Db) (m : List Rec) : Prop := d.WF ∧ d.records.Perm m ∧ ∀ r ∈ m, r.start < r.stop

/-- register invariant: as many dbs as record lists, position by position `Holds` -/
def Inv (dbs : List Db) (ms : List (List Rec)) : Prop :=
  dbs.length = ms.length ∧ ∀ (j : Nat) (d : Db), dbs[j]? = some d → Holds d (ms[j]?.getD [])

theorem Inv.append {dbs ms} (h : Inv dbs ms) {d m} (hd : Holds d m) : Inv (dbs ++ [d]) (ms ++ [m]) := by
  refine ⟨by simp [h.1], ?_⟩
  intro j e he
  by_cases hj : j < dbs.length
  · rw [List.getElem?_append_left hj] at he
    rw [List.getElem?_append_left (h.1 ▸ hj)]
    exact h.2 j e he
  · have hj' : dbs.length ≤ j := Nat.le_of_not_lt hj
    rw [List.getElem?_append_right hj'] at he
    rw [List.getElem?_append_right (h.1 ▸ hj')]
    rw [← h.1]
    cases hjd : j - dbs.length with
    | zero =>
      rw [hjd] at he
      simp at he
      subst he
      simpa using hd
    | succ n => rw [hjd] at he; simp at he

theorem Inv.set {dbs ms} (h : Inv dbs ms) (i : Nat) {d m} (hd : Holds d m) : Inv (dbs.set i d) (ms.set i m) := by
  refine ⟨by simp [h.1], ?_⟩
  intro j e he
  rw [List.getElem?_set] at he
  rw [List.getElem?_set]
  by_cases hij : i = j
  · subst hij
    simp only [if_true] at he ⊢
    by_cases hl : i < dbs.length
    · simp only [hl, if_true, Option.some.injEq] at he
      subst he
      simpa [h.1 ▸ hl] using hd
    · simp [hl] at he
  · simp only [hij, if_false] at he ⊢
    exact h.2 j e he

theorem filter_lt {m : List Rec} (p : Rec → Bool) (h : ∀ r ∈ m, r.start < r.stop) : ∀ r ∈ m.filter p, r.start < r.stop :=
  fun r hr => h r (List.mem_filter.mp hr).1

/-- queries a `subset` call of a history may carry: anything, except that "both bounds + allow_partial" needs a proper window -/
def Op.ok : Op → Prop
  | .add _ r => r.start < r.stop
  | .addTable _ _ r => r.start < r.stop
  | .subset _ q => (q.allowPartial = false ∨ q.start = none ∨ q.stop = none) ∨ WindowOk q
  | _ => True

theorem step_inv (ok : ClausesOk) (dbs dbs' : List Db) (ms : List (List Rec)) (op : Op) (h : Inv dbs ms) (hop : op.ok)
    (hs : stepOp dbs op = .ok dbs') : Inv dbs' (specStep ms op) := by
  cases op with
  | new k =>
    cases hs
    exact h.append ⟨empty_wf k, by rw [empty_records], by simp⟩
  | add i r =>
    simp only [stepOp] at hs
    cases hd : dbs[i]? with
    | none => simp [hd] at hs
    | some d =>
      simp only [hd] at hs
      cases hs
      obtain ⟨h1, h2, h3⟩ := h.2 i d hd
      refine h.set i ⟨addToTable_wf _ _ _ h1, ?_, ?_⟩
      · have hu : (tableNames d.kind).contains "user" = true := by cases d.kind <;> decide
        exact (addToTable_records d "user" [r] h1 hu).trans (h2.append_right _)
      · intro x hx
        rcases List.mem_append.mp hx with hx | hx
        · exact h3 x hx
        · simp at hx; subst hx; exact hop
  | addTable i t r =>
    simp only [stepOp] at hs
    cases hd : dbs[i]? with
    | none => simp [hd] at hs
    | some d =>
      simp only [hd] at hs
      split at hs
      · rename_i ht
        cases hs
        obtain ⟨h1, h2, h3⟩ := h.2 i d hd
        refine h.set i ⟨addToTable_wf _ _ _ h1, (addToTable_records d t [r] h1 ht).trans (h2.append_right _), ?_⟩
        intro x hx
        rcases List.mem_append.mp hx with hx | hx
        · exact h3 x hx
        · simp at hx; subst hx; exact hop
      · cases hs
  | update i k s =>
    simp only [stepOp] at hs
    cases hd : dbs[i]? with
    | none => simp [hd] at hs
    | some d =>
      cases ho : dbs[k]? with
      | none => simp [hd, ho] at hs
      | some o =>
        simp only [hd, ho] at hs
        by_cases hik : i = k
        · simp only [hik, if_true] at hs
          cases hs
          simpa [specStep, hik] using h
        · simp only [hik, if_false] at hs
          cases hu : update d o s with
          | error e => simp [hu] at hs
          | ok d' =>
            simp only [hu] at hs
            cases hs
            obtain ⟨h1, h2, h3⟩ := h.2 i d hd
            obtain ⟨o1, o2, o3⟩ := h.2 k o ho
            obtain ⟨w, _, p⟩ := update_perm d o s d' h1 o1 hu
            simp only [specStep, hik, if_false]
            refine h.set i ⟨w, p.trans (h2.append (o2.filter _)), ?_⟩
            intro x hx
            rcases List.mem_append.mp hx with hx | hx
            · exact h3 x hx
            · exact filter_lt _ o3 x hx
  | union i k =>
    simp only [stepOp] at hs
    cases hd : dbs[i]? with
    | none => simp [hd] at hs
    | some d =>
      cases ho : dbs[k]? with
      | none => simp [hd, ho] at hs
      | some o =>
        simp only [hd, ho] at hs
        cases hu : union d o with
        | error e => simp [hu] at hs
        | ok d' =>
          simp only [hu] at hs
          cases hs
          obtain ⟨h1, h2, h3⟩ := h.2 i d hd
          obtain ⟨o1, o2, o3⟩ := h.2 k o ho
          obtain ⟨w, p⟩ := union_perm_aux d o d' h1 o1 hu
          refine h.append ⟨w, p.trans (h2.append o2), ?_⟩
          intro x hx
          rcases List.mem_append.mp hx with hx | hx
          · exact h3 x hx
          · exact o3 x hx
  | subset i q =>
    simp only [stepOp] at hs
    cases hd : dbs[i]? with
    | none => simp [hd] at hs
    | some d =>
      simp only [hd] at hs
      cases hu : subset d q with
      | error e => simp [hu] at hs
      | ok d' =>
        simp only [hu] at hs
        cases hs
        obtain ⟨h1, h2, h3⟩ := h.2 i d hd
        have hrows : ∀ r ∈ d.records, r.start < r.stop := fun r hr => h3 r (h2.mem_iff.mp hr)
        have hsel : ∀ t, (∀ r ∈ t, r.start < r.stop) → selectTable t q = linearScan t q := by
          intro t ht
          rcases hop with hn | hw
          · exact selectTable_nonpartial ok t q hn
          · exact selectTable_spec ok t q ht hw
        obtain ⟨d2, e1, _, e3⟩ := subset_filter_aux d q hrows hsel
        rw [hu] at e1
        cases e1
        refine h.append ⟨subset_wf d d' q h1 hu, ?_, filter_lt _ h3⟩
        rw [e3]
        exact h2.filter _
  | copy i =>
    simp only [stepOp] at hs
    cases hd : dbs[i]? with
    | none => simp [hd] at hs
    | some d =>
      simp only [hd] at hs
      cases hs
      exact h.append (h.2 i d hd)
  | copyJson i =>
    simp only [stepOp] at hs
    cases hd : dbs[i]? with
    | none => simp [hd] at hs
    | some d =>
      simp only [hd] at hs
      cases hs
      obtain ⟨h1, h2, h3⟩ := h.2 i d hd
      obtain ⟨w, _, p⟩ := jsonRoundTrip_memory_perm d h1
      exact h.append ⟨w, p.trans h2, h3⟩

theorem history_inv (ok : ClausesOk) (ops : List Op) : ∀ (dbs dbs' : List Db) (ms : List (List Rec)), Inv dbs ms →
    (∀ op ∈ ops, op.ok) → runHistory dbs ops = .ok dbs' → Inv dbs' (specHistory ms ops) := by
  induction ops with
  | nil => intro dbs dbs' ms h _ hr; cases hr; exact h
  | cons op ops ih =>
    intro dbs dbs' ms h hok hr
    simp only [runHistory] at hr
    cases hs : stepOp dbs op with
    | error e => simp [hs] at hr
    | ok d1 =>
      simp only [hs] at hr
      exact ih d1 dbs' _ (step_inv ok dbs d1 ms op h (hok op (List.mem_cons_self ..)) hs)
        (fun o ho => hok o (List.mem_cons_of_mem _ ho)) hr

end CogentModel.AnnotDb
