/-
  C18 helper lemmas: the score → HMM conversion yields a valid pair HMM with the expected entries.
  `P` is any linearly ordered field (the probabilities), the inputs `ed = exp(-d)`, `ee = exp(-e)`,
  `es a b = exp(Sd[a,b])` are arbitrary positive elements.
-/
import CogentModel.Model.ClassicHMM
import Mathlib.Tactic.Ring
import Mathlib.Tactic.FieldSimp
import Mathlib.Tactic.Linarith
import Mathlib.Tactic.Positivity
import Mathlib.Algebra.Order.Field.Basic
namespace CogentModel.ClassicHMM

variable {P : Type} [Field P] [LinearOrder P] [IsStrictOrderedRing P]

/-- row-stochastic with non-negative entries -/
def IsStochastic (A : M3 P) : Prop :=
  A.xx + A.xy + A.xm = 1 ∧ A.yx + A.yy + A.ym = 1 ∧ A.mx + A.my + A.mm = 1 ∧
  0 ≤ A.xx ∧ 0 ≤ A.xy ∧ 0 ≤ A.xm ∧ 0 ≤ A.yx ∧ 0 ≤ A.yy ∧ 0 ≤ A.ym ∧ 0 ≤ A.mx ∧ 0 ≤ A.my ∧ 0 ≤ A.mm

/-- the entries of `classic_gap_scores(d, e)` in closed form: gap extension `ee/(ee+1)`, gap close `1/(ee+1)`,
gap open `ed/(2 ed + 1)`, match→match `1/(2 ed + 1)`, and **no X↔Y transition** -/
theorem gapT_entries (ed ee : P) :
    gapT ed ee = ⟨ee / (ee + 1), 0, 1 / (ee + 1), 0, ee / (ee + 1), 1 / (ee + 1),
                  ed / (2 * ed + 1), ed / (2 * ed + 1), 1 / (2 * ed + 1)⟩ := by
  simp only [gapT, normalise, expNegC, M3.mk.injEq, add_zero, zero_add, zero_div, and_true, true_and]
  refine ⟨?_, ?_, ?_⟩ <;> congr 1 <;> ring

theorem gapT_stochastic (ed ee : P) (hd : 0 < ed) (he : 0 < ee) : IsStochastic (gapT ed ee) := by
  rw [gapT_entries]
  have h1 : (0 : P) < ee + 1 := by linarith
  have h2 : (0 : P) < 2 * ed + 1 := by linarith
  refine ⟨?_, ?_, ?_, ?_, ?_, ?_, ?_, ?_, ?_, ?_, ?_, ?_⟩
  · field_simp; ring
  · field_simp; ring
  · field_simp; ring
  all_goals positivity

theorem mul3_stochastic (A B : M3 P) (hA : IsStochastic A) (hB : IsStochastic B) : IsStochastic (mul3 A B) := by
  obtain ⟨a1, a2, a3, a4, a5, a6, a7, a8, a9, a10, a11, a12⟩ := hA
  obtain ⟨b1, b2, b3, b4, b5, b6, b7, b8, b9, b10, b11, b12⟩ := hB
  refine ⟨?_, ?_, ?_, ?_, ?_, ?_, ?_, ?_, ?_, ?_, ?_, ?_⟩
  · simp only [mul3]
    calc _ = A.xx * (B.xx + B.xy + B.xm) + A.xy * (B.yx + B.yy + B.ym) + A.xm * (B.mx + B.my + B.mm) := by ring
      _ = 1 := by rw [b1, b2, b3]; linarith
  · simp only [mul3]
    calc _ = A.yx * (B.xx + B.xy + B.xm) + A.yy * (B.yx + B.yy + B.ym) + A.ym * (B.mx + B.my + B.mm) := by ring
      _ = 1 := by rw [b1, b2, b3]; linarith
  · simp only [mul3]
    calc _ = A.mx * (B.xx + B.xy + B.xm) + A.my * (B.yx + B.yy + B.ym) + A.mm * (B.mx + B.my + B.mm) := by ring
      _ = 1 := by rw [b1, b2, b3]; linarith
  all_goals (simp only [mul3]; positivity)

theorem sqN_stochastic (k : Nat) : ∀ (A : M3 P), IsStochastic A → IsStochastic (sqN k A) := by
  induction k with
  | zero => intro A h; exact h
  | succ k ih => intro A h; exact ih _ (mul3_stochastic A A h h)

/-- the BEGIN row (`StationaryProbs`, row 0 of `T^1024`) is a probability distribution over X, Y, M -/
theorem begin_is_distribution (ed ee : P) (hd : 0 < ed) (he : 0 < ee) :
    stationary (gapT ed ee) 0 + stationary (gapT ed ee) 1 + stationary (gapT ed ee) 2 = 1 ∧
    0 ≤ stationary (gapT ed ee) 0 ∧ 0 ≤ stationary (gapT ed ee) 1 ∧ 0 ≤ stationary (gapT ed ee) 2 := by
  have h := sqN_stochastic 10 _ (gapT_stochastic ed ee hd he)
  exact ⟨h.1, h.2.2.2.1, h.2.2.2.2.1, h.2.2.2.2.2.1⟩

/-- the 5×5 matrix: every row BEGIN, X, Y, M is a distribution over X, Y, M (END is added with weight 1, as coded),
nothing enters BEGIN, and X↔Y is impossible -/
theorem fullMatrix_shape (ed ee : P) :
    fullMatrix (gapT ed ee) 1 2 = 0 ∧ fullMatrix (gapT ed ee) 2 1 = 0 ∧
    (∀ i, i ≤ 4 → fullMatrix (gapT ed ee) i 4 = 1) ∧ (∀ i, fullMatrix (gapT ed ee) i 0 = 0) ∧
    fullMatrix (gapT ed ee) 1 1 = ee / (ee + 1) ∧ fullMatrix (gapT ed ee) 1 3 = 1 / (ee + 1) ∧
    fullMatrix (gapT ed ee) 3 1 = ed / (2 * ed + 1) ∧ fullMatrix (gapT ed ee) 3 2 = ed / (2 * ed + 1) ∧
    fullMatrix (gapT ed ee) 3 3 = 1 / (2 * ed + 1) := by
  rw [gapT_entries]
  refine ⟨by simp [fullMatrix, M3.get], by simp [fullMatrix, M3.get], fun i hi => by simp [fullMatrix, hi],
    fun i => by simp [fullMatrix], by simp [fullMatrix, M3.get], by simp [fullMatrix, M3.get],
    by simp [fullMatrix, M3.get], by simp [fullMatrix, M3.get], by simp [fullMatrix, M3.get]⟩

/-! ### emissions -/

theorem sumTo_delta (c : P) (a : Nat) : ∀ n, sumTo (fun k => (if k = a then 1 else 0) * c) n = if a < n then c else 0 := by
  intro n
  induction n with
  | zero => simp [sumTo]
  | succ n ih =>
    simp only [sumTo, ih]
    by_cases h1 : a < n
    · have : ¬ n = a := by omega
      simp [h1, this, Nat.lt_succ_of_lt h1]
    · by_cases h2 : n = a
      · subst h2; simp
      · have : ¬ a < n + 1 := by omega
        simp [h1, h2, this]

theorem sumTo_pick (f : Nat → P) (g : P) (b : Nat) :
    ∀ n, sumTo (fun j => f j * ((if j = b then 1 else 0) / g)) n = if b < n then f b / g else 0 := by
  intro n
  induction n with
  | zero => simp [sumTo]
  | succ n ih =>
    simp only [sumTo, ih]
    by_cases h1 : b < n
    · have : ¬ n = b := by omega
      simp [h1, this, Nat.lt_succ_of_lt h1]
    · by_cases h2 : n = b
      · subst h2; simp [div_eq_mul_inv]
      · have : ¬ b < n + 1 := by omega
        simp [h1, h2, this]

/-- **match emission in closed form**: for motifs `a`, `b` of an alphabet of `n ≥ 1` motifs the kernel's match
probability is `n · exp(Sd[a, b])` (s1 motif first: the orientation the caller passed) -/
theorem matchProb_eq (n : Nat) (hn : 0 < n) (es : Nat → Nat → P) (a b : Nat) (ha : a < n) (hb : b < n) :
    matchProb n es a b = (n : P) * es a b := by
  have hn' : (n : P) ≠ 0 := by
    have : (0 : P) < (n : P) := by exact_mod_cast hn
    exact ne_of_gt this
  simp only [matchProb, sumTo_delta, ha, hb, if_true]
  rw [sumTo_pick (fun j => es a j / (1 / (n : P)) * (1 / (n : P))) (1 / (n : P)) b n, if_pos hb]
  field_simp

end CogentModel.ClassicHMM
