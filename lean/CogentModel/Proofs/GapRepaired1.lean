/-
  C18 / gap merging, glue 1: natural-number views of the dict quantities, and the reference row of the merge:
  `rowOf u reflen` is the pairwise reference row padded with the columns `_combined_refseq_gaps` lists.
-/
import CogentModel.Proofs.GapRows
import CogentModel.Proofs.GapInject
import CogentModel.Proofs.GapUnion
namespace CogentModel.GapMerge

def sumN (f : Nat → Nat) : Nat → Nat
  | 0 => 0
  | r + 1 => sumN f r + f r

/-- first column of the gap run in front of residue `r` -/
def stN (f : Nat → Nat) (r : Nat) : Nat := r + sumN f r

theorem glN_cast (g : Gaps) (hnn : ∀ e ∈ g, 0 ≤ e.2) (r : Nat) : ((glN g r : Nat) : Int) = gl g r := by
  have := gl_nonneg g hnn (r : Int)
  simp only [glN, gl] at this ⊢
  omega

theorem sumN_cast (g : Gaps) (len : Int) (h : GapsOK g len) (r : Nat) : ((sumN (glN g) r : Nat) : Int) = sumLt g r := by
  induction r with
  | zero =>
    have : sumLt g 0 = 0 := sumLt_all_ge g 0 (fun k hk => (h.range k hk).1)
    simp [sumN, this]
  | succ r ih =>
    have := sumLt_succ g h.nodup (r : Int)
    have hc := glN_cast g h.nonneg r
    simp only [sumN]
    push_cast
    omega

theorem stN_cast (g : Gaps) (len : Int) (h : GapsOK g len) (r : Nat) : ((stN (glN g) r : Nat) : Int) = startZ g r := by
  have := sumN_cast g len h r
  simp only [stN, startZ]; push_cast; omega

theorem colOf_cast (g : Gaps) (len : Int) (h : GapsOK g len) (r : Nat) :
    ((stN (glN g) r + glN g r : Nat) : Int) = colOf g r := by
  have h1 := stN_cast g len h r
  have h2 := glN_cast g h.nonneg r
  simp only [colOf, startZ] at *; push_cast; omega

theorem sumLt_total (g : Gaps) (len : Int) (h : GapsOK g len) (x : Int) (hx : len < x) : sumLt g x = total g :=
  sumLt_all_lt g x (fun k hk => by have := (h.range k hk).2; omega)

theorem rowFn_length (f : Nat → Nat) (n p : Nat) : (rowFn f n p).length + sumN f p = n + sumN f (p + n + 1) := by
  induction n generalizing p with
  | zero => simp [rowFn, sumN]; omega
  | succ n ih =>
    have := ih (p + 1)
    simp only [rowFn, List.length_append, List.length_replicate, List.length_cons]
    rw [show p + (n + 1) + 1 = p + 1 + n + 1 by omega]
    simp only [sumN] at this ⊢
    omega

/-- length of a row = sequence length + all gap characters -/
theorem rowOf_length (g : Gaps) (len : Int) (h : GapsOK g len) (hlen : 0 ≤ len) :
    ((rowOf g len).length : Int) = len + total g := by
  have hn : ((len.toNat : Nat) : Int) = len := Int.toNat_of_nonneg hlen
  have h1 := rowFn_length (glN g) len.toNat 0
  simp only [Nat.zero_add, sumN, Nat.add_zero] at h1
  have h2 := sumN_cast g len h (len.toNat + 1)
  have h3 := sumLt_total g len h ((len.toNat + 1 : Nat) : Int) (by push_cast; omega)
  rw [h3] at h2
  simp only [rowOf, rowFrom_eq_rowFn]
  have h1' : (((rowFn (glN g) len.toNat 0).length : Nat) : Int) = (len.toNat : Int) + (sumN (glN g) (len.toNat + 1) : Nat) := by
    exact_mod_cast h1
  omega

theorem sumRange_zero (k : Nat → Nat) (c0 cnt : Nat) (h : ∀ j, j < cnt → k (c0 + j) = 0) : sumRange k c0 cnt = 0 := by
  induction cnt generalizing c0 with
  | zero => rfl
  | succ cnt ih =>
    simp only [sumRange]
    rw [show k c0 = 0 by simpa using h 0 (by omega)]
    rw [ih (c0 + 1) (fun j hj => by have := h (j + 1) (by omega); rwa [show c0 + (j + 1) = c0 + 1 + j by omega] at this)]

/-- **the reference row**: in the window of reference position `i` only the last column carries an insertion, and
it carries exactly the missing gap length -/
theorem ref_window (rg u : Gaps) (reflen : Int) (hrg : GapsOK rg reflen) (hu : GapsOK u reflen)
    (H : MergeHyp rg u) (i : Nat) :
    glN u i = glN rg i + sumRange (glN (combinedRefseqGaps rg u)) (stN (glN rg) i) (glN rg i + 1) := by
  rw [sumRange_succ_right]
  have hz : sumRange (glN (combinedRefseqGaps rg u)) (stN (glN rg) i) (glN rg i) = 0 := by
    apply sumRange_zero
    intro j hj
    have hoff : gl (combinedRefseqGaps rg u) ((stN (glN rg) i + j : Nat) : Int) = 0 := by
      apply combined_gl_off rg u H
      intro p hp hc
      have hci := colOf_cast rg reflen hrg i
      have hsi := stN_cast rg reflen hrg i
      -- compare p with i
      rcases Int.lt_trichotomy p (i : Int) with hlt | heq | hgt
      · -- colOf p ≤ colOf (i-1) < start i
        have hi0 : 0 < i := by have := (hu.range p hp).1; omega
        have hm : colOf rg p ≤ colOf rg ((i : Int) - 1) := by
          by_cases he : p = (i : Int) - 1
          · rw [he]; exact Int.le_refl _
          · have := colOf_strictMono rg hrg.nodup hrg.nonneg p ((i : Int) - 1) (by omega); omega
        have hs := sumLt_succ rg hrg.nodup ((i : Int) - 1)
        rw [show (i : Int) - 1 + 1 = (i : Int) by omega] at hs
        simp only [colOf, startZ] at hm hsi hc
        push_cast at hc
        omega
      · subst heq
        have hg := glN_cast rg hrg.nonneg i
        simp only [colOf, startZ] at hsi hci hc
        push_cast at hc hci
        omega
      · have := colOf_strictMono rg hrg.nodup hrg.nonneg (i : Int) p hgt
        have hg := glN_cast rg hrg.nonneg i
        simp only [colOf, startZ] at hsi hci hc this
        push_cast at hc hci
        omega
    simp [glN, gl] at hoff ⊢
    simp [hoff]
  rw [hz, Nat.zero_add]
  have hat := combined_gl_at rg u H (i : Int)
  rw [← colOf_cast rg reflen hrg i] at hat
  have hd := H.dom (i : Int)
  have h1 := glN_cast u hu.nonneg i
  have h2 := glN_cast rg hrg.nonneg i
  have h3 : ((glN (combinedRefseqGaps rg u) (stN (glN rg) i + glN rg i) : Nat) : Int) =
      gl (combinedRefseqGaps rg u) ((stN (glN rg) i + glN rg i : Nat) : Int) :=
    glN_cast _ (combined_nonneg rg u H) _
  omega

end CogentModel.GapMerge
